import PycsepVerif.Proofs.FloatText
/-!
# The digit search returns THE shortest round-tripping decimal, the nearest one among the shortest

`FloatText.searchPairs` tries 1, 2, … significant digits and at each length only the two neighbours of `x` on the grid of
that length.  Here: if neither neighbour reads back as `x`, NO decimal of that length does (rounding is monotone, so the
set of decimals that read back as `x` is an interval around `x`); hence the length at which the search stops is minimal,
and the candidate it returns is the nearest to `x` among all decimals of that length that read back.  This is the
specification of `repr` (David Gay's mode 0) and of numpy's Dragon4 in "unique" mode; what stays validated (not proved) is
only that numpy / CPython implement that specification.
-/
namespace FloatText
open DecimalText Soft64

/-- the number of significant digits at which the search stops -/
def searchLevel (x : ℚ) : ℕ → ℕ → ℕ
  | 0, n => n
  | fuel + 1, n =>
    if ((candPairs x n).find? (fun p => fl64 (pairVal p) == x)).isSome then n else searchLevel x fuel (n + 1)

/-- exponent of the grid of `n`-significant-digit decimals around `x` -/
def gridExp (x : ℚ) (n : ℕ) : ℤ := ilog10 x - (n : ℤ) + 1

theorem grid_bracket (x s : ℚ) (hs : 0 < s) :
    ((⌊x / s⌋ : ℤ) : ℚ) * s ≤ x ∧ x < ((⌊x / s⌋ + 1 : ℤ) : ℚ) * s := by
  have h1 := Int.floor_le (x / s)
  have h2 := Int.lt_floor_add_one (x / s)
  constructor
  · calc ((⌊x / s⌋ : ℤ) : ℚ) * s ≤ x / s * s := mul_le_mul_of_nonneg_right h1 (le_of_lt hs)
      _ = x := by field_simp
  · push_cast
    calc x = x / s * s := by field_simp
      _ < ((⌊x / s⌋ : ℚ) + 1) * s := mul_lt_mul_of_pos_right h2 hs

theorem convex_below {x d c : ℚ} (hx : IsF64 x) (h1 : d ≤ c) (h2 : c ≤ x) (hd : fl64 d = x) : fl64 c = x := by
  apply le_antisymm
  · have := fl64_mono h2; rwa [hx] at this
  · rw [← hd]; exact fl64_mono h1

theorem convex_above {x d c : ℚ} (hx : IsF64 x) (h1 : x ≤ c) (h2 : c ≤ d) (hd : fl64 d = x) : fl64 c = x := by
  apply le_antisymm
  · rw [← hd]; exact fl64_mono h2
  · have := fl64_mono h1; rwa [hx] at this

/-- both grid neighbours of `x` are among the candidates -/
theorem candPairs_mem (x : ℚ) (n : ℕ) :
    ((x / pow10 (gridExp x n)).floor, gridExp x n) ∈ candPairs x n ∧
    ((x / pow10 (gridExp x n)).floor + 1, gridExp x n) ∈ candPairs x n := by
  unfold candPairs gridExp
  simp only
  split_ifs <;> simp

/-- every candidate is one of the two grid neighbours -/
theorem candPairs_are (x : ℚ) (n : ℕ) : ∀ p ∈ candPairs x n,
    p = ((x / pow10 (gridExp x n)).floor, gridExp x n) ∨ p = ((x / pow10 (gridExp x n)).floor + 1, gridExp x n) := by
  intro p hp
  unfold candPairs at hp
  simp only at hp
  unfold gridExp
  split_ifs at hp <;> simp only [List.mem_cons, List.not_mem_nil, or_false] at hp <;> tauto

/-- **if neither neighbour reads back as `x`, no point of the grid does** -/
theorem grid_none {x : ℚ} (hx : IsF64 x) (n : ℕ)
    (hnone : (candPairs x n).find? (fun p => fl64 (pairVal p) == x) = none) (k : ℤ) :
    fl64 ((k : ℚ) * pow10 (gridExp x n)) ≠ x := by
  intro hk
  have hs : 0 < pow10 (gridExp x n) := pow10_pos _
  obtain ⟨hb1, hb2⟩ := grid_bracket x (pow10 (gridExp x n)) hs
  obtain ⟨hm1, hm2⟩ := candPairs_mem x n
  have hall := List.find?_eq_none.mp hnone
  rw [← floor_eq] at hb1 hb2
  by_cases hle : k ≤ (x / pow10 (gridExp x n)).floor
  · have hkq : (k : ℚ) ≤ (((x / pow10 (gridExp x n)).floor : ℤ) : ℚ) := by exact_mod_cast hle
    have := convex_below hx (mul_le_mul_of_nonneg_right hkq (le_of_lt hs)) hb1 hk
    have h' := hall _ hm1
    simp only [pairVal, beq_iff_eq] at h'
    exact h' this
  · have hge : (x / pow10 (gridExp x n)).floor + 1 ≤ k := by omega
    have hkq : (((x / pow10 (gridExp x n)).floor + 1 : ℤ) : ℚ) ≤ (k : ℚ) := by exact_mod_cast hge
    have := convex_above hx (le_of_lt hb2) (mul_le_mul_of_nonneg_right hkq (le_of_lt hs)) hk
    have h' := hall _ hm2
    simp only [pairVal, beq_iff_eq] at h'
    exact h' this

/-- … and none of a COARSER grid either (its points are points of this grid) -/
theorem coarser_none {x : ℚ} (hx : IsF64 x) (n : ℕ)
    (hnone : (candPairs x n).find? (fun p => fl64 (pairVal p) == x) = none) (k j : ℤ) (hj : gridExp x n ≤ j) :
    fl64 ((k : ℚ) * pow10 j) ≠ x := by
  obtain ⟨m, hm⟩ : ∃ m : ℕ, j = gridExp x n + m := ⟨(j - gridExp x n).toNat, by omega⟩
  have : (k : ℚ) * pow10 j = ((k * 10 ^ m : ℤ) : ℚ) * pow10 (gridExp x n) := by
    rw [hm, pow10_eq_zpow, pow10_eq_zpow, zpow_add₀ (by norm_num : (10 : ℚ) ≠ 0), zpow_natCast]
    push_cast; ring
  rw [this]
  exact grid_none hx n hnone _

/-- **no decimal with at most `n` significant digits reads back as `x`** when the two neighbours of length `n` do not:
    `k·10^j` with `|k| < 10^n`, any exponent `j` -/
theorem no_decimal_of_length {x : ℚ} (hx : IsF64 x) (hpos : 0 < x) (n : ℕ) (hn : 1 ≤ n)
    (hnone : (candPairs x n).find? (fun p => fl64 (pairVal p) == x) = none) (k j : ℤ) (hk : |k| < 10 ^ n) :
    fl64 ((k : ℚ) * pow10 j) ≠ x := by
  by_cases hj : gridExp x n ≤ j
  · exact coarser_none hx n hnone k j hj
  · -- a finer grid with so few digits lies below 10^(ilog10 x) ≤ x: then 10^(ilog10 x), a point of the grid, would read back
    intro hfl
    have hxlo : pow2 (-1074) ≤ x := by
      by_contra hc
      have hs : x < pow2 (-1022) := lt_of_lt_of_le (not_le.mp hc) (pow2_mono (by norm_num))
      obtain ⟨m, hm1, _, hxm⟩ := subnormal_form hx hpos hs
      have : (1 : ℚ) ≤ (m : ℚ) := by exact_mod_cast hm1
      have hup : 0 < pow2 (-1074) := pow2_pos _
      rw [hxm] at hc
      nlinarith
    have hK := pow10_ilog10_le_sub hxlo
    have hlt : j + 1 ≤ gridExp x n := by omega
    have hkq : (k : ℚ) < (10 : ℚ) ^ n := by
      have : k < 10 ^ n := lt_of_le_of_lt (le_abs_self k) hk
      exact_mod_cast this
    have hd : (k : ℚ) * pow10 j ≤ pow10 (ilog10 x) := by
      have h1 : (k : ℚ) * pow10 j ≤ (10 : ℚ) ^ n * pow10 j := mul_le_mul_of_nonneg_right (le_of_lt hkq) (le_of_lt (pow10_pos _))
      have h2 : (10 : ℚ) ^ n * pow10 j = pow10 ((n : ℤ) + j) := by
        rw [pow10_eq_zpow, pow10_eq_zpow, zpow_add₀ (by norm_num : (10 : ℚ) ≠ 0), zpow_natCast]
      have h3 : pow10 ((n : ℤ) + j) ≤ pow10 (ilog10 x) := pow10_mono (by unfold gridExp at hlt; omega)
      linarith
    have hone := convex_below hx hd hK hfl
    have hgrid : gridExp x n ≤ ilog10 x := by unfold gridExp; omega
    have := coarser_none hx n hnone 1 (ilog10 x) hgrid
    apply this
    rw [Int.cast_one, one_mul]
    exact hone

/-- the search stops at `searchLevel` and returns one of the two neighbours of that length -/
theorem searchPairs_mem (x : ℚ) : ∀ (fuel n : ℕ), searchPairs x fuel n ∈ candPairs x (searchLevel x fuel n)
  | 0, n => by
    obtain ⟨a, b, h⟩ := candPairs_two x n
    simp [searchPairs, searchLevel, h]
  | fuel + 1, n => by
    unfold searchPairs searchLevel
    cases h : (candPairs x n).find? (fun p => fl64 (pairVal p) == x) with
    | some p => simpa using List.mem_of_find?_eq_some h
    | none => simpa using searchPairs_mem x fuel (n + 1)

theorem searchLevel_ge (x : ℚ) : ∀ (fuel n : ℕ), n ≤ searchLevel x fuel n
  | 0, n => le_refl _
  | fuel + 1, n => by
    unfold searchLevel
    split_ifs
    · exact le_refl _
    · exact le_trans (Nat.le_succ n) (searchLevel_ge x fuel (n + 1))

/-- every length below the one the search stops at has been refuted -/
theorem searchLevel_minimal (x : ℚ) : ∀ (fuel n n' : ℕ), n ≤ n' → n' < searchLevel x fuel n →
    (candPairs x n').find? (fun p => fl64 (pairVal p) == x) = none
  | 0, n, n', h1, h2 => by simp [searchLevel] at h2; omega
  | fuel + 1, n, n', h1, h2 => by
    unfold searchLevel at h2
    cases h : (candPairs x n).find? (fun p => fl64 (pairVal p) == x) with
    | some p => simp [h] at h2; omega
    | none =>
      simp only [h, Option.isSome_none, Bool.false_eq_true, if_false] at h2
      by_cases he : n' = n
      · rw [he]; exact h
      · exact searchLevel_minimal x fuel (n + 1) n' (by omega) h2

/-- **THE shortest**: no decimal with fewer significant digits than the search's result reads back as `x` -/
theorem shortest_is_shortest {x : ℚ} (hx : IsF64 x) (hpos : 0 < x) (n' : ℕ) (h1 : 1 ≤ n') (h2 : n' < searchLevel x 16 1)
    (k j : ℤ) (hk : |k| < 10 ^ n') : fl64 ((k : ℚ) * pow10 j) ≠ x :=
  no_decimal_of_length hx hpos n' h1 (searchLevel_minimal x 16 1 n' h1 h2) k j hk

/-- nearest-first order of the candidates -/
theorem candPairs_order (x : ℚ) (n : ℕ) : ∃ a b, candPairs x n = [a, b] ∧ |pairVal a - x| ≤ |pairVal b - x| := by
  have hs : 0 < pow10 (gridExp x n) := pow10_pos _
  obtain ⟨hb1, hb2⟩ := grid_bracket x (pow10 (gridExp x n)) hs
  rw [← floor_eq] at hb1 hb2
  have key : ∀ (r : ℚ), r = x / pow10 (gridExp x n) - ((x / pow10 (gridExp x n)).floor : ℚ) →
      x - ((x / pow10 (gridExp x n)).floor : ℚ) * pow10 (gridExp x n) = r * pow10 (gridExp x n) := by
    intro r hr; rw [hr]; field_simp
  have hlo := key _ rfl
  set s := pow10 (gridExp x n) with hsdef
  set lo := (x / s).floor with hlodef
  set r := x / s - (lo : ℚ) with hrdef
  have hup : ((lo + 1 : ℤ) : ℚ) * s - x = (1 - r) * s := by push_cast; linarith [hlo]
  have ha : |((lo : ℤ) : ℚ) * s - x| = r * s := by
    rw [abs_sub_comm, abs_of_nonneg (by linarith)]; exact hlo
  have hb : |((lo + 1 : ℤ) : ℚ) * s - x| = (1 - r) * s := by
    rw [abs_of_nonneg (by linarith)]; exact hup
  unfold candPairs
  simp only
  rw [show ilog10 x - (n : ℤ) + 1 = gridExp x n from rfl, ← hsdef, ← hlodef, ← hrdef]
  split_ifs with h1 h2 h3
  · exact ⟨_, _, rfl, by simp only [pairVal]; rw [← hsdef, ha, hb]; nlinarith⟩
  · exact ⟨_, _, rfl, by simp only [pairVal]; rw [← hsdef, ha, hb]; nlinarith⟩
  · exact ⟨_, _, rfl, by simp only [pairVal]; rw [← hsdef, ha, hb]; nlinarith⟩
  · exact ⟨_, _, rfl, by simp only [pairVal]; rw [← hsdef, ha, hb]; nlinarith⟩

/-- **nearest among the shortest**: the candidate the search picks at a length is at least as near to `x` as every
    point of that grid that reads back as `x` -/
theorem picked_is_nearest {x : ℚ} (hx : IsF64 x) (n : ℕ) (p : ℤ × ℤ)
    (hp : (candPairs x n).find? (fun p => fl64 (pairVal p) == x) = some p) (k : ℤ)
    (hk : fl64 ((k : ℚ) * pow10 (gridExp x n)) = x) :
    |pairVal p - x| ≤ |(k : ℚ) * pow10 (gridExp x n) - x| := by
  have hs : 0 < pow10 (gridExp x n) := pow10_pos _
  obtain ⟨hb1, hb2⟩ := grid_bracket x (pow10 (gridExp x n)) hs
  rw [← floor_eq] at hb1 hb2
  obtain ⟨a, b, hab, hord⟩ := candPairs_order x n
  have hmem := candPairs_are x n
  -- distance of any grid point to x is at least the distance of the neighbour on its side
  have side : ∀ q ∈ candPairs x n,
      (q.1 = (x / pow10 (gridExp x n)).floor → k ≤ (x / pow10 (gridExp x n)).floor →
        |pairVal q - x| ≤ |(k : ℚ) * pow10 (gridExp x n) - x|) ∧
      (q.1 = (x / pow10 (gridExp x n)).floor + 1 → (x / pow10 (gridExp x n)).floor + 1 ≤ k →
        |pairVal q - x| ≤ |(k : ℚ) * pow10 (gridExp x n) - x|) := by
    intro q hq
    have hq2 : q.2 = gridExp x n := by rcases hmem q hq with h | h <;> rw [h]
    constructor
    · intro h1 h2
      have hkq : (k : ℚ) ≤ (((x / pow10 (gridExp x n)).floor : ℤ) : ℚ) := by exact_mod_cast h2
      have := mul_le_mul_of_nonneg_right hkq (le_of_lt hs)
      simp only [pairVal, h1, hq2]
      rw [abs_sub_comm, abs_of_nonneg (by linarith), abs_sub_comm, abs_of_nonneg (by linarith)]
      linarith
    · intro h1 h2
      have hkq : ((((x / pow10 (gridExp x n)).floor + 1 : ℤ)) : ℚ) ≤ (k : ℚ) := by exact_mod_cast h2
      have := mul_le_mul_of_nonneg_right hkq (le_of_lt hs)
      simp only [pairVal, h1, hq2]
      rw [abs_of_nonneg (by linarith), abs_of_nonneg (by linarith)]
      linarith
  rw [hab] at hp hmem side
  -- which neighbour reads back on k's side
  by_cases hle : k ≤ (x / pow10 (gridExp x n)).floor
  · have hkq : (k : ℚ) ≤ (((x / pow10 (gridExp x n)).floor : ℤ) : ℚ) := by exact_mod_cast hle
    have hlo_ok := convex_below hx (mul_le_mul_of_nonneg_right hkq (le_of_lt hs)) hb1 hk
    -- the lower neighbour reads back; p is a, or a failed and p = b
    simp only [List.find?_cons] at hp
    by_cases hta : (fl64 (pairVal a) == x) = true
    · simp only [hta] at hp
      have hpa : p = a := (Option.some.inj hp).symm
      rw [hpa]
      rcases hmem a (by simp) with h | h
      · exact (side a (by simp)).1 (by rw [h]) hle
      · -- a is the upper neighbour and nearer than the lower one, which is nearer than k's point
        have hbl : b = ((x / pow10 (gridExp x n)).floor, gridExp x n) := by
          rcases hmem b (by simp) with h' | h'
          · exact h'
          · exfalso
            have := (candPairs_mem x n).1
            rw [hab] at this
            simp only [List.mem_cons, List.not_mem_nil, or_false] at this
            rcases this with e | e
            · rw [h] at e; simp at e
            · rw [h'] at e; simp at e
        exact le_trans hord ((side b (by simp)).1 (by rw [hbl]) hle)
    · have hta' : (fl64 (pairVal a) == x) = false := by simpa using hta
      simp only [hta'] at hp
      by_cases htb : (fl64 (pairVal b) == x) = true
      · simp only [htb] at hp
        have hpb : p = b := (Option.some.inj hp).symm
        rw [hpb]
        rcases hmem b (by simp) with h | h
        · exact (side b (by simp)).1 (by rw [h]) hle
        · -- b is the upper neighbour, so a is the lower one, which reads back: contradiction with a failing
          exfalso
          have hal : a = ((x / pow10 (gridExp x n)).floor, gridExp x n) := by
            rcases hmem a (by simp) with h' | h'
            · exact h'
            · exfalso
              have := (candPairs_mem x n).1
              rw [hab] at this
              simp only [List.mem_cons, List.not_mem_nil, or_false] at this
              rcases this with e | e
              · rw [h'] at e; simp at e
              · rw [h] at e; simp at e
          apply hta
          simp only [beq_iff_eq, hal, pairVal]
          exact hlo_ok
      · have htb' : (fl64 (pairVal b) == x) = false := by simpa using htb
        simp [htb'] at hp
  · have hge : (x / pow10 (gridExp x n)).floor + 1 ≤ k := by omega
    have hkq : ((((x / pow10 (gridExp x n)).floor + 1 : ℤ)) : ℚ) ≤ (k : ℚ) := by exact_mod_cast hge
    have hup_ok := convex_above hx (le_of_lt hb2) (mul_le_mul_of_nonneg_right hkq (le_of_lt hs)) hk
    simp only [List.find?_cons] at hp
    by_cases hta : (fl64 (pairVal a) == x) = true
    · simp only [hta] at hp
      have hpa : p = a := (Option.some.inj hp).symm
      rw [hpa]
      rcases hmem a (by simp) with h | h
      · have hbu : b = ((x / pow10 (gridExp x n)).floor + 1, gridExp x n) := by
          rcases hmem b (by simp) with h' | h'
          · exfalso
            have := (candPairs_mem x n).2
            rw [hab] at this
            simp only [List.mem_cons, List.not_mem_nil, or_false] at this
            rcases this with e | e
            · rw [h] at e; simp at e
            · rw [h'] at e; simp at e
          · exact h'
        exact le_trans hord ((side b (by simp)).2 (by rw [hbu]) hge)
      · exact (side a (by simp)).2 (by rw [h]) hge
    · have hta' : (fl64 (pairVal a) == x) = false := by simpa using hta
      simp only [hta'] at hp
      by_cases htb : (fl64 (pairVal b) == x) = true
      · simp only [htb] at hp
        have hpb : p = b := (Option.some.inj hp).symm
        rw [hpb]
        rcases hmem b (by simp) with h | h
        · exfalso
          have hau : a = ((x / pow10 (gridExp x n)).floor + 1, gridExp x n) := by
            rcases hmem a (by simp) with h' | h'
            · exfalso
              have := (candPairs_mem x n).2
              rw [hab] at this
              simp only [List.mem_cons, List.not_mem_nil, or_false] at this
              rcases this with e | e
              · rw [h'] at e; simp at e
              · rw [h] at e; simp at e
            · exact h'
          apply hta
          simp only [beq_iff_eq, hau, pairVal]
          exact hup_ok
        · exact (side b (by simp)).2 (by rw [h]) hge
      · have htb' : (fl64 (pairVal b) == x) = false := by simpa using htb
        simp [htb'] at hp

end FloatText
