import PycsepVerif.Proofs.FloatSumPairwise
import PycsepVerif.Proofs.Soft64Round
/-!
# Exact float summation of half-integers of bounded magnitude

If every term is a half-integer (`a / 2`, `a : ℤ`) and `Σ|x| ≤ 2^52`, then EVERY bracketing of the float sum is exact: each
partial sum is a half-integer of magnitude at most `2^52`, hence a float64 (`Soft64R.fl64_exact` with exponent −1). In
particular Python's `sum` (`seqSum`) and `numpy.sum` (`pairwiseSum`, through the C20 owner's `pwTree`: numpy's pairwise sum is a
bracketing of its terms and some zeros) return the exact rational sum, whatever the order of the terms. The ranks of the
Wilcoxon signed-rank test are half-integers ≤ n: their sums by `numpy.sum` are exact up to n(n+1)/2 ≤ 2^52.
Companion of `float_sum_integers_exact` / `numpy_sum_integers_exact` (Properties/C20_FloatSum.lean), which are about integers.
-/
namespace FloatSum
open Soft64 STree

/-- `a / 2` for an integer `a` -/
def HalfInt (x : ℚ) : Prop := ∃ a : ℤ, x = (a : ℚ) / 2

theorem HalfInt.zero : HalfInt 0 := ⟨0, by simp⟩

theorem HalfInt.add {x y : ℚ} (hx : HalfInt x) (hy : HalfInt y) : HalfInt (x + y) := by
  obtain ⟨a, rfl⟩ := hx
  obtain ⟨b, rfl⟩ := hy
  exact ⟨a + b, by push_cast; ring⟩

theorem HalfInt.ofInt (n : ℤ) : HalfInt (n : ℚ) := ⟨2 * n, by push_cast; ring⟩

theorem pow2_neg_one : pow2 (-1) = 1 / 2 := by
  norm_num [pow2]

/-- a half-integer of magnitude at most 2^52 is a float64 -/
theorem fl64_half_int {x : ℚ} (h : HalfInt x) (hb : |x| ≤ 2 ^ 52) : fl64 x = x := by
  obtain ⟨a, rfl⟩ := h
  have ha : |a| ≤ 2 ^ 53 := by
    have h1 : |(a : ℚ)| ≤ 2 ^ 53 := by
      have : |(a : ℚ) / 2| = |(a : ℚ)| / 2 := by rw [abs_div]; norm_num
      rw [this] at hb
      linarith
    exact_mod_cast h1
  have := Soft64R.fl64_exact (m := a) (j := -1) ha (by norm_num)
  rw [pow2_neg_one] at this
  have e : (a : ℚ) / 2 = (a : ℚ) * (1 / 2) := by ring
  rw [e]; exact this

/-- **every bracketing**: the float value of a summation tree over half-integers with `Σ|x| ≤ 2^52` is the exact sum -/
theorem evalF_exact_half : ∀ t : STree, (∀ x ∈ t.leaves, HalfInt x) → absSum t.leaves ≤ 2 ^ 52 →
    t.evalF = t.leaves.sum ∧ HalfInt t.leaves.sum
  | .leaf x, h, _ => by
    have := h x (by simp [leaves])
    simpa [evalF, leaves] using this
  | .node l r, h, hb => by
    rw [leaves, absSum_append] at hb
    have hnl := absSum_nonneg l.leaves
    have hnr := absSum_nonneg r.leaves
    obtain ⟨el, hl⟩ := evalF_exact_half l (fun x hx => h x (by simp [leaves, hx])) (by linarith)
    obtain ⟨er, hr⟩ := evalF_exact_half r (fun x hx => h x (by simp [leaves, hx])) (by linarith)
    have hs := HalfInt.add hl hr
    have hsl := abs_sum_le_absSum l.leaves
    have hsr := abs_sum_le_absSum r.leaves
    have hbd : |l.leaves.sum + r.leaves.sum| ≤ 2 ^ 52 := le_trans (abs_add_le _ _) (by linarith)
    refine ⟨?_, by simpa [leaves, List.sum_append] using hs⟩
    simp only [evalF, leaves, List.sum_append, el, er]
    exact fl64_half_int hs hbd

/-- two bracketings of permuted half-integers give the SAME float -/
theorem evalF_half_any_order (t t' : STree) (h : ∀ x ∈ t.leaves, HalfInt x) (hb : absSum t.leaves ≤ 2 ^ 52)
    (hp : t.leaves.Perm t'.leaves) : t.evalF = t'.evalF := by
  rw [(evalF_exact_half t h hb).1,
    (evalF_exact_half t' (fun x hx => h x (hp.mem_iff.mpr hx)) (by rw [← absSum_perm hp]; exact hb)).1, hp.sum_eq]

/-- **`numpy.sum` of half-integers with `Σ|x| ≤ 2^52` is exact** (all three branches of `pairwiseSum`, by the bracketing
    `pwTree`), hence the same for every storage order -/
theorem pairwiseSum_exact_of_dyadic (fuel : ℕ) (xs : List ℚ) (h : ∀ x ∈ xs, HalfInt x) (hb : absSum xs ≤ 2 ^ 52) :
    pairwiseSum fuel xs = xs.sum := by
  obtain ⟨m, hp⟩ := pwTree_leaves fuel xs
  have hh : ∀ x ∈ (pwTree fuel xs).leaves, HalfInt x := by
    intro x hx
    rcases List.mem_append.mp (hp.mem_iff.mp hx) with h0 | h1
    · rw [(List.mem_replicate.mp h0).2]; exact HalfInt.zero
    · exact h x h1
  have := (evalF_exact_half (pwTree fuel xs) hh (by rw [absSum_perm hp, absSum_zeros]; exact hb)).1
  rwa [pwTree_evalF, hp.sum_eq, sum_zeros] at this

/-- Python's `sum` / the last element of `numpy.cumsum` / `numpy.sum` of fewer than 8 terms -/
theorem seqSum_exact_half (xs : List ℚ) (h : ∀ x ∈ xs, HalfInt x) (hb : absSum xs ≤ 2 ^ 52) : seqSum xs = xs.sum := by
  have hl : (comb (leaf 0) xs).leaves = 0 :: xs := by simpa [leaves] using comb_leaves (leaf 0) xs
  have hh : ∀ x ∈ (comb (leaf 0) xs).leaves, HalfInt x := by
    intro x hx
    rw [hl] at hx
    rcases List.mem_cons.mp hx with rfl | h1
    · exact HalfInt.zero
    · exact h x h1
  have hab : absSum (comb (leaf 0) xs).leaves ≤ 2 ^ 52 := by
    rw [hl]; simpa [absSum, fabs] using hb
  have := (evalF_exact_half _ hh hab).1
  rw [comb_evalF, hl] at this
  simpa [seqSum, evalF] using this

end FloatSum
