import PycsepVerif.Model.EcdfCode
import PycsepVerif.Proofs.EcdfNumpy
import PycsepVerif.Proofs.Soft64

/-!
  Helper lemmas for Properties/C09_Code.lean: numpy's binary search returns the insertion point on every array on which
  the comparison is "true on a prefix" (in particular on sorted arrays); Python subscripts; the `ys` array of `ecdf`.
-/
namespace Ecdf

/-- the loop invariant of numpy's binary search: everything left of the result satisfies `p`, nothing from the result on -/
theorem bsearch_spec (p : Rat → Bool) (a : List Rat)
    (hp : ∀ i j, i ≤ j → j < a.length → p (a.getD j 0) = true → p (a.getD i 0) = true) :
    ∀ (lo hi : Nat), lo ≤ hi → hi ≤ a.length →
      (∀ i, i < lo → p (a.getD i 0) = true) → (∀ i, hi ≤ i → i < a.length → p (a.getD i 0) = false) →
      lo ≤ bsearch p a lo hi ∧ bsearch p a lo hi ≤ hi ∧
      (∀ i, i < bsearch p a lo hi → p (a.getD i 0) = true) ∧
      (∀ i, bsearch p a lo hi ≤ i → i < a.length → p (a.getD i 0) = false) := by
  intro lo hi
  induction h : hi - lo using Nat.strong_induction_on generalizing lo hi with
  | _ d ih =>
    intro hle hlen hlo hhi
    unfold bsearch
    by_cases hlt : lo < hi
    · simp only [hlt, if_true]
      by_cases hm : p (a.getD (lo + (hi - lo) / 2) 0) = true
      · simp only [hm, if_true]
        have hmid : lo + (hi - lo) / 2 < hi := by omega
        have := ih (hi - (lo + (hi - lo) / 2 + 1)) (by omega) (lo + (hi - lo) / 2 + 1) hi rfl (by omega) hlen
          (fun i hi' => hp i (lo + (hi - lo) / 2) (by omega) (by omega) hm) hhi
        exact ⟨by omega, this.2.1, this.2.2⟩
      · have hm' : p (a.getD (lo + (hi - lo) / 2) 0) = false := by simpa using hm
        simp only [hm', Bool.false_eq_true, if_false]
        have hmid : lo + (hi - lo) / 2 < hi := by omega
        have := ih ((lo + (hi - lo) / 2) - lo) (by omega) lo (lo + (hi - lo) / 2) rfl (by omega) (by omega) hlo
          (fun i hi' hil => by
            cases hpi : p (a.getD i 0) with
            | false => rfl
            | true => exact absurd (hp (lo + (hi - lo) / 2) i hi' hil hpi) hm)
        exact ⟨this.1, by omega, this.2.2⟩
    · simp only [hlt, if_false]
      have : lo = hi := by omega
      subst this
      exact ⟨Nat.le_refl _, Nat.le_refl _, hlo, hhi⟩

/-- a prefix/suffix split determines the length of `takeWhile` -/
theorem takeWhile_length_of_split (p : Rat → Bool) : ∀ (l : List Rat) (r : Nat), r ≤ l.length →
    (∀ i, i < r → p (l.getD i 0) = true) → (∀ i, r ≤ i → i < l.length → p (l.getD i 0) = false) →
    (l.takeWhile p).length = r
  | [], r, hr, _, _ => by simp at hr; simp [hr]
  | a :: t, 0, _, _, h2 => by
    have : p a = false := by simpa using h2 0 (Nat.le_refl _) (by simp)
    simp [List.takeWhile, this]
  | a :: t, r + 1, hr, h1, h2 => by
    have ha : p a = true := by simpa using h1 0 (by omega)
    simp only [List.takeWhile, ha, List.length_cons]
    congr 1
    apply takeWhile_length_of_split p t r (by simpa using hr)
    · intro i hi; simpa using h1 (i + 1) (by omega)
    · intro i hi hil; simpa using h2 (i + 1) (by omega) (by simpa using hil)

/-- numpy's binary search over the whole array returns the length of the `p`-prefix -/
theorem bsearch_eq_takeWhile (p : Rat → Bool) (a : List Rat)
    (hp : ∀ i j, i ≤ j → j < a.length → p (a.getD j 0) = true → p (a.getD i 0) = true) :
    bsearch p a 0 a.length = (a.takeWhile p).length := by
  have h := bsearch_spec p a hp 0 a.length (Nat.zero_le _) (Nat.le_refl _) (fun i hi => by omega)
    (fun i hi hil => by omega)
  exact (takeWhile_length_of_split p a _ h.2.1 h.2.2.1 h.2.2.2).symm

theorem sorted_getD_le {a : List Rat} (hs : a.Pairwise (fun x y => x ≤ y)) {i j : Nat} (hij : i ≤ j)
    (hj : j < a.length) : a.getD i 0 ≤ a.getD j 0 := by
  have hi : i < a.length := by omega
  have e1 : a.getD i 0 = a[i] := by simp [List.getD_eq_getElem?_getD, hi]
  have e2 : a.getD j 0 = a[j] := by simp [List.getD_eq_getElem?_getD, hj]
  rw [e1, e2]
  rcases Nat.lt_or_eq_of_le hij with h | h
  · exact (List.pairwise_iff_getElem.mp hs) i j hi hj h
  · subst h; exact Rat.le_refl

/-- side='left' on a sorted array: numpy's binary search = the insertion point `searchLeft` -/
theorem bsearch_left_sorted {a : List Rat} (hs : a.Pairwise (fun x y => x ≤ y)) (v : Rat) :
    bsearch (fun e => decide (e < v)) a 0 a.length = searchLeft a v := by
  unfold searchLeft
  apply bsearch_eq_takeWhile
  intro i j hij hj h
  simp only [decide_eq_true_eq] at *
  exact Std.lt_of_le_of_lt (sorted_getD_le hs hij hj) h

/-- side='right' on a sorted array -/
theorem bsearch_right_sorted {a : List Rat} (hs : a.Pairwise (fun x y => x ≤ y)) (v : Rat) :
    bsearch (fun e => decide (e ≤ v)) a 0 a.length = searchRight a v := by
  unfold searchRight
  apply bsearch_eq_takeWhile
  intro i j hij hj h
  simp only [decide_eq_true_eq] at *
  exact Rat.le_trans (sorted_getD_le hs hij hj) h

theorem bsearch_const_true (a : List Rat) : bsearch (fun _ => true) a 0 a.length = a.length := by
  rw [bsearch_eq_takeWhile _ _ (fun _ _ _ _ _ => rfl)]
  congr 1
  induction a with
  | nil => rfl
  | cons b t ih => simp [List.takeWhile, ih]

theorem bsearch_const_false (a : List Rat) : bsearch (fun _ => false) a 0 a.length = 0 := by
  rw [bsearch_eq_takeWhile _ _ (fun _ _ _ _ h => by simp at h)]
  cases a <;> simp [List.takeWhile]

/-! ## Python subscripts -/

theorem pyIndex_neg_one {β : Type} (a : List β) : pyIndex a (-1) = a.getLast? := by
  unfold pyIndex
  cases a with
  | nil => simp
  | cons b t =>
    have h1 : ¬ (0 : Int) ≤ -1 := by omega
    have h2 : ¬ (-1 + (((b :: t).length : Nat) : Int) < 0) := by
      simp only [List.length_cons]; omega
    rw [if_neg h1, if_neg h2, List.getLast?_eq_getElem?]
    congr 1
    simp only [List.length_cons]
    omega

theorem pyIndex_zero {β : Type} (a : List β) : pyIndex a 0 = a.head? := by
  unfold pyIndex; simp [List.head?_eq_getElem?]

theorem pyIndex_nat {β : Type} (a : List β) (i : Nat) : pyIndex a (i : Int) = a[i]? := by
  unfold pyIndex; simp

/-- `a[i - 1]` with `i = 0`: the subscript −1 is the LAST element -/
theorem pyIndex_pred {β : Type} (a : List β) (i : Nat) :
    pyIndex a ((i : Int) - 1) = if i = 0 then a.getLast? else a[i - 1]? := by
  cases i with
  | zero => simpa using pyIndex_neg_one a
  | succ k =>
    have : ((k + 1 : Nat) : Int) - 1 = (k : Int) := by omega
    rw [this, pyIndex_nat]; simp

/-! ## the `ys` array of `ecdf` -/

theorem eyArr_length (n : Nat) : (eyArr n).length = n := by simp [eyArr]

theorem eyArr_getElem? (n i : Nat) (h : i < n) :
    (eyArr n)[i]? = some (((i + 1 : Nat) : Rat) / ((n : Nat) : Rat)) := by
  simp [eyArr, h]

theorem eyArr_getLast? (n : Nat) (h : 0 < n) : (eyArr n).getLast? = some 1 := by
  rw [List.getLast?_eq_getElem?, eyArr_length, eyArr_getElem? n (n - 1) (by omega)]
  have : n - 1 + 1 = n := by omega
  rw [this]
  have hn : ((n : Nat) : Rat) ≠ 0 := by exact_mod_cast (by omega : n ≠ 0)
  simp [hn]

/-- `eyc = ey[::-1]`: entry `i` of the reversed array is `(n - i) / n` -/
theorem eyArr_reverse_getElem? (n i : Nat) (h : i < n) :
    (eyArr n).reverse[i]? = some (((n - i : Nat) : Rat) / ((n : Nat) : Rat)) := by
  rw [List.getElem?_reverse (by simpa [eyArr_length] using h), eyArr_length,
    eyArr_getElem? n (n - 1 - i) (by omega)]
  have : n - 1 - i + 1 = n - i := by omega
  rw [this]

theorem eyArr_reverse_getElem?_none (n i : Nat) (h : n ≤ i) : (eyArr n).reverse[i]? = none := by
  simp [eyArr_length, h]

end Ecdf
