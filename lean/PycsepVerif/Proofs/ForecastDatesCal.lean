import PycsepVerif.Proofs.DecYearQ
/-! The exact decimal year grows at most as fast as time in units of the SHORTEST year (the counterpart of
    `Time.decimalYearExact_lower`); used by `Properties/C11_Dates.lean` for test dates on the last day of the period. -/
namespace ForecastFile
open Time Soft64

theorem decimalYearExact_upper (a b : Int) (hab : a ≤ b) :
    decimalYearExact b - decimalYearExact a ≤ ((b - a : Int) : ℚ) / 31536000000000 := by
  rw [decimalYearExact_eq a, decimalYearExact_eq b]
  obtain ⟨a0, a1, _⟩ := year_bracket a
  obtain ⟨b0, b1, _⟩ := year_bracket b
  generalize (fields a).year = ya at *
  generalize (fields b).year = yb at *
  have sa := yearStartUs_succ ya
  have sb := yearStartUs_succ yb
  have la := yearLen_cases ya
  have lb := yearLen_cases yb
  simp only [usPerDay]
  have hLA : ((yearLen ya : Int) : ℚ) = 365 ∨ ((yearLen ya : Int) : ℚ) = 366 := by
    rcases la with h | h <;> simp [h]
  have hLB : ((yearLen yb : Int) : ℚ) = 365 ∨ ((yearLen yb : Int) : ℚ) = 366 := by
    rcases lb with h | h <;> simp [h]
  rcases lt_trichotomy ya yb with hlt | heq | hgt
  · have hbd' : yearStartUs (ya + 1) + 31536000000000 * (yb - (ya + 1)) ≤ yearStartUs yb := by
      have hbd := (yearStartDay_bounds (ya + 1) yb (by omega)).1
      simp only [yearStartUs, usPerDay]; omega
    have q1 : (yearStartUs ya : ℚ) + (yearLen ya : ℚ) * 86400000000
        + 31536000000000 * ((yb : ℚ) - ((ya : ℚ) + 1)) ≤ ((yearStartUs yb : Int) : ℚ) := by
      have := hbd'; rw [sa] at this; exact_mod_cast this
    have q2 : (yearStartUs ya : ℚ) ≤ (a : ℚ) := by exact_mod_cast a0
    have q3 : (a : ℚ) < (yearStartUs ya : ℚ) + (yearLen ya : ℚ) * 86400000000 := by
      have := a1; rw [sa] at this; exact_mod_cast this
    have q5 : (yearStartUs yb : ℚ) ≤ (b : ℚ) := by exact_mod_cast b0
    have q6 : (b : ℚ) < (yearStartUs yb : ℚ) + (yearLen yb : ℚ) * 86400000000 := by
      have := b1; rw [sb] at this; exact_mod_cast this
    push_cast
    generalize ((yearLen ya : Int) : ℚ) = LA at *
    generalize ((yearLen yb : Int) : ℚ) = LB at *
    generalize ((yearStartUs ya : Int) : ℚ) = SA at *
    generalize ((yearStartUs yb : Int) : ℚ) = SB at *
    rcases hLA with rfl | rfl <;> rcases hLB with rfl | rfl <;> linarith
  · subst heq
    have q0 : (a : ℚ) ≤ (b : ℚ) := by exact_mod_cast hab
    push_cast
    generalize ((yearLen ya : Int) : ℚ) = LA at *
    generalize ((yearStartUs ya : Int) : ℚ) = SA at *
    rcases hLA with rfl | rfl <;> linarith
  · exfalso
    have := (yearStartDay_bounds (yb + 1) ya (by omega)).1
    simp only [yearStartUs, usPerDay] at *
    omega

end ForecastFile
