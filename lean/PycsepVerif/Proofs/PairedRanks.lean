import PycsepVerif.Model.PairedRanks
import PycsepVerif.Proofs.PairedTests
import Mathlib.Tactic.Linarith

/-! The average rank is strictly increasing on the members of the list, so grouping the ranks (what the code does with
`numpy.unique(r, return_counts=True)`) is grouping the values. -/
namespace PairedTests

theorem countP_lt_add_eq_le (l : List Rat) {a b : Rat} (hab : a < b) :
    l.countP (fun x => decide (x < a)) + l.countP (fun x => decide (x = a)) ≤ l.countP (fun x => decide (x < b)) := by
  induction l with
  | nil => simp
  | cons x t ih =>
    rcases lt_trichotomy x a with h | h | h
    · have e1 : decide (x < a) = true := decide_eq_true h
      have e2 : decide (x = a) = false := decide_eq_false (ne_of_lt h)
      have e3 : decide (x < b) = true := decide_eq_true (lt_trans h hab)
      simp only [List.countP_cons, e1, e2, e3, if_true, if_false, Bool.false_eq_true]
      omega
    · have e1 : decide (x < a) = false := decide_eq_false (by rw [h]; exact lt_irrefl a)
      have e2 : decide (x = a) = true := decide_eq_true h
      have e3 : decide (x < b) = true := decide_eq_true (by rw [h]; exact hab)
      simp only [List.countP_cons, e1, e2, e3, if_true, if_false, Bool.false_eq_true]
      omega
    · have e1 : decide (x < a) = false := decide_eq_false (not_lt.mpr h.le)
      have e2 : decide (x = a) = false := decide_eq_false (ne_of_gt h)
      simp only [List.countP_cons, e1, e2, if_false, Bool.false_eq_true]
      split <;> omega

/-- a < b, b a member: the (doubled) average rank of a is strictly below that of b -/
theorem rank2_strictMono (l : List Rat) {a b : Rat} (hb : b ∈ l) (hab : a < b) : rank2 l a < rank2 l b := by
  unfold rank2
  have h1 := countP_lt_add_eq_le l hab
  have h2 : 0 < l.countP (fun x => decide (x = b)) := by
    rw [List.countP_pos_iff]; exact ⟨b, hb, by simp⟩
  omega

theorem rank2_injOn (l : List Rat) {a b : Rat} (ha : a ∈ l) (hb : b ∈ l) (h : rank2 l a = rank2 l b) : a = b := by
  rcases lt_trichotomy a b with hlt | heq | hgt
  · exact absurd h (ne_of_lt (rank2_strictMono l hb hlt))
  · exact heq
  · exact absurd h.symm (ne_of_lt (rank2_strictMono l ha hgt))

theorem eraseDups_map_of_injOn (f : Rat → Nat) :
    ∀ (n : Nat) (l : List Rat), l.length = n → (∀ a ∈ l, ∀ b ∈ l, f a = f b → a = b) →
      (l.map f).eraseDups = l.eraseDups.map f := by
  intro n
  induction n using Nat.strong_induction_on with
  | _ n ih =>
    intro l hl hinj
    cases l with
    | nil => simp
    | cons a as =>
      rw [List.map_cons, List.eraseDups_cons, List.eraseDups_cons, List.map_cons]
      congr 1
      have hf : (as.map f).filter (fun y => !y == f a) = (as.filter (fun b => !b == a)).map f := by
        rw [List.filter_map]
        congr 1
        apply List.filter_congr
        intro b hbm
        simp only [Function.comp]
        by_cases hba : b = a
        · simp [hba]
        · have : f b ≠ f a := fun e => hba (hinj b (List.mem_cons_of_mem a hbm) a (List.mem_cons_self) e)
          simp [hba, this]
      rw [hf]
      have hlen : (as.filter (fun b => !b == a)).length < n := by
        have := List.length_filter_le (fun b => !b == a) as
        simp at hl; omega
      exact ih _ hlen _ rfl (fun x hx y hy e =>
        hinj x (List.mem_cons_of_mem a (List.mem_filter.mp hx).1) y (List.mem_cons_of_mem a (List.mem_filter.mp hy).1) e)

theorem count_map_of_injOn (f : Rat → Nat) (l : List Rat) (hinj : ∀ a ∈ l, ∀ b ∈ l, f a = f b → a = b) {v : Rat}
    (hv : v ∈ l) : (l.map f).count (f v) = l.count v := by
  rw [List.count_eq_countP, List.count_eq_countP, List.countP_map]
  apply List.countP_congr
  intro b hb
  simp only [Function.comp, beq_iff_eq]
  constructor
  · intro e; exact hinj b hb v hv e
  · intro e; rw [e]

theorem tieTermRanks_eq (l : List Rat) : tieTermRanks l = tieTerm l := by
  unfold tieTermRanks tieTerm
  have hinj : ∀ a ∈ l, ∀ b ∈ l, rank2 l a = rank2 l b → a = b := fun a ha b hb e => rank2_injOn l ha hb e
  simp only
  rw [eraseDups_map_of_injOn (rank2 l) l.length l rfl hinj, List.map_map]
  congr 3
  apply List.map_congr_left
  intro v hv
  simp only [Function.comp]
  exact count_map_of_injOn (rank2 l) l hinj (List.mem_eraseDups.mp hv)

/-! ### SciPy's rank algorithm (sort, runs, scatter back) is the counting specification -/

theorem idxOf_sorted (y : List Rat) (hs : y.Pairwise (· ≤ ·)) {a : Rat} (ha : a ∈ y) :
    y.idxOf a = y.countP (fun b => decide (b < a)) := by
  induction y with
  | nil => simp at ha
  | cons b t ih =>
    rw [List.pairwise_cons] at hs
    by_cases hba : b = a
    · subst hba
      have hz : t.countP (fun x => decide (x < b)) = 0 := by
        rw [List.countP_eq_zero]
        intro x hx
        simp only [decide_eq_true_eq, not_lt]
        exact hs.1 x hx
      simp [hz]
    · have hat : a ∈ t := by
        rcases List.mem_cons.mp ha with h | h
        · exact absurd h.symm hba
        · exact h
      have hlt : b < a := lt_of_le_of_ne (hs.1 a hat) hba
      rw [List.idxOf_cons_ne _ hba, ih hs.2 hat, List.countP_cons]
      simp [hlt]

theorem rankdata2_eq (l : List Rat) : rankdata2 l = l.map (rank2 l) := by
  unfold rankdata2
  apply List.map_congr_left
  intro a ha
  set y := l.mergeSort (fun a b => decide (a ≤ b)) with hy
  have hperm : y.Perm l := List.mergeSort_perm l _
  have hsorted : y.Pairwise (· ≤ ·) := by
    have := List.pairwise_mergeSort (le := fun a b : Rat => decide (a ≤ b))
      (by intro a b c h1 h2; simp only [decide_eq_true_eq] at h1 h2 ⊢; exact le_trans h1 h2)
      (by intro a b; simp only [Bool.or_eq_true, decide_eq_true_eq]; exact le_total a b) l
    simpa using this
  have hay : a ∈ y := hperm.mem_iff.mpr ha
  rw [idxOf_sorted y hsorted hay, hperm.countP_eq, hperm.count_eq]
  unfold rank2
  have hc : l.count a = l.countP (fun b => decide (b = a)) := by
    rw [List.count_eq_countP]; congr 1
  have hpos : 0 < l.count a := List.count_pos_iff.mpr ha
  rw [← hc]
  omega

end PairedTests
