import PycsepVerif.Model.BinaryTests
import PycsepVerif.Proofs.BinaryBrier
import PycsepVerif.Properties.C06

/-! helper lemmas for the C16 test pipeline (wave 4): what the sampler model can and cannot place -/
namespace BinaryBrier
open Sampler

/-- the real view of a rate array given as binary64 values -/
def castR (rq : List ℚ) : List ℝ := List.map (fun (q : ℚ) => (q : ℝ)) rq

theorem bump_getD_ne {arr arr' : List Nat} {i : Nat} (h : bump arr i = some arr') (k : Nat) (hk : k ≠ i) :
    arr'.getD k 0 = arr.getD k 0 := by
  unfold bump at h
  split at h
  · cases h
    simp [List.getD_eq_getElem?_getD, List.getElem?_modify, Ne.symm hk]
  · cases h

/-- a cell whose count grew during the simulation was hit by one of the draws -/
theorem simulateFrom_hit (ws : List Rat) : ∀ (draws : List Rat) (arr arr' : List Nat),
    simulateFrom ws arr draws = some arr' → ∀ k, arr.getD k 0 < arr'.getD k 0 → ∃ r ∈ draws, searchRight ws r = k
  | [], arr, arr', h, k, hk => by simp [simulateFrom] at h; subst h; omega
  | r :: rs, arr, arr', h, k, hk => by
    simp only [simulateFrom] at h
    split at h
    · rename_i arr1 hb
      by_cases hki : k = searchRight ws r
      · exact ⟨r, List.mem_cons_self, hki.symm⟩
      · have e := bump_getD_ne hb k hki
        obtain ⟨r', hr', e'⟩ := simulateFrom_hit ws rs arr1 arr' h k (by omega)
        exact ⟨r', List.mem_cons_of_mem _ hr', e'⟩
    · cases h

theorem simulate_hit (ws : List Rat) (draws : List Rat) (arr : List Nat) (h : simulate ws draws = some arr)
    (k : Nat) (hk : 0 < arr.getD k 0) : ∃ r ∈ draws, searchRight ws r = k := by
  apply simulateFrom_hit ws draws _ arr h k
  have : (List.replicate ws.length 0).getD k 0 = 0 := by
    simp only [List.getD_eq_getElem?_getD, List.getElem?_replicate]
    split <;> rfl
  omega

/-- every array `simRows` returns is the simulation of one of the rows and passed the count assertion -/
theorem simRows_mem (ws : List Rat) (n : Nat) : ∀ (rows : List (List Rat)) (arrs : List (List Nat)),
    simRows ws n rows = some arrs → ∀ arr ∈ arrs, ∃ row ∈ rows, simulate ws row = some arr ∧ arr.sum = n
  | [], arrs, h => by simp [simRows] at h; subst h; simp
  | row :: rows, arrs, h => by
    simp only [simRows] at h
    split at h
    · rename_i arr hsim
      split at h
      · rename_i hc
        cases hr : simRows ws n rows with
        | none => rw [hr] at h; cases h
        | some rest =>
          rw [hr] at h
          simp only [Option.map_some, Option.some.injEq] at h
          subst h
          intro a ha
          rcases List.mem_cons.mp ha with rfl | ha'
          · exact ⟨row, List.mem_cons_self, hsim, by simpa [countAssert] using hc⟩
          · obtain ⟨row', hrow', hs⟩ := simRows_mem ws n rows rest hr a ha'
            exact ⟨row', List.mem_cons_of_mem _ hrow', hs⟩
      · cases h
    · cases h

theorem weightsMasked_length (rq : List Rat) : (weightsMasked rq).length = rq.length := by
  unfold weightsMasked; rw [weights_length, maskRates_length]

/-- **the sampler never activates a bin of rate ≤ 0**: every simulated array of the pipeline has the forecast's
    length, holds exactly `n` events, and all its active bins have a positive rate (draws ≥ 0). -/
theorem sim_active_pos (rq : List Rat) (n : Nat) (rows : List (List Rat)) (arrs : List (List Nat))
    (h : simRows (weightsMasked rq) n rows = some arrs) (hd : ∀ row ∈ rows, ∀ r ∈ row, 0 ≤ r) :
    ∀ a ∈ arrs, a.length = rq.length ∧ a.sum = n ∧ ∀ k, k < rq.length → 0 < a.getD k 0 → 0 < rq.getD k 0 := by
  intro a ha
  obtain ⟨row, hrow, hsim, hsum⟩ := simRows_mem _ _ _ _ h a ha
  have hc := count_conserved _ _ _ hsim
  refine ⟨by rw [hc.2, weightsMasked_length], hsum, ?_⟩
  intro k hk hpos
  by_contra hz
  obtain ⟨r, hr, e⟩ := simulate_hit _ _ _ hsim k hpos
  exact never_in_masked_bin rq k hk (not_lt.mp hz) r (hd row hrow r hr) e

theorem castR_length (rq : List ℚ) : (castR rq).length = rq.length := by unfold castR; exact List.length_map _

theorem castR_getElem (rq : List ℚ) (k : Nat) (h : k < rq.length) :
    (castR rq)[k]'(by rw [castR_length]; exact h) = ((rq[k] : ℚ) : ℝ) := by
  simp only [castR, List.getElem_map]

/-- bins of `(castR rq).zip a` by index -/
theorem mem_zip_castR {rq : List ℚ} {a : List ℕ} {p : ℝ × ℕ} (hp : p ∈ (castR rq).zip a) :
    ∃ k, k < rq.length ∧ p.1 = ((rq.getD k 0 : ℚ) : ℝ) ∧ p.2 = a.getD k 0 := by
  obtain ⟨k, hk, e⟩ := List.mem_iff_getElem.mp hp
  have hk' : k < rq.length ∧ k < a.length := by
    rw [List.length_zip, castR_length] at hk; omega
  refine ⟨k, hk'.1, ?_, ?_⟩
  · rw [← e, List.getElem_zip, castR_getElem rq k hk'.1]
    simp [List.getD_eq_getElem?_getD, List.getElem?_eq_getElem hk'.1]
  · rw [← e, List.getElem_zip]
    simp [List.getD_eq_getElem?_getD, List.getElem?_eq_getElem hk'.2]

/-- `simRows` fails as soon as one row has the wrong width (the count assertion) -/
theorem simRows_wrong_width (ws : List Rat) (n : Nat) : ∀ (rows : List (List Rat)),
    (∃ row ∈ rows, row.length ≠ n) → simRows ws n rows = none
  | [], h => by obtain ⟨_, hr, _⟩ := h; cases hr
  | row :: rows, h => by
    simp only [simRows]
    split
    · rename_i arr hsim
      have hc := count_conserved _ _ _ hsim
      by_cases hw : row.length = n
      · have hrest : simRows ws n rows = none := by
          apply simRows_wrong_width ws n rows
          obtain ⟨r', hr', hne⟩ := h
          rcases List.mem_cons.mp hr' with rfl | hr''
          · exact absurd hw hne
          · exact ⟨r', hr'', hne⟩
        rw [hrest]; split <;> rfl
      · have : countAssert arr n = false := by
          simp only [countAssert, beq_eq_false_iff_ne]; omega
        rw [this]; rfl
    · rfl

/-- with a drawable forecast and rows of the right width drawn from [0,1) the simulation never raises -/
theorem simRows_total (rates : List Rat) (hv : ValidRates rates) (n : Nat) : ∀ (rows : List (List Rat)),
    (∀ row ∈ rows, row.length = n ∧ ∀ r ∈ row, r < 1) → ∃ arrs, simRows (weights rates) n rows = some arrs
  | [], _ => ⟨[], rfl⟩
  | row :: rows, h => by
    obtain ⟨hl, hd⟩ := h row List.mem_cons_self
    obtain ⟨arr, hsim, hsum, _⟩ := simulate_total rates hv row hd
    obtain ⟨rest, hrest⟩ := simRows_total rates hv n rows (fun r hr => h r (List.mem_cons_of_mem _ hr))
    refine ⟨arr :: rest, ?_⟩
    simp only [simRows, hsim]
    have : countAssert arr n = true := by simp [countAssert, hsum, hl]
    rw [this, hrest]; rfl

/-- **default random path**: the simulated catalogs of `testBinaryStream` — one per simulation, each 0/1-valued with
    exactly `N` active cells, of the forecast's length, active only where the rate is positive (stream ≥ 0). -/
theorem stream_arrays_spec (rq : List Rat) (N : Nat) : ∀ (k : Nat) (stream : List Rat) (arrs : List (List Nat)),
    (∀ r ∈ stream, 0 ≤ r) → testBinaryStream (weightsMasked rq) N k stream = some arrs →
    arrs.length = k ∧ ∀ arr ∈ arrs, IsBinary arr ∧ arr.sum = N ∧ arr.length = rq.length ∧
      ∀ j, j < rq.length → 0 < arr.getD j 0 → 0 < rq.getD j 0
  | 0, stream, arrs, _, h => by simp [testBinaryStream] at h; subst h; simp
  | k + 1, stream, arrs, hd, h => by
    simp only [testBinaryStream] at h
    split at h
    · rename_i arr rest hsim
      cases hr : testBinaryStream (weightsMasked rq) N k rest with
      | none => rw [hr] at h; cases h
      | some tl =>
        rw [hr] at h
        simp only [Option.map_some, Option.some.injEq] at h
        subst h
        obtain ⟨used, hu⟩ := binary_sim_consumes_prefix _ _ _ _ _ hsim
        have hd' : ∀ r ∈ rest, 0 ≤ r := fun r hr' => hd r (by rw [hu]; exact List.mem_append_right _ hr')
        obtain ⟨hl, hall⟩ := stream_arrays_spec rq N k rest tl hd' hr
        obtain ⟨hb, _, hsum, hlen, hpos⟩ := binary_sim_distinct_count rq N stream arr rest hd hsim
        refine ⟨by simp [hl], ?_⟩
        intro a ha
        rcases List.mem_cons.mp ha with rfl | ha'
        · refine ⟨hb, hsum, hlen, ?_⟩
          intro j hj h0
          apply hpos j hj
          have hm : a.getD j 0 ∈ a := by
            have hj' : j < a.length := by rw [hlen]; exact hj
            simp [List.getD_eq_getElem?_getD, List.getElem?_eq_getElem hj']
          rcases hb _ hm with h' | h'
          · omega
          · exact h'
        · exact hall a ha'
    · cases h

end BinaryBrier
