import PycsepVerif.Model.PoissonLL
import PycsepVerif.Proofs.RealInst
import Mathlib.Tactic.Linarith
import Mathlib.Tactic.Ring
import Mathlib.Tactic.FieldSimp

/-! Helper lemmas for C05: `ELL ℝ` sums, the code-shaped joint log-likelihood as a sum of per-bin terms. -/
namespace PoissonLL
open RealOps

/-- finite? -/
def ellFin {α : Type} : ELL α → Bool
  | .fin _ => true
  | .negInf => false
/-- the finite value (0 for −∞; only used under `ellFin`) -/
def ellVal : ELL ℝ → ℝ
  | .fin a => a
  | .negInf => 0

theorem foldl_add_negInf (xs : List (ELL ℝ)) : xs.foldl ELL.add .negInf = .negInf := by
  induction xs with
  | nil => rfl
  | cons x xs ih => simpa [List.foldl_cons, ELL.add] using ih

theorem foldl_add_fin (xs : List (ELL ℝ)) (a : ℝ) :
    xs.foldl ELL.add (.fin a) = if xs.all ellFin then .fin (a + (xs.map ellVal).sum) else .negInf := by
  induction xs generalizing a with
  | nil => simp
  | cons x xs ih =>
    cases x with
    | negInf => simp [List.foldl_cons, ELL.add, ellFin, foldl_add_negInf]
    | fin b =>
      simp only [List.foldl_cons, ELL.add, real_add, ih, List.all_cons, ellFin, Bool.true_and, List.map_cons,
        ellVal, List.sum_cons]
      split <;> simp [add_assoc]

/-- the model's `ELL.sum` over ℝ: −∞ as soon as one summand is −∞, otherwise the real sum -/
theorem ellSum_eq (xs : List (ELL ℝ)) :
    ELL.sum xs = if xs.all ellFin then .fin ((xs.map ellVal).sum) else .negInf := by
  unfold ELL.sum
  rw [show (RealOps.zero : ℝ) = 0 from rfl, foldl_add_fin]
  simp

theorem ellSum_negInf_iff (xs : List (ELL ℝ)) : ELL.sum xs = .negInf ↔ ∃ x ∈ xs, x = .negInf := by
  rw [ellSum_eq]
  constructor
  · intro h
    split at h
    · cases h
    · rename_i hall
      simp only [List.all_eq_true, not_forall] at hall
      obtain ⟨x, hx, hf⟩ := hall
      refine ⟨x, hx, ?_⟩
      cases x with
      | negInf => rfl
      | fin a => simp [ellFin] at hf
  · rintro ⟨x, hx, rfl⟩
    have : ¬ (xs.all ellFin = true) := by
      simp only [List.all_eq_true, not_forall]
      exact ⟨.negInf, hx, by simp [ellFin]⟩
    simp [this]

/-- the per-bin term in closed form: empty bin −λ; occupied bin with λ ≤ 0 is −∞; else w·log λ − log w! − λ -/
noncomputable def cellLL (r : ℝ) (w : ℕ) : ELL ℝ :=
  if w = 0 then .fin (-r) else if r ≤ 0 then .negInf else .fin (Real.log r * w - Real.log (w.factorial : ℝ) - r)

theorem ellLog_real (x : ℝ) : ELL.log x = if x ≤ 0 then (ELL.negInf : ELL ℝ) else .fin (Real.log x) := by
  unfold ELL.log; simp

/-- all target bins have a positive rate -/
def targetsPos (bins : List (ℝ × ℕ)) : Prop := ∀ p ∈ bins, 0 < p.2 → 0 < p.1

theorem targets_all_fin (bins : List (ℝ × ℕ)) :
    (((targets bins).map (fun p => mulNat (ELL.log p.1) p.2)).all ellFin = true) ↔ targetsPos bins := by
  unfold targetsPos targets
  simp only [List.all_map, List.all_eq_true, List.mem_filter, decide_eq_true_eq, Function.comp, and_imp]
  constructor
  · intro h p hp hw
    have := h p hp hw
    rw [ellLog_real] at this
    by_contra hr
    simp [not_lt.mp hr, mulNat, ellFin] at this
  · intro h p hp hw
    have := h p hp hw
    rw [ellLog_real]; simp [not_le.mpr this, mulNat, ellFin]

theorem cells_all_fin (bins : List (ℝ × ℕ)) :
    ((bins.map (fun p => cellLL p.1 p.2)).all ellFin = true) ↔ targetsPos bins := by
  unfold targetsPos
  simp only [List.all_map, List.all_eq_true, Function.comp]
  constructor
  · intro h p hp hw
    have := h p hp
    unfold cellLL at this
    by_contra hr
    simp [Nat.pos_iff_ne_zero.mp hw, not_lt.mp hr, ellFin] at this
  · intro h p hp
    unfold cellLL
    by_cases hw : p.2 = 0
    · simp [hw, ellFin]
    · have := h p hp (Nat.pos_of_ne_zero hw)
      simp [hw, not_le.mpr this, ellFin]

theorem targets_cons (p : ℝ × ℕ) (bins : List (ℝ × ℕ)) :
    targets (p :: bins) = if 0 < p.2 then p :: targets bins else targets bins := by
  unfold targets; rw [List.filter_cons]; simp

theorem ellVal_target (r : ℝ) (w : ℕ) (hr : 0 < r) : ellVal (mulNat (ELL.log r) w) = Real.log r * w := by
  rw [ellLog_real, if_neg (not_le.mpr hr)]; rfl

theorem ellVal_cell_pos (r : ℝ) (w : ℕ) (hw : w ≠ 0) (hr : 0 < r) :
    ellVal (cellLL r w) = Real.log r * w - Real.log (w.factorial : ℝ) - r := by
  unfold cellLL; rw [if_neg hw, if_neg (not_le.mpr hr)]; rfl

theorem ellVal_cell_zero (r : ℝ) : ellVal (cellLL r 0) = -r := by
  unfold cellLL; rw [if_pos rfl]; rfl

/-- the real-number identity behind the code: (Σ_targets w·log λ) − (Σ_targets log w!) − Σ_all λ = Σ_all cell terms -/
theorem sums_agree (bins : List (ℝ × ℕ)) (h : targetsPos bins) :
    (((targets bins).map (fun p => mulNat (ELL.log p.1) p.2)).map ellVal).sum
      - ((targets bins).map (fun p => Real.log (p.2.factorial : ℝ))).sum - (bins.map (·.1)).sum
    = ((bins.map (fun p => cellLL p.1 p.2)).map ellVal).sum := by
  induction bins with
  | nil => simp [targets]
  | cons p bins ih =>
    have hp : 0 < p.2 → 0 < p.1 := h p List.mem_cons_self
    have ih' := ih (fun q hq => h q (List.mem_cons_of_mem _ hq))
    rw [targets_cons]
    by_cases hw : p.2 = 0
    · rw [if_neg (by omega)]
      simp only [List.map_cons, List.sum_cons]
      rw [hw, ellVal_cell_zero]
      linarith
    · have hw' : 0 < p.2 := Nat.pos_of_ne_zero hw
      have hr := hp hw'
      rw [if_pos hw']
      simp only [List.map_cons, List.sum_cons]
      rw [ellVal_target _ _ hr, ellVal_cell_pos _ _ hw hr]
      linarith

/-- the code-shaped joint log-likelihood with the total rate as expected count is the sum of the per-bin terms -/
theorem jointLL_eq_cells (bins : List (ℝ × ℕ)) :
    jointLL bins ((bins.map (·.1)).sum) = ELL.sum (bins.map (fun p => cellLL p.1 p.2)) := by
  unfold jointLL
  simp only [ellSum_eq, real_sum, real_logFact]
  by_cases h : targetsPos bins
  · rw [if_pos ((targets_all_fin bins).mpr h), if_pos ((cells_all_fin bins).mpr h)]
    simp only [subFin, real_sub]
    rw [← sums_agree bins h]
  · rw [if_neg (fun hh => h ((targets_all_fin bins).mp hh)), if_neg (fun hh => h ((cells_all_fin bins).mp hh))]
    rfl

theorem nFore_real (bins : List (ℝ × ℕ)) : nFore bins = (bins.map (·.1)).sum := by
  unfold nFore; rw [real_sum]

/-- Σ (λ_i · s) = (Σ λ_i) · s -/
theorem sum_scaled (bins : List (ℝ × ℕ)) (s : ℝ) :
    ((bins.map (fun p => (p.1 * s, p.2))).map (·.1)).sum = (bins.map (·.1)).sum * s := by
  induction bins with
  | nil => simp
  | cons p bins ih => simp only [List.map_cons, List.sum_cons, ih]; ring

/-! ### marginals -/

theorem sum_addRows (xs ys : List ℝ) : (addRows xs ys).sum = xs.sum + ys.sum := by
  induction xs generalizing ys with
  | nil => simp [addRows]
  | cons x xs ih =>
    cases ys with
    | nil => simp [addRows]
    | cons y ys => simp only [addRows, real_add, List.sum_cons, ih]; ring

theorem sum_addRowsN (xs ys : List ℕ) : (addRowsN xs ys).sum = xs.sum + ys.sum := by
  induction xs generalizing ys with
  | nil => simp [addRowsN]
  | cons x xs ih =>
    cases ys with
    | nil => simp [addRowsN]
    | cons y ys => simp only [addRowsN, List.sum_cons, ih]; omega

theorem sum_foldl_addRows (data : List (List ℝ)) (acc : List ℝ) :
    (data.foldl addRows acc).sum = acc.sum + data.flatten.sum := by
  induction data generalizing acc with
  | nil => simp
  | cons r data ih => simp only [List.foldl_cons, ih, sum_addRows, List.flatten_cons, List.sum_append]; ring

theorem sum_foldl_addRowsN (data : List (List ℕ)) (acc : List ℕ) :
    (data.foldl addRowsN acc).sum = acc.sum + data.flatten.sum := by
  induction data generalizing acc with
  | nil => simp
  | cons r data ih => simp only [List.foldl_cons, ih, sum_addRowsN, List.flatten_cons, List.sum_append]; omega

theorem length_addRowsN (xs ys : List ℕ) : (addRowsN xs ys).length = max xs.length ys.length := by
  induction xs generalizing ys with
  | nil => simp [addRowsN]
  | cons x xs ih =>
    cases ys with
    | nil => simp [addRowsN]
    | cons y ys => simp only [addRowsN, List.length_cons, ih]; omega

/-! ### small list facts used by Properties/C05 -/

theorem zip_fst {xs : List ℝ} {ys : List ℕ} (h : xs.length = ys.length) :
    (xs.zip ys).map (·.1) = xs := List.map_fst_zip (by omega)
theorem zip_snd {xs : List ℝ} {ys : List ℕ} (h : xs.length = ys.length) :
    (xs.zip ys).map (·.2) = ys := List.map_snd_zip (by omega)

theorem sum_nonneg_of_mem {row : List ℝ} (h : ∀ r ∈ row, 0 ≤ r) : 0 ≤ row.sum := List.sum_nonneg h

theorem addRows_nonneg {xs ys : List ℝ} (hx : ∀ r ∈ xs, 0 ≤ r) (hy : ∀ r ∈ ys, 0 ≤ r) :
    ∀ r ∈ addRows xs ys, 0 ≤ r := by
  induction xs generalizing ys with
  | nil => simpa [addRows] using hy
  | cons x xs ih =>
    cases ys with
    | nil => simpa [addRows] using hx
    | cons y ys =>
      intro r hr
      simp only [addRows, real_add, List.mem_cons] at hr
      rcases hr with rfl | hr
      · exact add_nonneg (hx x (by simp)) (hy y (by simp))
      · exact ih (fun r h => hx r (by simp [h])) (fun r h => hy r (by simp [h])) r hr

theorem foldl_addRows_nonneg (data : List (List ℝ)) (acc : List ℝ) (hacc : ∀ r ∈ acc, 0 ≤ r)
    (hnn : ∀ row ∈ data, ∀ r ∈ row, 0 ≤ r) : ∀ r ∈ data.foldl addRows acc, 0 ≤ r := by
  induction data generalizing acc with
  | nil => simpa using hacc
  | cons row data ih =>
    simp only [List.foldl_cons]
    exact ih _ (addRows_nonneg hacc (hnn row (by simp))) (fun row' h => hnn row' (by simp [h]))

theorem list_sum_nonpos (l : List ℝ) (h : ∀ x ∈ l, x ≤ 0) : l.sum ≤ 0 := by
  induction l with
  | nil => simp
  | cons a l ih =>
    simp only [List.sum_cons]
    have := h a List.mem_cons_self
    have := ih (fun x hx => h x (List.mem_cons_of_mem _ hx))
    linarith

theorem ellSum_map_fin {β : Type} (l : List β) (f : β → ℝ) :
    ELL.sum (l.map (fun x => ELL.fin (f x))) = .fin ((l.map f).sum) := by
  rw [ellSum_eq]
  have : (l.map (fun x => (ELL.fin (f x) : ELL ℝ))).all ellFin = true := by simp [List.all_map, ellFin]
  rw [if_pos this, List.map_map]; rfl

end PoissonLL
