import PycsepVerif.Proofs.NbdSum
import Mathlib.Topology.Algebra.InfiniteSum.NatInt

/-! First and second moments of the laws of `Model/NumberTest.lean`, from the recurrences alone:
    (k+1)·nb_r(k+1) = (r(1−p)/p)·nb_{r+1}(k) and (k+1)·pois(k+1) = μ·pois(k), so the weighted series are shifted
    copies of series that sum to one. -/
namespace NumberTest
open Finset

/-- a series whose 0-th term vanishes and whose (k+1)-st term is `c · g k` sums to `c` when `g` sums to one -/
theorem hasSum_shift_of_succ {f g : ℕ → ℝ} {c : ℝ} (h0 : f 0 = 0) (hs : ∀ k, f (k + 1) = c * g k)
    (hg : HasSum g 1) : HasSum f c := by
  have h1 : HasSum (fun k => f (k + 1)) c := by
    have := hg.mul_left c
    rw [mul_one] at this
    simpa [hs] using this
  have := (hasSum_nat_add_iff (f := f) 1).mp h1
  simpa [h0] using this

theorem hasSum_shift_of_succ' {f g : ℕ → ℝ} {c s : ℝ} (h0 : f 0 = 0) (hs : ∀ k, f (k + 1) = c * g k)
    (hg : HasSum g s) : HasSum f (c * s) := by
  have h1 : HasSum (fun k => f (k + 1)) (c * s) := by
    have := hg.mul_left c
    simpa [hs] using this
  have := (hasSum_nat_add_iff (f := f) 1).mp h1
  simpa [h0] using this

/-! ### Poisson -/

theorem poisPmf_shift (μ : ℝ) (k : ℕ) : ((k + 1 : ℕ) : ℝ) * poisPmf μ (k + 1) = μ * poisPmf μ k := by
  have h1 : ((k + 1 : ℕ) : ℝ) ≠ 0 := by positivity
  simp only [poisPmf, RealOps.real_div, RealOps.real_mul, RealOps.real_ofNat]
  field_simp

/-- the Poisson law of the model has mean μ -/
theorem poisPmf_mean (μ : ℝ) : HasSum (fun k : ℕ => (k : ℝ) * poisPmf μ k) μ :=
  hasSum_shift_of_succ (by simp) (fun k => poisPmf_shift μ k) (poisPmf_hasSum μ)

/-! ### negative binomial -/

theorem nbPmf_shift {r p : ℝ} (hp : 0 < p) (k : ℕ) :
    ((k + 1 : ℕ) : ℝ) * nbPmf r p (k + 1) = r * (1 - p) / p * nbPmf (r + 1) p k := by
  induction k with
  | zero =>
    have e : Real.exp ((r + 1) * Real.log p) = Real.exp (r * Real.log p) * p := by
      rw [add_mul, one_mul, Real.exp_add, Real.exp_log hp]
    simp only [nbPmf, RealOps.real_div, RealOps.real_mul, RealOps.real_ofNat, RealOps.real_add,
      RealOps.real_sub, RealOps.real_one, RealOps.real_exp, RealOps.real_log, e]
    field_simp
    push_cast
    ring
  | succ k ih =>
    have h1 : ((k + 1 : ℕ) : ℝ) ≠ 0 := by positivity
    have h2 : ((k + 1 + 1 : ℕ) : ℝ) ≠ 0 := by positivity
    have e : nbPmf r p (k + 1) = r * (1 - p) / p * nbPmf (r + 1) p k / ((k + 1 : ℕ) : ℝ) := by
      rw [← ih]; field_simp
    rw [nbPmf_ratio r p (k + 1), nbPmf_ratio (r + 1) p k, e]
    simp only [nbRatio, RealOps.real_div, RealOps.real_mul, RealOps.real_ofNat, RealOps.real_add,
      RealOps.real_sub, RealOps.real_one]
    push_cast
    field_simp
    ring

/-- E N = r(1−p)/p for the negative-binomial law of the model -/
theorem nbPmf_mean {r p : ℝ} (hp0 : 0 < p) (hp1 : p ≤ 1) :
    HasSum (fun k : ℕ => (k : ℝ) * nbPmf r p k) (r * (1 - p) / p) :=
  hasSum_shift_of_succ (by simp) (fun k => nbPmf_shift hp0 k) (nbPmf_hasSum hp0 hp1)

/-- E N(N−1) = r(r+1)((1−p)/p)² -/
theorem nbPmf_fact2 {r p : ℝ} (hp0 : 0 < p) (hp1 : p ≤ 1) :
    HasSum (fun k : ℕ => (k : ℝ) * ((k : ℝ) - 1) * nbPmf r p k)
      (r * (1 - p) / p * ((r + 1) * (1 - p) / p)) := by
  refine hasSum_shift_of_succ' (g := fun k : ℕ => (k : ℝ) * nbPmf (r + 1) p k) (by simp) ?_
    (nbPmf_mean (r := r + 1) hp0 hp1)
  intro k
  have := nbPmf_shift (r := r) hp0 k
  push_cast at this ⊢
  calc ((k : ℝ) + 1) * ((k : ℝ) + 1 - 1) * nbPmf r p (k + 1)
      = (k : ℝ) * (((k : ℝ) + 1) * nbPmf r p (k + 1)) := by ring
    _ = (k : ℝ) * (r * (1 - p) / p * nbPmf (r + 1) p k) := by rw [this]
    _ = r * (1 - p) / p * ((k : ℝ) * nbPmf (r + 1) p k) := by ring

/-- E (N − m)² for any centre m -/
theorem nbPmf_centred {r p : ℝ} (hp0 : 0 < p) (hp1 : p ≤ 1) (m : ℝ) :
    HasSum (fun k : ℕ => ((k : ℝ) - m) ^ 2 * nbPmf r p k)
      (r * (1 - p) / p * ((r + 1) * (1 - p) / p) + (1 - 2 * m) * (r * (1 - p) / p) + m ^ 2) := by
  have h := ((nbPmf_fact2 (r := r) hp0 hp1).add ((nbPmf_mean (r := r) hp0 hp1).mul_left (1 - 2 * m))).add
    ((nbPmf_hasSum (r := r) hp0 hp1).mul_left (m ^ 2))
  rw [mul_one] at h
  have e : (fun k : ℕ => ((k : ℝ) - m) ^ 2 * nbPmf r p k) = fun k : ℕ =>
      (k : ℝ) * ((k : ℝ) - 1) * nbPmf r p k + (1 - 2 * m) * ((k : ℝ) * nbPmf r p k) + m ^ 2 * nbPmf r p k := by
    funext k; ring
  rw [e]; exact h

end NumberTest
