import PycsepVerif.Proofs.Bin1dTables
/-! kernel-evaluated table (property C02): `tableOK` on a shipped grid; see Model/Bin1d.lean `probeOK` -/
namespace Bin1d.Tables
theorem tabMw1 : tableOK (cfg64 true) mwRaw [0, 1, 2, -1, -2] = true := by decide +kernel
end Bin1d.Tables
