import PycsepVerif.Proofs.Soft64

/-!
# Absolute error bound of `Soft64.fl64` by magnitude, and "close to an integer rounds to it"

On top of the shared lemma file `Proofs/Soft64.lean` (`fl64_err : |fl64 x - x| ≤ pow2 (ulpExp x) / 2`,
`ilog2_spec`): for `|x| < 2^k` (and `k ≥ -1021`, above the subnormal range) the unit in the last place of `x` is
at most `2^(k-53)`, hence `fl64_err_pow2 : |fl64 x - x| ≤ 2^(k-54)`.
-/
namespace Soft64

theorem pow2_lt_pow2_iff {a b : Int} : pow2 a < pow2 b ↔ a < b := by
  rw [pow2_eq_zpow, pow2_eq_zpow]; exact zpow_lt_zpow_iff_right₀ (by norm_num)

/-- a rational strictly within 1/2 of an integer rounds (half-even) to that integer -/
theorem roundHalfEven_eq_of_close (x : ℚ) (K : Int) (h : |x - (K : ℚ)| < 1 / 2) : roundHalfEven x = K := by
  rw [abs_lt] at h
  obtain ⟨hl, hu⟩ := h
  unfold roundHalfEven
  simp only
  by_cases hx : (K : ℚ) ≤ x
  · have hf : x.floor = K := by
      apply le_antisymm
      · have : x.floor < K + 1 := Rat.floor_lt_iff.mpr (by push_cast; linarith)
        omega
      · exact Rat.le_floor_iff.mpr hx
    rw [hf]
    rw [if_pos hu]
  · have hx' : x < (K : ℚ) := not_le.mp hx
    have hf : x.floor = K - 1 := by
      apply le_antisymm
      · have : x.floor < K := Rat.floor_lt_iff.mpr hx'
        omega
      · exact Rat.le_floor_iff.mpr (by push_cast; linarith)
    rw [hf]
    have h1 : ¬ (x - ((K - 1 : Int) : ℚ) < 1 / 2) := by push_cast; linarith
    have h2 : x - ((K - 1 : Int) : ℚ) > 1 / 2 := by push_cast; linarith
    simp only [h1, h2, if_false, if_true]
    omega

/-- if `0 < x < 2^k` then `ilog2 x < k` -/
theorem ilog2_lt {x : ℚ} (hx : 0 < x) {k : Int} (h : x < pow2 k) : ilog2 x < k :=
  pow2_lt_pow2_iff.mp (lt_of_le_of_lt (ilog2_spec hx).1 h)

theorem ulpExp_le {x : ℚ} (hx : x ≠ 0) {k : Int} (h : |x| < pow2 k) (hk : -1021 ≤ k) : ulpExp x ≤ k - 53 := by
  unfold ulpExp
  simp only
  have habs : (if x < 0 then -x else x) = |x| := by
    split
    · rename_i h'; rw [abs_of_neg h']
    · rename_i h'; rw [abs_of_nonneg (not_lt.mp h')]
  rw [habs]
  have := ilog2_lt (abs_pos.mpr hx) h
  split <;> omega

/-- **binary64 rounding error by magnitude**: `|x| < 2^k`, `k ≥ -1021`  ⟹  `|fl64 x - x| ≤ 2^(k-54)` -/
theorem fl64_err_pow2 (x : ℚ) (k : Int) (h : |x| < pow2 k) (hk : -1021 ≤ k) : |fl64 x - x| ≤ pow2 (k - 54) := by
  by_cases h0 : x = 0
  · subst h0; rw [fl64_zero]; simp; exact (pow2_pos _).le
  · have hule : pow2 (ulpExp x) ≤ pow2 (k - 53) := pow2_mono (ulpExp_le h0 h hk)
    have h54 : pow2 (k - 53) = 2 * pow2 (k - 54) := by
      have : k - 53 = (k - 54) + 1 := by ring
      rw [this, pow2_succ]
    have := fl64_err x
    linarith

end Soft64
