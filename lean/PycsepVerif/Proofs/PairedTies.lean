import PycsepVerif.Proofs.PairedTests
import Mathlib.Tactic.NormNum
import Mathlib.Tactic.Positivity

/-! The tie correction never exhausts the variance term: Σ_groups t(t²−1) ≤ c³ − c, hence se24 > 0 for c ≥ 1. -/
namespace PairedTests

/-- contribution of one group of t tied ranks (0 for t ≤ 1, as after the `repnum > 1` filter) -/
def tieOf (t : Nat) : Nat := if t > 1 then t * (t * t - 1) else 0

theorem tieTerm_eq (l : List Rat) : tieTerm l = ((l.eraseDups.map (fun v => l.count v)).map tieOf).sum := by
  unfold tieTerm
  generalize (l.eraseDups.map (fun v => l.count v)) = cs
  induction cs with
  | nil => rfl
  | cons t cs ih =>
    by_cases h : t > 1
    · simp [h, tieOf, ih]
    · simp [h, tieOf, ih]

theorem tieOf_le (t : Nat) : tieOf t + t ≤ t * t * t := by
  unfold tieOf
  split
  · have : 1 ≤ t * t := Nat.one_le_iff_ne_zero.mpr (by positivity)
    have : t * (t * t - 1) = t * t * t - t := by
      rw [Nat.mul_sub, Nat.mul_one, Nat.mul_assoc]
    have h2 : t ≤ t * t * t := by nlinarith
    omega
  · have : t = 0 ∨ t = 1 := by omega
    rcases this with rfl | rfl <;> simp

theorem tieTerm_cons (a : Rat) (as : List Rat) :
    tieTerm (a :: as) = tieOf ((a :: as).count a) + tieTerm (as.filter (fun b => !b == a)) := by
  rw [tieTerm_eq, tieTerm_eq, List.eraseDups_cons, List.map_cons, List.map_cons, List.sum_cons]
  congr 3
  apply List.map_congr_left
  intro v hv
  have hv' : v ∈ as.filter (fun b => !b == a) := List.mem_eraseDups.mp hv
  have hne : v ≠ a := by
    have := (List.mem_filter.mp hv').2
    simpa using this
  have hne' : ¬ a = v := fun h => hne h.symm
  rw [List.count_cons, List.count_filter (by simpa using hne)]
  simp [hne']

theorem tieTerm_le : ∀ (n : Nat) (l : List Rat), l.length = n → tieTerm l + l.length ≤ l.length * l.length * l.length := by
  intro n
  induction n using Nat.strong_induction_on with
  | _ n ih =>
    intro l hl
    cases l with
    | nil => simp [tieTerm]
    | cons a as =>
      have hlen : (as.filter (fun b => !b == a)).length ≤ as.length := List.length_filter_le _ _
      have ih' := ih (as.filter (fun b => !b == a)).length (by simp at hl; omega) _ rfl
      rw [tieTerm_cons]
      have ht := tieOf_le ((a :: as).count a)
      -- count a + #(others) = length
      have hsplit : (a :: as).count a + (as.filter (fun b => !b == a)).length = (a :: as).length := by
        have h1 : (a :: as).count a = as.count a + 1 := by simp
        have h2 : as.count a + (as.filter (fun b => !b == a)).length = as.length := by
          have h3 := List.length_eq_countP_add_countP (l := as) (fun b => b == a)
          have h4 : List.countP (fun a_1 => decide ¬(a_1 == a) = true) as
              = (as.filter (fun b => !b == a)).length := by
            rw [List.countP_eq_length_filter]; congr 2; funext b; by_cases hb : b = a <;> simp [hb]
          rw [h4] at h3
          simp only [List.count]
          omega
        simp only [List.length_cons]; omega
      generalize (a :: as).count a = t at *
      generalize (as.filter (fun b => !b == a)).length = s at *
      generalize tieTerm (as.filter (fun b => !b == a)) = T at *
      rw [← hsplit]
      nlinarith [Nat.zero_le (t * s * (t + s))]

/-- the variance term of the normal approximation is positive whenever some difference survives the zero removal -/
theorem se24_pos (d0 : List Rat) (h : 1 ≤ (wStatsD d0).count) : 0 < (wStatsD d0).se24 := by
  simp only [wStatsD] at h ⊢
  have hl : ((removeZeros d0).map absQ).length = (removeZeros d0).length := List.length_map _
  have ht := tieTerm_le _ ((removeZeros d0).map absQ) rfl
  rw [hl] at ht
  generalize (removeZeros d0).length = c at *
  generalize tieTerm ((removeZeros d0).map absQ) = T at *
  have hc : (1 : ℚ) ≤ (c : ℚ) := by exact_mod_cast h
  have hT : (T : ℚ) + c ≤ (c : ℚ) * c * c := by exact_mod_cast ht
  push_cast
  nlinarith [mul_pos (lt_of_lt_of_le one_pos hc) (lt_of_lt_of_le one_pos hc)]

end PairedTests
