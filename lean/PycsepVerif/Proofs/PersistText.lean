import PycsepVerif.Model.PersistText
import PycsepVerif.Proofs.Persist
/-!
# csv writer ∘ csv reader = identity on records (character level), and the text model of `csep_ascii` refines the
# record model of `Model/Persist.lean`
-/
namespace PersistText
open Persist Time

/-! ## the reader's state machine on what the writer produces -/

/-- none of the four characters that force quoting -/
def plainChar (c : Char) : Bool := !(c == ',' || c == '"' || c == '\r' || c == '\n')

theorem needsQuote_cons (c : Char) (cs : Str) : needsQuote (c :: cs) = (!plainChar c || needsQuote cs) := by
  simp [needsQuote, plainChar]

theorem plainChar_spec {c : Char} (h : plainChar c = true) :
    (c == ',') = false ∧ (c == '"') = false ∧ (c == '\r') = false ∧ (c == '\n') = false := by
  simp only [plainChar, Bool.not_eq_true', Bool.or_eq_false_iff] at h
  exact ⟨h.1.1.1, h.1.1.2, h.1.2, h.2⟩

/-- an unquoted run inside a field only accumulates -/
theorem fold_plain_inField (f : Str) (hf : needsQuote f = false) (cur : Str) (fields : List Str) (recs : List (List Str)) :
    f.foldl step ⟨.inField, cur, fields, recs⟩ = ⟨.inField, f.reverse ++ cur, fields, recs⟩ := by
  induction f generalizing cur with
  | nil => rfl
  | cons c cs ih =>
    rw [needsQuote_cons] at hf
    simp only [Bool.or_eq_false_iff, Bool.not_eq_false'] at hf
    obtain ⟨h1, h2, h3, h4⟩ := plainChar_spec hf.1
    simp only [List.foldl_cons, step, h1, h3, h4, Bool.or_self, Bool.false_eq_true, if_false]
    rw [ih hf.2]
    simp

/-- the body of a quoted field: doubled quotes collapse, everything else (line ends too) is kept -/
theorem fold_quoteBody (f : Str) (cur : Str) (fields : List Str) (recs : List (List Str)) :
    (quoteBody f).foldl step ⟨.inQuoted, cur, fields, recs⟩ = ⟨.inQuoted, f.reverse ++ cur, fields, recs⟩ := by
  induction f generalizing cur with
  | nil => rfl
  | cons c cs ih =>
    by_cases hc : c = '"'
    · subst hc
      simp only [quoteBody, beq_self_eq_true, if_true, List.foldl_cons, step]
      rw [ih]
      simp
    · have hb : (c == '"') = false := by simpa using hc
      simp only [quoteBody, hb, Bool.false_eq_true, if_false, List.foldl_cons, step]
      rw [ih]
      simp

/-- where the reader stands at the beginning of a field -/
def AtFieldStart (s : CsvState) : Prop := (s.st = .startField ∨ s.st = .startRecord) ∧ s.cur = []

/-- where the reader stands after the characters of a written field: the field's content is in `cur` -/
def AfterField (f : Str) (s s' : CsvState) : Prop :=
  s'.cur = f.reverse ∧ s'.fields = s.fields ∧ s'.recs = s.recs ∧
    (s'.st = .inField ∨ s'.st = .quoteInQuoted ∨ (s'.st = s.st ∧ f = []))

theorem writeField_nil_iff (f : Str) : writeField f = [] ↔ f = [] := by
  unfold writeField
  split
  · rename_i h
    constructor
    · intro h'; simp at h'
    · intro h'; subst h'; simp [needsQuote] at h
  · rfl

theorem fold_writeField (f : Str) (s : CsvState) (hs : AtFieldStart s) :
    AfterField f s ((writeField f).foldl step s) := by
  obtain ⟨st, cur, fields, recs⟩ := s
  obtain ⟨hst, hcur⟩ := hs
  simp only at hst hcur
  subst hcur
  unfold writeField
  by_cases hq : needsQuote f = true
  · -- quoted
    have h0 : step ⟨st, [], fields, recs⟩ '"' = ⟨.inQuoted, [], fields, recs⟩ := by
      rcases hst with h | h <;> subst h <;> simp [step, stepStartRecord, stepStartField]
    simp only [hq, if_true, List.foldl_cons, List.foldl_append, List.foldl_nil]
    rw [h0, fold_quoteBody]
    simp only [step, beq_self_eq_true, if_true, List.append_nil]
    exact ⟨rfl, rfl, rfl, Or.inr (Or.inl rfl)⟩
  · have hq' : needsQuote f = false := by simpa using hq
    simp only [hq', Bool.false_eq_true, if_false]
    cases f with
    | nil => exact ⟨rfl, rfl, rfl, Or.inr (Or.inr ⟨rfl, rfl⟩)⟩
    | cons c cs =>
      rw [needsQuote_cons] at hq'
      simp only [Bool.or_eq_false_iff, Bool.not_eq_false'] at hq'
      obtain ⟨h1, h2, h3, h4⟩ := plainChar_spec hq'.1
      have h0 : step ⟨st, [], fields, recs⟩ c = ⟨.inField, [c], fields, recs⟩ := by
        rcases hst with h | h <;> subst h <;> simp [step, stepStartRecord, stepStartField, h1, h2, h3, h4]
      simp only [List.foldl_cons, h0, fold_plain_inField cs hq'.2]
      exact ⟨by simp, rfl, rfl, Or.inl rfl⟩

/-- a delimiter after a written field closes the field -/
theorem step_comma_after (f : Str) (s s' : CsvState) (hs : AtFieldStart s) (h : AfterField f s s') :
    step s' ',' = ⟨.startField, [], f :: s.fields, s.recs⟩ := by
  obtain ⟨st', cur', fields', recs'⟩ := s'
  obtain ⟨hc, hf, hr, hst⟩ := h
  simp only at hc hf hr hst
  subst hc hf hr
  rcases hst with h | h | ⟨h, hf⟩
  · subst h; simp [step]
  · subst h; simp [step]
  · subst h
    rcases hs.1 with h' | h' <;> simp [step, stepStartRecord, stepStartField, h', hf]

/-- "\r\n" after a written field closes the record — unless nothing at all has been read of the record -/
theorem step_crlf_after (f : Str) (s s' : CsvState) (hs : s.st = .startField ∨ (s.st = .startRecord ∧ f ≠ []))
    (h : AfterField f s s') :
    step (step s' '\r') '\n' = ⟨.startRecord, [], [], (f :: s.fields).reverse :: s.recs⟩ := by
  obtain ⟨st', cur', fields', recs'⟩ := s'
  obtain ⟨hc, hf, hr, hst⟩ := h
  simp only at hc hf hr hst
  subst hc hf hr
  rcases hst with h | h | ⟨h, hf⟩
  · subst h; simp [step, afterNl, closeRecord]
  · subst h; simp [step, afterNl, closeRecord]
  · subst h
    rcases hs with h' | ⟨_, h'⟩
    · simp [step, stepStartField, afterNl, closeRecord, h', hf]
    · exact absurd hf h'

theorem fold_joinFields (fs : List Str) (hne : fs ≠ []) (s : CsvState)
    (hs : (s.st = .startField ∨ (s.st = .startRecord ∧ fs ≠ [[]])) ∧ s.cur = []) :
    (joinFields fs ++ ['\r', '\n']).foldl step s
      = ⟨.startRecord, [], [], (fs.reverse ++ s.fields).reverse :: s.recs⟩ := by
  induction fs generalizing s with
  | nil => exact absurd rfl hne
  | cons f rest ih =>
    have hstart : AtFieldStart s := ⟨by rcases hs.1 with h | h; exact Or.inl h; exact Or.inr h.1, hs.2⟩
    have hA := fold_writeField f s hstart
    cases rest with
    | nil =>
      simp only [joinFields, List.foldl_append, List.foldl_cons, List.foldl_nil]
      rw [step_crlf_after f s _ _ hA]
      · simp
      · rcases hs.1 with h | ⟨h, h'⟩
        · exact Or.inl h
        · exact Or.inr ⟨h, by intro hf; subst hf; exact h' rfl⟩
    | cons g rest' =>
      have : joinFields (f :: g :: rest') = writeField f ++ ',' :: joinFields (g :: rest') := rfl
      rw [this]
      simp only [List.foldl_append, List.foldl_cons, List.append_assoc, List.cons_append]
      rw [step_comma_after f s _ hstart hA]
      have := ih (by simp) ⟨.startField, [], f :: s.fields, s.recs⟩ ⟨Or.inl rfl, rfl⟩
      simp only [List.foldl_append, List.foldl_cons, List.foldl_nil] at this
      rw [this]
      simp

/-- one written record, read from the beginning of a record -/
theorem fold_writeRecord (fs : List Str) (recs : List (List Str)) :
    (writeRecord fs).foldl step ⟨.startRecord, [], [], recs⟩ = ⟨.startRecord, [], [], fs :: recs⟩ := by
  unfold writeRecord
  by_cases h1 : fs = [[]]
  · subst h1
    simp [step, stepStartRecord, stepStartField, afterNl, closeRecord]
  · by_cases h0 : fs = []
    · subst h0
      simp [joinFields, step, stepStartRecord, afterNl]
    · simp only [h1, if_false]
      rw [fold_joinFields fs h0 _ ⟨Or.inr ⟨rfl, h1⟩, rfl⟩]
      simp

theorem fold_writeRecords (rs : List (List Str)) (recs : List (List Str)) :
    (writeRecords rs).foldl step ⟨.startRecord, [], [], recs⟩ = ⟨.startRecord, [], [], rs.reverse ++ recs⟩ := by
  induction rs generalizing recs with
  | nil => rfl
  | cons r rs ih =>
    simp only [writeRecords, List.flatMap_cons, List.foldl_append] at ih ⊢
    rw [fold_writeRecord, ih]
    simp

/-- **csv round trip, character level, no hypothesis**: whatever the records and cells are (delimiters, quotes, line
    ends inside cells, empty cells, empty records), the reader returns exactly what the writer was given -/
theorem csvRead_writeRecords (rs : List (List Str)) : csvRead (writeRecords rs) = rs := by
  unfold csvRead CsvState.init
  rw [fold_writeRecords]
  simp [finish]

/-- … also when the new records are appended to a text that was written earlier (`open(…, 'a')`) -/
theorem csvRead_append (a b : List (List Str)) : csvRead (writeRecords a ++ writeRecords b) = a ++ b := by
  have : writeRecords a ++ writeRecords b = writeRecords (a ++ b) := by simp [writeRecords]
  rw [this, csvRead_writeRecords]

/-! ## `readRecords` on the cells of well-formed lines = `Persist.readLines` -/

/-- what the text model needs to know about the float text codec: the word `lon` is not a number -/
def HeaderSafe (c : FloatCodec Str) : Prop := c.dec "lon".toList = none ∧ ∀ x, c.enc x ≠ "lon".toList

theorem parseRecord_row (c : FloatCodec Str) (i : Nat) (r : Row Str) :
    parseRecord c i (recordOf (.row r)) = (match parseRow c i r with | .ok v => .ok v | .error e => .error (liftErr e)) := by
  unfold parseRecord parseRow recordOf floatCell cell
  simp only [List.getElem?_cons_zero, List.getElem?_cons_succ]
  cases h1 : c.dec r.lon <;> cases h2 : c.dec r.lat <;> cases h3 : c.dec r.mag <;>
    cases h4 : readerParse r.time <;> cases h5 : c.dec r.depth <;>
    simp [liftErr, bind, Except.bind, pure, Except.pure, h1, h2, h3, h4, h5]

/-- a result of the record model seen from the text model -/
def liftRes {α} : Except ReadErr α → Except TextErr α
  | .ok v => .ok v
  | .error e => .error (liftErr e)

/-- **refinement**: on the cells of a list of file records (header records and data records whose first cell is not the
    word `lon`) the cell-by-cell loop of `csep_ascii` is the record-level loop `Persist.readLines` -/
theorem readRecords_lines (c : FloatCodec Str) (hc : c.dec "lon".toList = none) (ls : List (Line Str))
    (h : ∀ r, Line.row r ∈ ls → r.lon ≠ "lon".toList) (first : Bool) (i : Nat) :
    readRecords c first i (ls.map recordOf) = liftRes (readLines c first i ls) := by
  induction ls generalizing first i with
  | nil => rfl
  | cons l rest ih =>
    have hrest : ∀ r, Line.row r ∈ rest → r.lon ≠ "lon".toList := fun r hr => h r (List.mem_cons_of_mem _ hr)
    cases l with
    | header =>
      cases first
      · -- a header record after the first event is read as data: float('lon') raises
        have hc' : c.dec ['l', 'o', 'n'] = none := hc
        simp [readRecords, readLines, recordOf, headerRecord, parseRecord, floatCell, cell, hc', liftRes, liftErr,
          bind, Except.bind]
      · simp only [List.map_cons, readRecords, readLines, recordOf, headerRecord, isHeader, if_true, beq_self_eq_true]
        exact ih hrest true (i + 1)
    | row r =>
      have hl : (r.lon == ['l', 'o', 'n']) = false := by
        have : r.lon ≠ ['l', 'o', 'n'] := h r (by simp)
        simpa using this
      have hh : (if first = true then isHeader (recordOf (.row r)) else Except.ok false) = Except.ok false := by
        cases first <;> simp [isHeader, recordOf, hl]
      simp only [List.map_cons, readRecords, hh, readLines, parseRecord_row]
      cases hp : parseRow c i r with
      | error e => simp [liftRes]
      | ok v =>
        obtain ⟨ev, cid⟩ := v
        simp only [ih hrest false (i + 1)]
        cases hr : readLines c false (i + 1) rest with
        | error e => simp [liftRes]
        | ok w =>
          obtain ⟨evs, later⟩ := w
          cases later <;> simp [liftRes]

end PersistText
