import PycsepVerif.Model.QuadGridding
import PycsepVerif.Proofs.Gridding
import PycsepVerif.Proofs.Quadtree
import PycsepVerif.Properties.C03
import PycsepVerif.Properties.C17

/-! helper lemmas for `Properties/C03_Quadtree.lean` and `Properties/C17_Gridding.lean` -/
namespace QuadGridding
open Quadtree Gridding

/-- the four comparisons of `_find_location` on the bounds row of a key are the tile membership of C17 -/
theorem unitBounds_test (k : Key) (p : Pt) :
    ((unitBounds k).1 ≤ (unitPoint p).1 ∧ (unitBounds k).2.1 ≤ (unitPoint p).2 ∧
      (unitPoint p).1 < (unitBounds k).2.2.1 ∧ (unitPoint p).2 < (unitBounds k).2.2.2) ↔ InTile k p := by
  have hs := scale_pos k
  unfold unitBounds unitPoint InTile xW xE yN yS
  simp only
  rw [div_le_iff₀ hs, lt_div_iff₀ hs, sub_le_sub_iff_left, sub_lt_sub_iff_left, le_div_iff₀ hs, div_lt_iff₀ hs]
  constructor
  · rintro ⟨a, b, c, d⟩; exact ⟨a, c, d, b⟩
  · rintro ⟨a, c, d, b⟩; exact ⟨a, b, c, d⟩

theorem qtFind_unitBounds (cells : List Key) (p : Pt) :
    qtFind (cells.map unitBounds) (unitPoint p) = findLocation cells p := by
  unfold qtFind findLocation
  rw [List.findIdx?_map]
  congr 1
  funext k
  have h := unitBounds_test k p
  simp only [Function.comp, inTile]
  by_cases hk : InTile k p
  · have := h.mpr hk
    simp [hk, this.1, this.2.1, this.2.2.1, this.2.2.2]
  · have hn : ¬ _ := fun hh => hk (h.mp hh)
    simp only [hk, decide_false]
    by_contra hc
    apply hn
    simp only [Bool.and_eq_true, decide_eq_true_eq, Bool.not_eq_false] at hc
    exact ⟨hc.1.1.1, hc.1.1.2, hc.1.2, hc.2⟩

/-- on a prefix-free key list the lookup returns `i` exactly for the points of cell `i` -/
theorem findLocation_eq_some_iff {cells : List Key} (hpf : prefixFree cells) (p : Pt) (i : Nat) (hi : i < cells.length) :
    findLocation cells p = some i ↔ InTile cells[i] p := by
  constructor
  · intro h
    obtain ⟨_, hin, _⟩ := (locate_spec cells p).1 i h
    exact hin
  · intro h
    exact (locate_spec cells p).2.2 hpf i hi h

theorem findLocation_lt {cells : List Key} {p : Pt} {i : Nat} (h : findLocation cells p = some i) : i < cells.length := by
  obtain ⟨hi, _, _⟩ := (locate_spec cells p).1 i h
  exact hi

/-- every recorded `num` of `from_catalog` is the count of its leaf (no hypothesis on zoom) -/
theorem fromCatalog_count {thr zoom : Nat} {pts : List Pt} {l : Key} {n : Nat}
    (h : (l, n) ∈ fromCatalog thr zoom pts) : n = count pts l := by
  unfold fromCatalog roots at h
  simp only [List.flatMap_cons, List.flatMap_nil, List.append_nil, List.mem_append] at h
  rcases h with h | h | h | h <;> exact createTile_count h

/-- sum of a count vector whose indices are all inside -/
theorem sum_countVec (n : Nat) (l : List (Option Nat)) (h : ∀ o ∈ l, ∀ k, o = some k → k < n) :
    (countVec n l).sum = l.countP (·.isSome) := by
  have := (magCounts_ignores_below_min n l).2.2 h
  rwa [magnitudeCounts_eq] at this

end QuadGridding
