import PycsepVerif.Model.GriddingExt
import PycsepVerif.Proofs.Gridding
import Mathlib.Tactic.Linarith
import Mathlib.Algebra.Order.Field.Rat

/-! helper lemmas for property C03, helpers part (Model/GriddingExt.lean) -/
namespace Gridding

/-! ### Python's `min` / `max` -/

theorem minL_lt_iff : ∀ (l : List Rat) (m c : Rat), minL m l < c ↔ m < c ∨ ∃ x ∈ l, x < c
  | [], m, c => by simp [minL]
  | x :: xs, m, c => by
    unfold minL
    rw [minL_lt_iff xs]
    by_cases h : x < m
    · simp only [h, if_true, List.mem_cons, exists_eq_or_imp]
      constructor
      · rintro (h1 | h1)
        · exact Or.inr (Or.inl h1)
        · exact Or.inr (Or.inr h1)
      · rintro (h1 | h1 | h1)
        · exact Or.inl (lt_trans h h1)
        · exact Or.inl h1
        · exact Or.inr h1
    · simp only [h, if_false, List.mem_cons, exists_eq_or_imp]
      constructor
      · rintro (h1 | h1)
        · exact Or.inl h1
        · exact Or.inr (Or.inr h1)
      · rintro (h1 | h1 | h1)
        · exact Or.inl h1
        · exact Or.inl (lt_of_le_of_lt (not_lt.mp h) h1)
        · exact Or.inr h1

theorem lt_maxL_iff : ∀ (l : List Rat) (m c : Rat), c < maxL m l ↔ c < m ∨ ∃ x ∈ l, c < x
  | [], m, c => by simp [maxL]
  | x :: xs, m, c => by
    unfold maxL
    rw [lt_maxL_iff xs]
    by_cases h : m < x
    · simp only [h, if_true, List.mem_cons, exists_eq_or_imp]
      constructor
      · rintro (h1 | h1)
        · exact Or.inr (Or.inl h1)
        · exact Or.inr (Or.inr h1)
      · rintro (h1 | h1 | h1)
        · exact Or.inl (lt_trans h1 h)
        · exact Or.inl h1
        · exact Or.inr h1
    · simp only [h, if_false, List.mem_cons, exists_eq_or_imp]
      constructor
      · rintro (h1 | h1)
        · exact Or.inl h1
        · exact Or.inr (Or.inr h1)
      · rintro (h1 | h1 | h1)
        · exact Or.inl h1
        · exact Or.inl (lt_of_lt_of_le h1 (not_lt.mp h))
        · exact Or.inr h1

/-- `min(head, *tail) < c` ⇔ some element is `< c` -/
theorem minL_cons_lt_iff (x : Rat) (xs : List Rat) (c : Rat) : minL x xs < c ↔ ∃ y ∈ x :: xs, y < c := by
  rw [minL_lt_iff]; simp

theorem lt_maxL_cons_iff (x : Rat) (xs : List Rat) (c : Rat) : c < maxL x xs ↔ ∃ y ∈ x :: xs, c < y := by
  rw [lt_maxL_iff]; simp

/-- the minimum is a lower bound -/
theorem minL_le (x : Rat) (xs : List Rat) : ∀ y ∈ x :: xs, minL x xs ≤ y := by
  intro y hy
  by_contra h
  have h' : y < minL x xs := not_le.mp h
  have : ¬ (minL x xs < minL x xs) := lt_irrefl _
  exact this ((minL_cons_lt_iff x xs _).mpr ⟨y, hy, h'⟩)

theorem le_maxL (x : Rat) (xs : List Rat) : ∀ y ∈ x :: xs, y ≤ maxL x xs := by
  intro y hy
  by_contra h
  have h' : maxL x xs < y := not_le.mp h
  exact lt_irrefl _ ((lt_maxL_cons_iff x xs _).mpr ⟨y, hy, h'⟩)

/-! ### the bounding box of the tiles -/

theorem bboxS_le (bounds : List (Rat × Rat × Rat × Rat)) : ∀ b ∈ bounds, bboxS bounds ≤ b.2.1 := by
  intro b hb
  unfold bboxS
  cases hm : bounds.map (·.2.1) with
  | nil => rw [List.map_eq_nil_iff] at hm; subst hm; simp at hb
  | cons y ys =>
    simp only
    apply minL_le
    rw [← hm]
    exact List.mem_map.mpr ⟨b, hb, rfl⟩

theorem le_bboxN (bounds : List (Rat × Rat × Rat × Rat)) : ∀ b ∈ bounds, b.2.2.2 ≤ bboxN bounds := by
  intro b hb
  unfold bboxN
  cases hm : bounds.map (·.2.2.2) with
  | nil => rw [List.map_eq_nil_iff] at hm; subst hm; simp at hb
  | cons y ys =>
    simp only
    apply le_maxL
    rw [← hm]
    exact List.mem_map.mpr ⟨b, hb, rfl⟩

/-! ### the two filter stages in closed form -/

theorem magStage_eq (minEdge : Rat) (evs : List Row) :
    magStage minEdge evs = evs.filter (fun e => decide (minEdge ≤ e.mag)) := by
  unfold magStage
  cases hm : evs.map Row.mag with
  | nil => rw [List.map_eq_nil_iff] at hm; subst hm; rfl
  | cons m ms =>
    simp only
    by_cases h : minL m ms < minEdge
    · simp [h]
    · simp only [h, if_false]
      symm
      rw [List.filter_eq_self]
      intro e he
      have : e.mag ∈ m :: ms := by rw [← hm]; exact List.mem_map.mpr ⟨e, he, rfl⟩
      have hle := minL_le m ms _ this
      simp only [decide_eq_true_eq]
      exact le_trans (not_lt.mp h) hle

/-- some latitude lies strictly beyond the bounds: the condition of regions.py:1123 -/
def latTrig (S N : Rat) (evs : List Row) : Bool := evs.any fun e => decide (e.lat < S) || decide (N < e.lat)

theorem latStage_eq (S N : Rat) (evs : List Row) :
    latStage S N evs =
      if latTrig S N evs then evs.filter (fun e => decide (S ≤ e.lat) && decide (e.lat < N)) else evs := by
  unfold latStage
  cases hm : evs.map Row.lat with
  | nil => rw [List.map_eq_nil_iff] at hm; subst hm; simp [latTrig]
  | cons y ys =>
    simp only
    have hcond : (minL y ys < S ∨ N < maxL y ys) ↔ latTrig S N evs = true := by
      rw [minL_cons_lt_iff, lt_maxL_cons_iff, ← hm]
      unfold latTrig
      rw [List.any_eq_true]
      constructor
      · rintro (⟨v, hv, hlt⟩ | ⟨v, hv, hlt⟩)
        · obtain ⟨e, he, rfl⟩ := List.mem_map.mp hv
          exact ⟨e, he, by simp [hlt]⟩
        · obtain ⟨e, he, rfl⟩ := List.mem_map.mp hv
          exact ⟨e, he, by simp [hlt]⟩
      · rintro ⟨e, he, h⟩
        simp only [Bool.or_eq_true, decide_eq_true_eq] at h
        rcases h with h | h
        · exact Or.inl ⟨e.lat, List.mem_map.mpr ⟨e, he, rfl⟩, h⟩
        · exact Or.inr ⟨e.lat, List.mem_map.mpr ⟨e, he, rfl⟩, h⟩
    by_cases h : latTrig S N evs = true
    · rw [if_pos (hcond.mpr h), if_pos h, List.filter_filter]
    · rw [if_neg (fun hc => h (hcond.mp hc)), if_neg h]

/-- the latitude condition as seen from the ORIGINAL catalog: an event that survives the magnitude filter lies
    strictly beyond a latitude bound -/
def triggered (minEdge S N : Rat) (evs : List Row) : Bool :=
  evs.any fun e => decide (minEdge ≤ e.mag) && (decide (e.lat < S) || decide (N < e.lat))

/-- the events the helpers keep -/
def keepB (minEdge S N : Rat) (trig : Bool) (e : Row) : Bool :=
  decide (minEdge ≤ e.mag) && (!trig || (decide (S ≤ e.lat) && decide (e.lat < N)))

theorem latTrig_magStage (minEdge S N : Rat) (evs : List Row) :
    latTrig S N (magStage minEdge evs) = triggered minEdge S N evs := by
  rw [magStage_eq]
  unfold latTrig triggered
  rw [List.any_filter]

theorem stages_eq (minEdge S N : Rat) (evs : List Row) :
    latStage S N (magStage minEdge evs) = evs.filter (keepB minEdge S N (triggered minEdge S N evs)) := by
  rw [latStage_eq, latTrig_magStage, magStage_eq]
  by_cases h : triggered minEdge S N evs = true
  · rw [if_pos h, List.filter_filter]
    apply List.filter_congr
    intro e _
    simp [keepB, h, Bool.and_comm]
  · rw [if_neg h]
    apply List.filter_congr
    intro e _
    have : triggered minEdge S N evs = false := by simpa using h
    simp [keepB, this]

/-- content of the catalog object after `preFilter`, in every case (also when an exception escapes) -/
theorem preFilter_state (minEdge S N : Rat) (evs : List Row) :
    (preFilter minEdge S N evs).2 = evs.filter (keepB minEdge S N (triggered minEdge S N evs)) := by
  unfold preFilter
  cases evs with
  | nil => simp
  | cons e0 es =>
    simp only [List.isEmpty_cons, Bool.false_eq_true, if_false]
    by_cases h1 : (magStage minEdge (e0 :: es)).isEmpty = true
    · simp only [h1, if_true]
      rw [List.isEmpty_iff] at h1
      rw [h1]
      symm
      rw [List.filter_eq_nil_iff]
      intro e he hk
      rw [magStage_eq, List.filter_eq_nil_iff] at h1
      apply h1 e he
      simp only [keepB, Bool.and_eq_true] at hk
      exact hk.1
    · simp only [h1, Bool.false_eq_true, if_false]
      exact stages_eq minEdge S N (e0 :: es)

/-- which exception, if any, escapes `preFilter` -/
theorem preFilter_result (minEdge S N : Rat) (evs : List Row) :
    (preFilter minEdge S N evs).1 =
      if (evs.filter (fun e => decide (minEdge ≤ e.mag))).isEmpty then .error .emptyMin else .ok () := by
  unfold preFilter
  cases evs with
  | nil => simp
  | cons e0 es =>
    simp only [List.isEmpty_cons, Bool.false_eq_true, if_false]
    rw [magStage_eq]
    by_cases h1 : (List.filter (fun e => decide (minEdge ≤ e.mag)) (e0 :: es)).isEmpty = true
    · simp [h1]
    · simp [h1]

/-! ### the two quadtree helpers in closed form -/

/-- the events kept by the helpers, as a function of the original catalog -/
def keptOf (minEdge S N : Rat) (evs : List Row) : List Row :=
  evs.filter (keepB minEdge S N (triggered minEdge S N evs))

theorem keptOf_empty_of_mag (minEdge S N : Rat) (evs : List Row)
    (h : (evs.filter (fun e => decide (minEdge ≤ e.mag))).isEmpty = true) : keptOf minEdge S N evs = [] := by
  rw [List.isEmpty_iff, List.filter_eq_nil_iff] at h
  unfold keptOf
  rw [List.filter_eq_nil_iff]
  intro e he hk
  apply h e he
  simp only [keepB, Bool.and_eq_true] at hk
  exact hk.1

theorem qtSC_eq (ncell : Nat) (locate : Rat × Rat → Option Nat) (minEdge S N : Rat) (evs : List Row) :
    qtSC ncell locate minEdge S N evs =
      (if (evs.filter (fun e => decide (minEdge ≤ e.mag))).isEmpty then .error .emptyMin
       else if (keptOf minEdge S N evs).isEmpty then .error .emptyIndex
       else .ok (countVec ncell ((keptOf minEdge S N evs).map fun e => locate (e.lon, e.lat))),
       keptOf minEdge S N evs) := by
  unfold qtSC
  have h1 := preFilter_result minEdge S N evs
  have h2 := preFilter_state minEdge S N evs
  rcases hp : preFilter minEdge S N evs with ⟨r, c⟩
  rw [hp] at h1 h2
  simp only at h1 h2
  subst h2
  by_cases hm : (evs.filter (fun e => decide (minEdge ≤ e.mag))).isEmpty = true
  · rw [if_pos hm] at h1
    subst h1
    simp only [if_pos hm]
    rfl
  · rw [if_neg hm] at h1
    subst h1
    simp only [if_neg hm]
    by_cases hk : (keptOf minEdge S N evs).isEmpty = true
    · have hk' : (List.filter (keepB minEdge S N (triggered minEdge S N evs)) evs).isEmpty = true := hk
      simp only [hk', if_true, hk]
      rfl
    · have hk' : ¬ (List.filter (keepB minEdge S N (triggered minEdge S N evs)) evs).isEmpty = true := hk
      simp only [hk', hk]
      unfold getIndexOfQuad
      rw [addAt_zeros_eq]
      rfl

theorem qtSMC_eq (ncell nbin : Nat) (locate : Rat × Rat → Option Nat) (binOf : Rat → Option Nat)
    (minEdge S N : Rat) (evs : List Row) :
    qtSMC ncell nbin locate binOf minEdge S N evs =
      (if (evs.filter (fun e => decide (minEdge ≤ e.mag))).isEmpty then .error .emptyMin
       else if (keptOf minEdge S N evs).isEmpty then .error .emptyIndex
       else if (getIndexOfQuad ((keptOf minEdge S N evs).map fun e => locate (e.lon, e.lat))).length ≠
            (keptOf minEdge S N evs).length then .error .outside
       else addAtPairs (List.replicate ncell (zeros nbin)) nbin
              (getIndexOfQuad ((keptOf minEdge S N evs).map fun e => locate (e.lon, e.lat)))
              ((keptOf minEdge S N evs).map fun e => binOf e.mag),
       keptOf minEdge S N evs) := by
  unfold qtSMC
  have h1 := preFilter_result minEdge S N evs
  have h2 := preFilter_state minEdge S N evs
  rcases hp : preFilter minEdge S N evs with ⟨r, c⟩
  rw [hp] at h1 h2
  simp only at h1 h2
  subst h2
  by_cases hm : (evs.filter (fun e => decide (minEdge ≤ e.mag))).isEmpty = true
  · rw [if_pos hm] at h1
    subst h1
    simp only [if_pos hm]
    rfl
  · rw [if_neg hm] at h1
    subst h1
    simp only [if_neg hm]
    by_cases hk : (keptOf minEdge S N evs).isEmpty = true
    · have hk' : (List.filter (keepB minEdge S N (triggered minEdge S N evs)) evs).isEmpty = true := hk
      simp only [hk', if_true, hk]
      rfl
    · have hk' : ¬ (List.filter (keepB minEdge S N (triggered minEdge S N evs)) evs).isEmpty = true := hk
      simp only [hk', hk, Bool.false_eq_true, if_false]
      unfold keptOf
      split <;> rfl

/-! ### `numpy.add.at` with a pair of index arrays -/

theorem bumpPair_eq_bumpAt : bumpPair = bumpAt := rfl

/-- an event after its two lookups -/
def evOf (locate : Rat × Rat → Option Nat) (binOf : Rat → Option Nat) (e : Row) : Ev :=
  ⟨locate (e.lon, e.lat), binOf e.mag⟩

theorem foldl_pairOf_eq_countMatrix (ncell nbin : Nat) (evs : List Ev) (hc : ∀ e ∈ evs, e.cell.isSome = true)
    (hb : ∀ e ∈ evs, e.bin.isSome = true) :
    (evs.map pairOf).foldl bumpAt (List.replicate ncell (zeros nbin)) = countMatrix ncell nbin evs := by
  apply matrix_ext
  · rw [length_foldl_bumpAt]; simp [countMatrix]
  · intro i k
    rw [entry_foldl_bumpAt, entry_zeros, entry_countMatrix, count_pairOf evs i k hc hb]
    by_cases hik : i < ncell ∧ k < nbin <;> simp [hik]

theorem zip_pairOf (nbin : Nat) : ∀ (evs : List Ev), (∀ e ∈ evs, e.cell.isSome = true) → (∀ e ∈ evs, e.bin.isSome = true) →
    ((evs.map (·.cell)).filterMap id).zip ((evs.map (·.bin)).map fun b => b.getD (nbin - 1)) = evs.map pairOf
  | [], _, _ => rfl
  | e :: evs, hc, hb => by
    have h1 := hc e List.mem_cons_self
    have h2 := hb e List.mem_cons_self
    have ih := zip_pairOf nbin evs (fun e' he' => hc e' (List.mem_cons_of_mem _ he'))
      (fun e' he' => hb e' (List.mem_cons_of_mem _ he'))
    cases hce : e.cell with
    | none => simp [hce] at h1
    | some i =>
      cases hbe : e.bin with
      | none => simp [hbe] at h2
      | some k =>
        have hp : pairOf e = (i, k) := by simp [pairOf, hce, hbe]
        simp only [List.map_cons, hce, hbe, List.filterMap_cons, id, Option.getD_some, List.zip_cons_cons, hp]
        exact congrArg _ ih

/-- all events located, all bins found: the pairwise branch, and the result is the count matrix -/
theorem addAtPairs_located (ncell nbin : Nat) (evs : List Ev) (hc : ∀ e ∈ evs, e.cell.isSome = true)
    (hb : ∀ e ∈ evs, e.bin.isSome = true) :
    addAtPairs (List.replicate ncell (zeros nbin)) nbin ((evs.map (·.cell)).filterMap id) (evs.map (·.bin)) =
      .ok (countMatrix ncell nbin evs) := by
  unfold addAtPairs
  have hlen : ((evs.map (·.cell)).filterMap id).length = (evs.map (·.bin)).length := by
    rw [(length_filterMap_id_eq_iff _).mpr]
    · simp
    · intro o ho
      obtain ⟨e, he, rfl⟩ := List.mem_map.mp ho
      exact hc e he
  simp only [hlen, if_true]
  rw [zip_pairOf nbin evs hc hb, bumpPair_eq_bumpAt, foldl_pairOf_eq_countMatrix ncell nbin evs hc hb]

/-- exactly one located event among n ≠ 1: the single cell index is broadcast against ALL magnitude indices -/
theorem addAtPairs_broadcast (out : List (List Nat)) (nbin i : Nat) (imag : List (Option Nat)) (hn : imag.length ≠ 1) :
    addAtPairs out nbin [i] imag =
      .ok ((imag.map fun b => (i, b.getD (nbin - 1))).foldl bumpAt out) := by
  unfold addAtPairs
  have : ¬ (1 = imag.length) := by omega
  simp only [List.length_cons, List.length_nil, Nat.zero_add, this, if_false, if_true, List.headD_cons]
  rw [bumpPair_eq_bumpAt]

/-- index arrays that cannot be broadcast: IndexError -/
theorem addAtPairs_shape (out : List (List Nat)) (nbin : Nat) (iloc : List Nat) (imag : List (Option Nat))
    (h1 : iloc.length ≠ imag.length) (h2 : iloc.length ≠ 1) (h3 : imag.length ≠ 1) :
    addAtPairs out nbin iloc imag = .error .shape := by
  unfold addAtPairs
  simp [h1, h2, h3]

/-- a magnitude at or above the first edge has a bin -/
theorem magBin_isSome_of_ge (edges : List Rat) (m e0 : Rat) (h0 : edges[0]? = some e0) (hm : e0 ≤ m) :
    (magBin edges m).isSome = true := by
  cases h : magBin edges m with
  | some k => rfl
  | none =>
    have := (magBin_eq_none_iff edges m).mp h e0 h0
    exact absurd hm (not_le.mpr this)

/-! ### the `_bin_catalog_*` helpers -/

/-- polygon index read from `idx_map` at a point that is not `bad` = the partition function of C01 -/
theorem hashOf_eq_cellOf (R : Region.Region) (hB : R.Built) (p : Rat × Rat) :
    (goodSpot R p).map (fun rc => (R.grid.idxAt rc.1 rc.2).getD 0) = R.cellOf p := by
  unfold goodSpot Region.Region.cellOf Region.Region.cellAt
  cases hc : R.col p.1 with
  | none => simp
  | some i =>
    cases hr : R.row p.2 with
    | none => simp
    | some j =>
      simp only
      by_cases hm : R.grid.masked j i = true
      · simp [hm]
      · have hm' : R.grid.masked j i = false := by simpa using hm
        simp only [hm', Bool.false_eq_true, if_false, Option.map_some]
        rw [hB] at hm' ⊢
        have ha := (Region.masked_build_eq_false_iff _ _ _).mp hm'
        obtain ⟨k, hk⟩ := Region.lastAt_isSome_of_active ha
        rw [Region.idxAt_build, hk]
        rfl

theorem hashIdx_eq (R : Region.Region) (hB : R.Built) (pts : List (Rat × Rat)) :
    hashIdx R pts = (pts.map R.cellOf).filterMap id := by
  unfold hashIdx
  rw [List.map_filterMap, List.filterMap_map]
  apply List.filterMap_congr
  intro p _
  simp only [Function.comp, id]
  rw [← hashOf_eq_cellOf R hB p]

/-- the slot of the space-magnitude helper in terms of the two lookups -/
theorem slot_eq (R : Region.Region) (hB : R.Built) (edges : List Rat) (e : Row) :
    slot R edges e =
      match R.cellOf (e.lon, e.lat), magBin edges e.mag with
      | some i, some k => some (i, k)
      | _, _ => none := by
  unfold slot
  rw [← hashOf_eq_cellOf R hB (e.lon, e.lat)]
  cases goodSpot R (e.lon, e.lat) <;> cases magBin edges e.mag <;> rfl

/-- both lookups of an event succeeded -/
def bothSome (e : Ev) : Bool := e.cell.isSome && e.bin.isSome

theorem filterMap_slot_eq (R : Region.Region) (hB : R.Built) (edges : List Rat) (evs : List Row) :
    evs.filterMap (slot R edges) = ((evsCart R edges evs).filter bothSome).map pairOf := by
  unfold evsCart
  induction evs with
  | nil => rfl
  | cons e es ih =>
    rw [List.filterMap_cons, slot_eq R hB edges e, List.map_cons, List.filter_cons]
    cases hc : R.cellOf (e.lon, e.lat) with
    | none => simp [bothSome, ih]
    | some i =>
      cases hb : magBin edges e.mag with
      | none => simp [bothSome, ih]
      | some k => simp [bothSome, ih, pairOf]

theorem countMatrix_filter_bothSome (ncell nbin : Nat) (evs : List Ev) :
    countMatrix ncell nbin (evs.filter bothSome) = countMatrix ncell nbin evs := by
  unfold countMatrix
  apply List.map_congr_left
  intro i _
  apply List.map_congr_left
  intro k _
  rw [List.countP_filter]
  apply List.countP_congr
  intro e _
  cases hc : e.cell <;> cases hb : e.bin <;> simp [bothSome, hc, hb]

theorem binCatalogSMC_counts (R : Region.Region) (hB : R.Built) (npoly : Nat) (edges : List Rat) (evs : List Row) :
    (binCatalogSMC R npoly edges evs).1 = countMatrix npoly edges.length (evsCart R edges evs) := by
  unfold binCatalogSMC
  simp only
  rw [filterMap_slot_eq R hB, bumpPair_eq_bumpAt, foldl_pairOf_eq_countMatrix, countMatrix_filter_bothSome]
  · intro e he
    have := (List.mem_filter.mp he).2
    simp only [bothSome, Bool.and_eq_true] at this
    exact this.1
  · intro e he
    have := (List.mem_filter.mp he).2
    simp only [bothSome, Bool.and_eq_true] at this
    exact this.2

theorem binCatalogSMC_skipped (R : Region.Region) (hB : R.Built) (npoly : Nat) (edges : List Rat) (evs : List Row) :
    (binCatalogSMC R npoly edges evs).2 =
      evs.filter (fun e => (R.cellOf (e.lon, e.lat)).isNone || (magBin edges e.mag).isNone) := by
  unfold binCatalogSMC
  simp only
  apply List.filter_congr
  intro e _
  rw [slot_eq R hB]
  cases R.cellOf (e.lon, e.lat) <;> cases magBin edges e.mag <;> rfl

/-! ### small facts used by the property file -/

/-- the condition of regions.py:1123 seen from the original catalog: an event that survives the magnitude filter lies
    strictly beyond a latitude bound -/
def LatExceeded (minEdge S N : Rat) (evs : List Row) : Prop :=
  ∃ e ∈ evs, minEdge ≤ e.mag ∧ (e.lat < S ∨ N < e.lat)

theorem triggered_iff (minEdge S N : Rat) (evs : List Row) :
    triggered minEdge S N evs = true ↔ LatExceeded minEdge S N evs := by
  unfold triggered LatExceeded
  rw [List.any_eq_true]
  constructor
  · rintro ⟨e, he, h⟩
    simp only [Bool.and_eq_true, Bool.or_eq_true, decide_eq_true_eq] at h
    exact ⟨e, he, h⟩
  · rintro ⟨e, he, h⟩
    exact ⟨e, he, by simpa using h⟩

theorem filterMap_id_eq_map_getD : ∀ (l : List (Option Nat)), (∀ o ∈ l, o.isSome = true) →
    l.filterMap id = l.map (·.getD 0)
  | [], _ => rfl
  | o :: l, h => by
    have ih := filterMap_id_eq_map_getD l (fun o' ho' => h o' (List.mem_cons_of_mem _ ho'))
    have ho := h o List.mem_cons_self
    cases o with
    | none => simp at ho
    | some k =>
      show k :: List.filterMap id l = _
      rw [ih]; rfl

end Gridding
