import PycsepVerif.Model.GriddingSeq
import PycsepVerif.Proofs.Gridding
/-! helper lemmas for `Properties/C03_Seq.lean` -/
namespace Gridding

/-! ### the lookups return indices inside the arrays -/

theorem cellOf_lt (R : Region.Region) (hB : R.Built) (p : Rat × Rat) (k : Nat) (h : R.cellOf p = some k) :
    k < R.cells.length := by
  unfold Region.Region.cellOf at h
  cases hc : R.col p.1 with
  | none => simp [hc, Region.Region.cellAt] at h
  | some i =>
    cases hr : R.row p.2 with
    | none => simp [hc, hr, Region.Region.cellAt] at h
    | some j =>
      rw [hc, hr] at h
      obtain ⟨_, hl⟩ := (Region.cellAt_eq_some_iff R hB i j k).mp h
      obtain ⟨⟨c, hget, _⟩, _⟩ := (Region.lastAt_eq_some_iff R.cells i j k).mp hl
      exact (List.getElem?_eq_some_iff.mp hget).1

theorem magBin_lt (edges : List Rat) (m : Rat) (k : Nat) (h : magBin edges m = some k) : k < edges.length := by
  unfold magBin at h
  have hle := Region.cnt_le_length edges m
  by_cases h0 : Region.cnt edges m = 0
  · simp [h0] at h
  · simp only [h0, if_false, Option.some.injEq] at h
    omega

theorem qtFind_lt (bounds : List (Rat × Rat × Rat × Rat)) (p : Rat × Rat) (k : Nat) (h : qtFind bounds p = some k) :
    k < bounds.length := by
  unfold qtFind at h
  exact (List.findIdx?_eq_some_iff_getElem.mp h).1

/-! ### adding count matrices -/

theorem countMatrix_append (ncell nbin : Nat) (a b : List Ev) :
    countMatrix ncell nbin (a ++ b) = addMat (countMatrix ncell nbin a) (countMatrix ncell nbin b) := by
  unfold countMatrix addMat addRows
  rw [List.zipWith_map, List.zipWith_self]
  apply List.map_congr_left
  intro i _
  rw [List.zipWith_map, List.zipWith_self]
  apply List.map_congr_left
  intro k _
  exact List.countP_append

/-- an event the space-magnitude gridding rejects: outside the region, or below the lowest edge -/
def badEv (e : Ev) : Bool := e.cell.isNone || e.bin.isNone

theorem smc_either_eq (quad : Bool) (ncell nbin : Nat) (evs : List Ev) :
    (if quad then smcQuad ncell nbin evs else smcCart ncell nbin evs) =
      if evs.any (fun e => e.cell.isNone) then .error .outside
      else if evs.any (fun e => e.bin.isNone) then .error .belowMin
      else .ok (countMatrix ncell nbin evs) := by
  cases quad
  · simp only [Bool.false_eq_true, if_false]; exact smcCart_eq ncell nbin evs
  · simp only [if_true]; exact smcQuad_eq ncell nbin evs

theorem smc_either_ok_iff (quad : Bool) (ncell nbin : Nat) (evs : List Ev) :
    (∃ M, (if quad then smcQuad ncell nbin evs else smcCart ncell nbin evs) = .ok M) ↔ evs.any badEv = false := by
  rw [smc_either_eq]
  by_cases hc : evs.any (fun e => e.cell.isNone) = true
  · have : evs.any badEv = true := by
      obtain ⟨e, he, hn⟩ := List.any_eq_true.mp hc
      exact List.any_eq_true.mpr ⟨e, he, by simp [badEv, hn]⟩
    simp [hc, this]
  · by_cases hb : evs.any (fun e => e.bin.isNone) = true
    · have : evs.any badEv = true := by
        obtain ⟨e, he, hn⟩ := List.any_eq_true.mp hb
        exact List.any_eq_true.mpr ⟨e, he, by simp [badEv, hn]⟩
      simp [hc, hb, this]
    · have : evs.any badEv = false := by
        rw [List.any_eq_false]
        intro e he hbad
        simp only [badEv, Bool.or_eq_true] at hbad
        rcases hbad with h | h
        · exact hc (List.any_eq_true.mpr ⟨e, he, h⟩)
        · exact hb (List.any_eq_true.mpr ⟨e, he, h⟩)
      simp [hc, hb, this]

theorem smc_either_of_good (quad : Bool) (ncell nbin : Nat) (evs : List Ev) (h : evs.any badEv = false) :
    (if quad then smcQuad ncell nbin evs else smcCart ncell nbin evs) = .ok (countMatrix ncell nbin evs) := by
  rw [smc_either_eq]
  have hc : evs.any (fun e => e.cell.isNone) = false := by
    rw [List.any_eq_false] at h ⊢
    intro e he hn; exact h e he (by simp [badEv, hn])
  have hb : evs.any (fun e => e.bin.isNone) = false := by
    rw [List.any_eq_false] at h ⊢
    intro e he hn; exact h e he (by simp [badEv, hn])
  simp [hc, hb]

theorem smc_either_of_bad (quad : Bool) (ncell nbin : Nat) (evs : List Ev) (h : evs.any badEv = true) :
    ∃ err, (if quad then smcQuad ncell nbin evs else smcCart ncell nbin evs) = .error err := by
  cases hr : (if quad then smcQuad ncell nbin evs else smcCart ncell nbin evs) with
  | error e => exact ⟨e, rfl⟩
  | ok M =>
    have := (smc_either_ok_iff quad ncell nbin evs).mp ⟨M, hr⟩
    rw [this] at h; exact absurd h (by decide)

/-- closed form of the accumulation loop started with the counts of `acc` -/
theorem accumulate_eq (quad : Bool) (ncell nbin : Nat) : ∀ (cs : List (List Ev)) (acc : List Ev),
    accumulate quad ncell nbin cs (countMatrix ncell nbin acc) =
      if cs.all (fun c => !c.any badEv) then .ok (countMatrix ncell nbin (acc ++ cs.flatten))
      else (accumulate quad ncell nbin cs (countMatrix ncell nbin acc))
  | [], acc => by simp [accumulate]
  | c :: cs, acc => by
    by_cases hall : (c :: cs).all (fun c => !c.any badEv) = true
    · rw [if_pos hall]
      simp only [List.all_cons, Bool.and_eq_true, Bool.not_eq_true'] at hall
      unfold accumulate
      rw [smc_either_of_good quad ncell nbin c hall.1]
      simp only
      rw [← countMatrix_append, accumulate_eq quad ncell nbin cs (acc ++ c), if_pos hall.2]
      simp [List.append_assoc]
    · rw [if_neg hall]

theorem accumulate_error (quad : Bool) (ncell nbin : Nat) : ∀ (cs : List (List Ev)) (acc : List (List Nat)),
    cs.all (fun c => !c.any badEv) = false → ∃ err, accumulate quad ncell nbin cs acc = .error err
  | [], acc, h => by simp at h
  | c :: cs, acc, h => by
    unfold accumulate
    by_cases hc : c.any badEv = true
    · obtain ⟨err, he⟩ := smc_either_of_bad quad ncell nbin c hc
      exact ⟨err, by rw [he]⟩
    · have hc' : c.any badEv = false := by simpa using hc
      rw [smc_either_of_good quad ncell nbin c hc']
      simp only
      apply accumulate_error quad ncell nbin cs
      simpa [List.all_cons, hc'] using h

end Gridding
