import PycsepVerif.Model.Bin1d
import PycsepVerif.Proofs.Soft64Round
import Mathlib.Data.Rat.Floor
import Mathlib.Algebra.Order.Floor.Ring
import Mathlib.Tactic.Ring
import Mathlib.Tactic.Linarith
import Mathlib.Tactic.FieldSimp
import Mathlib.Tactic.Positivity
import Mathlib.Tactic.NormNum

/-! Helper lemmas for property C02 (exact layer). -/
namespace Bin1d
open Soft64

theorem rfloor_eq (x : ℚ) : x.floor = ⌊x⌋ := rfl

/-- the floor of the exact quotient is k iff v is in the k-th half-open cell -/
theorem floor_div_eq_iff {a0 h : ℚ} (hh : 0 < h) (v : ℚ) (k : ℤ) :
    ⌊(v - a0) / h⌋ = k ↔ a0 + k * h ≤ v ∧ v < a0 + (k + 1) * h := by
  rw [Int.floor_eq_iff, le_div_iff₀ hh, div_lt_iff₀ hh]
  constructor <;> rintro ⟨h1, h2⟩ <;> constructor <;> linarith

theorem le_floor_div_iff {a0 h : ℚ} (hh : 0 < h) (v : ℚ) (k : ℤ) :
    k ≤ ⌊(v - a0) / h⌋ ↔ a0 + k * h ≤ v := by
  rw [Int.le_floor, le_div_iff₀ hh]
  constructor <;> intro h1 <;> linarith

theorem floor_div_lt_iff {a0 h : ℚ} (hh : 0 < h) (v : ℚ) (k : ℤ) :
    ⌊(v - a0) / h⌋ < k ↔ v < a0 + k * h := by
  rw [Int.floor_lt, div_lt_iff₀ hh]
  constructor <;> intro h1 <;> linarith

end Bin1d

namespace Bin1d

/-- on a strictly increasing list, the edges ≤ v are exactly the first `countP` ones -/
theorem getElem_le_iff_lt_countP {l : List ℚ} (hs : l.Pairwise (· < ·)) (v : ℚ) :
    ∀ i (hi : i < l.length), l[i] ≤ v ↔ i < l.countP (fun e => decide (e ≤ v)) := by
  induction l with
  | nil => intro i hi; simp at hi
  | cons a t ih =>
    rw [List.pairwise_cons] at hs
    intro i hi
    by_cases hav : a ≤ v
    · rw [List.countP_cons_of_pos (by simpa using hav)]
      cases i with
      | zero => simp [hav]
      | succ j =>
        simp only [List.getElem_cons_succ]
        rw [ih hs.2 j (by simpa using hi)]
        omega
    · have hz : t.countP (fun e => decide (e ≤ v)) = 0 := by
        rw [List.countP_eq_zero]
        intro e he
        have := hs.1 e he
        simp only [decide_eq_true_eq, not_le]
        linarith [not_le.mp hav]
      rw [List.countP_cons_of_neg (by simpa using hav), hz]
      cases i with
      | zero => simp [hav]
      | succ j =>
        simp only [List.getElem_cons_succ]
        have hj : j < t.length := by simpa using hi
        have := hs.1 t[j] (List.getElem_mem hj)
        constructor
        · intro h1; exfalso; linarith [not_le.mp hav]
        · intro h1; omega

theorem countP_range_le (q : ℤ) (n : ℕ) :
    (((List.range n).countP (fun (k : ℕ) => decide ((k : ℤ) ≤ q)) : ℕ) : ℤ) = max 0 (min (n : ℤ) (q + 1)) := by
  induction n with
  | zero => simp
  | succ m ih =>
    rw [List.range_succ, List.countP_append]
    push_cast
    rw [ih]
    by_cases h : (m : ℤ) ≤ q
    · simp [h]; omega
    · simp [h]; omega

end Bin1d

/-! ## float64 configuration: integer form of the corrections and the clamp -/
namespace Bin1d
open Soft64

theorem quotF_cfg64 (rc : Bool) (n : ℕ) (edge : ℕ → ℚ) (p : ℚ) :
    quotF (cfg64 rc) n edge p =
      (DT.f64, fl64 (fl64 (fl64 (fl64 (p - edge 0) + fl64 (fabs p * eps64)) + fl64 (fabs (edge 0) * eps64))
        / denOf .f64 n edge)) := by
  simp [quotF, cfg64, DT.promote, DT.rnd, getTol, DT.eps]

theorem denOf_f64 (n : ℕ) (edge : ℕ → ℚ) (hn : 1 < n) :
    denOf .f64 n edge = fl64 (fl64 (edge 1 - edge 0) - fl64 (fabs (edge 0) * eps64)) := by
  have : (n == 1) = false := by simp; omega
  simp [denOf, hOf, this, DT.rnd, getTol, DT.eps]

/-- the float quotient of the default float64 configuration -/
def qF (n : ℕ) (edge : ℕ → ℚ) (p : ℚ) : ℚ := (quotF (cfg64 true) n edge p).2

theorem quotF_cfg64_eq (rc : Bool) (n : ℕ) (edge : ℕ → ℚ) (p : ℚ) :
    quotF (cfg64 rc) n edge p = (DT.f64, qF n edge p) := by
  rw [qF, quotF_cfg64, quotF_cfg64]

/-- integer form of the two corrections -/
def corrInt (n : ℕ) (edge : ℕ → ℚ) (top p : ℚ) (i : ℤ) : ℤ :=
  let i' := if 0 ≤ i ∧ i + 1 < (n : ℤ) ∧ edge (i + 1).toNat ≤ p then i + 1 else i
  if i' = (n : ℤ) - 1 ∧ top ≤ p then (n : ℤ) else i'

/-- integer form of the clamp rules -/
def clampInt (rc : Bool) (n : ℕ) (z : ℤ) : ℤ :=
  if rc || n == 1 then (if z < 0 then -1 else if z ≥ (n : ℤ) - 1 then (n : ℤ) - 1 else z)
  else (if z < 0 ∨ z ≥ (n : ℤ) then -1 else z)

theorem fl64_succ_lt_iff {i : ℤ} (hi : 0 ≤ i) {n : ℕ} (hn : (n : ℤ) ≤ 2 ^ 53) :
    fl64 ((i : ℚ) + 1) < (n : ℚ) ↔ i + 1 < (n : ℤ) := by
  by_cases h : i + 1 ≤ 2 ^ 53
  · have : fl64 ((i : ℚ) + 1) = ((i + 1 : ℤ) : ℚ) := by
      have := Soft64R.fl64_intCast (n := i + 1) (by rw [abs_of_nonneg (by omega)]; exact h)
      simpa using this
    rw [this]
    exact_mod_cast Iff.rfl
  · have h1 : ((2 ^ 53 : ℤ) : ℚ) ≤ fl64 ((i : ℚ) + 1) := by
      apply Soft64R.fl64_ge_of_ge_float (Soft64R.fl64_intCast (by simp))
      have : (2 ^ 53 : ℤ) ≤ i + 1 := by omega
      exact_mod_cast this
    constructor
    · intro h2
      have : (n : ℚ) ≤ ((2 ^ 53 : ℤ) : ℚ) := by exact_mod_cast hn
      linarith
    · intro h2; omega

theorem fl64_succ_eq {i : ℤ} (hi : 0 ≤ i) (h : i + 1 ≤ 2 ^ 53) : fl64 ((i : ℚ) + 1) = ((i + 1 : ℤ) : ℚ) := by
  have := Soft64R.fl64_intCast (n := i + 1) (by rw [abs_of_nonneg (by omega)]; exact h)
  simpa using this

theorem clipIdx_int {j : ℤ} {n : ℕ} (h0 : 0 ≤ j) (h1 : j < (n : ℤ)) : clipIdx (j : ℚ) n = j.toNat := by
  unfold clipIdx
  simp only [rfloor_eq, Int.floor_intCast]
  split_ifs <;> omega

theorem cast_eq_n_sub_one (i : ℤ) (n : ℕ) : ((i : ℚ) = (n : ℚ) - 1) ↔ (i = (n : ℤ) - 1) := by
  constructor
  · intro h; have : (i : ℚ) = (((n : ℤ) - 1 : ℤ) : ℚ) := by push_cast; linarith
    exact_mod_cast this
  · intro h; rw [h]; push_cast; ring

theorem corrRat_int {n : ℕ} (hn53 : (n : ℤ) ≤ 2 ^ 53) (edge : ℕ → ℚ) (top p : ℚ) (i : ℤ) :
    corrWith fl64 n edge top p (i : ℚ) = ((corrInt n edge top p i : ℤ) : ℚ) := by
  unfold corrWith corrInt
  by_cases h0 : 0 ≤ i
  · by_cases h1 : i + 1 < (n : ℤ)
    · have e1 : fl64 ((i : ℚ) + 1) = ((i + 1 : ℤ) : ℚ) := fl64_succ_eq h0 (by omega)
      simp only [e1, clipIdx_int (show 0 ≤ i + 1 by omega) h1]
      have c0 : (0 : ℚ) ≤ (i : ℚ) := by exact_mod_cast h0
      have c1 : ((i + 1 : ℤ) : ℚ) < (n : ℚ) := by exact_mod_cast h1
      by_cases h2 : edge (i + 1).toNat ≤ p
      · simp only [c0, c1, h2, h0, h1, and_self, if_true, cast_eq_n_sub_one]
        split_ifs <;> simp
      · simp only [h2, and_false, if_false, cast_eq_n_sub_one]
        split_ifs <;> simp
    · have c1 : ¬ fl64 ((i : ℚ) + 1) < (n : ℚ) := by rw [fl64_succ_lt_iff h0 hn53]; exact h1
      simp only [c1, h1, false_and, and_false, if_false, cast_eq_n_sub_one]
      split_ifs <;> simp
  · have c0 : ¬ (0 : ℚ) ≤ (i : ℚ) := by intro h; exact h0 (by exact_mod_cast h)
    simp only [c0, h0, false_and, if_false, cast_eq_n_sub_one]
    split_ifs <;> simp

theorem corrIdx_cfg64 (rc : Bool) {n : ℕ} (hn : 1 < n) (hn53 : (n : ℤ) ≤ 2 ^ 53) (edge : ℕ → ℚ) (p : ℚ) :
    corrIdx (cfg64 rc) n edge p = ((corrInt n edge (topOf .f64 n edge) p ⌊qF n edge p⌋ : ℤ) : ℚ) := by
  rw [← corrRat_int hn53]
  unfold corrIdx
  rw [quotF_cfg64_eq]
  simp only [hn, if_true, ffloor, rfloor_eq, DT.rnd, cfg64]

theorem clampIdx_int (rc : Bool) (n : ℕ) (z : ℤ) : clampIdx rc n (z : ℚ) = clampInt rc n z := by
  unfold clampIdx clampInt
  simp only [rfloor_eq, Int.floor_intCast]
  have a : ((z : ℚ) < 0) ↔ z < 0 := by exact_mod_cast Iff.rfl
  have b : ((z : ℚ) ≥ (((n : ℤ) - 1 : ℤ) : ℚ)) ↔ z ≥ (n : ℤ) - 1 := by exact_mod_cast Iff.rfl
  have c : ((z : ℚ) ≥ (n : ℚ)) ↔ z ≥ (n : ℤ) := by exact_mod_cast Iff.rfl
  simp only [a, b, c]


end Bin1d

/-! ## float64 configuration: error analysis of the quotient -/
namespace Bin1d
open Soft64

theorem fabs_nonneg (a : ℚ) : 0 ≤ fabs a := by
  unfold fabs; split_ifs with h <;> linarith

theorem fabs_eq_abs (a : ℚ) : fabs a = |a| := by
  unfold fabs; split_ifs with h
  · rw [abs_of_neg h]
  · rw [abs_of_nonneg (not_lt.mp h)]

theorem eps64_pos : 0 < eps64 := Soft64R.pow2_pos _

theorem getTol_f64_nonneg (a : ℚ) : 0 ≤ getTol .f64 a := by
  unfold getTol DT.rnd DT.eps
  exact Soft64R.fl64_nonneg (mul_nonneg (fabs_nonneg a) eps64_pos.le)

theorem pow2_m53 : pow2 (-53) = 1 / 2 ^ 53 := by
  rw [Soft64R.pow2_eq_zpow]; norm_num [zpow_neg]

/-- lower bound on the float quotient: if `p` is at or above a point that lies at least `(K - 1/4)·h` above
`a0` (h the float step), the quotient is at least `K - 1`. -/
theorem qF_lower {n : ℕ} (hn : 1 < n) (edge : ℕ → ℚ) (p : ℚ) (K : ℤ) (hK1 : 1 ≤ K) (hK : K ≤ 2 ^ 40)
    (hh : pow2 (-1021) ≤ hOf .f64 n edge)
    (hat : getTol .f64 (edge 0) ≤ hOf .f64 n edge / 4)
    (hp : edge 0 + ((K : ℚ) - 1 / 4) * hOf .f64 n edge ≤ p) :
    ((K - 1 : ℤ) : ℚ) ≤ qF n edge p := by
  have hn1 : (n == 1) = false := by simp; omega
  set h := hOf .f64 n edge with hh_def
  set at_ := getTol .f64 (edge 0) with hat_def
  have hhpos : 0 < h := lt_of_lt_of_le (Soft64R.pow2_pos _) hh
  have hat0 : 0 ≤ at_ := getTol_f64_nonneg _
  have hpt0 : 0 ≤ getTol .f64 p := getTol_f64_nonneg _
  have hidem : fl64 h = h := by
    rw [hh_def]; unfold hOf; simp only [hn1, DT.rnd]; exact Soft64R.fl64_idem _
  have hKq : (1 : ℚ) ≤ (K : ℚ) := by exact_mod_cast hK1
  have hKq2 : (K : ℚ) ≤ 2 ^ 40 := by exact_mod_cast hK
  -- x = p - a0
  have hx : ((K : ℚ) - 1 / 4) * h ≤ p - edge 0 := by linarith
  have hx34 : 3 / 4 * h ≤ p - edge 0 := by nlinarith
  have hxpos : 0 < p - edge 0 := by linarith
  have h1022 : pow2 (-1022) ≤ 3 / 4 * h := by
    have : pow2 (-1021) = 2 * pow2 (-1022) := by
      have := Soft64R.pow2_succ (-1022); simpa using this
    have := Soft64R.pow2_pos (-1022)
    linarith
  have hrel := Soft64R.fl64_rel_err (x := p - edge 0) (by rw [abs_of_pos hxpos]; linarith)
  rw [abs_of_pos hxpos, pow2_m53] at hrel
  have ht1 : (p - edge 0) * (1 - 1 / 2 ^ 53) ≤ fl64 (p - edge 0) := by
    have := (abs_le.mp hrel).1; linarith
  set t1 := fl64 (p - edge 0) with ht1_def
  have ht1pos : 0 ≤ t1 := Soft64R.fl64_nonneg hxpos.le
  have ht2 : t1 ≤ fl64 (t1 + getTol .f64 p) :=
    Soft64R.fl64_ge_of_ge_float (Soft64R.fl64_idem _) (by linarith)
  set t2 := fl64 (t1 + getTol .f64 p) with ht2_def
  have hidem2 : fl64 t2 = t2 := Soft64R.fl64_idem _
  have ht3 : t2 ≤ fl64 (t2 + at_) := Soft64R.fl64_ge_of_ge_float hidem2 (by linarith)
  set t3 := fl64 (t2 + at_) with ht3_def
  -- denominator
  have hden_le : fl64 (h - at_) ≤ h := Soft64R.fl64_le_of_le_float hidem (by linarith)
  have hden_pos : 0 < fl64 (h - at_) := by
    have hf : fl64 (pow2 (-1022)) = pow2 (-1022) := by
      have := Soft64R.fl64_exact (m := 1) (j := -1022) (by norm_num) (by norm_num)
      simpa using this
    have : pow2 (-1022) ≤ fl64 (h - at_) := Soft64R.fl64_ge_of_ge_float hf (by linarith)
    exact lt_of_lt_of_le (Soft64R.pow2_pos _) this
  have hqF : qF n edge p = fl64 (t3 / fl64 (h - at_)) := by
    unfold qF
    rw [quotF_cfg64, denOf_f64 n edge hn]
    simp only [ht3_def, ht2_def, ht1_def, hat_def, hh_def, getTol, DT.rnd, DT.eps, hOf, hn1]
    rfl
  rw [hqF]
  apply Soft64R.fl64_ge_of_ge_float
  · exact Soft64R.fl64_intCast (by rw [abs_of_nonneg (by omega)]; omega)
  · have ht3pos : 0 ≤ t3 := by linarith
    have h3 : t3 / h ≤ t3 / fl64 (h - at_) := div_le_div_of_nonneg_left ht3pos hden_pos hden_le
    have h4 : ((K : ℚ) - 1 / 4) * (1 - 1 / 2 ^ 53) ≤ t3 / h := by
      rw [le_div_iff₀ hhpos]
      have : ((K : ℚ) - 1 / 4) * h * (1 - 1 / 2 ^ 53) ≤ t1 := by
        have : (0 : ℚ) ≤ 1 - 1 / 2 ^ 53 := by norm_num
        nlinarith
      nlinarith
    have h5 : ((K - 1 : ℤ) : ℚ) ≤ ((K : ℚ) - 1 / 4) * (1 - 1 / 2 ^ 53) := by
      push_cast
      nlinarith
    linarith


/-- `bin1d_vec` in the default float64 configuration, integer form -/
theorem bin1dCore_cfg64 (rc : Bool) {n : ℕ} (hn : 1 < n) (hn53 : (n : ℤ) ≤ 2 ^ 53) (edge : ℕ → ℚ) (p : ℚ) :
    bin1dCore (cfg64 rc) n edge p
      = clampInt rc n (corrInt n edge (topOf .f64 n edge) p ⌊qF n edge p⌋) := by
  unfold bin1dCore
  rw [corrIdx_cfg64 rc hn hn53, clampIdx_int]
  rfl

/-- the clamp always yields −1 or a valid index -/
theorem clampIdx_range (rc : Bool) {n : ℕ} (hn : 0 < n) (idx : ℚ) :
    -1 ≤ clampIdx rc n idx ∧ clampIdx rc n idx ≤ (n : ℤ) - 1 := by
  unfold clampIdx
  simp only [rfloor_eq]
  split_ifs with h1 h2 h3 h4
  · omega
  · omega
  · push Not at h2 h3
    have a : 0 ≤ ⌊idx⌋ := Int.floor_nonneg.mpr h2
    have b : ⌊idx⌋ < (n : ℤ) - 1 := Int.floor_lt.mpr h3
    omega
  · omega
  · push Not at h4
    have a : 0 ≤ ⌊idx⌋ := Int.floor_nonneg.mpr h4.1
    have b : ⌊idx⌋ < (n : ℤ) := Int.floor_lt.mpr (by exact_mod_cast h4.2)
    omega

end Bin1d

namespace Bin1d
open Soft64

theorem corrInt_ge (n : ℕ) (edge : ℕ → ℚ) (top p : ℚ) (i : ℤ) : i ≤ corrInt n edge top p i := by
  unfold corrInt
  simp only
  split_ifs <;> omega

theorem corrInt_hit {n : ℕ} (edge : ℕ → ℚ) (top p : ℚ) {i : ℤ} (h0 : 0 ≤ i) (h1 : i + 1 < (n : ℤ))
    (hp : edge (i + 1).toNat ≤ p) : i + 1 ≤ corrInt n edge top p i := by
  unfold corrInt
  simp only [h0, h1, hp, and_self, if_true]
  split_ifs <;> omega

theorem corrInt_ge_n {n : ℕ} (edge : ℕ → ℚ) (top p : ℚ) {i : ℤ} (h : (n : ℤ) ≤ corrInt n edge top p i) :
    top ≤ p ∨ (n : ℤ) ≤ i := by
  unfold corrInt at h
  simp only at h
  by_cases hc : 0 ≤ i ∧ i + 1 < (n : ℤ) ∧ edge (i + 1).toNat ≤ p
  · rw [if_pos hc] at h
    by_cases h2 : i + 1 = (n : ℤ) - 1 ∧ top ≤ p
    · exact Or.inl h2.2
    · rw [if_neg h2] at h; omega
  · rw [if_neg hc] at h
    by_cases h2 : i = (n : ℤ) - 1 ∧ top ≤ p
    · exact Or.inl h2.2
    · rw [if_neg h2] at h; exact Or.inr h

theorem clampInt_open_ge {n : ℕ} {K z : ℤ} (hz : K ≤ z) (hK : K ≤ (n : ℤ) - 1) : K ≤ clampInt true n z := by
  unfold clampInt
  simp only [Bool.true_or, if_true]
  split_ifs <;> omega

theorem clampInt_closed_ge {n : ℕ} (hn : 1 < n) {K z : ℤ} (hz : K ≤ z) (hK0 : 0 ≤ K) :
    K ≤ clampInt false n z ∨ (clampInt false n z = -1 ∧ (n : ℤ) ≤ z) := by
  unfold clampInt
  have : (n == 1) = false := by simp; omega
  simp only [Bool.false_or, this, Bool.false_eq_true, if_false]
  split_ifs with h1
  · right; constructor
    · rfl
    · omega
  · left; omega

/-- the float quotient is non-negative at or above the first edge -/
theorem qF_nonneg {n : ℕ} (hn : 1 < n) (edge : ℕ → ℚ) (p : ℚ)
    (hh : pow2 (-1021) ≤ hOf .f64 n edge)
    (hat : getTol .f64 (edge 0) ≤ hOf .f64 n edge / 4)
    (hp : edge 0 ≤ p) : 0 ≤ qF n edge p := by
  have hn1 : (n == 1) = false := by simp; omega
  have hhpos : 0 < hOf .f64 n edge := lt_of_lt_of_le (Soft64R.pow2_pos _) hh
  have hat0 : 0 ≤ getTol .f64 (edge 0) := getTol_f64_nonneg _
  have hpt0 : 0 ≤ getTol .f64 p := getTol_f64_nonneg _
  have hden_pos : 0 < fl64 (hOf .f64 n edge - getTol .f64 (edge 0)) := by
    have hf : fl64 (pow2 (-1022)) = pow2 (-1022) := by
      have := Soft64R.fl64_exact (m := 1) (j := -1022) (by norm_num) (by norm_num)
      simpa using this
    have h2 : pow2 (-1021) = 2 * pow2 (-1022) := by
      have := Soft64R.pow2_succ (-1022); simpa using this
    have := Soft64R.pow2_pos (-1022)
    have : pow2 (-1022) ≤ fl64 (hOf .f64 n edge - getTol .f64 (edge 0)) :=
      Soft64R.fl64_ge_of_ge_float hf (by linarith)
    exact lt_of_lt_of_le (Soft64R.pow2_pos _) this
  have hqF : qF n edge p = fl64 (fl64 (fl64 (fl64 (p - edge 0) + getTol .f64 p) + getTol .f64 (edge 0))
      / fl64 (hOf .f64 n edge - getTol .f64 (edge 0))) := by
    unfold qF
    rw [quotF_cfg64, denOf_f64 n edge hn]
    simp only [getTol, DT.rnd, DT.eps, hOf, hn1]
    rfl
  rw [hqF]
  apply Soft64R.fl64_nonneg
  apply div_nonneg _ hden_pos.le
  apply Soft64R.fl64_nonneg
  have : 0 ≤ fl64 (fl64 (p - edge 0) + getTol .f64 p) := by
    apply Soft64R.fl64_nonneg
    have := Soft64R.fl64_nonneg (x := p - edge 0) (by linarith)
    linarith
  linarith

end Bin1d

/-! ## cleaner_range: exactness lemmas -/
namespace Bin1d
open Soft64

theorem ten_pow_eq (m : ℕ) : ((10 ^ m : ℕ) : ℚ) = ((5 ^ m : ℤ) : ℚ) * pow2 (m : ℤ) := by
  rw [Soft64R.pow2_eq_zpow]; push_cast; rw [zpow_natCast, ← mul_pow]; norm_num

theorem fl64_ten_pow {m : ℕ} (hm : m ≤ 22) : fl64 ((10 ^ m : ℕ) : ℚ) = ((10 ^ m : ℕ) : ℚ) := by
  rw [ten_pow_eq]
  apply Soft64R.fl64_exact
  · rw [abs_of_nonneg (by positivity)]
    calc (5 : ℤ) ^ m ≤ 5 ^ 22 := pow_le_pow_right₀ (by norm_num) hm
      _ ≤ 2 ^ 53 := by norm_num
  · omega

theorem pow2_m1 : pow2 (-1) = 1 / 2 := by
  rw [Soft64R.pow2_eq_zpow]; norm_num [zpow_neg]

/-- half-integers with numerator up to 2^53 are float64 values -/
theorem fl64_half_int {z : ℤ} (hz : |z| ≤ 2 ^ 53) : fl64 ((z : ℚ) / 2) = (z : ℚ) / 2 := by
  have := Soft64R.fl64_exact (m := z) (j := -1) hz (by norm_num)
  rw [pow2_m1] at this
  have e : (z : ℚ) / 2 = (z : ℚ) * (1 / 2) := by ring
  rw [e]; exact this

theorem ten_pow_le {m : ℕ} (hm : m ≤ 22) : ((10 ^ m : ℕ) : ℚ) ≤ 2 ^ 74 := by
  have h1 : (10 ^ m : ℕ) ≤ 10 ^ 22 := Nat.pow_le_pow_right (by norm_num) hm
  have h2 : ((10 ^ m : ℕ) : ℚ) ≤ ((10 ^ 22 : ℕ) : ℚ) := by exact_mod_cast h1
  have h3 : ((10 ^ 22 : ℕ) : ℚ) ≤ 2 ^ 74 := by norm_num
  linarith

theorem pow2_m1075_le : pow2 (-1075) ≤ 1 / 2 ^ 200 := by
  have : pow2 (-1075) ≤ pow2 (-200) := Soft64R.pow2_le_pow2 (by norm_num)
  have e : pow2 (-200) = 1 / 2 ^ 200 := by rw [Soft64R.pow2_eq_zpow]; norm_num [zpow_neg]
  linarith

/-- `numpy.round(scale * x)` recovers the integer T from the double nearest to T/10^m -/
theorem recover {T : ℤ} {m : ℕ} (hT : |T| ≤ 2 ^ 50) (hm : m ≤ 22) :
    fround (fmul (fl64 ((10 ^ m : ℕ) : ℚ)) (fl64 ((T : ℚ) / ((10 ^ m : ℕ) : ℚ)))) = (T : ℚ) := by
  rw [fl64_ten_pow hm]
  set P := ((10 ^ m : ℕ) : ℚ) with hP
  have hPpos : 0 < P := by rw [hP]; positivity
  have hP74 : P ≤ 2 ^ 74 := ten_pow_le hm
  have hTq : |(T : ℚ)| ≤ 2 ^ 50 := by exact_mod_cast hT
  set y := fl64 ((T : ℚ) / P) with hy
  have e1 := Soft64R.fl64_err_le ((T : ℚ) / P)
  rw [← hy, pow2_m53, abs_div, abs_of_pos hPpos] at e1
  have t := pow2_m1075_le
  have tpos := Soft64R.pow2_pos (-1075)
  -- z = P * y
  have hz : |P * y - T| ≤ 3 / 16 := by
    have : P * y - T = P * (y - T / P) := by field_simp
    rw [this, abs_mul, abs_of_pos hPpos]
    have : P * |y - (T : ℚ) / P| ≤ P * (|(T : ℚ)| / P * (1 / 2 ^ 53) + pow2 (-1075)) :=
      mul_le_mul_of_nonneg_left e1 hPpos.le
    have e2 : P * (|(T : ℚ)| / P * (1 / 2 ^ 53) + pow2 (-1075)) = |(T : ℚ)| * (1 / 2 ^ 53) + P * pow2 (-1075) := by
      field_simp
    rw [e2] at this
    have h3 : P * pow2 (-1075) ≤ 2 ^ 74 * (1 / 2 ^ 200) := mul_le_mul hP74 t tpos.le (by positivity)
    have h4 : |(T : ℚ)| * (1 / 2 ^ 53) ≤ 2 ^ 50 * (1 / 2 ^ 53) := mul_le_mul_of_nonneg_right hTq (by positivity)
    have h5 : (2 : ℚ) ^ 50 * (1 / 2 ^ 53) + 2 ^ 74 * (1 / 2 ^ 200) ≤ 3 / 16 := by norm_num
    linarith
  have hzabs : |P * y| ≤ 2 ^ 50 + 1 := by
    have := abs_sub_abs_le_abs_sub (P * y) (T : ℚ)
    linarith
  have e3 := Soft64R.fl64_err_le (P * y)
  rw [pow2_m53] at e3
  have hw : |fl64 (P * y) - P * y| ≤ 3 / 16 := by
    have h4 : |P * y| * (1 / 2 ^ 53) ≤ (2 ^ 50 + 1) * (1 / 2 ^ 53) := mul_le_mul_of_nonneg_right hzabs (by positivity)
    have h5 : ((2 : ℚ) ^ 50 + 1) * (1 / 2 ^ 53) + 1 / 2 ^ 200 ≤ 3 / 16 := by norm_num
    linarith
  have hfin : |fl64 (P * y) - (T : ℚ)| < 1 / 2 := by
    have : fl64 (P * y) - (T : ℚ) = (fl64 (P * y) - P * y) + (P * y - T) := by ring
    rw [this]
    have := abs_add_le (fl64 (P * y) - P * y) (P * y - T)
    linarith
  unfold fround fmul
  rw [Soft64R.roundHalfEven_eq_of_abs_lt hfin]


end Bin1d

namespace Bin1d
open Soft64

theorem fl64_int {z : ℤ} (hz : |z| ≤ 2 ^ 50) : fl64 (z : ℚ) = (z : ℚ) :=
  Soft64R.fl64_intCast (le_trans hz (by norm_num))

/-- the guard of cleaner_range's main path holds for decimal operands below 2^50 -/
theorem guard_lt {T : ℤ} {m : ℕ} (hT : |T| ≤ 2 ^ 50) (hm : m ≤ 22) :
    fmul (fl64 ((10 ^ m : ℕ) : ℚ)) (fabs (fl64 ((T : ℚ) / ((10 ^ m : ℕ) : ℚ)))) < pow2 52 := by
  rw [fl64_ten_pow hm, fabs_eq_abs]
  set P := ((10 ^ m : ℕ) : ℚ) with hP
  have hPpos : 0 < P := by rw [hP]; positivity
  have hP74 : P ≤ 2 ^ 74 := ten_pow_le hm
  have hTq : |(T : ℚ)| ≤ 2 ^ 50 := by exact_mod_cast hT
  have e1 := Soft64R.fl64_err_le ((T : ℚ) / P)
  rw [pow2_m53, abs_div, abs_of_pos hPpos] at e1
  have t := pow2_m1075_le
  have tpos := Soft64R.pow2_pos (-1075)
  have hy : |fl64 ((T : ℚ) / P)| ≤ |(T : ℚ)| / P + (|(T : ℚ)| / P * (1 / 2 ^ 53) + pow2 (-1075)) := by
    have := abs_sub_abs_le_abs_sub (fl64 ((T : ℚ) / P)) ((T : ℚ) / P)
    rw [abs_div, abs_of_pos hPpos] at this
    linarith
  have hz : P * |fl64 ((T : ℚ) / P)| ≤ 2 ^ 50 + 1 := by
    have h1 : P * |fl64 ((T : ℚ) / P)| ≤ P * (|(T : ℚ)| / P + (|(T : ℚ)| / P * (1 / 2 ^ 53) + pow2 (-1075))) :=
      mul_le_mul_of_nonneg_left hy hPpos.le
    have e2 : P * (|(T : ℚ)| / P + (|(T : ℚ)| / P * (1 / 2 ^ 53) + pow2 (-1075)))
        = |(T : ℚ)| + |(T : ℚ)| * (1 / 2 ^ 53) + P * pow2 (-1075) := by field_simp; ring
    rw [e2] at h1
    have h3 : P * pow2 (-1075) ≤ 2 ^ 74 * (1 / 2 ^ 200) := mul_le_mul hP74 t tpos.le (by positivity)
    have h4 : |(T : ℚ)| * (1 / 2 ^ 53) ≤ 2 ^ 50 * (1 / 2 ^ 53) := mul_le_mul_of_nonneg_right hTq (by positivity)
    have h5 : (2 : ℚ) ^ 50 * (1 / 2 ^ 53) + 2 ^ 74 * (1 / 2 ^ 200) ≤ 1 := by norm_num
    linarith
  have hb : fl64 (((2 ^ 50 + 1 : ℤ) : ℚ)) = ((2 ^ 50 + 1 : ℤ) : ℚ) := Soft64R.fl64_intCast (by norm_num)
  have : fl64 (P * |fl64 ((T : ℚ) / P)|) ≤ ((2 ^ 50 + 1 : ℤ) : ℚ) :=
    Soft64R.fl64_le_of_le_float hb (by push_cast; linarith)
  unfold fmul
  have e52 : pow2 52 = 2 ^ 52 := by rw [Soft64R.pow2_eq_zpow]; norm_num
  rw [e52]
  have : ((2 ^ 50 + 1 : ℤ) : ℚ) < 2 ^ 52 := by norm_num
  linarith

/-- numpy.arange on integer-valued float64 operands below 2^50 is exact -/
theorem arangeF_int (S D : ℤ) (cnt : ℕ) (hD : 0 < D) (hb : |S| + ((cnt : ℤ) + 1) * D ≤ 2 ^ 50) :
    arangeF (S : ℚ) (fadd ((S + cnt * D : ℤ) : ℚ) (fdiv (D : ℚ) 2)) (D : ℚ)
      = (List.range (cnt + 1)).map (fun (i : ℕ) => ((S + (i : ℤ) * D : ℤ) : ℚ)) := by
  have hS : |S| ≤ 2 ^ 50 := by nlinarith [abs_nonneg S]
  have hcD : (cnt : ℤ) * D ≤ 2 ^ 50 := by nlinarith [abs_nonneg S]
  have hDb : D ≤ 2 ^ 50 := by nlinarith [abs_nonneg S]
  have hiD : ∀ i : ℕ, i ≤ cnt → |(i : ℤ) * D| ≤ 2 ^ 50 ∧ |S + (i : ℤ) * D| ≤ 2 ^ 50 := by
    intro i hi
    have h1 : (0 : ℤ) ≤ (i : ℤ) * D := by positivity
    have h2 : (i : ℤ) * D ≤ (cnt : ℤ) * D := by
      apply mul_le_mul_of_nonneg_right _ hD.le; exact_mod_cast hi
    constructor
    · rw [abs_of_nonneg h1]; omega
    · have := abs_add_le S ((i : ℤ) * D)
      rw [abs_of_nonneg h1] at this
      have : |S| + (cnt : ℤ) * D ≤ 2 ^ 50 := by nlinarith
      omega
  -- the stop value and the length
  have e_half : fdiv (D : ℚ) 2 = (D : ℚ) / 2 := fl64_half_int (by rw [abs_of_pos hD]; omega)
  have e_stop : fadd ((S + cnt * D : ℤ) : ℚ) ((D : ℚ) / 2) = ((2 * (S + cnt * D) + D : ℤ) : ℚ) / 2 := by
    unfold fadd
    have : ((S + cnt * D : ℤ) : ℚ) + (D : ℚ) / 2 = ((2 * (S + cnt * D) + D : ℤ) : ℚ) / 2 := by push_cast; ring
    rw [this]
    apply fl64_half_int
    have := (hiD cnt le_rfl).2
    have h3 : |2 * (S + ↑cnt * D) + D| ≤ 2 * |S + ↑cnt * D| + |D| := by
      calc |2 * (S + ↑cnt * D) + D| ≤ |2 * (S + ↑cnt * D)| + |D| := abs_add_le _ _
        _ = 2 * |S + ↑cnt * D| + |D| := by rw [abs_mul]; norm_num
    rw [abs_of_pos hD] at h3
    omega
  have e_diff : fsub (((2 * (S + cnt * D) + D : ℤ) : ℚ) / 2) (S : ℚ) = ((((2 * cnt + 1 : ℕ) : ℤ) * D : ℤ) : ℚ) / 2 := by
    unfold fsub
    have : ((2 * (S + cnt * D) + D : ℤ) : ℚ) / 2 - (S : ℚ) = ((((2 * cnt + 1 : ℕ) : ℤ) * D : ℤ) : ℚ) / 2 := by
      push_cast; ring
    rw [this]
    apply fl64_half_int
    rw [abs_of_nonneg (by positivity)]
    push_cast
    nlinarith
  have hDq : (D : ℚ) ≠ 0 := by exact_mod_cast hD.ne'
  have e_quot : fdiv (((((2 * cnt + 1 : ℕ) : ℤ) * D : ℤ) : ℚ) / 2) (D : ℚ) = (((2 * cnt + 1 : ℕ) : ℤ) : ℚ) / 2 := by
    unfold fdiv
    have : ((((2 * cnt + 1 : ℕ) : ℤ) * D : ℤ) : ℚ) / 2 / (D : ℚ) = (((2 * cnt + 1 : ℕ) : ℤ) : ℚ) / 2 := by
      push_cast; field_simp
    rw [this]
    apply fl64_half_int
    rw [abs_of_nonneg (by positivity)]
    push_cast
    have : (cnt : ℤ) ≤ 2 ^ 50 := by nlinarith
    omega
  have e_len : (-(-((((2 * cnt + 1 : ℕ) : ℤ) : ℚ) / 2)).floor).toNat = cnt + 1 := by
    have : (-((((2 * cnt + 1 : ℕ) : ℤ) : ℚ) / 2)).floor = -((cnt : ℤ) + 1) := by
      rw [rfloor_eq, Int.floor_eq_iff]
      push_cast
      constructor <;> linarith
    rw [this]; omega
  have e_second : fadd (S : ℚ) (D : ℚ) = ((S + D : ℤ) : ℚ) := by
    unfold fadd
    have : (S : ℚ) + (D : ℚ) = ((S + D : ℤ) : ℚ) := by push_cast; ring
    rw [this]; apply fl64_int
    have := abs_add_le S D
    rw [abs_of_pos hD] at this
    have h2 : (0 : ℤ) ≤ (cnt : ℤ) * D := by positivity
    nlinarith
  have e_delta : fsub ((S + D : ℤ) : ℚ) (S : ℚ) = (D : ℚ) := by
    unfold fsub
    have : ((S + D : ℤ) : ℚ) - (S : ℚ) = (D : ℚ) := by push_cast; ring
    rw [this]; exact fl64_int (by rw [abs_of_pos hD]; exact hDb)
  unfold arangeF
  simp only [e_half, e_stop, e_diff, e_quot, e_len, e_second, e_delta]
  apply List.map_congr_left
  intro i hi
  rw [List.mem_range] at hi
  by_cases h0 : i = 0
  · subst h0; simp
  · by_cases h1 : i = 1
    · subst h1; simp
    · simp only [h0, h1, if_false]
      unfold fadd fmul
      have hb1 := (hiD i (by omega))
      have : ((i : ℕ) : ℚ) * (D : ℚ) = (((i : ℤ) * D : ℤ) : ℚ) := by push_cast; ring
      rw [this, fl64_int hb1.1]
      have : (S : ℚ) + (((i : ℤ) * D : ℤ) : ℚ) = ((S + (i : ℤ) * D : ℤ) : ℚ) := by push_cast; ring
      rw [this, fl64_int hb1.2]


end Bin1d

/-! ## monotonicity of the float formula -/
namespace Bin1d
open Soft64

theorem fabs_of_nonneg {a : ℚ} (h : 0 ≤ a) : fabs a = a := by
  unfold fabs; rw [if_neg (not_lt.mpr h)]

/-- the float quotient is monotone in the point for non-negative points (every step is a monotone rounding of a
monotone exact function), provided the denominator `h - h_tol` is positive -/
theorem qF_mono {n : ℕ} (edge : ℕ → ℚ) {p p' : ℚ} (h0 : 0 ≤ p) (hpp : p ≤ p')
    (hden : 0 < denOf .f64 n edge) : qF n edge p ≤ qF n edge p' := by
  unfold qF
  rw [quotF_cfg64, quotF_cfg64]
  simp only
  apply Soft64R.fl64_mono
  apply div_le_div_of_nonneg_right _ hden.le
  apply Soft64R.fl64_mono
  apply add_le_add_left
  apply Soft64R.fl64_mono
  apply add_le_add
  · exact Soft64R.fl64_mono (by linarith)
  · apply Soft64R.fl64_mono
    rw [fabs_of_nonneg h0, fabs_of_nonneg (le_trans h0 hpp)]
    exact mul_le_mul_of_nonneg_right hpp eps64_pos.le

/-- the two corrections are jointly monotone in the floor index and the point -/
theorem corrInt_mono {n : ℕ} (edge : ℕ → ℚ) (top : ℚ) {p p' : ℚ} (hpp : p ≤ p') {i i' : ℤ} (hii : i ≤ i') :
    corrInt n edge top p i ≤ corrInt n edge top p' i' := by
  have hge := corrInt_ge n edge top p' i'
  rcases lt_or_eq_of_le hii with hlt | heq
  · -- i < i'
    unfold corrInt
    unfold corrInt at hge
    simp only at hge ⊢
    by_cases hc : 0 ≤ i ∧ i + 1 < (n : ℤ) ∧ edge (i + 1).toNat ≤ p
    · rw [if_pos hc]
      by_cases h2 : i + 1 = (n : ℤ) - 1 ∧ top ≤ p
      · rw [if_pos h2]
        -- i' ≥ n-1 and top ≤ p'
        have ht : top ≤ p' := le_trans h2.2 hpp
        by_cases hc' : 0 ≤ i' ∧ i' + 1 < (n : ℤ) ∧ edge (i' + 1).toNat ≤ p'
        · omega
        · rw [if_neg hc']
          by_cases h3 : i' = (n : ℤ) - 1 ∧ top ≤ p'
          · rw [if_pos h3]
          · rw [if_neg h3]
            have : i' ≠ (n : ℤ) - 1 := fun h => h3 ⟨h, ht⟩
            omega
      · rw [if_neg h2]; omega
    · rw [if_neg hc]
      by_cases h2 : i = (n : ℤ) - 1 ∧ top ≤ p
      · rw [if_pos h2]; omega
      · rw [if_neg h2]; omega
  · subst heq
    unfold corrInt
    simp only
    by_cases hc : 0 ≤ i ∧ i + 1 < (n : ℤ) ∧ edge (i + 1).toNat ≤ p
    · have hc' : 0 ≤ i ∧ i + 1 < (n : ℤ) ∧ edge (i + 1).toNat ≤ p' := ⟨hc.1, hc.2.1, le_trans hc.2.2 hpp⟩
      rw [if_pos hc, if_pos hc']
      by_cases h2 : i + 1 = (n : ℤ) - 1 ∧ top ≤ p
      · rw [if_pos h2, if_pos ⟨h2.1, le_trans h2.2 hpp⟩]
      · rw [if_neg h2]; split_ifs <;> omega
    · rw [if_neg hc]
      by_cases h2 : i = (n : ℤ) - 1 ∧ top ≤ p
      · have ht : top ≤ p' := le_trans h2.2 hpp
        rw [if_pos h2]
        have hc' : ¬ (0 ≤ i ∧ i + 1 < (n : ℤ) ∧ edge (i + 1).toNat ≤ p') := by
          intro h; omega
        rw [if_neg hc', if_pos ⟨h2.1, ht⟩]
      · rw [if_neg h2]
        split_ifs <;> omega

theorem clampInt_mono (rc : Bool) (n : ℕ) {z z' : ℤ} (h : z ≤ z') :
    clampInt rc n z ≤ clampInt rc n z' ∨ (rc = false ∧ clampInt rc n z' = -1) := by
  unfold clampInt
  cases rc <;> simp <;> split_ifs <;> omega


end Bin1d
