import PycsepVerif.Model.Readers
import Mathlib.Tactic.Linarith
import Mathlib.Tactic.Ring
import Mathlib.Data.Rat.Floor

/-!
Helper lemmas for C19: calendar (next day), `int()` truncation, the per-record decoders.
-/
namespace Readers

/-! ### calendar -/

theorem month_cases {m : Int} (h1 : 1 ≤ m) (h2 : m ≤ 12) :
    m = 1 ∨ m = 2 ∨ m = 3 ∨ m = 4 ∨ m = 5 ∨ m = 6 ∨ m = 7 ∨ m = 8 ∨ m = 9 ∨ m = 10 ∨ m = 11 ∨ m = 12 := by omega

theorem validDate_iff (y m d : Int) :
    validDate y m d = true ↔ 1 ≤ y ∧ y ≤ 9999 ∧ 1 ≤ m ∧ m ≤ 12 ∧ 1 ≤ d ∧ d ≤ daysInMonth y m := by
  simp [validDate, and_assoc]

/-- the day count of the next civil date is one more: across month ends, leap days and year ends -/
theorem daysFromCivil_nextDay' (y m d : Int) (h : validDate y m d = true) :
    daysFromCivil (nextDay y m d).1 (nextDay y m d).2.1 (nextDay y m d).2.2 = daysFromCivil y m d + 1 := by
  rw [validDate_iff] at h
  obtain ⟨_, _, hm1, hm2, hd1, hd2⟩ := h
  rcases month_cases hm1 hm2 with rfl | rfl | rfl | rfl | rfl | rfl | rfl | rfl | rfl | rfl | rfl | rfl
  all_goals
    by_cases hl : isLeap y = true
    all_goals
      simp only [daysInMonth, hl] at hd2
      simp only [nextDay, daysInMonth, hl]
      simp only [isLeap, Bool.and_eq_true, Bool.or_eq_true, beq_iff_eq, bne_iff_ne, ne_eq] at hl
      simp at hd2 ⊢
      split <;> simp [daysFromCivil] <;> omega

/-- the next civil date is a valid date (unless the year leaves datetime's range) -/
theorem validDate_nextDay (y m d : Int) (h : validDate y m d = true) (hy : y < 9999) :
    validDate (nextDay y m d).1 (nextDay y m d).2.1 (nextDay y m d).2.2 = true := by
  rw [validDate_iff] at h ⊢
  obtain ⟨hy1, _, hm1, hm2, hd1, hd2⟩ := h
  rcases month_cases hm1 hm2 with rfl | rfl | rfl | rfl | rfl | rfl | rfl | rfl | rfl | rfl | rfl | rfl
  all_goals
    by_cases hl : isLeap y = true
    all_goals
      simp only [daysInMonth, hl] at hd2
      simp only [nextDay, daysInMonth, hl]
      simp at hd2 ⊢
      split <;> simp <;> omega

theorem clock_valid_iff (c : Clock) :
    c.valid = true ↔ validDate c.y c.m c.d = true ∧ 0 ≤ c.hh ∧ c.hh < 24 ∧ 0 ≤ c.mi ∧ c.mi < 60 ∧ 0 ≤ c.ss ∧ c.ss < 60 := by
  simp [Clock.valid, and_assoc]

theorem epochSec_nextMinute (c : Clock) (h : c.valid = true) : (nextMinute c).epochSec = c.epochSec + 60 := by
  rw [clock_valid_iff] at h
  obtain ⟨hd, h0, h1, m0, m1, _, _⟩ := h
  unfold nextMinute
  split
  · simp only [Clock.epochSec]; omega
  · split
    · simp only [Clock.epochSec]; omega
    · have := daysFromCivil_nextDay' c.y c.m c.d hd
      simp only [Clock.epochSec, this]; omega

theorem valid_nextMinute (c : Clock) (h : c.valid = true) (hy : c.y < 9999) : (nextMinute c).valid = true := by
  have hv := h
  rw [clock_valid_iff] at h
  obtain ⟨hd, h0, h1, m0, m1, s0, s1⟩ := h
  unfold nextMinute
  split
  · rw [clock_valid_iff]; simp only; refine ⟨hd, h0, h1, ?_, ?_, s0, s1⟩ <;> omega
  · split
    · rw [clock_valid_iff]; simp only; refine ⟨hd, ?_, ?_, ?_, ?_, s0, s1⟩ <;> omega
    · rw [clock_valid_iff]; simp only
      exact ⟨validDate_nextDay c.y c.m c.d hd hy, by omega, by omega, by omega, by omega, s0, s1⟩

/-! ### `int()` on floats -/

theorem floor_int_add_frac (n : Int) (f : Rat) (h0 : 0 ≤ f) (h1 : f < 1) : ((n : Rat) + f).floor = n := by
  have ha : n ≤ ((n : Rat) + f).floor := Rat.le_floor_iff.mpr (by linarith)
  have hb : ((n : Rat) + f).floor < n + 1 := Rat.floor_lt_iff.mpr (by push_cast; linarith)
  omega

theorem trunc_int_add_frac (n : Int) (f : Rat) (hn : 0 ≤ n) (h0 : 0 ≤ f) (h1 : f < 1) :
    trunc ((n : Rat) + f) = n := by
  have hn' : (0 : Rat) ≤ (n : Rat) := by exact_mod_cast hn
  unfold trunc
  rw [if_pos (by linarith), floor_int_add_frac n f h0 h1]

theorem trunc_int (n : Int) (hn : 0 ≤ n) : trunc (n : Rat) = n := by
  have := trunc_int_add_frac n 0 hn (le_refl 0) (by norm_num)
  simpa using this

/-! ### `mapM` in `Except` -/

theorem mapM_ok {α β ε} (f : α → Except ε β) (g : α → β) (l : List α) (h : ∀ x ∈ l, f x = .ok (g x)) :
    l.mapM f = .ok (l.map g) := by
  induction l with
  | nil => rfl
  | cons a l ih =>
    rw [List.mapM_cons, h a List.mem_cons_self, ih (fun x hx => h x (List.mem_cons_of_mem _ hx))]
    rfl

/-! ### per-record decoders -/

theorem epochMs_eq (c : Clock) (us : Int) : epochMs c us = (c.epochSec * 1000000 + us) / 1000 := by
  unfold epochMs; omega

theorem csepRec_encode (e : MsEvent) (h : e.wf) :
    csepRec ⟨e.lon, e.lat, e.mag, e.clock, e.us, e.depth⟩ = .ok ⟨e.usTotal / 1000, e.lat, e.lon, e.depth, e.mag⟩ := by
  obtain ⟨hv, h0, h1⟩ := h
  unfold csepRec
  have hc : (e.clock.valid && decide (0 ≤ e.us) && decide (e.us < 1000000)) = true := by
    rw [hv]; simp only [Bool.true_and, Bool.and_eq_true, decide_eq_true_eq]; exact ⟨h0, h1⟩
  simp only [hc, if_true, epochMs_eq, MsEvent.usTotal]

/-- a list of rows, each of which decodes, decodes to the list of their events whatever `is_first_event` is -/
theorem lineLoop_rows {α : Type} (f : α → Except Err Event) (g : α → Event) (rs : List α)
    (h : ∀ r ∈ rs, f r = .ok (g r)) (first : Bool) :
    lineLoop f first (rs.map Line.row) = .ok (rs.map g) := by
  induction rs generalizing first with
  | nil => rfl
  | cons r rs ih =>
    simp only [List.map_cons, lineLoop]
    rw [h r List.mem_cons_self]
    simp only [ih (fun x hx => h x (List.mem_cons_of_mem _ hx)) false]

theorem lineLoop_header {α : Type} (f : α → Except Err Event) (ls : List (Line α)) :
    lineLoop f true (Line.header :: ls) = lineLoop f true ls := by
  simp [lineLoop]

theorem zmapRec_encode (e : SecEvent) (h : e.wf) (yfrac : Rat) (hy0 : 0 ≤ yfrac) (hy1 : yfrac < 1) (extra : List Rat) :
    zmapRec (encodeZmap e yfrac extra) = .ok e.expected := by
  obtain ⟨hv, h0, h1⟩ := h
  have hv' := (clock_valid_iff _).mp hv
  obtain ⟨hd, hh0, _, hm0, _, hs0, _⟩ := hv'
  rw [validDate_iff] at hd
  obtain ⟨hy, _, hmo, _, hda, _⟩ := hd
  have hlen : ¬ (encodeZmap e yfrac extra).length < 10 := by simp [encodeZmap]
  unfold zmapRec
  rw [if_neg hlen]
  have c2 : zcol "DecimalYear" = 2 := by decide
  have c3 : zcol "Month" = 3 := by decide
  have c4 : zcol "Day" = 4 := by decide
  have c7 : zcol "Hour" = 7 := by decide
  have c8 : zcol "Minute" = 8 := by decide
  have c9 : zcol "Second" = 9 := by decide
  have c0 : zcol "Longitude" = 0 := by decide
  have c1 : zcol "Latitude" = 1 := by decide
  have c5 : zcol "Magnitude" = 5 := by decide
  have c6 : zcol "Depth" = 6 := by decide
  simp only [c0, c1, c2, c3, c4, c5, c6, c7, c8, c9, encodeZmap, List.cons_append, List.nil_append,
    List.getD_cons_zero, List.getD_cons_succ]
  rw [trunc_int_add_frac _ _ (by omega) hy0 hy1, trunc_int _ (by omega), trunc_int _ (by omega),
    trunc_int _ hh0, trunc_int _ hm0, trunc_int_add_frac _ _ hs0 h0 h1]
  have : (⟨e.clock.y, e.clock.m, e.clock.d, e.clock.hh, e.clock.mi, e.clock.ss⟩ : Clock) = e.clock := rfl
  simp only [this, hv, if_true, SecEvent.expected, epochMs]
  congr 2
  omega

/-- the general HORUS statement: any combination of denormalised seconds / minutes / hours -/
theorem horusRec_encode (e : SecEvent) (h : e.wf) (cs cm ch : Bool) :
    horusRec (encodeHorus e cs cm ch) =
      .ok ⟨(e.clock.epochSec + (if cs then 60 else 0) + (if cm then 3600 else 0) + (if ch then 86400 else 0)) * 1000,
           e.lat, e.lon, e.depth, e.mag⟩ := by
  obtain ⟨hv, h0, h1⟩ := h
  have hv' := (clock_valid_iff _).mp hv
  obtain ⟨hd, hh0, hh1, hm0, hm1, hs0, hs1⟩ := hv'
  have hs0' : (0 : Rat) ≤ (e.clock.ss : Rat) := by exact_mod_cast hs0
  have hs1' : (e.clock.ss : Rat) ≤ 59 := by
    have : e.clock.ss ≤ 59 := by omega
    exact_mod_cast this
  have hclock : (⟨e.clock.y, e.clock.m, e.clock.d, e.clock.hh, e.clock.mi, e.clock.ss⟩ : Clock) = e.clock := rfl
  have hsec : trunc ((e.clock.ss : Rat) + e.frac) = e.clock.ss := trunc_int_add_frac _ _ hs0 h0 h1
  unfold horusRec encodeHorus
  cases cs <;> cases cm <;> cases ch <;>
    simp only [Bool.false_eq_true, if_false, if_true, Int.add_zero, Rat.add_zero]
  all_goals
    first
    | rw [if_pos (show (60 : Rat) ≤ (e.clock.ss : Rat) + e.frac + 60 by linarith)]
      rw [show (e.clock.ss : Rat) + e.frac + 60 - 60 = (e.clock.ss : Rat) + e.frac by ring]
    | rw [if_neg (show ¬ (60 : Rat) ≤ (e.clock.ss : Rat) + e.frac by linarith)]
  all_goals
    first
    | rw [if_pos (show (60 : Int) ≤ e.clock.mi + 60 by omega)]
      rw [show e.clock.mi + 60 - 60 = e.clock.mi by omega]
    | rw [if_neg (show ¬ (60 : Int) ≤ e.clock.mi by omega)]
  all_goals
    first
    | rw [if_pos (show (24 : Int) ≤ e.clock.hh + 24 by omega)]
      rw [show e.clock.hh + 24 - 24 = e.clock.hh by omega]
    | rw [if_neg (show ¬ (24 : Int) ≤ e.clock.hh by omega)]
  all_goals
    simp only [hsec, hclock, hv, if_true, Int.zero_add]
    try (congr 2; omega)

theorem ndkRec_encode (e : SecEvent) (h : e.wf) (tenth : Int) :
    ndkRec (encodeNdk e tenth) = .ok e.expected := by
  obtain ⟨hv, _, _⟩ := h
  have hv' := (clock_valid_iff _).mp hv
  have hne : ¬ e.clock.ss = 60 := by omega
  have hclock : (⟨e.clock.y, e.clock.m, e.clock.d, e.clock.hh, e.clock.mi, e.clock.ss⟩ : Clock) = e.clock := rfl
  simp [ndkRec, encodeNdk, hne, hclock, hv, SecEvent.expected]

/-- NDK seconds `60.0`: the decoded time is the clock reading with seconds 0, plus one minute -/
theorem ndkRec_sec60 (c : Clock) (hv : ({ c with ss := 0 } : Clock).valid = true) (lat lon depth mw : Rat) :
    ndkRec ⟨c.y, c.m, c.d, c.hh, c.mi, 60, 0, lat, lon, depth, mw⟩ =
      .ok ⟨(({ c with ss := 0 } : Clock).epochSec + 60) * 1000, lat, lon, depth, mw⟩ := by
  simp only [ndkRec]
  simp only [beq_self_eq_true, Bool.and_self, if_true]
  rw [if_pos hv]

theorem roundHalfEven_int (n : Int) : Soft64.roundHalfEven (n : Rat) = n := by
  unfold Soft64.roundHalfEven
  simp only [Rat.floor_intCast, sub_self]
  rw [if_pos (by norm_num)]

theorem jmaRec_time (clock : Clock) (us offset : Int) (lon lat depth mag : Rat)
    (hv : clock.valid = true) (h0 : 0 ≤ us) (h1 : us < 1000000) :
    jmaRec ⟨clock, us, offset, lon, lat, depth, mag⟩ =
      .ok ⟨Soft64.roundHalfEven ((((clock.epochSec - offset) * 1000000 + us : Int) : Rat) / 1000), lat, lon, depth, mag⟩ := by
  unfold jmaRec
  have hc : (clock.valid && decide (0 ≤ us) && decide (us < 1000000)) = true := by
    rw [hv]; simp only [Bool.true_and, Bool.and_eq_true, decide_eq_true_eq]; exact ⟨h0, h1⟩
  simp only [hc, if_true]

theorem jmaRec_ms (clock : Clock) (us offset : Int) (lon lat depth mag : Rat)
    (hv : clock.valid = true) (h0 : 0 ≤ us) (h1 : us < 1000000) (hm : us % 1000 = 0) :
    jmaRec ⟨clock, us, offset, lon, lat, depth, mag⟩ =
      .ok ⟨(clock.epochSec - offset) * 1000 + us / 1000, lat, lon, depth, mag⟩ := by
  rw [jmaRec_time clock us offset lon lat depth mag hv h0 h1]
  have hus : us = (us / 1000) * 1000 := by omega
  have : ((((clock.epochSec - offset) * 1000000 + us : Int) : Rat) / 1000)
      = (((clock.epochSec - offset) * 1000 + us / 1000 : Int) : Rat) := by
    conv_lhs => rw [hus]
    push_cast; ring
  rw [this, roundHalfEven_int]

/-- rows that each decode, decode as a file to the list of their events, whatever `is_first_event` is -/
theorem lineLoop_map {α β : Type} (f : α → Except Err Event) (enc : β → α) (g : β → Event) (xs : List β)
    (h : ∀ x ∈ xs, f (enc x) = .ok (g x)) (first : Bool) :
    lineLoop f first (xs.map fun x => Line.row (enc x)) = .ok (xs.map g) := by
  induction xs generalizing first with
  | nil => rfl
  | cons x xs ih =>
    simp only [List.map_cons, lineLoop]
    rw [h x List.mem_cons_self]
    simp only [ih (fun y hy => h y (List.mem_cons_of_mem _ hy)) false]

end Readers
