import PycsepVerif.Model.DecimalText
import PycsepVerif.Proofs.DecimalNear
/-!
# `DecimalText`: the value of `repr(x)` always reads back

`reprValue x` (Model/DecimalText) searches the decimals with 1, 2, … significant digits next to `x` for one that rounds to
`x`; at 17 digits it takes the nearest one without testing.  `reprValue_roundtrip`: for every normal binary64 `x` the
result rounds to `x` — by construction for 1..16 digits, by `Soft64.fl64_of_17_digits` for the fallback.  This is the
fact `float(repr(x)) == x`, which the persistence theorems take as a hypothesis, for the model's `repr`.
-/
namespace DecimalText
open Soft64

theorem pow10_eq_zpow (e : ℤ) : pow10 e = (10 : ℚ) ^ e := by
  unfold pow10
  split_ifs with h
  · obtain ⟨n, rfl⟩ := Int.eq_ofNat_of_zero_le h
    simp
  · rw [not_le] at h
    obtain ⟨n, hn⟩ := Int.eq_ofNat_of_zero_le (show 0 ≤ -e by omega)
    have : e = -(n : ℤ) := by omega
    subst this
    simp

theorem pow10_pos (e : ℤ) : 0 < pow10 e := by rw [pow10_eq_zpow]; exact zpow_pos (by norm_num) e

theorem pow10_mono {a b : ℤ} (h : a ≤ b) : pow10 a ≤ pow10 b := by
  simp only [pow10_eq_zpow]; exact zpow_le_zpow_right₀ (by norm_num) h

/-- the downward search stops at a power of ten not above `x`, provided the last candidate is one -/
theorem ilog10Aux_le (x : ℚ) : ∀ (fuel : ℕ) (k : ℤ), pow10 (k - fuel) ≤ x → pow10 (ilog10Aux fuel k x) ≤ x
  | 0, k, h => by simpa [ilog10Aux] using h
  | fuel + 1, k, h => by
    unfold ilog10Aux
    split_ifs with hk
    · exact hk
    · apply ilog10Aux_le x fuel (k - 1)
      have : k - 1 - (fuel : ℤ) = k - ((fuel + 1 : ℕ) : ℤ) := by push_cast; ring
      rw [this]; exact h

theorem pow10_m400_le : pow10 (-400) ≤ pow2 (-1022) := by
  rw [pow10_eq_zpow, pow2_eq_zpow, zpow_neg, zpow_neg]
  apply inv_anti₀ (zpow_pos (by norm_num) _)
  have h1 : (2 : ℚ) ^ (1022 : ℤ) = (2 : ℚ) ^ (1022 : ℕ) := zpow_ofNat 2 1022
  have h2 : (10 : ℚ) ^ (400 : ℤ) = (10 : ℚ) ^ (400 : ℕ) := zpow_ofNat 10 400
  rw [h1, h2]
  have : (2 : ℕ) ^ 1022 ≤ (10 : ℕ) ^ 400 := by decide +kernel
  exact_mod_cast this

/-- `10^(ilog10 x) ≤ x` for every `x` at or above the smallest normal binary64 -/
theorem pow10_ilog10_le {x : ℚ} (hn : pow2 (-1022) ≤ x) : pow10 (ilog10 x) ≤ x := by
  unfold ilog10
  apply ilog10Aux_le
  refine le_trans (pow10_mono ?_) (le_trans pow10_m400_le hn)
  split_ifs <;> omega

/-- the first candidate is within half a unit of the `n`-th significant digit -/
theorem candidates_head (x : ℚ) (n : ℕ) :
    ∃ c, (candidates x n).headD x = c ∧ |c - x| ≤ pow10 (ilog10 x - (n : ℤ) + 1) / 2 := by
  have hs : 0 < pow10 (ilog10 x - (n : ℤ) + 1) := pow10_pos _
  set s := pow10 (ilog10 x - (n : ℤ) + 1) with hsdef
  have h1 := Int.floor_le (x / s)
  have h2 := Int.lt_floor_add_one (x / s)
  have key : ∀ (m : ℤ), |(m : ℚ) - x / s| ≤ 1 / 2 → |(m : ℚ) * s - x| ≤ s / 2 := by
    intro m hm
    have : (m : ℚ) * s - x = ((m : ℚ) - x / s) * s := by field_simp
    rw [this, abs_mul, abs_of_pos hs]
    calc |(m : ℚ) - x / s| * s ≤ 1 / 2 * s := mul_le_mul_of_nonneg_right hm (le_of_lt hs)
      _ = s / 2 := by ring
  have hcand : candidates x n =
      (if x / s - ((⌊x / s⌋ : ℤ) : ℚ) < 1 / 2 then [((⌊x / s⌋ : ℤ) : ℚ) * s, ((⌊x / s⌋ + 1 : ℤ) : ℚ) * s]
       else if x / s - ((⌊x / s⌋ : ℤ) : ℚ) > 1 / 2 then [((⌊x / s⌋ + 1 : ℤ) : ℚ) * s, ((⌊x / s⌋ : ℤ) : ℚ) * s]
       else if ⌊x / s⌋ % 2 = 0 then [((⌊x / s⌋ : ℤ) : ℚ) * s, ((⌊x / s⌋ + 1 : ℤ) : ℚ) * s]
       else [((⌊x / s⌋ + 1 : ℤ) : ℚ) * s, ((⌊x / s⌋ : ℤ) : ℚ) * s]) := rfl
  rw [hcand]
  split_ifs with ha hb hc
  · exact ⟨_, rfl, key _ (by rw [abs_le]; constructor <;> linarith)⟩
  · exact ⟨_, rfl, key _ (by rw [abs_le]; push_cast; constructor <;> linarith)⟩
  · exact ⟨_, rfl, key _ (by rw [abs_le]; constructor <;> linarith)⟩
  · exact ⟨_, rfl, key _ (by rw [abs_le]; push_cast; constructor <;> linarith)⟩

/-- whatever the search returns rounds to `x`, provided the 17-digit fallback does -/
theorem reprSearch_spec (x : ℚ) : ∀ (fuel n : ℕ), n + fuel = 17 →
    fl64 ((candidates x 17).headD x) = x → fl64 (reprSearch x fuel n) = x
  | 0, n, hn, h => by
    have : n = 17 := by omega
    subst this
    simpa [reprSearch] using h
  | fuel + 1, n, hn, h => by
    unfold reprSearch
    split
    · rename_i c hc
      have := List.find?_some hc
      exact eq_of_beq this
    · exact reprSearch_spec x fuel (n + 1) (by omega) h

/-- the search on a positive normal binary64 value returns a decimal that rounds to it -/
theorem reprSearch_roundtrip {x : ℚ} (hx : IsF64 x) (hn : pow2 (-1022) ≤ x) : fl64 (reprSearch x 16 1) = x := by
  apply reprSearch_spec x 16 1 (by norm_num)
  obtain ⟨c, hc, hclose⟩ := candidates_head x 17
  rw [hc]
  have hk := pow10_ilog10_le hn
  rw [pow10_eq_zpow] at hk hclose
  apply fl64_of_17_digits hx hn hk
  have : ilog10 x - ((17 : ℕ) : ℤ) + 1 = ilog10 x - 16 := by push_cast; ring
  rw [this] at hclose
  exact hclose

/-- **`float(repr(x)) == x` for the model's `repr`**: the decimal `reprValue x` rounds to `x`, for every binary64 `x`
    that is zero or normal -/
theorem reprValue_roundtrip {x : ℚ} (hx : IsF64 x) (hn : x = 0 ∨ pow2 (-1022) ≤ |x|) : fl64 (reprValue x) = x := by
  unfold reprValue
  split_ifs with h0 hneg
  · rw [h0]; exact fl64_zero
  · have hn' : pow2 (-1022) ≤ -x := by
      rcases hn with h | h
      · exact absurd h h0
      · rwa [abs_of_neg hneg] at h
    have hx' : IsF64 (-x) := by unfold IsF64 at hx ⊢; rw [fl64_neg, hx]
    rw [fl64_neg, reprSearch_roundtrip hx' hn']; ring
  · have hpos : 0 < x := lt_of_le_of_ne (not_lt.mp hneg) (Ne.symm h0)
    have hn' : pow2 (-1022) ≤ x := by
      rcases hn with h | h
      · exact absurd h h0
      · rwa [abs_of_pos hpos] at h
    exact reprSearch_roundtrip hx hn'

end DecimalText
