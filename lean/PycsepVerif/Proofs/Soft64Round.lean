import PycsepVerif.Soft64
import Mathlib.Data.Rat.Floor
import Mathlib.Tactic.Ring
import Mathlib.Tactic.Linarith
import Mathlib.Tactic.FieldSimp
import Mathlib.Tactic.Positivity
import Mathlib.Algebra.Order.Field.Power

namespace Soft64R
open Soft64

theorem pow2_eq_zpow (e : ℤ) : pow2 e = (2:ℚ)^e := by
  unfold pow2
  split
  · rename_i h
    have : e = (e.toNat : ℤ) := (Int.toNat_of_nonneg h).symm
    conv_rhs => rw [this]
    rw [zpow_natCast]; push_cast; rfl
  · rename_i h
    have : e = -((-e).toNat : ℤ) := by omega
    conv_rhs => rw [this]
    rw [zpow_neg, zpow_natCast]; push_cast; rw [one_div]

theorem pow2_pos (e : ℤ) : 0 < pow2 e := by
  rw [pow2_eq_zpow]; positivity

theorem pow2_add (a b : ℤ) : pow2 (a + b) = pow2 a * pow2 b := by
  simp only [pow2_eq_zpow]; exact zpow_add₀ (by norm_num) a b

theorem pow2_le_pow2_iff {a b : ℤ} : pow2 a ≤ pow2 b ↔ a ≤ b := by
  simp only [pow2_eq_zpow]; exact zpow_le_zpow_iff_right₀ (by norm_num)

theorem pow2_lt_pow2_iff {a b : ℤ} : pow2 a < pow2 b ↔ a < b := by
  simp only [pow2_eq_zpow]; exact zpow_lt_zpow_iff_right₀ (by norm_num)

theorem pow2_le_pow2 {a b : ℤ} (h : a ≤ b) : pow2 a ≤ pow2 b := pow2_le_pow2_iff.2 h

theorem pow2_lt_pow2 {a b : ℤ} (h : a < b) : pow2 a < pow2 b := pow2_lt_pow2_iff.2 h


theorem pow2_zero : pow2 0 = 1 := by rw [pow2_eq_zpow]; simp

theorem pow2_natCast (n : ℕ) : pow2 (n : ℤ) = ((2 ^ n : ℕ) : ℚ) := by
  rw [pow2_eq_zpow, zpow_natCast]; push_cast; rfl

theorem pow2_sub (a b : ℤ) : pow2 (a - b) = pow2 a / pow2 b := by
  simp only [pow2_eq_zpow]; exact zpow_sub₀ (by norm_num) a b

theorem pow2_neg (a : ℤ) : pow2 (-a) = (pow2 a)⁻¹ := by
  simp only [pow2_eq_zpow]; exact zpow_neg 2 a

theorem pow2_succ (a : ℤ) : pow2 (a + 1) = 2 * pow2 a := by
  simp only [pow2_eq_zpow]; rw [zpow_add₀ (by norm_num), zpow_one, mul_comm]

theorem ilog2_spec {x : ℚ} (hx : 0 < x) : pow2 (ilog2 x) ≤ x ∧ x < pow2 (ilog2 x + 1) := by
  have hnum : 0 < x.num := Rat.num_pos.2 hx
  obtain ⟨p, hp⟩ : ∃ p : ℕ, p = x.num.toNat := ⟨_, rfl⟩
  obtain ⟨q, hq⟩ : ∃ q : ℕ, q = x.den := ⟨_, rfl⟩
  have hp0 : p ≠ 0 := by omega
  have hq0 : q ≠ 0 := hq ▸ x.den_nz
  have hxpq : x = (p : ℚ) / (q : ℚ) := by
    have : ((p : ℤ) : ℚ) = (x.num : ℚ) := by rw [hp, Int.toNat_of_nonneg hnum.le]
    rw [← Int.cast_natCast p, this, hq]; exact (Rat.num_div_den x).symm
  have hpQ : (0 : ℚ) < p := by exact_mod_cast Nat.pos_of_ne_zero hp0
  have hqQ : (0 : ℚ) < q := by exact_mod_cast Nat.pos_of_ne_zero hq0
  have h1 : pow2 (Nat.log2 p : ℤ) ≤ (p : ℚ) := by
    rw [pow2_natCast]; exact_mod_cast Nat.log2_self_le hp0
  have h2 : (p : ℚ) < 2 * pow2 (Nat.log2 p : ℤ) := by
    rw [pow2_natCast]; have := @Nat.lt_log2_self p; rw [pow_succ] at this
    have h : ((p : ℕ) : ℚ) < ((2 ^ p.log2 * 2 : ℕ) : ℚ) := by exact_mod_cast this
    push_cast at h ⊢; linarith
  have h3 : pow2 (Nat.log2 q : ℤ) ≤ (q : ℚ) := by
    rw [pow2_natCast]; exact_mod_cast Nat.log2_self_le hq0
  have h4 : (q : ℚ) < 2 * pow2 (Nat.log2 q : ℤ) := by
    rw [pow2_natCast]; have := @Nat.lt_log2_self q; rw [pow_succ] at this
    have h : ((q : ℕ) : ℚ) < ((2 ^ q.log2 * 2 : ℕ) : ℚ) := by exact_mod_cast this
    push_cast at h ⊢; linarith
  have hA := pow2_pos (Nat.log2 p : ℤ)
  have hB := pow2_pos (Nat.log2 q : ℤ)
  have upper : x < pow2 ((Nat.log2 p : ℤ) - (Nat.log2 q : ℤ) + 1) := by
    rw [pow2_succ, pow2_sub, hxpq, div_lt_iff₀ hqQ]
    have : 2 * (pow2 ↑p.log2 / pow2 ↑q.log2) * ↑q = 2 * pow2 ↑p.log2 * (↑q / pow2 ↑q.log2) := by ring
    rw [this]
    have hq1 : 1 ≤ (q : ℚ) / pow2 ↑q.log2 := by rw [le_div_iff₀ hB]; linarith
    nlinarith
  have lower : pow2 ((Nat.log2 p : ℤ) - (Nat.log2 q : ℤ) - 1) < x := by
    have : pow2 ((Nat.log2 p : ℤ) - (Nat.log2 q : ℤ) - 1) = pow2 ↑p.log2 / (2 * pow2 ↑q.log2) := by
      rw [show (Nat.log2 p : ℤ) - (Nat.log2 q : ℤ) - 1 = (Nat.log2 p : ℤ) - ((Nat.log2 q : ℤ) + 1) by ring,
        pow2_sub, pow2_succ]
    rw [this, hxpq, div_lt_div_iff₀ (by positivity) hqQ]
    nlinarith
  unfold ilog2
  rw [if_neg (not_le.2 hx)]
  simp only [← hp, ← hq]
  split
  · rename_i h; exact ⟨h, upper⟩
  · rename_i h; exact ⟨lower.le, by simpa using not_le.1 h⟩

theorem ilog2_unique {x : ℚ} {e : ℤ} (hx : 0 < x) (h1 : pow2 e ≤ x) (h2 : x < pow2 (e + 1)) :
    ilog2 x = e := by
  obtain ⟨s1, s2⟩ := ilog2_spec hx
  have a : e < ilog2 x + 1 := pow2_lt_pow2_iff.1 (lt_of_le_of_lt h1 s2)
  have b : ilog2 x < e + 1 := pow2_lt_pow2_iff.1 (lt_of_le_of_lt s1 h2)
  omega

theorem ilog2_mono {x y : ℚ} (hx : 0 < x) (h : x ≤ y) : ilog2 x ≤ ilog2 y := by
  obtain ⟨s1, _⟩ := ilog2_spec hx
  obtain ⟨_, t2⟩ := ilog2_spec (lt_of_lt_of_le hx h)
  have : ilog2 x < ilog2 y + 1 := pow2_lt_pow2_iff.1 (lt_of_le_of_lt (s1.trans h) t2)
  omega


/-! ### roundHalfEven -/

theorem roundHalfEven_def (x : ℚ) : roundHalfEven x =
    if x - (⌊x⌋ : ℚ) < 1 / 2 then ⌊x⌋
    else if x - (⌊x⌋ : ℚ) > 1 / 2 then ⌊x⌋ + 1
    else if ⌊x⌋ % 2 = 0 then ⌊x⌋ else ⌊x⌋ + 1 := rfl

/-- characterisation: the result is a nearest integer, and is even on ties -/
theorem roundHalfEven_spec (x : ℚ) :
    |((roundHalfEven x : ℤ) : ℚ) - x| < 1 / 2 ∨
      (|((roundHalfEven x : ℤ) : ℚ) - x| = 1 / 2 ∧ roundHalfEven x % 2 = 0) := by
  have h1 : (⌊x⌋ : ℚ) ≤ x := Int.floor_le x
  have h2 : x < (⌊x⌋ : ℚ) + 1 := Int.lt_floor_add_one x
  rw [roundHalfEven_def]
  split_ifs with a b c
  · left; rw [abs_lt]; constructor <;> linarith
  · left; push_cast; rw [abs_lt]; constructor <;> linarith
  · right
    have : x - (⌊x⌋ : ℚ) = 1 / 2 := le_antisymm (not_lt.1 b) (not_lt.1 a)
    refine ⟨?_, c⟩
    rw [show (⌊x⌋ : ℚ) - x = -(1 / 2) by linarith, abs_neg, abs_of_pos (by norm_num)]
  · right
    have : x - (⌊x⌋ : ℚ) = 1 / 2 := le_antisymm (not_lt.1 b) (not_lt.1 a)
    refine ⟨?_, by omega⟩
    push_cast
    rw [show (⌊x⌋ : ℚ) + 1 - x = 1 / 2 by linarith, abs_of_pos (by norm_num)]

theorem roundHalfEven_unique {x : ℚ} {n : ℤ}
    (h : |(n : ℚ) - x| < 1 / 2 ∨ (|(n : ℚ) - x| = 1 / 2 ∧ n % 2 = 0)) : roundHalfEven x = n := by
  have hs := roundHalfEven_spec x
  obtain ⟨m, hm⟩ : ∃ m : ℤ, m = roundHalfEven x := ⟨_, rfl⟩
  rw [← hm] at hs ⊢
  have tri : |(m : ℚ) - n| ≤ |(m : ℚ) - x| + |(n : ℚ) - x| := by
    have := abs_sub_le (m : ℚ) x n
    rwa [abs_sub_comm x (n : ℚ)] at this
  have key : ∀ {a b : ℤ}, |(a : ℚ) - b| < 1 → a = b := by
    intro a b hab
    have : |a - b| < 1 := by exact_mod_cast hab
    rw [abs_lt] at this; omega
  rcases hs with hs | ⟨hs, hs'⟩
  · rcases h with h | ⟨h, _⟩ <;> exact key (by linarith)
  · rcases h with h | ⟨h, h'⟩
    · exact key (by linarith)
    · have : |(m : ℚ) - n| ≤ 1 := by linarith
      have : |m - n| ≤ 1 := by exact_mod_cast this
      rw [abs_le] at this; omega

theorem roundHalfEven_sub_le (x : ℚ) : |((roundHalfEven x : ℤ) : ℚ) - x| ≤ 1 / 2 := by
  rcases roundHalfEven_spec x with h | ⟨h, _⟩
  · exact h.le
  · exact h.le

theorem roundHalfEven_eq_of_abs_lt {x : ℚ} {n : ℤ} (h : |x - n| < 1 / 2) : roundHalfEven x = n :=
  roundHalfEven_unique (Or.inl (by rwa [abs_sub_comm]))

theorem roundHalfEven_intCast (n : ℤ) : roundHalfEven (n : ℚ) = n :=
  roundHalfEven_eq_of_abs_lt (by simp)

theorem roundHalfEven_neg (x : ℚ) : roundHalfEven (-x) = -roundHalfEven x := by
  apply roundHalfEven_unique
  have e : ((-roundHalfEven x : ℤ) : ℚ) - -x = -(((roundHalfEven x : ℤ) : ℚ) - x) := by
    push_cast; ring
  rw [e, abs_neg]
  rcases roundHalfEven_spec x with h | ⟨h, h'⟩
  · exact Or.inl h
  · exact Or.inr ⟨h, by omega⟩

theorem roundHalfEven_mono {x y : ℚ} (h : x ≤ y) : roundHalfEven x ≤ roundHalfEven y := by
  by_contra hc
  have hc : roundHalfEven y + 1 ≤ roundHalfEven x := by omega
  have hcq : ((roundHalfEven y : ℤ) : ℚ) + 1 ≤ ((roundHalfEven x : ℤ) : ℚ) := by exact_mod_cast hc
  have hx := abs_le.1 (roundHalfEven_sub_le x)
  have hy := abs_le.1 (roundHalfEven_sub_le y)
  have : x = y := by linarith
  subst this
  omega


/-! ### ulpExp -/

theorem le_ilog2 {x : ℚ} {a : ℤ} (hx : 0 < x) (h : pow2 a ≤ x) : a ≤ ilog2 x := by
  have := pow2_lt_pow2_iff.1 (lt_of_le_of_lt h (ilog2_spec hx).2)
  omega

theorem ilog2_lt {x : ℚ} {a : ℤ} (hx : 0 < x) (h : x < pow2 a) : ilog2 x < a :=
  pow2_lt_pow2_iff.1 (lt_of_le_of_lt (ilog2_spec hx).1 h)

theorem ulpExp_eq (x : ℚ) :
    ulpExp x = (if ilog2 |x| < -1022 then -1022 else ilog2 |x|) - 52 := by
  unfold ulpExp
  have : (if x < 0 then -x else x) = |x| := by
    split_ifs with h
    · exact (abs_of_neg h).symm
    · exact (abs_of_nonneg (not_lt.1 h)).symm
  simp only [this]

theorem ulpExp_neg (x : ℚ) : ulpExp (-x) = ulpExp x := by
  rw [ulpExp_eq, ulpExp_eq, abs_neg]

theorem ulpExp_ge (x : ℚ) : -1074 ≤ ulpExp x := by
  rw [ulpExp_eq]; split_ifs <;> omega

theorem ulpExp_ge_ilog2 (x : ℚ) : ilog2 |x| - 52 ≤ ulpExp x := by
  rw [ulpExp_eq]; split_ifs <;> omega

theorem ulpExp_of_le {x : ℚ} (h : -1022 ≤ ilog2 |x|) : ulpExp x = ilog2 |x| - 52 := by
  rw [ulpExp_eq]; split_ifs <;> omega

theorem ulpExp_of_lt {x : ℚ} (h : ilog2 |x| < -1022) : ulpExp x = -1074 := by
  rw [ulpExp_eq, if_pos h]; rfl

/-! ### fl64 -/

theorem roundHalfEven_zero : roundHalfEven 0 = 0 := by
  have := roundHalfEven_intCast 0
  simpa using this

theorem fl64_zero : fl64 0 = 0 := by
  unfold fl64; simp

theorem fl64_def (x : ℚ) :
    fl64 x = ((roundHalfEven (x / pow2 (ulpExp x)) : ℤ) : ℚ) * pow2 (ulpExp x) := by
  unfold fl64
  split_ifs with h
  · subst h; rw [zero_div, roundHalfEven_zero]; simp
  · rfl

theorem fl64_neg (x : ℚ) : fl64 (-x) = -fl64 x := by
  rw [fl64_def, fl64_def x, ulpExp_neg, neg_div, roundHalfEven_neg]
  push_cast; ring

theorem fl64_abs_err (x : ℚ) : |fl64 x - x| ≤ pow2 (ulpExp x) / 2 := by
  rw [fl64_def]
  have hu := pow2_pos (ulpExp x)
  obtain ⟨u, hu'⟩ : ∃ u, u = pow2 (ulpExp x) := ⟨_, rfl⟩
  rw [← hu'] at hu ⊢
  have e : ((roundHalfEven (x / u) : ℤ) : ℚ) * u - x
      = (((roundHalfEven (x / u) : ℤ) : ℚ) - x / u) * u := by
    field_simp
  rw [e, abs_mul, abs_of_pos hu]
  have := roundHalfEven_sub_le (x / u)
  nlinarith

theorem fl64_rel_err {x : ℚ} (hx : pow2 (-1022) ≤ |x|) : |fl64 x - x| ≤ |x| * pow2 (-53) := by
  have hpos : 0 < |x| := lt_of_lt_of_le (pow2_pos _) hx
  have he : -1022 ≤ ilog2 |x| := le_ilog2 hpos hx
  have h1 := (ilog2_spec hpos).1
  have := fl64_abs_err x
  rw [ulpExp_of_le he] at this
  have e : pow2 (ilog2 |x| - 52) = 2 * (pow2 (ilog2 |x|) * pow2 (-53)) := by
    rw [show ilog2 |x| - 52 = (ilog2 |x| + -53) + 1 by ring, pow2_succ, pow2_add]
  rw [e] at this
  have h53 := pow2_pos (-53)
  nlinarith

theorem fl64_err_le (x : ℚ) : |fl64 x - x| ≤ |x| * pow2 (-53) + pow2 (-1075) := by
  by_cases hx : pow2 (-1022) ≤ |x|
  · have := fl64_rel_err hx
    have := pow2_pos (-1075)
    linarith
  · by_cases h0 : x = 0
    · subst h0
      rw [fl64_zero]; simp; exact (pow2_pos _).le
    · have hpos : 0 < |x| := abs_pos.2 h0
      have he : ilog2 |x| < -1022 := ilog2_lt hpos (not_le.1 hx)
      have := fl64_abs_err x
      rw [ulpExp_of_lt he, show (-1074 : ℤ) = -1075 + 1 by norm_num, pow2_succ] at this
      have h53 := pow2_pos (-53)
      nlinarith

/-! ### grid lemmas: comparisons with multiples of the ulp of `x` -/

theorem fl64_of_grid {x : ℚ} {n : ℤ} (h : x = n * pow2 (ulpExp x)) : fl64 x = x := by
  rw [fl64_def]
  have hu := pow2_pos (ulpExp x)
  obtain ⟨u, hu'⟩ : ∃ u, u = pow2 (ulpExp x) := ⟨_, rfl⟩
  rw [← hu'] at hu h ⊢
  have : x / u = n := by rw [div_eq_iff hu.ne']; exact h
  rw [this, roundHalfEven_intCast]; exact h.symm

theorem fl64_le_grid {x : ℚ} {n : ℤ} (h : x ≤ n * pow2 (ulpExp x)) :
    fl64 x ≤ n * pow2 (ulpExp x) := by
  rw [fl64_def]
  have hu := pow2_pos (ulpExp x)
  obtain ⟨u, hu'⟩ : ∃ u, u = pow2 (ulpExp x) := ⟨_, rfl⟩
  rw [← hu'] at hu h ⊢
  have : x / u ≤ n := by rw [div_le_iff₀ hu]; exact h
  have := roundHalfEven_mono this
  rw [roundHalfEven_intCast] at this
  have : ((roundHalfEven (x / u) : ℤ) : ℚ) ≤ n := by exact_mod_cast this
  exact mul_le_mul_of_nonneg_right this hu.le

theorem grid_le_fl64 {x : ℚ} {n : ℤ} (h : n * pow2 (ulpExp x) ≤ x) :
    n * pow2 (ulpExp x) ≤ fl64 x := by
  rw [fl64_def]
  have hu := pow2_pos (ulpExp x)
  obtain ⟨u, hu'⟩ : ∃ u, u = pow2 (ulpExp x) := ⟨_, rfl⟩
  rw [← hu'] at hu h ⊢
  have : (n : ℚ) ≤ x / u := by rw [le_div_iff₀ hu]; exact h
  have := roundHalfEven_mono this
  rw [roundHalfEven_intCast] at this
  have : (n : ℚ) ≤ ((roundHalfEven (x / u) : ℤ) : ℚ) := by exact_mod_cast this
  exact mul_le_mul_of_nonneg_right this hu.le

theorem pow2_of_nonneg {d : ℤ} (h : 0 ≤ d) : pow2 d = (((2 : ℤ) ^ d.toNat : ℤ) : ℚ) := by
  have : d = (d.toNat : ℤ) := (Int.toNat_of_nonneg h).symm
  conv_lhs => rw [this]
  rw [pow2_natCast]; push_cast; rfl

theorem pow2_53 : pow2 53 = (((2 : ℤ) ^ 53 : ℤ) : ℚ) := pow2_of_nonneg (by norm_num)

theorem fl64_exact {m j : ℤ} (hm : |m| ≤ 2 ^ 53) (hj : -1074 ≤ j) :
    fl64 ((m : ℚ) * pow2 j) = (m : ℚ) * pow2 j := by
  by_cases hm0 : m = 0
  · subst hm0; simp [fl64_zero]
  have hpj := pow2_pos j
  have habs : |(m : ℚ) * pow2 j| = ((|m| : ℤ) : ℚ) * pow2 j := by
    rw [abs_mul, abs_of_pos hpj]; push_cast; rfl
  have hm1 : (1 : ℚ) ≤ ((|m| : ℤ) : ℚ) := by
    have : 1 ≤ |m| := Int.one_le_abs hm0
    exact_mod_cast this
  have hpos : 0 < |(m : ℚ) * pow2 j| := by rw [habs]; nlinarith
  rcases lt_or_eq_of_le hm with hlt | heq
  · -- generic case: the ulp of x is at most 2^j
    have hltq : ((|m| : ℤ) : ℚ) < pow2 53 := by rw [pow2_53]; exact_mod_cast hlt
    have hx : |(m : ℚ) * pow2 j| < pow2 (53 + j) := by
      rw [habs, pow2_add]; nlinarith
    have he := ilog2_lt hpos hx
    have hk : ulpExp ((m : ℚ) * pow2 j) ≤ j := by
      rw [ulpExp_eq]; split_ifs <;> omega
    obtain ⟨k, hk'⟩ : ∃ k, k = ulpExp ((m : ℚ) * pow2 j) := ⟨_, rfl⟩
    apply fl64_of_grid (n := m * (2 : ℤ) ^ (j - k).toNat)
    rw [← hk'] at hk ⊢
    have : pow2 j = pow2 (j - k) * pow2 k := by rw [← pow2_add]; congr 1; ring
    rw [this, pow2_of_nonneg (by omega : 0 ≤ j - k)]
    push_cast; ring
  · -- |m| = 2^53: x is a power of two, one binade up
    have heqq : ((|m| : ℤ) : ℚ) = pow2 53 := by rw [pow2_53, heq]
    have hx : |(m : ℚ) * pow2 j| = pow2 (53 + j) := by rw [habs, pow2_add, heqq]
    have he : ilog2 |(m : ℚ) * pow2 j| = 53 + j :=
      ilog2_unique hpos hx.ge (by rw [hx]; exact pow2_lt_pow2 (by omega))
    have hk : ulpExp ((m : ℚ) * pow2 j) = j + 1 := by
      rw [ulpExp_of_le (by omega), he]; ring
    apply fl64_of_grid (n := m / 2)
    rw [hk, pow2_succ]
    have h2 : m = 2 * (m / 2) := by
      norm_num at heq
      rcases abs_eq (by norm_num) |>.1 heq with h | h <;> omega
    have : (m : ℚ) = 2 * ((m / 2 : ℤ) : ℚ) := by exact_mod_cast h2
    rw [this]; ring

theorem fl64_intCast {n : ℤ} (hn : |n| ≤ 2 ^ 53) : fl64 (n : ℚ) = n := by
  have := fl64_exact hn (by norm_num : (-1074 : ℤ) ≤ 0)
  rwa [pow2_zero, mul_one] at this


theorem fl64_one : fl64 1 = 1 := by
  have := fl64_intCast (n := 1) (by norm_num)
  simpa using this

/-! ### every output is a float; idempotence -/

theorem fl64_repr (x : ℚ) :
    ∃ m j : ℤ, |m| ≤ 2 ^ 53 ∧ -1074 ≤ j ∧ fl64 x = (m : ℚ) * pow2 j := by
  by_cases h0 : x = 0
  · exact ⟨0, 0, by norm_num, by norm_num, by subst h0; simp [fl64_zero]⟩
  refine ⟨roundHalfEven (x / pow2 (ulpExp x)), ulpExp x, ?_, ulpExp_ge x, fl64_def x⟩
  have hpos : 0 < |x| := abs_pos.2 h0
  have h2 := (ilog2_spec hpos).2
  have hk := ulpExp_ge_ilog2 x
  have hu := pow2_pos (ulpExp x)
  have hlt : |x| < pow2 53 * pow2 (ulpExp x) := by
    rw [← pow2_add]
    exact lt_of_lt_of_le h2 (pow2_le_pow2 (by omega))
  obtain ⟨u, hu'⟩ : ∃ u, u = pow2 (ulpExp x) := ⟨_, rfl⟩
  rw [← hu'] at hu hlt ⊢
  rw [pow2_53] at hlt
  have hx := abs_lt.1 hlt
  have hle : x / u ≤ (((2 : ℤ) ^ 53 : ℤ) : ℚ) := by rw [div_le_iff₀ hu]; exact hx.2.le
  have hge : ((-(2 : ℤ) ^ 53 : ℤ) : ℚ) ≤ x / u := by
    rw [le_div_iff₀ hu]; push_cast at hx ⊢; linarith [hx.1]
  have a := roundHalfEven_mono hle
  have b := roundHalfEven_mono hge
  rw [roundHalfEven_intCast] at a b
  rw [abs_le]; exact ⟨b, a⟩

theorem fl64_idem (x : ℚ) : fl64 (fl64 x) = fl64 x := by
  obtain ⟨m, j, hm, hj, h⟩ := fl64_repr x
  rw [h]; exact fl64_exact hm hj

/-! ### monotonicity -/

theorem fl64_nonneg {x : ℚ} (h : 0 ≤ x) : 0 ≤ fl64 x := by
  have : ((0 : ℤ) : ℚ) * pow2 (ulpExp x) ≤ x := by simpa using h
  simpa using grid_le_fl64 this

theorem fl64_nonpos {x : ℚ} (h : x ≤ 0) : fl64 x ≤ 0 := by
  have : x ≤ ((0 : ℤ) : ℚ) * pow2 (ulpExp x) := by simpa using h
  simpa using fl64_le_grid this

theorem fl64_mono_of_pos {x y : ℚ} (hx : 0 < x) (h : x ≤ y) : fl64 x ≤ fl64 y := by
  have hy : 0 < y := lt_of_lt_of_le hx h
  have hexy := ilog2_mono hx h
  have hkx := ulpExp_eq x
  have hky := ulpExp_eq y
  rw [abs_of_pos hx] at hkx
  rw [abs_of_pos hy] at hky
  have hkle : ulpExp x ≤ ulpExp y := by
    rw [hkx, hky]; split_ifs <;> omega
  rcases eq_or_lt_of_le hkle with heq | hlt
  · rw [fl64_def x, fl64_def y, heq]
    have hu := pow2_pos (ulpExp y)
    have : x / pow2 (ulpExp y) ≤ y / pow2 (ulpExp y) := by
      rw [div_le_div_iff_of_pos_right hu]; exact h
    have := roundHalfEven_mono this
    have : ((roundHalfEven (x / pow2 (ulpExp y)) : ℤ) : ℚ)
        ≤ ((roundHalfEven (y / pow2 (ulpExp y)) : ℤ) : ℚ) := by exact_mod_cast this
    exact mul_le_mul_of_nonneg_right this hu.le
  · -- different binades: the power of two `2^(ilog2 y)` separates them
    have hey : ulpExp y = ilog2 y - 52 := by
      rw [hky]; rw [hkx, hky] at hlt; split_ifs at hlt ⊢ <;> omega
    have hd : ilog2 x + 1 ≤ ilog2 y ∧ 0 ≤ ilog2 y - ulpExp x := by
      rw [hkx]; rw [hkx, hky] at hlt; split_ifs at hlt ⊢ <;> omega
    have hxle : x ≤ pow2 (ilog2 y) :=
      ((ilog2_spec hx).2.trans_le (pow2_le_pow2 hd.1)).le
    have e1 : pow2 (ilog2 y) =
        (((2 : ℤ) ^ (ilog2 y - ulpExp x).toNat : ℤ) : ℚ) * pow2 (ulpExp x) := by
      rw [← pow2_of_nonneg hd.2, ← pow2_add]; congr 1; ring
    have e2 : pow2 (ilog2 y) = (((2 : ℤ) ^ (52 : ℤ).toNat : ℤ) : ℚ) * pow2 (ulpExp y) := by
      rw [← pow2_of_nonneg (by norm_num), ← pow2_add, hey]; congr 1; ring
    have a : fl64 x ≤ pow2 (ilog2 y) := by
      rw [e1] at hxle ⊢; exact fl64_le_grid hxle
    have b : pow2 (ilog2 y) ≤ fl64 y := by
      have := (ilog2_spec hy).1
      rw [e2] at this ⊢; exact grid_le_fl64 this
    exact a.trans b

theorem fl64_mono {x y : ℚ} (h : x ≤ y) : fl64 x ≤ fl64 y := by
  rcases lt_or_ge 0 x with hx | hx
  · exact fl64_mono_of_pos hx h
  · rcases le_or_gt 0 y with hy | hy
    · exact (fl64_nonpos hx).trans (fl64_nonneg hy)
    · have := fl64_mono_of_pos (neg_pos.2 hy) (neg_le_neg h)
      rw [fl64_neg, fl64_neg] at this
      exact neg_le_neg_iff.1 this

theorem fl64_le_of_le_float {x b : ℚ} (hb : fl64 b = b) (h : x ≤ b) : fl64 x ≤ b := by
  have := fl64_mono h; rwa [hb] at this

theorem fl64_ge_of_ge_float {x b : ℚ} (hb : fl64 b = b) (h : b ≤ x) : b ≤ fl64 x := by
  have := fl64_mono h; rwa [hb] at this

/-! ### scaling by a power of two in the normal range -/

theorem fl64_mul_pow2 {x : ℚ} {k : ℤ} (h1 : pow2 (-1022) ≤ |x|)
    (h2 : pow2 (-1022) ≤ |x| * pow2 k) : fl64 (x * pow2 k) = fl64 x * pow2 k := by
  have hpk := pow2_pos k
  have hpos : 0 < |x| := lt_of_lt_of_le (pow2_pos _) h1
  have habs : |x * pow2 k| = |x| * pow2 k := by rw [abs_mul, abs_of_pos hpk]
  have hpos' : 0 < |x| * pow2 k := mul_pos hpos hpk
  obtain ⟨s1, s2⟩ := ilog2_spec hpos
  have he : -1022 ≤ ilog2 |x| := le_ilog2 hpos h1
  have he' : ilog2 (|x| * pow2 k) = ilog2 |x| + k := by
    apply ilog2_unique hpos'
    · rw [pow2_add]; exact mul_le_mul_of_nonneg_right s1 hpk.le
    · rw [show ilog2 |x| + k + 1 = (ilog2 |x| + 1) + k by ring, pow2_add]
      exact mul_lt_mul_of_pos_right s2 hpk
  have he'' : -1022 ≤ ilog2 (|x| * pow2 k) := le_ilog2 hpos' h2
  have hk : ulpExp (x * pow2 k) = ulpExp x + k := by
    rw [ulpExp_of_le (by rwa [habs]), ulpExp_of_le he, habs, he']; ring
  rw [fl64_def (x * pow2 k), fl64_def x, hk, pow2_add,
    mul_div_mul_right _ _ hpk.ne']
  ring

end Soft64R
