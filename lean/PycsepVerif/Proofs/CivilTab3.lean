import PycsepVerif.Proofs.CivilDefs
/-! complete kernel enumeration of one part of the 146097-day era table (see CivilDefs.lean) -/
namespace Time
theorem era_tab6 : allPow eraCheckN 14 98304 = true := by decide +kernel
theorem era_tab7 : allPow eraCheckN 14 114688 = true := by decide +kernel
theorem era_tab8 : allPow eraCheckN 13 131072 = true := by decide +kernel
theorem era_tab9 : allPow eraCheckN 12 139264 = true := by decide +kernel
theorem era_tab10 : allPow eraCheckN 11 143360 = true := by decide +kernel
theorem era_tab11 : allPow eraCheckN 9 145408 = true := by decide +kernel
theorem era_tab12 : allPow eraCheckN 7 145920 = true := by decide +kernel
theorem era_tab13 : allPow eraCheckN 5 146048 = true := by decide +kernel
theorem era_tab14 : allPow eraCheckN 4 146080 = true := by decide +kernel
theorem era_tab15 : allPow eraCheckN 0 146096 = true := by decide +kernel
end Time
