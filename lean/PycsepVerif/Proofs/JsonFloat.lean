import PycsepVerif.Model.JsonFloat
import PycsepVerif.Proofs.JsonText
import PycsepVerif.Proofs.FloatText

/-!
# The float numerals of the JSON text layer (C18): `floatOkB pyFloatText b` for every zero-or-normal double

`pyReprF` is `FloatText.floatStr` (property C14's model of the shortest repr, proved to denote `DecimalText.reprValue`,
which rounds back for zero / normal doubles: `reprValue_roundtrip`).  Here:
* NUMBER_RE (`scanNumber`) accepts every character of such a numeral and sees a fraction or an exponent
  (`scanNumber_render` for any numeral of JSON shape, `layoutN_json` for the four layouts of `repr`);
* the bit pattern ↔ rational maps are inverse on normal patterns (`absToBits_bitsToAbs`);
* hence `pyReadF (pyReprF b) = some (.num b)` and `floatOk_normal`.
-/
namespace JsonFloat
open Soft64
open DecimalText (Numeral renderDigits digitChar signChars expChars)
open JsonText (isDigit spanDigits scanNat scanIntPart scanFrac scanSign scanExp scanNumber)
open FloatText (layoutN layoutN_wf)
open ResultJson (F64)

/-! ## NUMBER_RE on a rendered numeral -/

theorem isDigit_dc : ∀ d, d < 10 → isDigit (digitChar d) = true := by decide
theorem dc_ne_zero : ∀ d, d < 10 → d ≠ 0 → digitChar d ≠ '0' := by decide
theorem dc_ne_minus : ∀ d, d < 10 → digitChar d ≠ '-' ∧ digitChar d ≠ '+' ∧ digitChar d ≠ '.'
    ∧ digitChar d ≠ 'e' ∧ digitChar d ≠ 'E' := by decide

/-- the rest does not start with a digit -/
def NoDigitHd (r : List Char) : Prop := ∀ c cs, r = c :: cs → isDigit c = false

theorem noDigitHd_nil : NoDigitHd [] := fun _ _ h => by cases h

theorem spanDigits_noDigit (rest : List Char) (hr : NoDigitHd rest) : spanDigits rest = ([], rest) := by
  cases rest with
  | nil => rfl
  | cons c cs => simp [spanDigits, hr c cs rfl]

theorem spanDigits_render (ds : List Nat) (hd : ∀ d ∈ ds, d < 10) (rest : List Char) (hr : NoDigitHd rest) :
    spanDigits (renderDigits ds ++ rest) = (renderDigits ds, rest) := by
  induction ds with
  | nil => simpa [renderDigits] using spanDigits_noDigit rest hr
  | cons d ds ih =>
    have h1 : isDigit (digitChar d) = true := isDigit_dc d (hd d (by simp))
    have := ih (fun x hx => hd x (by simp [hx]))
    simp only [renderDigits, List.map_cons, List.cons_append, spanDigits, h1, if_true] at this ⊢
    rw [this]

theorem scanNat_render (ds : List Nat) (hd : ∀ d ∈ ds, d < 10) (hne : ds ≠ [])
    (hlead : ds = [0] ∨ ∀ d r, ds = d :: r → d ≠ 0) (rest : List Char) (hr : NoDigitHd rest) :
    scanNat (renderDigits ds ++ rest) = some (renderDigits ds, rest) := by
  cases ds with
  | nil => exact absurd rfl hne
  | cons d r =>
    by_cases hz : d = 0
    · subst hz
      rcases hlead with h | h
      · simp only [List.cons.injEq, true_and] at h
        subst h
        simp [renderDigits, scanNat, show digitChar 0 = '0' from rfl]
      · exact absurd rfl (h 0 r rfl)
    · have hd' : d < 10 := hd d (by simp)
      have h0 : digitChar d ≠ '0' := dc_ne_zero d hd' hz
      have h1 : isDigit (digitChar d) = true := isDigit_dc d hd'
      have hs := spanDigits_render r (fun x hx => hd x (by simp [hx])) rest hr
      simp only [renderDigits, List.map_cons, List.cons_append, scanNat, h0, if_false, h1, if_true] at hs ⊢
      rw [hs]

/-- a numeral of the shape JSON writes for a float: no `+`, no leading zero in front of other integer digits, a fraction
    or an exponent -/
structure JsonNumeral (n : Numeral) : Prop where
  wf : n.WF
  sign : n.sign = none ∨ n.sign = some true
  ipne : n.ip ≠ []
  lead : n.ip = [0] ∨ ∀ d r, n.ip = d :: r → d ≠ 0
  fracne : n.point = true → n.fp ≠ []
  isFloat : n.point = true ∨ n.exp ≠ none

theorem noDigitHd_expChars (e : Option (Bool × Option Bool × List Nat)) : NoDigitHd (expChars e) := by
  intro c cs h
  cases e with
  | none => cases h
  | some t =>
    obtain ⟨u, s, ds⟩ := t
    cases u <;> (simp only [expChars] at h; cases h; decide)

theorem scanExp_expChars (e : Option (Bool × Option Bool × List Nat))
    (h : ∀ u s ds, e = some (u, s, ds) → ds ≠ [] ∧ ∀ d ∈ ds, d < 10) : scanExp (expChars e) = (expChars e, []) := by
  cases e with
  | none => rfl
  | some t =>
    obtain ⟨u, s, ds⟩ := t
    obtain ⟨hne, hd⟩ := h u s ds rfl
    have hsp := spanDigits_render ds hd [] noDigitHd_nil
    simp only [List.append_nil] at hsp
    have hne' : (renderDigits ds).isEmpty = false := by
      cases ds with
      | nil => exact absurd rfl hne
      | cons _ _ => simp [renderDigits]
    -- the sign
    have hsign : scanSign (signChars s ++ renderDigits ds) = (signChars s, renderDigits ds) := by
      cases s with
      | none =>
        cases ds with
        | nil => exact absurd rfl hne
        | cons d r =>
          have := dc_ne_minus d (hd d (by simp))
          simp [signChars, renderDigits, scanSign, this.1, this.2.1]
      | some b => cases b <;> simp [signChars, scanSign]
    cases u <;> simp [expChars, scanExp, hsign, hsp, hne']

theorem scanNumber_render (n : Numeral) (h : JsonNumeral n) : scanNumber n.render = some (n.render, true, []) := by
  obtain ⟨wf, hsign, hipne, hlead, hfrac, hfloat⟩ := h
  obtain ⟨hip, hfp, _, _, hexp⟩ := wf
  -- the part after the integer digits
  set P : List Char := if n.point then '.' :: renderDigits n.fp else [] with hP
  set E : List Char := expChars n.exp with hE
  have hEnd : NoDigitHd E := noDigitHd_expChars n.exp
  have hR : NoDigitHd (P ++ E) := by
    intro c cs hc
    by_cases hp : n.point = true
    · simp only [hP, hp, if_true, List.cons_append] at hc
      cases hc; decide
    · have : P = [] := by simp [hP, hp]
      rw [this, List.nil_append] at hc
      exact hEnd c cs hc
  have hrender : n.render = signChars n.sign ++ (renderDigits n.ip ++ (P ++ E)) := rfl
  -- group 1
  have h1 : scanIntPart n.render = some (signChars n.sign ++ renderDigits n.ip, P ++ E) := by
    rw [hrender]
    have hn := scanNat_render n.ip hip hipne hlead (P ++ E) hR
    rcases hsign with hs | hs
    · rw [hs]
      cases hipd : n.ip with
      | nil => exact absurd hipd hipne
      | cons d r =>
        have hm := (dc_ne_minus d (hip d (by simp [hipd]))).1
        rw [hipd] at hn
        simp only [signChars, List.nil_append, renderDigits, List.map_cons, List.cons_append, scanIntPart, hm, if_false] at hn ⊢
        exact hn
    · rw [hs]
      simp only [signChars, List.cons_append, List.nil_append, scanIntPart, if_true, hn, Option.map_some]
  -- group 2
  have h2 : scanFrac (P ++ E) = (P, E) := by
    by_cases hp : n.point = true
    · have hne := hfrac hp
      have hsp := spanDigits_render n.fp hfp E hEnd
      have hemp : (renderDigits n.fp).isEmpty = false := by
        cases hfpd : n.fp with
        | nil => exact absurd hfpd hne
        | cons _ _ => simp [renderDigits]
      simp only [hP, hp, if_true, List.cons_append, scanFrac, hsp, hemp, Bool.false_eq_true, if_false]
    · have hPn : P = [] := by simp [hP, hp]
      rw [hPn, List.nil_append]
      cases hEd : E with
      | nil => rfl
      | cons c cs =>
        have hc : c ≠ '.' := by
          cases hx : n.exp with
          | none => rw [hE, hx] at hEd; cases hEd
          | some t =>
            obtain ⟨u, s, ds⟩ := t
            rw [hE, hx] at hEd
            cases u <;> (simp only [expChars] at hEd; cases hEd; decide)
        simp [scanFrac, hc]
  -- group 3
  have h3 : scanExp E = (E, []) := scanExp_expChars n.exp hexp
  have hflag : (!(P.isEmpty && E.isEmpty)) = true := by
    rcases hfloat with hp | he
    · simp [hP, hp]
    · cases hx : n.exp with
      | none => exact absurd hx he
      | some t =>
        obtain ⟨u, s, ds⟩ := t
        have : E.isEmpty = false := by rw [hE, hx]; cases u <;> simp [expChars]
        simp [this]
  unfold scanNumber
  rw [h1]
  simp only [h2, h3, hflag]
  rw [hrender]
  simp [List.append_assoc]

/-! ## the four layouts of `repr` have JSON shape -/

theorem layoutN_json (sg : Option Bool) (hsg : sg = none ∨ sg = some true) (ds : List Nat) (decpt : Int) (hne : ds ≠ [])
    (hd : ∀ d ∈ ds, d < 10) (hlead : ∀ d r, ds = d :: r → d ≠ 0) : JsonNumeral (layoutN sg ds decpt) := by
  have hwf := layoutN_wf sg ds decpt hne hd
  obtain ⟨d0, r0, hds⟩ : ∃ d r, ds = d :: r := by
    cases ds with
    | nil => exact absurd rfl hne
    | cons d r => exact ⟨d, r, rfl⟩
  have hd0 : d0 ≠ 0 := hlead d0 r0 hds
  have hlen : 0 < ds.length := List.length_pos_of_ne_nil hne
  refine ⟨hwf, ?_, ?_, ?_, ?_, ?_⟩ <;> unfold layoutN <;> simp only <;> split_ifs with h1 h2 h3
  -- sign
  · exact hsg
  · exact hsg
  · exact hsg
  · exact hsg
  -- integer digits non-empty
  · simp
  · have : 0 < decpt.toNat := by omega
    rw [hds]; cases hk : decpt.toNat with
    | zero => omega
    | succ k => simp
  · rw [hds]; simp
  · rw [hds]; simp
  -- leading digit
  · left; rfl
  · right
    intro d r hdr
    have : 0 < decpt.toNat := by omega
    rw [hds] at hdr
    cases hk : decpt.toNat with
    | zero => omega
    | succ k =>
      rw [hk] at hdr
      simp only [List.take_succ_cons, List.cons.injEq] at hdr
      rw [← hdr.1]; exact hd0
  · right
    intro d r hdr
    rw [hds] at hdr
    simp only [List.cons_append, List.cons.injEq] at hdr
    rw [← hdr.1]; exact hd0
  · right
    intro d r hdr
    rw [hds] at hdr
    simp only [List.take_succ_cons, List.take_zero, List.cons.injEq] at hdr
    rw [← hdr.1]; exact hd0
  -- fraction digits
  · intro _; rw [hds]; simp
  · intro _
    intro hnil
    have := congrArg List.length hnil
    simp only [List.length_drop, List.length_nil] at this
    omega
  · intro _; simp
  · intro hp
    simp only [decide_eq_true_eq] at hp
    intro hnil
    have := congrArg List.length hnil
    simp only [List.length_drop, List.length_nil] at this
    omega
  -- a fraction or an exponent
  · left; rfl
  · left; rfl
  · left; rfl
  · right; simp


/-! ## digits of the shortest repr: no leading zero -/

theorem decDigits_head : ∀ (fuel n : Nat), 0 < n → n < 10 ^ fuel →
    ∀ d r, FloatText.decDigits fuel n = d :: r → d ≠ 0
  | 0, n, h0, h => by simp at h; omega
  | fuel + 1, n, h0, h => by
    intro d r hdr
    unfold FloatText.decDigits at hdr
    split_ifs at hdr with hn
    · simp only [List.cons.injEq] at hdr
      omega
    · have h10 : n / 10 < 10 ^ fuel := by rw [Nat.pow_succ] at h; omega
      have hpos : 0 < n / 10 := by omega
      obtain ⟨k, rfl⟩ : ∃ k, fuel = k + 1 := by
        cases fuel with
        | zero => simp at h10; omega
        | succ k => exact ⟨k, rfl⟩
      have hne := FloatText.decDigits_ne_nil k (n / 10)
      cases hdd : FloatText.decDigits (k + 1) (n / 10) with
      | nil => exact absurd hdd hne
      | cons d' r' =>
        rw [hdd] at hdr
        simp only [List.cons_append, List.cons.injEq] at hdr
        rw [← hdr.1]
        exact decDigits_head (k + 1) (n / 10) hpos h10 d' r' hdd

theorem reprSearch_pos {x : ℚ} (hx : IsF64 x) (hn : pow2 (-1022) ≤ x) : 0 < DecimalText.reprSearch x 16 1 := by
  have hr := DecimalText.reprSearch_roundtrip hx hn
  have hxpos : 0 < x := lt_of_lt_of_le (pow2_pos _) hn
  by_contra hcon
  have := fl64_mono (not_lt.mp hcon)
  rw [hr, fl64_zero] at this
  linarith

theorem shortest_mantissa_pos {x : ℚ} (hx : IsF64 x) (hn : pow2 (-1022) ≤ x) : 0 < (FloatText.shortest x).1 := by
  have hxpos : 0 < x := lt_of_lt_of_le (pow2_pos _) hn
  have hv := FloatText.shortest_val hxpos
  have hp := reprSearch_pos hx hn
  by_contra hcon
  have h0 : (FloatText.shortest x).1 = 0 := by omega
  rw [h0] at hv
  simp at hv
  linarith

/-! ## bit patterns ↔ rationals -/

open JsonText (two52 two63 finiteBits bitsToAbs bitsNeg absToBits pyReprF pyReadF pyFloatText floatOkB posInfBits)

/-- the bit pattern denotes a finite double that is zero or normal -/
def normalBits (b : Nat) : Bool :=
  decide (b < 2 * two63) && decide ((b / two52) % 2048 ≠ 2047)
    && (decide ((b / two52) % 2048 ≠ 0) || decide (b % two63 = 0))

theorem pow2_1075_split (e : Int) : pow2 (e - 1023) = 4503599627370496 * pow2 (e - 1075) := by
  have : e - 1023 = 52 + (e - 1075) := by ring
  rw [this, pow2_add, pow2_52]

/-- facts about a normal, non-zero magnitude -/
theorem normal_facts (b : Nat) (he0 : (b / two52) % 2048 ≠ 0) (he1 : (b / two52) % 2048 ≠ 2047) :
    let a := bitsToAbs b
    pow2 (-1022) ≤ a ∧ a < DecimalText.f64Limit ∧ IsF64 a ∧ absToBits a = b % two63 := by
  intro a
  set e : Nat := (b / two52) % 2048 with he
  set m : Nat := b % two52 with hm
  have hmlt : m < 4503599627370496 := by simp only [hm, two52]; omega
  have helt : e < 2047 := by have : e < 2048 := by simp only [he]; omega
                             omega
  have hepos : 0 < e := by omega
  have ha : a = ((two52 + m : Nat) : ℚ) * pow2 ((e : Int) - 1075) := by
    show bitsToAbs b = _
    unfold bitsToAbs
    simp only [← he, ← hm, he0, if_false]
  have hp := pow2_pos ((e : Int) - 1075)
  have hM0 : (4503599627370496 : ℚ) ≤ ((two52 + m : Nat) : ℚ) := by
    have : (4503599627370496 : Nat) ≤ two52 + m := by simp only [two52]; omega
    exact_mod_cast this
  have hM1 : ((two52 + m : Nat) : ℚ) < 9007199254740992 := by
    have : two52 + m < (9007199254740992 : Nat) := by simp only [two52]; omega
    exact_mod_cast this
  have hlo : pow2 ((e : Int) - 1023) ≤ a := by
    rw [pow2_1075_split, ha]
    exact mul_le_mul_of_nonneg_right hM0 hp.le
  have hhi : a < pow2 ((e : Int) - 1023 + 1) := by
    have : (e : Int) - 1023 + 1 = 1 + ((e : Int) - 1023) := by ring
    rw [this, pow2_add, pow2_1075_split, ha]
    have h2 : pow2 1 = 2 := by decide +kernel
    rw [h2]
    nlinarith
  have hilog : ilog2 a = (e : Int) - 1023 := ilog2_unique hlo hhi
  have hapos : 0 < a := lt_of_lt_of_le (pow2_pos _) hlo
  refine ⟨?_, ?_, ?_, ?_⟩
  · exact le_trans (pow2_mono (by omega)) hlo
  · unfold DecimalText.f64Limit
    exact lt_of_lt_of_le hhi (pow2_mono (by omega))
  · rw [ha]
    have := isF64_dyadic ((two52 + m : Nat) : Int) ((e : Int) - 1075)
      (by rw [abs_lt]; constructor
          · have : (0 : Int) ≤ ((two52 + m : Nat) : Int) := Int.natCast_nonneg _
            omega
          · have : two52 + m < 9007199254740992 := by simp only [two52]; omega
            have h2 : (2 : Int) ^ 53 = 9007199254740992 := by norm_num
            rw [h2]; exact_mod_cast this)
      (by omega)
    simpa using this
  · unfold absToBits
    have hne : ¬ (a = 0) := ne_of_gt hapos
    have hnsub : ¬ ((e : Int) - 1023 < -1022) := by omega
    simp only [hne, if_false, hilog, hnsub]
    have hdiv : a / pow2 ((e : Int) - 1023 - 52) = ((two52 + m : Nat) : ℚ) := by
      have : (e : Int) - 1023 - 52 = (e : Int) - 1075 := by ring
      rw [this, ha]
      exact mul_div_cancel_right₀ _ (ne_of_gt hp)
    rw [hdiv]
    have hfl : (((two52 + m : Nat) : ℚ)).floor = ((two52 + m : Nat) : Int) := by
      have : (((two52 + m : Nat) : ℚ)) = (((two52 + m : Nat) : Int) : ℚ) := by push_cast; ring
      rw [this]; exact Rat.floor_intCast _
    rw [hfl]
    have ht : ((e : Int) - 1023 + 1023).toNat = e := by
      have : (e : Int) - 1023 + 1023 = (e : Int) := by ring
      rw [this]; exact Int.toNat_natCast e
    rw [ht, Int.toNat_natCast]
    simp only [he, hm, two52, two63]
    omega

/-! ## assembly: `floatOkB pyFloatText b` -/

/-- the characters of a non-zero magnitude `a` with sign `neg` are the rendered layout numeral -/
theorem floatStr_signed (a : ℚ) (ha : 0 < a) (neg : Bool) :
    FloatText.floatStr (if neg then -a else a)
      = (layoutN (if neg then some true else none)
          (FloatText.decDigits ((FloatText.shortest a).1 + 1) (FloatText.shortest a).1)
          (((FloatText.decDigits ((FloatText.shortest a).1 + 1) (FloatText.shortest a).1).length : Int)
            + (FloatText.shortest a).2)).render := by
  rw [FloatText.layoutN_render]
  unfold FloatText.floatStr
  cases neg
  · have h0 : ¬ (a = 0) := ne_of_gt ha
    have h1 : ¬ (a < 0) := not_lt.mpr ha.le
    simp [h0, h1, signChars]
  · have h0 : ¬ (-a = 0) := by linarith
    have h1 : -a < 0 := by linarith
    simp [h1, signChars, neg_eq_zero, ne_of_gt ha]

theorem head_flag (n : Numeral) (h : JsonNumeral n) :
    ∃ c rest, n.render = c :: rest ∧ decide (c = '-') = (n.sign == some true) := by
  obtain ⟨wf, hsign, hipne, _, _, _⟩ := h
  have hrender : n.render = signChars n.sign ++ (renderDigits n.ip ++
      ((if n.point then '.' :: renderDigits n.fp else []) ++ expChars n.exp)) := rfl
  rcases hsign with hs | hs
  · cases hipd : n.ip with
    | nil => exact absurd hipd hipne
    | cons d r =>
      have hm := (dc_ne_minus d (wf.ipDigits d (by simp [hipd]))).1
      refine ⟨digitChar d, renderDigits r ++
        ((if n.point then '.' :: renderDigits n.fp else []) ++ expChars n.exp), ?_, ?_⟩
      · rw [hrender, hs, hipd]
        simp only [signChars, renderDigits, List.map_cons, List.nil_append, List.cons_append]
      · rw [hs]; simp [hm]
  · refine ⟨'-', renderDigits n.ip ++
      ((if n.point then '.' :: renderDigits n.fp else []) ++ expChars n.exp), ?_, ?_⟩
    · rw [hrender, hs]; simp only [signChars, List.cons_append, List.nil_append]
    · rw [hs]; rfl

theorem layoutN_sign (sg : Option Bool) (ds : List Nat) (k : Int) : (layoutN sg ds k).sign = sg := by
  unfold layoutN
  simp only
  split_ifs <;> rfl

theorem floatOk_nonzero (b : Nat) (hfin : b < 2 * two63) (he0 : (b / two52) % 2048 ≠ 0)
    (he1 : (b / two52) % 2048 ≠ 2047) : floatOkB pyFloatText b = true := by
  obtain ⟨hn, hlim, hx, hbits⟩ := normal_facts b he0 he1
  set a := bitsToAbs b with ha
  have hapos : 0 < a := lt_of_lt_of_le (pow2_pos _) hn
  set neg := bitsNeg b with hneg
  set s := FloatText.shortest a with hs
  set ds := FloatText.decDigits (s.1 + 1) s.1 with hds
  have hspos := shortest_mantissa_pos hx hn
  obtain ⟨_, hdd⟩ := FloatText.decDigits_spec (s.1 + 1) s.1 (FloatText.lt_pow_succ s.1)
  have hne : ds ≠ [] := FloatText.decDigits_ne_nil s.1 s.1
  have hlead : ∀ d r, ds = d :: r → d ≠ 0 := decDigits_head (s.1 + 1) s.1 hspos (FloatText.lt_pow_succ s.1)
  set n := layoutN (if neg then some true else none) ds ((ds.length : Int) + s.2) with hnn
  have hj : JsonNumeral n := layoutN_json _ (by cases neg <;> simp) ds _ hne hdd hlead
  have hrepr : pyReprF b = n.render := by
    unfold pyReprF
    simp only [← ha, ne_of_gt hapos, if_false, ← hneg]
    exact floatStr_signed a hapos neg
  have hscan : scanNumber (pyReprF b) = some (pyReprF b, true, []) := by rw [hrepr]; exact scanNumber_render n hj
  -- reading back
  have hden : DecimalText.parseBody (pyReprF b) = some (DecimalText.reprValue (if neg then -a else a)) := by
    unfold pyReprF
    simp only [← ha, ne_of_gt hapos, if_false, ← hneg]
    exact FloatText.floatStr_denotes _
  have hR := DecimalText.reprSearch_roundtrip hx hn
  have hRpos := reprSearch_pos hx hn
  have hfabs : fabs (DecimalText.reprValue (if neg then -a else a)) = DecimalText.reprSearch a 16 1 := by
    unfold DecimalText.reprValue fabs
    cases neg
    · have h0 : ¬ (a = 0) := ne_of_gt hapos
      have h1 : ¬ (a < 0) := not_lt.mpr hapos.le
      have h2 : ¬ (DecimalText.reprSearch a 16 1 < 0) := not_lt.mpr hRpos.le
      simp [h0, h1, h2]
    · have h1 : -a < 0 := by linarith
      have h2 : -DecimalText.reprSearch a 16 1 < 0 := by linarith
      simp [h1, h2, neg_eq_zero, ne_of_gt hapos]
  obtain ⟨c, rest, hcr, hc⟩ := head_flag n hj
  have hsg : (n.sign == some true) = neg := by
    rw [hnn, layoutN_sign]
    have key : ∀ ng : Bool, ((if ng then some true else none : Option Bool) == some true) = ng := by
      intro ng; cases ng <;> rfl
    exact key neg
  rw [hsg] at hc
  have hb : neg = decide (b / two63 % 2 = 1) := hneg
  have hfinal : (if neg then two63 + b % two63 else b % two63) = b := by
    by_cases hbit : b / two63 % 2 = 1
    · have : neg = true := by rw [hb]; simp [hbit]
      rw [this]; simp only [if_true]
      simp only [two63] at *
      omega
    · have : neg = false := by rw [hb]; simp [hbit]
      rw [this]; simp only [Bool.false_eq_true, if_false]
      simp only [two63] at *
      omega
  have hread : pyReadF (pyReprF b) = some (.num b) := by
    unfold pyReadF
    rw [hden]
    rw [hrepr, hcr]
    simp only [hc, hfabs, hR, hlim, if_true, hbits, hfinal]
  unfold floatOkB
  simp only [show pyFloatText.reprF = pyReprF from rfl, show pyFloatText.readF = pyReadF from rfl, hscan, hread,
    decide_true, Bool.and_self]

theorem floatOk_zero_pos : floatOkB pyFloatText 0 = true := by decide +kernel
theorem floatOk_zero_neg : floatOkB pyFloatText 9223372036854775808 = true := by decide +kernel

/-- **every finite double that is zero or normal passes `floatOkB`** -/
theorem floatOk_of_normalBits (b : Nat) (h : normalBits b = true) : floatOkB pyFloatText b = true := by
  simp only [normalBits, Bool.and_eq_true, Bool.or_eq_true, decide_eq_true_eq] at h
  obtain ⟨⟨hfin, he1⟩, hz⟩ := h
  by_cases he0 : (b / two52) % 2048 = 0
  · rcases hz with hz | hz
    · exact absurd he0 hz
    · have : b = 0 ∨ b = 9223372036854775808 := by simp only [two63] at hfin hz; omega
      rcases this with rfl | rfl
      · exact floatOk_zero_pos
      · exact floatOk_zero_neg
  · exact floatOk_nonzero b hfin he0 he1

end JsonFloat
