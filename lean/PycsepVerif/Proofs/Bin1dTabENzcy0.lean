import PycsepVerif.Proofs.Bin1dTablesRegions
/-! kernel-evaluated table (property C02): every edge 0..148 of nz_csep_collection_region().ys lands in the bin it opens -/
namespace Bin1d.Tables
theorem tabE_nzcy_0 : edgesOwnBin (cfg64 false) nzcyRaw 0 149 = true := by decide +kernel
end Bin1d.Tables
