import PycsepVerif.Model.DecimalText
/-!
# `parseBody` reads every well-formed numeral as its value

`Numeral` is the specification of a decimal numeral (optional sign, integer digits, optional point and fraction digits,
optional exponent with optional sign); `render` its characters, `value` the rational it denotes.
`parseBody_render`: the character-level parser returns exactly `value` on `render` — for every numeral, any number of
digits.  No Mathlib.
-/
namespace DecimalText

def digitChar (d : Nat) : Char := Char.ofNat (48 + d)
def renderDigits (ds : List Nat) : List Char := ds.map digitChar

/-- the digits read most-significant first, continuing from `acc` -/
def valDigits (acc : Nat) : List Nat → Nat
  | [] => acc
  | d :: ds => valDigits (10 * acc + d) ds

theorem isDigit_digitChar : ∀ d, d < 10 → isDigit (digitChar d) = true := by decide
theorem digitVal_digitChar : ∀ d, d < 10 → digitVal (digitChar d) = d := by decide
theorem digitChar_ne : ∀ d, d < 10 → digitChar d ≠ '-' ∧ digitChar d ≠ '+' ∧ digitChar d ≠ '.' := by decide

theorem valDigits_append (acc : Nat) (a b : List Nat) : valDigits acc (a ++ b) = valDigits (valDigits acc a) b := by
  induction a generalizing acc with
  | nil => rfl
  | cons d ds ih => simp [valDigits, ih]

/-- the list does not begin with a digit -/
def NoDigitHead (rest : List Char) : Prop := ∀ c cs, rest = c :: cs → isDigit c = false

theorem takeDigits_render (ds : List Nat) (hd : ∀ d ∈ ds, d < 10) (rest : List Char) (hr : NoDigitHead rest)
    (acc n : Nat) : takeDigits (renderDigits ds ++ rest) acc n = (valDigits acc ds, n + ds.length, rest) := by
  induction ds generalizing acc n with
  | nil =>
    cases rest with
    | nil => rfl
    | cons c cs => simp [renderDigits, takeDigits, hr c cs rfl, valDigits]
  | cons d ds ih =>
    have hdlt : d < 10 := hd d (by simp)
    have := ih (fun x hx => hd x (by simp [hx])) (10 * acc + d) (n + 1)
    simp only [renderDigits, List.map_cons, List.cons_append, takeDigits, isDigit_digitChar d hdlt, if_true,
      digitVal_digitChar d hdlt, valDigits, List.length_cons] at this ⊢
    rw [this]; congr 2; omega

theorem takeSign_none (rest : List Char) (h : ∀ c cs, rest = c :: cs → c ≠ '-' ∧ c ≠ '+') :
    takeSign rest = (false, rest) := by
  unfold takeSign
  split
  · rename_i cs; exact absurd rfl (h '-' cs rfl).1
  · rename_i cs; exact absurd rfl (h '+' cs rfl).2
  · rfl


def signChars : Option Bool → List Char
  | none => []
  | some false => ['+']
  | some true => ['-']

def signNeg (s : Option Bool) : Bool := s == some true

/-- a decimal numeral -/
structure Numeral where
  sign : Option Bool                            -- none / `+` / `-`
  ip : List Nat                                 -- integer digits
  point : Bool                                  -- is there a `.`
  fp : List Nat                                 -- fraction digits
  exp : Option (Bool × Option Bool × List Nat)  -- `E` instead of `e`?, sign, digits

def expChars : Option (Bool × Option Bool × List Nat) → List Char
  | none => []
  | some (u, s, ds) => (if u then 'E' else 'e') :: (signChars s ++ renderDigits ds)

def expVal : Option (Bool × Option Bool × List Nat) → Int
  | none => 0
  | some (_, s, ds) => if signNeg s then -(valDigits 0 ds : Int) else (valDigits 0 ds : Int)

def Numeral.render (n : Numeral) : List Char :=
  signChars n.sign ++ (renderDigits n.ip ++ ((if n.point then '.' :: renderDigits n.fp else []) ++ expChars n.exp))

/-- ± (all mantissa digits as one integer) · 10^(exponent − number of fraction digits) -/
def Numeral.value (n : Numeral) : Rat :=
  let q := (valDigits 0 (n.ip ++ n.fp) : Rat) * pow10 (expVal n.exp - (n.fp.length : Int))
  if signNeg n.sign then -q else q

structure Numeral.WF (n : Numeral) : Prop where
  ipDigits : ∀ d ∈ n.ip, d < 10
  fpDigits : ∀ d ∈ n.fp, d < 10
  noPoint : n.point = false → n.fp = []
  someDigit : n.ip.length + n.fp.length ≠ 0
  expDigits : ∀ u s ds, n.exp = some (u, s, ds) → ds ≠ [] ∧ ∀ d ∈ ds, d < 10

theorem takeSign_signChars (s : Option Bool) (rest : List Char) (h : ∀ c cs, rest = c :: cs → c ≠ '-' ∧ c ≠ '+') :
    takeSign (signChars s ++ rest) = (signNeg s, rest) := by
  cases s with
  | none => simpa [signChars, signNeg] using takeSign_none rest h
  | some b => cases b <;> rfl

theorem noDigitHead_expChars (e : Option (Bool × Option Bool × List Nat)) : NoDigitHead (expChars e) := by
  intro c cs h
  cases e with
  | none => cases h
  | some t =>
    obtain ⟨u, s, ds⟩ := t
    cases u <;> (simp only [expChars] at h; cases h; decide)

theorem parseExp_expChars (e : Option (Bool × Option Bool × List Nat))
    (h : ∀ u s ds, e = some (u, s, ds) → ds ≠ [] ∧ ∀ d ∈ ds, d < 10) : parseExp (expChars e) = some (expVal e) := by
  cases e with
  | none => rfl
  | some t =>
    obtain ⟨u, s, ds⟩ := t
    obtain ⟨hne, hd⟩ := h u s ds rfl
    have hhead : ∀ c cs, renderDigits ds ++ [] = c :: cs → c ≠ '-' ∧ c ≠ '+' := by
      intro c cs hc
      cases ds with
      | nil => exact absurd rfl hne
      | cons d ds' =>
        simp only [renderDigits, List.map_cons, List.append_nil] at hc
        cases hc
        exact ⟨(digitChar_ne d (hd d (by simp))).1, (digitChar_ne d (hd d (by simp))).2.1⟩
    have hs := takeSign_signChars s (renderDigits ds ++ []) hhead
    have htd := takeDigits_render ds hd [] (by intro c cs h; cases h) 0 0
    have hlen : ds.length ≠ 0 := by cases ds with | nil => exact absurd rfl hne | cons _ _ => simp
    simp only [List.append_nil] at hs htd
    cases u <;> simp [expChars, parseExp, hs, htd, hlen, expVal]


theorem expChars_not_point (e : Option (Bool × Option Bool × List Nat)) (cs : List Char) : expChars e ≠ '.' :: cs := by
  cases e with
  | none => intro h; cases h
  | some t =>
    obtain ⟨u, s, ds⟩ := t
    cases u <;> (simp only [expChars]; intro h; injection h with h1 _; revert h1; decide)

/-- **the parser reads every well-formed numeral as the number it denotes** -/
theorem parseBody_render (n : Numeral) (hw : n.WF) : parseBody n.render = some n.value := by
  obtain ⟨hip, hfp, hnp, hsome, hexp⟩ := hw
  -- after the sign
  have hhead : ∀ c cs, renderDigits n.ip ++ ((if n.point then '.' :: renderDigits n.fp else []) ++ expChars n.exp) = c :: cs →
      c ≠ '-' ∧ c ≠ '+' := by
    intro c cs hc
    cases hipc : n.ip with
    | cons d ds =>
      rw [hipc] at hc
      simp only [renderDigits, List.map_cons, List.cons_append] at hc
      injection hc with h1 _
      subst h1
      have := digitChar_ne d (hip d (by rw [hipc]; simp))
      exact ⟨this.1, this.2.1⟩
    | nil =>
      cases hpt : n.point with
      | true =>
        rw [hipc, hpt] at hc
        simp only [renderDigits, List.map_nil, List.nil_append, if_true, List.cons_append] at hc
        injection hc with h1 _
        subst h1
        decide
      | false =>
        have := hnp hpt
        rw [hipc, this] at hsome
        exact absurd rfl hsome
  have hs := takeSign_signChars n.sign _ hhead
  have hnd : NoDigitHead ((if n.point then '.' :: renderDigits n.fp else []) ++ expChars n.exp) := by
    cases hpt : n.point with
    | true =>
      intro c cs hc
      simp only [if_true, List.cons_append] at hc
      injection hc with h1 _
      subst h1
      decide
    | false => simpa using noDigitHead_expChars n.exp
  have hti := takeDigits_render n.ip hip _ hnd 0 0
  have hpe := parseExp_expChars n.exp hexp
  unfold parseBody Numeral.render
  simp only [hs, hti, Nat.zero_add]
  cases hpt : n.point with
  | true =>
    have htf := takeDigits_render n.fp hfp (expChars n.exp) (noDigitHead_expChars n.exp) (valDigits 0 n.ip) 0
    simp only [if_true, List.cons_append, htf, Nat.zero_add, hpe]
    rw [if_neg hsome]
    simp only [Numeral.value, valDigits_append]
  | false =>
    have hfe := hnp hpt
    simp only [Bool.false_eq_true, if_false, List.nil_append]
    split
    · rename_i r heq
      exact absurd heq (expChars_not_point n.exp r)
    · simp only [hpe]
      have hs' : n.ip.length + 0 ≠ 0 := by rw [hfe] at hsome; simpa using hsome
      rw [if_neg hs']
      simp only [Numeral.value, hfe, List.append_nil, List.length_nil]

end DecimalText
