import PycsepVerif.Model.FilterMct
import PycsepVerif.Proofs.Filter
/-! helper lemmas for `Properties/C04_Mct.lean` (core `List` lemmas only) -/
namespace CatFilter

/-- decidable equality of results (for the kernel-evaluated `example`s) -/
instance decEqExcept {ε α} [DecidableEq ε] [DecidableEq α] : DecidableEq (Except ε α) := fun a b =>
  match a, b with
  | .ok x, .ok y => if h : x = y then isTrue (by rw [h]) else isFalse (by intro h'; cases h'; exact h rfl)
  | .error x, .error y => if h : x = y then isTrue (by rw [h]) else isFalse (by intro h'; cases h'; exact h rfl)
  | .ok _, .error _ => isFalse (by intro h; cases h)
  | .error _, .ok _ => isFalse (by intro h; cases h)

/-- catalogs sorted by origin time (what `apply_mct` assumes, catalogs.py:624, :631) -/
def TimeSorted (es : List Event) : Prop := es.Pairwise (fun a b => a.originTime ≤ b.originTime)

theorem TimeSorted.sublist {es es' : List Event} (h : TimeSorted es) (hs : es'.Sublist es) : TimeSorted es' :=
  List.Pairwise.sublist hs h

theorem mctKeep_of_late (p : Mct) (e : Event) (h : p.tCrit < (e.originTime : Rat)) : mctKeep p e = true := by
  have : ¬ ((e.originTime : Rat) ≤ p.tCrit) := Rat.not_le.mpr h
  simp [mctKeep, this]

theorem mctKeep_of_early (p : Mct) (e : Event) (h : (e.originTime : Rat) < p.eventEpoch) : mctKeep p e = true := by
  have : ¬ (p.eventEpoch ≤ (e.originTime : Rat)) := Rat.not_le.mpr h
  simp [mctKeep, this]

theorem mctKeep_in_window (p : Mct) (e : Event) (h1 : ¬ p.tCrit < (e.originTime : Rat))
    (h2 : ¬ (e.originTime : Rat) < p.eventEpoch) : mctKeep p e = !p.below e := by
  have a : (e.originTime : Rat) ≤ p.tCrit := Rat.not_lt.mp h1
  have b : p.eventEpoch ≤ (e.originTime : Rat) := Rat.not_lt.mp h2
  simp [mctKeep, a, b]

/-- one unfolding of the loop in terms of the specification predicate -/
theorem mctLoop_cons (p : Mct) (e : Event) (es : List Event) :
    mctLoop p (e :: es) =
      if p.tCrit < (e.originTime : Rat) then e :: es
      else if mctKeep p e then e :: mctLoop p es else mctLoop p es := by
  by_cases h1 : p.tCrit < (e.originTime : Rat)
  · simp [mctLoop, h1]
  · by_cases h2 : (e.originTime : Rat) < p.eventEpoch
    · simp [mctLoop, h1, h2, mctKeep_of_early p e h2]
    · rw [mctKeep_in_window p e h1 h2]
      by_cases h3 : p.below e = true
      · simp [mctLoop, h1, h2, h3]
      · have h3' : p.below e = false := by simpa using h3
        simp [mctLoop, h1, h2, h3']

/-- everything behind a row later than `t_crit` in a time-sorted catalog is later than `t_crit` too -/
theorem all_late_of_sorted (p : Mct) (e : Event) (es : List Event) (hs : TimeSorted (e :: es))
    (h : p.tCrit < (e.originTime : Rat)) : ∀ x ∈ e :: es, mctKeep p x = true := by
  intro x hx
  apply mctKeep_of_late
  rcases List.mem_cons.mp hx with rfl | hx
  · exact h
  · have hle : e.originTime ≤ x.originTime := (List.pairwise_cons.mp hs).1 x hx
    have : (e.originTime : Rat) ≤ (x.originTime : Rat) := Rat.intCast_le_intCast.mpr hle
    exact Std.lt_of_lt_of_le h this

end CatFilter
