import PycsepVerif.Proofs.NumberTestPub

/-! The float64 floor arguments `obs_cnt - epsilon`, `obs_cnt + epsilon` for an ARBITRARY epsilon (C07, round 4):
the array-level helpers take `epsilon` as an argument; `Proofs/NumberTestPub.lean` treats the public value 1e-6 only. -/
namespace NumberTest
open Soft64

theorem two_pow_mul_pow2_neg (k : ℕ) : ((2 : ℚ) ^ k) * pow2 (-(k : ℤ)) = 1 := by
  rw [pow2_eq_zpow, zpow_neg, zpow_natCast]
  have : ((2 : ℚ) ^ k) ≠ 0 := by positivity
  field_simp

/-- float64: for every ε (any rational, in particular any double) with 2^-k ≤ ε ≤ 1 − 2^-k and every count n with
    (n + 1)·2^k ≤ 2^53, `n − ε` rounds into [n − 1, n) and `n + ε` into [n, n + 1) -/
theorem shiftFE_bounds (k : ℕ) (hk : k ≤ 52) (eps : ℚ) (h0 : pow2 (-(k : ℤ)) ≤ eps)
    (h1 : eps ≤ 1 - pow2 (-(k : ℤ))) (n : ℕ) (hn : ((n : ℤ) + 1) * 2 ^ k ≤ 2 ^ 53) :
    (((n : ℤ) - 1 : ℤ) : ℚ) ≤ fsub (n : ℚ) eps ∧ fsub (n : ℚ) eps < (n : ℚ) ∧
    (n : ℚ) ≤ fadd (n : ℚ) eps ∧ fadd (n : ℚ) eps < (n : ℚ) + 1 := by
  have hq := pow2_pos (-(k : ℤ))
  have hQq := two_pow_mul_pow2_neg k
  have hQ1 : (1 : ℤ) ≤ 2 ^ k := one_le_pow₀ (by norm_num)
  have hnz : ((n : ℤ) + 1) * 2 ^ k ≤ 2 ^ 53 := hn
  have hn0 : (0 : ℤ) ≤ (n : ℤ) := Int.natCast_nonneg n
  have hnQ : (0 : ℤ) ≤ (n : ℤ) * 2 ^ k := by positivity
  have hn53 : (n : ℤ) + 1 ≤ 2 ^ 53 := le_trans (le_mul_of_one_le_right (by omega) hQ1) hnz
  have ht : (n : ℤ) * 2 ^ k + 2 ^ k ≤ 2 ^ 53 := by
    have := hnz
    rwa [add_mul, one_mul] at this
  have hkk : (-1074 : ℤ) ≤ -(k : ℤ) := by omega
  unfold fsub fadd
  refine ⟨?_, ?_, ?_, ?_⟩
  · have h1' : IsF64 ((((n : ℤ) - 1 : ℤ)) : ℚ) := isF64_int _ (by rw [abs_lt]; constructor <;> omega)
    calc ((((n : ℤ) - 1 : ℤ)) : ℚ) = fl64 ((((n : ℤ) - 1 : ℤ)) : ℚ) := h1'.symm
      _ ≤ fl64 ((n : ℚ) - eps) := fl64_mono (by push_cast; linarith)
  · have h2 : IsF64 ((((n : ℤ) * 2 ^ k - 1 : ℤ) : ℚ) * pow2 (-(k : ℤ))) :=
      isF64_dyadic _ _ (by rw [abs_lt]; constructor <;> linarith) hkk
    have e : (((n : ℤ) * 2 ^ k - 1 : ℤ) : ℚ) * pow2 (-(k : ℤ)) = (n : ℚ) - pow2 (-(k : ℤ)) := by
      push_cast
      calc ((n : ℚ) * 2 ^ k - 1) * pow2 (-(k : ℤ))
          = (n : ℚ) * ((2 : ℚ) ^ k * pow2 (-(k : ℤ))) - pow2 (-(k : ℤ)) := by ring
        _ = (n : ℚ) - pow2 (-(k : ℤ)) := by rw [hQq, mul_one]
    calc fl64 ((n : ℚ) - eps) ≤ fl64 ((((n : ℤ) * 2 ^ k - 1 : ℤ) : ℚ) * pow2 (-(k : ℤ))) :=
          fl64_mono (by rw [e]; linarith)
      _ = (((n : ℤ) * 2 ^ k - 1 : ℤ) : ℚ) * pow2 (-(k : ℤ)) := h2
      _ < (n : ℚ) := by rw [e]; linarith
  · have h3 : IsF64 (((n : ℤ) : ℚ)) := isF64_int _ (by rw [abs_lt]; constructor <;> omega)
    calc (n : ℚ) = fl64 (((n : ℤ) : ℚ)) := by rw [h3]; simp
      _ ≤ fl64 ((n : ℚ) + eps) := fl64_mono (by push_cast; linarith)
  · have h4 : IsF64 (((((n : ℤ) + 1) * 2 ^ k - 1 : ℤ) : ℚ) * pow2 (-(k : ℤ))) :=
      isF64_dyadic _ _ (by rw [abs_lt, add_mul, one_mul]; constructor <;> linarith) hkk
    have e : ((((n : ℤ) + 1) * 2 ^ k - 1 : ℤ) : ℚ) * pow2 (-(k : ℤ)) = (n : ℚ) + 1 - pow2 (-(k : ℤ)) := by
      push_cast
      calc (((n : ℚ) + 1) * 2 ^ k - 1) * pow2 (-(k : ℤ))
          = ((n : ℚ) + 1) * ((2 : ℚ) ^ k * pow2 (-(k : ℤ))) - pow2 (-(k : ℤ)) := by ring
        _ = (n : ℚ) + 1 - pow2 (-(k : ℤ)) := by rw [hQq, mul_one]
    calc fl64 ((n : ℚ) + eps) ≤ fl64 (((((n : ℤ) + 1) * 2 ^ k - 1 : ℤ) : ℚ) * pow2 (-(k : ℤ))) :=
          fl64_mono (by rw [e]; linarith)
      _ = ((((n : ℤ) + 1) * 2 ^ k - 1 : ℤ) : ℚ) * pow2 (-(k : ℤ)) := h4
      _ < (n : ℚ) + 1 := by rw [e]; linarith

theorem shiftFE_eq (k : ℕ) (hk : k ≤ 52) (eps : ℚ) (h0 : pow2 (-(k : ℤ)) ≤ eps)
    (h1 : eps ≤ 1 - pow2 (-(k : ℤ))) (n : ℕ) (hn : ((n : ℤ) + 1) * 2 ^ k ≤ 2 ^ 53) :
    shiftFE eps n = ((n : ℤ) - 1, (n : ℤ)) := by
  obtain ⟨a, b, c, d⟩ := shiftFE_bounds k hk eps h0 h1 n hn
  unfold shiftFE
  refine Prod.ext ?_ ?_
  · show (fsub (n : ℚ) eps).floor = (n : ℤ) - 1
    rw [floor_eq, Int.floor_eq_iff]
    constructor
    · exact a
    · push_cast at a ⊢; linarith
  · show (fadd (n : ℚ) eps).floor = (n : ℤ)
    rw [floor_eq, Int.floor_eq_iff]
    constructor
    · exact_mod_cast c
    · exact_mod_cast d

/-! ### the NBD probability parameter as the code computes it in float64 -/

/-- for doubles 0 < mean ≤ var the OLD formula `1.0 - ((var - mean) / var)` gives a double in [0, 1] (both ends are
    attained: 1 at var = mean, 0 for var ≳ 2^54·mean — the finding repaired by D47) -/
theorem upsilonOldF_range {mean var : ℚ} (hv : IsF64 var) (hm : 0 < mean) (hmv : mean ≤ var) :
    0 ≤ upsilonOldF mean var ∧ upsilonOldF mean var ≤ 1 := by
  have hv0 : 0 < var := lt_of_lt_of_le hm hmv
  have a0 : 0 ≤ fsub var mean := by
    unfold fsub; exact fl64_nonneg (by linarith)
  have a1 : fsub var mean ≤ var := by
    unfold fsub
    calc fl64 (var - mean) ≤ fl64 var := fl64_mono (by linarith)
      _ = var := hv
  have q0 : 0 ≤ fdiv (fsub var mean) var := by
    unfold fdiv; exact fl64_nonneg (div_nonneg a0 hv0.le)
  have q1 : fdiv (fsub var mean) var ≤ 1 := by
    unfold fdiv
    calc fl64 (fsub var mean / var) ≤ fl64 1 := fl64_mono ((div_le_one hv0).mpr a1)
      _ = 1 := fl64_one
  unfold upsilonOldF
  constructor
  · exact fl64_nonneg (x := 1 - fdiv (fsub var mean) var) (by linarith)
  · calc fsub 1 (fdiv (fsub var mean) var) = fl64 (1 - fdiv (fsub var mean) var) := rfl
      _ ≤ fl64 1 := fl64_mono (by linarith)
      _ = 1 := fl64_one

/-- the repaired formula `mean / var` (one float64 operation): in [0, 1] for 0 < mean ≤ var -/
theorem upsilonF_range {mean var : ℚ} (hm : 0 < mean) (hmv : mean ≤ var) :
    0 ≤ upsilonF mean var ∧ upsilonF mean var ≤ 1 := by
  have hv0 : 0 < var := lt_of_lt_of_le hm hmv
  unfold upsilonF fdiv
  constructor
  · exact fl64_nonneg (div_nonneg hm.le hv0.le)
  · calc fl64 (mean / var) ≤ fl64 1 := fl64_mono ((div_le_one hv0).mpr hmv)
      _ = 1 := fl64_one

/-- ... correctly rounded: relative error at most 2^-53 whenever the quotient is in the normal range -/
theorem upsilonF_rel_err {mean var : ℚ} (hm : 0 < mean) (hv : 0 < var) (hn : pow2 (-1022) ≤ mean / var) :
    |upsilonF mean var - mean / var| ≤ pow2 (-53) * (mean / var) := by
  have hq : 0 < mean / var := div_pos hm hv
  have := fl64_rel_err (x := mean / var) (by rwa [abs_of_pos hq])
  rwa [abs_of_pos hq] at this

/-- ... hence never 0 there (the degenerate law of the old formula cannot occur): p ≥ (1 − 2^-53)·mean/var > 0 -/
theorem upsilonF_pos {mean var : ℚ} (hm : 0 < mean) (hv : 0 < var) (hn : pow2 (-1022) ≤ mean / var) :
    (1 - pow2 (-53)) * (mean / var) ≤ upsilonF mean var ∧ 0 < upsilonF mean var := by
  have hq : 0 < mean / var := div_pos hm hv
  have h := upsilonF_rel_err hm hv hn
  rw [abs_le] at h
  have h53 : pow2 (-53) < 1 := by rw [pow2_eq_zpow]; norm_num
  have lo : (1 - pow2 (-53)) * (mean / var) ≤ upsilonF mean var := by linarith [h.1]
  exact ⟨lo, lt_of_lt_of_le (mul_pos (by linarith) hq) lo⟩

/-! ### histories of `scale` / `scale_to_test_date` -/

theorem applyAll_eq_scaleAll (f : GF ℝ) (ops : List (ScaleOp ℝ)) : f.applyAll ops = f.scaleAll (effective ops) := by
  unfold GF.applyAll GF.scaleAll
  induction ops generalizing f with
  | nil => rfl
  | cons o ops ih =>
    cases o with
    | set v => simp only [List.foldl_cons, effective, GF.apply]; exact ih _
    | toDate inside frac =>
      cases inside
      · simp only [List.foldl_cons, effective, GF.apply]; exact ih _
      · simp only [List.foldl_cons, effective, GF.apply]; exact ih _

end NumberTest
