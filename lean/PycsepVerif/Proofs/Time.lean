import PycsepVerif.Model.Time
import PycsepVerif.Proofs.Soft64Bound

/-! helper lemmas for C15 (time conversions) -/
namespace Time
open Soft64

theorem truncR_frac (t : ℚ) : |t - ((truncR t : Int) : ℚ)| < 1 := by
  unfold truncR
  split
  · have h1 := Rat.floor_le t
    have h2 := Rat.lt_floor_add_one t
    push_cast at h2
    rw [abs_lt]; constructor <;> linarith
  · have h1 := Rat.floor_le (-t)
    have h2 := Rat.lt_floor_add_one (-t)
    push_cast at h2 ⊢
    rw [abs_lt]; constructor <;> linarith

theorem pow2_33 : pow2 33 = 8589934592 := by decide +kernel
theorem pow2_20 : pow2 20 = 1048576 := by decide +kernel
theorem pow2_m21 : pow2 (33 - 54) = 1 / 2097152 := by decide +kernel
theorem pow2_m34 : pow2 (20 - 54) = 1 / 17179869184 := by decide +kernel

/-- the float quotient `ms / 1000` is within 2^-21 s of the exact quotient for |ms| < 2^33 · 1000 -/
theorem msToSecF_err (ms : Int) (h : |ms| < 8589934592000) :
    |msToSecF ms - (ms : ℚ) / 1000| ≤ 1 / 2097152 := by
  unfold msToSecF fdiv
  have hb : |(ms : ℚ) / 1000| < pow2 33 := by
    rw [pow2_33, abs_div, abs_of_pos (by norm_num : (0 : ℚ) < 1000), div_lt_iff₀ (by norm_num)]
    have : ((|ms| : Int) : ℚ) < ((8589934592000 : Int) : ℚ) := by exact_mod_cast h
    push_cast at this
    linarith
  have := fl64_err_pow2 ((ms : ℚ) / 1000) 33 hb (by norm_num)
  rwa [pow2_m21] at this

/-- `fromtimestamp` recovers the exact microsecond count `K` from any float within 0.49 µs of `K / 10^6` -/
theorem fromTimestamp_of_close (t : ℚ) (K : Int) (h : |t - (K : ℚ) / 1000000| ≤ 1 / 2097152) :
    fromTimestamp t = K := by
  have hfp := truncR_frac t
  set ip := truncR t with hip
  have hprod : |(t - (ip : ℚ)) * 1000000| < pow2 20 := by
    rw [pow2_20, abs_mul, abs_of_pos (by norm_num : (0 : ℚ) < 1000000)]
    have : |t - (ip : ℚ)| * 1000000 < 1 * 1000000 := by
      apply mul_lt_mul_of_pos_right hfp; norm_num
    linarith
  have herr := fl64_err_pow2 ((t - (ip : ℚ)) * 1000000) 20 hprod (by norm_num)
  rw [pow2_m34] at herr
  have hclose : |fmul (t - (ip : ℚ)) 1000000 - ((K - ip * 1000000 : Int) : ℚ)| < 1 / 2 := by
    unfold fmul
    rw [abs_le] at h herr
    push_cast
    rw [abs_lt]
    constructor <;> linarith [h.1, h.2, herr.1, herr.2]
  have hr := roundHalfEven_eq_of_close _ _ hclose
  unfold fromTimestamp
  simp only [← hip, hr, usPerSec]
  split
  · omega
  · split <;> omega

end Time
