/-!
# Gregorian calendar table: definitions

`eraCheckN doe` evaluates, in `Nat` arithmetic with the kernel-accelerated operations only, everything the general
calendar theorems need about day `doe` of a 400-year era (146097 days): no truncated subtraction occurs in
`civil_from_days`, year-of-era < 400, month index < 12, day ≤ length of the month.
The table is enumerated completely by kernel evaluation in `CivilTab1..3` (split to keep each file fast).
-/
namespace Time

def isLeapN (y : Nat) : Bool := Nat.beq (y % 4) 0 && (!(Nat.beq (y % 100) 0) || Nat.beq (y % 400) 0)

/-- length of month index `mp` (0 = March … 10 = January, 11 = February) of the era year `yoe` -/
def dimN (yoe mp : Nat) : Nat :=
  match mp with
  | 11 => bif isLeapN (yoe + 1) then 29 else 28
  | 1 => 30 | 3 => 30 | 6 => 30 | 8 => 30
  | _ => 31

def eraCheckN (doe : Nat) : Bool :=
  let a := doe / 1460
  let b := doe / 36524
  let c := doe / 146096
  let yoe := (doe - a + b - c) / 365
  let ys := 365 * yoe + yoe / 4 - yoe / 100
  let doy := doe - ys
  let mp := (5 * doy + 2) / 153
  let ms := (153 * mp + 2) / 5
  let d := doy - ms + 1
  Nat.ble a doe && Nat.ble c (doe - a + b) && Nat.blt yoe 400 && Nat.ble (yoe / 100) (365 * yoe + yoe / 4)
    && Nat.ble ys doe && Nat.ble ms doy && Nat.blt mp 12 && Nat.ble d (dimN yoe mp)

/-- `p` holds on `[lo, lo + 2^k)` (binary splitting keeps kernel evaluation shallow) -/
def allPow (p : Nat → Bool) : Nat → Nat → Bool
  | 0, lo => p lo
  | k + 1, lo => allPow p k lo && allPow p k (lo + 2 ^ k)

theorem allPow_spec {p : Nat → Bool} : ∀ {k lo : Nat}, allPow p k lo = true → ∀ i, lo ≤ i → i < lo + 2 ^ k → p i = true
  | 0, lo, h, i, h1, h2 => by
    have : i = lo := by simp at h2; omega
    subst this; exact h
  | k + 1, lo, h, i, h1, h2 => by
    simp only [allPow, Bool.and_eq_true] at h
    have e : 2 ^ (k + 1) = 2 ^ k + 2 ^ k := by rw [Nat.pow_succ]; omega
    by_cases hi : i < lo + 2 ^ k
    · exact allPow_spec h.1 i h1 hi
    · exact allPow_spec h.2 i (by omega) (by omega)

end Time
