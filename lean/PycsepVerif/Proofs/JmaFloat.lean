import PycsepVerif.Proofs.Readers
import Mathlib.Algebra.Order.Field.Power
import Mathlib.Tactic.Positivity
import Mathlib.Tactic.NormNum
import Mathlib.Data.Rat.Lemmas

/-!
Soft64 layer for C19 (JMA): error bounds of `Soft64.fl64` (half an ulp, with `ilog2` shown never to overshoot) and the
consequence that the float path `round(1000. * (µs / 10**6))` of `jma_csv` returns the written millisecond exactly.
All lemmas live in `Readers.F64` so that they cannot clash with Soft64 lemma files of other properties.
-/
namespace Readers.F64
open Soft64

theorem pow2_eq_zpow (e : Int) : pow2 e = (2 : ℚ) ^ e := by
  unfold pow2
  split
  · rename_i h
    have : e = (e.toNat : Int) := by omega
    conv_rhs => rw [this]
    rw [zpow_natCast]; push_cast; rfl
  · rename_i h
    have : e = -((-e).toNat : Int) := by omega
    conv_rhs => rw [this]
    rw [zpow_neg, zpow_natCast]; push_cast; simp

theorem pow2_pos (e : Int) : 0 < pow2 e := by rw [pow2_eq_zpow]; positivity

theorem abs_roundHalfEven_sub_le (z : ℚ) : |((roundHalfEven z : Int) : ℚ) - z| ≤ 1 / 2 := by
  have h1 := Rat.floor_le z
  have h2 := Rat.lt_floor_add_one z
  push_cast at h2
  unfold roundHalfEven
  simp only
  rw [abs_le]
  split
  · constructor <;> linarith
  · split
    · push_cast; constructor <;> linarith
    · rename_i ha hb
      have : z - (z.floor : ℚ) = 1 / 2 := le_antisymm (not_lt.mp hb) (not_lt.mp ha)
      split
      · constructor <;> linarith
      · push_cast; constructor <;> linarith

theorem fl64_err (x : ℚ) : |fl64 x - x| ≤ pow2 (ulpExp x) / 2 := by
  unfold fl64
  split
  · rename_i h; subst h; simp; exact le_of_lt (half_pos (pow2_pos _))
  · have hu := pow2_pos (ulpExp x)
    simp only
    have := abs_roundHalfEven_sub_le (x / pow2 (ulpExp x))
    have e : ((roundHalfEven (x / pow2 (ulpExp x)) : Int) : ℚ) * pow2 (ulpExp x) - x
        = (((roundHalfEven (x / pow2 (ulpExp x)) : Int) : ℚ) - x / pow2 (ulpExp x)) * pow2 (ulpExp x) := by
      field_simp
    rw [e, abs_mul, abs_of_pos hu]
    calc _ ≤ 1 / 2 * pow2 (ulpExp x) := by apply mul_le_mul_of_nonneg_right this hu.le
      _ = _ := by ring
/-- `ilog2` never overshoots: 2^(ilog2 x) ≤ x for positive x -/
theorem pow2_ilog2_le (x : ℚ) (hx : 0 < x) : pow2 (ilog2 x) ≤ x := by
  unfold ilog2
  rw [if_neg (not_le.mpr hx)]
  simp only
  split
  · assumption
  · -- 2^(log2 p - log2 q - 1) = 2^(log2 p) / 2^(log2 q + 1) ≤ p / q
    have hnum : 0 < x.num := Rat.num_pos.mpr hx
    have hp : x.num.toNat ≠ 0 := by omega
    have h1 : 2 ^ x.num.toNat.log2 ≤ x.num.toNat := Nat.log2_self_le hp
    have h2 : x.den < 2 ^ (x.den.log2 + 1) := Nat.lt_log2_self
    have hxeq : x = (x.num.toNat : ℚ) / (x.den : ℚ) := by
      have : ((x.num.toNat : ℕ) : ℚ) = (x.num : ℚ) := by
        have : ((x.num.toNat : ℕ) : ℤ) = x.num := by omega
        exact_mod_cast congrArg (fun z : ℤ => (z : ℚ)) this
      rw [this, Rat.num_div_den]
    rw [pow2_eq_zpow]
    have e : ((x.num.toNat.log2 : ℤ) - (x.den.log2 : ℤ) - 1) = (x.num.toNat.log2 : ℤ) - ((x.den.log2 + 1 : ℕ) : ℤ) := by
      push_cast; ring
    rw [e, zpow_sub₀ (by norm_num : (2 : ℚ) ≠ 0), zpow_natCast, zpow_natCast]
    conv_rhs => rw [hxeq]
    have hden : (0 : ℚ) < (x.den : ℚ) := by exact_mod_cast x.den_pos
    have h1' : ((2 : ℚ) ^ x.num.toNat.log2) ≤ (x.num.toNat : ℚ) := by exact_mod_cast h1
    have h2' : (x.den : ℚ) ≤ (2 : ℚ) ^ (x.den.log2 + 1) := by exact_mod_cast h2.le
    exact div_le_div₀ (by positivity) h1' hden h2'

theorem ilog2_le (x : ℚ) (hx : 0 < x) (e : Int) (h : x < (2 : ℚ) ^ (e + 1)) : ilog2 x ≤ e := by
  have h1 := pow2_ilog2_le x hx
  rw [pow2_eq_zpow] at h1
  have : (2 : ℚ) ^ ilog2 x < (2 : ℚ) ^ (e + 1) := lt_of_le_of_lt h1 h
  have := (zpow_lt_zpow_iff_right₀ (by norm_num : (1 : ℚ) < 2)).mp this
  omega

theorem ulpExp_le (x : ℚ) (e : Int) (he : 0 ≤ e) (h : |x| < (2 : ℚ) ^ (e + 1)) : ulpExp x ≤ e - 52 := by
  unfold ulpExp
  simp only
  have habs : (if x < 0 then -x else x) = |x| := by
    split
    · rename_i h0; rw [abs_of_neg h0]
    · rename_i h0; rw [abs_of_nonneg (not_lt.mp h0)]
  rw [habs]
  by_cases hx : x = 0
  · subst hx; simp [ilog2]; omega
  · have := ilog2_le |x| (abs_pos.mpr hx) e h
    split <;> omega

theorem pow2_mono {a b : Int} (h : a ≤ b) : pow2 a ≤ pow2 b := by
  rw [pow2_eq_zpow, pow2_eq_zpow]; exact zpow_le_zpow_right₀ (by norm_num) h

theorem roundHalfEven_eq_of_close (p : ℚ) (M : Int) (h : |p - (M : ℚ)| < 1 / 2) : roundHalfEven p = M := by
  rw [abs_lt] at h
  obtain ⟨h1, h2⟩ := h
  unfold roundHalfEven
  simp only
  by_cases hp : (M : ℚ) ≤ p
  · have hf : p.floor = M := by
      have a : M ≤ p.floor := Rat.le_floor_iff.mpr hp
      have b : p.floor < M + 1 := Rat.floor_lt_iff.mpr (by push_cast; linarith)
      omega
    rw [hf, if_pos (by linarith)]
  · have hp' : p < (M : ℚ) := not_le.mp hp
    have hf : p.floor = M - 1 := by
      have a : M - 1 ≤ p.floor := Rat.le_floor_iff.mpr (by push_cast; linarith)
      have b : p.floor < M := Rat.floor_lt_iff.mpr hp'
      omega
    rw [hf]
    have hr : ¬ (p - ((M - 1 : Int) : ℚ) < 1 / 2) := by push_cast; linarith
    have hr2 : p - ((M - 1 : Int) : ℚ) > 1 / 2 := by push_cast; linarith
    rw [if_neg hr, if_pos hr2]; omega


/-- the float path `round(1000. * (µs / 10**6))` returns the written millisecond exactly, for every millisecond-resolution
    instant with |t| < 2^43 ms (years 1691 – 2248) -/
theorem jmaTimeF_ms (M : Int) (hlo : -8796093022208 < M) (hhi : M < 8796093022208) : jmaTimeF (1000 * M) = M := by
  unfold jmaTimeF
  apply roundHalfEven_eq_of_close
  have hy : (((1000 * M : Int)) : ℚ) / 1000000 = (M : ℚ) / 1000 := by push_cast; ring
  rw [hy]
  have hlo' : (-8796093022208 : ℚ) < (M : ℚ) := by exact_mod_cast hlo
  have hhi' : (M : ℚ) < 8796093022208 := by exact_mod_cast hhi
  generalize hydef : (M : ℚ) / 1000 = y
  have hM' : (M : ℚ) = 1000 * y := by rw [← hydef]; ring
  -- first rounding: |y| < 2^34, ulp ≤ 2^-19
  have c34 : (2 : ℚ) ^ ((33 : ℤ) + 1) = 17179869184 := by norm_num
  have c19 : (2 : ℚ) ^ ((33 : ℤ) - 52) = 1 / 524288 := by norm_num
  have hyabs : |y| < (2 : ℚ) ^ ((33 : ℤ) + 1) := by
    rw [c34, abs_lt]; constructor <;> linarith
  have e1 : |fl64 y - y| ≤ 1 / 1048576 := by
    have h1 := fl64_err y
    have h2 := pow2_mono (ulpExp_le y 33 (by norm_num) hyabs)
    rw [pow2_eq_zpow (33 - 52), c19] at h2
    linarith
  generalize fl64 y = ts at e1
  have e1' := abs_le.mp e1
  -- second rounding: |1000 ts| < 2^44, ulp ≤ 2^-9
  have c44 : (2 : ℚ) ^ ((43 : ℤ) + 1) = 17592186044416 := by norm_num
  have c9 : (2 : ℚ) ^ ((43 : ℤ) - 52) = 1 / 512 := by norm_num
  have hprod : |1000 * ts| < (2 : ℚ) ^ ((43 : ℤ) + 1) := by
    rw [c44, abs_lt]; constructor <;> linarith [e1'.1, e1'.2]
  have e2 : |fmul 1000 ts - 1000 * ts| ≤ 1 / 1024 := by
    unfold fmul
    have h1 := fl64_err (1000 * ts)
    have h2 := pow2_mono (ulpExp_le (1000 * ts) 43 (by norm_num) hprod)
    rw [pow2_eq_zpow (43 - 52), c9] at h2
    linarith
  have e2' := abs_le.mp e2
  rw [abs_lt]
  constructor <;> linarith [e1'.1, e1'.2, e2'.1, e2'.2]


/-- record level: for a millisecond-resolution timestamp in range, the float-path reader returns exactly the UTC
    millisecond — the same event as the exact-rounding model `jmaRec` -/
theorem jmaRecF_ms (clock : Clock) (us offset : Int) (lon lat depth mag : Rat)
    (hv : clock.valid = true) (h0 : 0 ≤ us) (h1 : us < 1000000) (hm : us % 1000 = 0)
    (hlo : -8796093022208 < (clock.epochSec - offset) * 1000 + us / 1000)
    (hhi : (clock.epochSec - offset) * 1000 + us / 1000 < 8796093022208) :
    jmaRecF ⟨clock, us, offset, lon, lat, depth, mag⟩ =
      .ok ⟨(clock.epochSec - offset) * 1000 + us / 1000, lat, lon, depth, mag⟩ := by
  unfold jmaRecF
  have hc : (clock.valid && decide (0 ≤ us) && decide (us < 1000000)) = true := by
    rw [hv]; simp only [Bool.true_and, Bool.and_eq_true, decide_eq_true_eq]; exact ⟨h0, h1⟩
  simp only [hc, if_true]
  have : (clock.epochSec - offset) * 1000000 + us = 1000 * ((clock.epochSec - offset) * 1000 + us / 1000) := by omega
  rw [this, jmaTimeF_ms _ hlo hhi]

end Readers.F64
