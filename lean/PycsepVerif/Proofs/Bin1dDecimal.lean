import PycsepVerif.Proofs.Bin1dUpper

/-!
Decimal grids `fl64((S + k·D)/10^m)`, k = 0..n−1 — what `cleaner_range` / `magnitude_bins` return (`cleanerRange_exact`) and what
every shipped magnitude / lon / lat edge array is — satisfy the hypotheses of the float theorems of property C02
(`RegularF64Grid`, `PointOK`) as soon as the grid resolves its step: `(2n+2)·(A·2^-53 + 2^-1075) ≤ step/5`, A a bound of the
magnitudes of the grid values. No per-edge evaluation: an error analysis of the nearest-double rounding.
-/
namespace Bin1d
open Soft64

/-- the exact decimal `(S + k·D)/10^m` -/
def decVal (S D : ℤ) (m : ℕ) (k : ℕ) : ℚ := ((S + ((k : ℕ) : ℤ) * D : ℤ) : ℚ) / ((10 ^ m : ℕ) : ℚ)

theorem decimalGrid_length (S D : ℤ) (m n : ℕ) : (decimalGrid S D m n).length = n := by
  simp [decimalGrid]

theorem decimalGrid_getD (S D : ℤ) (m : ℕ) {n k : ℕ} (hk : k < n) :
    (decimalGrid S D m n).getD k 0 = fl64 (decVal S D m k) := by
  have hl : k < (decimalGrid S D m n).length := by rw [decimalGrid_length]; exact hk
  rw [getD_eq_getElem _ hl]
  simp [decimalGrid, decVal]

theorem decVal_sub (S D : ℤ) (m : ℕ) (i j : ℕ) :
    decVal S D m j - decVal S D m i = ((j : ℚ) - (i : ℚ)) * ((D : ℚ) / ((10 ^ m : ℕ) : ℚ)) := by
  unfold decVal
  have hP : ((10 ^ m : ℕ) : ℚ) ≠ 0 := by positivity
  push_cast
  field_simp
  ring

/-- a bound of the grid values: `|S + k·D| ≤ |S| + n·D` for k ≤ n -/
theorem decVal_abs_le (S D : ℤ) (m : ℕ) (hD : 0 < D) {n k : ℕ} (hk : k ≤ n) :
    |decVal S D m k| ≤ ((|S| + (n : ℤ) * D : ℤ) : ℚ) / ((10 ^ m : ℕ) : ℚ) := by
  unfold decVal
  have hP : (0 : ℚ) < ((10 ^ m : ℕ) : ℚ) := by positivity
  rw [abs_div, abs_of_pos hP, div_le_div_iff_of_pos_right hP]
  have h1 : |S + (k : ℤ) * D| ≤ |S| + (n : ℤ) * D := by
    have h2 : (0 : ℤ) ≤ (k : ℤ) * D := by positivity
    have h3 : (k : ℤ) * D ≤ (n : ℤ) * D := mul_le_mul_of_nonneg_right (by exact_mod_cast hk) hD.le
    calc |S + (k : ℤ) * D| ≤ |S| + |(k : ℤ) * D| := abs_add_le _ _
      _ = |S| + (k : ℤ) * D := by rw [abs_of_nonneg h2]
      _ ≤ |S| + (n : ℤ) * D := by omega
  have : ((|S + (k : ℤ) * D| : ℤ) : ℚ) ≤ ((|S| + (n : ℤ) * D : ℤ) : ℚ) := by exact_mod_cast h1
  simpa using this

/-- the hypotheses on a decimal grid, collected -/
structure DecimalGridOK (S D : ℤ) (m n : ℕ) (A : ℚ) : Prop where
  step_pos : 0 < D
  two_le : 2 ≤ n
  le_pow40 : n ≤ 2 ^ 40
  bound : ∀ k : ℕ, k ≤ n → |decVal S D m k| ≤ A
  /-- the grid resolves its step: half-ulp errors of n+1 values of size A stay below a fifth of the step -/
  resolves : (2 * (n : ℚ) + 2) * (A / 2 ^ 53 + pow2 (-1075)) ≤ (D : ℚ) / ((10 ^ m : ℕ) : ℚ) / 5
  step_normal : pow2 (-1020) ≤ (D : ℚ) / ((10 ^ m : ℕ) : ℚ)

section
variable {S D : ℤ} {m n : ℕ} {A : ℚ} (H : DecimalGridOK S D m n A)
include H

theorem DecimalGridOK.err {k : ℕ} (hk : k ≤ n) :
    |fl64 (decVal S D m k) - decVal S D m k| ≤ A / 2 ^ 53 + pow2 (-1075) := by
  have h := Soft64R.fl64_err_le (decVal S D m k)
  rw [pow2_m53] at h
  have h2 := H.bound k hk
  have : |decVal S D m k| * (1 / 2 ^ 53) ≤ A * (1 / 2 ^ 53) := mul_le_mul_of_nonneg_right h2 (by norm_num)
  linarith

theorem DecimalGridOK.E_le :
    A / 2 ^ 53 + pow2 (-1075) ≤ (D : ℚ) / ((10 ^ m : ℕ) : ℚ) / 30 := by
  have h := H.resolves
  have hn : (2 : ℚ) ≤ (n : ℚ) := by exact_mod_cast H.two_le
  have hA : 0 ≤ A := le_trans (abs_nonneg _) (H.bound 0 (by omega))
  have hE : 0 ≤ A / 2 ^ 53 + pow2 (-1075) := by
    have := (Soft64R.pow2_pos (-1075)).le; positivity
  nlinarith

theorem DecimalGridOK.d_pos : 0 < (D : ℚ) / ((10 ^ m : ℕ) : ℚ) := by
  have : (0 : ℚ) < (D : ℚ) := by exact_mod_cast H.step_pos
  positivity

/-- the float step `h = fl(e_1 − e_0)` is within `2E + u(d + 2E)` of the decimal step d -/
theorem DecimalGridOK.step_err :
    |step64 (decimalGrid S D m n) - (D : ℚ) / ((10 ^ m : ℕ) : ℚ)|
      ≤ 2 * (A / 2 ^ 53 + pow2 (-1075)) + ((D : ℚ) / ((10 ^ m : ℕ) : ℚ) + 2 * (A / 2 ^ 53 + pow2 (-1075))) * (1 / 2 ^ 53) := by
  have hn := H.two_le
  have hn1 : ((decimalGrid S D m n).length == 1) = false := by rw [decimalGrid_length]; simp; omega
  have e0 := H.err (k := 0) (by omega)
  have e1 := H.err (k := 1) (by omega)
  have hsub := decVal_sub S D m 0 1
  simp only [Nat.cast_zero, Nat.cast_one, sub_zero, one_mul] at hsub
  unfold step64 hOf
  simp only [hn1, DT.rnd, Bool.false_eq_true, if_false]
  rw [decimalGrid_getD S D m (by omega : 1 < n), decimalGrid_getD S D m (by omega : 0 < n)]
  have hr := fl64_sub_float_err (Soft64R.fl64_idem (decVal S D m 1)) (Soft64R.fl64_idem (decVal S D m 0))
  rw [pow2_m53] at hr
  generalize fl64 (decVal S D m 1) = x1 at *
  generalize fl64 (decVal S D m 0) = x0 at *
  generalize fl64 (x1 - x0) = hh at *
  generalize A / 2 ^ 53 + pow2 (-1075) = E at *
  have a0 := abs_le.mp e0
  have a1 := abs_le.mp e1
  have hd := H.d_pos
  have hx : |x1 - x0| ≤ (D : ℚ) / ((10 ^ m : ℕ) : ℚ) + 2 * E := by
    rw [abs_le]; constructor <;> linarith [a0.1, a0.2, a1.1, a1.2]
  have hx2 : |x1 - x0| * (1 / 2 ^ 53) ≤ ((D : ℚ) / ((10 ^ m : ℕ) : ℚ) + 2 * E) * (1 / 2 ^ 53) :=
    mul_le_mul_of_nonneg_right hx (by norm_num)
  have ar := abs_le.mp hr
  rw [abs_le]; constructor <;> linarith [a0.1, a0.2, a1.1, a1.2, ar.1, ar.2]

/-- bounds of the float step: 0.93·d ≤ h ≤ 1.07·d -/
theorem DecimalGridOK.step_bounds :
    93 / 100 * ((D : ℚ) / ((10 ^ m : ℕ) : ℚ)) ≤ step64 (decimalGrid S D m n) ∧
      step64 (decimalGrid S D m n) ≤ 107 / 100 * ((D : ℚ) / ((10 ^ m : ℕ) : ℚ)) := by
  have h1 := abs_le.mp H.step_err
  have h2 := H.E_le
  have hd := H.d_pos
  have hE : 0 ≤ A / 2 ^ 53 + pow2 (-1075) := by
    have hA : 0 ≤ A := le_trans (abs_nonneg _) (H.bound 0 (by omega))
    have := (Soft64R.pow2_pos (-1075)).le; positivity
  constructor <;> nlinarith [h1.1, h1.2]

/-- a decimal grid that resolves its step satisfies the hypotheses of the float theorems -/
theorem DecimalGridOK.regular : RegularF64Grid (decimalGrid S D m n) := by
  have hn := H.two_le
  have hd := H.d_pos
  have hEle := H.E_le
  have hA : 0 ≤ A := le_trans (abs_nonneg _) (H.bound 0 (by omega))
  have hE : 0 ≤ A / 2 ^ 53 + pow2 (-1075) := by
    have := (Soft64R.pow2_pos (-1075)).le; positivity
  have hsb := H.step_bounds
  have hse := abs_le.mp H.step_err
  have hres := H.resolves
  have hN40 : (n : ℚ) ≤ 2 ^ 40 := by exact_mod_cast H.le_pow40
  have hlen := decimalGrid_length S D m n
  -- distance of edge k from e_0 + k·h
  have hreg : ∀ k : ℕ, k < n →
      |(decimalGrid S D m n).getD k 0 - ((decimalGrid S D m n).getD 0 0 + (k : ℚ) * step64 (decimalGrid S D m n))|
        ≤ step64 (decimalGrid S D m n) / 4 := by
    intro k hk
    rw [decimalGrid_getD S D m hk, decimalGrid_getD S D m (by omega : 0 < n)]
    have ek := abs_le.mp (H.err (k := k) (by omega))
    have e0 := abs_le.mp (H.err (k := 0) (by omega))
    have hsub := decVal_sub S D m 0 k
    simp only [Nat.cast_zero, sub_zero] at hsub
    have hk0 : (0 : ℚ) ≤ (k : ℚ) := by positivity
    have hkn : (k : ℚ) ≤ (n : ℚ) := by exact_mod_cast hk.le
    generalize fl64 (decVal S D m k) = xk at *
    generalize fl64 (decVal S D m 0) = x0 at *
    generalize step64 (decimalGrid S D m n) = hh at *
    generalize A / 2 ^ 53 + pow2 (-1075) = E at *
    generalize (D : ℚ) / ((10 ^ m : ℕ) : ℚ) = d at *
    -- k·|h − d| ≤ k·(2E + u(d+2E))
    have p1 : (k : ℚ) * (hh - d) ≤ (k : ℚ) * (2 * E + (d + 2 * E) * (1 / 2 ^ 53)) :=
      mul_le_mul_of_nonneg_left (by linarith [hse.2]) hk0
    have p2 : (k : ℚ) * (-(2 * E + (d + 2 * E) * (1 / 2 ^ 53))) ≤ (k : ℚ) * (hh - d) :=
      mul_le_mul_of_nonneg_left (by linarith [hse.1]) hk0
    have p3 : (k : ℚ) * E ≤ (n : ℚ) * E := mul_le_mul_of_nonneg_right hkn hE
    have p4 : (k : ℚ) * d ≤ 2 ^ 40 * d := mul_le_mul_of_nonneg_right (by linarith) hd.le
    rw [abs_le]
    constructor <;> nlinarith [ek.1, ek.2, e0.1, e0.2, p1, p2, p3, p4, hsb.1, hsb.2]
  refine ⟨by rw [hlen]; omega, by rw [hlen]; exact_mod_cast H.le_pow40, ?_, ?_, ?_, ?_, ?_⟩
  · -- strictly increasing
    rw [List.pairwise_iff_getElem]
    intro i j hi hj hij
    rw [hlen] at hi hj
    rw [← getD_eq_getElem _ (by rw [hlen]; exact hi), ← getD_eq_getElem _ (by rw [hlen]; exact hj),
      decimalGrid_getD S D m hi, decimalGrid_getD S D m hj]
    have ei := abs_le.mp (H.err (k := i) (by omega))
    have ej := abs_le.mp (H.err (k := j) (by omega))
    have hsub := decVal_sub S D m i j
    have hji : (1 : ℚ) ≤ (j : ℚ) - (i : ℚ) := by
      have : (i : ℚ) + 1 ≤ (j : ℚ) := by exact_mod_cast hij
      linarith
    have : (D : ℚ) / ((10 ^ m : ℕ) : ℚ) ≤ ((j : ℚ) - (i : ℚ)) * ((D : ℚ) / ((10 ^ m : ℕ) : ℚ)) := by nlinarith
    linarith [ei.1, ei.2, ej.1, ej.2]
  · intro e he
    unfold decimalGrid at he
    obtain ⟨k, _, rfl⟩ := List.mem_map.mp he
    exact Soft64R.fl64_idem _
  · have h1020 : pow2 (-1020) = 2 * pow2 (-1021) := by
      have := Soft64R.pow2_succ (-1021); simpa using this
    have := H.step_normal
    have hp := Soft64R.pow2_pos (-1021)
    linarith [hsb.1]
  · intro j hj
    rw [hlen] at hj
    have := abs_le.mp (hreg j hj)
    linarith [this.1]
  · intro j hj
    rw [hlen] at hj
    have := abs_le.mp (hreg j hj)
    linarith [this.2]

/-- every float64 point up to `A + 2·step` in magnitude (so: from a step below the first edge to a step above the upper edge
of the last bin) satisfies `PointOK` on such a grid -/
theorem DecimalGridOK.pointOK {p : ℚ} (hpF : fl64 p = p)
    (hp : |p| ≤ A + 2 * ((D : ℚ) / ((10 ^ m : ℕ) : ℚ))) : PointOK (decimalGrid S D m n) p := by
  refine ⟨hpF, ?_⟩
  have hn := H.two_le
  have hd := H.d_pos
  have hEle := H.E_le
  have hA : 0 ≤ A := le_trans (abs_nonneg _) (H.bound 0 (by omega))
  have hη0 := (Soft64R.pow2_pos (-1075)).le
  have hsb := H.step_bounds
  have hres := H.resolves
  have hN2 : (2 : ℚ) ≤ (n : ℚ) := by exact_mod_cast hn
  have hlen := decimalGrid_length S D m n
  have hat := getTol_le ((decimalGrid S D m n).getD 0 0)
  have hpt := getTol_le p
  rw [decimalGrid_getD S D m (by omega : 0 < n)] at hat
  have e0 := abs_le.mp (H.err (k := 0) (by omega))
  have b0 := abs_le.mp (H.bound 0 (by omega))
  have hx0 : |fl64 (decVal S D m 0)| ≤ A + (A / 2 ^ 53 + pow2 (-1075)) := by
    rw [abs_le]; constructor <;> linarith [e0.1, e0.2, b0.1, b0.2]
  show (((decimalGrid S D m n).length : ℚ) + 1) * getTol .f64 ((decimalGrid S D m n).getD 0 0) + getTol .f64 p
      ≤ step64 (decimalGrid S D m n) / 2
  rw [hlen, decimalGrid_getD S D m (by omega : 0 < n)]
  have hat0 : 0 ≤ getTol .f64 (fl64 (decVal S D m 0)) := getTol_f64_nonneg _
  generalize getTol .f64 (fl64 (decVal S D m 0)) = at_ at *
  generalize getTol .f64 p = pt at *
  generalize |fl64 (decVal S D m 0)| = X0 at *
  generalize |p| = ap at *
  generalize step64 (decimalGrid S D m n) = hh at *
  generalize pow2 (-1075) = η at *
  generalize (D : ℚ) / ((10 ^ m : ℕ) : ℚ) = d at *
  have q1 : ((n : ℚ) + 1) * at_ ≤ ((n : ℚ) + 1) * (X0 * (1 / 2 ^ 52 * (1 + 1 / 2 ^ 53)) + η) :=
    mul_le_mul_of_nonneg_left hat (by linarith)
  have q2 : ((n : ℚ) + 1) * X0 ≤ ((n : ℚ) + 1) * (A + (A / 2 ^ 53 + η)) := mul_le_mul_of_nonneg_left hx0 (by linarith)
  have q3 : 0 ≤ (n : ℚ) * A := mul_nonneg (by linarith) hA
  have q4 : 0 ≤ (n : ℚ) * η := mul_nonneg (by linarith) hη0
  nlinarith [q1, q2, q3, q4, hpt, hp, hsb.1, hres, hEle]

end

end Bin1d
