import PycsepVerif.Proofs.CivilDefs
/-! complete kernel enumeration of one part of the 146097-day era table (see CivilDefs.lean) -/
namespace Time
theorem era_tab3 : allPow eraCheckN 14 49152 = true := by decide +kernel
theorem era_tab4 : allPow eraCheckN 14 65536 = true := by decide +kernel
theorem era_tab5 : allPow eraCheckN 14 81920 = true := by decide +kernel
end Time
