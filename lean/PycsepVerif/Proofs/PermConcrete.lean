import PycsepVerif.Proofs.Perm
import PycsepVerif.Proofs.Gridding
import PycsepVerif.Proofs.ForecastIter
import PycsepVerif.Model.PoissonLL
import PycsepVerif.Model.BinaryBrier
import PycsepVerif.Model.CatalogEvals
import PycsepVerif.Model.NumberTest

/-!
  Helper lemmas for `Properties/C20_Concrete.lean`: permutation invariance of the CONCRETE models that the other
  properties tie to the code (C03 `Gridding`, C05 `PoissonLL`, C16 `BinaryBrier`, C10 `CatalogEvals`, C07
  `NumberTest.catalogNTest`, C13 `ForecastIter.accumulate`).
-/
namespace PermInv.Concrete
open List

theorem countVec_perm (n : Nat) {l l' : List (Option Nat)} (h : l ~ l') : Gridding.countVec n l = Gridding.countVec n l' := by
  unfold Gridding.countVec
  exact List.map_congr_left (fun i _ => h.countP_eq _)

theorem countMatrix_perm (ncell nbin : Nat) {evs evs' : List Gridding.Ev} (h : evs ~ evs') :
    Gridding.countMatrix ncell nbin evs = Gridding.countMatrix ncell nbin evs' := by
  unfold Gridding.countMatrix
  exact List.map_congr_left (fun i _ => List.map_congr_left (fun k _ => h.countP_eq _))

/-- rows of equal lengths, flattened and zipped = zipped row by row and flattened -/
theorem zip_flatten_rows {β γ} (rows : List (List β × List γ)) (h : ∀ r ∈ rows, r.1.length = r.2.length) :
    (rows.map (·.1)).flatten.zip (rows.map (·.2)).flatten = (rows.map (fun r => r.1.zip r.2)).flatten := by
  induction rows with
  | nil => rfl
  | cons r rs ih =>
    have hr := h r (by simp)
    have hrs : ∀ r ∈ rs, r.1.length = r.2.length := fun x hx => h x (List.mem_cons_of_mem _ hx)
    simp only [List.map_cons, List.flatten_cons]
    rw [List.zip_append hr, ih hrs]

theorem zip_map_rows {β γ δ ε} (rows : List (β × γ)) (f : β → δ) (g : γ → ε) :
    (rows.map (fun r => f r.1)).zip (rows.map (fun r => g r.2)) = rows.map (fun r => (f r.1, g r.2)) := by
  induction rows with
  | nil => rfl
  | cons r rs ih => simp [ih]

theorem addRows_comm (x y : List ℝ) : PoissonLL.addRows x y = PoissonLL.addRows y x := by
  induction x generalizing y with
  | nil => cases y <;> simp [PoissonLL.addRows]
  | cons a x ih => cases y with
    | nil => simp [PoissonLL.addRows]
    | cons b y => simp [PoissonLL.addRows, ih y, add_comm]

theorem addRows_assoc (x y z : List ℝ) :
    PoissonLL.addRows (PoissonLL.addRows x y) z = PoissonLL.addRows x (PoissonLL.addRows y z) := by
  induction x generalizing y z with
  | nil => cases y <;> cases z <;> simp [PoissonLL.addRows]
  | cons a x ih =>
    cases y with
    | nil => cases z <;> simp [PoissonLL.addRows]
    | cons b y => cases z with
      | nil => simp [PoissonLL.addRows]
      | cons c z => simp [PoissonLL.addRows, ih y z, add_assoc]

theorem addRowsN_comm (x y : List ℕ) : PoissonLL.addRowsN x y = PoissonLL.addRowsN y x := by
  induction x generalizing y with
  | nil => cases y <;> simp [PoissonLL.addRowsN]
  | cons a x ih => cases y with
    | nil => simp [PoissonLL.addRowsN]
    | cons b y => simp [PoissonLL.addRowsN, ih y, Nat.add_comm]

theorem addRowsN_assoc (x y z : List ℕ) :
    PoissonLL.addRowsN (PoissonLL.addRowsN x y) z = PoissonLL.addRowsN x (PoissonLL.addRowsN y z) := by
  induction x generalizing y z with
  | nil => cases y <;> cases z <;> simp [PoissonLL.addRowsN]
  | cons a x ih =>
    cases y with
    | nil => cases z <;> simp [PoissonLL.addRowsN]
    | cons b y => cases z with
      | nil => simp [PoissonLL.addRowsN]
      | cons c z => simp [PoissonLL.addRowsN, ih y z, Nat.add_assoc]

end PermInv.Concrete
