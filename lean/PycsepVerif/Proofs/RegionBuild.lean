import PycsepVerif.Proofs.RegionHash
/-!
# The loop of `_build_bitmask_vec` writes polygon k at its lattice position

`hashCells_getElem?` : entry k of the cell list is made of hash k and flag k.
`fromOrigins_cell`   : for the region `from_origins` builds, if its edge arrays are near a lattice (`NearLattice`) and
                       origin k is near lattice point (i, j), the loop records polygon k at column i, row j.
`getLocationOf_*`, `fromDict_toDict`, `getBbox_*`: the remaining lookups.
-/
namespace Region
open Soft64 Bin1d

/-- the flag of polygon k: no mask list ⇒ valid; else `poly_mask[k] == 1` -/
def flagOf : Option (List Bool) → ℕ → Bool
  | none, _ => true
  | some l, k => l.getD k false

theorem hashCells_getElem? (nx ny : ℕ) (hs : List (ℤ × ℤ)) (fl : Option (List Bool)) (k : ℕ) :
    (hashCells nx ny hs fl)[k]? = hs[k]?.map (fun h => cellOfHash nx ny h.1 h.2 (flagOf fl k)) := by
  induction hs generalizing fl k with
  | nil => cases fl <;> simp [hashCells]
  | cons h hs ih =>
    cases fl with
    | none =>
      cases k with
      | zero => simp [hashCells, flagOf]
      | succ k => simp [hashCells, ih none k, flagOf]
    | some l =>
      cases l with
      | nil =>
        cases k with
        | zero => simp [hashCells, flagOf]
        | succ k => simp [hashCells, ih (some []) k, flagOf]
      | cons f fs =>
        cases k with
        | zero => simp [hashCells, flagOf]
        | succ k => simp [hashCells, ih (some fs) k, flagOf]

theorem hashCells_length (nx ny : ℕ) (hs : List (ℤ × ℤ)) (fl : Option (List Bool)) :
    (hashCells nx ny hs fl).length = hs.length := by
  induction hs generalizing fl with
  | nil => cases fl <;> simp [hashCells]
  | cons h hs ih =>
    cases fl with
    | none => simp [hashCells, ih]
    | some l => cases l <;> simp [hashCells, ih]

theorem cellOfHash_nat (nx ny i j : ℕ) (f : Bool) : cellOfHash nx ny (i : ℤ) (j : ℤ) f = ⟨i, j, f⟩ := by
  simp [cellOfHash, wrapIdx]

/-- the cell list of `buildF` is the loop over the hashes of the centroids against the region's own edge arrays -/
theorem buildF_cells (polys : List (List (ℚ × ℚ))) (dh : ℚ) (flags : Option (List Bool)) (dec : ℕ × ℕ × ℕ) :
    (buildF polys dh flags dec).cells =
      hashCells (buildF polys dh flags dec).xs.length (buildF polys dh flags dec).ys.length
        (polys.map (fun p => (binF (buildF polys dh flags dec).xs.toArray (centroidF p).1,
                               binF (buildF polys dh flags dec).ys.toArray (centroidF p).2))) flags := by
  simp [buildF, List.map_map, Function.comp_def]

theorem fromOrigins_cells_length (os : List (ℚ × ℚ)) (dhf : ℚ) (flags : Option (List Bool)) (dec : ℕ × ℕ × ℕ) :
    (fromOrigins os dhf flags dec).cells.length = os.length := by
  unfold fromOrigins
  rw [buildF_cells, hashCells_length]
  simp

/-- **the code hashes polygon k to its lattice coordinates**: in the region `from_origins(os, dhf)` builds, whose edge
arrays lie near the lattice (ax, ay, dh), a polygon whose origin lies near lattice point (i, j) is recorded by the loop
at column i, row j, with its own flag -/
theorem fromOrigins_cell (ax ay dh dhf : ℚ) (os : List (ℚ × ℚ)) (flags : Option (List Bool)) (dec : ℕ × ℕ × ℕ)
    (Hx : NearLattice ax dh (fromOrigins os dhf flags dec).xs) (Hy : NearLattice ay dh (fromOrigins os dhf flags dec).ys)
    (hdh : |dhf - dh| ≤ 1 / 2 ^ 41) (k i j : ℕ) (o : ℚ × ℚ) (hk : os[k]? = some o)
    (hi : i < (fromOrigins os dhf flags dec).xs.length) (hj : j < (fromOrigins os dhf flags dec).ys.length)
    (hox : |o.1 - (ax + (i : ℚ) * dh)| ≤ 1 / 2 ^ 41) (hoy : |o.2 - (ay + (j : ℚ) * dh)| ≤ 1 / 2 ^ 41) :
    (fromOrigins os dhf flags dec).cells[k]? = some ⟨i, j, flagOf flags k⟩ := by
  have hx := midpoint_hash_axis_x ax dh _ Hx i hi o dhf hox hdh
  have hy := midpoint_hash_axis_y ay dh _ Hy j hj o dhf hoy hdh
  rw [← binF_eq] at hx hy
  unfold fromOrigins at hx hy ⊢
  rw [buildF_cells, hashCells_getElem?]
  simp only [List.getElem?_map, hk, Option.map_some]
  rw [hx, hy, cellOfHash_nat]

/-- the executable check implies the hypothesis -/
theorem nearLattice_of_B (a dh : ℚ) (xs : List ℚ) (h : nearLatticeB a dh xs = true) : NearLattice a dh xs := by
  unfold nearLatticeB at h
  simp only [Bool.and_eq_true, decide_eq_true_eq, List.all_eq_true, List.mem_range] at h
  obtain ⟨⟨⟨⟨⟨h1, h2⟩, h3⟩, h4⟩, h5⟩, h6⟩ := h
  refine ⟨h1, by norm_num; exact h2, by norm_num at h3 ⊢; exact h3, by norm_num; exact h4, by norm_num; exact h5, ?_⟩
  intro k hk
  obtain ⟨a1, a2⟩ := h6 k hk
  have e : xs.getD k 0 = xs[k] := by simp [List.getD_eq_getElem?_getD, hk]
  rw [e] at a1 a2
  rw [abs_le]
  constructor
  · norm_num at a2 ⊢; linarith
  · norm_num at a1 ⊢; linarith

/-! ## the remaining lookups -/

/-- `get_location_of([k])` for a valid polygon number returns polygon k -/
theorem getLocationOf_nat (n k : ℕ) (hk : k < n) : getLocationOf n [(k : ℤ)] = .ok [k] := by
  have h1 : -(n : ℤ) ≤ (k : ℤ) ∧ (k : ℤ) < (n : ℤ) := by omega
  simp [getLocationOf, List.mapM_cons, h1, wrapIdx]

/-- a negative index counts from the end (Python list indexing) -/
theorem getLocationOf_neg (n k : ℕ) (hk0 : 0 < k) (hk : k ≤ n) : getLocationOf n [-(k : ℤ)] = .ok [n - k] := by
  have h1 : -(n : ℤ) ≤ -(k : ℤ) ∧ -(k : ℤ) < (n : ℤ) := by omega
  have h2 : -(k : ℤ) < 0 := by omega
  have h3 : ((n : ℤ) + -(k : ℤ)).toNat = n - k := by omega
  simp [getLocationOf, List.mapM_cons, h1, wrapIdx, h3]
  omega

/-- an index outside −n … n−1 raises IndexError -/
theorem getLocationOf_out (n : ℕ) (z : ℤ) (h : z < -(n : ℤ) ∨ (n : ℤ) ≤ z) : getLocationOf n [z] = .error .indexError := by
  have h1 : ¬ (-(n : ℤ) ≤ z ∧ z < (n : ℤ)) := by omega
  simp [getLocationOf, List.mapM_cons, h1]

/-- `from_dict(to_dict(region))` runs the same construction on the same origins and spacing (without mask, without magnitudes) -/
theorem fromDict_toDict (name : String) (dh : ℚ) (b : BuiltF) (dec : ℕ × ℕ × ℕ) :
    fromDict (toDict name dh b) dec = (fromOrigins b.origins dh none dec, none) := rfl

/-- the origins of the region `from_origins` builds are the origins it was given -/
theorem fromOrigins_origins (os : List (ℚ × ℚ)) (dhf : ℚ) (flags : Option (List Bool)) (dec : ℕ × ℕ × ℕ) :
    (fromOrigins os dhf flags dec).origins = os := by
  unfold fromOrigins buildF
  simp only [List.map_map]
  conv_rhs => rw [← List.map_id os]
  apply List.map_congr_left
  intro o _
  simp [polyOrigin, computeVertex]

end Region
