import PycsepVerif.Proofs.Bin1dTablesRegions
/-! kernel-evaluated table (property C02): every edge 0..132 of california_relm_collection_region().xs lands in the bin it opens -/
namespace Bin1d.Tables
theorem tabE_cacx_0 : edgesOwnBin (cfg64 false) cacxRaw 0 133 = true := by decide +kernel
end Bin1d.Tables
