import PycsepVerif.Model.NumberTestPub
import PycsepVerif.Proofs.Soft64
import PycsepVerif.Proofs.NumberTest
import Mathlib.Tactic.NormNum
import Mathlib.Tactic.Linarith

/-! Helper lemmas for the public number tests: the float64 arguments of scipy's floor, forecast totals. -/
namespace NumberTest
open Soft64

theorem pow2_m20 : pow2 (-20) = 1 / 1048576 := by rw [pow2_eq_zpow]; norm_num
theorem pow2_m19 : pow2 (-19) = 1 / 524288 := by rw [pow2_eq_zpow]; norm_num

/-- the double 1e-6 lies between 2^-20 and 2^-19 (monotonicity of rounding; no evaluation) -/
theorem epsF_bounds : pow2 (-20) ≤ epsF ∧ epsF ≤ pow2 (-19) := by
  have h20 : IsF64 (pow2 (-20)) := by
    simpa using isF64_dyadic 1 (-20) (by norm_num) (by norm_num)
  have h19 : IsF64 (pow2 (-19)) := by
    simpa using isF64_dyadic 1 (-19) (by norm_num) (by norm_num)
  constructor
  · calc pow2 (-20) = fl64 (pow2 (-20)) := h20.symm
      _ ≤ fl64 (1 / 1000000) := fl64_mono (by rw [pow2_m20]; norm_num)
  · calc epsF = fl64 (1 / 1000000) := rfl
      _ ≤ fl64 (pow2 (-19)) := fl64_mono (by rw [pow2_m19]; norm_num)
      _ = pow2 (-19) := h19

/-- float64: n − 1e-6 rounds to a double in [n − 1, n) and n + 1e-6 to a double in [n, n + 1), for every count
    below 2^33 -/
theorem shiftF_bounds (n : ℕ) (hn : n < 2 ^ 33) :
    (((n : ℤ) - 1 : ℤ) : ℚ) ≤ fsub (n : ℚ) epsF ∧ fsub (n : ℚ) epsF < (n : ℚ) ∧
    (n : ℚ) ≤ fadd (n : ℚ) epsF ∧ fadd (n : ℚ) epsF < (n : ℚ) + 1 := by
  obtain ⟨hlo, hhi⟩ := epsF_bounds
  rw [pow2_m20] at hlo
  rw [pow2_m19] at hhi
  have hnz : (n : ℤ) < 2 ^ 33 := by exact_mod_cast hn
  have hn0 : (0 : ℤ) ≤ (n : ℤ) := Int.natCast_nonneg n
  have hnq : (0 : ℚ) ≤ (n : ℚ) := Nat.cast_nonneg n
  unfold fsub fadd
  refine ⟨?_, ?_, ?_, ?_⟩
  · have h1 : IsF64 ((((n : ℤ) - 1 : ℤ)) : ℚ) := isF64_int _ (by rw [abs_lt]; constructor <;> omega)
    calc ((((n : ℤ) - 1 : ℤ)) : ℚ) = fl64 ((((n : ℤ) - 1 : ℤ)) : ℚ) := h1.symm
      _ ≤ fl64 ((n : ℚ) - epsF) := fl64_mono (by push_cast; linarith)
  · have h2 : IsF64 ((((n : ℤ) * 1048576 - 1 : ℤ) : ℚ) * pow2 (-20)) :=
      isF64_dyadic _ (-20) (by rw [abs_lt]; constructor <;> omega) (by norm_num)
    calc fl64 ((n : ℚ) - epsF) ≤ fl64 ((((n : ℤ) * 1048576 - 1 : ℤ) : ℚ) * pow2 (-20)) :=
          fl64_mono (by rw [pow2_m20]; push_cast; linarith)
      _ = (((n : ℤ) * 1048576 - 1 : ℤ) : ℚ) * pow2 (-20) := h2
      _ < (n : ℚ) := by rw [pow2_m20]; push_cast; linarith
  · have h3 : IsF64 (((n : ℤ) : ℚ)) := isF64_int _ (by rw [abs_lt]; constructor <;> omega)
    calc (n : ℚ) = fl64 (((n : ℤ) : ℚ)) := by rw [h3]; simp
      _ ≤ fl64 ((n : ℚ) + epsF) := fl64_mono (by push_cast; linarith)
  · have h4 : IsF64 ((((n : ℤ) * 524288 + 1 : ℤ) : ℚ) * pow2 (-19)) :=
      isF64_dyadic _ (-19) (by rw [abs_lt]; constructor <;> omega) (by norm_num)
    calc fl64 ((n : ℚ) + epsF) ≤ fl64 ((((n : ℤ) * 524288 + 1 : ℤ) : ℚ) * pow2 (-19)) :=
          fl64_mono (by rw [pow2_m19]; push_cast; linarith)
      _ = (((n : ℤ) * 524288 + 1 : ℤ) : ℚ) * pow2 (-19) := h4
      _ < (n : ℚ) + 1 := by rw [pow2_m19]; push_cast; linarith

theorem shiftF_eq (n : ℕ) (hn : n < 2 ^ 33) : shiftF n = ((n : ℤ) - 1, (n : ℤ)) := by
  obtain ⟨a, b, c, d⟩ := shiftF_bounds n hn
  unfold shiftF
  refine Prod.ext ?_ ?_
  · show (fsub (n : ℚ) epsF).floor = (n : ℤ) - 1
    rw [floor_eq, Int.floor_eq_iff]
    constructor
    · exact a
    · push_cast at a ⊢; linarith
  · show (fadd (n : ℚ) epsF).floor = (n : ℤ)
    rw [floor_eq, Int.floor_eq_iff]
    constructor
    · exact_mod_cast c
    · exact_mod_cast d

/-! ### forecast totals -/

theorem sum_map_mul_right (l : List ℝ) (c : ℝ) : (l.map (fun x => x * c)).sum = l.sum * c := by
  induction l with
  | nil => simp
  | cons a l ih => simp [ih, add_mul]

theorem gf_eventCount (f : GF ℝ) : f.eventCount = f.base.sum * f.factor := by
  unfold GF.eventCount GF.data
  rw [RealOps.real_sum]
  simp only [RealOps.real_mul]
  exact sum_map_mul_right _ _

theorem gf_scaleAll_base (f : GF ℝ) (vs : List ℝ) : (f.scaleAll vs).base = f.base := by
  unfold GF.scaleAll
  induction vs generalizing f with
  | nil => rfl
  | cons v vs ih => simp only [List.foldl_cons]; rw [ih]; rfl

theorem gf_scaleAll_factor (f : GF ℝ) (vs : List ℝ) : (f.scaleAll vs).factor = (vs.getLast?).getD f.factor := by
  unfold GF.scaleAll
  induction vs generalizing f with
  | nil => rfl
  | cons v vs ih =>
    simp only [List.foldl_cons]; rw [ih]
    cases vs with
    | nil => rfl
    | cons w ws =>
      rw [List.getLast?_cons_cons]
      cases h : (w :: ws).getLast? with
      | none => simp at h
      | some x => rfl

theorem epsCode_real : (epsCode : ℝ) = 1 / 1000000 := by
  simp [epsCode]

end NumberTest
