import PycsepVerif.Model.PairedTests
import PycsepVerif.Proofs.RealInst
import Mathlib.Tactic.Ring
import Mathlib.Tactic.Linarith
import Mathlib.Tactic.FieldSimp
import Mathlib.Algebra.BigOperators.Group.List.Basic
import Mathlib.Algebra.Order.Field.Rat

/-! Helper lemmas for C08. -/
namespace PairedTests

/-! ### T-test over ℝ -/

theorem logDiffs_swap (rA rB : List ℝ) : logDiffs rB rA = (logDiffs rA rB).map (fun x => -x) := by
  unfold logDiffs
  induction rA generalizing rB with
  | nil => cases rB <;> simp
  | cons a rA ih =>
    cases rB with
    | nil => simp
    | cons b rB =>
      simp only [List.zipWith_cons_cons, List.map_cons, ih rB]
      congr 1; simp only [RealOps.real_sub, RealOps.real_log]; ring

theorem sum_map_neg (l : List ℝ) : (l.map (fun x => -x)).sum = -l.sum := by
  induction l with
  | nil => simp
  | cons a l ih => simp [ih]; ring

theorem map_sq_map_neg (l : List ℝ) : (l.map (fun x => -x)).map sq = l.map sq := by
  simp [sq, Function.comp_def]

theorem logDiffs_self (r : List ℝ) : ∀ x ∈ logDiffs r r, x = 0 := by
  unfold logDiffs
  induction r with
  | nil => simp
  | cons a r ih =>
    intro x hx
    simp only [List.zipWith_cons_cons, List.mem_cons] at hx
    rcases hx with rfl | h
    · simp
    · exact ih x h

theorem sum_eq_zero_of_all_zero (l : List ℝ) (h : ∀ x ∈ l, x = 0) : l.sum = 0 := by
  induction l with
  | nil => rfl
  | cons a l ih =>
    simp only [List.sum_cons]
    rw [h a (by simp), ih (fun x hx => h x (by simp [hx]))]; simp

/-- Σ (x − m)² = Σ x² − 2 m Σ x + n m² -/
theorem sum_sq_dev (l : List ℝ) (m : ℝ) :
    (l.map (fun x => (x - m) ^ 2)).sum = (l.map sq).sum - 2 * m * l.sum + l.length * m ^ 2 := by
  induction l with
  | nil => simp
  | cons a l ih =>
    simp only [List.map_cons, List.sum_cons, List.length_cons, ih, sq, RealOps.real_mul]; push_cast; ring

end PairedTests

namespace PairedTests

/-! ### W-test, exact layer: ranks -/

/-- twice the rank minus one -/
def f2 (l : List Rat) (a : Rat) : Nat :=
  2 * l.countP (fun b => decide (b < a)) + l.countP (fun b => decide (b = a))

theorem rank2_eq (l : List Rat) (a : Rat) : rank2 l a = f2 l a + 1 := rfl

theorem countP_tricho (l : List Rat) (x : Rat) :
    l.countP (fun b => decide (b < x)) + l.countP (fun b => decide (b = x)) + l.countP (fun b => decide (x < b))
      = l.length := by
  induction l with
  | nil => rfl
  | cons a l ih =>
    simp only [List.countP_cons, List.length_cons]
    rcases lt_trichotomy a x with h | h | h
    · have h2 : ¬ a = x := ne_of_lt h
      have h3 : ¬ x < a := not_lt.mpr h.le
      simp [h, h2, h3]; omega
    · subst h; simp; omega
    · have h2 : ¬ a = x := ne_of_gt h
      have h3 : ¬ a < x := not_lt.mpr h.le
      simp [h, h2, h3]; omega

theorem sum_f2_cons (x : Rat) (t s : List Rat) :
    (s.map (f2 (x :: t))).sum
      = (s.map (f2 t)).sum + 2 * s.countP (fun a => decide (x < a)) + s.countP (fun a => decide (x = a)) := by
  induction s with
  | nil => simp
  | cons a s ih =>
    simp only [List.map_cons, List.sum_cons, ih, List.countP_cons]
    have : f2 (x :: t) a = f2 t a + 2 * (if x < a then 1 else 0) + (if x = a then 1 else 0) := by
      unfold f2; simp only [List.countP_cons, decide_eq_true_eq]; ring
    rw [this]
    by_cases h1 : x < a <;> by_cases h2 : x = a <;> simp [h1, h2] <;> omega

theorem sum_f2 (l : List Rat) : (l.map (f2 l)).sum = l.length * l.length := by
  induction l with
  | nil => rfl
  | cons x t ih =>
    simp only [List.map_cons, List.sum_cons, sum_f2_cons x t t, ih, List.length_cons]
    have hx : f2 (x :: t) x = 2 * t.countP (fun b => decide (b < x)) + t.countP (fun b => decide (b = x)) + 1 := by
      unfold f2; simp; ring
    have hcomm : t.countP (fun a => decide (x = a)) = t.countP (fun b => decide (b = x)) := by
      congr 1; funext a; simp [eq_comm]
    have hL := countP_tricho t x
    rw [hx, hcomm, ← hL]; ring

theorem sum_map_succ {β : Type} (l : List β) (g : β → Nat) : (l.map (fun a => g a + 1)).sum = (l.map g).sum + l.length := by
  induction l with
  | nil => rfl
  | cons a l ih => simp only [List.map_cons, List.sum_cons, ih, List.length_cons]; omega

/-- the 'average' ranks of any list (ties included) sum to c(c+1)/2; here doubled -/
theorem sum_rank2 (l : List Rat) : (l.map (rank2 l)).sum = l.length * (l.length + 1) := by
  have : (l.map (rank2 l)) = l.map (fun a => f2 l a + 1) := by simp [rank2_eq]
  rw [this, sum_map_succ, sum_f2]; ring

theorem absQ_neg (a : Rat) : absQ (-a) = absQ a := by
  unfold absQ
  rcases lt_trichotomy a 0 with h | h | h
  · have : ¬ -a < 0 := by linarith
    simp [h, this]
  · subst h; simp
  · have h1 : -a < 0 := by linarith
    have h2 : ¬ a < 0 := by linarith
    simp [h1, h2]

theorem map_absQ_map_neg (d : List Rat) : (d.map (fun a => -a)).map absQ = d.map absQ := by
  simp [Function.comp_def, absQ_neg]

theorem removeZeros_map_neg (d : List Rat) : removeZeros (d.map (fun a => -a)) = (removeZeros d).map (fun a => -a) := by
  unfold removeZeros
  induction d with
  | nil => rfl
  | cons a d ih =>
    simp only [List.map_cons, List.filter_cons, ih]
    by_cases h : a = 0
    · subst h; simp
    · have : -a ≠ 0 := neg_ne_zero.mpr h
      simp [h, this]

theorem rPlus2_map_neg (d : List Rat) : rPlus2 (d.map (fun a => -a)) = rMinus2 d := by
  unfold rPlus2 rMinus2
  simp only [List.map_map, Function.comp_def, absQ_neg, Left.neg_pos_iff]

theorem rMinus2_map_neg (d : List Rat) : rMinus2 (d.map (fun a => -a)) = rPlus2 d := by
  unfold rPlus2 rMinus2
  simp only [List.map_map, Function.comp_def, absQ_neg, Left.neg_neg_iff]

theorem sum_map_add_nat {β : Type} (l : List β) (g h : β → Nat) :
    (l.map (fun a => g a + h a)).sum = (l.map g).sum + (l.map h).sum := by
  induction l with
  | nil => rfl
  | cons a l ih => simp only [List.map_cons, List.sum_cons, ih]; omega

theorem rPlus2_add_rMinus2 (d : List Rat) (hd : ∀ a ∈ d, a ≠ 0) :
    rPlus2 d + rMinus2 d = d.length * (d.length + 1) := by
  have h := sum_rank2 (d.map absQ)
  rw [List.map_map, List.length_map] at h
  unfold rPlus2 rMinus2
  rw [← sum_map_add_nat, ← h]
  congr 1
  apply List.map_congr_left
  intro a ha
  rcases lt_trichotomy a 0 with h0 | h0 | h0
  · have : ¬ 0 < a := by linarith
    simp [h0, this]
  · exact absurd h0 (hd a ha)
  · have : ¬ a < 0 := by linarith
    simp [h0, this]

theorem mem_removeZeros {d : List Rat} : ∀ a ∈ removeZeros d, a ≠ 0 := by
  intro a ha; unfold removeZeros at ha; simpa using (List.mem_filter.mp ha).2

end PairedTests
