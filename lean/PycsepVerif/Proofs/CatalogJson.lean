import PycsepVerif.Model.CatalogJson
import Mathlib.Tactic.IntervalCases
/-! # `json.loads(json.dumps(s)) == s` for ASCII strings, at character level -/
namespace CatalogJson

set_option maxRecDepth 100000 in
/-- one encoded ASCII character in front of anything decodes to that character in front of the rest -/
theorem decodeBody_escChar_ofNat : ∀ n, n < 128 → ∀ rest : Str,
    decodeBody (escChar (Char.ofNat n) ++ rest) = (decodeBody rest).map (Char.ofNat n :: ·) := by
  intro n hn
  interval_cases n <;> intro rest <;> rfl

theorem decodeBody_escChar (c : Char) (hc : c.toNat < 128) (rest : Str) :
    decodeBody (escChar c ++ rest) = (decodeBody rest).map (c :: ·) := by
  have := decodeBody_escChar_ofNat c.toNat hc rest
  rwa [Char.ofNat_toNat] at this

theorem decodeBody_encode (s : Str) (hs : ∀ c ∈ s, c.toNat < 128) :
    decodeBody (s.flatMap escChar ++ ['"']) = some s := by
  induction s with
  | nil => rfl
  | cons c cs ih =>
    simp only [List.flatMap_cons, List.append_assoc]
    rw [decodeBody_escChar c (hs c (by simp)), ih (fun x hx => hs x (List.mem_cons_of_mem _ hx))]
    rfl

end CatalogJson
