import PycsepVerif.Model.ReaderText
import Mathlib.Tactic.Ring
import Mathlib.Tactic.Linarith

/-! Helper lemmas for the text-level reader model (`Model/ReaderText.lean`): line splitting, grouping, fixed columns,
digit strings. -/
namespace ReaderText

/-! ### line splitting -/

theorem normNl_cons_ne (c : Char) (cs : Str) (h : c ≠ '\r') : normNl (c :: cs) = c :: normNl cs := by
  simp [normNl, normNlAux, h]

theorem normNl_crlf (rest : Str) : normNl ('\r' :: '\n' :: rest) = '\n' :: normNl rest := by
  simp [normNl, normNlAux]

theorem normNl_id (s : Str) (h : '\r' ∉ s) : normNl s = s := by
  induction s with
  | nil => rfl
  | cons c cs ih =>
    have hc : c ≠ '\r' := fun e => h (by simp [e])
    have hcs : '\r' ∉ cs := fun e => h (List.mem_cons_of_mem _ e)
    rw [normNl_cons_ne c cs hc, ih hcs]

/-- a line without "\r", followed by "\r\n" or by "\n": universal newlines give the same characters -/
theorem normNl_line_crlf (l rest : Str) (h : '\r' ∉ l) :
    normNl (l ++ '\r' :: '\n' :: rest) = l ++ '\n' :: normNl rest := by
  induction l with
  | nil => simp [normNl_crlf]
  | cons c cs ih =>
    have hc : c ≠ '\r' := fun e => h (by simp [e])
    have hcs : '\r' ∉ cs := fun e => h (List.mem_cons_of_mem _ e)
    simp only [List.cons_append, normNl_cons_ne _ _ hc, ih hcs]

theorem normNl_line_lf (l rest : Str) (h : '\r' ∉ l) :
    normNl (l ++ '\n' :: rest) = l ++ '\n' :: normNl rest := by
  induction l with
  | nil => simp [normNl_cons_ne]
  | cons c cs ih =>
    have hc : c ≠ '\r' := fun e => h (by simp [e])
    have hcs : '\r' ∉ cs := fun e => h (List.mem_cons_of_mem _ e)
    simp only [List.cons_append, normNl_cons_ne _ _ hc, ih hcs]

theorem linesAux_line (cur l rest : Str) (h : '\n' ∉ l) :
    linesAux cur (l ++ '\n' :: rest) = (cur.reverse ++ l) :: linesAux [] rest := by
  induction l generalizing cur with
  | nil => simp [linesAux]
  | cons c cs ih =>
    have hc : c ≠ '\n' := fun e => h (by simp [e])
    have hcs : '\n' ∉ cs := fun e => h (List.mem_cons_of_mem _ e)
    simp only [List.cons_append, linesAux, beq_iff_eq, hc, if_false]
    rw [ih (c :: cur) hcs]
    simp

theorem linesAux_last (cur l : Str) (h : '\n' ∉ l) (hne : l ≠ []) :
    linesAux cur l = [cur.reverse ++ l] := by
  induction l generalizing cur with
  | nil => exact absurd rfl hne
  | cons c cs ih =>
    have hc : c ≠ '\n' := fun e => h (by simp [e])
    have hcs : '\n' ∉ cs := fun e => h (List.mem_cons_of_mem _ e)
    simp only [linesAux, beq_iff_eq, hc, if_false]
    cases cs with
    | nil => simp [linesAux]
    | cons d ds =>
      rw [ih (c :: cur) hcs (by simp)]
      simp

/-- the text of a list of lines, every line ended by `eol` -/
def joinLines (eol : Str) (ls : List Str) : Str := ls.flatMap (fun l => l ++ eol)

def cleanLine (l : Str) : Prop := '\n' ∉ l ∧ '\r' ∉ l

theorem lines_joinLines_lf (ls : List Str) (h : ∀ l ∈ ls, cleanLine l) : lines (joinLines ['\n'] ls) = ls := by
  unfold lines
  induction ls with
  | nil => simp [joinLines, normNl, normNlAux, linesAux]
  | cons l ls ih =>
    have hl := h l (by simp)
    have hls : ∀ l ∈ ls, cleanLine l := fun x hx => h x (List.mem_cons_of_mem _ hx)
    simp only [joinLines, List.flatMap_cons, List.append_assoc, List.singleton_append] at ih ⊢
    rw [normNl_line_lf l _ hl.2, linesAux_line [] l _ hl.1]
    simp only [List.reverse_nil, List.nil_append]
    exact congrArg _ (ih hls)

theorem lines_joinLines_crlf (ls : List Str) (h : ∀ l ∈ ls, cleanLine l) :
    lines (joinLines ['\r', '\n'] ls) = ls := by
  unfold lines
  induction ls with
  | nil => simp [joinLines, normNl, normNlAux, linesAux]
  | cons l ls ih =>
    have hl := h l (by simp)
    have hls : ∀ l ∈ ls, cleanLine l := fun x hx => h x (List.mem_cons_of_mem _ hx)
    simp only [joinLines, List.flatMap_cons, List.append_assoc, List.cons_append, List.nil_append] at ih ⊢
    rw [normNl_line_crlf l _ hl.2, linesAux_line [] l _ hl.1]
    simp only [List.reverse_nil, List.nil_append]
    exact congrArg _ (ih hls)

/-- the last line without a line end (and not empty) is still a line -/
theorem lines_joinLines_nofinal (ls : List Str) (last : Str) (h : ∀ l ∈ ls, cleanLine l) (hl : cleanLine last)
    (hne : last ≠ []) : lines (joinLines ['\n'] ls ++ last) = ls ++ [last] := by
  unfold lines
  induction ls with
  | nil =>
    simp only [joinLines, List.flatMap_nil, List.nil_append]
    rw [normNl_id last hl.2, linesAux_last [] last hl.1 hne]; simp
  | cons l ls ih =>
    have hl' := h l (by simp)
    have hls : ∀ l ∈ ls, cleanLine l := fun x hx => h x (List.mem_cons_of_mem _ hx)
    simp only [joinLines, List.flatMap_cons, List.append_assoc, List.singleton_append, List.cons_append] at ih ⊢
    rw [normNl_line_lf l _ hl'.2, linesAux_line [] l _ hl'.1]
    simp only [List.reverse_nil, List.nil_append]
    exact congrArg _ (ih hls)

/-! ### groups of five -/

abbrev Block := Str × Str × Str × Str × Str

def blockLines (b : Block) : List Str := [b.1, b.2.1, b.2.2.1, b.2.2.2.1, b.2.2.2.2]

theorem groups5_blocks (bs : List Block) (tail : List Str) (ht : tail.length < 5) :
    groups5 (bs.flatMap blockLines ++ tail) = bs := by
  induction bs with
  | nil =>
    simp only [List.flatMap_nil, List.nil_append]
    match tail, ht with
    | [], _ => rfl
    | [_], _ => rfl
    | [_, _], _ => rfl
    | [_, _, _], _ => rfl
    | [_, _, _, _], _ => rfl
    | _ :: _ :: _ :: _ :: _ :: _, h => simp at h; omega
  | cons b bs ih =>
    obtain ⟨a, b2, c, d, e⟩ := b
    simp only [List.flatMap_cons, blockLines, List.cons_append, List.nil_append, groups5, ih]

/-! ### fixed columns -/

theorem pySlice_field (a b : Nat) (pre f post : Str) (ha : pre.length = a) (hf : f.length = b - a) :
    pySlice a b (pre ++ f ++ post) = f := by
  unfold pySlice
  rw [List.append_assoc, List.drop_append_of_le_length (by omega), ← ha, List.drop_length, List.nil_append,
      ha, ← hf, List.take_left']
  rfl

/-! ### digit strings -/

def digitChar (d : Nat) : Char := Char.ofNat (48 + d)

/-- `k` decimal digits of `n`, most significant first, zero padded (`%0kd`) -/
def renderNat : Nat → Nat → Str
  | 0, _ => []
  | k + 1, n => renderNat k (n / 10) ++ [digitChar (n % 10)]

theorem digitVal_digitChar : ∀ d, d < 10 → digitVal (digitChar d) = d := by decide

theorem isDigit_digitChar : ∀ d, d < 10 → (digitChar d).isDigit = true := by decide

theorem natOfDigits_snoc (ds : Str) (c : Char) : natOfDigits (ds ++ [c]) = 10 * natOfDigits ds + digitVal c := by
  simp [natOfDigits, List.foldl_append]

theorem natOfDigits_renderNat (k n : Nat) (h : n < 10 ^ k) : natOfDigits (renderNat k n) = n := by
  induction k generalizing n with
  | zero => simp at h; subst h; rfl
  | succ k ih =>
    have h1 : n / 10 < 10 ^ k := by
      rw [Nat.div_lt_iff_lt_mul (by norm_num)]; rw [pow_succ] at h; exact h
    rw [renderNat, natOfDigits_snoc, ih _ h1, digitVal_digitChar _ (Nat.mod_lt _ (by norm_num))]
    omega

theorem renderNat_length (k n : Nat) : (renderNat k n).length = k := by
  induction k generalizing n with
  | zero => rfl
  | succ k ih => simp [renderNat, ih]

theorem renderNat_digits (k n : Nat) : ∀ c ∈ renderNat k n, c.isDigit = true := by
  induction k generalizing n with
  | zero => simp [renderNat]
  | succ k ih =>
    intro c hc
    simp only [renderNat, List.mem_append, List.mem_singleton] at hc
    rcases hc with hc | hc
    · exact ih _ c hc
    · rw [hc]; exact isDigit_digitChar _ (Nat.mod_lt _ (by norm_num))

/-- a run of digits followed by a non-digit (or by the end of the text) is what `span` cuts off -/
theorem span_digits (ds rest : Str) (hd : ∀ c ∈ ds, c.isDigit = true) (hr : ∀ c ∈ rest.head?, c.isDigit = false) :
    spanP Char.isDigit (ds ++ rest) = (ds, rest) := by
  induction ds with
  | nil =>
    cases rest with
    | nil => rfl
    | cons c cs =>
      have : c.isDigit = false := hr c (by simp)
      simp [spanP, this]
  | cons d ds ih =>
    have hd' : ∀ c ∈ ds, c.isDigit = true := fun c hc => hd c (List.mem_cons_of_mem _ hc)
    have h0 : d.isDigit = true := hd d (by simp)
    simp [spanP, h0, ih hd']

theorem takeNum_render (lo hi k n : Nat) (rest : Str) (hk : lo ≤ k ∧ k ≤ hi) (hn : n < 10 ^ k)
    (hr : ∀ c ∈ rest.head?, c.isDigit = false) :
    takeNum lo hi (renderNat k n ++ rest) = some (n, rest) := by
  unfold takeNum
  rw [span_digits _ _ (renderNat_digits k n) hr]
  simp [renderNat_length, natOfDigits_renderNat k n hn, hk.1, hk.2]

theorem head_not_digit (c : Char) (h : c.isDigit = false) (t : Str) : ∀ x ∈ (c :: t).head?, x.isDigit = false := by
  intro x hx; simp at hx; rw [← hx]; exact h

end ReaderText
