import PycsepVerif.Model.Time
import PycsepVerif.Proofs.Civil

/-! calendar lemmas for the decimal year (exact layer; no Mathlib) -/
namespace Time

/-- day number of 1 January of year `y` -/
def yearStartDay (y : Int) : Int := daysFromCivil y 1 1

/-- number of days of year `y` -/
def yearLen (y : Int) : Int := if isLeap y then 366 else 365

theorem isLeap_iff (y : Int) : isLeap y = true ↔ (y % 4 = 0 ∧ (y % 100 ≠ 0 ∨ y % 400 = 0)) := by
  simp [isLeap]

theorem yearStartDay_closed (y : Int) :
    yearStartDay y = 365 * (y - 1) + (y - 1) / 4 - (y - 1) / 100 + (y - 1) / 400 - 719162 := by
  unfold yearStartDay daysFromCivil
  simp only [show (1 : Int) ≤ 2 from by decide, if_true, show ¬ ((1 : Int) > 2) from by decide, if_false]
  omega

theorem yearStartDay_succ (y : Int) : yearStartDay (y + 1) = yearStartDay y + yearLen y := by
  rw [yearStartDay_closed, yearStartDay_closed]
  have e : y + 1 - 1 = y := by omega
  rw [e]
  unfold yearLen
  have a4 : y % 4 = 0 → y / 4 = (y - 1) / 4 + 1 := by omega
  have b4 : y % 4 ≠ 0 → y / 4 = (y - 1) / 4 := by omega
  have a100 : y % 100 = 0 → y / 100 = (y - 1) / 100 + 1 := by omega
  have b100 : y % 100 ≠ 0 → y / 100 = (y - 1) / 100 := by omega
  have a400 : y % 400 = 0 → y / 400 = (y - 1) / 400 + 1 := by omega
  have b400 : y % 400 ≠ 0 → y / 400 = (y - 1) / 400 := by omega
  have c1 : y % 400 = 0 → y % 100 = 0 := by omega
  have c2 : y % 100 = 0 → y % 4 = 0 := by omega
  by_cases h : isLeap y = true
  · have h' := (isLeap_iff y).mp h
    simp only [h, if_true]
    rcases h' with ⟨h4, h100 | h400⟩
    · have := a4 h4; have := b100 h100; have := b400 (fun hh => h100 (c1 hh)); omega
    · have := a4 h4; have := a100 (c1 h400); have := a400 h400; omega
  · have h' := fun c => h ((isLeap_iff y).mpr c)
    simp only [h, Bool.false_eq_true, if_false]
    by_cases h4 : y % 4 = 0
    · have h100 : y % 100 = 0 := by
        by_cases hh : y % 100 = 0; exact hh; exact absurd ⟨h4, Or.inl hh⟩ h'
      have h400 : y % 400 ≠ 0 := fun hh => h' ⟨h4, Or.inr hh⟩
      have := a4 h4; have := a100 h100; have := b400 h400; omega
    · have := b4 h4; have := b100 (fun hh => h4 (c2 hh)); have := b400 (fun hh => h4 (c2 (c1 hh))); omega

/-- years are 365 or 366 days long: bounds on the distance of two year starts -/
theorem yearStartDay_bounds (y1 y2 : Int) (h : y1 ≤ y2) :
    yearStartDay y1 + 365 * (y2 - y1) ≤ yearStartDay y2 ∧ yearStartDay y2 ≤ yearStartDay y1 + 366 * (y2 - y1) := by
  rw [yearStartDay_closed, yearStartDay_closed]
  constructor <;> omega

theorem daysFromCivil_march (y m d : Int) (h : 3 ≤ m) :
    daysFromCivil y m d = yearStartDay (y + 1) - 306 + (153 * (m - 3) + 2) / 5 + d - 1 := by
  rw [yearStartDay_closed]
  have e : y + 1 - 1 = y := by omega
  rw [e]
  unfold daysFromCivil
  have h1 : ¬ (m ≤ 2) := by omega
  have h2 : m > 2 := by omega
  simp only [h1, h2, if_true, if_false]
  omega

theorem daysFromCivil_janfeb (y m d : Int) (h : m ≤ 2) :
    daysFromCivil y m d = yearStartDay y - 306 + (153 * (m + 9) + 2) / 5 + d - 1 := by
  rw [yearStartDay_closed]
  unfold daysFromCivil
  have h2 : ¬ (m > 2) := by omega
  simp only [h, h2, if_true, if_false]
  omega

theorem daysBeforeMonth_val (y : Int) :
    daysBeforeMonth y 1 = 0 ∧ daysBeforeMonth y 2 = 31 ∧ daysBeforeMonth y 3 = yearLen y - 306
    ∧ daysBeforeMonth y 4 = yearLen y - 275 ∧ daysBeforeMonth y 5 = yearLen y - 245
    ∧ daysBeforeMonth y 6 = yearLen y - 214 ∧ daysBeforeMonth y 7 = yearLen y - 184
    ∧ daysBeforeMonth y 8 = yearLen y - 153 ∧ daysBeforeMonth y 9 = yearLen y - 122
    ∧ daysBeforeMonth y 10 = yearLen y - 92 ∧ daysBeforeMonth y 11 = yearLen y - 61
    ∧ daysBeforeMonth y 12 = yearLen y - 31 := by
  unfold yearLen
  by_cases h : isLeap y = true <;>
  simp [daysBeforeMonth, daysInMonth, List.range_succ, h]

/-- the day number of a date is the year start plus the days of the preceding months plus day − 1 -/
theorem daysFromCivil_eq (y m d : Int) (h1 : 1 ≤ m) (h2 : m ≤ 12) :
    daysFromCivil y m d = yearStartDay y + daysBeforeMonth y m + d - 1 := by
  obtain ⟨v1, v2, v3, v4, v5, v6, v7, v8, v9, v10, v11, v12⟩ := daysBeforeMonth_val y
  have hs := yearStartDay_succ y
  have hcases : m = 1 ∨ m = 2 ∨ m = 3 ∨ m = 4 ∨ m = 5 ∨ m = 6 ∨ m = 7 ∨ m = 8 ∨ m = 9 ∨ m = 10 ∨ m = 11 ∨ m = 12 := by
    omega
  rcases hcases with rfl | rfl | rfl | rfl | rfl | rfl | rfl | rfl | rfl | rfl | rfl | rfl
  · rw [daysFromCivil_janfeb y 1 d (by decide), v1]; omega
  · rw [daysFromCivil_janfeb y 2 d (by decide), v2]; omega
  · rw [daysFromCivil_march y 3 d (by decide), v3, hs]; omega
  · rw [daysFromCivil_march y 4 d (by decide), v4, hs]; omega
  · rw [daysFromCivil_march y 5 d (by decide), v5, hs]; omega
  · rw [daysFromCivil_march y 6 d (by decide), v6, hs]; omega
  · rw [daysFromCivil_march y 7 d (by decide), v7, hs]; omega
  · rw [daysFromCivil_march y 8 d (by decide), v8, hs]; omega
  · rw [daysFromCivil_march y 9 d (by decide), v9, hs]; omega
  · rw [daysFromCivil_march y 10 d (by decide), v10, hs]; omega
  · rw [daysFromCivil_march y 11 d (by decide), v11, hs]; omega
  · rw [daysFromCivil_march y 12 d (by decide), v12, hs]; omega

theorem yearLen_cases (y : Int) : yearLen y = 365 ∨ yearLen y = 366 := by
  unfold yearLen; split <;> simp

theorem daysInMonth_val (y : Int) :
    daysInMonth y 1 = 31 ∧ daysInMonth y 2 = yearLen y - 337 ∧ daysInMonth y 3 = 31 ∧ daysInMonth y 4 = 30
    ∧ daysInMonth y 5 = 31 ∧ daysInMonth y 6 = 30 ∧ daysInMonth y 7 = 31 ∧ daysInMonth y 8 = 31
    ∧ daysInMonth y 9 = 30 ∧ daysInMonth y 10 = 31 ∧ daysInMonth y 11 = 30 ∧ daysInMonth y 12 = 31 := by
  unfold yearLen
  by_cases h : isLeap y = true <;> simp [daysInMonth, h]

/-- days of the preceding months plus the month's length never exceed the year -/
theorem dayOfYear_lt (y m d : Int) (hv : validDate y m d = true) :
    0 ≤ daysBeforeMonth y m + d - 1 ∧ daysBeforeMonth y m + d - 1 < yearLen y := by
  simp only [validDate, Bool.and_eq_true, decide_eq_true_eq] at hv
  obtain ⟨⟨⟨h1, h2⟩, h3⟩, h4⟩ := hv
  have hl := yearLen_cases y
  have hcases : m = 1 ∨ m = 2 ∨ m = 3 ∨ m = 4 ∨ m = 5 ∨ m = 6 ∨ m = 7 ∨ m = 8 ∨ m = 9 ∨ m = 10 ∨ m = 11 ∨ m = 12 := by
    omega
  clear h1 h2
  rcases hcases with rfl | rfl | rfl | rfl | rfl | rfl | rfl | rfl | rfl | rfl | rfl | rfl
  · have v := (daysBeforeMonth_val y).1
    have w := (daysInMonth_val y).1
    rw [w] at h4; rw [v]; omega
  · have v := (daysBeforeMonth_val y).2.1
    have w := (daysInMonth_val y).2.1
    rw [w] at h4; rw [v]; omega
  · have v := (daysBeforeMonth_val y).2.2.1
    have w := (daysInMonth_val y).2.2.1
    rw [w] at h4; rw [v]; omega
  · have v := (daysBeforeMonth_val y).2.2.2.1
    have w := (daysInMonth_val y).2.2.2.1
    rw [w] at h4; rw [v]; omega
  · have v := (daysBeforeMonth_val y).2.2.2.2.1
    have w := (daysInMonth_val y).2.2.2.2.1
    rw [w] at h4; rw [v]; omega
  · have v := (daysBeforeMonth_val y).2.2.2.2.2.1
    have w := (daysInMonth_val y).2.2.2.2.2.1
    rw [w] at h4; rw [v]; omega
  · have v := (daysBeforeMonth_val y).2.2.2.2.2.2.1
    have w := (daysInMonth_val y).2.2.2.2.2.2.1
    rw [w] at h4; rw [v]; omega
  · have v := (daysBeforeMonth_val y).2.2.2.2.2.2.2.1
    have w := (daysInMonth_val y).2.2.2.2.2.2.2.1
    rw [w] at h4; rw [v]; omega
  · have v := (daysBeforeMonth_val y).2.2.2.2.2.2.2.2.1
    have w := (daysInMonth_val y).2.2.2.2.2.2.2.2.1
    rw [w] at h4; rw [v]; omega
  · have v := (daysBeforeMonth_val y).2.2.2.2.2.2.2.2.2.1
    have w := (daysInMonth_val y).2.2.2.2.2.2.2.2.2.1
    rw [w] at h4; rw [v]; omega
  · have v := (daysBeforeMonth_val y).2.2.2.2.2.2.2.2.2.2.1
    have w := (daysInMonth_val y).2.2.2.2.2.2.2.2.2.2.1
    rw [w] at h4; rw [v]; omega
  · have v := (daysBeforeMonth_val y).2.2.2.2.2.2.2.2.2.2.2
    have w := (daysInMonth_val y).2.2.2.2.2.2.2.2.2.2.2
    rw [w] at h4; rw [v]; omega

/-- year start in microseconds -/
def yearStartUs (y : Int) : Int := yearStartDay y * usPerDay

/-- **the year of an instant**: `yearStartUs y ≤ us < yearStartUs (y + 1)` for `y = (fields us).year`, and the
    position within the year is what `decimal_year` adds up from the fields. -/
theorem year_bracket (us : Int) :
    yearStartUs (fields us).year ≤ us ∧ us < yearStartUs ((fields us).year + 1)
    ∧ us / usPerDay - yearStartDay (fields us).year
        = daysBeforeMonth (fields us).year (fields us).month + ((fields us).day - 1) := by
  have hd := days_of_civil (us / usPerDay)
  have hv := civil_valid (us / usPerDay)
  have hv' := hv
  simp only [validDate, Bool.and_eq_true, decide_eq_true_eq] at hv'
  obtain ⟨⟨⟨h1, h2⟩, _⟩, _⟩ := hv'
  have heq := daysFromCivil_eq _ _ _ h1 h2 ▸ hd
  have hlt := dayOfYear_lt _ _ _ hv
  have hs := yearStartDay_succ (civilFromDays (us / usPerDay)).1
  simp only [fields, yearStartUs]
  simp only [usPerDay] at *
  refine ⟨?_, ?_, ?_⟩ <;> omega

theorem year_unique (us Y : Int) (h0 : yearStartUs Y ≤ us) (h1 : us < yearStartUs (Y + 1)) :
    (fields us).year = Y := by
  obtain ⟨b0, b1, _⟩ := year_bracket us
  generalize (fields us).year = y at *
  simp only [yearStartUs, usPerDay] at *
  by_cases hlt : y < Y
  · have := (yearStartDay_bounds (y + 1) Y (by omega)).1; omega
  · by_cases hgt : Y < y
    · have := (yearStartDay_bounds (Y + 1) y (by omega)).1; omega
    · omega

end Time
