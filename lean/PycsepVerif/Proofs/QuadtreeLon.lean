import PycsepVerif.Soft64
import PycsepVerif.Model.Quadtree

/-! Float layer of C17: mercantile's longitude edges are computed without rounding error (kernel evaluation over all
    tile columns of zoom ≤ 10, on the Soft64 model of binary64). Separate file: about one minute of kernel time. -/
namespace Quadtree
open Soft64

/-- mercantile.bounds west/east edge in binary64: `xtile / Z2 * 360.0 - 180.0` -/
def lonFloat (X z : Nat) : Rat := fsub (fmul (fdiv (X : Rat) ((2 ^ z : Nat) : Rat)) 360) 180

def lonExactUpTo (zmax : Nat) : Bool :=
  (List.range (zmax + 1)).all fun z => (List.range (2 ^ z + 1)).all fun X =>
    lonFloat X z == lonOf ((X : Rat) / ((2 ^ z : Nat) : Rat))

set_option maxRecDepth 100000 in
theorem lonExactUpTo_10 : lonExactUpTo 10 = true := by decide +kernel

end Quadtree
