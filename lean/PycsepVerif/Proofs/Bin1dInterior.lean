import PycsepVerif.Proofs.Bin1d
/-!
# `bin1d_vec` is exact in the middle half of every cell

For the default float64 configuration, a point `p` with `a0 + (i + 1/4)·h ≤ p ≤ a0 + (i + 3/4)·h` (`a0` the first
edge, `h` the FLOAT step `bins[1] − bins[0]`), below the next edge and below the upper side, is put into bin `i`:
the tolerances `|a0|·ε`, `|p|·ε` (at most `h/2^20` each) and the five roundings move the quotient by less than 1/4
for every `i ≤ 2^16`. This is the "safe" direction that C02 leaves to the oracle, for interior points.
-/
namespace Bin1d
open Soft64

private theorem fl64_pow2_m1022 : fl64 (pow2 (-1022)) = pow2 (-1022) := by
  have := Soft64R.fl64_exact (m := 1) (j := -1022) (by norm_num) (by norm_num)
  simpa using this

private theorem pow2_m1000_ge : 2 ^ 20 * pow2 (-1022) ≤ pow2 (-1000) := by
  rw [Soft64R.pow2_eq_zpow, Soft64R.pow2_eq_zpow]
  have : (2 : ℚ) ^ (-1000 : ℤ) = 2 ^ (22 : ℤ) * 2 ^ (-1022 : ℤ) := by
    rw [← zpow_add₀ (by norm_num : (2 : ℚ) ≠ 0)]; norm_num
  rw [this]
  have hp : (0 : ℚ) < 2 ^ (-1022 : ℤ) := zpow_pos (by norm_num) _
  have : (2 : ℚ) ^ (22 : ℤ) = 2 ^ 22 := by norm_cast
  rw [this]
  nlinarith

private theorem pow2_m30 : pow2 (-30) = 1 / 2 ^ 30 := by rw [Soft64R.pow2_eq_zpow]; norm_num [zpow_neg]

/-- the quotient written out, for `n > 1` -/
theorem qF_eq {n : ℕ} (hn : 1 < n) (edge : ℕ → ℚ) (p : ℚ) :
    qF n edge p = fl64 (fl64 (fl64 (fl64 (p - edge 0) + getTol .f64 p) + getTol .f64 (edge 0))
      / fl64 (hOf .f64 n edge - getTol .f64 (edge 0))) := by
  have hn1 : (n == 1) = false := by simp; omega
  unfold qF
  rw [quotF_cfg64, denOf_f64 n edge hn]
  simp only [getTol, DT.rnd, DT.eps, hOf, hn1]
  rfl

/-- lower bound with a quarter-cell margin: `p ≥ a0 + (K + 1/4)·h` ⟹ `K ≤ q` -/
theorem qF_lower_quarter {n : ℕ} (hn : 1 < n) (edge : ℕ → ℚ) (p : ℚ) (K : ℤ) (hK0 : 0 ≤ K) (hK : K ≤ 2 ^ 40)
    (hh : pow2 (-1000) ≤ hOf .f64 n edge)
    (hat : getTol .f64 (edge 0) ≤ hOf .f64 n edge / 4)
    (hp : edge 0 + ((K : ℚ) + 1 / 4) * hOf .f64 n edge ≤ p) :
    (K : ℚ) ≤ qF n edge p := by
  have hn1 : (n == 1) = false := by simp; omega
  rw [qF_eq hn]
  set h := hOf .f64 n edge with hh_def
  set at_ := getTol .f64 (edge 0) with hat_def
  have hp1022 := Soft64R.pow2_pos (-1022)
  have hbig := pow2_m1000_ge
  have hhpos : 0 < h := lt_of_lt_of_le (Soft64R.pow2_pos _) hh
  have hat0 : 0 ≤ at_ := getTol_f64_nonneg _
  have hpt0 : 0 ≤ getTol .f64 p := getTol_f64_nonneg _
  have hidem : fl64 h = h := by
    rw [hh_def]; unfold hOf; simp only [hn1, DT.rnd]; exact Soft64R.fl64_idem _
  have hKq0 : (0 : ℚ) ≤ (K : ℚ) := by exact_mod_cast hK0
  have hKq2 : (K : ℚ) ≤ 2 ^ 40 := by exact_mod_cast hK
  have hx : ((K : ℚ) + 1 / 4) * h ≤ p - edge 0 := by linarith
  have hx14 : 1 / 4 * h ≤ p - edge 0 := by nlinarith
  have hxpos : 0 < p - edge 0 := by linarith
  have hrel := Soft64R.fl64_rel_err (x := p - edge 0) (by rw [abs_of_pos hxpos]; linarith)
  rw [abs_of_pos hxpos, pow2_m53] at hrel
  have ht1 : (p - edge 0) * (1 - 1 / 2 ^ 53) ≤ fl64 (p - edge 0) := by
    have := (abs_le.mp hrel).1; linarith
  set t1 := fl64 (p - edge 0) with ht1_def
  have ht1pos : 0 ≤ t1 := Soft64R.fl64_nonneg hxpos.le
  have ht2 : t1 ≤ fl64 (t1 + getTol .f64 p) :=
    Soft64R.fl64_ge_of_ge_float (Soft64R.fl64_idem _) (by linarith)
  set t2 := fl64 (t1 + getTol .f64 p) with ht2_def
  have hidem2 : fl64 t2 = t2 := Soft64R.fl64_idem _
  have ht3 : t2 ≤ fl64 (t2 + at_) := Soft64R.fl64_ge_of_ge_float hidem2 (by linarith)
  set t3 := fl64 (t2 + at_) with ht3_def
  have hden_le : fl64 (h - at_) ≤ h := Soft64R.fl64_le_of_le_float hidem (by linarith)
  have hden_pos : 0 < fl64 (h - at_) := by
    have : pow2 (-1022) ≤ fl64 (h - at_) := Soft64R.fl64_ge_of_ge_float fl64_pow2_m1022 (by linarith)
    exact lt_of_lt_of_le hp1022 this
  apply Soft64R.fl64_ge_of_ge_float
  · exact Soft64R.fl64_intCast (by rw [abs_of_nonneg hK0]; omega)
  · have ht3pos : 0 ≤ t3 := by linarith
    have h3 : t3 / h ≤ t3 / fl64 (h - at_) := div_le_div_of_nonneg_left ht3pos hden_pos hden_le
    have h4 : ((K : ℚ) + 1 / 4) * (1 - 1 / 2 ^ 53) ≤ t3 / h := by
      rw [le_div_iff₀ hhpos]
      have : ((K : ℚ) + 1 / 4) * h * (1 - 1 / 2 ^ 53) ≤ t1 := by
        have : (0 : ℚ) ≤ 1 - 1 / 2 ^ 53 := by norm_num
        nlinarith
      nlinarith
    have h5 : (K : ℚ) ≤ ((K : ℚ) + 1 / 4) * (1 - 1 / 2 ^ 53) := by nlinarith
    linarith

private theorem float_below_succ (K : ℤ) (hK0 : 0 ≤ K) (hK : K ≤ 2 ^ 16) :
    fl64 ((K : ℚ) + 1 - 1 / 2 ^ 30) = (K : ℚ) + 1 - 1 / 2 ^ 30 := by
  have hbval : (((K + 1) * 2 ^ 30 - 1 : ℤ) : ℚ) * pow2 (-30) = (K : ℚ) + 1 - 1 / 2 ^ 30 := by
    rw [pow2_m30]; push_cast; ring
  have hb : fl64 (((K + 1) * 2 ^ 30 - 1 : ℤ) * pow2 (-30)) = (((K + 1) * 2 ^ 30 - 1 : ℤ) : ℚ) * pow2 (-30) := by
    apply Soft64R.fl64_exact _ (by norm_num)
    rw [abs_of_nonneg (by nlinarith)]
    nlinarith
  rwa [hbval] at hb

private theorem margin (K : ℚ) (_hK0 : 0 ≤ K) (hK : K ≤ 2 ^ 16) :
    (K + 3 / 4 + 1 / 2 ^ 19 + 3 / 2 ^ 35) ≤ (K + 1 - 1 / 2 ^ 30) * (1 - 1 / 2 ^ 19) := by
  nlinarith

/-- upper bound with a quarter-cell margin: `a0 + h/4 ≤ p ≤ a0 + (K + 3/4)·h`, tolerances at most `h/2^20`,
`K ≤ 2^16` ⟹ `q < K + 1` -/
theorem qF_upper_quarter {n : ℕ} (hn : 1 < n) (edge : ℕ → ℚ) (p : ℚ) (K : ℤ) (hK0 : 0 ≤ K) (hK : K ≤ 2 ^ 16)
    (hh : pow2 (-1000) ≤ hOf .f64 n edge)
    (hat : getTol .f64 (edge 0) ≤ hOf .f64 n edge / 2 ^ 20)
    (hpt : getTol .f64 p ≤ hOf .f64 n edge / 2 ^ 20)
    (hlo : edge 0 + 1 / 4 * hOf .f64 n edge ≤ p)
    (hp : p ≤ edge 0 + ((K : ℚ) + 3 / 4) * hOf .f64 n edge) :
    qF n edge p < (K : ℚ) + 1 := by
  rw [qF_eq hn]
  set h := hOf .f64 n edge with hh_def
  set at_ := getTol .f64 (edge 0) with hat_def
  set pt := getTol .f64 p with hpt_def
  have hp1022 := Soft64R.pow2_pos (-1022)
  have hbig := pow2_m1000_ge
  have hhpos : 0 < h := lt_of_lt_of_le (Soft64R.pow2_pos _) hh
  have hat0 : 0 ≤ at_ := getTol_f64_nonneg _
  have hpt0 : 0 ≤ pt := getTol_f64_nonneg _
  have hKq0 : (0 : ℚ) ≤ (K : ℚ) := by exact_mod_cast hK0
  have hKq2 : (K : ℚ) ≤ 2 ^ 16 := by exact_mod_cast hK
  have hKh : (K : ℚ) * h ≤ 2 ^ 16 * h := mul_le_mul_of_nonneg_right hKq2 hhpos.le
  have hKh0 : 0 ≤ (K : ℚ) * h := mul_nonneg hKq0 hhpos.le
  -- x = p - a0
  have hx14 : 1 / 4 * h ≤ p - edge 0 := by linarith
  have hxpos : 0 < p - edge 0 := by linarith
  have hxup : p - edge 0 ≤ (K : ℚ) * h + 3 / 4 * h := by linarith
  -- t1
  have hrel1 := Soft64R.fl64_rel_err (x := p - edge 0) (by rw [abs_of_pos hxpos]; linarith)
  rw [abs_of_pos hxpos, pow2_m53] at hrel1
  obtain ⟨r1l, r1u⟩ := abs_le.mp hrel1
  set t1 := fl64 (p - edge 0) with ht1_def
  have ht1lo : 1 / 8 * h ≤ t1 := by linarith
  have ht1up : t1 ≤ p - edge 0 + 1 / 2 ^ 35 * h := by linarith
  -- t2
  have hs2pos : 0 < t1 + pt := by linarith
  have hrel2 := Soft64R.fl64_rel_err (x := t1 + pt) (by rw [abs_of_pos hs2pos]; linarith)
  rw [abs_of_pos hs2pos, pow2_m53] at hrel2
  obtain ⟨r2l, r2u⟩ := abs_le.mp hrel2
  set t2 := fl64 (t1 + pt) with ht2_def
  have ht2lo : 1 / 16 * h ≤ t2 := by linarith
  have ht2up : t2 ≤ t1 + pt + 1 / 2 ^ 35 * h := by linarith
  -- t3
  have hs3pos : 0 < t2 + at_ := by linarith
  have hrel3 := Soft64R.fl64_rel_err (x := t2 + at_) (by rw [abs_of_pos hs3pos]; linarith)
  rw [abs_of_pos hs3pos, pow2_m53] at hrel3
  obtain ⟨r3l, r3u⟩ := abs_le.mp hrel3
  set t3 := fl64 (t2 + at_) with ht3_def
  have ht3up : t3 ≤ t2 + at_ + 1 / 2 ^ 35 * h := by linarith
  have ht3tot : t3 ≤ ((K : ℚ) + 3 / 4 + 1 / 2 ^ 19 + 3 / 2 ^ 35) * h := by linarith
  -- denominator
  have hdpos : 0 < h - at_ := by linarith
  have hrel4 := Soft64R.fl64_rel_err (x := h - at_) (by rw [abs_of_pos hdpos]; linarith)
  rw [abs_of_pos hdpos, pow2_m53] at hrel4
  obtain ⟨r4l, r4u⟩ := abs_le.mp hrel4
  set den := fl64 (h - at_) with hden_def
  have hdenlo : (1 - 1 / 2 ^ 19) * h ≤ den := by linarith
  have hdenpos : 0 < den := by linarith
  -- the quotient stays below the float K + 1 - 2^-30
  have hquot : t3 / den ≤ (K : ℚ) + 1 - 1 / 2 ^ 30 := by
    rw [div_le_iff₀ hdenpos]
    have e2 : ((K : ℚ) + 3 / 4 + 1 / 2 ^ 19 + 3 / 2 ^ 35) * h ≤ ((K : ℚ) + 1 - 1 / 2 ^ 30) * (1 - 1 / 2 ^ 19) * h :=
      mul_le_mul_of_nonneg_right (margin _ hKq0 hKq2) hhpos.le
    have e3 : ((K : ℚ) + 1 - 1 / 2 ^ 30) * ((1 - 1 / 2 ^ 19) * h) ≤ ((K : ℚ) + 1 - 1 / 2 ^ 30) * den :=
      mul_le_mul_of_nonneg_left hdenlo (by linarith)
    calc t3 ≤ ((K : ℚ) + 3 / 4 + 1 / 2 ^ 19 + 3 / 2 ^ 35) * h := ht3tot
      _ ≤ ((K : ℚ) + 1 - 1 / 2 ^ 30) * (1 - 1 / 2 ^ 19) * h := e2
      _ = ((K : ℚ) + 1 - 1 / 2 ^ 30) * ((1 - 1 / 2 ^ 19) * h) := by ring
      _ ≤ ((K : ℚ) + 1 - 1 / 2 ^ 30) * den := e3
  have := Soft64R.fl64_le_of_le_float (float_below_succ K hK0 hK) hquot
  have : (0 : ℚ) < 1 / 2 ^ 30 := by positivity
  linarith

/-- **interior points are binned exactly** (default float64 configuration, closed mode) -/
theorem bin1dCore_interior {n : ℕ} (hn : 1 < n) (hn53 : (n : ℤ) ≤ 2 ^ 53) (edge : ℕ → ℚ) (p : ℚ) (i : ℕ)
    (hi : i < n) (hi16 : i ≤ 2 ^ 16)
    (hh : pow2 (-1000) ≤ hOf .f64 n edge)
    (hat : getTol .f64 (edge 0) ≤ hOf .f64 n edge / 2 ^ 20)
    (hpt : getTol .f64 p ≤ hOf .f64 n edge / 2 ^ 20)
    (hlo : edge 0 + ((i : ℚ) + 1 / 4) * hOf .f64 n edge ≤ p)
    (hhi : p ≤ edge 0 + ((i : ℚ) + 3 / 4) * hOf .f64 n edge)
    (hnext : i + 1 < n → p < edge (i + 1))
    (htop : p < topOf .f64 n edge) :
    bin1dCore (cfg64 false) n edge p = (i : ℤ) := by
  have hhpos : 0 < hOf .f64 n edge := lt_of_lt_of_le (Soft64R.pow2_pos _) hh
  have hiq : (0 : ℚ) ≤ (i : ℚ) := by positivity
  have hat4 : getTol .f64 (edge 0) ≤ hOf .f64 n edge / 4 := by
    have : hOf .f64 n edge / 2 ^ 20 ≤ hOf .f64 n edge / 4 := by
      apply div_le_div_of_nonneg_left hhpos.le (by norm_num) (by norm_num)
    linarith
  have hlow := qF_lower_quarter hn edge p (i : ℤ) (by omega) (by norm_num; omega) hh hat4 (by push_cast; exact hlo)
  have hupp := qF_upper_quarter hn edge p (i : ℤ) (by omega) (by norm_num; omega) hh hat hpt
    (by nlinarith) (by push_cast; exact hhi)
  have hfloor : ⌊qF n edge p⌋ = (i : ℤ) := by
    rw [Int.floor_eq_iff]
    exact ⟨hlow, hupp⟩
  rw [bin1dCore_cfg64 false hn hn53, hfloor]
  have hcorr : corrInt n edge (topOf .f64 n edge) p (i : ℤ) = (i : ℤ) := by
    unfold corrInt
    have c1 : ¬ ((0 : ℤ) ≤ (i : ℤ) ∧ (i : ℤ) + 1 < (n : ℤ) ∧ edge ((i : ℤ) + 1).toNat ≤ p) := by
      rintro ⟨_, h1, h2⟩
      have : i + 1 < n := by omega
      have h3 := hnext this
      have : ((i : ℤ) + 1).toNat = i + 1 := by omega
      rw [this] at h2
      linarith
    simp only [c1, if_false]
    have c2 : ¬ ((i : ℤ) = (n : ℤ) - 1 ∧ topOf .f64 n edge ≤ p) := by
      rintro ⟨_, h2⟩; linarith
    simp only [c2, if_false]
  rw [hcorr]
  unfold clampInt
  have hn1 : (n == 1) = false := by simp; omega
  simp only [Bool.false_or, hn1, Bool.false_eq_true, if_false]
  have : ¬ ((i : ℤ) < 0 ∨ (i : ℤ) ≥ (n : ℤ)) := by omega
  simp only [this, if_false]

end Bin1d
