import PycsepVerif.Model.PoissonTest
import PycsepVerif.Proofs.PoissonLL
import PycsepVerif.Proofs.Sampler
import PycsepVerif.Proofs.Gridding

/-! Helper lemmas for the chained model `Model/PoissonTest.lean` (C05 / C06). -/
namespace PoissonTest
open RealOps PoissonLL

section generic
variable {α : Type} [RealOps α]

/-- the prepared-log-rate form of the statistic is `jointLL` of the (transformed rate, count) pairs -/
theorem statOf_map (rates : List α) (g : α → α) (counts : List Nat) (e : α) :
    statOf ⟨rates.map (fun r => ELL.log (g r)), e⟩ counts
      = jointLL ((rates.zip counts).map (fun p => (g p.1, p.2))) e := by
  unfold statOf jointLL targets
  simp only [List.zip_map_left, List.filter_map, List.map_map]
  rfl

omit [RealOps α] in
theorem nObs_zip (rates : List α) (counts : List Nat) (h : rates.length = counts.length) :
    nObs (rates.zip counts) = counts.sum := by
  unfold nObs
  have : (rates.zip counts).map (·.2) = counts := by
    rw [show (fun p : α × Nat => p.2) = Prod.snd from rfl]
    exact List.map_snd_zip (by omega)
  rw [this]

theorem nFore_zip (rates : List α) (counts : List Nat) (h : rates.length = counts.length) :
    nFore (rates.zip counts) = RealOps.sum rates := by
  unfold nFore
  have : (rates.zip counts).map (·.1) = rates := by
    rw [show (fun p : α × Nat => p.1) = Prod.fst from rfl]
    exact List.map_fst_zip (by omega)
  rw [this]

/-- **the code-shaped statistic (log-rates and expected count prepared ONCE from the observed catalog) applied to any
    count array with the observed total is `PoissonLL.stat` of that array** -/
theorem statOf_prepare (u n : Bool) (rates : List α) (obs counts : List Nat) (hlen : rates.length = counts.length)
    (hsum : (u && n) = true → counts.sum = obs.sum) :
    statOf (prepare u n rates obs) counts = stat (u && n) (rates.zip counts) := by
  unfold prepare stat
  cases hb : (u && n) with
  | false =>
    simp only [Bool.false_eq_true, ↓reduceIte]
    have := statOf_map rates (fun r => r) counts (RealOps.sum rates)
    rw [nFore_zip rates counts hlen]
    refine this.trans ?_
    congr 1
    exact List.map_id' _
  | true =>
    simp only [↓reduceIte]
    rw [nObs_zip rates counts hlen, nFore_zip rates counts hlen, hsum hb]
    exact statOf_map rates (fun r => mul r (div (ofNat obs.sum) (RealOps.sum rates))) counts (ofNat obs.sum)

end generic

theorem simulate_cc (ws : List Rat) (draws : List Rat) (arr : List Nat) (h : Sampler.simulate ws draws = some arr) :
    arr.sum = draws.length ∧ arr.length = ws.length := by
  have := Sampler.simulateFrom_spec ws draws _ arr h
  simpa using this

/-- the simulation loop: on success one array per row, each the placement of its row, with the prescribed count -/
theorem simLoop_spec (ws : List Rat) : ∀ (ns : List Nat) (rows : List (List Rat)) (sims : List (List Nat)),
    simLoop ws ns rows = some sims →
      sims.length = rows.length ∧
      ∀ s ∈ sims, s.length = ws.length ∧ (∃ row ∈ rows, Sampler.simulate ws row = some s ∧ s.sum = row.length) ∧
        ∃ n ∈ ns, s.sum = n
  | _, [], sims, h => by simp [simLoop] at h; subst h; simp
  | [], _ :: _, sims, h => by simp [simLoop] at h
  | n :: ns, row :: rows, sims, h => by
    simp only [simLoop] at h
    split at h
    · rename_i arr ha
      split at h
      · rename_i hc
        cases hr : simLoop ws ns rows with
        | none => rw [hr] at h; cases h
        | some tl =>
          rw [hr] at h
          simp only [Option.map_some, Option.some.injEq] at h
          subst h
          obtain ⟨h1, h2⟩ := simLoop_spec ws ns rows tl hr
          refine ⟨by simp [h1], ?_⟩
          intro a ha'
          rcases List.mem_cons.mp ha' with rfl | ha''
          · have hcc := simulate_cc ws row a ha
            refine ⟨hcc.2, ⟨row, List.mem_cons_self, ha, hcc.1⟩, ⟨n, List.mem_cons_self, ?_⟩⟩
            simpa [Sampler.countAssert] using hc
          · obtain ⟨g1, ⟨r', hr', g2⟩, ⟨n', hn', g3⟩⟩ := h2 a ha''
            exact ⟨g1, ⟨r', List.mem_cons_of_mem _ hr', g2⟩, ⟨n', List.mem_cons_of_mem _ hn', g3⟩⟩
      · cases h
    · cases h

/-- totality of the loop: valid placements and matching counts -/
theorem simLoop_total (ws : List Rat) : ∀ (ns : List Nat) (rows : List (List Rat)),
    ns.length = rows.length →
    (∀ p ∈ ns.zip rows, p.2.length = p.1 ∧ ∀ r ∈ p.2, Sampler.searchRight ws r < ws.length) →
    ∃ sims, simLoop ws ns rows = some sims
  | [], [], _, _ => ⟨[], rfl⟩
  | [], _ :: _, h, _ => by simp at h
  | _ :: _, [], h, _ => by simp at h
  | n :: ns, row :: rows, hl, hp => by
    obtain ⟨hrow, hin⟩ := hp (n, row) (by simp)
    have hsome := Sampler.simulateFrom_isSome ws row (List.replicate ws.length 0) (by simp) hin
    obtain ⟨arr, harr⟩ := Option.isSome_iff_exists.mp hsome
    have hcc := simulate_cc ws row arr harr
    obtain ⟨tl, htl⟩ := simLoop_total ws ns rows (by simpa using hl)
      (fun p hp' => hp p (by simp only [List.zip_cons_cons, List.mem_cons]; exact Or.inr hp'))
    refine ⟨arr :: tl, ?_⟩
    have harr' : Sampler.simulate ws row = some arr := harr
    simp only [simLoop, harr', Sampler.countAssert, hcc.1, hrow, beq_self_eq_true, ↓reduceIte, htl, Option.map_some]

/-! ### column sums of a count matrix (`numpy.sum(axis=0)` as the left fold of row additions) -/

theorem getD_addRowsN (xs ys : List Nat) (k : Nat) : (addRowsN xs ys).getD k 0 = xs.getD k 0 + ys.getD k 0 := by
  induction xs generalizing ys k with
  | nil => simp [addRowsN]
  | cons x xs ih =>
    cases ys with
    | nil => simp [addRowsN]
    | cons y ys =>
      cases k with
      | zero => simp [addRowsN]
      | succ k => simpa [addRowsN] using ih ys k

theorem getD_foldl_addRowsN (M : List (List Nat)) (acc : List Nat) (k : Nat) :
    (M.foldl addRowsN acc).getD k 0 = acc.getD k 0 + (M.map (fun r => r.getD k 0)).sum := by
  induction M generalizing acc with
  | nil => simp
  | cons r M ih => simp only [List.foldl_cons, ih, getD_addRowsN, List.map_cons, List.sum_cons]; omega

theorem length_foldl_addRowsN (M : List (List Nat)) (acc : List Nat) (n : Nat) (hacc : acc.length = n)
    (hrows : ∀ r ∈ M, r.length = n) : (M.foldl addRowsN acc).length = n := by
  induction M generalizing acc with
  | nil => simpa using hacc
  | cons r M ih =>
    simp only [List.foldl_cons]
    apply ih
    · rw [length_addRowsN, hacc, hrows r List.mem_cons_self]; simp
    · intro r' hr'; exact hrows r' (List.mem_cons_of_mem _ hr')

/-- the magnitude marginal of a rectangular, non-empty count matrix is the vector of its column sums -/
theorem magMarginalN_eq_colsums (M : List (List Nat)) (n : Nat) (hne : M ≠ []) (hrows : ∀ r ∈ M, r.length = n) :
    magMarginalN M = (List.range n).map (fun k => (M.map (fun r => (r[k]?).getD 0)).sum) := by
  cases M with
  | nil => exact absurd rfl hne
  | cons r0 M =>
    have hlen : (magMarginalN (r0 :: M)).length = n := by
      unfold magMarginalN
      simp only [List.foldl_cons]
      apply length_foldl_addRowsN
      · simp [addRowsN, hrows r0 List.mem_cons_self]
      · intro r' hr'; exact hrows r' (List.mem_cons_of_mem _ hr')
    apply List.ext_getElem (by simp [hlen])
    intro k h1 h2
    have hk : k < n := by omega
    have := getD_foldl_addRowsN (r0 :: M) [] k
    unfold magMarginalN
    rw [List.getD_eq_getElem?_getD, List.getElem?_eq_getElem (by simpa [magMarginalN] using h1),
      Option.getD_some] at this
    refine this.trans ?_
    simp [List.getD_eq_getElem?_getD]

end PoissonTest
