import PycsepVerif.Model.NumberTest
import PycsepVerif.Proofs.RealInst
import Mathlib.Algebra.Order.Floor.Ring
import Mathlib.Algebra.BigOperators.Field
import Mathlib.Tactic.Ring
import Mathlib.Tactic.Linarith
import Mathlib.Tactic.FieldSimp

/-! Helper lemmas for C07: the ℝ instance of `FloorOps`, closed forms of the recurrences, floor shifts. -/

noncomputable instance instFloorOpsReal : FloorOps ℝ where
  floorNat := fun x => if x < 0 then none else some ⌊x⌋₊

namespace NumberTest
open Finset

theorem real_floorNat (x : ℝ) : FloorOps.floorNat x = if x < 0 then none else some ⌊x⌋₊ := rfl

theorem sumTo_eq (f : ℕ → ℝ) (k : ℕ) : sumTo f k = ∑ j ∈ range k, f j := by
  induction k with
  | zero => simp [sumTo]
  | succ k ih => simp [sumTo, ih, Finset.sum_range_succ]

theorem poisPmf_eq (μ : ℝ) (j : ℕ) : poisPmf μ j = Real.exp (-μ) * μ ^ j / (j.factorial : ℝ) := by
  induction j with
  | zero => simp [poisPmf]
  | succ j ih =>
    simp only [poisPmf, ih, RealOps.real_div, RealOps.real_mul, RealOps.real_ofNat]
    have h1 : ((j + 1 : ℕ) : ℝ) ≠ 0 := by positivity
    have h2 : (j.factorial : ℝ) ≠ 0 := by positivity
    rw [Nat.factorial_succ]; push_cast; field_simp; ring

theorem poisPmf_nonneg {μ : ℝ} (hμ : 0 ≤ μ) (j : ℕ) : 0 ≤ poisPmf μ j := by
  rw [poisPmf_eq]; positivity

/-- floor of n + ε -/
theorem floorNat_add (n : ℕ) {ε : ℝ} (h0 : 0 ≤ ε) (h1 : ε < 1) :
    FloorOps.floorNat ((n : ℝ) + ε) = some n := by
  rw [real_floorNat, if_neg (by have : (0:ℝ) ≤ n := Nat.cast_nonneg n; linarith)]
  congr 1
  rw [Nat.floor_eq_iff (by have : (0:ℝ) ≤ n := Nat.cast_nonneg n; linarith)]
  constructor <;> linarith

/-- floor of n − ε for n ≥ 1 -/
theorem floorNat_sub_succ (n : ℕ) {ε : ℝ} (h0 : 0 < ε) (h1 : ε ≤ 1) :
    FloorOps.floorNat (((n + 1 : ℕ) : ℝ) - ε) = some n := by
  have hn : (0:ℝ) ≤ n := Nat.cast_nonneg n
  rw [real_floorNat, if_neg (by push_cast; linarith)]
  congr 1
  rw [Nat.floor_eq_iff (by push_cast; linarith)]
  push_cast; constructor <;> linarith

/-- 0 − ε is negative: the cdf there is 0 -/
theorem floorNat_zero_sub {ε : ℝ} (h0 : 0 < ε) : FloorOps.floorNat (((0 : ℕ) : ℝ) - ε) = none := by
  rw [real_floorNat, if_pos (by simp; exact h0)]

end NumberTest

namespace NumberTest
open Finset

/-! ### generic facts: any mass function on ℕ -/

theorem cdfOf_add (pmf : ℕ → ℝ) (n : ℕ) {ε : ℝ} (h0 : 0 ≤ ε) (h1 : ε < 1) :
    cdfOf pmf ((n : ℝ) + ε) = ∑ j ∈ range (n + 1), pmf j := by
  unfold cdfOf; rw [floorNat_add n h0 h1]; exact sumTo_eq _ _

theorem cdfOf_sub (pmf : ℕ → ℝ) (n : ℕ) {ε : ℝ} (h0 : 0 < ε) (h1 : ε ≤ 1) :
    cdfOf pmf ((n : ℝ) - ε) = ∑ j ∈ range n, pmf j := by
  unfold cdfOf
  cases n with
  | zero => rw [floorNat_zero_sub h0]; simp
  | succ n => rw [floorNat_sub_succ n h0 h1]; exact sumTo_eq _ _

theorem delta12With_cdfOf (pmf : ℕ → ℝ) (n : ℕ) {ε : ℝ} (h0 : 0 < ε) (h1 : ε < 1) :
    delta12With (cdfOf pmf) n ε = (1 - ∑ j ∈ range n, pmf j, ∑ j ∈ range (n + 1), pmf j) := by
  unfold delta12With
  simp only [RealOps.real_sub, RealOps.real_add, RealOps.real_ofNat, RealOps.real_one]
  rw [cdfOf_sub pmf n h0 h1.le, cdfOf_add pmf n h0.le h1]

/-- 1 − Σ_{j<n} pmf j is the upper tail Σ_{j ≥ n} pmf j of a probability mass function -/
theorem one_sub_sum_eq_tsum {pmf : ℕ → ℝ} (hs : HasSum pmf 1) (n : ℕ) :
    1 - ∑ j ∈ range n, pmf j = ∑' j, pmf (j + n) := by
  have := hs.summable.sum_add_tsum_nat_add n
  rw [hs.tsum_eq] at this; linarith

theorem partial_le_one {pmf : ℕ → ℝ} (h0 : ∀ j, 0 ≤ pmf j) (hs : HasSum pmf 1) (n : ℕ) :
    ∑ j ∈ range n, pmf j ≤ 1 := sum_le_hasSum _ (fun j _ => h0 j) hs

/-! ### Poisson -/

theorem poisPmf_hasSum (μ : ℝ) : HasSum (poisPmf μ) 1 := by
  have h := (NormedSpace.expSeries_div_hasSum_exp (μ : ℝ)).mul_left (Real.exp (-μ))
  have e : poisPmf μ = fun j => Real.exp (-μ) * (μ ^ j / (j.factorial : ℝ)) := by
    funext j; rw [poisPmf_eq]; ring
  have one : Real.exp (-μ) * NormedSpace.exp μ = 1 := by
    rw [← Real.exp_eq_exp_ℝ, ← Real.exp_add]; simp
  rw [one] at h
  rw [e]; exact h

end NumberTest

namespace NumberTest
open Finset

/-! ### the anchored (numerically stable) evaluation is the same sum -/

theorem downSum_eq (ρ pmf : ℕ → ℝ) (h : ∀ j, pmf (j + 1) = pmf j * ρ j) (hρ : ∀ j, ρ j ≠ 0) (a : ℕ) :
    downSum ρ a (pmf a) = ∑ j ∈ range (a + 1), pmf j := by
  induction a with
  | zero => simp [downSum]
  | succ a ih =>
    have : pmf (a + 1) / ρ a = pmf a := by rw [h a]; field_simp [hρ a]
    simp only [downSum, RealOps.real_add, RealOps.real_div, this, ih]
    rw [Finset.sum_range_succ _ (a + 1)]; ring

theorem upSum_eq (ρ pmf : ℕ → ℝ) (h : ∀ j, pmf (j + 1) = pmf j * ρ j) (m : ℕ) :
    ∀ a, upSum ρ a m (pmf a) = ∑ j ∈ range m, pmf (a + 1 + j) := by
  induction m with
  | zero => intro a; simp [upSum]
  | succ m ih =>
    intro a
    simp only [upSum, RealOps.real_add, RealOps.real_mul, ← h a, ih (a + 1)]
    rw [Finset.sum_range_succ']
    have : ∀ j, pmf (a + 1 + 1 + j) = pmf (a + 1 + (j + 1)) := fun j => by congr 1; omega
    simp only [this]; simp [add_comm]

theorem cdfAnch_eq (ρ pmf : ℕ → ℝ) (h : ∀ j, pmf (j + 1) = pmf j * ρ j) (hρ : ∀ j, ρ j ≠ 0)
    {a n : ℕ} (han : a ≤ n) : cdfAnch ρ (pmf a) a n = ∑ j ∈ range (n + 1), pmf j := by
  unfold cdfAnch
  rw [downSum_eq ρ pmf h hρ, upSum_eq ρ pmf h, RealOps.real_add]
  have : n + 1 = (a + 1) + (n - a) := by omega
  rw [this, Finset.sum_range_add _ (a + 1) (n - a)]

theorem cdfAnchOf_eq (ρ pmf tAt : ℕ → ℝ) (h : ∀ j, pmf (j + 1) = pmf j * ρ j) (hρ : ∀ j, ρ j ≠ 0)
    (ht : ∀ j, tAt j = pmf j) (anchor : ℕ) (x : ℝ) : cdfAnchOf ρ tAt anchor x = cdfOf pmf x := by
  unfold cdfAnchOf cdfOf
  cases FloorOps.floorNat x with
  | none => rfl
  | some k =>
    simp only [ht]
    rw [cdfAnch_eq ρ pmf h hρ (Nat.min_le_right anchor k), sumTo_eq]

theorem poisPmf_ratio (μ : ℝ) (j : ℕ) : poisPmf μ (j + 1) = poisPmf μ j * poisRatio μ j := by
  simp only [poisPmf, poisRatio, RealOps.real_div, RealOps.real_mul, RealOps.real_ofNat]; ring

theorem poisRatio_ne_zero {μ : ℝ} (hμ : μ ≠ 0) (j : ℕ) : poisRatio μ j ≠ 0 := by
  simp only [poisRatio, RealOps.real_div, RealOps.real_ofNat]
  have : ((j + 1 : ℕ) : ℝ) ≠ 0 := by positivity
  exact div_ne_zero hμ this

theorem poisPmfLog_eq {μ : ℝ} (hμ : 0 < μ) (j : ℕ) : poisPmfLog μ j = poisPmf μ j := by
  rw [poisPmf_eq]
  simp only [poisPmfLog, RealOps.real_exp, RealOps.real_sub, RealOps.real_mul, RealOps.real_ofNat,
    RealOps.real_log, RealOps.real_logFact]
  have hf : (0 : ℝ) < (j.factorial : ℝ) := by positivity
  rw [Real.exp_sub, Real.exp_sub, Real.exp_log hf, Real.exp_nat_mul, Real.exp_log hμ, Real.exp_neg]
  field_simp

theorem nbPmf_ratio (r p : ℝ) (k : ℕ) : nbPmf r p (k + 1) = nbPmf r p k * nbRatio r p k := by
  simp only [nbPmf, nbRatio, RealOps.real_div, RealOps.real_mul, RealOps.real_ofNat, RealOps.real_add,
    RealOps.real_sub, RealOps.real_one]; ring

theorem nbRatio_ne_zero {r p : ℝ} (hr : 0 < r) (hp : p < 1) (k : ℕ) : nbRatio r p k ≠ 0 := by
  simp only [nbRatio, RealOps.real_div, RealOps.real_mul, RealOps.real_ofNat, RealOps.real_add,
    RealOps.real_sub, RealOps.real_one]
  have h1 : ((k + 1 : ℕ) : ℝ) ≠ 0 := by positivity
  have h2 : r + (k : ℝ) ≠ 0 := by positivity
  have h3 : 1 - p ≠ 0 := by linarith
  exact div_ne_zero (mul_ne_zero h2 h3) h1

theorem nbPmfLog_eq {r p : ℝ} (hr : 0 < r) (hp : p < 1) (k : ℕ) : nbPmfLog r p k = nbPmf r p k := by
  induction k with
  | zero =>
    simp [nbPmfLog, nbPmf, logChoose, sumTo]
  | succ k ih =>
    rw [nbPmf_ratio, ← ih]
    simp only [nbPmfLog, logChoose, sumTo, nbRatio, RealOps.real_exp, RealOps.real_add, RealOps.real_mul,
      RealOps.real_ofNat, RealOps.real_log, RealOps.real_sub, RealOps.real_one, RealOps.real_div]
    have h1 : (0 : ℝ) < ((k + 1 : ℕ) : ℝ) := by positivity
    have h2 : (0 : ℝ) < (r + (k : ℝ)) / ((k + 1 : ℕ) : ℝ) := by positivity
    have h3 : (0 : ℝ) < 1 - p := by linarith
    have e : ∀ s : ℝ, Real.exp (s + Real.log ((r + ↑k) / ↑(k + 1)) + r * Real.log p + ↑(k + 1) * Real.log (1 - p))
        = Real.exp (s + r * Real.log p + ↑k * Real.log (1 - p)) * ((r + ↑k) * (1 - p) / ↑(k + 1)) := by
      intro s
      have : s + Real.log ((r + ↑k) / ↑(k + 1)) + r * Real.log p + ((k + 1 : ℕ) : ℝ) * Real.log (1 - p)
          = (s + r * Real.log p + ↑k * Real.log (1 - p)) + Real.log ((r + ↑k) / ↑(k + 1)) + Real.log (1 - p) := by
        push_cast; ring
      rw [this, Real.exp_add, Real.exp_add, Real.exp_log h2, Real.exp_log h3]; ring
    exact e _

end NumberTest
