import PycsepVerif.Proofs.PoissonTest
import PycsepVerif.Model.PoissonStream

/-! Helper lemmas for `Properties/C05_Stream.lean`: the simulation loop is positional (the k-th simulated catalog is the
    placement of the k-th row). -/
namespace PoissonTest
open RealOps PoissonLL

theorem simLoop_getElem (ws : List Rat) : ∀ (ns : List Nat) (rows : List (List Rat)) (sims : List (List Nat)),
    simLoop ws ns rows = some sims →
      ∀ k (h1 : k < sims.length) (h2 : k < rows.length), Sampler.simulate ws rows[k] = some sims[k]
  | _, [], sims, h => by intro k _ h2; simp at h2
  | [], _ :: _, sims, h => by simp [simLoop] at h
  | n :: ns, row :: rows, sims, h => by
    simp only [simLoop] at h
    split at h
    · rename_i arr harr
      split at h
      · cases hr : simLoop ws ns rows with
        | none => simp [hr] at h
        | some rest =>
          simp only [hr, Option.map_some, Option.some.injEq] at h
          subst h
          intro k h1 h2
          cases k with
          | zero => simpa using harr
          | succ k =>
            simp only [List.getElem_cons_succ]
            exact simLoop_getElem ws ns rows rest hr k (by simpa using h1) (by simpa using h2)
      · cases h
    · cases h

variable {α : Type} [RealOps α]

theorem run_sims_getElem (toQ : α → Rat) (u n : Bool) (rates : List α) (obs draws : List Nat) (rows : List (List Rat))
    (res : Result α) (h : run toQ u n rates obs draws rows = some res) :
    ∀ k (h1 : k < res.sims.length) (h2 : k < rows.length),
      Sampler.simulate (Sampler.weights (rates.map toQ)) rows[k] = some res.sims[k] := by
  unfold run at h
  simp only at h
  split at h
  · cases h
  · rename_i sims hs
    cases h
    exact simLoop_getElem _ _ rows sims hs

end PoissonTest
