import PycsepVerif.Model.ForecastFile
import Mathlib.Tactic.Linarith
import Mathlib.Tactic.Ring
import Mathlib.Algebra.Order.Ring.Rat

/-! Helper lemmas for C11. -/
namespace ForecastFile

/-! ### uniqFirst -/
section Uniq
variable {α : Type} [DecidableEq α]

theorem uniqFirst_cons (a : α) (l : List α) :
    uniqFirst (a :: l) = a :: (uniqFirst l).filter (fun b => decide (b ≠ a)) := rfl

theorem mem_uniqFirst {l : List α} {a : α} : a ∈ uniqFirst l ↔ a ∈ l := by
  induction l with
  | nil => simp [uniqFirst]
  | cons b l ih =>
    rw [uniqFirst_cons]
    by_cases h : a = b
    · subst h; simp
    · simp [List.mem_filter, ih, h]

theorem nodup_uniqFirst (l : List α) : (uniqFirst l).Nodup := by
  induction l with
  | nil => simp [uniqFirst]
  | cons b l ih =>
    rw [uniqFirst_cons, List.nodup_cons]
    refine ⟨?_, ih.sublist List.filter_sublist⟩
    simp [List.mem_filter]

theorem uniqFirst_map_of_injective {β : Type} [DecidableEq β] (g : α → β) (hg : Function.Injective g) (l : List α) :
    uniqFirst (l.map g) = (uniqFirst l).map g := by
  induction l with
  | nil => rfl
  | cons a l ih =>
    rw [List.map_cons, uniqFirst_cons, uniqFirst_cons, ih, List.map_cons, List.filter_map]
    congr 2
    apply List.filter_congr
    intro b _
    simp [Function.comp, hg.eq_iff]

end Uniq

/-! ### row-major product -/
theorem product_cons {α β} (x : α) (xs : List α) (ys : List β) :
    product (x :: xs) ys = ys.map (fun y => (x, y)) ++ product xs ys := by
  simp [product]

theorem product_length {α β} (xs : List α) (ys : List β) : (product xs ys).length = xs.length * ys.length := by
  induction xs with
  | nil => simp [product]
  | cons x xs ih => rw [product_cons, List.length_append, List.length_map, ih, List.length_cons]; ring

/-- position `p` of the row-major product is cell `i`, edge `k` with `p = i·M + k` -/
theorem product_getElem? {α β} (xs : List α) (ys : List β) (p : Nat) (x : α) (y : β)
    (h : (product xs ys)[p]? = some (x, y)) :
    ∃ i k, p = i * ys.length + k ∧ k < ys.length ∧ xs[i]? = some x ∧ ys[k]? = some y := by
  induction xs generalizing p with
  | nil => simp [product] at h
  | cons x' xs ih =>
    rw [product_cons] at h
    by_cases hp : p < ys.length
    · rw [List.getElem?_append_left (by simpa using hp), List.getElem?_map] at h
      cases hy : ys[p]? with
      | none => simp [hy] at h
      | some y' =>
        simp [hy] at h
        exact ⟨0, p, by simp, hp, by simp [h.1], by simp [hy, h.2]⟩
    · have hp' : ys.length ≤ p := Nat.le_of_not_lt hp
      rw [List.getElem?_append_right (by simpa using hp'), List.length_map] at h
      obtain ⟨i, k, h1, h2, h3, h4⟩ := ih (p - ys.length) h
      refine ⟨i + 1, k, ?_, h2, by simpa using h3, h4⟩
      rw [Nat.add_mul, Nat.one_mul]; omega

/-! ### findIdx on magnitudes -/
theorem magIndex_eq (mags : List Rat) (m : Rat) (k : Nat) (hk : k < mags.length)
    (hle : ∀ j (hj : j < mags.length), j ≤ k → mags[j] ≤ m)
    (hgt : ∀ j (hj : j < mags.length), k < j → m < mags[j]) :
    getMagnitudeIndex mags m = some k := by
  unfold getMagnitudeIndex
  have hj : mags.findIdx (fun e => decide (m < e)) = k + 1 := by
    by_cases hlast : k + 1 < mags.length
    · rw [List.findIdx_eq hlast]
      refine ⟨by simpa using hgt (k + 1) hlast (Nat.lt_succ_self k), ?_⟩
      intro j hj
      have : mags[j] ≤ m := hle j (by omega) (by omega)
      simpa using this
    · have : mags.length = k + 1 := by omega
      rw [← this, List.findIdx_eq_length]
      intro x hx
      obtain ⟨j, hj, rfl⟩ := List.getElem_of_mem hx
      have : mags[j] ≤ m := hle j hj (by omega)
      simpa using this
  simp [hj]

/-! ### chunks, row and column sums -/
theorem chunks_sum (m n : Nat) (l : List Rat) (h : l.length = n * m) :
    ((chunks m n l).map List.sum).sum = l.sum := by
  induction n generalizing l with
  | zero =>
    have : l = [] := List.eq_nil_of_length_eq_zero (by simpa using h)
    subst this; simp [chunks]
  | succ n ih =>
    have hd : (l.drop m).length = n * m := by rw [List.length_drop, h, Nat.succ_mul]; omega
    simp only [chunks, List.map_cons, List.sum_cons, ih _ hd]
    conv_rhs => rw [← List.take_append_drop m l]
    rw [List.sum_append]

theorem chunks_length (m n : Nat) (l : List Rat) (h : l.length = n * m) :
    ∀ r ∈ chunks m n l, r.length = m := by
  induction n generalizing l with
  | zero => simp [chunks]
  | succ n ih =>
    have hd : (l.drop m).length = n * m := by rw [List.length_drop, h, Nat.succ_mul]; omega
    intro r hr
    simp only [chunks, List.mem_cons] at hr
    rcases hr with rfl | hr
    · rw [List.length_take, h, Nat.succ_mul]; omega
    · exact ih _ hd r hr

theorem chunks_count {α} (m n : Nat) (l : List α) : (chunks m n l).length = n := by
  induction n generalizing l with
  | zero => rfl
  | succ n ih => simp [chunks, ih]

theorem addRows_length (a b : List Rat) (h : a.length = b.length) : (addRows a b).length = b.length := by
  induction a generalizing b with
  | nil => cases b <;> simp_all [addRows]
  | cons x a ih =>
    cases b with
    | nil => simp at h
    | cons y b => simp [addRows, ih b (by simpa using h)]

theorem addRows_sum (a b : List Rat) (h : a.length = b.length) : (addRows a b).sum = a.sum + b.sum := by
  induction a generalizing b with
  | nil => cases b <;> simp_all [addRows]
  | cons x a ih =>
    cases b with
    | nil => simp at h
    | cons y b =>
      simp only [addRows, List.sum_cons, ih b (by simpa using h)]; ring

theorem sum_replicate_zero (m : Nat) : (List.replicate m (0 : Rat)).sum = 0 := by
  induction m with
  | zero => rfl
  | succ m ih => rw [List.replicate_succ, List.sum_cons, ih]; ring

theorem foldr_addRows (m : Nat) (rows : List (List Rat)) (h : ∀ r ∈ rows, r.length = m) :
    (rows.foldr addRows (List.replicate m 0)).length = m ∧
    (rows.foldr addRows (List.replicate m 0)).sum = (rows.map List.sum).sum := by
  induction rows with
  | nil => simp [sum_replicate_zero]
  | cons r rows ih =>
    obtain ⟨h1, h2⟩ := ih (fun r' hr' => h r' (List.mem_cons_of_mem _ hr'))
    have hr : r.length = m := h r List.mem_cons_self
    simp only [List.foldr_cons, List.map_cons, List.sum_cons]
    refine ⟨by rw [addRows_length _ _ (by rw [hr, h1]), h1], ?_⟩
    rw [addRows_sum _ _ (by rw [hr, h1]), h2]

/-! ### scaling commutes with the marginals -/
theorem sum_map_mul_right (l : List Rat) (s : Rat) : (l.map (· * s)).sum = l.sum * s := by
  induction l with
  | nil => simp
  | cons a l ih => simp only [List.map_cons, List.sum_cons, ih]; ring

theorem chunks_map {α β} (f : α → β) (m n : Nat) (l : List α) :
    chunks m n (l.map f) = (chunks m n l).map (List.map f) := by
  induction n generalizing l with
  | zero => rfl
  | succ n ih =>
    have hd : List.drop m (l.map f) = (l.drop m).map f := by simp
    have ht : List.take m (l.map f) = (l.take m).map f := by simp
    simp only [chunks, List.map_cons, hd, ht, ih]

/-- the spatial marginal at factor `s` is the unscaled spatial marginal times `s` -/
theorem spatialCounts_scale (F : Forecast) (s : Rat) :
    spatialCounts { F with scale := s } = (spatialCounts { F with scale := 1 }).map (· * s) := by
  have h1 : data { F with scale := 1 } = F.base := by simp [data]
  have h2 : data { F with scale := s } = F.base.map (· * s) := rfl
  simp only [spatialCounts, rowsOf, h1, h2, chunks_map, List.map_map]
  apply List.map_congr_left
  intro r _
  simp [Function.comp, sum_map_mul_right]

/-! ### the map layout -/

/-- cells hashed elsewhere do not touch node `p` -/
theorem hashLoop_skip (p : Nat × Nat) (L : List (Cell × (Nat × Nat))) (k : Nat) (st : Bool × Option Nat)
    (h : p ∉ L.map Prod.snd) : hashLoop p L k st = st := by
  induction L generalizing k st with
  | nil => rfl
  | cons e L ih =>
    obtain ⟨c, q⟩ := e
    simp only [List.map_cons, List.mem_cons, not_or] at h
    have hq : ¬ q = p := fun e => h.1 e.symm
    simp only [hashLoop, if_neg hq]
    exact ih _ _ h.2

/-- with distinct positions, the node of cell `n` shows cell `n`, and its mask is open iff the cell's flag is 1 -/
theorem hashLoop_hit (p : Nat × Nat) (L : List (Cell × (Nat × Nat))) (k : Nat) (st : Bool × Option Nat) (n : Nat) (c : Cell)
    (hnd : (L.map Prod.snd).Nodup) (hn : L[n]? = some (c, p)) :
    hashLoop p L k st = (st.1 || decide (c.flag = 1), some (k + n)) := by
  induction L generalizing k st n with
  | nil => simp at hn
  | cons e L ih =>
    obtain ⟨c', q⟩ := e
    simp only [List.map_cons, List.nodup_cons] at hnd
    cases n with
    | zero =>
      simp only [List.getElem?_cons_zero, Option.some.injEq, Prod.mk.injEq] at hn
      obtain ⟨rfl, rfl⟩ := hn
      simp only [hashLoop, if_true]
      rw [hashLoop_skip _ _ _ _ hnd.1]; rfl
    | succ n =>
      simp only [List.getElem?_cons_succ] at hn
      have hmem : p ∈ L.map Prod.snd := by
        have := List.mem_of_getElem? hn
        exact List.mem_map.mpr ⟨(c, p), this, rfl⟩
      have hq : ¬ q = p := fun e => hnd.1 (e ▸ hmem)
      simp only [hashLoop, if_neg hq]
      rw [ih (k + 1) st n hnd.2 hn]
      congr 2; omega

/-- the mask of a node stays closed when every cell hashed there has a flag other than 1 -/
theorem hashLoop_mask (p : Nat × Nat) (L : List (Cell × (Nat × Nat))) (k : Nat) (st : Bool × Option Nat)
    (h : ∀ e ∈ L, e.2 = p → e.1.flag ≠ 1) : (hashLoop p L k st).1 = st.1 := by
  induction L generalizing k st with
  | nil => rfl
  | cons e L ih =>
    obtain ⟨c, q⟩ := e
    simp only [hashLoop]
    rw [ih _ _ (fun e he => h e (List.mem_cons_of_mem _ he))]
    split
    · rename_i hq
      have := h (c, q) List.mem_cons_self hq
      simp [this]
    · rfl

/-- what node `p` shows, as a sum over the cells (at most one term is not zero when positions are distinct);
    `w` lists the cells' values, aligned with `L` -/
def valAt : List (Cell × (Nat × Nat)) → List Rat → Nat × Nat → Rat
  | [], _, _ => 0
  | (c, q) :: rest, w, p => (if q = p ∧ c.flag = 1 then w.head?.getD 0 else 0) + valAt rest w.tail p

theorem valAt_not_mem (L : List (Cell × (Nat × Nat))) (w : List Rat) (p : Nat × Nat) (h : p ∉ L.map Prod.snd) :
    valAt L w p = 0 := by
  induction L generalizing w with
  | nil => rfl
  | cons e L ih =>
    obtain ⟨c, q⟩ := e
    simp only [List.map_cons, List.mem_cons, not_or] at h
    have hq : ¬ q = p := fun e => h.1 e.symm
    simp [valAt, hq, ih _ h.2]

/-- the value `get_cartesian` writes at a node (NaN counted as 0) -/
def shown (v : List Rat) (st : Bool × Option Nat) : Rat := ((if st.1 then st.2 else none).bind (fun k => v[k]?)).getD 0

theorem shown_hashLoop (p : Nat × Nat) (L : List (Cell × (Nat × Nat))) (k : Nat) (st : Bool × Option Nat) (v : List Rat)
    (hnd : (L.map Prod.snd).Nodup) (hst : st.1 = false) :
    shown v (hashLoop p L k st) = valAt L (v.drop k) p := by
  induction L generalizing k st with
  | nil => simp [hashLoop, shown, hst, valAt]
  | cons e L ih =>
    obtain ⟨c, q⟩ := e
    simp only [List.map_cons, List.nodup_cons] at hnd
    have htail : (v.drop k).tail = v.drop (k + 1) := by simp [List.tail_drop]
    simp only [hashLoop, valAt, htail]
    by_cases hq : q = p
    · subst hq
      rw [if_pos rfl, hashLoop_skip _ _ _ _ hnd.1, valAt_not_mem _ _ _ hnd.1]
      by_cases hf : c.flag = 1
      · simp [shown, hst, hf, List.head?_drop]
      · simp [shown, hst, hf]
    · rw [if_neg hq, ih (k + 1) st hnd.2 hst]
      simp [hq]

theorem sum_range_ite (n b : Nat) (x : Rat) :
    ((List.range n).map (fun j => if b = j then x else 0)).sum = if b < n then x else 0 := by
  induction n with
  | zero => simp
  | succ n ih =>
    rw [List.range_succ, List.map_append, List.sum_append, ih]
    by_cases h1 : b < n
    · have : ¬ b = n := by omega
      simp [h1, this, Nat.lt_succ_of_lt h1]
    · by_cases h2 : b = n
      · subst h2; simp
      · have : ¬ b < n + 1 := by omega
        simp [h1, h2, this]

theorem sum_map_add' {α} (l : List α) (f g : α → Rat) :
    (l.map (fun a => f a + g a)).sum = (l.map f).sum + (l.map g).sum := by
  induction l with
  | nil => simp
  | cons a l ih => simp only [List.map_cons, List.sum_cons, ih]; ring

theorem sum_map_zero {α} (l : List α) : (l.map (fun _ => (0 : Rat))).sum = 0 := by
  induction l with
  | nil => rfl
  | cons a l ih => simp only [List.map_cons, List.sum_cons, ih]; ring

/-- summing a map layout over all nodes -/
def gridSum (ny nx : Nat) (f : Nat × Nat → Rat) : Rat :=
  ((List.range ny).map (fun i => ((List.range nx).map (fun j => f (i, j))).sum)).sum

theorem gridSum_add (ny nx : Nat) (f g : Nat × Nat → Rat) :
    gridSum ny nx (fun p => f p + g p) = gridSum ny nx f + gridSum ny nx g := by
  unfold gridSum
  rw [← sum_map_add']
  congr 1
  apply List.map_congr_left
  intro i _
  exact sum_map_add' _ _ _

theorem gridSum_zero (ny nx : Nat) : gridSum ny nx (fun _ => 0) = 0 := by
  unfold gridSum
  simp only [sum_map_zero]

theorem gridSum_indicator (ny nx : Nat) (q : Nat × Nat) (x : Rat) (h1 : q.1 < ny) (h2 : q.2 < nx) :
    gridSum ny nx (fun p => if q = p then x else 0) = x := by
  unfold gridSum
  obtain ⟨a, b⟩ := q
  have inner : ∀ i, ((List.range nx).map (fun j => if (a, b) = (i, j) then x else 0)).sum = if a = i then x else 0 := by
    intro i
    by_cases hi : a = i
    · subst hi
      have : (fun j => if (a, b) = (a, j) then x else (0 : Rat)) = fun j => if b = j then x else 0 := by
        funext j; simp
      rw [this, sum_range_ite]; simp [show b < nx from h2]
    · have : (fun j => if (a, b) = (i, j) then x else (0 : Rat)) = fun _ => 0 := by
        funext j; simp [hi]
      rw [this, sum_map_zero]; simp [hi]
  simp only [inner]
  rw [sum_range_ite]; simp [show a < ny from h1]

/-- the sum of the values of the cells whose flag is 1 -/
def flaggedSum : List (Cell × (Nat × Nat)) → List Rat → Rat
  | [], _ => 0
  | (c, _) :: rest, w => (if c.flag = 1 then w.head?.getD 0 else 0) + flaggedSum rest w.tail

theorem gridSum_valAt (ny nx : Nat) (L : List (Cell × (Nat × Nat))) (w : List Rat)
    (hin : ∀ e ∈ L, e.2.1 < ny ∧ e.2.2 < nx) : gridSum ny nx (valAt L w) = flaggedSum L w := by
  induction L generalizing w with
  | nil => simp only [flaggedSum]; exact gridSum_zero ny nx
  | cons e L ih =>
    obtain ⟨c, q⟩ := e
    have hq := hin (c, q) List.mem_cons_self
    have : valAt ((c, q) :: L) w = fun p => (if q = p ∧ c.flag = 1 then w.head?.getD 0 else 0) + valAt L w.tail p := by
      funext p; rfl
    rw [this, gridSum_add, ih w.tail (fun e he => hin e (List.mem_cons_of_mem _ he))]
    simp only [flaggedSum]
    congr 1
    by_cases hf : c.flag = 1
    · simp only [hf, and_true, if_true]
      exact gridSum_indicator ny nx q _ hq.1 hq.2
    · simp only [hf, and_false, if_false]
      exact gridSum_zero ny nx

theorem flaggedSum_all (L : List (Cell × (Nat × Nat))) (w : List Rat) (hf : ∀ e ∈ L, e.1.flag = 1)
    (hl : w.length = L.length) : flaggedSum L w = w.sum := by
  induction L generalizing w with
  | nil =>
    have : w = [] := List.eq_nil_of_length_eq_zero (by simpa using hl)
    subst this; rfl
  | cons e L ih =>
    obtain ⟨c, q⟩ := e
    cases w with
    | nil => simp at hl
    | cons x w =>
      have := hf (c, q) List.mem_cons_self
      simp only at this
      simp only [flaggedSum, this, if_true, List.head?_cons, Option.getD_some, List.tail_cons, List.sum_cons]
      rw [ih w (fun e he => hf e (List.mem_cons_of_mem _ he)) (by simpa using hl)]


end ForecastFile
