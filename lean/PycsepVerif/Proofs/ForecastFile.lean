import PycsepVerif.Model.ForecastFile
import Mathlib.Tactic.Linarith
import Mathlib.Tactic.Ring
import Mathlib.Algebra.Order.Ring.Rat

/-! Helper lemmas for C11. -/
namespace ForecastFile

/-! ### uniqFirst -/
section Uniq
variable {α : Type} [DecidableEq α]

theorem uniqFirst_cons (a : α) (l : List α) :
    uniqFirst (a :: l) = a :: (uniqFirst l).filter (fun b => decide (b ≠ a)) := rfl

theorem mem_uniqFirst {l : List α} {a : α} : a ∈ uniqFirst l ↔ a ∈ l := by
  induction l with
  | nil => simp [uniqFirst]
  | cons b l ih =>
    rw [uniqFirst_cons]
    by_cases h : a = b
    · subst h; simp
    · simp [List.mem_filter, ih, h]

theorem nodup_uniqFirst (l : List α) : (uniqFirst l).Nodup := by
  induction l with
  | nil => simp [uniqFirst]
  | cons b l ih =>
    rw [uniqFirst_cons, List.nodup_cons]
    refine ⟨?_, ih.sublist List.filter_sublist⟩
    simp [List.mem_filter]

theorem uniqFirst_map_of_injective {β : Type} [DecidableEq β] (g : α → β) (hg : Function.Injective g) (l : List α) :
    uniqFirst (l.map g) = (uniqFirst l).map g := by
  induction l with
  | nil => rfl
  | cons a l ih =>
    rw [List.map_cons, uniqFirst_cons, uniqFirst_cons, ih, List.map_cons, List.filter_map]
    congr 2
    apply List.filter_congr
    intro b _
    simp [Function.comp, hg.eq_iff]

end Uniq

/-! ### row-major product -/
theorem product_cons {α β} (x : α) (xs : List α) (ys : List β) :
    product (x :: xs) ys = ys.map (fun y => (x, y)) ++ product xs ys := by
  simp [product]

theorem product_length {α β} (xs : List α) (ys : List β) : (product xs ys).length = xs.length * ys.length := by
  induction xs with
  | nil => simp [product]
  | cons x xs ih => rw [product_cons, List.length_append, List.length_map, ih, List.length_cons]; ring

/-- position `p` of the row-major product is cell `i`, edge `k` with `p = i·M + k` -/
theorem product_getElem? {α β} (xs : List α) (ys : List β) (p : Nat) (x : α) (y : β)
    (h : (product xs ys)[p]? = some (x, y)) :
    ∃ i k, p = i * ys.length + k ∧ k < ys.length ∧ xs[i]? = some x ∧ ys[k]? = some y := by
  induction xs generalizing p with
  | nil => simp [product] at h
  | cons x' xs ih =>
    rw [product_cons] at h
    by_cases hp : p < ys.length
    · rw [List.getElem?_append_left (by simpa using hp), List.getElem?_map] at h
      cases hy : ys[p]? with
      | none => simp [hy] at h
      | some y' =>
        simp [hy] at h
        exact ⟨0, p, by simp, hp, by simp [h.1], by simp [hy, h.2]⟩
    · have hp' : ys.length ≤ p := Nat.le_of_not_lt hp
      rw [List.getElem?_append_right (by simpa using hp'), List.length_map] at h
      obtain ⟨i, k, h1, h2, h3, h4⟩ := ih (p - ys.length) h
      refine ⟨i + 1, k, ?_, h2, by simpa using h3, h4⟩
      rw [Nat.add_mul, Nat.one_mul]; omega

/-! ### findIdx on magnitudes -/
theorem magIndex_eq (mags : List Rat) (m : Rat) (k : Nat) (hk : k < mags.length)
    (hle : ∀ j (hj : j < mags.length), j ≤ k → mags[j] ≤ m)
    (hgt : ∀ j (hj : j < mags.length), k < j → m < mags[j]) :
    getMagnitudeIndex mags m = some k := by
  unfold getMagnitudeIndex
  have hj : mags.findIdx (fun e => decide (m < e)) = k + 1 := by
    by_cases hlast : k + 1 < mags.length
    · rw [List.findIdx_eq hlast]
      refine ⟨by simpa using hgt (k + 1) hlast (Nat.lt_succ_self k), ?_⟩
      intro j hj
      have : mags[j] ≤ m := hle j (by omega) (by omega)
      simpa using this
    · have : mags.length = k + 1 := by omega
      rw [← this, List.findIdx_eq_length]
      intro x hx
      obtain ⟨j, hj, rfl⟩ := List.getElem_of_mem hx
      have : mags[j] ≤ m := hle j hj (by omega)
      simpa using this
  simp [hj]

/-! ### chunks, row and column sums -/
theorem chunks_sum (m n : Nat) (l : List Rat) (h : l.length = n * m) :
    ((chunks m n l).map List.sum).sum = l.sum := by
  induction n generalizing l with
  | zero =>
    have : l = [] := List.eq_nil_of_length_eq_zero (by simpa using h)
    subst this; simp [chunks]
  | succ n ih =>
    have hd : (l.drop m).length = n * m := by rw [List.length_drop, h, Nat.succ_mul]; omega
    simp only [chunks, List.map_cons, List.sum_cons, ih _ hd]
    conv_rhs => rw [← List.take_append_drop m l]
    rw [List.sum_append]

theorem chunks_length (m n : Nat) (l : List Rat) (h : l.length = n * m) :
    ∀ r ∈ chunks m n l, r.length = m := by
  induction n generalizing l with
  | zero => simp [chunks]
  | succ n ih =>
    have hd : (l.drop m).length = n * m := by rw [List.length_drop, h, Nat.succ_mul]; omega
    intro r hr
    simp only [chunks, List.mem_cons] at hr
    rcases hr with rfl | hr
    · rw [List.length_take, h, Nat.succ_mul]; omega
    · exact ih _ hd r hr

theorem addRows_length (a b : List Rat) (h : a.length = b.length) : (addRows a b).length = b.length := by
  induction a generalizing b with
  | nil => cases b <;> simp_all [addRows]
  | cons x a ih =>
    cases b with
    | nil => simp at h
    | cons y b => simp [addRows, ih b (by simpa using h)]

theorem addRows_sum (a b : List Rat) (h : a.length = b.length) : (addRows a b).sum = a.sum + b.sum := by
  induction a generalizing b with
  | nil => cases b <;> simp_all [addRows]
  | cons x a ih =>
    cases b with
    | nil => simp at h
    | cons y b =>
      simp only [addRows, List.sum_cons, ih b (by simpa using h)]; ring

theorem sum_replicate_zero (m : Nat) : (List.replicate m (0 : Rat)).sum = 0 := by
  induction m with
  | zero => rfl
  | succ m ih => rw [List.replicate_succ, List.sum_cons, ih]; ring

theorem foldr_addRows (m : Nat) (rows : List (List Rat)) (h : ∀ r ∈ rows, r.length = m) :
    (rows.foldr addRows (List.replicate m 0)).length = m ∧
    (rows.foldr addRows (List.replicate m 0)).sum = (rows.map List.sum).sum := by
  induction rows with
  | nil => simp [sum_replicate_zero]
  | cons r rows ih =>
    obtain ⟨h1, h2⟩ := ih (fun r' hr' => h r' (List.mem_cons_of_mem _ hr'))
    have hr : r.length = m := h r List.mem_cons_self
    simp only [List.foldr_cons, List.map_cons, List.sum_cons]
    refine ⟨by rw [addRows_length _ _ (by rw [hr, h1]), h1], ?_⟩
    rw [addRows_sum _ _ (by rw [hr, h1]), h2]

end ForecastFile
