import PycsepVerif.Proofs.NumberTest
import PycsepVerif.Proofs.NbdSum
import Mathlib.Topology.Algebra.InfiniteSum.Order
import Mathlib.Order.Monotone.Basic

/-! Stochastic ordering of count laws from a monotone likelihood ratio (C07, round 4).

`partial_le_of_mlr`: two mass functions on ℕ that both sum to one, `f` positive, `g k / f k` non-decreasing in `k`
(stated cross-multiplied): then every lower partial sum of `g` is at most that of `f` (the law `g` is stochastically
larger). No calculus: below the crossing index the terms are ordered, above it the tails are.

Applied to the negative-binomial masses of `Model/NumberTest.lean`: larger `r` (same `p`) and smaller `p` (same `r`)
both move the law up. This is what decides the property's "delta1 non-decreasing, delta2 non-increasing in the
forecast mean" for the NBD N-test (Properties/C07_Deep.lean). -/
namespace NumberTest
open Finset

theorem partial_le_of_mlr {f g : ℕ → ℝ} (hf : ∀ k, 0 < f k) (hsf : HasSum f 1) (hsg : HasSum g 1)
    (hmlr : ∀ k, g k * f (k + 1) ≤ g (k + 1) * f k) (n : ℕ) :
    ∑ j ∈ range (n + 1), g j ≤ ∑ j ∈ range (n + 1), f j := by
  -- the likelihood ratio is monotone
  have hρ : Monotone (fun k => g k / f k) := by
    apply monotone_nat_of_le_succ
    intro k
    rw [div_le_div_iff₀ (hf k) (hf (k + 1))]
    exact hmlr k
  by_cases hc : g n / f n ≤ 1
  · -- all terms up to n are ordered
    apply Finset.sum_le_sum
    intro j hj
    have hjn : j ≤ n := Nat.lt_succ_iff.mp (Finset.mem_range.mp hj)
    have h1 : g j / f j ≤ 1 := (hρ hjn).trans hc
    exact (div_le_one (hf j)).mp h1
  · -- all terms from n on are ordered the other way: compare the upper tails
    have hc' : 1 < g n / f n := not_le.mp hc
    have htail : ∀ j, f (j + (n + 1)) ≤ g (j + (n + 1)) := by
      intro j
      have h1 : 1 < g (j + (n + 1)) / f (j + (n + 1)) := lt_of_lt_of_le hc' (hρ (by omega))
      exact ((one_lt_div (hf _)).mp h1).le
    have hf' := hsf.summable.sum_add_tsum_nat_add (n + 1)
    have hg' := hsg.summable.sum_add_tsum_nat_add (n + 1)
    rw [hsf.tsum_eq] at hf'
    rw [hsg.tsum_eq] at hg'
    have hle : ∑' j, f (j + (n + 1)) ≤ ∑' j, g (j + (n + 1)) :=
      ((summable_nat_add_iff (n + 1)).mpr hsf.summable).tsum_le_tsum htail
        ((summable_nat_add_iff (n + 1)).mpr hsg.summable)
    linarith

theorem nbRatio_pos {r p : ℝ} (hr : 0 < r) (hp : p < 1) (k : ℕ) : 0 < nbRatio r p k := by
  simp only [nbRatio, RealOps.real_div, RealOps.real_mul, RealOps.real_ofNat, RealOps.real_add,
    RealOps.real_sub, RealOps.real_one]
  have h3 : 0 < 1 - p := by linarith
  positivity

theorem nbPmf_pos {r p : ℝ} (hr : 0 < r) (hp : p < 1) (k : ℕ) : 0 < nbPmf r p k := by
  induction k with
  | zero => simp only [nbPmf, RealOps.real_exp]; positivity
  | succ k ih => rw [nbPmf_ratio]; exact mul_pos ih (nbRatio_pos hr hp k)

/-- larger `r` at the same `p`: every lower partial sum goes down -/
theorem nb_partial_anti_r {r r' p : ℝ} (hr : 0 < r) (hrr : r ≤ r') (hp0 : 0 < p) (hp1 : p < 1) (n : ℕ) :
    ∑ j ∈ range (n + 1), nbPmf r' p j ≤ ∑ j ∈ range (n + 1), nbPmf r p j := by
  have hr' : 0 < r' := lt_of_lt_of_le hr hrr
  apply partial_le_of_mlr (nbPmf_pos hr hp1) (nbPmf_hasSum hp0 hp1.le) (nbPmf_hasSum hp0 hp1.le)
  intro k
  rw [nbPmf_ratio r p k, nbPmf_ratio r' p k]
  have hg := (nbPmf_pos hr' hp1 k).le
  have hfk := (nbPmf_pos hr hp1 k).le
  have hle : nbRatio r p k ≤ nbRatio r' p k := by
    simp only [nbRatio, RealOps.real_div, RealOps.real_mul, RealOps.real_ofNat, RealOps.real_add,
      RealOps.real_sub, RealOps.real_one]
    have h3 : 0 ≤ 1 - p := by linarith
    have h1 : (0 : ℝ) < ((k + 1 : ℕ) : ℝ) := by positivity
    apply div_le_div_of_nonneg_right _ h1.le
    apply mul_le_mul_of_nonneg_right _ h3
    linarith
  calc nbPmf r' p k * (nbPmf r p k * nbRatio r p k)
      = (nbPmf r' p k * nbPmf r p k) * nbRatio r p k := by ring
    _ ≤ (nbPmf r' p k * nbPmf r p k) * nbRatio r' p k :=
        mul_le_mul_of_nonneg_left hle (mul_nonneg hg hfk)
    _ = nbPmf r' p k * nbRatio r' p k * nbPmf r p k := by ring

/-- smaller `p` at the same `r`: every lower partial sum goes down -/
theorem nb_partial_mono_p {r p p' : ℝ} (hr : 0 < r) (hp0 : 0 < p') (hpp : p' ≤ p) (hp1 : p < 1) (n : ℕ) :
    ∑ j ∈ range (n + 1), nbPmf r p' j ≤ ∑ j ∈ range (n + 1), nbPmf r p j := by
  have hp0' : 0 < p := lt_of_lt_of_le hp0 hpp
  have hp1' : p' < 1 := lt_of_le_of_lt hpp hp1
  apply partial_le_of_mlr (nbPmf_pos hr hp1) (nbPmf_hasSum hp0' hp1.le) (nbPmf_hasSum hp0 hp1'.le)
  intro k
  rw [nbPmf_ratio r p k, nbPmf_ratio r p' k]
  have hg := (nbPmf_pos hr hp1' k).le
  have hfk := (nbPmf_pos hr hp1 k).le
  have hle : nbRatio r p k ≤ nbRatio r p' k := by
    simp only [nbRatio, RealOps.real_div, RealOps.real_mul, RealOps.real_ofNat, RealOps.real_add,
      RealOps.real_sub, RealOps.real_one]
    have h1 : (0 : ℝ) < ((k + 1 : ℕ) : ℝ) := by positivity
    have h2 : (0 : ℝ) ≤ r + (k : ℝ) := by positivity
    apply div_le_div_of_nonneg_right _ h1.le
    apply mul_le_mul_of_nonneg_left _ h2
    linarith
  calc nbPmf r p' k * (nbPmf r p k * nbRatio r p k)
      = (nbPmf r p' k * nbPmf r p k) * nbRatio r p k := by ring
    _ ≤ (nbPmf r p' k * nbPmf r p k) * nbRatio r p' k :=
        mul_le_mul_of_nonneg_left hle (mul_nonneg hg hfk)
    _ = nbPmf r p' k * nbRatio r p' k * nbPmf r p k := by ring

/-- both at once: r ≤ r', p' ≤ p -/
theorem nb_partial_anti {r r' p p' : ℝ} (hr : 0 < r) (hrr : r ≤ r') (hp0 : 0 < p') (hpp : p' ≤ p) (hp1 : p < 1)
    (n : ℕ) : ∑ j ∈ range (n + 1), nbPmf r' p' j ≤ ∑ j ∈ range (n + 1), nbPmf r p j :=
  (nb_partial_mono_p (lt_of_lt_of_le hr hrr) hp0 hpp hp1 n).trans
    (nb_partial_anti_r hr hrr (lt_of_lt_of_le hp0 hpp) hp1 n)

/-- the same ordering argument for the Poisson law (an independent, calculus-free proof of the monotonicity in μ) -/
theorem pois_partial_anti_mlr {μ μ' : ℝ} (hμ : 0 < μ) (h : μ ≤ μ') (n : ℕ) :
    ∑ j ∈ range (n + 1), poisPmf μ' j ≤ ∑ j ∈ range (n + 1), poisPmf μ j := by
  have hμ' : 0 < μ' := lt_of_lt_of_le hμ h
  have hpos : ∀ {m : ℝ}, 0 < m → ∀ k, 0 < poisPmf m k := by
    intro m hm k; rw [poisPmf_eq]; positivity
  apply partial_le_of_mlr (hpos hμ) (poisPmf_hasSum μ) (poisPmf_hasSum μ')
  intro k
  rw [poisPmf_ratio μ k, poisPmf_ratio μ' k]
  have hle : poisRatio μ k ≤ poisRatio μ' k := by
    simp only [poisRatio, RealOps.real_div, RealOps.real_ofNat]
    have h1 : (0 : ℝ) < ((k + 1 : ℕ) : ℝ) := by positivity
    exact div_le_div_of_nonneg_right h h1.le
  calc poisPmf μ' k * (poisPmf μ k * poisRatio μ k)
      = (poisPmf μ' k * poisPmf μ k) * poisRatio μ k := by ring
    _ ≤ (poisPmf μ' k * poisPmf μ k) * poisRatio μ' k :=
        mul_le_mul_of_nonneg_left hle (mul_nonneg (hpos hμ' k).le (hpos hμ k).le)
    _ = poisPmf μ' k * poisRatio μ' k * poisPmf μ k := by ring

/-! evaluation helpers for concrete witnesses -/

theorem nbPmf_zero_nat (r : ℕ) {p : ℝ} (hp : 0 < p) : nbPmf (r : ℝ) p 0 = p ^ r := by
  simp only [nbPmf, RealOps.real_exp, RealOps.real_mul, RealOps.real_log]
  rw [Real.exp_nat_mul, Real.exp_log hp]

theorem nbPmf_succ_real (r p : ℝ) (k : ℕ) :
    nbPmf r p (k + 1) = nbPmf r p k * (r + (k : ℝ)) * (1 - p) / ((k : ℝ) + 1) := by
  simp only [nbPmf, RealOps.real_div, RealOps.real_mul, RealOps.real_add, RealOps.real_sub, RealOps.real_one,
    RealOps.real_ofNat]
  push_cast; ring

end NumberTest
