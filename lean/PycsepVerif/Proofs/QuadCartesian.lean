import PycsepVerif.Model.QuadCartesian
import PycsepVerif.Proofs.Quadtree

/-! helper lemmas for the Cartesian view of a quadtree grid (Model/QuadCartesian.lean) -/
namespace Quadtree

/-! ### `numpy.unique` -/

theorem mem_insertUniq (a x : Rat) : ∀ l : List Rat, a ∈ insertUniq x l ↔ a = x ∨ a ∈ l
  | [] => by simp [insertUniq]
  | y :: ys => by
    unfold insertUniq
    by_cases h1 : x < y
    · simp [h1]
    · by_cases h2 : x = y
      · subst h2; simp
      · simp only [h1, h2, if_false, List.mem_cons, mem_insertUniq a x ys]
        constructor
        · rintro (h | h | h)
          · exact Or.inr (Or.inl h)
          · exact Or.inl h
          · exact Or.inr (Or.inr h)
        · rintro (h | h | h)
          · exact Or.inr (Or.inl h)
          · exact Or.inl h
          · exact Or.inr (Or.inr h)

theorem mem_unique (a : Rat) : ∀ l : List Rat, a ∈ unique l ↔ a ∈ l
  | [] => by simp [unique]
  | x :: xs => by
    have ih := mem_unique a xs
    unfold unique at ih ⊢
    rw [List.foldr_cons, mem_insertUniq, ih]
    simp

theorem insertUniq_sorted (x : Rat) : ∀ l : List Rat, l.Pairwise (· < ·) → (insertUniq x l).Pairwise (· < ·)
  | [], _ => by simp [insertUniq]
  | y :: ys, h => by
    unfold insertUniq
    have hy := List.pairwise_cons.mp h
    by_cases h1 : x < y
    · simp only [h1, if_true]
      refine List.pairwise_cons.mpr ⟨?_, h⟩
      intro a ha
      rcases List.mem_cons.mp ha with rfl | ha
      · exact h1
      · exact lt_trans h1 (hy.1 a ha)
    · by_cases h2 : x = y
      · simp [h2, h]
      · simp only [h1, h2, if_false]
        refine List.pairwise_cons.mpr ⟨?_, insertUniq_sorted x ys hy.2⟩
        intro a ha
        rcases (mem_insertUniq a x ys).mp ha with rfl | ha
        · exact lt_of_le_of_ne (not_lt.mp h1) (fun e => h2 e.symm)
        · exact hy.1 a ha

/-- the result of `numpy.unique` is strictly increasing -/
theorem unique_sorted : ∀ l : List Rat, (unique l).Pairwise (· < ·)
  | [] => by simp [unique]
  | x :: xs => by
    have ih := unique_sorted xs
    unfold unique at ih ⊢
    rw [List.foldr_cons]
    exact insertUniq_sorted x _ ih

/-! ### all results or the first exception -/

theorem allOk_eq_ok_iff {ε α : Type} : ∀ (l : List (Except ε α)) (r : List α), allOk l = .ok r ↔ l = r.map .ok
  | [], r => by
    unfold allOk
    constructor
    · intro h; cases h; rfl
    · intro h
      cases r with
      | nil => rfl
      | cons a r => simp at h
  | .error e :: rest, r => by
    unfold allOk
    constructor
    · intro h; cases h
    · intro h
      cases r with
      | nil => simp at h
      | cons a r => simp at h
  | .ok a :: rest, r => by
    unfold allOk
    cases h : allOk rest with
    | error e =>
      simp only [reduceCtorEq, false_iff]
      intro hcon
      cases r with
      | nil => simp at hcon
      | cons b r =>
        simp only [List.map_cons, List.cons.injEq] at hcon
        have := (allOk_eq_ok_iff rest r).mpr hcon.2
        rw [h] at this; cases this
    | ok l =>
      have ih := (allOk_eq_ok_iff rest l).mp h
      simp only [Except.ok.injEq]
      constructor
      · intro hr; subst hr; simp [ih]
      · intro hcon
        cases r with
        | nil => simp at hcon
        | cons b r =>
          simp only [List.map_cons, List.cons.injEq, Except.ok.injEq] at hcon
          have h2 := (allOk_eq_ok_iff rest r).mpr hcon.2
          rw [h] at h2
          cases h2
          rw [hcon.1]

theorem allOk_error_mem {ε α : Type} : ∀ (l : List (Except ε α)) (e : ε), allOk l = .error e → .error e ∈ l
  | [], e, h => by unfold allOk at h; cases h
  | .error e' :: rest, e, h => by
    unfold allOk at h; cases h; exact List.mem_cons_self
  | .ok a :: rest, e, h => by
    unfold allOk at h
    cases hr : allOk rest with
    | error e'' =>
      rw [hr] at h
      cases h
      exact List.mem_cons_of_mem _ (allOk_error_mem rest e hr)
    | ok l => rw [hr] at h; cases h

/-- no exception among the entries: a result -/
theorem allOk_of_all_ok {ε α : Type} : ∀ (l : List (Except ε α)), (∀ x ∈ l, ∃ a, x = .ok a) → ∃ r, allOk l = .ok r
  | [], _ => ⟨[], rfl⟩
  | x :: rest, h => by
    obtain ⟨a, rfl⟩ := h x List.mem_cons_self
    obtain ⟨r, hr⟩ := allOk_of_all_ok rest (fun y hy => h y (List.mem_cons_of_mem _ hy))
    exact ⟨a :: r, by unfold allOk; rw [hr]⟩

/-! ### the index map -/

/-- the index map exists ⇔ every lattice point (unique west edge, unique south edge) lies in some cell; its entries are
    the located cells -/
theorem idxMap_eq_ok_iff (cells : List Key) (m : List (List Nat)) :
    idxMap cells = .ok m ↔
      m.length = (cartYs cells).length ∧
      ∀ (j : Nat) (y : Rat), (cartYs cells)[j]? = some y → ∃ row : List Nat, m[j]? = some row ∧
        row.length = (cartXs cells).length ∧
        ∀ (i : Nat) (x : Rat), (cartXs cells)[i]? = some x → ∃ k, findLocation cells ⟨x, y⟩ = some k ∧ row[i]? = some k := by
  unfold idxMap
  rw [allOk_eq_ok_iff]
  constructor
  · intro h
    have hlen : m.length = (cartYs cells).length := by
      have := congrArg List.length h
      simpa using this.symm
    refine ⟨hlen, ?_⟩
    intro j y hy
    have hj : j < m.length := by rw [hlen]; exact (List.getElem?_eq_some_iff.mp hy).1
    refine ⟨m[j], List.getElem?_eq_getElem hj, ?_⟩
    have hrow := congrArg (fun l => l[j]?) h
    simp only [List.getElem?_map, hy, Option.map_some, List.getElem?_eq_getElem hj] at hrow
    have hrow' := (allOk_eq_ok_iff _ _).mp (Option.some.inj hrow)
    have hl2 : (m[j]).length = (cartXs cells).length := by
      have := congrArg List.length hrow'
      simpa using this.symm
    refine ⟨hl2, ?_⟩
    intro i x hx
    have hi : i < (m[j]).length := by rw [hl2]; exact (List.getElem?_eq_some_iff.mp hx).1
    have hent := congrArg (fun l => l[i]?) hrow'
    simp only [List.getElem?_map, hx, Option.map_some, List.getElem?_eq_getElem hi] at hent
    have hent' := Option.some.inj hent
    unfold idxEntry at hent'
    cases hf : findLocation cells ⟨x, y⟩ with
    | none => rw [hf] at hent'; cases hent'
    | some k =>
      rw [hf] at hent'
      refine ⟨k, rfl, ?_⟩
      rw [List.getElem?_eq_getElem hi]
      cases hent'; rfl
  · rintro ⟨hlen, h⟩
    apply List.ext_getElem?
    intro j
    by_cases hj : j < (cartYs cells).length
    · have hy := List.getElem?_eq_getElem hj
      obtain ⟨row, hrow, hl2, hent⟩ := h j _ hy
      simp only [List.getElem?_map, hy, hrow, Option.map_some, Option.some.injEq]
      apply (allOk_eq_ok_iff _ _).mpr
      apply List.ext_getElem?
      intro i
      by_cases hi : i < (cartXs cells).length
      · have hx := List.getElem?_eq_getElem hi
        obtain ⟨k, hk, hrk⟩ := hent i _ hx
        simp only [List.getElem?_map, hx, hrk, Option.map_some, idxEntry, hk]
      · have h1 : (cartXs cells)[i]? = none := List.getElem?_eq_none_iff.mpr (by omega)
        have h2 : row[i]? = none := List.getElem?_eq_none_iff.mpr (by omega)
        simp [List.getElem?_map, h1, h2]
    · have h1 : (cartYs cells)[j]? = none := List.getElem?_eq_none_iff.mpr (by omega)
      have h2 : m[j]? = none := List.getElem?_eq_none_iff.mpr (by omega)
      simp [List.getElem?_map, h1, h2]

/-- the only exception of the index map is "a lattice point lies in no cell" -/
theorem idxMap_error_iff (cells : List Key) :
    (∃ e, idxMap cells = .error e) ↔
      ∃ x ∈ cartXs cells, ∃ y ∈ cartYs cells, findLocation cells ⟨x, y⟩ = none := by
  constructor
  · rintro ⟨e, he⟩
    unfold idxMap at he
    have h1 := allOk_error_mem _ e he
    obtain ⟨y, hy, hrow⟩ := List.mem_map.mp h1
    have h2 := allOk_error_mem _ e hrow
    obtain ⟨x, hx, hent⟩ := List.mem_map.mp h2
    refine ⟨x, hx, y, hy, ?_⟩
    unfold idxEntry at hent
    cases hf : findLocation cells ⟨x, y⟩ with
    | none => rfl
    | some k => rw [hf] at hent; cases hent
  · rintro ⟨x, hx, y, hy, hnone⟩
    cases h : idxMap cells with
    | error e => exact ⟨e, rfl⟩
    | ok m =>
      exfalso
      obtain ⟨_, hm⟩ := (idxMap_eq_ok_iff cells m).mp h
      obtain ⟨j, hj, hjy⟩ := List.getElem_of_mem hy
      obtain ⟨i, hi, hix⟩ := List.getElem_of_mem hx
      obtain ⟨row, _, _, hent⟩ := hm j y (by rw [List.getElem?_eq_getElem hj, hjy])
      obtain ⟨k, hk, _⟩ := hent i x (by rw [List.getElem?_eq_getElem hi, hix])
      rw [hnone] at hk; cases hk

/-! ### lattice points of a grid lie in the covered domain -/

theorem corner_in_root (a : Key) : (0 ≤ xW a ∧ xW a < 1) ∧ (0 < yS a ∧ yS a ≤ 1) := by
  have hs := scale_pos a
  have e1 : xW a * scale a = tileX a := by unfold xW; field_simp
  have e4 : yS a * scale a = (tileY a : Rat) + 1 := by unfold yS; field_simp
  have hin : InTile a ⟨xW a, yS a⟩ := by
    unfold InTile; simp only [e1, e4]; refine ⟨le_refl _, by linarith, by linarith, le_refl _⟩
  have := inTile_of_prefix (List.nil_prefix (l := a)) hin
  exact (inTile_nil_iff _).mp this

theorem lattice_point_in_root (a b : Key) : InTile [] ⟨xW a, yS b⟩ :=
  (inTile_nil_iff _).mpr ⟨(corner_in_root a).1, (corner_in_root b).2⟩

end Quadtree
