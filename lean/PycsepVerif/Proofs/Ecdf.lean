import PycsepVerif.Model.Ecdf

namespace Ecdf

theorem takeWhile_eq_filter_of_sorted {p : Rat → Bool} :
    ∀ {l : List Rat}, l.Pairwise (fun a b => a ≤ b) →
      (∀ a b, a ≤ b → p b = true → p a = true) → l.takeWhile p = l.filter p
  | [], _, _ => rfl
  | a :: l, hs, hp => by
    rw [List.pairwise_cons] at hs
    by_cases ha : p a = true
    · simp [ha, takeWhile_eq_filter_of_sorted hs.2 hp]
    · have : l.filter p = [] := by
        rw [List.filter_eq_nil_iff]
        intro b hb hpb
        exact ha (hp a b (hs.1 b hb) hpb)
      simp [ha, this]

theorem sort_perm (x : List Rat) : (sort x).Perm x := List.mergeSort_perm _ _

theorem sort_sorted (x : List Rat) : (sort x).Pairwise (fun a b => a ≤ b) := by
  have h := List.pairwise_mergeSort (le := fun a b : Rat => decide (a ≤ b))
    (by intro a b c hab hbc; simp at *; exact Rat.le_trans hab hbc)
    (by intro a b; simp; exact Rat.le_total) x
  simpa [sort] using h

theorem searchLeft_sort (x : List Rat) (v : Rat) :
    searchLeft (sort x) v = x.countP (fun a => decide (a < v)) := by
  unfold searchLeft
  rw [takeWhile_eq_filter_of_sorted (sort_sorted x)]
  · rw [← List.countP_eq_length_filter]; exact (sort_perm x).countP_eq _
  · intro a b hab hb; simp at *; exact Std.lt_of_le_of_lt hab hb

theorem searchRight_sort (x : List Rat) (v : Rat) :
    searchRight (sort x) v = x.countP (fun a => decide (a ≤ v)) := by
  unfold searchRight
  rw [takeWhile_eq_filter_of_sorted (sort_sorted x)]
  · rw [← List.countP_eq_length_filter]; exact (sort_perm x).countP_eq _
  · intro a b hab hb; simp at *; exact Rat.le_trans hab hb

theorem le_getLast_of_sorted : ∀ {l : List Rat} (hne : l ≠ []), l.Pairwise (fun a b => a ≤ b) →
    ∀ a ∈ l, a ≤ l.getLast hne
  | [a], _, _, b, hb => by simp at hb; subst hb; simp
  | a :: c :: l, _, hs, b, hb => by
    rw [List.pairwise_cons] at hs
    rw [List.getLast_cons (by simp)]
    rcases List.mem_cons.mp hb with rfl | hb'
    · exact hs.1 _ (List.getLast_mem _)
    · exact le_getLast_of_sorted (by simp) hs.2 b hb'

theorem head_le_of_sorted {a : Rat} {l : List Rat} (hs : (a :: l).Pairwise (fun a b => a ≤ b)) :
    ∀ b ∈ a :: l, a ≤ b := by
  intro b hb
  rw [List.pairwise_cons] at hs
  rcases List.mem_cons.mp hb with rfl | hb'
  · exact Rat.le_refl
  · exact hs.1 _ hb'

theorem countP_ge_add_lt (x : List Rat) (v : Rat) :
    x.countP (fun a => decide (v ≤ a)) + x.countP (fun a => decide (a < v)) = x.length := by
  induction x with
  | nil => rfl
  | cons a l ih =>
    simp only [List.countP_cons, List.length_cons]
    by_cases h : a < v
    · have : ¬ v ≤ a := Rat.not_le.mpr h
      simp [h, this]; omega
    · have : v ≤ a := Rat.not_lt.mp h
      simp [h, this]; omega

theorem countP_le_add_gt (x : List Rat) (v : Rat) :
    x.countP (fun a => decide (a ≤ v)) + x.countP (fun a => decide (v < a)) = x.length := by
  induction x with
  | nil => rfl
  | cons a l ih =>
    simp only [List.countP_cons, List.length_cons]
    by_cases h : a ≤ v
    · have : ¬ v < a := Rat.not_lt.mpr h
      simp [h, this]; omega
    · have : v < a := Rat.not_le.mp h
      simp [h, this]; omega

end Ecdf
