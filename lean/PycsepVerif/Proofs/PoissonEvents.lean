import PycsepVerif.Properties.C05_Chain

/-! Helper lemmas for `Properties/C05_Events.lean`: double sums over (cell, bin) versus sums over events; the flattened
    (forecast, observation) pair of a rectangular rate table and a count matrix. -/

namespace PoissonTest
open RealOps PoissonLL Gridding

theorem sum_range_ite (n a : ℕ) (g : ℕ → ℝ) :
    ((List.range n).map (fun k => if k = a then g k else 0)).sum = if a < n then g a else 0 := by
  induction n with
  | zero => simp
  | succ n ih =>
    rw [List.range_succ, List.map_append, List.sum_append, ih]
    by_cases h1 : a < n
    · have : n ≠ a := by omega
      simp [h1, this, Nat.lt_succ_of_lt h1]
    · by_cases h2 : n = a
      · subst h2; simp
      · have : ¬ a < n + 1 := by omega
        simp [h1, h2, this]

/-- Σ over all (cell, bin) of count·f = Σ over events of f at the event's own (cell, bin) -/
theorem sum_counts_mul_eq_sum_events (ncell nbin : ℕ) (f : ℕ → ℕ → ℝ) : ∀ (evs : List Ev), InRange ncell nbin evs →
    ((List.range ncell).map (fun i => ((List.range nbin).map (fun k =>
        ((evs.countP (fun e => e.cell == some i && e.bin == some k) : ℕ) : ℝ) * f i k)).sum)).sum
      = (evs.map (fun e => f (e.cell.getD 0) (e.bin.getD 0))).sum
  | [], _ => by simp
  | e :: evs, h => by
    have ih := sum_counts_mul_eq_sum_events ncell nbin f evs (fun x hx => h x (List.mem_cons_of_mem _ hx))
    obtain ⟨⟨ci, hci, hcl⟩, ⟨bk, hbk, hbl⟩⟩ := h e List.mem_cons_self
    rw [List.map_cons, List.sum_cons, ← ih, hci, hbk]
    simp only [Option.getD_some]
    -- split the count of `e :: evs`
    have hsplit : ∀ i k, (((e :: evs).countP (fun x => x.cell == some i && x.bin == some k) : ℕ) : ℝ) * f i k =
        (if i = ci ∧ k = bk then f i k else 0) + ((evs.countP (fun x => x.cell == some i && x.bin == some k) : ℕ) : ℝ) * f i k := by
      intro i k
      rw [List.countP_cons]
      by_cases hik : i = ci ∧ k = bk
      · obtain ⟨rfl, rfl⟩ := hik
        simp [hci, hbk]; ring
      · have : (e.cell == some i && e.bin == some k) = false := by
          rw [hci, hbk]
          simp only [Bool.and_eq_false_iff, beq_eq_false_iff_ne, ne_eq, Option.some.injEq]
          by_cases h1 : ci = i
          · right; intro h2; exact hik ⟨h1.symm, h2.symm⟩
          · left; exact h1
        simp [this, hik]
    simp only [hsplit, List.sum_map_add]
    congr 1
    -- the indicator double sum picks out f ci bk
    have hinner : ∀ i, ((List.range nbin).map (fun k => if i = ci ∧ k = bk then f i k else 0)).sum =
        if i = ci then f ci bk else 0 := by
      intro i
      by_cases hi : i = ci
      · subst hi
        simp only [true_and, if_true]
        rw [sum_range_ite nbin bk (fun k => f i k), if_pos hbl]
      · simp [hi]
    simp only [hinner]
    rw [sum_range_ite ncell ci (fun _ => f ci bk), if_pos hcl]

end PoissonTest

namespace PoissonTest
open RealOps PoissonLL Gridding

/-- a rectangular (cells × magnitude bins) rate array given by its entries -/
def table (ncell nbin : ℕ) (lam : ℕ → ℕ → ℝ) : List (List ℝ) :=
  (List.range ncell).map (fun i => (List.range nbin).map (fun k => lam i k))

theorem zip_flatten_map {β γ : Type} (l : List ℕ) (f : ℕ → List β) (g : ℕ → List γ) (h : ∀ i ∈ l, (f i).length = (g i).length) :
    (l.map f).flatten.zip (l.map g).flatten = (l.map (fun i => (f i).zip (g i))).flatten := by
  induction l with
  | nil => rfl
  | cons a l ih =>
    simp only [List.map_cons, List.flatten_cons]
    rw [List.zip_append (h a List.mem_cons_self), ih (fun i hi => h i (List.mem_cons_of_mem _ hi))]

/-- the flattened (forecast, observation) pair of the L / CL tests, bin by bin -/
theorem bins_of_table (ncell nbin : ℕ) (lam : ℕ → ℕ → ℝ) (evs : List Ev) :
    (table ncell nbin lam).flatten.zip (countMatrix ncell nbin evs).flatten =
      ((List.range ncell).map (fun i => (List.range nbin).map (fun k =>
        (lam i k, evs.countP (fun e => e.cell == some i && e.bin == some k))))).flatten := by
  unfold table countMatrix
  rw [zip_flatten_map _ _ _ (by intro i _; simp)]
  congr 1
  apply List.map_congr_left
  intro i _
  rw [List.zip_map']

theorem sum_flatten_map {β : Type} (L : List (List β)) (h : β → ℝ) :
    (L.flatten.map h).sum = (L.map (fun r => (r.map h).sum)).sum := by
  induction L with
  | nil => rfl
  | cons r L ih => rw [List.flatten_cons, List.map_append, List.sum_append, ih, List.map_cons, List.sum_cons]

end PoissonTest
