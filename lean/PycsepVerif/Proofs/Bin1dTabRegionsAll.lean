import PycsepVerif.Proofs.Bin1dTabENzcx0
import PycsepVerif.Proofs.Bin1dTabENzcy0
import PycsepVerif.Proofs.Bin1dTabEItcx0
import PycsepVerif.Proofs.Bin1dTabEItcy0
import PycsepVerif.Proofs.Bin1dTabECacx0
import PycsepVerif.Proofs.Bin1dTabECacy0
/-! all region edge tables of property C02 -/
namespace Bin1d.Tables
theorem region_edges_all :
    edgesOwnBin (cfg64 false) nzcxRaw 0 148 = true ∧
    edgesOwnBin (cfg64 false) nzcyRaw 0 149 = true ∧
    edgesOwnBin (cfg64 false) itcxRaw 0 152 = true ∧
    edgesOwnBin (cfg64 false) itcyRaw 0 131 = true ∧
    edgesOwnBin (cfg64 false) cacxRaw 0 133 = true ∧
    edgesOwnBin (cfg64 false) cacyRaw 0 125 = true :=
  ⟨tabE_nzcx_0, tabE_nzcy_0, tabE_itcx_0, tabE_itcy_0, tabE_cacx_0, tabE_cacy_0⟩
end Bin1d.Tables
