import PycsepVerif.Proofs.Bin1dTables
/-! kernel-evaluated threshold table (property C02) for CSEP_MW_BINS, open mode; see Model/Bin1d.lean `thresholdsOK` -/
namespace Bin1d.Tables
theorem tabMwThr : thresholdsOK (cfg64 true) mwRaw mwThr = true := by decide +kernel
theorem mwThr_length : mwThr.length = 76 ∧ mwRaw.length = 76 := by decide
theorem mw_den_pos : 0 < denOf .f64 (ofRaw mwRaw).length (fun j => (ofRaw mwRaw).getD j 0) := by decide +kernel
end Bin1d.Tables
