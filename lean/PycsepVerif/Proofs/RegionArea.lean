import PycsepVerif.Model.RegionBuild
import Mathlib.Analysis.SpecialFunctions.Trigonometric.Basic
import Mathlib.Tactic.Ring
import Mathlib.Tactic.Linarith
import Mathlib.Tactic.FieldSimp
import Mathlib.Tactic.Positivity
/-!
# `geographical_area_from_bounds` / `get_cell_area`: closed form, additivity, positivity

The code-shaped formula (regions.py:834-844, with its `== ` short-cut) over any field equals
`2π · (C(lat2) − C(lat1)) · R² · (lon2 − lon1) / 360` with `C(lat) = cos((90 − lat)·π/180)`; hence it is additive over a
partition of a cell into latitude bands or longitude slices, and — over ℝ with the real cosine — positive for
`lon1 < lon2`, `−90 ≤ lat1 < lat2 ≤ 90`.
-/
namespace Region

section field
variable {F : Type} [Field F]

/-- the closed form -/
def areaClosed (pi : F) (cosF : F → F) (lon1 lat1 lon2 lat2 : F) : F :=
  2 * pi * (cosF ((90 - lat2) * (pi / 180)) - cosF ((90 - lat1) * (pi / 180))) * (6371 * 6371) * (lon2 - lon1) / 360

theorem areaFromBounds_eq_closed (pi : F) (cosF : F → F) (isEq : F → F → Bool) (hEq : ∀ a b, isEq a b = true ↔ a = b)
    (lon1 lat1 lon2 lat2 : F) :
    areaFromBounds pi cosF isEq lon1 lat1 lon2 lat2 = areaClosed pi cosF lon1 lat1 lon2 lat2 := by
  unfold areaFromBounds areaClosed
  by_cases h1 : lon1 = lon2
  · simp [h1]
  · by_cases h2 : lat1 = lat2
    · simp [h2]
    · have e1 : isEq lon1 lon2 = false := by
        cases h : isEq lon1 lon2 with
        | false => rfl
        | true => exact absurd ((hEq _ _).mp h) h1
      have e2 : isEq lat1 lat2 = false := by
        cases h : isEq lat1 lat2 with
        | false => rfl
        | true => exact absurd ((hEq _ _).mp h) h2
      simp only [e1, e2, Bool.or_self, Bool.false_eq_true, if_false]
      push_cast
      rw [div_div_eq_mul_div]
      ring

/-- additive over two latitude bands of the same longitude range -/
theorem area_additive_lat (pi : F) (cosF : F → F) (isEq : F → F → Bool) (hEq : ∀ a b, isEq a b = true ↔ a = b)
    (lon1 lon2 lat1 lat2 lat3 : F) :
    areaFromBounds pi cosF isEq lon1 lat1 lon2 lat2 + areaFromBounds pi cosF isEq lon1 lat2 lon2 lat3
      = areaFromBounds pi cosF isEq lon1 lat1 lon2 lat3 := by
  simp only [areaFromBounds_eq_closed pi cosF isEq hEq, areaClosed]
  ring

/-- additive over two longitude slices of the same latitude band -/
theorem area_additive_lon (pi : F) (cosF : F → F) (isEq : F → F → Bool) (hEq : ∀ a b, isEq a b = true ↔ a = b)
    (lon1 lon2 lon3 lat1 lat2 : F) :
    areaFromBounds pi cosF isEq lon1 lat1 lon2 lat2 + areaFromBounds pi cosF isEq lon2 lat1 lon3 lat2
      = areaFromBounds pi cosF isEq lon1 lat1 lon3 lat2 := by
  simp only [areaFromBounds_eq_closed pi cosF isEq hEq, areaClosed]
  ring

end field

/-- over the reals, with the real π and cosine: a cell with `lon1 < lon2`, `−90 ≤ lat1 < lat2 ≤ 90` has positive area -/
theorem area_pos_real (isEq : ℝ → ℝ → Bool) (hEq : ∀ a b, isEq a b = true ↔ a = b) (lon1 lat1 lon2 lat2 : ℝ)
    (hlon : lon1 < lon2) (h1 : -90 ≤ lat1) (h12 : lat1 < lat2) (h2 : lat2 ≤ 90) :
    0 < areaFromBounds Real.pi Real.cos isEq lon1 lat1 lon2 lat2 := by
  rw [areaFromBounds_eq_closed Real.pi Real.cos isEq hEq]
  unfold areaClosed
  have hpi := Real.pi_pos
  have hk : 0 < Real.pi / 180 := by positivity
  have ha : (90 - lat2) * (Real.pi / 180) ∈ Set.Icc 0 Real.pi := by
    constructor
    · exact mul_nonneg (by linarith) hk.le
    · have : (90 - lat2) * (Real.pi / 180) ≤ 180 * (Real.pi / 180) := mul_le_mul_of_nonneg_right (by linarith) hk.le
      have e : 180 * (Real.pi / 180) = Real.pi := by ring
      linarith
  have hb : (90 - lat1) * (Real.pi / 180) ∈ Set.Icc 0 Real.pi := by
    constructor
    · exact mul_nonneg (by linarith) hk.le
    · have : (90 - lat1) * (Real.pi / 180) ≤ 180 * (Real.pi / 180) := mul_le_mul_of_nonneg_right (by linarith) hk.le
      have e : 180 * (Real.pi / 180) = Real.pi := by ring
      linarith
  have hlt : (90 - lat2) * (Real.pi / 180) < (90 - lat1) * (Real.pi / 180) := mul_lt_mul_of_pos_right (by linarith) hk
  have hcos := Real.strictAntiOn_cos ha hb hlt
  have hd : 0 < Real.cos ((90 - lat2) * (Real.pi / 180)) - Real.cos ((90 - lat1) * (Real.pi / 180)) := by linarith
  have hl : 0 < lon2 - lon1 := by linarith
  positivity

end Region
