import PycsepVerif.Proofs.CivilDefs
/-! complete kernel enumeration of one part of the 146097-day era table (see CivilDefs.lean) -/
namespace Time
theorem era_tab0 : allPow eraCheckN 14 0 = true := by decide +kernel
theorem era_tab1 : allPow eraCheckN 14 16384 = true := by decide +kernel
theorem era_tab2 : allPow eraCheckN 14 32768 = true := by decide +kernel
end Time
