import PycsepVerif.Model.Time
import PycsepVerif.Proofs.CivilTab1
import PycsepVerif.Proofs.CivilTab2
import PycsepVerif.Proofs.CivilTab3

/-!
# Gregorian calendar: `daysFromCivil ∘ civilFromDays = id` for every day number, validity of the civil date

The 400-year era (146097 days) is enumerated completely by kernel evaluation (CivilTab1..3: a finite table, so a
proof for the era); the extension to every integer day number is the era shift, proved with `omega`.
-/
namespace Time

theorem era_checkN (n : Nat) (h : n < 146097) : eraCheckN n = true := by
  by_cases h0 : n < 16384; · exact allPow_spec era_tab0 n (by omega) (by omega)
  by_cases h1 : n < 32768; · exact allPow_spec era_tab1 n (by omega) (by omega)
  by_cases h2 : n < 49152; · exact allPow_spec era_tab2 n (by omega) (by omega)
  by_cases h3 : n < 65536; · exact allPow_spec era_tab3 n (by omega) (by omega)
  by_cases h4 : n < 81920; · exact allPow_spec era_tab4 n (by omega) (by omega)
  by_cases h5 : n < 98304; · exact allPow_spec era_tab5 n (by omega) (by omega)
  by_cases h6 : n < 114688; · exact allPow_spec era_tab6 n (by omega) (by omega)
  by_cases h7 : n < 131072; · exact allPow_spec era_tab7 n (by omega) (by omega)
  by_cases h8 : n < 139264; · exact allPow_spec era_tab8 n (by omega) (by omega)
  by_cases h9 : n < 143360; · exact allPow_spec era_tab9 n (by omega) (by omega)
  by_cases h10 : n < 145408; · exact allPow_spec era_tab10 n (by omega) (by omega)
  by_cases h11 : n < 145920; · exact allPow_spec era_tab11 n (by omega) (by omega)
  by_cases h12 : n < 146048; · exact allPow_spec era_tab12 n (by omega) (by omega)
  by_cases h13 : n < 146080; · exact allPow_spec era_tab13 n (by omega) (by omega)
  by_cases h14 : n < 146096; · exact allPow_spec era_tab14 n (by omega) (by omega)
  exact allPow_spec era_tab15 n (by omega) (by omega)

theorem isLeap_natCast (n : Nat) : isLeap (n : Int) = isLeapN n := by
  unfold isLeap isLeapN
  have e4 : ((n : Int) % 4 == 0) = Nat.beq (n % 4) 0 := by
    rw [Bool.eq_iff_iff]; simp only [beq_iff_eq, Nat.beq_eq]; omega
  have e100 : ((n : Int) % 100 != 0) = !(Nat.beq (n % 100) 0) := by
    rw [Bool.eq_iff_iff]; simp only [bne_iff_ne, ne_eq, Bool.not_eq_true', Bool.eq_false_iff, Nat.beq_eq]; omega
  have e400 : ((n : Int) % 400 == 0) = Nat.beq (n % 400) 0 := by
    rw [Bool.eq_iff_iff]; simp only [beq_iff_eq, Nat.beq_eq]; omega
  rw [e4, e100, e400]

/-- the leap rule has period 400 -/
theorem isLeap_add_400 (y k : Int) : isLeap (y + k * 400) = isLeap y := by
  unfold isLeap
  have h4 : (y + k * 400) % 4 = y % 4 := by omega
  have h100 : (y + k * 400) % 100 = y % 100 := by omega
  have h400 : (y + k * 400) % 400 = y % 400 := by omega
  rw [h4, h100, h400]

/-- month from the month index (March = 0) -/
def monthOfMp (mp : Int) : Int := if mp < 10 then mp + 3 else mp - 9

theorem dim_bridge (yoe mp : Nat) (h : mp < 12) :
    daysInMonth (if monthOfMp (mp : Int) ≤ 2 then (yoe : Int) + 1 else (yoe : Int)) (monthOfMp (mp : Int))
      = (dimN yoe mp : Int) := by
  have hcases : mp = 0 ∨ mp = 1 ∨ mp = 2 ∨ mp = 3 ∨ mp = 4 ∨ mp = 5 ∨ mp = 6 ∨ mp = 7 ∨ mp = 8 ∨ mp = 9 ∨ mp = 10
      ∨ mp = 11 := by omega
  rcases hcases with rfl | rfl | rfl | rfl | rfl | rfl | rfl | rfl | rfl | rfl | rfl | rfl
  all_goals try (simp [monthOfMp, daysInMonth, dimN]; done)
  · -- February
    have e : (yoe : Int) + 1 = ((yoe + 1 : Nat) : Int) := by push_cast; rfl
    simp only [monthOfMp, daysInMonth, dimN]
    simp only [show ¬ (((11 : Nat) : Int) < 10) from by omega, if_false,
      show ((11 : Nat) : Int) - 9 = 2 from by omega, show ((2 : Int) ≤ 2) from by omega, if_true]
    rw [e, isLeap_natCast]
    cases isLeapN (yoe + 1) <;> simp

/-- the facts of the era table, for the `Int` computation -/
theorem era_fact (doe : Int) (h0 : 0 ≤ doe) (h1 : doe < 146097) :
    0 ≤ (eraCivil doe).1 ∧ (eraCivil doe).1 < 400 ∧ 1 ≤ (eraCivil doe).2.1 ∧ (eraCivil doe).2.1 ≤ 12
      ∧ 1 ≤ (eraCivil doe).2.2
      ∧ (eraCivil doe).2.2 ≤ daysInMonth (if (eraCivil doe).2.1 ≤ 2 then (eraCivil doe).1 + 1 else (eraCivil doe).1)
          (eraCivil doe).2.1
      ∧ (eraCivil doe).1 * 365 + (eraCivil doe).1 / 4 - (eraCivil doe).1 / 100
          + ((153 * (if (eraCivil doe).2.1 > 2 then (eraCivil doe).2.1 - 3 else (eraCivil doe).2.1 + 9) + 2) / 5
              + (eraCivil doe).2.2 - 1) = doe := by
  obtain ⟨n, rfl⟩ := Int.eq_ofNat_of_zero_le h0
  have hn : n < 146097 := by omega
  have h := era_checkN n hn
  simp only [eraCheckN, Bool.and_eq_true, Nat.ble_eq, Nat.blt_eq] at h
  obtain ⟨⟨⟨⟨⟨⟨⟨ha, hc⟩, hy⟩, hy100⟩, hys⟩, hms⟩, hmp⟩, hd⟩ := h
  -- name the Nat quantities
  generalize hyoe : (n - n / 1460 + n / 36524 - n / 146096) / 365 = yoe at *
  generalize hmpv : (5 * (n - (365 * yoe + yoe / 4 - yoe / 100)) + 2) / 153 = mp at *
  generalize hdv : n - (365 * yoe + yoe / 4 - yoe / 100) - (153 * mp + 2) / 5 + 1 = d at *
  -- the Int computation is the cast of the Nat computation
  have iyoe : ((n : Int) - (n : Int) / 1460 + (n : Int) / 36524 - (n : Int) / 146096) / 365 = (yoe : Int) := by omega
  have imp : (5 * ((n : Int) - (365 * (yoe : Int) + (yoe : Int) / 4 - (yoe : Int) / 100)) + 2) / 153 = (mp : Int) := by
    omega
  have id' : (n : Int) - (365 * (yoe : Int) + (yoe : Int) / 4 - (yoe : Int) / 100) - (153 * (mp : Int) + 2) / 5 + 1
      = (d : Int) := by omega
  have eyoe : (eraCivil (n : Int)).1 = (yoe : Int) := by
    simp only [eraCivil]; exact iyoe
  have em : (eraCivil (n : Int)).2.1 = monthOfMp (mp : Int) := by
    simp only [eraCivil, monthOfMp]; rw [iyoe, imp]
  have ed : (eraCivil (n : Int)).2.2 = (d : Int) := by
    simp only [eraCivil]; rw [iyoe, imp]; exact id'
  rw [eyoe, em, ed, dim_bridge yoe mp hmp]
  have hm : monthOfMp (mp : Int) = if (mp : Int) < 10 then (mp : Int) + 3 else (mp : Int) - 9 := rfl
  refine ⟨by omega, by omega, by rw [hm]; split <;> omega, by rw [hm]; split <;> omega, by omega, by omega, ?_⟩
  rw [hm]; split <;> split <;> omega

theorem days_aux (yoe m d era doe : Int) (f1 : 0 ≤ yoe) (f2 : yoe < 400)
    (f7 : yoe * 365 + yoe / 4 - yoe / 100 + ((153 * (if m > 2 then m - 3 else m + 9) + 2) / 5 + d - 1) = doe) :
    daysFromCivil (if m ≤ 2 then yoe + era * 400 + 1 else yoe + era * 400) m d = era * 146097 + doe - 719468 := by
  simp only [daysFromCivil]
  by_cases hm : m ≤ 2
  · have hm' : ¬ (m > 2) := by omega
    simp only [hm, hm', if_true, if_false] at f7 ⊢
    have e1 : (yoe + era * 400 + 1 - 1) / 400 = era := by omega
    have e2 : yoe + era * 400 + 1 - 1 - era * 400 = yoe := by omega
    rw [e1, e2]; omega
  · have hm' : m > 2 := by omega
    simp only [hm, hm', if_true, if_false] at f7 ⊢
    have e1 : (yoe + era * 400) / 400 = era := by omega
    have e2 : yoe + era * 400 - era * 400 = yoe := by omega
    rw [e1, e2]; omega

/-- **civil round trip**: the day number of the civil date of day `z` is `z`, for every integer `z`. -/
theorem days_of_civil (z : Int) :
    daysFromCivil (civilFromDays z).1 (civilFromDays z).2.1 (civilFromDays z).2.2 = z := by
  have hr0 : 0 ≤ (z + 719468) - (z + 719468) / 146097 * 146097 := by omega
  have hr1 : (z + 719468) - (z + 719468) / 146097 * 146097 < 146097 := by omega
  obtain ⟨f1, f2, f3, f4, f5, _, f7⟩ := era_fact _ hr0 hr1
  simp only [civilFromDays]
  rw [days_aux _ _ _ _ _ f1 f2 f7]
  omega

/-- the civil date of every day number is a valid date -/
theorem civil_valid (z : Int) :
    validDate (civilFromDays z).1 (civilFromDays z).2.1 (civilFromDays z).2.2 = true := by
  have hr0 : 0 ≤ (z + 719468) - (z + 719468) / 146097 * 146097 := by omega
  have hr1 : (z + 719468) - (z + 719468) / 146097 * 146097 < 146097 := by omega
  obtain ⟨f1, f2, f3, f4, f5, f6, _⟩ := era_fact _ hr0 hr1
  simp only [civilFromDays, validDate, Bool.and_eq_true]
  refine ⟨⟨⟨decide_eq_true f3, decide_eq_true f4⟩, decide_eq_true f5⟩, ?_⟩
  apply decide_eq_true
  -- the month length only depends on the year modulo 400
  have : ∀ y m k : Int, daysInMonth (y + k * 400) m = daysInMonth y m := by
    intro y m k; unfold daysInMonth; rw [isLeap_add_400]
  split
  · rename_i h; rw [if_pos h] at f6
    have e : (eraCivil (z + 719468 - (z + 719468) / 146097 * 146097)).1 + (z + 719468) / 146097 * 400 + 1
        = ((eraCivil (z + 719468 - (z + 719468) / 146097 * 146097)).1 + 1) + (z + 719468) / 146097 * 400 := by omega
    rw [e, this]; exact f6
  · rename_i h; rw [if_neg h] at f6
    rw [this]; exact f6

/-- the year of a day in ±99422 days around the epoch (|ms| < 2^33·1000) is a four-digit year -/
theorem civil_year_range (z : Int) (h0 : -99422 ≤ z) (h1 : z ≤ 99422) :
    1600 ≤ (civilFromDays z).1 ∧ (civilFromDays z).1 ≤ 2401 := by
  have hr0 : 0 ≤ (z + 719468) - (z + 719468) / 146097 * 146097 := by omega
  have hr1 : (z + 719468) - (z + 719468) / 146097 * 146097 < 146097 := by omega
  obtain ⟨f1, f2, _, _, _, _, _⟩ := era_fact _ hr0 hr1
  simp only [civilFromDays]
  split <;> constructor <;> omega

end Time
