import PycsepVerif.Model.FloatText
import PycsepVerif.Proofs.DecimalText
import PycsepVerif.Proofs.DecimalParse
import Mathlib.Tactic.Ring
import Mathlib.Tactic.FieldSimp
import Mathlib.Tactic.Linarith
import Mathlib.Tactic.SplitIfs
/-!
# `float(str(numpy.float64(x))) = x`: the characters `floatStr x` denote the shortest-repr decimal, which rounds to `x`
-/
namespace FloatText
open DecimalText Soft64

/-! ## the digit-keeping search is `DecimalText.reprSearch` -/

theorem candPairs_val (x : ℚ) (n : ℕ) : (candPairs x n).map pairVal = candidates x n := by
  unfold candPairs candidates pairVal
  simp only
  split_ifs <;> rfl

theorem candPairs_two (x : ℚ) (n : ℕ) : ∃ a b, candPairs x n = [a, b] := by
  unfold candPairs
  simp only
  split_ifs <;> exact ⟨_, _, rfl⟩

theorem searchPairs_val (x : ℚ) : ∀ (fuel n : ℕ), pairVal (searchPairs x fuel n) = reprSearch x fuel n
  | 0, n => by
    obtain ⟨a, b, h⟩ := candPairs_two x n
    simp only [searchPairs, reprSearch, ← candPairs_val, h, List.map_cons, List.headD_cons]
  | fuel + 1, n => by
    unfold searchPairs reprSearch
    rw [← candPairs_val, List.find?_map]
    cases h : (candPairs x n).find? ((fun c => fl64 c == x) ∘ pairVal) with
    | none =>
      have h' : (candPairs x n).find? (fun p => fl64 (pairVal p) == x) = none := h
      simp only [h', Option.map_none]
      exact searchPairs_val x fuel (n + 1)
    | some p =>
      have h' : (candPairs x n).find? (fun p => fl64 (pairVal p) == x) = some p := h
      simp only [h', Option.map_some]

theorem pow10_succ (e : ℤ) : pow10 (e + 1) = 10 * pow10 e := by
  rw [pow10_eq_zpow, pow10_eq_zpow, zpow_add_one₀ (by norm_num : (10 : ℚ) ≠ 0)]; ring

theorem stripZeros_val : ∀ (fuel m : ℕ) (e : ℤ),
    ((stripZeros fuel m e).1 : ℚ) * pow10 (stripZeros fuel m e).2 = (m : ℚ) * pow10 e
  | 0, _, _ => rfl
  | fuel + 1, m, e => by
    unfold stripZeros
    split_ifs with h
    · rw [stripZeros_val fuel (m / 10) (e + 1), pow10_succ]
      have hd : m / 10 * 10 = m := Nat.div_mul_cancel (Nat.dvd_of_mod_eq_zero h.2)
      have : ((m / 10 : ℕ) : ℚ) * 10 = (m : ℚ) := by exact_mod_cast hd
      rw [← this]; ring
    · rfl

/-! ## decimal digits of a natural number -/

theorem decDigits_spec : ∀ (fuel n : ℕ), n < 10 ^ fuel →
    valDigits 0 (decDigits fuel n) = n ∧ (∀ d ∈ decDigits fuel n, d < 10)
  | 0, n, h => by
    have : n = 0 := by simpa using h
    subst this
    exact ⟨rfl, by simp [decDigits]⟩
  | fuel + 1, n, h => by
    unfold decDigits
    split_ifs with hn
    · exact ⟨by simp [valDigits], by simpa using hn⟩
    · have h10 : n / 10 < 10 ^ fuel := by rw [Nat.pow_succ] at h; omega
      obtain ⟨hv, hd⟩ := decDigits_spec fuel (n / 10) h10
      refine ⟨?_, ?_⟩
      · rw [valDigits_append, hv]
        simp only [valDigits]
        omega
      · intro d hd'
        rw [List.mem_append] at hd'
        rcases hd' with h' | h'
        · exact hd d h'
        · simp only [List.mem_singleton] at h'; subst h'; omega

theorem lt_pow_succ (n : ℕ) : n < 10 ^ (n + 1) :=
  calc n < 2 ^ n := Nat.lt_two_pow_self
    _ ≤ 10 ^ n := Nat.pow_le_pow_left (by decide) n
    _ ≤ 10 ^ (n + 1) := Nat.pow_le_pow_right (by decide) (Nat.le_succ n)

theorem decDigits_ne_nil (fuel n : ℕ) : decDigits (fuel + 1) n ≠ [] := by
  unfold decDigits; split_ifs <;> simp

theorem valDigits_acc (acc : ℕ) (ds : List ℕ) : valDigits acc ds = acc * 10 ^ ds.length + valDigits 0 ds := by
  induction ds generalizing acc with
  | nil => simp [valDigits]
  | cons d ds ih =>
    simp only [valDigits, List.length_cons]
    rw [ih (10 * acc + d), ih (10 * 0 + d)]
    ring

theorem valDigits_zeros (acc k : ℕ) : valDigits acc (zeros k) = acc * 10 ^ k := by
  induction k generalizing acc with
  | zero => simp [zeros, valDigits]
  | succ k ih =>
    have : zeros (k + 1) = 0 :: zeros k := rfl
    rw [this]
    simp only [valDigits, Nat.add_zero]
    rw [ih]; ring

theorem zeros_lt (k : ℕ) : ∀ d ∈ zeros k, d < 10 := by
  intro d hd
  have := List.eq_of_mem_replicate hd
  omega

theorem zeros_length (k : ℕ) : (zeros k).length = k := by simp [zeros]

theorem expDigits_spec (k : ℕ) : valDigits 0 (expDigits k) = k ∧ (∀ d ∈ expDigits k, d < 10) ∧ expDigits k ≠ [] := by
  unfold expDigits
  split_ifs with h
  · refine ⟨by simp [valDigits], ?_, by simp⟩
    intro d hd
    simp only [List.mem_cons, List.mem_singleton, List.not_mem_nil, or_false] at hd
    rcases hd with h' | h' <;> omega
  · obtain ⟨hv, hd⟩ := decDigits_spec (k + 1) k (lt_pow_succ k)
    exact ⟨hv, hd, decDigits_ne_nil k k⟩

theorem rDigits_eq (ds : List ℕ) : rDigits ds = renderDigits ds := rfl

/-! ## the layout is a well-formed numeral whose value is `digits · 10^(decpt − #digits)` -/

/-- the numeral that `layout ds decpt` spells, with a sign in front -/
def layoutN (sg : Option Bool) (ds : List ℕ) (decpt : ℤ) : Numeral :=
  let nd : ℤ := ds.length
  if -4 < decpt ∧ decpt ≤ 16 then
    if decpt ≤ 0 then ⟨sg, [0], true, zeros (-decpt).toNat ++ ds, none⟩
    else if decpt < nd then ⟨sg, ds.take decpt.toNat, true, ds.drop decpt.toNat, none⟩
    else ⟨sg, ds ++ zeros (decpt - nd).toNat, true, [0], none⟩
  else
    ⟨sg, ds.take 1, decide (ds.length > 1), ds.drop 1,
      some (false, some (decide (decpt - 1 < 0)), expDigits (decpt - 1).natAbs)⟩

theorem layoutN_render (sg : Option Bool) (ds : List ℕ) (decpt : ℤ) :
    (layoutN sg ds decpt).render = signChars sg ++ layout ds decpt := by
  unfold layoutN layout
  simp only [rDigits_eq]
  by_cases h1 : -4 < decpt ∧ decpt ≤ 16
  · by_cases h2 : decpt ≤ 0
    · simp [h1, h2, Numeral.render, expChars]
    · by_cases h3 : decpt < (ds.length : ℤ)
      · simp [h1, h2, h3, Numeral.render, expChars]
      · simp [h1, h2, h3, Numeral.render, expChars]
  · by_cases h4 : ds.length > 1 <;> by_cases h5 : decpt - 1 < 0 <;>
      simp [h1, h4, h5, Numeral.render, expChars, signChars]

theorem layoutN_wf (sg : Option Bool) (ds : List ℕ) (decpt : ℤ) (hne : ds ≠ []) (hd : ∀ d ∈ ds, d < 10) :
    (layoutN sg ds decpt).WF := by
  have htake : ∀ k, ∀ d ∈ ds.take k, d < 10 := fun k d h => hd d (List.mem_of_mem_take h)
  have hdrop : ∀ k, ∀ d ∈ ds.drop k, d < 10 := fun k d h => hd d (List.mem_of_mem_drop h)
  have hlen : 0 < ds.length := List.length_pos_of_ne_nil hne
  unfold layoutN
  simp only
  split_ifs with h1 h2 h3
  · refine ⟨by simp, ?_, by simp, by simp, by simp⟩
    intro d h
    rw [List.mem_append] at h
    rcases h with h | h
    · exact zeros_lt _ d h
    · exact hd d h
  · refine ⟨htake _, hdrop _, by simp, ?_, by simp⟩
    simp only [List.length_take, List.length_drop]; omega
  · refine ⟨?_, by simp, by simp, by simp, by simp⟩
    intro d h
    rw [List.mem_append] at h
    rcases h with h | h
    · exact hd d h
    · exact zeros_lt _ d h
  · obtain ⟨_, he, hne'⟩ := expDigits_spec (decpt - 1).natAbs
    refine ⟨htake _, hdrop _, ?_, ?_, ?_⟩
    · intro hp
      simp only [decide_eq_false_iff_not, not_lt] at hp
      apply List.drop_eq_nil_of_le
      omega
    · simp only [List.length_take, List.length_drop]; omega
    · intro u s ds' h
      simp only [Option.some.injEq, Prod.mk.injEq] at h
      obtain ⟨_, _, rfl⟩ := h
      exact ⟨hne', he⟩

theorem zpow_split (a b : ℤ) : (10 : ℚ) ^ (a + b) = (10 : ℚ) ^ a * (10 : ℚ) ^ b := zpow_add₀ (by norm_num) a b

/-- `q` with the sign of the numeral -/
def signed (sg : Option Bool) (q : ℚ) : ℚ := if signNeg sg then -q else q

/-- value of the numeral: all digits as one integer, times `10^(decpt − number of digits)`, with the sign -/
theorem layoutN_value (sg : Option Bool) (ds : List ℕ) (decpt : ℤ) (hne : ds ≠ []) :
    (layoutN sg ds decpt).value =
      signed sg ((valDigits 0 ds : ℚ) * pow10 (decpt - ds.length)) := by
  have hlen : 0 < ds.length := List.length_pos_of_ne_nil hne
  have key : ∀ (ip fp : List ℕ) (ex : Option (Bool × Option Bool × List ℕ)),
      (valDigits 0 (ip ++ fp) : ℚ) * pow10 (expVal ex - (fp.length : ℤ)) = (valDigits 0 ds : ℚ) * pow10 (decpt - ds.length) →
      (⟨sg, ip, true, fp, ex⟩ : Numeral).value =
        signed sg ((valDigits 0 ds : ℚ) * pow10 (decpt - ds.length)) := by
    intro ip fp ex h
    simp only [Numeral.value, h, signed]
  have key' : ∀ (b : Bool) (ip fp : List ℕ) (ex : Option (Bool × Option Bool × List ℕ)),
      (valDigits 0 (ip ++ fp) : ℚ) * pow10 (expVal ex - (fp.length : ℤ)) = (valDigits 0 ds : ℚ) * pow10 (decpt - ds.length) →
      (⟨sg, ip, b, fp, ex⟩ : Numeral).value =
        signed sg ((valDigits 0 ds : ℚ) * pow10 (decpt - ds.length)) := by
    intro b ip fp ex h
    simp only [Numeral.value, h, signed]
  unfold layoutN
  simp only
  split_ifs with h1 h2 h3
  · -- 0.000ddd
    apply key
    have hz : ([0] : List ℕ) ++ (zeros (-decpt).toNat ++ ds) = zeros ((-decpt).toNat + 1) ++ ds := by
      simp [zeros, List.replicate_succ]
    rw [hz, valDigits_append, valDigits_zeros, Nat.zero_mul]
    congr 1
    simp only [expVal, List.length_append, zeros_length]
    have : (((-decpt).toNat : ℕ) : ℤ) = -decpt := Int.toNat_of_nonneg (by omega)
    push_cast
    rw [this]; congr 1; ring
  · -- ddd.ddd
    apply key
    rw [List.take_append_drop]
    congr 1
    simp only [expVal, List.length_drop]
    have : ((decpt.toNat : ℕ) : ℤ) = decpt := Int.toNat_of_nonneg (by omega)
    have hle : decpt.toNat ≤ ds.length := by omega
    rw [Nat.cast_sub hle, this]; congr 1; ring
  · -- ddd000.0
    apply key
    obtain ⟨j, hj⟩ : ∃ j : ℕ, decpt - (ds.length : ℤ) = j :=
      ⟨(decpt - (ds.length : ℤ)).toNat, (Int.toNat_of_nonneg (by omega)).symm⟩
    rw [hj, Int.toNat_natCast, valDigits_append, valDigits_append, valDigits_zeros]
    simp only [valDigits, expVal, List.length_singleton]
    rw [pow10_eq_zpow, pow10_eq_zpow, zpow_natCast]
    push_cast
    have : (10 : ℚ) ^ (-1 : ℤ) = 1 / 10 := by norm_num
    rw [this]
    ring
  · -- d.ddde±XX
    apply key'
    rw [List.take_append_drop]
    congr 1
    obtain ⟨hv, _, _⟩ := expDigits_spec (decpt - 1).natAbs
    simp only [expVal, signNeg, List.length_drop, hv]
    have hsub : ((ds.length - 1 : ℕ) : ℤ) = (ds.length : ℤ) - 1 := by omega
    rw [hsub]
    by_cases hneg : decpt - 1 < 0
    · simp only [hneg, decide_true, beq_self_eq_true, if_true]
      congr 1
      have : ((decpt - 1).natAbs : ℤ) = -(decpt - 1) := by omega
      rw [this]; ring
    · simp only [hneg, decide_false]
      have : ((decpt - 1).natAbs : ℤ) = decpt - 1 := by omega
      simp [this]

/-! ## the search returns a non-negative mantissa for positive `x` -/

theorem candPairs_nonneg {x : ℚ} (hx : 0 < x) (n : ℕ) : ∀ p ∈ candPairs x n, 0 ≤ p.1 := by
  have hfl : 0 ≤ (x / pow10 (ilog10 x - (n : ℤ) + 1)).floor := by
    show 0 ≤ ⌊x / pow10 (ilog10 x - (n : ℤ) + 1)⌋
    exact Int.floor_nonneg.mpr (le_of_lt (div_pos hx (pow10_pos _)))
  intro p hp
  unfold candPairs at hp
  simp only at hp
  split_ifs at hp <;> simp only [List.mem_cons, List.not_mem_nil, or_false] at hp <;>
    rcases hp with h | h <;> subst h <;> simp only <;> omega

theorem searchPairs_nonneg {x : ℚ} (hx : 0 < x) : ∀ (fuel n : ℕ), 0 ≤ (searchPairs x fuel n).1
  | 0, n => by
    obtain ⟨a, b, h⟩ := candPairs_two x n
    have := candPairs_nonneg hx n a (by rw [h]; simp)
    simpa [searchPairs, h] using this
  | fuel + 1, n => by
    unfold searchPairs
    split
    · rename_i p hp
      exact candPairs_nonneg hx n p (List.mem_of_find?_eq_some hp)
    · exact searchPairs_nonneg hx fuel (n + 1)

/-- the shortest digits of a positive `x` denote `reprSearch x 16 1` -/
theorem shortest_val {x : ℚ} (hx : 0 < x) : ((shortest x).1 : ℚ) * pow10 (shortest x).2 = reprSearch x 16 1 := by
  unfold shortest
  simp only
  rw [stripZeros_val, ← searchPairs_val]
  unfold pairVal
  have h := searchPairs_nonneg hx 16 1
  congr 1
  have : (((searchPairs x 16 1).1.natAbs : ℕ) : ℤ) = (searchPairs x 16 1).1 := Int.natAbs_of_nonneg h
  rw [show (((searchPairs x 16 1).1 : ℤ) : ℚ) = ((((searchPairs x 16 1).1.natAbs : ℕ) : ℤ) : ℚ) by rw [this]]
  exact (Int.cast_natCast _).symm

/-- the characters written for a positive magnitude `x` with sign `sg` are read as `± reprSearch x 16 1` -/
theorem parse_magnitude {x : ℚ} (hx : 0 < x) (sg : Option Bool) :
    let s := shortest x
    let ds := decDigits (s.1 + 1) s.1
    parseBody (signChars sg ++ layout ds ((ds.length : ℤ) + s.2)) = some (signed sg (reprSearch x 16 1)) := by
  intro s ds
  obtain ⟨hv, hd⟩ := decDigits_spec (s.1 + 1) s.1 (lt_pow_succ s.1)
  have hne : ds ≠ [] := decDigits_ne_nil s.1 s.1
  rw [← layoutN_render, parseBody_render _ (layoutN_wf sg ds _ hne hd), layoutN_value sg ds _ hne]
  congr 2
  have : (ds.length : ℤ) + s.2 - ds.length = s.2 := by ring
  rw [this]
  show (valDigits 0 (decDigits (s.1 + 1) s.1) : ℚ) * pow10 s.2 = _
  rw [hv]
  exact shortest_val hx

/-- **the text denotes the shortest-repr decimal**: `floatStr x` is a numeral whose exact value is `reprValue x` -/
theorem floatStr_denotes (x : ℚ) : parseBody (floatStr x) = some (reprValue x) := by
  unfold floatStr reprValue
  by_cases h0 : x = 0
  · subst h0
    simp only [if_true]
    decide +kernel
  · simp only [h0, if_false]
    by_cases hneg : x < 0
    · simp only [hneg, if_true]
      have := parse_magnitude (x := -x) (by linarith) (some true)
      simpa [signChars, signed, signNeg] using this
    · simp only [hneg, if_false]
      have hpos : 0 < x := lt_of_le_of_ne (not_lt.mp hneg) (Ne.symm h0)
      have := parse_magnitude hpos none
      simpa [signChars, signed, signNeg] using this

/-! ## `float()` on a numeral without blanks and underscores is `parseBody` + rounding -/

def okChar (c : Char) : Bool := !isBlank c && !(c == '_')

theorem okChar_digit : ∀ d, d < 10 → okChar (digitChar d) = true := by decide

theorem render_ok (n : Numeral) (hw : n.WF) : ∀ c ∈ n.render, okChar c = true := by
  obtain ⟨hip, hfp, _, _, hexp⟩ := hw
  have hdig : ∀ (l : List ℕ), (∀ d ∈ l, d < 10) → ∀ c ∈ renderDigits l, okChar c = true := by
    intro l hl c hc
    simp only [renderDigits, List.mem_map] at hc
    obtain ⟨d, hd, rfl⟩ := hc
    exact okChar_digit d (hl d hd)
  have hsign : ∀ (s : Option Bool), ∀ c ∈ signChars s, okChar c = true := by
    intro s c hc
    cases s with
    | none => simp [signChars] at hc
    | some b => cases b <;> (simp only [signChars, List.mem_singleton] at hc; subst hc; decide)
  intro c hc
  unfold Numeral.render at hc
  simp only [List.mem_append] at hc
  rcases hc with h | h | h | h
  · exact hsign _ c h
  · exact hdig _ hip c h
  · split_ifs at h
    · simp only [List.mem_cons] at h
      rcases h with h | h
      · subst h; decide
      · exact hdig _ hfp c h
    · simp at h
  · cases hx : n.exp with
    | none => simp [hx, expChars] at h
    | some t =>
      obtain ⟨u, s, ds⟩ := t
      obtain ⟨_, hds⟩ := hexp u s ds hx
      simp only [hx, expChars, List.mem_cons, List.mem_append] at h
      rcases h with h | h | h
      · subst h; cases u <;> decide
      · exact hsign _ c h
      · exact hdig _ hds c h

theorem dropBlanks_ok (s : List Char) (h : ∀ c ∈ s, okChar c = true) : dropBlanks s = s := by
  cases s with
  | nil => rfl
  | cons c cs =>
    have := h c (by simp)
    simp only [okChar, Bool.and_eq_true, Bool.not_eq_true'] at this
    simp [dropBlanks, this.1]

theorem strip_ok (s : List Char) (h : ∀ c ∈ s, okChar c = true) : strip s = s := by
  unfold strip
  rw [dropBlanks_ok s h, dropBlanks_ok s.reverse (fun c hc => h c (List.mem_reverse.mp hc)), List.reverse_reverse]

theorem dropUnderscores_cons (prev : Bool) (c : Char) (cs : List Char) (h : c ≠ '_') :
    dropUnderscores prev (c :: cs) = (dropUnderscores (isDigit c) cs).map (c :: ·) := by
  conv_lhs => unfold dropUnderscores
  split <;> simp_all

theorem dropUnderscores_ok : ∀ (s : List Char) (prev : Bool), (∀ c ∈ s, okChar c = true) → dropUnderscores prev s = some s
  | [], _, _ => by simp [dropUnderscores]
  | c :: cs, prev, h => by
    have hc := h c (by simp)
    simp only [okChar, Bool.and_eq_true, Bool.not_eq_true', beq_eq_false_iff_ne] at hc
    have ih := dropUnderscores_ok cs (isDigit c) (fun d hd => h d (List.mem_cons_of_mem _ hd))
    rw [dropUnderscores_cons prev c cs hc.2, ih]
    rfl

/-- `float(text)` on the characters of a well-formed numeral: the exact value, correctly rounded -/
theorem floatOfStr_render (n : Numeral) (hw : n.WF) : floatOfStr n.render = toF64 n.value := by
  have hok := render_ok n hw
  unfold floatOfStr pyFloat parseDecimal
  simp only [String.toList_ofList, strip_ok _ hok, dropUnderscores_ok _ false hok, parseBody_render n hw, Option.bind_some]

/-! ## subnormal doubles: the shortest-repr decimal rounds back too -/

theorem pow10_m400_le_sub : pow10 (-400) ≤ pow2 (-1074) := by
  rw [pow10_eq_zpow, pow2_eq_zpow, zpow_neg, zpow_neg]
  apply inv_anti₀ (zpow_pos (by norm_num) _)
  have h1 : (2 : ℚ) ^ (1074 : ℤ) = (2 : ℚ) ^ (1074 : ℕ) := zpow_ofNat 2 1074
  have h2 : (10 : ℚ) ^ (400 : ℤ) = (10 : ℚ) ^ (400 : ℕ) := zpow_ofNat 10 400
  rw [h1, h2]
  have : (2 : ℕ) ^ 1074 ≤ (10 : ℕ) ^ 400 := by decide +kernel
  exact_mod_cast this

/-- `10^(ilog10 x) ≤ x` down to the smallest subnormal -/
theorem pow10_ilog10_le_sub {x : ℚ} (hn : pow2 (-1074) ≤ x) : pow10 (ilog10 x) ≤ x := by
  unfold ilog10
  apply ilog10Aux_le
  refine le_trans (pow10_mono ?_) (le_trans pow10_m400_le_sub hn)
  split_ifs <;> omega

theorem pow2_m1074 : pow2 (-1022 - 52) = pow2 (-1074) := by norm_num
theorem pow2_m1022_eq : pow2 (-1022) = 4503599627370496 * pow2 (-1074) := by
  rw [← pow2_52, ← pow2_add]; norm_num
theorem pow2_m1075 : pow2 (-1075) = pow2 (-1074) / 2 := by
  have := pow2_succ (-1075)
  rw [show (-1075 : ℤ) + 1 = -1074 by norm_num] at this
  rw [this]; ring

/-- a positive subnormal binary64 value is a positive multiple of 2^-1074 below 2^52 -/
theorem subnormal_form {x : ℚ} (hx : IsF64 x) (hpos : 0 < x) (hs : x < pow2 (-1022)) :
    ∃ n : ℤ, 1 ≤ n ∧ n < 4503599627370496 ∧ x = n * pow2 (-1074) := by
  have hu : ulpExp x = -1022 - 52 := ulpExp_of_small hpos hs
  have hne : x ≠ 0 := ne_of_gt hpos
  have h := hx
  unfold IsF64 at h
  rw [fl64_eq hne, hu, pow2_m1074] at h
  set n := roundHalfEven (x / pow2 (-1074)) with hn
  have hup : 0 < pow2 (-1074) := pow2_pos _
  refine ⟨n, ?_, ?_, h.symm⟩
  · by_contra hc
    have hle : (n : ℚ) ≤ 0 := by exact_mod_cast (by omega : n ≤ 0)
    have : x ≤ 0 := by rw [← h]; exact mul_nonpos_of_nonpos_of_nonneg hle (le_of_lt hup)
    linarith
  · by_contra hc
    have hge : (4503599627370496 : ℚ) ≤ (n : ℚ) := by exact_mod_cast (by omega : (4503599627370496 : ℤ) ≤ n)
    have : pow2 (-1022) ≤ x := by
      rw [← h, pow2_m1022_eq]; exact mul_le_mul_of_nonneg_right hge (le_of_lt hup)
    linarith

/-- a positive subnormal binary64 value is recovered from any rational within half of its (fixed) spacing -/
theorem fl64_of_near_sub {x d : ℚ} (hx : IsF64 x) (hpos : 0 < x) (hs : x < pow2 (-1022)) (h : |d - x| < pow2 (-1075)) :
    fl64 d = x := by
  obtain ⟨n, hn1, hn2, hxn⟩ := subnormal_form hx hpos hs
  have hup : 0 < pow2 (-1074) := pow2_pos _
  rw [pow2_m1075, abs_lt] at h
  have hn1q : (1 : ℚ) ≤ (n : ℚ) := by exact_mod_cast hn1
  have hn2q : (n : ℚ) ≤ 4503599627370495 := by exact_mod_cast (by omega : n ≤ 4503599627370495)
  have hxlo : pow2 (-1074) ≤ x := by rw [hxn]; nlinarith
  have hxhi : x ≤ 4503599627370495 * pow2 (-1074) := by rw [hxn]; exact mul_le_mul_of_nonneg_right hn2q (le_of_lt hup)
  have hdpos : 0 < d := by linarith
  have hdsmall : d < pow2 (-1022) := by rw [pow2_m1022_eq]; linarith
  have hued : ulpExp d = -1022 - 52 := ulpExp_of_small hdpos hdsmall
  have := fl64_of_near_mul (d := d) (u := pow2 (-1074)) n (ne_of_gt hdpos) (by rw [hued, pow2_m1074]) (by
    rw [← hxn, abs_lt]; constructor <;> linarith)
  rw [this, ← hxn]

theorem reprSearch_roundtrip_sub {x : ℚ} (hx : IsF64 x) (hpos : 0 < x) (hs : x < pow2 (-1022)) :
    fl64 (reprSearch x 16 1) = x := by
  apply reprSearch_spec x 16 1 (by norm_num)
  obtain ⟨c, hc, hclose⟩ := candidates_head x 17
  rw [hc]
  obtain ⟨n, hn1, _, hxn⟩ := subnormal_form hx hpos hs
  have hup : 0 < pow2 (-1074) := pow2_pos _
  have hxlo : pow2 (-1074) ≤ x := by
    rw [hxn]
    have : (1 : ℚ) ≤ (n : ℚ) := by exact_mod_cast hn1
    nlinarith
  have hk := pow10_ilog10_le_sub hxlo
  apply fl64_of_near_sub hx hpos hs
  have he : ilog10 x - ((17 : ℕ) : ℤ) + 1 = ilog10 x + (-16) := by push_cast; ring
  rw [he, pow10_eq_zpow, zpow_add₀ (by norm_num : (10 : ℚ) ≠ 0), ← pow10_eq_zpow] at hclose
  have hc16 : (10 : ℚ) ^ (-16 : ℤ) / 2 < 1 / 9007199254740992 := by norm_num
  have h53 : pow2 (-1022) * (1 / 9007199254740992) = pow2 (-1075) := by
    have : (1 : ℚ) / 9007199254740992 = pow2 (-53) := by rw [pow2_eq_zpow]; norm_num
    rw [this, ← pow2_add]; norm_num
  calc |c - x| ≤ pow10 (ilog10 x) * (10 : ℚ) ^ (-16 : ℤ) / 2 := hclose
    _ = pow10 (ilog10 x) * ((10 : ℚ) ^ (-16 : ℤ) / 2) := by ring
    _ ≤ x * ((10 : ℚ) ^ (-16 : ℤ) / 2) := mul_le_mul_of_nonneg_right hk (by positivity)
    _ < pow2 (-1022) * ((10 : ℚ) ^ (-16 : ℤ) / 2) := mul_lt_mul_of_pos_right hs (by positivity)
    _ < pow2 (-1022) * (1 / 9007199254740992) := mul_lt_mul_of_pos_left hc16 (pow2_pos _)
    _ = pow2 (-1075) := h53

/-- **`float(repr(x)) == x` for EVERY binary64 value of the model** — zero, subnormal, normal, either sign -/
theorem reprValue_roundtrip_all {x : ℚ} (hx : IsF64 x) : fl64 (reprValue x) = x := by
  by_cases h0 : x = 0
  · exact reprValue_roundtrip hx (Or.inl h0)
  by_cases hn : pow2 (-1022) ≤ |x|
  · exact reprValue_roundtrip hx (Or.inr hn)
  have hs : |x| < pow2 (-1022) := not_le.mp hn
  unfold reprValue
  simp only [h0, if_false]
  by_cases hneg : x < 0
  · simp only [hneg, if_true]
    have hx' : IsF64 (-x) := by unfold IsF64 at hx ⊢; rw [fl64_neg, hx]
    rw [abs_of_neg hneg] at hs
    rw [fl64_neg, reprSearch_roundtrip_sub hx' (by linarith) hs]; ring
  · simp only [hneg, if_false]
    have hpos : 0 < x := lt_of_le_of_ne (not_lt.mp hneg) (Ne.symm h0)
    rw [abs_of_pos hpos] at hs
    exact reprSearch_roundtrip_sub hx hpos hs

end FloatText
