import PycsepVerif.Proofs.Bin1dTablesRegions
/-! kernel-evaluated table (property C02): every edge 0..124 of california_relm_collection_region().ys lands in the bin it opens -/
namespace Bin1d.Tables
theorem tabE_cacy_0 : edgesOwnBin (cfg64 false) cacyRaw 0 125 = true := by decide +kernel
end Bin1d.Tables
