import PycsepVerif.Model.CatalogEvals
import PycsepVerif.Proofs.RealInst
import PycsepVerif.Properties.C09
import Mathlib.Tactic.Ring
import Mathlib.Tactic.Linarith
import Mathlib.Tactic.FieldSimp
import Mathlib.Algebra.BigOperators.Group.List.Basic

/-! Helper lemmas for Properties/C10.lean: the model of Model/CatalogEvals.lean instantiated at ℝ. -/
namespace CatEvals

/-! ### ELL sums at ℝ -/

theorem ell_foldl_negInf (l : List (ELL ℝ)) : l.foldl ELL.add .negInf = .negInf := by
  induction l with
  | nil => rfl
  | cons x xs ih => cases x <;> simpa [List.foldl_cons, ELL.add] using ih

theorem ell_foldl_fin (l : List ℝ) (acc : ℝ) :
    (l.map ELL.fin).foldl ELL.add (.fin acc) = .fin (acc + l.sum) := by
  induction l generalizing acc with
  | nil => simp
  | cons x xs ih => simp [List.foldl_cons, ELL.add, ih, add_assoc]

theorem ell_sum_fin (l : List ℝ) : ELL.sum (l.map ELL.fin) = .fin l.sum := by
  unfold ELL.sum; simpa using ell_foldl_fin l 0

theorem ell_sum_negInf_of_mem {l : List (ELL ℝ)} (h : ELL.negInf ∈ l) : ELL.sum l = .negInf := by
  unfold ELL.sum
  generalize (ELL.fin (RealOps.zero : ℝ)) = acc
  induction l generalizing acc with
  | nil => cases h
  | cons x xs ih =>
    rcases List.mem_cons.mp h with h | h
    · subst h; cases acc <;> simpa [List.foldl_cons, ELL.add] using ell_foldl_negInf xs
    · simpa [List.foldl_cons] using ih h _

@[simp] theorem isZero_real (x : ℝ) : isZero x = decide (x = 0) := by
  unfold isZero; simp only [RealOps.real_le, RealOps.real_zero]
  by_cases h : x = 0
  · subst h; simp
  · rcases lt_or_gt_of_ne h with h' | h'
    · have : ¬ (0:ℝ) ≤ x := not_le.mpr h'; simp [h, this]
    · have : ¬ x ≤ (0:ℝ) := not_le.mpr h'; simp [h, this]

theorem ell_log_pos {x : ℝ} (h : 0 < x) : ELL.log x = .fin (Real.log x) := by
  unfold ELL.log; simp [not_le.mpr h]

theorem ell_log_nonpos {x : ℝ} (h : x ≤ 0) : (ELL.log x : ELL ℝ) = .negInf := by
  unfold ELL.log; simp [h]

/-! ### the weighted log sum of `_compute_likelihood` -/

/-- the term list of `wlogSum`, on the zipped list -/
noncomputable def wlTerms (ps : List (Nat × ℝ)) : List (ELL ℝ) :=
  ps.filterMap fun p => if p.1 = 0 then none else some (ellMap (RealOps.mul (RealOps.ofNat p.1)) (ELL.log p.2))

theorem wlogSum_eq (g : List Nat) (r : List ℝ) : wlogSum g r = ELL.sum (wlTerms (List.zip g r)) := rfl

/-- every occupied cell has a positive rate -/
def OccPos (ps : List (Nat × ℝ)) : Prop := ∀ p ∈ ps, p.1 ≠ 0 → 0 < p.2

/-- Σ_cells g_i · log r_i (cells without events contribute 0) -/
noncomputable def wsum (ps : List (Nat × ℝ)) : ℝ := (ps.map fun p => (p.1 : ℝ) * Real.log p.2).sum

theorem wlTerms_fin {ps : List (Nat × ℝ)} (h : OccPos ps) :
    ∃ l : List ℝ, wlTerms ps = l.map ELL.fin ∧ l.sum = wsum ps := by
  induction ps with
  | nil => exact ⟨[], rfl, rfl⟩
  | cons p ps ih =>
    obtain ⟨l, hl, hs⟩ := ih (fun q hq => h q (List.mem_cons_of_mem _ hq))
    by_cases hp : p.1 = 0
    · refine ⟨l, ?_, ?_⟩
      · simp [wlTerms, hp]; simpa [wlTerms] using hl
      · simp [wsum, hp]; simpa [wsum] using hs
    · have hpos := h p List.mem_cons_self hp
      refine ⟨((p.1 : ℝ) * Real.log p.2) :: l, ?_, ?_⟩
      · have hcons : wlTerms (p :: ps) =
            ellMap (RealOps.mul (RealOps.ofNat p.1)) (ELL.log p.2) :: wlTerms ps := by
          simp [wlTerms, hp]
        rw [hcons, hl, ell_log_pos hpos]; rfl
      · simp [wsum]; simpa [wsum] using hs

theorem wlogSum_fin {g : List Nat} {r : List ℝ} (h : OccPos (List.zip g r)) :
    wlogSum g r = .fin (wsum (List.zip g r)) := by
  obtain ⟨l, hl, hs⟩ := wlTerms_fin h
  rw [wlogSum_eq, hl, ell_sum_fin, hs]

/-- an occupied cell of rate ≤ 0 makes the sum −∞ -/
theorem wlogSum_negInf {g : List Nat} {r : List ℝ} (h : ∃ p ∈ List.zip g r, p.1 ≠ 0 ∧ p.2 ≤ 0) :
    wlogSum g r = (.negInf : ELL ℝ) := by
  obtain ⟨p, hp, hne, hle⟩ := h
  rw [wlogSum_eq]
  apply ell_sum_negInf_of_mem
  unfold wlTerms
  rw [List.mem_filterMap]
  exact ⟨p, hp, by simp [hne, ell_log_nonpos hle, ellMap]⟩

/-! ### `_compute_likelihood` at ℝ -/

theorem computeLikelihood_empty (g : List Nat) (r : List ℝ) (ecc : ℝ) (nObs : Nat) (h : g.sum = 0) :
    computeLikelihood g r ecc nObs = (.fin (-ecc), none) := by
  simp [computeLikelihood, h]

theorem computeLikelihood_fst (g : List Nat) (r : List ℝ) (ecc : ℝ) (nObs : Nat) (h : g.sum ≠ 0) :
    (computeLikelihood g r ecc nObs).1 = ellMap (fun s => s - ecc) (wlogSum g r) := by
  unfold computeLikelihood
  simp only [h, if_false]
  split <;> rfl

theorem computeLikelihood_snd_none (g : List Nat) (r : List ℝ) (ecc : ℝ) (nObs : Nat)
    (h2 : g.sum = 0 ∨ nObs = 0 ∨ ecc = 0) : (computeLikelihood g r ecc nObs).2 = none := by
  unfold computeLikelihood
  by_cases h : g.sum = 0
  · simp [h]
  · rcases h2 with h2 | h2 | h2
    · exact absurd h2 h
    · simp [h, h2]
    · simp [h, h2]

theorem computeLikelihood_snd (g : List Nat) (r : List ℝ) (ecc : ℝ) (nObs : Nat)
    (h : g.sum ≠ 0) (hobs : nObs ≠ 0) (hecc : ecc ≠ 0) :
    (computeLikelihood g r ecc nObs).2 =
      some (ellMap (fun s => s / (g.sum : ℝ)) (wlogSum g (r.map fun x => x / r.sum))) := by
  unfold computeLikelihood
  simp [h, hobs, hecc, RealOps.real_sum]

/-- the second component is defined exactly when the catalog has events, n_obs ≠ 0 and N̄ ≠ 0 -/
theorem computeLikelihood_snd_isSome (g : List Nat) (r : List ℝ) (ecc : ℝ) (nObs : Nat) :
    ((computeLikelihood g r ecc nObs).2).isSome = (decide (g.sum ≠ 0) && decide (nObs ≠ 0) && decide (ecc ≠ 0)) := by
  by_cases h : g.sum = 0
  · rw [computeLikelihood_snd_none g r ecc nObs (Or.inl h)]; simp [h]
  · by_cases h1 : nObs = 0
    · rw [computeLikelihood_snd_none g r ecc nObs (Or.inr (Or.inl h1))]; simp [h1]
    · by_cases h2 : ecc = 0
      · rw [computeLikelihood_snd_none g r ecc nObs (Or.inr (Or.inr h2))]; simp [h2]
      · rw [computeLikelihood_snd g r ecc nObs h h1 h2]; simp [h, h1, h2]

theorem occPos_normalised {g : List Nat} {r : List ℝ} (h : OccPos (List.zip g r)) (htot : 0 < r.sum) :
    OccPos (List.zip g (r.map fun x => x / r.sum)) := by
  intro p hp hne
  rw [List.zip_map_right] at hp
  obtain ⟨q, hq, rfl⟩ := List.mem_map.mp hp
  exact div_pos (h q hq hne) htot

theorem wsum_normalised (g : List Nat) (r : List ℝ) :
    wsum (List.zip g (r.map fun x => x / r.sum)) =
      ((List.zip g r).map fun p => (p.1 : ℝ) * Real.log (p.2 / r.sum)).sum := by
  unfold wsum
  rw [List.zip_map_right, List.map_map]
  rfl

/-! ### mean rates are non-negative -/

theorem realSum_nonneg {l : List ℝ} (h : ∀ x ∈ l, 0 ≤ x) : 0 ≤ RealOps.sum l := by
  rw [RealOps.real_sum]; exact List.sum_nonneg h

theorem meanRates_nonneg (C K : Nat) (sims : List Grid) :
    ∀ row ∈ (meanRates C K sims : List (List ℝ)), ∀ x ∈ row, 0 ≤ x := by
  intro row hrow x hx
  unfold meanRates at hrow
  obtain ⟨i, _, rfl⟩ := List.mem_map.mp hrow
  obtain ⟨k, _, rfl⟩ := List.mem_map.mp hx
  simp only [RealOps.real_div, RealOps.real_ofNat]
  positivity

theorem spatialRates_nonneg (C K : Nat) (sims : List Grid) :
    ∀ x ∈ spatialRates (meanRates C K sims : List (List ℝ)), 0 ≤ x := by
  intro x hx
  unfold spatialRates at hx
  obtain ⟨row, hrow, rfl⟩ := List.mem_map.mp hx
  exact realSum_nonneg (meanRates_nonneg C K sims row hrow)

/-! ### boolean-mask indexing with `rates != 0` -/

theorem maskBy_nil_left {β : Type} (a : List β) : maskBy [] a = [] := by simp [maskBy]
theorem maskBy_nil_right {β : Type} (m : List Bool) : maskBy m ([] : List β) = [] := by simp [maskBy]
theorem maskBy_cons {β : Type} (b : Bool) (m : List Bool) (x : β) (a : List β) :
    maskBy (b :: m) (x :: a) = if b then x :: maskBy m a else maskBy m a := by
  cases b <;> simp [maskBy]

theorem zip_maskBy_good (g : List Nat) (r : List ℝ) :
    List.zip (maskBy (goodMask r) g) (maskBy (goodMask r) r) = (List.zip g r).filter (fun p => decide (p.2 ≠ 0)) := by
  induction r generalizing g with
  | nil => simp [goodMask, maskBy_nil_left]
  | cons x rs ih =>
    cases g with
    | nil => simp [maskBy_nil_right]
    | cons y gs =>
      have hm : goodMask (x :: rs) = (!isZero x) :: goodMask rs := rfl
      rw [hm, maskBy_cons, maskBy_cons]
      by_cases hx : x = 0
      · subst hx; simpa using ih gs
      · simp [hx]; simpa using ih gs

theorem maskBy_good_sum (r : List ℝ) : (maskBy (goodMask r) r).sum = r.sum := by
  induction r with
  | nil => simp [goodMask, maskBy_nil_left]
  | cons x rs ih =>
    have hm : goodMask (x :: rs) = (!isZero x) :: goodMask rs := rfl
    rw [hm, maskBy_cons]
    by_cases hx : x = 0
    · subst hx; simpa using ih
    · simp [hx, ih]

theorem maskBy_good_mem {r : List ℝ} {x : ℝ} (hx : x ∈ maskBy (goodMask r) r) : x ∈ r ∧ x ≠ 0 := by
  induction r with
  | nil => simp [goodMask, maskBy_nil_left] at hx
  | cons y rs ih =>
    have hm : goodMask (y :: rs) = (!isZero y) :: goodMask rs := rfl
    rw [hm, maskBy_cons] at hx
    by_cases hy : y = 0
    · subst hy; simp at hx; exact ⟨List.mem_cons_of_mem _ (ih hx).1, (ih hx).2⟩
    · simp [hy] at hx
      rcases hx with rfl | hx
      · exact ⟨List.mem_cons_self, hy⟩
      · exact ⟨List.mem_cons_of_mem _ (ih hx).1, (ih hx).2⟩

/-- after dropping the never-sampled cells every remaining occupied cell has a positive rate -/
theorem occPos_masked {g : List Nat} {r : List ℝ} (hnn : ∀ x ∈ r, 0 ≤ x) :
    OccPos (List.zip (maskBy (goodMask r) g) (maskBy (goodMask r) r)) := by
  intro p hp _
  rw [zip_maskBy_good, List.mem_filter] at hp
  have h2 : p.2 ≠ 0 := by simpa using hp.2
  have h0 : 0 ≤ p.2 := hnn _ (List.of_mem_zip hp.1).2
  exact lt_of_le_of_ne h0 (Ne.symm h2)

/-- ... and if an observed event is left, the kept rates have a positive sum -/
theorem masked_sum_pos {g : List Nat} {r : List ℝ} (hnn : ∀ x ∈ r, 0 ≤ x)
    (hleft : (maskBy (goodMask r) g).sum ≠ 0) : 0 < (maskBy (goodMask r) r).sum := by
  have hex : ∃ p ∈ List.zip (maskBy (goodMask r) g) (maskBy (goodMask r) r), 0 < p.2 := by
    rw [zip_maskBy_good]
    induction r generalizing g with
    | nil => simp [goodMask, maskBy_nil_left] at hleft
    | cons x rs ih =>
      cases g with
      | nil => simp [maskBy_nil_right] at hleft
      | cons y gs =>
        have hm : goodMask (x :: rs) = (!isZero x) :: goodMask rs := rfl
        rw [hm, maskBy_cons] at hleft
        by_cases hx : x = 0
        · subst hx
          simp at hleft
          obtain ⟨p, hp, hpos⟩ := ih (fun z hz => hnn z (List.mem_cons_of_mem _ hz)) (by simpa using hleft)
          exact ⟨p, by simpa using (List.mem_filter.mp hp), hpos⟩
        · refine ⟨(y, x), by simp [hx], ?_⟩
          exact lt_of_le_of_ne (hnn x List.mem_cons_self) (Ne.symm hx)
  obtain ⟨p, hp, hpos⟩ := hex
  have hmem : p.2 ∈ maskBy (goodMask r) r := (List.of_mem_zip hp).2
  have hnn' : ∀ x ∈ maskBy (goodMask r) r, 0 ≤ x := fun x hx => hnn x (maskBy_good_mem hx).1
  exact lt_of_lt_of_le hpos (List.single_le_sum hnn' _ hmem)

/-! ### documented statistics -/

/-- spatial statistic S = [Σ_events log λ*_s(k_i)] / N with λ*_s = λ_s / Σ λ_s, written per cell:
    Σ_cells g_i · log(λ_i / Σλ) / Σ_cells g_i. The argument is the list of (count, rate) per cell. -/
noncomputable def docS (ps : List (Nat × ℝ)) : ℝ :=
  (ps.map fun p => (p.1 : ℝ) * Real.log (p.2 / (ps.map Prod.snd).sum)).sum / ((ps.map Prod.fst).sum : Nat)

/-- pseudo-likelihood L̂ = Σ_events log λ_s(k_i) − N̄, per cell: Σ_cells g_i · log λ_i − N̄ -/
noncomputable def docPL (ps : List (Nat × ℝ)) (nbar : ℝ) : ℝ :=
  (ps.map fun p => (p.1 : ℝ) * Real.log p.2).sum - nbar

/-- C10 spatial statistic: for a catalog with events whose occupied cells all have positive rate, with
    n_obs ≠ 0 and N̄ ≠ 0, the second component of `_compute_likelihood` is the documented S. -/
theorem snd_eq_docS (g : List Nat) (r : List ℝ) (ecc : ℝ) (nObs : Nat) (hlen : g.length = r.length)
    (hN : g.sum ≠ 0) (hobs : nObs ≠ 0) (hecc : ecc ≠ 0)
    (hpos : OccPos (List.zip g r)) (htot : 0 < r.sum) :
    (computeLikelihood g r ecc nObs).2 = some (.fin (docS (List.zip g r))) := by
  rw [computeLikelihood_snd g r ecc nObs hN hobs hecc,
    wlogSum_fin (occPos_normalised hpos htot), wsum_normalised]
  have h1 : ((List.zip g r).map Prod.snd).sum = r.sum := by
    rw [← List.unzip_snd, List.unzip_zip hlen]
  have h2 : ((List.zip g r).map Prod.fst).sum = g.sum := by
    rw [← List.unzip_fst, List.unzip_zip hlen]
  simp [ellMap, docS, h1, h2]


/-- C10 pseudo-likelihood statistic: for a catalog with events whose occupied cells all have positive rate the
    first component of `_compute_likelihood` is Σ_cells g_i log λ_i − N̄; for a catalog without events it is −N̄. -/
theorem fst_eq_docPL (g : List Nat) (r : List ℝ) (ecc : ℝ) (nObs : Nat) (hpos : OccPos (List.zip g r)) :
    (computeLikelihood g r ecc nObs).1 = .fin (docPL (List.zip g r) ecc) := by
  by_cases hN : g.sum = 0
  · rw [computeLikelihood_empty g r ecc nObs hN]
    -- every count is 0, so the documented sum is empty
    have hz : ∀ p ∈ List.zip g r, p.1 = 0 := by
      intro p hp
      exact List.sum_eq_zero_iff.mp hN p.1 (List.of_mem_zip hp).1
    have : ((List.zip g r).map fun p => (p.1 : ℝ) * Real.log p.2).sum = 0 := by
      apply List.sum_eq_zero; intro x hx
      obtain ⟨p, hp, rfl⟩ := List.mem_map.mp hx
      simp [hz p hp]
    simp [docPL, this]
  · rw [computeLikelihood_fst g r ecc nObs hN, wlogSum_fin hpos]
    simp [ellMap, docPL, wsum]


/-! ## control flow of the spatial and pseudo-likelihood tests -/

/-- mean spatial rates and expected number of events N̄ of the forecast (what both tests consume) -/
noncomputable abbrev sRates (C K : Nat) (sims : List Grid) : List ℝ := spatialRates (meanRates C K sims)
noncomputable abbrev nBar (C K : Nat) (sims : List Grid) : ℝ := totalRate (meanRates C K sims)

/-- first pass of the spatial test on the observation (catalog_evaluations.py:115) -/
noncomputable abbrev sFirst (C K : Nat) (sims : List Grid) (obs : Grid) : Option (ELL ℝ) :=
  (computeLikelihood (spatialCounts C obs) (sRates C K sims) (nBar C K sims) (spatialCounts C obs).sum).2

/-- first pass of the pseudo-likelihood test on the observation (:286) -/
noncomputable abbrev plFirst (C K : Nat) (sims : List Grid) (obs : Grid) : ELL ℝ :=
  (computeLikelihood (spatialCounts C obs) (sRates C K sims) (nBar C K sims) (spatialCounts C obs).sum).1

/-- observed counts / rates restricted to the cells some synthetic catalog sampled (:119-126) -/
noncomputable abbrev keptObs (C K : Nat) (sims : List Grid) (obs : Grid) : List Nat :=
  maskBy (goodMask (sRates C K sims)) (spatialCounts C obs)
noncomputable abbrev keptRates (C K : Nat) (sims : List Grid) : List ℝ :=
  maskBy (goodMask (sRates C K sims)) (sRates C K sims)

theorem spatial_distribution (C K : Nat) (sims : List Grid) (obs : Grid) :
    (spatialTest (α := ℝ) C K sims obs).distribution =
      sims.filterMap fun g =>
        (computeLikelihood (spatialCounts C g) (sRates C K sims) (nBar C K sims) (spatialCounts C obs).sum).2 := by
  unfold spatialTest
  simp only
  split
  · simp
  · split <;> simp

theorem maskBy_length_eq {β γ : Type} (m : List Bool) (a : List β) (b : List γ) (h : a.length = b.length) :
    (maskBy m a).length = (maskBy m b).length := by
  induction m generalizing a b with
  | nil => simp [maskBy_nil_left]
  | cons x m ih =>
    cases a with
    | nil => cases b with
      | nil => simp [maskBy_nil_right]
      | cons _ _ => simp at h
    | cons y a => cases b with
      | nil => simp at h
      | cons z b =>
        rw [maskBy_cons, maskBy_cons]
        cases x <;> simp [ih a b (by simpa using h)]

theorem sRates_length (C K : Nat) (sims : List Grid) : (sRates C K sims).length = C := by
  simp [sRates, spatialRates, meanRates]

theorem spatialCounts_length (C : Nat) (g : Grid) : (spatialCounts C g).length = C := by
  simp [spatialCounts]

/-- a first pass that is `some _` means the observation has events and N̄ ≠ 0 -/
theorem sFirst_some {C K : Nat} {sims : List Grid} {obs : Grid} {v : ELL ℝ} (h : sFirst C K sims obs = some v) :
    (spatialCounts C obs).sum ≠ 0 ∧ nBar C K sims ≠ 0 := by
  have := computeLikelihood_snd_isSome (spatialCounts C obs) (sRates C K sims) (nBar C K sims)
    (spatialCounts C obs).sum
  rw [show (computeLikelihood (spatialCounts C obs) (sRates C K sims) (nBar C K sims)
    (spatialCounts C obs).sum).2 = some v from h] at this
  simp at this
  exact ⟨this.1, this.2⟩

/-- (a) empty observation -/
theorem spatial_flow_empty (C K : Nat) (sims : List Grid) (obs : Grid) (h : (spatialCounts C obs).sum = 0) :
    (spatialTest (α := ℝ) C K sims obs).status = .notValid ∧
    (spatialTest (α := ℝ) C K sims obs).quantile = .sentinel ∧
    (spatialTest (α := ℝ) C K sims obs).observed = none ∧
    (spatialTest (α := ℝ) C K sims obs).distribution = [] := by
  have hd : (spatialTest (α := ℝ) C K sims obs).distribution = [] := by
    rw [spatial_distribution, List.filterMap_eq_nil_iff]
    intro g _
    exact computeLikelihood_snd_none _ _ _ _ (Or.inr (Or.inl h))
  refine ⟨?_, ?_, ?_, hd⟩ <;>
  · unfold spatialTest
    simp only [h, if_true]
    try (rw [computeLikelihood_snd_none _ _ _ _ (Or.inl h)])

/-- (b) first pass undefined (`nan`): not-valid -/
theorem spatial_flow_nan (C K : Nat) (sims : List Grid) (obs : Grid) (h : sFirst C K sims obs = none) :
    (spatialTest (α := ℝ) C K sims obs).status = .notValid ∧
    (spatialTest (α := ℝ) C K sims obs).quantile = .sentinel ∧
    (spatialTest (α := ℝ) C K sims obs).observed = none := by
  have h' : (computeLikelihood (spatialCounts C obs) (spatialRates (meanRates C K sims : List (List ℝ)))
      (totalRate (meanRates C K sims : List (List ℝ))) (spatialCounts C obs).sum).2 = none := h
  refine ⟨?_, ?_, ?_⟩ <;>
  · unfold spatialTest
    simp only [h']
    split <;> rfl

/-- (c) first pass finite: normal, the first-pass value is reported -/
theorem spatial_flow_fin (C K : Nat) (sims : List Grid) (obs : Grid) (x : ℝ)
    (h : sFirst C K sims obs = some (.fin x)) :
    (spatialTest (α := ℝ) C K sims obs).status = .normal ∧
    (spatialTest (α := ℝ) C K sims obs).observed = some (.fin x) ∧
    (spatialTest (α := ℝ) C K sims obs).quantile =
      quantiles (spatialTest (α := ℝ) C K sims obs).distribution (.fin x) := by
  have hne := (sFirst_some h).1
  have h' : (computeLikelihood (spatialCounts C obs) (spatialRates (meanRates C K sims : List (List ℝ)))
      (totalRate (meanRates C K sims : List (List ℝ))) (spatialCounts C obs).sum).2 = some (.fin x) := h
  refine ⟨?_, ?_, ?_⟩ <;>
  · unfold spatialTest
    simp only [h', hne, if_false]

/-- (d)/(e) first pass −∞: the statistic is recomputed over the sampled cells -/
theorem spatial_flow_negInf (C K : Nat) (sims : List Grid) (obs : Grid)
    (h : sFirst C K sims obs = some .negInf) :
    let second := (computeLikelihood (keptObs C K sims obs) (keptRates C K sims) (nBar C K sims)
      (spatialCounts C obs).sum).2
    (second = none →
      (spatialTest (α := ℝ) C K sims obs).status = .notValid ∧
      (spatialTest (α := ℝ) C K sims obs).quantile = .sentinel ∧
      (spatialTest (α := ℝ) C K sims obs).observed = none) ∧
    (∀ v, second = some v →
      (spatialTest (α := ℝ) C K sims obs).status = .undersampled ∧
      (spatialTest (α := ℝ) C K sims obs).observed = some v ∧
      (spatialTest (α := ℝ) C K sims obs).quantile =
        quantiles (spatialTest (α := ℝ) C K sims obs).distribution v) := by
  intro second
  have hne := (sFirst_some h).1
  have h' : (computeLikelihood (spatialCounts C obs) (spatialRates (meanRates C K sims : List (List ℝ)))
      (totalRate (meanRates C K sims : List (List ℝ))) (spatialCounts C obs).sum).2 = some .negInf := h
  constructor
  · intro hs
    have hs' : (computeLikelihood (maskBy (goodMask (spatialRates (meanRates C K sims : List (List ℝ))))
        (spatialCounts C obs)) (maskBy (goodMask (spatialRates (meanRates C K sims : List (List ℝ))))
        (spatialRates (meanRates C K sims : List (List ℝ)))) (totalRate (meanRates C K sims : List (List ℝ)))
        (spatialCounts C obs).sum).2 = none := hs
    refine ⟨?_, ?_, ?_⟩ <;>
    · unfold spatialTest
      simp only [h', hne, if_false, hs']
  · intro v hs
    have hs' : (computeLikelihood (maskBy (goodMask (spatialRates (meanRates C K sims : List (List ℝ))))
        (spatialCounts C obs)) (maskBy (goodMask (spatialRates (meanRates C K sims : List (List ℝ))))
        (spatialRates (meanRates C K sims : List (List ℝ)))) (totalRate (meanRates C K sims : List (List ℝ)))
        (spatialCounts C obs).sum).2 = some v := hs
    refine ⟨?_, ?_, ?_⟩ <;>
    · unfold spatialTest
      simp only [h', hne, if_false, hs']

/-- the recomputed statistic is the documented one over the sampled cells, and it is finite -/
theorem spatial_second (C K : Nat) (sims : List Grid) (obs : Grid)
    (h : sFirst C K sims obs = some .negInf) (hleft : (keptObs C K sims obs).sum ≠ 0) :
    (computeLikelihood (keptObs C K sims obs) (keptRates C K sims) (nBar C K sims)
      (spatialCounts C obs).sum).2 =
      some (.fin (docS (List.zip (keptObs C K sims obs) (keptRates C K sims)))) := by
  have hs := sFirst_some h
  have hnn := spatialRates_nonneg C K sims
  apply snd_eq_docS _ _ _ _ _ hleft hs.1 hs.2 (occPos_masked hnn) (masked_sum_pos hnn hleft)
  exact maskBy_length_eq _ _ _ (by rw [spatialCounts_length, sRates_length])

theorem spatial_second_none (C K : Nat) (sims : List Grid) (obs : Grid)
    (hleft : (keptObs C K sims obs).sum = 0) :
    (computeLikelihood (keptObs C K sims obs) (keptRates C K sims) (nBar C K sims)
      (spatialCounts C obs).sum).2 = none :=
  computeLikelihood_snd_none _ _ _ _ (Or.inl hleft)

/-! ### pseudo-likelihood test flow -/

theorem pl_flow_empty (C K : Nat) (sims : List Grid) (obs : Grid) (h : eventCount obs = 0) :
    pseudolikelihoodTest (α := ℝ) C K sims obs = none := by
  simp [pseudolikelihoodTest, h]

theorem pl_flow_fin (C K : Nat) (sims : List Grid) (obs : Grid) (x : ℝ) (hne : eventCount obs ≠ 0)
    (h : plFirst C K sims obs = .fin x) :
    ∃ r, pseudolikelihoodTest (α := ℝ) C K sims obs = some r ∧ r.status = .normal ∧
      r.observed = some (.fin x) ∧ r.quantile = quantiles r.distribution (.fin x) ∧
      r.distribution = sims.map fun g =>
        (computeLikelihood (spatialCounts C g) (sRates C K sims) (nBar C K sims) (spatialCounts C obs).sum).1 := by
  have h' : (computeLikelihood (spatialCounts C obs) (spatialRates (meanRates C K sims : List (List ℝ)))
      (totalRate (meanRates C K sims : List (List ℝ))) (spatialCounts C obs).sum).1 = .fin x := h
  unfold pseudolikelihoodTest
  simp only [hne, if_false, h']
  exact ⟨_, rfl, rfl, rfl, rfl, rfl⟩

theorem pl_flow_negInf_none (C K : Nat) (sims : List Grid) (obs : Grid)
    (h : plFirst C K sims obs = .negInf) (hleft : (keptObs C K sims obs).sum = 0) :
    pseudolikelihoodTest (α := ℝ) C K sims obs = none := by
  have h' : (computeLikelihood (spatialCounts C obs) (spatialRates (meanRates C K sims : List (List ℝ)))
      (totalRate (meanRates C K sims : List (List ℝ))) (spatialCounts C obs).sum).1 = .negInf := h
  have hl : (maskBy (goodMask (spatialRates (meanRates C K sims : List (List ℝ)))) (spatialCounts C obs)).sum = 0 :=
    hleft
  unfold pseudolikelihoodTest
  simp only [h', hl, if_true]
  split <;> rfl

theorem pl_flow_negInf_some (C K : Nat) (sims : List Grid) (obs : Grid) (hne : eventCount obs ≠ 0)
    (h : plFirst C K sims obs = .negInf) (hleft : (keptObs C K sims obs).sum ≠ 0) :
    ∃ r, pseudolikelihoodTest (α := ℝ) C K sims obs = some r ∧ r.status = .undersampled ∧
      r.observed = some (.fin (docPL (List.zip (keptObs C K sims obs) (keptRates C K sims)) (nBar C K sims))) ∧
      r.quantile = quantiles r.distribution
        (.fin (docPL (List.zip (keptObs C K sims obs) (keptRates C K sims)) (nBar C K sims))) ∧
      r.distribution = sims.map fun g =>
        (computeLikelihood (spatialCounts C g) (sRates C K sims) (nBar C K sims) (spatialCounts C obs).sum).1 := by
  have h' : (computeLikelihood (spatialCounts C obs) (spatialRates (meanRates C K sims : List (List ℝ)))
      (totalRate (meanRates C K sims : List (List ℝ))) (spatialCounts C obs).sum).1 = .negInf := h
  have hl : (maskBy (goodMask (spatialRates (meanRates C K sims : List (List ℝ)))) (spatialCounts C obs)).sum ≠ 0 :=
    hleft
  have hv := fst_eq_docPL (keptObs C K sims obs) (keptRates C K sims) (nBar C K sims) (spatialCounts C obs).sum
    (occPos_masked (spatialRates_nonneg C K sims))
  have hv' : (computeLikelihood (maskBy (goodMask (spatialRates (meanRates C K sims : List (List ℝ))))
        (spatialCounts C obs)) (maskBy (goodMask (spatialRates (meanRates C K sims : List (List ℝ))))
        (spatialRates (meanRates C K sims : List (List ℝ)))) (totalRate (meanRates C K sims : List (List ℝ)))
        (spatialCounts C obs).sum).1 =
      .fin (docPL (List.zip (keptObs C K sims obs) (keptRates C K sims)) (nBar C K sims)) := hv
  unfold pseudolikelihoodTest
  simp only [hne, if_false, h', hl, hv']
  exact ⟨_, rfl, rfl, rfl, rfl, rfl⟩

/-! ### sums of count matrices -/

theorem spatialCounts_cons (C : Nat) (row : List Nat) (g : Grid) :
    spatialCounts (C + 1) (row :: g) = row.sum :: spatialCounts C g := by
  simp [spatialCounts, List.range_succ_eq_map, List.map_map, Function.comp_def]

theorem spatialCounts_nil_sum (C : Nat) : (spatialCounts C []).sum = 0 := by
  simp [spatialCounts]

theorem spatialCounts_sum_le (C : Nat) (g : Grid) : (spatialCounts C g).sum ≤ eventCount g := by
  induction g generalizing C with
  | nil => simp [spatialCounts_nil_sum]
  | cons row g ih =>
    cases C with
    | zero => simp [spatialCounts]
    | succ C =>
      rw [spatialCounts_cons]
      simp only [eventCount, List.map_cons, List.sum_cons]
      have := ih C; unfold eventCount at this; omega

theorem spatialCounts_sum_eq (C : Nat) (g : Grid) (h : g.length ≤ C) : (spatialCounts C g).sum = eventCount g := by
  induction g generalizing C with
  | nil => simp [spatialCounts_nil_sum, eventCount]
  | cons row g ih =>
    cases C with
    | zero => simp at h
    | succ C =>
      rw [spatialCounts_cons]
      simp only [eventCount, List.map_cons, List.sum_cons]
      have := ih C (by simpa using h); unfold eventCount at this; omega

/-- Σ_k Σ_x f k x = Σ_x Σ_k f k x over lists -/
theorem sum_map_sum_comm {M β γ : Type} [AddCommMonoid M] (ks : List γ) (l : List β) (f : γ → β → M) :
    (ks.map fun k => (l.map (f k)).sum).sum = (l.map fun x => (ks.map fun k => f k x).sum).sum := by
  induction l with
  | nil => simp
  | cons x xs ih => simp [List.sum_map_add, ih]

theorem sum_range_getD (K : Nat) (row : List Nat) (h : row.length ≤ K) :
    ((List.range K).map fun k => row.getD k 0).sum = row.sum := by
  induction row generalizing K with
  | nil => simp
  | cons x xs ih =>
    cases K with
    | zero => simp at h
    | succ K =>
      rw [List.range_succ_eq_map, List.map_cons, List.map_map, List.sum_cons]
      have := ih K (by simpa using h)
      simpa [Function.comp_def] using this

theorem magCounts_sum_eq (K : Nat) (g : Grid) (h : ∀ row ∈ g, row.length ≤ K) :
    (magCounts K g).sum = eventCount g := by
  unfold magCounts eventCount
  rw [sum_map_sum_comm]
  congr 1
  apply List.map_congr_left
  intro row hrow
  exact sum_range_getD K row (h row hrow)

/-! ### the magnitude marginal of the mean rates is the union histogram divided by J -/

theorem getD_map_range {β : Type} (K k : Nat) (f : Nat → β) (d : β) (h : k < K) :
    ((List.range K).map f).getD k d = f k := by
  simp [List.getD_eq_getElem?_getD, h]

theorem sum_range_getD_gen {β : Type} (C : Nat) (l : List β) (d : β) (f : β → Nat) (hd : f d = 0)
    (h : l.length ≤ C) : ((List.range C).map fun i => f (l.getD i d)).sum = (l.map f).sum := by
  induction l generalizing C with
  | nil => simp [hd]
  | cons x xs ih =>
    cases C with
    | zero => simp at h
    | succ C =>
      rw [List.range_succ_eq_map, List.map_cons, List.map_map, List.sum_cons]
      have := ih C (by simpa using h)
      simpa [Function.comp_def] using this

theorem unionCell_eq (C K : Nat) (sims : List Grid) (k : Nat) (hk : k < K) (hWF : ∀ g ∈ sims, g.length ≤ C) :
    ((List.range C).map fun i => sumEntry sims i k).sum = (sims.map fun g => (magCounts K g).getD k 0).sum := by
  unfold sumEntry
  rw [sum_map_sum_comm]
  congr 1
  apply List.map_congr_left
  intro g hg
  unfold magCounts
  rw [getD_map_range K k _ 0 hk]
  unfold entry
  exact sum_range_getD_gen C g [] (fun row => row.getD k 0) (by simp) (hWF g hg)

theorem real_sum_map_div (l : List Nat) (c : ℝ) :
    (l.map fun (n : Nat) => (n : ℝ) / c).sum = ((l.sum : Nat) : ℝ) / c := by
  induction l with
  | nil => simp
  | cons x xs ih => simp [ih, add_div]

theorem magRates_eq_union (C K : Nat) (sims : List Grid) (hWF : ∀ g ∈ sims, g.length ≤ C) :
    magRates K (meanRates C K sims : List (List ℝ)) =
      (unionHist K sims).map fun (u : Nat) => (u : ℝ) / (sims.length : ℝ) := by
  unfold magRates unionHist
  rw [List.map_map]
  apply List.map_congr_left
  intro k hk
  have hk' : k < K := List.mem_range.mp hk
  simp only [Function.comp_def, RealOps.real_sum, meanRates, List.map_map]
  rw [← unionCell_eq C K sims k hk' hWF, ← real_sum_map_div]
  congr 1
  rw [List.map_map]
  apply List.map_congr_left
  intro i _
  simp only [Function.comp_def]
  rw [getD_map_range K k _ _ hk']
  simp

theorem real_sum_map_div' (l : List Nat) (c : ℝ) :
    RealOps.sum (l.map fun (n : Nat) => (n : ℝ) / c) = ((l.sum : Nat) : ℝ) / c := by
  rw [RealOps.real_sum, real_sum_map_div]

/-! ### magnitude tests -/

/-- log₁₀ -/
noncomputable def lg10 (x : ℝ) : ℝ := Real.log x / Real.log 10

theorem log10_real (x : ℝ) : (log10 x : ℝ) = lg10 x := by
  simp [log10, lg10]

/-- documented test statistic of a catalog with magnitude histogram `h` and `n` events
    (theory.rst "Magnitude Test"; Savran et al. 2020, eq. for D_j):
    D = Σ_k ( log₁₀[N_obs/N_U · Λ_U(k) + 1] − log₁₀[N_obs/n · h(k) + 1] )² -/
noncomputable def docD (unionH : List Nat) (nObs : Nat) (h : List Nat) (n : Nat) : ℝ :=
  (List.zipWith (fun (c u : Nat) =>
    (lg10 ((nObs : ℝ) / ((unionH.sum : Nat) : ℝ) * (u : ℝ) + 1) - lg10 ((nObs : ℝ) / (n : ℝ) * (c : ℝ) + 1)) ^ 2)
    h unionH).sum

/-- documented observed statistic: d_obs = Σ_k ( log₁₀[N_obs/N_U · Λ_U(k) + 1] − log₁₀[Ω(k) + 1] )² -/
noncomputable def docDobs (unionH : List Nat) (nObs : Nat) (obsH : List Nat) : ℝ :=
  (List.zipWith (fun (c u : Nat) =>
    (lg10 ((nObs : ℝ) / ((unionH.sum : Nat) : ℝ) * (u : ℝ) + 1) - lg10 ((c : ℝ) + 1)) ^ 2) obsH unionH).sum

/-- the reference vector log₁₀(N_obs/N_U · Λ_U + 1) -/
noncomputable def refVec (unionH : List Nat) (nObs : Nat) : List ℝ :=
  unionH.map fun (u : Nat) => lg10 ((nObs : ℝ) / ((unionH.sum : Nat) : ℝ) * (u : ℝ) + 1)

theorem csd_maps (h us : List Nat) (a b : Nat → ℝ) :
    cumulativeSquareDiff (h.map a) (us.map b) = (List.zipWith (fun c u => (b u - a c) ^ 2) h us).sum := by
  unfold cumulativeSquareDiff
  rw [RealOps.real_sum, List.zipWith_map]
  congr 2
  funext c u
  simp [sq]

theorem dStat_eq_doc (unionH : List Nat) (nObs : Nat) (mc : List Nat) :
    dStat nObs (refVec unionH nObs) mc =
      if mc.sum = 0 then none else some (.fin (docD unionH nObs mc mc.sum)) := by
  unfold dStat
  by_cases h : mc.sum = 0
  · simp [h]
  · simp only [h, if_false]
    congr 2
    unfold logHist refVec docD
    rw [csd_maps]
    congr 2
    funext c u
    simp only [log10_real, RealOps.real_add, RealOps.real_mul, RealOps.real_div, RealOps.real_ofNat,
      RealOps.real_one]
    rw [mul_comm (c : ℝ)]

theorem obsD_eq_doc (unionH : List Nat) (nObs : Nat) (obsH : List Nat) :
    cumulativeSquareDiff (logHist obsH (RealOps.one : ℝ)) (refVec unionH nObs) = docDobs unionH nObs obsH := by
  unfold logHist refVec docDobs
  rw [csd_maps]
  congr 2
  funext c u
  simp only [log10_real, RealOps.real_add, RealOps.real_mul, RealOps.real_ofNat, RealOps.real_one, mul_one]

theorem unionHist_nil (K : Nat) : (unionHist K []).sum = 0 := by
  simp [unionHist]

/-- the code's reference vector, computed from the mean rates, is the documented one computed from the union -/
theorem refVec_of_meanRates (C K : Nat) (sims : List Grid) (nObs : Nat) (hWF : ∀ g ∈ sims, g.length ≤ C)
    (hU : (unionHist K sims).sum ≠ 0) :
    let union : List ℝ := magRates K (meanRates C K sims)
    isZero (RealOps.sum union) = false ∧
    (union.map fun u => RealOps.mul u (RealOps.div (RealOps.ofNat nObs) (RealOps.sum union))).map
      (fun x => log10 (RealOps.add x RealOps.one)) = refVec (unionHist K sims) nObs := by
  intro union
  have hJ : (sims.length : ℝ) ≠ 0 := by
    intro h
    have : sims = [] := by simpa using h
    subst this; exact hU (unionHist_nil K)
  have hU' : (((unionHist K sims).sum : Nat) : ℝ) ≠ 0 := by exact_mod_cast hU
  have hunion : union = (unionHist K sims).map fun (u : Nat) => (u : ℝ) / (sims.length : ℝ) :=
    magRates_eq_union C K sims hWF
  have hsum : RealOps.sum union = (((unionHist K sims).sum : Nat) : ℝ) / (sims.length : ℝ) := by
    rw [hunion]; exact real_sum_map_div' _ _
  constructor
  · rw [isZero_real, hsum]; exact decide_eq_false (div_ne_zero hU' hJ)
  · rw [hsum, hunion, List.map_map, List.map_map]
    unfold refVec
    apply List.map_congr_left
    intro u _
    simp only [Function.comp_def, log10_real, RealOps.real_add, RealOps.real_mul, RealOps.real_div,
      RealOps.real_ofNat, RealOps.real_one]
    congr 2
    field_simp

theorem magnitude_flow (C K : Nat) (sims : List Grid) (obs : Grid) (hWF : ∀ g ∈ sims, g.length ≤ C)
    (hobs : eventCount obs ≠ 0) (hU : (unionHist K sims).sum ≠ 0)
    (U : List Nat) (N : Nat) (dist : List (ELL ℝ)) (hUdef : U = unionHist K sims)
    (hNdef : N = (magCounts K obs).sum)
    (hdist : dist = sims.filterMap fun g =>
      if (magCounts K g).sum = 0 then none else some (.fin (docD U N (magCounts K g) (magCounts K g).sum))) :
    (magnitudeTest (α := ℝ) C K sims obs).status = .normal ∧
    (magnitudeTest (α := ℝ) C K sims obs).observed = some (.fin (docDobs U N (magCounts K obs))) ∧
    (magnitudeTest (α := ℝ) C K sims obs).distribution = dist ∧
    (magnitudeTest (α := ℝ) C K sims obs).quantile = quantiles dist (.fin (docDobs U N (magCounts K obs))) := by
  subst hUdef hNdef
  obtain ⟨hz, href⟩ := refVec_of_meanRates C K sims (magCounts K obs).sum hWF hU
  have hd : (sims.filterMap fun g => dStat (magCounts K obs).sum
      (refVec (unionHist K sims) (magCounts K obs).sum) (magCounts K g)) = dist := by
    rw [hdist]
    apply List.filterMap_congr
    intro g _
    exact dStat_eq_doc _ _ (magCounts K g)
  unfold magnitudeTest
  simp only [hobs, if_false, hz, Bool.false_eq_true, href]
  rw [obsD_eq_doc, hd]
  exact ⟨trivial, rfl, rfl, rfl⟩

/-! ### resampled magnitude test -/

theorem logHist_union (unionH : List Nat) (nObs : Nat) :
    logHist unionH (RealOps.div (RealOps.ofNat nObs) (RealOps.ofNat unionH.sum) : ℝ) = refVec unionH nObs := by
  unfold logHist refVec
  apply List.map_congr_left
  intro u _
  simp only [log10_real, RealOps.real_add, RealOps.real_mul, RealOps.real_div, RealOps.real_ofNat,
    RealOps.real_one]
  rw [mul_comm]

/-- a resampled catalog has exactly N_obs events, so its scale factor N_obs/n is 1 -/
theorem docD_self (unionH : List Nat) (nObs : Nat) (mc : List Nat) (h : mc.sum = nObs) (h0 : nObs ≠ 0) :
    docD unionH nObs mc mc.sum = docDobs unionH nObs mc := by
  unfold docD docDobs
  have : ((nObs : ℝ) / ((mc.sum : Nat) : ℝ)) = 1 := by
    rw [h]; exact div_self (by exact_mod_cast h0)
  simp only [this, one_mul]

theorem resampled_flow (K : Nat) (sims : List Grid) (obs : Grid) (draws : List (List Nat))
    (hobs : eventCount obs ≠ 0) (hN : (magCounts K obs).sum ≠ 0)
    (hdraws : ∀ mc ∈ draws, mc.sum = (magCounts K obs).sum)
    (U : List Nat) (N : Nat) (hUdef : U = unionHist K sims) (hNdef : N = (magCounts K obs).sum) :
    (resampledMagnitudeTest (α := ℝ) K sims obs draws).status = .normal ∧
    (resampledMagnitudeTest (α := ℝ) K sims obs draws).observed = some (.fin (docDobs U N (magCounts K obs))) ∧
    (resampledMagnitudeTest (α := ℝ) K sims obs draws).distribution =
      draws.map (fun mc => ELL.fin (docDobs U N mc)) ∧
    (resampledMagnitudeTest (α := ℝ) K sims obs draws).quantile =
      quantiles (draws.map fun mc => ELL.fin (docDobs U N mc)) (.fin (docDobs U N (magCounts K obs))) := by
  subst hUdef hNdef
  have hd : (draws.filterMap fun mc => dStat (magCounts K obs).sum
      (refVec (unionHist K sims) (magCounts K obs).sum) mc) =
      draws.map (fun mc => ELL.fin (docDobs (unionHist K sims) (magCounts K obs).sum mc)) := by
    rw [← List.filterMap_eq_map]
    apply List.filterMap_congr
    intro mc hmc
    rw [dStat_eq_doc]
    have h1 : mc.sum ≠ 0 := by rw [hdraws mc hmc]; exact hN
    simp only [h1, if_false, Function.comp]
    rw [docD_self _ _ _ (hdraws mc hmc) hN]
  unfold resampledMagnitudeTest
  simp only [hobs, if_false, logHist_union]
  rw [obsD_eq_doc, hd]
  exact ⟨trivial, rfl, rfl, rfl⟩

/-! ### MLL magnitude test -/

/-- log of the multinomial likelihood of the (possibly non-integer) count vector `x` at its own relative
    frequencies p = x/Σx, with the factorial generalised by `lg z = log Γ(z+1)`:
    log L(x) = lg(Σx) + Σ_k ( x_k · log(x_k/Σx) − lg(x_k) ) -/
noncomputable def docLogL (lg : ℝ → ℝ) (x : List ℝ) : ℝ :=
  lg x.sum + (x.map fun xi => xi * Real.log (xi / x.sum) - lg xi).sum

/-- the likelihood itself -/
noncomputable def docL (lg : ℝ → ℝ) (x : List ℝ) : ℝ := Real.exp (docLogL lg x)

/-- documented MLL score (Serafini et al. 2024; stats.py `MLL_score` docstring):
    2 · log( L(Λ_u + N_u/N_j + Λ_j + 1) / [ L(Λ_u + N_u/N_j) · L(Λ_j + 1) ] ) -/
noncomputable def docMLL (lg : ℝ → ℝ) (u c : List Nat) : ℝ :=
  let ratio : ℝ := ((u.sum : Nat) : ℝ) / ((c.sum : Nat) : ℝ)
  2 * Real.log (docL lg (List.zipWith (fun (a b : Nat) => (a : ℝ) + ratio + ((b : ℝ) + 1)) u c) /
    (docL lg (u.map fun (a : Nat) => (a : ℝ) + ratio) * docL lg (c.map fun (b : Nat) => (b : ℝ) + 1)))

theorem logDMultinomial_real (lg : ℝ → ℝ) (x : List ℝ) : logDMultinomial lg x = docLogL lg x := by
  simp [logDMultinomial, docLogL, RealOps.real_sum]

theorem mllScore_eq_doc (lg : ℝ → ℝ) (u c : List Nat) : mllScore lg u c = docMLL lg u c := by
  unfold mllScore docMLL docL
  simp only [logDMultinomial_real, RealOps.real_mul, RealOps.real_sub, RealOps.real_div, RealOps.real_ofNat,
    RealOps.real_add, RealOps.real_one, RealOps.two]
  rw [← Real.exp_add, ← Real.exp_sub, Real.log_exp, List.zipWith_map]
  simp only [RealOps.real_add]
  ring

theorem mll_flow (lg : ℝ → ℝ) (K : Nat) (sims : List Grid) (obs : Grid) (draws : List (List Nat))
    (hobs : eventCount obs ≠ 0) :
    (mllMagnitudeTest (α := ℝ) lg K sims obs draws).status = .normal ∧
    (mllMagnitudeTest (α := ℝ) lg K sims obs draws).observed =
      some (.fin (docMLL lg (unionHist K sims) (magCounts K obs))) ∧
    (mllMagnitudeTest (α := ℝ) lg K sims obs draws).distribution =
      draws.map (fun mc => ELL.fin (docMLL lg (unionHist K sims) mc)) ∧
    (mllMagnitudeTest (α := ℝ) lg K sims obs draws).quantile =
      quantiles (draws.map fun mc => ELL.fin (docMLL lg (unionHist K sims) mc))
        (.fin (docMLL lg (unionHist K sims) (magCounts K obs))) := by
  unfold mllMagnitudeTest
  simp only [hobs, if_false, mllScore_eq_doc]
  exact ⟨trivial, trivial, trivial, trivial⟩

theorem length_filterMap_countP {β γ : Type} (f : β → Option γ) (l : List β) :
    (l.filterMap f).length = l.countP (fun x => (f x).isSome) := by
  induction l with
  | nil => rfl
  | cons x xs ih =>
    cases h : f x <;> simp [h, ih]

/-! ### N̄ is the mean number of events; every synthetic catalog lies in sampled cells -/

/-- well-formed count matrix: at most C rows of at most K entries -/
def WF (C K : Nat) (g : Grid) : Prop := g.length ≤ C ∧ ∀ row ∈ g, row.length ≤ K

theorem row_getD_length (g : Grid) (K i : Nat) (h : ∀ row ∈ g, row.length ≤ K) : (g.getD i []).length ≤ K := by
  rw [List.getD_eq_getElem?_getD]
  cases hi : g[i]? with
  | none => simp
  | some row => simpa using h row (List.mem_of_getElem? hi)

/-- Σ_{k<K} entry g i k = number of events of g in cell i -/
theorem sum_entry_row (K : Nat) (g : Grid) (i : Nat) (h : ∀ row ∈ g, row.length ≤ K) :
    ((List.range K).map fun k => entry g i k).sum = (g.getD i []).sum := by
  unfold entry
  exact sum_range_getD K _ (row_getD_length g K i h)

theorem nat_sum_map_le {β : Type} (l : List β) (f h : β → Nat) (hle : ∀ x ∈ l, f x ≤ h x) :
    (l.map f).sum ≤ (l.map h).sum := by
  induction l with
  | nil => simp
  | cons x xs ih =>
    simp only [List.map_cons, List.sum_cons]
    have := hle x List.mem_cons_self
    have := ih (fun y hy => hle y (List.mem_cons_of_mem _ hy))
    omega

theorem entry_le_sumEntry (sims : List Grid) (g : Grid) (hg : g ∈ sims) (i k : Nat) :
    entry g i k ≤ sumEntry sims i k := by
  unfold sumEntry
  exact List.single_le_sum (by intro x _; exact Nat.zero_le x) _ (List.mem_map.mpr ⟨g, hg, rfl⟩)

/-- the mean spatial rate of cell i, as a real number -/
theorem sRates_eq (C K : Nat) (sims : List Grid) :
    sRates C K sims = (List.range C).map fun i =>
      ((((List.range K).map fun k => sumEntry sims i k).sum : Nat) : ℝ) / (sims.length : ℝ) := by
  unfold sRates spatialRates meanRates
  rw [List.map_map]
  apply List.map_congr_left
  intro i _
  simp only [Function.comp_def, RealOps.real_div, RealOps.real_ofNat]
  rw [← real_sum_map_div', List.map_map]
  rfl

/-- every cell in which a synthetic catalog of the forecast has an event has a positive mean rate -/
theorem occPos_sim (C K : Nat) (sims : List Grid) (g : Grid) (hg : g ∈ sims) (hWF : WF C K g) :
    OccPos (List.zip (spatialCounts C g) (sRates C K sims)) := by
  intro p hp hne
  rw [sRates_eq, spatialCounts, List.zip_map'] at hp
  obtain ⟨i, _, rfl⟩ := List.mem_map.mp hp
  simp only at hne ⊢
  have hJ : 0 < (sims.length : ℝ) := by
    have : 0 < sims.length := List.length_pos_of_mem hg
    exact_mod_cast this
  apply div_pos _ hJ
  have h1 : (g.getD i []).sum ≤ ((List.range K).map fun k => sumEntry sims i k).sum := by
    rw [← sum_entry_row K g i hWF.2]
    exact nat_sum_map_le _ _ _ (fun k _ => entry_le_sumEntry sims g hg i k)
  have : 0 < ((List.range K).map fun k => sumEntry sims i k).sum := by omega
  exact_mod_cast this

/-- the sum of the mean spatial rates is positive as soon as one synthetic catalog has an event in the region -/
theorem sRates_sum_pos (C K : Nat) (sims : List Grid) (g : Grid) (hg : g ∈ sims) (hWF : WF C K g)
    (hne : (spatialCounts C g).sum ≠ 0) : 0 < (sRates C K sims).sum := by
  have hpos := occPos_sim C K sims g hg hWF
  -- some cell of g is occupied
  have hex : ∃ n ∈ spatialCounts C g, n ≠ 0 := by
    by_contra hcon
    push Not at hcon
    exact hne (List.sum_eq_zero_iff.mpr hcon)
  obtain ⟨n, hn, hn0⟩ := hex
  have hlen : (spatialCounts C g).length = (sRates C K sims).length := by
    rw [spatialCounts_length, sRates_length]
  obtain ⟨idx, hidx, rfl⟩ := List.getElem_of_mem hn
  have hidx' : idx < (sRates C K sims).length := hlen ▸ hidx
  have hmem : ((spatialCounts C g)[idx], (sRates C K sims)[idx]) ∈ List.zip (spatialCounts C g) (sRates C K sims) := by
    rw [List.mem_iff_getElem]
    exact ⟨idx, by simp [hidx, hidx'], by simp⟩
  have := hpos _ hmem hn0
  exact lt_of_lt_of_le this (List.single_le_sum (spatialRates_nonneg C K sims) _ (List.getElem_mem hidx'))

theorem nat_cast_sum_div (l : List Nat) (c : ℝ) :
    ((l.map fun (n : Nat) => (n : ℝ) / c).sum) = ((l.sum : Nat) : ℝ) / c := real_sum_map_div l c

/-- N̄ (`expected_rates.sum()`) is the mean number of events per synthetic catalog -/
theorem nBar_eq_mean (C K : Nat) (sims : List Grid) (hWF : ∀ g ∈ sims, WF C K g) :
    nBar C K sims = (((sims.map eventCount).sum : Nat) : ℝ) / (sims.length : ℝ) := by
  have h1 : nBar C K sims = (sRates C K sims).sum := by
    simp [nBar, totalRate, sRates, spatialRates, RealOps.real_sum]
  rw [h1, sRates_eq]
  have hmm : ((List.range C).map fun i =>
      ((((List.range K).map fun k => sumEntry sims i k).sum : Nat) : ℝ) / (sims.length : ℝ)) =
      ((List.range C).map fun i => ((List.range K).map fun k => sumEntry sims i k).sum).map
        (fun (n : Nat) => (n : ℝ) / (sims.length : ℝ)) := by
    rw [List.map_map]; rfl
  rw [hmm, real_sum_map_div]
  congr 2
  -- Σ_i Σ_k Σ_g entry g i k = Σ_g eventCount g
  have : ∀ i, ((List.range K).map fun k => sumEntry sims i k).sum =
      (sims.map fun g => (g.getD i []).sum).sum := by
    intro i
    unfold sumEntry
    rw [sum_map_sum_comm]
    congr 1
    apply List.map_congr_left
    intro g hg
    exact sum_entry_row K g i (hWF g hg).2
  simp only [this]
  rw [sum_map_sum_comm]
  congr 1
  apply List.map_congr_left
  intro g hg
  have := spatialCounts_sum_eq C g (hWF g hg).1
  simpa [spatialCounts] using this

theorem nBar_eq_sum (C K : Nat) (sims : List Grid) : nBar C K sims = (sRates C K sims).sum := by
  simp [nBar, totalRate, sRates, spatialRates, RealOps.real_sum]

/-- −∞ on the first pass of the pseudo-likelihood statistic ⇔ an observed event lies in a cell of mean rate 0 -/
theorem plFirst_negInf_iff (C K : Nat) (sims : List Grid) (obs : Grid) (hobs : (spatialCounts C obs).sum ≠ 0) :
    plFirst C K sims obs = .negInf ↔
      ∃ p ∈ List.zip (spatialCounts C obs) (sRates C K sims), p.1 ≠ 0 ∧ p.2 = 0 := by
  unfold plFirst
  rw [computeLikelihood_fst _ _ _ _ hobs]
  constructor
  · intro h
    by_contra hcon
    have hpos : OccPos (List.zip (spatialCounts C obs) (sRates C K sims)) := by
      intro p hp hne
      have h0 : 0 ≤ p.2 := spatialRates_nonneg C K sims _ (List.of_mem_zip hp).2
      rcases lt_or_eq_of_le h0 with h1 | h1
      · exact h1
      · exact absurd ⟨p, hp, hne, h1.symm⟩ hcon
    rw [wlogSum_fin hpos] at h
    simp [ellMap] at h
  · rintro ⟨p, hp, hne, h0⟩
    rw [wlogSum_negInf ⟨p, hp, hne, le_of_eq h0⟩]
    rfl

end CatEvals
