import PycsepVerif.Proofs.Bin1dTables
/-! kernel-evaluated table (property C02): `tableOK` on a shipped grid; see Model/Bin1d.lean `probeOK` -/
namespace Bin1d.Tables
theorem tabMw2 : tableOK (cfg64 true) mwRaw [4, -4, 3, -3] = true := by decide +kernel
end Bin1d.Tables
