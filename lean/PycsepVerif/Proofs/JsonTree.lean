import PycsepVerif.Model.JsonTree
import PycsepVerif.Proofs.ResultJson

/-! Helper lemmas for the JSON value-tree model (C18): mutual structural induction over values / lists / entries. -/
namespace JsonTree

theorem Key.isStr_iff (k : Key) : k.isStr = true ↔ ∃ s, k = .kstr s := by
  cases k <;> simp [Key.isStr]

theorem allCls_str_of_safe : ∀ (kvs : PyKVs), SafeKVs kvs → kvs.allCls .str = true
  | .nil, _ => rfl
  | .cons k v rest, h => by
      have h' : k.isStr = true ∧ rest.hasKey k = false ∧ Safe v ∧ SafeKVs rest := by simpa [SafeKVs] using h
      obtain ⟨s, rfl⟩ := (Key.isStr_iff k).1 h'.1
      simp [PyKVs.allCls, Key.cls, allCls_str_of_safe rest h'.2.2.2]

theorem sortable_of_allStr : ∀ (kvs : PyKVs), kvs.allCls .str = true → kvs.sortable = true
  | .nil, _ => rfl
  | .cons k v rest, h => by
      have h' : k.cls = some .str ∧ rest.allCls .str = true := by simpa [PyKVs.allCls] using h
      simp [PyKVs.sortable, h'.1, h'.2]

mutual
  /-- a safe value can be written, what is loaded is its normal form, and the written tree has no duplicate names -/
  theorem rt_safe : ∀ (v : PyObj), Safe v → ∃ j, encode v = some j ∧ decode j = norm v ∧ NoDup j
    | .pyInt _, _ => ⟨_, rfl, rfl, trivial⟩
    | .pyBool _, _ => ⟨_, rfl, rfl, trivial⟩
    | .pyFloat _, _ => ⟨_, rfl, rfl, trivial⟩
    | .npFloat64 _, _ => ⟨_, rfl, rfl, trivial⟩
    | .npInt64 _, _ => ⟨_, rfl, rfl, trivial⟩
    | .npBool _, _ => ⟨_, rfl, rfl, trivial⟩
    | .npFloat32 _, _ => ⟨_, rfl, rfl, trivial⟩
    | .str _, _ => ⟨_, rfl, rfl, trivial⟩
    | .none, _ => ⟨_, rfl, rfl, trivial⟩
    | .other _, h => by simp [Safe] at h
    | .list xs, h => by
        obtain ⟨js, h1, h2, h3⟩ := rt_safeL xs (by simpa [Safe] using h)
        exact ⟨.arr js, by simp [encode, h1], by simp [decode, norm, h2], by simpa [NoDup] using h3⟩
    | .tuple xs, h => by
        obtain ⟨js, h1, h2, h3⟩ := rt_safeL xs (by simpa [Safe] using h)
        exact ⟨.arr js, by simp [encode, h1], by simp [decode, norm, h2], by simpa [NoDup] using h3⟩
    | .ndarray xs, h => by
        obtain ⟨js, h1, h2, h3⟩ := rt_safeL xs (by simpa [Safe] using h)
        exact ⟨.arr js, by simp [encode, h1], by simp [decode, norm, h2], by simpa [NoDup] using h3⟩
    | .dict kvs, h => by
        have hs : SafeKVs kvs := by simpa [Safe] using h
        obtain ⟨js, h1, h2, h3, _⟩ := rt_safeKVs kvs hs
        have hsort := sortable_of_allStr kvs (allCls_str_of_safe kvs hs)
        exact ⟨.obj js, by simp [encode, hsort, h1], by simp [decode, norm, h2], by simpa [NoDup] using h3⟩
  theorem rt_safeL : ∀ (xs : PyList), SafeL xs → ∃ js, encodeL xs = some js ∧ decodeL js = normL xs ∧ NoDupL js
    | .nil, _ => ⟨.nil, rfl, rfl, trivial⟩
    | .cons v vs, h => by
        have h' : Safe v ∧ SafeL vs := by simpa [SafeL] using h
        obtain ⟨j, a1, a2, a3⟩ := rt_safe v h'.1
        obtain ⟨js, b1, b2, b3⟩ := rt_safeL vs h'.2
        exact ⟨.cons j js, by simp [encodeL, a1, b1], by simp [decodeL, normL, a2, b2], by simp [NoDupL, a3, b3]⟩
  theorem rt_safeKVs : ∀ (kvs : PyKVs), SafeKVs kvs →
      ∃ js, encodeKVs kvs = some js ∧ decodeKVs js = normKVs kvs ∧ NoDupKVs js ∧
        ∀ s, js.hasKey s = kvs.hasKey (.kstr s)
    | .nil, _ => ⟨.nil, rfl, rfl, trivial, fun _ => rfl⟩
    | .cons k v rest, h => by
        have h' : k.isStr = true ∧ rest.hasKey k = false ∧ Safe v ∧ SafeKVs rest := by simpa [SafeKVs] using h
        obtain ⟨s, rfl⟩ := (Key.isStr_iff k).1 h'.1
        obtain ⟨j, a1, a2, a3⟩ := rt_safe v h'.2.2.1
        obtain ⟨js, b1, b2, b3, b4⟩ := rt_safeKVs rest h'.2.2.2
        have hk : js.hasKey s = false := by rw [b4 s]; exact h'.2.1
        refine ⟨.cons s j js, by simp [encodeKVs, a1, b1, Key.coerce], ?_, ?_, ?_⟩
        · simp [decodeKVs, hk, normKVs, a2, b2]
        · simp [NoDupKVs, hk, a3, b3]
        · intro t; simp [JKVs.hasKey, PyKVs.hasKey, b4 t]
end

/-- loading keeps exactly the member names of the object -/
theorem decodeKVs_hasKey : ∀ (ms : JKVs) (s : String), (decodeKVs ms).hasKey (.kstr s) = ms.hasKey s
  | .nil, _ => rfl
  | .cons k v rest, s => by
      cases hd : rest.hasKey k with
      | true =>
        simp only [decodeKVs, hd, if_true, JKVs.hasKey]
        rw [decodeKVs_hasKey rest s]
        by_cases hks : k = s
        · subst hks; simp [hd]
        · simp [hks]
      | false =>
        simp [decodeKVs, hd, JKVs.hasKey, PyKVs.hasKey, decodeKVs_hasKey rest s]

theorem decodeKVs_allStr : ∀ (ms : JKVs), (decodeKVs ms).allCls .str = true
  | .nil => rfl
  | .cons k v rest => by
      cases hd : rest.hasKey k with
      | true => simp only [decodeKVs, hd, if_true]; exact decodeKVs_allStr rest
      | false => simp [decodeKVs, hd, PyKVs.allCls, Key.cls, decodeKVs_allStr rest]

mutual
  theorem decode_plain : ∀ (j : JVal), Plain (decode j)
    | .null => by simp [decode, Plain]
    | .bool _ => by simp [decode, Plain]
    | .int _ => by simp [decode, Plain]
    | .float _ => by simp [decode, Plain]
    | .str _ => by simp [decode, Plain]
    | .arr xs => by simp only [decode, Plain]; exact decodeL_plain xs
    | .obj ms => by simp only [decode, Plain]; exact decodeKVs_plain ms
  theorem decodeL_plain : ∀ (xs : JList), PlainL (decodeL xs)
    | .nil => by simp [decodeL, PlainL]
    | .cons v vs => by simp only [decodeL, PlainL]; exact ⟨decode_plain v, decodeL_plain vs⟩
  theorem decodeKVs_plain : ∀ (ms : JKVs), PlainKVs (decodeKVs ms)
    | .nil => by simp [decodeKVs, PlainKVs]
    | .cons k v rest => by
        cases hd : rest.hasKey k with
        | true => simp only [decodeKVs, hd, if_true]; exact decodeKVs_plain rest
        | false =>
          have e : decodeKVs (.cons k v rest) = .cons (.kstr k) (decode v) (decodeKVs rest) := by
            simp [decodeKVs, hd]
          rw [e]; simp only [PlainKVs]
          refine ⟨rfl, ?_, decode_plain v, decodeKVs_plain rest⟩
          rw [decodeKVs_hasKey rest k]; exact hd
end

mutual
  theorem plain_safe : ∀ (v : PyObj), Plain v → Safe v
    | .pyInt _, _ => trivial
    | .pyBool _, _ => trivial
    | .pyFloat _, _ => trivial
    | .str _, _ => trivial
    | .none, _ => trivial
    | .list xs, h => by simp only [Safe]; exact plain_safeL xs (by simpa [Plain] using h)
    | .dict kvs, h => by simp only [Safe]; exact plain_safeKVs kvs (by simpa [Plain] using h)
    | .npFloat64 _, h => by simp [Plain] at h
    | .npInt64 _, h => by simp [Plain] at h
    | .npBool _, h => by simp [Plain] at h
    | .npFloat32 _, h => by simp [Plain] at h
    | .other _, h => by simp [Plain] at h
    | .tuple _, h => by simp [Plain] at h
    | .ndarray _, h => by simp [Plain] at h
  theorem plain_safeL : ∀ (xs : PyList), PlainL xs → SafeL xs
    | .nil, _ => trivial
    | .cons v vs, h => by
        have h' : Plain v ∧ PlainL vs := by simpa [PlainL] using h
        simp only [SafeL]; exact ⟨plain_safe v h'.1, plain_safeL vs h'.2⟩
  theorem plain_safeKVs : ∀ (kvs : PyKVs), PlainKVs kvs → SafeKVs kvs
    | .nil, _ => trivial
    | .cons k v rest, h => by
        have h' : k.isStr = true ∧ rest.hasKey k = false ∧ Plain v ∧ PlainKVs rest := by simpa [PlainKVs] using h
        simp only [SafeKVs]; exact ⟨h'.1, h'.2.1, plain_safe v h'.2.2.1, plain_safeKVs rest h'.2.2.2⟩
end

mutual
  theorem plain_norm : ∀ (v : PyObj), Plain v → norm v = v
    | .pyInt _, _ => rfl
    | .pyBool _, _ => rfl
    | .pyFloat _, _ => rfl
    | .str _, _ => rfl
    | .none, _ => rfl
    | .list xs, h => by simp only [norm]; rw [plain_normL xs (by simpa [Plain] using h)]
    | .dict kvs, h => by simp only [norm]; rw [plain_normKVs kvs (by simpa [Plain] using h)]
    | .npFloat64 _, h => by simp [Plain] at h
    | .npInt64 _, h => by simp [Plain] at h
    | .npBool _, h => by simp [Plain] at h
    | .npFloat32 _, h => by simp [Plain] at h
    | .other _, h => by simp [Plain] at h
    | .tuple _, h => by simp [Plain] at h
    | .ndarray _, h => by simp [Plain] at h
  theorem plain_normL : ∀ (xs : PyList), PlainL xs → normL xs = xs
    | .nil, _ => rfl
    | .cons v vs, h => by
        have h' : Plain v ∧ PlainL vs := by simpa [PlainL] using h
        simp only [normL]; rw [plain_norm v h'.1, plain_normL vs h'.2]
  theorem plain_normKVs : ∀ (kvs : PyKVs), PlainKVs kvs → normKVs kvs = kvs
    | .nil, _ => rfl
    | .cons k v rest, h => by
        have h' : k.isStr = true ∧ rest.hasKey k = false ∧ Plain v ∧ PlainKVs rest := by simpa [PlainKVs] using h
        simp only [normKVs]; rw [plain_norm v h'.2.2.1, plain_normKVs rest h'.2.2.2]
end

mutual
  /-- a tree without duplicate member names is a fixed point of load-then-write -/
  theorem enc_dec_fixed : ∀ (j : JVal), NoDup j → encode (decode j) = some j
    | .null, _ => rfl
    | .bool _, _ => rfl
    | .int _, _ => rfl
    | .float _, _ => rfl
    | .str _, _ => rfl
    | .arr xs, h => by simp [decode, encode, enc_dec_fixedL xs (by simpa [NoDup] using h)]
    | .obj ms, h => by
        have hs := sortable_of_allStr _ (decodeKVs_allStr ms)
        simp [decode, encode, hs, enc_dec_fixedKVs ms (by simpa [NoDup] using h)]
  theorem enc_dec_fixedL : ∀ (xs : JList), NoDupL xs → encodeL (decodeL xs) = some xs
    | .nil, _ => rfl
    | .cons v vs, h => by
        have h' : NoDup v ∧ NoDupL vs := by simpa [NoDupL] using h
        simp [decodeL, encodeL, enc_dec_fixed v h'.1, enc_dec_fixedL vs h'.2]
  theorem enc_dec_fixedKVs : ∀ (ms : JKVs), NoDupKVs ms → encodeKVs (decodeKVs ms) = some ms
    | .nil, _ => rfl
    | .cons k v rest, h => by
        have h' : rest.hasKey k = false ∧ NoDup v ∧ NoDupKVs rest := by simpa [NoDupKVs] using h
        simp [decodeKVs, h'.1, encodeKVs, Key.coerce, enc_dec_fixed v h'.2.1, enc_dec_fixedKVs rest h'.2.2]
end

mutual
  theorem safeB_iff : ∀ (v : PyObj), safeB v = true ↔ Safe v
    | .pyInt _ => by simp [safeB, Safe]
    | .pyBool _ => by simp [safeB, Safe]
    | .pyFloat _ => by simp [safeB, Safe]
    | .npFloat64 _ => by simp [safeB, Safe]
    | .str _ => by simp [safeB, Safe]
    | .none => by simp [safeB, Safe]
    | .npInt64 _ => by simp [safeB, Safe]
    | .npBool _ => by simp [safeB, Safe]
    | .npFloat32 _ => by simp [safeB, Safe]
    | .other _ => by simp [safeB, Safe]
    | .list xs => by simp only [safeB, Safe]; exact safeLB_iff xs
    | .tuple xs => by simp only [safeB, Safe]; exact safeLB_iff xs
    | .ndarray xs => by simp only [safeB, Safe]; exact safeLB_iff xs
    | .dict kvs => by simp only [safeB, Safe]; exact safeKVsB_iff kvs
  theorem safeLB_iff : ∀ (xs : PyList), safeLB xs = true ↔ SafeL xs
    | .nil => by simp [safeLB, SafeL]
    | .cons v vs => by simp only [safeLB, SafeL, Bool.and_eq_true]; rw [safeB_iff v, safeLB_iff vs]
  theorem safeKVsB_iff : ∀ (kvs : PyKVs), safeKVsB kvs = true ↔ SafeKVs kvs
    | .nil => by simp [safeKVsB, SafeKVs]
    | .cons k v rest => by
        simp only [safeKVsB, SafeKVs, Bool.and_eq_true, Bool.not_eq_true']
        rw [safeB_iff v, safeKVsB_iff rest]
        constructor
        · rintro ⟨⟨⟨a, b⟩, c⟩, d⟩; exact ⟨a, b, c, d⟩
        · rintro ⟨a, b, c, d⟩; exact ⟨⟨⟨a, b⟩, c⟩, d⟩
end

mutual
  theorem norm_idem : ∀ (v : PyObj), norm (norm v) = norm v
    | .pyInt _ => rfl
    | .pyBool _ => rfl
    | .pyFloat _ => rfl
    | .npFloat64 _ => rfl
    | .str _ => rfl
    | .none => rfl
    | .npInt64 _ => rfl
    | .npBool _ => rfl
    | .npFloat32 _ => rfl
    | .other _ => rfl
    | .list xs => by simp only [norm]; rw [norm_idemL xs]
    | .tuple xs => by simp only [norm]; rw [norm_idemL xs]
    | .ndarray xs => by simp only [norm]; rw [norm_idemL xs]
    | .dict kvs => by simp only [norm]; rw [norm_idemKVs kvs]
  theorem norm_idemL : ∀ (xs : PyList), normL (normL xs) = normL xs
    | .nil => rfl
    | .cons v vs => by simp only [normL]; rw [norm_idem v, norm_idemL vs]
  theorem norm_idemKVs : ∀ (kvs : PyKVs), normKVs (normKVs kvs) = normKVs kvs
    | .nil => rfl
    | .cons k v rest => by simp only [normKVs]; rw [norm_idem v, norm_idemKVs rest]
end

/-! ### the scalar/array model of `Model/ResultJson.lean` is the dict-free fragment of this one -/

mutual
  theorem encode_ofPyVal : ∀ (v : ResultJson.PyVal), encode (ofPyVal v) = some (ofJson (ResultJson.toJson v))
    | .pyInt _ => rfl
    | .pyBool _ => rfl
    | .pyFloat _ => rfl
    | .npFloat64 _ => rfl
    | .npInt64 _ => rfl
    | .npBool _ => rfl
    | .npFloat32 _ => rfl
    | .other _ => rfl
    | .str _ => rfl
    | .none => rfl
    | .list xs => by simp [ofPyVal, encode, ResultJson.toJson, ofJson, encode_ofPyList xs]
    | .tuple xs => by simp [ofPyVal, encode, ResultJson.toJson, ofJson, encode_ofPyList xs]
    | .ndarray xs => by simp [ofPyVal, encode, ResultJson.toJson, ofJson, encode_ofPyList xs]
  theorem encode_ofPyList : ∀ (xs : ResultJson.PyList), encodeL (ofPyList xs) = some (ofJList (ResultJson.toJsonL xs))
    | .nil => rfl
    | .cons v vs => by simp [ofPyList, encodeL, ResultJson.toJsonL, ofJList, encode_ofPyVal v, encode_ofPyList vs]
end

mutual
  theorem decode_ofJson : ∀ (j : ResultJson.Json), decode (ofJson j) = ofPyVal (ResultJson.fromJson j)
    | .null => rfl
    | .bool _ => rfl
    | .int _ => rfl
    | .float _ => rfl
    | .str _ => rfl
    | .arr xs => by simp [ofJson, decode, ResultJson.fromJson, ofPyVal, decode_ofJList xs]
  theorem decode_ofJList : ∀ (xs : ResultJson.JList), decodeL (ofJList xs) = ofPyList (ResultJson.fromJsonL xs)
    | .nil => rfl
    | .cons v vs => by simp [ofJList, decodeL, ResultJson.fromJsonL, ofPyList, decode_ofJson v, decode_ofJList vs]
end

mutual
  theorem norm_ofPyVal : ∀ (v : ResultJson.PyVal), norm (ofPyVal v) = ofPyVal (ResultJson.norm v)
    | .pyInt _ => rfl
    | .pyBool _ => rfl
    | .pyFloat _ => rfl
    | .npFloat64 _ => rfl
    | .npInt64 _ => rfl
    | .npBool _ => rfl
    | .npFloat32 _ => rfl
    | .other _ => rfl
    | .str _ => rfl
    | .none => rfl
    | .list xs => by simp [ofPyVal, norm, ResultJson.norm, norm_ofPyList xs]
    | .tuple xs => by simp [ofPyVal, norm, ResultJson.norm, norm_ofPyList xs]
    | .ndarray xs => by simp [ofPyVal, norm, ResultJson.norm, norm_ofPyList xs]
  theorem norm_ofPyList : ∀ (xs : ResultJson.PyList), normL (ofPyList xs) = ofPyList (ResultJson.normL xs)
    | .nil => rfl
    | .cons v vs => by simp [ofPyList, normL, ResultJson.normL, norm_ofPyVal v, norm_ofPyList vs]
end

mutual
  theorem safe_ofPyVal : ∀ (v : ResultJson.PyVal), Safe (ofPyVal v) ↔ ResultJson.Safe v
    | .pyInt _ => by simp [ofPyVal, Safe, ResultJson.Safe]
    | .pyBool _ => by simp [ofPyVal, Safe, ResultJson.Safe]
    | .pyFloat _ => by simp [ofPyVal, Safe, ResultJson.Safe]
    | .npFloat64 _ => by simp [ofPyVal, Safe, ResultJson.Safe]
    | .npInt64 _ => by simp [ofPyVal, Safe, ResultJson.Safe]
    | .npBool _ => by simp [ofPyVal, Safe, ResultJson.Safe]
    | .npFloat32 _ => by simp [ofPyVal, Safe, ResultJson.Safe]
    | .other _ => by simp [ofPyVal, Safe, ResultJson.Safe]
    | .str _ => by simp [ofPyVal, Safe, ResultJson.Safe]
    | .none => by simp [ofPyVal, Safe, ResultJson.Safe]
    | .list xs => by simp only [ofPyVal, Safe, ResultJson.Safe]; exact safe_ofPyList xs
    | .tuple xs => by simp only [ofPyVal, Safe, ResultJson.Safe]; exact safe_ofPyList xs
    | .ndarray xs => by simp only [ofPyVal, Safe, ResultJson.Safe]; exact safe_ofPyList xs
  theorem safe_ofPyList : ∀ (xs : ResultJson.PyList), SafeL (ofPyList xs) ↔ ResultJson.SafeL xs
    | .nil => by simp [ofPyList, SafeL, ResultJson.SafeL]
    | .cons v vs => by simp only [ofPyList, SafeL, ResultJson.SafeL]; rw [safe_ofPyVal v, safe_ofPyList vs]
end

end JsonTree
