import Mathlib.Analysis.SpecialFunctions.Trigonometric.Arctan
import Mathlib.Analysis.SpecialFunctions.Trigonometric.DerivHyp
import Mathlib.Analysis.SpecialFunctions.Arsinh
import Mathlib.Tactic.Linarith
import Mathlib.Tactic.Ring
import Mathlib.Tactic.FieldSimp
import PycsepVerif.Model.QuadtreeGeo
import PycsepVerif.Proofs.Quadtree

/-!
  The REAL Web-Mercator geometry behind C17 (round 3).

  `Quadtree.mercLat` (Model/QuadtreeGeo.lean, the formula of mercantile.bounds) is instantiated at ℝ and the facts the
  abstract theorems of Properties/C17.lean only ASSUMED about the latitude function are PROVED for it:
  strictly antitone, values in (−90°, 90°), odd about the equator y = 1/2, `sin(lat) = tanh(π(1−2y))`.
  Every latitude in (−90°, 90°) is the Mercator latitude of exactly one real unit coordinate (`mercY`), so the library's
  test on an arbitrary real (lon, lat) is a dyadic-square test on real unit coordinates (`InTileR`), and `InTileR` of any
  key of depth ≤ D depends only on the depth-D cell ⌊x·2^D⌋, ⌈y·2^D⌉ the point falls in.
-/
namespace Quadtree
open Real

/-- the arithmetic of `geographical_area_from_bounds` / `mercantile.bounds` on the real numbers -/
noncomputable def realGeo : GeoOps ℝ where
  sub := (· - ·)
  mul := (· * ·)
  div := (· / ·)
  lit := fun n => (n : ℝ)
  cos := Real.cos
  sinh := Real.sinh
  atan := Real.arctan
  pi := Real.pi
  beq := fun a b => decide (a = b)

/-- Web-Mercator latitude in radians of the horizontal line at unit coordinate y (0 = north limit, 1 = south limit) -/
noncomputable def latRad (y : ℝ) : ℝ := arctan (sinh (π * (1 - 2 * y)))

/-- … in degrees: exactly what `mercLat` computes on ℝ -/
noncomputable def latDeg (y : ℝ) : ℝ := latRad y * (180 / π)

theorem mercLat_real (y : ℝ) : mercLat realGeo y = latDeg y := by
  simp [mercLat, realGeo, latDeg, latRad]

theorem mercLon_real (x : ℝ) : mercLon realGeo x = x * 360 - 180 := by
  simp [mercLon, realGeo]

theorem latRad_strictAnti : StrictAnti latRad := by
  intro a b hab
  unfold latRad
  apply arctan_strictMono
  apply sinh_strictMono
  have := pi_pos
  nlinarith

theorem latDeg_strictAnti : StrictAnti latDeg := by
  intro a b hab
  unfold latDeg
  have h := latRad_strictAnti hab
  have hp : 0 < 180 / π := by positivity
  exact mul_lt_mul_of_pos_right h hp

theorem latRad_range (y : ℝ) : -(π / 2) < latRad y ∧ latRad y < π / 2 :=
  ⟨neg_pi_div_two_lt_arctan _, arctan_lt_pi_div_two _⟩

theorem latDeg_range (y : ℝ) : -90 < latDeg y ∧ latDeg y < 90 := by
  have hp := pi_pos
  have h := latRad_range y
  have hk : 0 < 180 / π := by positivity
  have e : (π / 2) * (180 / π) = 90 := by field_simp; ring
  unfold latDeg
  constructor
  · have := mul_lt_mul_of_pos_right h.1 hk
    rw [neg_mul, e] at this; exact this
  · have := mul_lt_mul_of_pos_right h.2 hk
    rw [e] at this; exact this

/-- the equator is the mid-line, and the map is odd about it: the southern limit is minus the northern limit -/
theorem latDeg_half : latDeg (1 / 2) = 0 := by
  simp [latDeg, latRad]

theorem latDeg_reflect (y : ℝ) : latDeg (1 - y) = -latDeg y := by
  unfold latDeg latRad
  have e : π * (1 - 2 * (1 - y)) = -(π * (1 - 2 * y)) := by ring
  rw [e, sinh_neg, arctan_neg]; ring

theorem latDeg_zero_pos : 0 < latDeg 0 := by
  have := latDeg_strictAnti (show (0 : ℝ) < 1 / 2 by norm_num)
  rw [latDeg_half] at this; exact this

/-- the latitude limits are ±latDeg 0 = ±degrees(atan(sinh π)) -/
theorem latDeg_one : latDeg 1 = -latDeg 0 := by
  have := latDeg_reflect 0; simpa using this

/-- sin of the Mercator latitude is tanh of the Mercator ordinate: `sin(atan(sinh u)) = tanh u` -/
theorem sin_latRad (y : ℝ) : sin (latRad y) = tanh (π * (1 - 2 * y)) := by
  unfold latRad
  rw [sin_arctan, tanh_eq_sinh_div_cosh]
  congr 1
  rw [add_comm, ← cosh_sq]
  exact sqrt_sq (cosh_pos _).le

/-- `cos((90 − lat)·π/180) = sin(lat_rad)`: the colatitude form used by `geographical_area_from_bounds` -/
theorem cos_colat (y : ℝ) : cos ((90 - latDeg y) * (π / 180)) = sin (latRad y) := by
  have hp := pi_pos.ne'
  have e : (90 - latDeg y) * (π / 180) = π / 2 - latRad y := by
    unfold latDeg; field_simp; ring
  rw [e, cos_pi_div_two_sub]

/-! ### every latitude is the Mercator latitude of one unit coordinate -/

/-- inverse Mercator: unit coordinate of latitude φ (degrees) -/
noncomputable def mercY (φ : ℝ) : ℝ := (1 - arsinh (tan (φ * (π / 180))) / π) / 2

theorem latDeg_mercY (φ : ℝ) (h1 : -90 < φ) (h2 : φ < 90) : latDeg (mercY φ) = φ := by
  have hp := pi_pos
  unfold latDeg latRad mercY
  have e : π * (1 - 2 * ((1 - arsinh (tan (φ * (π / 180))) / π) / 2)) = arsinh (tan (φ * (π / 180))) := by
    field_simp; ring
  rw [e, sinh_arsinh, arctan_tan]
  · field_simp
  · have : -(π / 2) = -90 * (π / 180) := by ring
    rw [this]; exact mul_lt_mul_of_pos_right h1 (by positivity)
  · have : π / 2 = 90 * (π / 180) := by ring
    rw [this]; exact mul_lt_mul_of_pos_right h2 (by positivity)

theorem mercY_latDeg (y : ℝ) : mercY (latDeg y) = y := by
  have h := latDeg_range y
  exact latDeg_strictAnti.injective (latDeg_mercY _ h.1 h.2)

/-! ### membership on real unit coordinates -/

/-- `InTile` for a point with REAL unit coordinates -/
def InTileR (k : Key) (x y : ℝ) : Prop :=
  (tileX k : ℝ) ≤ x * (2 : ℝ) ^ k.length ∧ x * (2 : ℝ) ^ k.length < (tileX k : ℝ) + 1 ∧
  (tileY k : ℝ) < y * (2 : ℝ) ^ k.length ∧ y * (2 : ℝ) ^ k.length ≤ (tileY k : ℝ) + 1

theorem scale_cast (k : Key) : ((scale k : ℚ) : ℝ) = (2 : ℝ) ^ k.length := by
  unfold scale; push_cast; rfl

/-- on rational points the two agree -/
theorem inTileR_cast (k : Key) (p : Pt) : InTileR k (p.x : ℝ) (p.y : ℝ) ↔ InTile k p := by
  unfold InTileR InTile
  rw [← scale_cast]
  constructor
  · rintro ⟨a, b, c, d⟩
    exact ⟨by exact_mod_cast a, by exact_mod_cast b, by exact_mod_cast c, by exact_mod_cast d⟩
  · rintro ⟨a, b, c, d⟩
    exact ⟨by exact_mod_cast a, by exact_mod_cast b, by exact_mod_cast c, by exact_mod_cast d⟩

private theorem pow_split (z D : ℕ) (h : z ≤ D) : (2 : ℝ) ^ D = (2 : ℝ) ^ z * (2 : ℝ) ^ (D - z) := by
  rw [← pow_add]; congr 1; omega

/-- membership in a tile of depth ≤ D depends only on the depth-D cell the point falls in:
    column ⌊x·2^D⌋ (west edge inclusive) and row ⌈y·2^D⌉ (south edge inclusive) -/
theorem inTileR_iff_cell (k : Key) (D : ℕ) (hD : k.length ≤ D) (x y : ℝ) :
    InTileR k x y ↔
      ((tileX k : ℤ) * 2 ^ (D - k.length) ≤ ⌊x * 2 ^ D⌋ ∧ ⌊x * 2 ^ D⌋ < ((tileX k : ℤ) + 1) * 2 ^ (D - k.length)) ∧
      ((tileY k : ℤ) * 2 ^ (D - k.length) < ⌈y * 2 ^ D⌉ ∧ ⌈y * 2 ^ D⌉ ≤ ((tileY k : ℤ) + 1) * 2 ^ (D - k.length)) := by
  have hs := pow_split k.length D hD
  have hq : (0 : ℝ) < (2 : ℝ) ^ (D - k.length) := by positivity
  unfold InTileR
  rw [Int.le_floor, Int.floor_lt, Int.lt_ceil, Int.ceil_le]
  push_cast
  rw [hs]
  have ex : x * ((2 : ℝ) ^ k.length * (2 : ℝ) ^ (D - k.length)) = (x * (2 : ℝ) ^ k.length) * (2 : ℝ) ^ (D - k.length) := by
    ring
  have ey : y * ((2 : ℝ) ^ k.length * (2 : ℝ) ^ (D - k.length)) = (y * (2 : ℝ) ^ k.length) * (2 : ℝ) ^ (D - k.length) := by
    ring
  rw [ex, ey]
  constructor
  · rintro ⟨a, b, c, d⟩
    exact ⟨⟨mul_le_mul_of_nonneg_right a hq.le, mul_lt_mul_of_pos_right b hq⟩,
      ⟨mul_lt_mul_of_pos_right c hq, mul_le_mul_of_nonneg_right d hq.le⟩⟩
  · rintro ⟨⟨a, b⟩, ⟨c, d⟩⟩
    exact ⟨le_of_mul_le_mul_right a hq, lt_of_mul_lt_mul_right b hq.le,
      lt_of_mul_lt_mul_right c hq.le, le_of_mul_le_mul_right d hq⟩

/-- the library's test on real (lon, lat) = (360x − 180, latDeg y) against the Mercator bounds of `k` -/
theorem real_membership (k : Key) (x y : ℝ) :
    (((lonW k : ℚ) : ℝ) ≤ x * 360 - 180 ∧ latDeg ((yS k : ℚ) : ℝ) ≤ latDeg y ∧
      x * 360 - 180 < ((lonE k : ℚ) : ℝ) ∧ latDeg y < latDeg ((yN k : ℚ) : ℝ)) ↔ InTileR k x y := by
  have hs : (0 : ℝ) < (2 : ℝ) ^ k.length := by positivity
  rw [latDeg_strictAnti.le_iff_ge, latDeg_strictAnti.lt_iff_gt]
  unfold InTileR lonW lonE lonOf xW xE yN yS
  push_cast
  rw [scale_cast, div_lt_iff₀ hs, le_div_iff₀ hs]
  constructor
  · rintro ⟨h1, h2, h3, h4⟩
    refine ⟨?_, ?_, h4, h2⟩
    · have : (tileX k : ℝ) / (2 : ℝ) ^ k.length ≤ x := by linarith
      exact (div_le_iff₀ hs).mp this
    · have : x < ((tileX k : ℝ) + 1) / (2 : ℝ) ^ k.length := by linarith
      exact (lt_div_iff₀ hs).mp this
  · rintro ⟨h1, h2, h3, h4⟩
    have a1 : (tileX k : ℝ) / (2 : ℝ) ^ k.length ≤ x := (div_le_iff₀ hs).mpr h1
    have a2 : x < ((tileX k : ℝ) + 1) / (2 : ℝ) ^ k.length := (lt_div_iff₀ hs).mpr h2
    exact ⟨by linarith, h4, by linarith, h3⟩

/-! ### the code-shaped area on ℝ -/

/-- `geographical_area_from_bounds` on ℝ, BOTH branches: 2πR²·(sin lat2 − sin lat1)·(lon2 − lon1)/360.
    The early `return 0` (equal longitudes or equal latitudes) agrees with the formula, so it is no special case. -/
theorem geoArea_real (lon1 lat1 lon2 lat2 : ℝ) :
    geoAreaFromBounds realGeo lon1 lat1 lon2 lat2 =
      2 * π * (6371 : ℝ) ^ 2 * (sin (lat2 * (π / 180)) - sin (lat1 * (π / 180))) * ((lon2 - lon1) / 360) := by
  have hp := pi_pos.ne'
  have hc : ∀ l : ℝ, cos ((90 - l) * (π / 180)) = sin (l * (π / 180)) := by
    intro l
    have : (90 - l) * (π / 180) = π / 2 - l * (π / 180) := by ring
    rw [this, cos_pi_div_two_sub]
  unfold geoAreaFromBounds
  simp only [realGeo, Bool.or_eq_true, decide_eq_true_eq]
  split
  · rename_i h
    rcases h with h | h
    · subst h; simp
    · subst h; simp
  · rename_i h
    rw [not_or] at h
    have hl : lon2 - lon1 ≠ 0 := sub_ne_zero.mpr (Ne.symm h.1)
    push_cast
    rw [hc, hc]
    field_simp
    ring

/-! ### the area of a tile through the code-shaped function -/

theorem latDeg_to_rad (y : ℝ) : latDeg y * (π / 180) = latRad y := by
  have hp := pi_pos.ne'
  unfold latDeg; field_simp

theorem yN_lt_yS (k : Key) : yN k < yS k := by
  have hs := scale_pos k
  unfold yN yS
  exact div_lt_div_of_pos_right (by linarith) hs

/-- sin of the Mercator latitude is strictly decreasing in y (sin is increasing on [−π/2, π/2]) -/
theorem sinLat_strictAnti : StrictAnti (fun y : ℝ => sin (latRad y)) := by
  intro a b hab
  have ha := latRad_range a
  have hb := latRad_range b
  exact strictMonoOn_sin ⟨hb.1.le, hb.2.le⟩ ⟨ha.1.le, ha.2.le⟩ (latRad_strictAnti hab)

/-- `get_cell_area` of a tile, computed by the CODE-SHAPED `geographical_area_from_bounds` on the tile's Mercator bounds
    over ℝ, is the model's `area` with c = 2πR² and s = sin ∘ latitude -/
theorem cellAreaGeo_real (k : Key) :
    cellAreaGeo realGeo (fun q : ℚ => (q : ℝ)) k =
      area (2 * π * (6371 : ℝ) ^ 2) (fun y : ℚ => sin (latRad (y : ℝ))) k := by
  have hs : (0 : ℝ) < (2 : ℝ) ^ k.length := by positivity
  unfold cellAreaGeo boundsRow
  simp only [geoArea_real, mercLat_real, mercLon_real, latDeg_to_rad]
  unfold area xE xW
  push_cast
  rw [scale_cast]
  field_simp
  ring

theorem cellAreaGeo_real_tanh (k : Key) :
    cellAreaGeo realGeo (fun q : ℚ => (q : ℝ)) k =
      area (2 * π * (6371 : ℝ) ^ 2) (fun y : ℚ => tanh (π * (1 - 2 * (y : ℝ)))) k := by
  rw [cellAreaGeo_real]; unfold area; simp only [sin_latRad]

/-- a tile's area is positive: the early `return 0` of geographical_area_from_bounds is never taken for a tile -/
theorem cellAreaGeo_pos (k : Key) : 0 < cellAreaGeo realGeo (fun q : ℚ => (q : ℝ)) k := by
  rw [cellAreaGeo_real]
  unfold area
  have h : sin (latRad ((yS k : ℚ) : ℝ)) < sin (latRad ((yN k : ℚ) : ℝ)) :=
    sinLat_strictAnti (by exact_mod_cast yN_lt_yS k)
  have hp := pi_pos
  have hs : (0 : ℝ) < ((2 ^ k.length : ℕ) : ℝ) := by positivity
  apply div_pos _ hs
  apply mul_pos (by positivity)
  linarith

theorem tile_bounds_distinct (k : Key) :
    mercLon realGeo ((xW k : ℚ) : ℝ) ≠ mercLon realGeo ((xE k : ℚ) : ℝ) ∧
    mercLat realGeo ((yS k : ℚ) : ℝ) ≠ mercLat realGeo ((yN k : ℚ) : ℝ) := by
  have hs := scale_pos k
  constructor
  · rw [mercLon_real, mercLon_real]
    have : xW k < xE k := by unfold xW xE; exact div_lt_div_of_pos_right (by linarith) hs
    have : ((xW k : ℚ) : ℝ) < ((xE k : ℚ) : ℝ) := by exact_mod_cast this
    intro h; linarith
  · rw [mercLat_real, mercLat_real]
    have : ((yN k : ℚ) : ℝ) < ((yS k : ℚ) : ℝ) := by exact_mod_cast yN_lt_yS k
    exact (latDeg_strictAnti this).ne

/-! ### quadkeys as text -/

theorem charDigit_digitChar (d : Digit) : charDigit? (digitChar d) = some d := by
  revert d; decide

theorem parse_show (k : Key) : parseKeyChars? (showKeyChars k) = some k := by
  unfold parseKeyChars? showKeyChars
  induction k with
  | nil => rfl
  | cons d ds ih => simp [List.mapM_cons, charDigit_digitChar, ih]

theorem load_save (cells : List Key) : loadLines? (saveLines cells) = some cells := by
  unfold loadLines? saveLines
  induction cells with
  | nil => rfl
  | cons c cs ih => simp [List.mapM_cons, parse_show, ih]

end Quadtree
