import PycsepVerif.Proofs.Soft64
import PycsepVerif.Proofs.Soft64Bound
/-!
  Error analysis of the three float operations of `scale_to_test_date` after the `decimal_year` calls
  (`(T - S) / (E - S)` in binary64), given decimal years that are within `δ = 10^-12` of their exact values.
  Pure rational arithmetic; used by `Properties/C11_Dates.lean`.
-/
namespace ForecastFile
open Soft64

theorem p2_m53' : pow2 (-53) = 1 / 9007199254740992 := by decide +kernel
theorem p2_m1022_small : pow2 (-1022) ≤ 1 / 1000000000000 := by decide +kernel
theorem p2_m1075_small : pow2 (-1021 - 54) ≤ 1 / 1000000000000000000 := by decide +kernel
theorem p2_m1022_lt : pow2 (-1022) < pow2 (-1021) := by decide +kernel

/-- one rounding: relative error 2^-53 for a normal value, absolute error 2^-1075 below the normal range -/
theorem fl64_err_mixed (x : ℚ) : |fl64 x - x| ≤ |x| / 9007199254740992 + 1 / 1000000000000000000 := by
  by_cases h : pow2 (-1022) ≤ |x|
  · have := fl64_rel_err h
    rw [p2_m53'] at this
    have : (0 : ℚ) ≤ 1 / 1000000000000000000 := by norm_num
    linarith
  · have hlt : |x| < pow2 (-1021) := lt_trans (not_le.mp h) p2_m1022_lt
    have := fl64_err_pow2 x (-1021) hlt (by norm_num)
    have h3 : 0 ≤ |x| / 9007199254740992 := div_nonneg (abs_nonneg x) (by norm_num)
    exact le_trans this (le_trans p2_m1075_small (by linarith))

/-- rounding of a positive normal value stays within the factor 1 ± 2^-53 -/
theorem fl64_pos_bounds (x : ℚ) (hx : 1 / 1000000000000 ≤ x) :
    x - x / 9007199254740992 ≤ fl64 x ∧ fl64 x ≤ x + x / 9007199254740992 := by
  have hpos : 0 < x := by linarith
  have hn : pow2 (-1022) ≤ |x| := by rw [abs_of_pos hpos]; exact le_trans p2_m1022_small hx
  have := fl64_rel_err hn
  rw [p2_m53', abs_of_pos hpos, abs_le] at this
  constructor <;> linarith [this.1, this.2]

/-- **the quotient of two rounded differences.**  `S E T` are the computed decimal years, `S' E' T'` the exact ones, each
    within `10^-12`; the exact elapsed part `N' = T' − S'` is at most three times the exact duration `D' = E' − S'`; `ε` is any
    tolerance with `11·10^-12 ≤ ε·D'`.  Then the binary64 quotient is within `ε + 10^-14` of `N'/D'`. -/
theorem quotient_close (S E T S' E' T' ε : ℚ)
    (hS : |S - S'| ≤ 1 / 1000000000000) (hE : |E - E'| ≤ 1 / 1000000000000) (hT : |T - T'| ≤ 1 / 1000000000000)
    (hD0 : 9 / 1000000000000 ≤ E' - S') (hN0 : 9 / 1000000000000 ≤ T' - S') (hN2 : T' - S' ≤ 3 * (E' - S'))
    (hε0 : 0 ≤ ε) (hε1 : ε ≤ 1) (hεD : 11 / 1000000000000 ≤ ε * (E' - S')) :
    |fdiv (fsub T S) (fsub E S) - (T' - S') / (E' - S')| ≤ ε + 1 / 100000000000000 := by
  rw [abs_le] at hS hE hT
  set D' := E' - S' with hD'
  set N' := T' - S' with hN'
  set p := ε * D' with hp
  have hDpos : 0 < D' := by linarith
  set q' := N' / D' with hq'
  have hq : q' * D' = N' := by rw [hq']; field_simp
  have hq0 : 0 ≤ q' := div_nonneg (by linarith) hDpos.le
  have hq2 : q' ≤ 3 := by rw [hq', div_le_iff₀ hDpos]; linarith
  -- the two rounded differences
  have ha : 1 / 1000000000000 ≤ E - S := by linarith [hS.1, hS.2, hE.1, hE.2]
  have hb : 1 / 1000000000000 ≤ T - S := by linarith [hS.1, hS.2, hT.1, hT.2]
  obtain ⟨dL, dU⟩ := fl64_pos_bounds (E - S) ha
  obtain ⟨nL, nU⟩ := fl64_pos_bounds (T - S) hb
  set dur := fl64 (E - S) with hdur
  set num := fl64 (T - S) with hnum
  have hdurpos : 0 < dur := by linarith
  have hnumpos : 0 < num := by linarith
  -- r = num / dur is within ε + 8u of q'
  set r := num / dur with hr
  have hup : r ≤ q' + ε + 1 / 1000000000000000 := by
    rw [hr, div_le_iff₀ hdurpos]
    have hprod : (q' + ε + 1 / 1000000000000000) * ((D' - 2 / 1000000000000) * (1 - 1 / 9007199254740992)) =
        (N' + p + D' / 1000000000000000 - 2 / 1000000000000 * (q' + ε + 1 / 1000000000000000)) *
          (1 - 1 / 9007199254740992) := by rw [← hq, hp]; ring
    have hdl : (D' - 2 / 1000000000000) * (1 - 1 / 9007199254740992) ≤ dur := by
      nlinarith [hS.1, hS.2, hE.1, hE.2]
    have hnu : num ≤ (N' + 2 / 1000000000000) * (1 + 1 / 9007199254740992) := by
      nlinarith [hS.1, hS.2, hT.1, hT.2]
    have hcoef : 0 ≤ q' + ε + 1 / 1000000000000000 := by linarith
    calc num ≤ (N' + 2 / 1000000000000) * (1 + 1 / 9007199254740992) := hnu
      _ ≤ (q' + ε + 1 / 1000000000000000) * ((D' - 2 / 1000000000000) * (1 - 1 / 9007199254740992)) := by
          rw [hprod]; nlinarith
      _ ≤ (q' + ε + 1 / 1000000000000000) * dur := mul_le_mul_of_nonneg_left hdl hcoef
  have hlo : q' - ε - 1 / 1000000000000000 ≤ r := by
    rw [hr, le_div_iff₀ hdurpos]
    have hprod : (q' - ε - 1 / 1000000000000000) * ((D' + 2 / 1000000000000) * (1 + 1 / 9007199254740992)) =
        (N' - p - D' / 1000000000000000 + 2 / 1000000000000 * (q' - ε - 1 / 1000000000000000)) *
          (1 + 1 / 9007199254740992) := by rw [← hq, hp]; ring
    have hdu : dur ≤ (D' + 2 / 1000000000000) * (1 + 1 / 9007199254740992) := by
      nlinarith [hS.1, hS.2, hE.1, hE.2]
    have hnl : (N' - 2 / 1000000000000) * (1 - 1 / 9007199254740992) ≤ num := by
      nlinarith [hS.1, hS.2, hT.1, hT.2]
    by_cases hc : 0 ≤ q' - ε - 1 / 1000000000000000
    · calc (q' - ε - 1 / 1000000000000000) * dur
          ≤ (q' - ε - 1 / 1000000000000000) * ((D' + 2 / 1000000000000) * (1 + 1 / 9007199254740992)) :=
            mul_le_mul_of_nonneg_left hdu hc
        _ ≤ (N' - 2 / 1000000000000) * (1 - 1 / 9007199254740992) := by rw [hprod]; nlinarith
        _ ≤ num := hnl
    · have : (q' - ε - 1 / 1000000000000000) * dur ≤ 0 :=
        mul_nonpos_of_nonpos_of_nonneg (le_of_lt (not_le.mp hc)) hdurpos.le
      linarith
  -- the last rounding
  have hrpos : 0 ≤ r := div_nonneg hnumpos.le hdurpos.le
  have hlast := fl64_err_mixed r
  rw [abs_of_nonneg hrpos, abs_le] at hlast
  have hr3 : r / 9007199254740992 ≤ 5 / 9007199254740992 := by
    apply div_le_div_of_nonneg_right _ (by norm_num); linarith
  have hr0 : 0 ≤ r / 9007199254740992 := div_nonneg hrpos (by norm_num)
  unfold fdiv fsub
  rw [abs_le]
  constructor <;> linarith [hlast.1, hlast.2]

end ForecastFile
