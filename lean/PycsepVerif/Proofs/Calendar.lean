import PycsepVerif.Proofs.Readers

/-!
Calendar lemmas for C19: the proleptic Gregorian day count is strictly increasing in (year, month, day) on valid
dates, hence injective; a valid UTC clock reading is determined by its epoch second.
-/
namespace Readers

/-- days before month `m` in year `y` -/
def cumDays (y m : Int) : Int :=
  let l : Int := if isLeap y then 1 else 0
  if m = 1 then 0 else if m = 2 then 31 else if m = 3 then 59 + l else if m = 4 then 90 + l
  else if m = 5 then 120 + l else if m = 6 then 151 + l else if m = 7 then 181 + l else if m = 8 then 212 + l
  else if m = 9 then 243 + l else if m = 10 then 273 + l else if m = 11 then 304 + l else 334 + l

theorem daysFromCivil_eq_cum (y m d : Int) (hm1 : 1 ≤ m) (hm2 : m ≤ 12) :
    daysFromCivil y m d = daysFromCivil y 1 1 + cumDays y m + (d - 1) := by
  rcases month_cases hm1 hm2 with rfl | rfl | rfl | rfl | rfl | rfl | rfl | rfl | rfl | rfl | rfl | rfl
  all_goals
    by_cases hl : isLeap y = true
    all_goals
      simp only [cumDays, hl]
      simp only [isLeap, Bool.and_eq_true, Bool.or_eq_true, beq_iff_eq, bne_iff_ne, ne_eq] at hl
      simp [daysFromCivil]
      omega

theorem year_length (y : Int) :
    daysFromCivil (y + 1) 1 1 = daysFromCivil y 1 1 + (if isLeap y then 366 else 365) := by
  by_cases hl : isLeap y = true
  all_goals
    simp only [hl]
    simp only [isLeap, Bool.and_eq_true, Bool.or_eq_true, beq_iff_eq, bne_iff_ne, ne_eq] at hl
    simp [daysFromCivil]
    omega

theorem year_start_mono (y y' : Int) (h : y ≤ y') : daysFromCivil y 1 1 ≤ daysFromCivil y' 1 1 := by
  simp [daysFromCivil]; omega

theorem dayOfYear_bounds (y m d : Int) (h : validDate y m d = true) :
    0 ≤ cumDays y m + (d - 1) ∧ cumDays y m + (d - 1) < (if isLeap y then 366 else 365) := by
  rw [validDate_iff] at h
  obtain ⟨_, _, hm1, hm2, hd1, hd2⟩ := h
  rcases month_cases hm1 hm2 with rfl | rfl | rfl | rfl | rfl | rfl | rfl | rfl | rfl | rfl | rfl | rfl
  all_goals
    by_cases hl : isLeap y = true
    all_goals
      simp only [daysInMonth, hl] at hd2
      simp only [cumDays, hl]
      simp at hd2 ⊢
      omega

theorem cum_mono (y m m' : Int) (hm1 : 1 ≤ m) (hm2 : m ≤ 12) (hm1' : 1 ≤ m') (hm2' : m' ≤ 12) (hlt : m < m') :
    cumDays y m + daysInMonth y m ≤ cumDays y m' := by
  by_cases hl : isLeap y = true
  all_goals
    rcases month_cases hm1 hm2 with rfl | rfl | rfl | rfl | rfl | rfl | rfl | rfl | rfl | rfl | rfl | rfl
    all_goals
      rcases month_cases hm1' hm2' with rfl | rfl | rfl | rfl | rfl | rfl | rfl | rfl | rfl | rfl | rfl | rfl
      all_goals
        first
        | (exfalso; omega)
        | (simp [cumDays, daysInMonth, hl])

/-- lexicographic order on (year, month, day) -/
def dateLt (y m d y' m' d' : Int) : Prop := y < y' ∨ (y = y' ∧ (m < m' ∨ (m = m' ∧ d < d')))

theorem daysFromCivil_lt (y m d y' m' d' : Int) (h : validDate y m d = true) (h' : validDate y' m' d' = true)
    (hlt : dateLt y m d y' m' d') : daysFromCivil y m d < daysFromCivil y' m' d' := by
  have hb := dayOfYear_bounds y m d h
  have hb' := dayOfYear_bounds y' m' d' h'
  rw [validDate_iff] at h h'
  obtain ⟨_, _, hm1, hm2, hd1, hd2⟩ := h
  obtain ⟨_, _, hm1', hm2', hd1', hd2'⟩ := h'
  rw [daysFromCivil_eq_cum y m d hm1 hm2, daysFromCivil_eq_cum y' m' d' hm1' hm2']
  rcases hlt with hy | ⟨rfl, hm | ⟨rfl, hd⟩⟩
  · have h1 := year_length y
    have h2 := year_start_mono (y + 1) y' (by omega)
    omega
  · have := cum_mono y m m' hm1 hm2 hm1' hm2' hm
    omega
  · omega

theorem daysFromCivil_inj (y m d y' m' d' : Int) (h : validDate y m d = true) (h' : validDate y' m' d' = true)
    (he : daysFromCivil y m d = daysFromCivil y' m' d') : y = y' ∧ m = m' ∧ d = d' := by
  by_cases h1 : dateLt y m d y' m' d'
  · have := daysFromCivil_lt _ _ _ _ _ _ h h' h1; omega
  · by_cases h2 : dateLt y' m' d' y m d
    · have := daysFromCivil_lt _ _ _ _ _ _ h' h h2; omega
    · unfold dateLt at h1 h2; omega

theorem epochSec_inj (c c' : Clock) (h : c.valid = true) (h' : c'.valid = true) (he : c.epochSec = c'.epochSec) :
    c = c' := by
  rw [clock_valid_iff] at h h'
  obtain ⟨hd, _, _, _, _, _, _⟩ := h
  obtain ⟨hd', _, _, _, _, _, _⟩ := h'
  simp only [Clock.epochSec] at he
  have hdays : daysFromCivil c.y c.m c.d = daysFromCivil c'.y c'.m c'.d := by omega
  obtain ⟨hy, hm, hdd⟩ := daysFromCivil_inj _ _ _ _ _ _ hd hd' hdays
  cases c; cases c'
  simp only [Clock.mk.injEq] at *
  refine ⟨hy, hm, hdd, ?_, ?_, ?_⟩ <;> omega

end Readers
