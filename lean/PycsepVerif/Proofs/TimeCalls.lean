import PycsepVerif.Model.TimeCalls
import PycsepVerif.Proofs.DecYearMono

/-! lemmas for `Model/TimeCalls.lean` (call sites of the time conversions; C15 round 4) -/
namespace Time
open Soft64

/-! ### splitting on blanks -/

def NoSpace (l : List Char) : Prop := ∀ c ∈ l, c ≠ ' '

theorem splitSpacesAux_noSpace (a : List Char) (ha : NoSpace a) (rest cur : List Char) :
    splitSpacesAux (a ++ rest) cur = splitSpacesAux rest (a.reverse ++ cur) := by
  induction a generalizing cur with
  | nil => simp
  | cons c cs ih =>
    have hc : c ≠ ' ' := ha c (by simp)
    have hcs : NoSpace cs := fun x hx => ha x (by simp [hx])
    simp only [List.cons_append, splitSpacesAux, hc, if_false]
    rw [ih hcs]
    simp

theorem splitSpaces_cons (a : List Char) (ha : NoSpace a) (b : List Char) :
    splitSpaces (a ++ ' ' :: b) = a :: splitSpaces b := by
  unfold splitSpaces
  rw [splitSpacesAux_noSpace a ha]
  simp [splitSpacesAux]

theorem splitSpaces_last (a : List Char) (ha : NoSpace a) : splitSpaces a = [a] := by
  unfold splitSpaces
  have := splitSpacesAux_noSpace a ha [] []
  simp only [List.append_nil] at this
  rw [this]
  simp [splitSpacesAux]

theorem noSpace_append {a b : List Char} (ha : NoSpace a) (hb : NoSpace b) : NoSpace (a ++ b) := by
  intro c hc
  rcases List.mem_append.mp hc with h | h
  · exact ha c h
  · exact hb c h

theorem noSpace_cons {c : Char} {a : List Char} (hc : c ≠ ' ') (ha : NoSpace a) : NoSpace (c :: a) := by
  intro x hx
  rcases List.mem_cons.mp hx with h | h
  · rw [h]; exact hc
  · exact ha x h

theorem noSpace_nil : NoSpace [] := fun _ h => by cases h

theorem digitChar_ne_space (n : Nat) : digitChar n ≠ ' ' := digitChar_ne n ' ' (by decide)

theorem noSpace_d2 (n : Nat) : NoSpace (d2 n) := by
  unfold d2; exact noSpace_cons (digitChar_ne_space _) (noSpace_cons (digitChar_ne_space _) noSpace_nil)

theorem noSpace_d4 (n : Nat) : NoSpace (d4 n) := by
  unfold d4
  exact noSpace_cons (digitChar_ne_space _) (noSpace_cons (digitChar_ne_space _)
    (noSpace_cons (digitChar_ne_space _) (noSpace_cons (digitChar_ne_space _) noSpace_nil)))

theorem noSpace_d6 (n : Nat) : NoSpace (d6 n) := by
  unfold d6
  exact noSpace_cons (digitChar_ne_space _) (noSpace_cons (digitChar_ne_space _)
    (noSpace_cons (digitChar_ne_space _) (noSpace_cons (digitChar_ne_space _)
    (noSpace_cons (digitChar_ne_space _) (noSpace_cons (digitChar_ne_space _) noSpace_nil)))))

/-- the date part of `str(datetime)` -/
def datePart (f : Fields) : List Char := d4 f.year.toNat ++ ('-' :: (d2 f.month.toNat ++ ('-' :: d2 f.day.toNat)))

/-- the time part (with the optional `+00:00`) -/
def timePart (f : Fields) (zone : Bool) : List Char :=
  d2 f.hour.toNat ++ (':' :: (d2 f.minute.toNat ++ (':' :: (d2 f.second.toNat ++
    (if f.micro = 0 then [] else '.' :: d6 f.micro.toNat))))) ++ zoneSuffix zone

theorem str_eq_parts (f : Fields) (zone : Bool) :
    formatFields ' ' f ++ zoneSuffix zone = datePart f ++ ' ' :: timePart f zone := by
  simp [formatFields, datePart, timePart, List.append_assoc]

theorem noSpace_datePart (f : Fields) : NoSpace (datePart f) := by
  unfold datePart
  exact noSpace_append (noSpace_d4 _) (noSpace_cons (by decide) (noSpace_append (noSpace_d2 _)
    (noSpace_cons (by decide) (noSpace_d2 _))))

theorem noSpace_zoneSuffix (zone : Bool) : NoSpace (zoneSuffix zone) := by
  cases zone
  · exact noSpace_nil
  · unfold NoSpace zoneSuffix; decide

theorem noSpace_timePart (f : Fields) (zone : Bool) : NoSpace (timePart f zone) := by
  unfold timePart
  apply noSpace_append _ (noSpace_zoneSuffix zone)
  apply noSpace_append (noSpace_d2 _)
  apply noSpace_cons (by decide)
  apply noSpace_append (noSpace_d2 _)
  apply noSpace_cons (by decide)
  apply noSpace_append (noSpace_d2 _)
  split
  · exact noSpace_nil
  · exact noSpace_cons (by decide) (noSpace_d6 _)

theorem noSpace_kw : NoSpace kwDatetime := by
  unfold NoSpace kwDatetime; decide

/-- the statement `datetime <op> <str(dt)>` splits into exactly the four pieces the code unpacks -/
theorem splitSpaces_statement (op : List Char) (hop : NoSpace op) (f : Fields) (zone : Bool) :
    splitSpaces (kwDatetime ++ ' ' :: (op ++ ' ' :: (formatFields ' ' f ++ zoneSuffix zone)))
      = [kwDatetime, op, datePart f, timePart f zone] := by
  rw [splitSpaces_cons _ noSpace_kw, splitSpaces_cons _ hop, str_eq_parts,
    splitSpaces_cons _ (noSpace_datePart f), splitSpaces_last _ (noSpace_timePart f zone)]

/-! ### the general-separator format -/

theorem strptimeFieldsG_formatFieldsG (fmt : FormatG) (f : Fields) (hv : validFields f = true)
    (hmicro : fmt.fsep = none → f.micro = 0) :
    strptimeFieldsG fmt (formatFieldsG fmt f) = some f := by
  have hv' := hv
  simp only [validFields, Bool.and_eq_true, decide_eq_true_eq] at hv'
  obtain ⟨⟨⟨⟨⟨⟨⟨⟨⟨⟨hy1, hy2⟩, hd⟩, hh0⟩, hh1⟩, hm0⟩, hm1⟩, hs0⟩, hs1⟩, hu0⟩, hu1⟩ := hv'
  obtain ⟨hmo1, hmo2, hd1, hd2⟩ := validDate_day_le hd
  obtain ⟨y, mo, d, h, mi, s, us⟩ := f
  simp only at *
  obtain ⟨yn, rfl⟩ := Int.eq_ofNat_of_zero_le (by omega : 0 ≤ y)
  obtain ⟨mon, rfl⟩ := Int.eq_ofNat_of_zero_le (by omega : 0 ≤ mo)
  obtain ⟨dn, rfl⟩ := Int.eq_ofNat_of_zero_le (by omega : 0 ≤ d)
  obtain ⟨hn, rfl⟩ := Int.eq_ofNat_of_zero_le hh0
  obtain ⟨min, rfl⟩ := Int.eq_ofNat_of_zero_le hm0
  obtain ⟨sn, rfl⟩ := Int.eq_ofNat_of_zero_le hs0
  obtain ⟨usn, rfl⟩ := Int.eq_ofNat_of_zero_le hu0
  simp only [formatFieldsG, Int.toNat_natCast, List.append_assoc, List.cons_append]
  unfold strptimeFieldsG
  simp only [bind, Option.bind]
  rw [take4_d4 yn (by omega)]; simp only [expect_cons]
  rw [take2_d2 mon (by omega)]; simp only [expect_cons]
  rw [take2_d2 dn (by omega)]; simp only [expect_cons]
  rw [take2_d2 hn (by omega)]; simp only [expect_cons]
  rw [take2_d2 min (by omega)]; simp only [expect_cons]
  rw [take2_d2 sn (by omega)]
  simp only
  cases hfs : fmt.fsep with
  | none =>
    have h0 := hmicro hfs
    have : usn = 0 := by omega
    subst this
    simp; simpa using hv
  | some c =>
    simp only [expect_cons]
    have hd6 : d6 usn = digitChar (usn / 100000) :: [digitChar (usn / 10000), digitChar (usn / 1000),
        digitChar (usn / 100), digitChar (usn / 10), digitChar usn] := rfl
    have hsome : (digit? (digitChar (usn / 100000))).isSome = true := by rw [digit?_digitChar]; rfl
    have hfr := takeFrac_d6 usn (by omega) []
    rw [hd6] at hfr ⊢
    simp only [List.cons_append, List.append_nil, List.nil_append, hsome, if_true] at hfr ⊢
    rw [hfr]
    simp [hv]

/-! ### `scale_to_test_date` -/

theorem p2_m10 : pow2 (-10) = 1 / 1024 := by decide +kernel
theorem p2_m36 : pow2 (-36) = 1 / 68719476736 := by decide +kernel
theorem fl64_p2_m10 : fl64 (1 / 1024) = 1 / 1024 := by decide +kernel
theorem fl64_16384 : fl64 16384 = 16384 := by decide +kernel
theorem fl64_p2_m50 : fl64 (1 / 1125899906842624) = 1 / 1125899906842624 := by decide +kernel
theorem fl64_p2_m36 : fl64 (1 / 68719476736) = 1 / 68719476736 := by decide +kernel

/-- two instants of the full range at least one millisecond apart: the float difference of their decimal years is at
    least 2^-36 years (> 0) -/
theorem decyear_diff_pos (a b : Int) (ha0 : -62135596800000000 ≤ a) (ha1 : a < 253402300800000000)
    (hb0 : -62135596800000000 ≤ b) (hb1 : b < 253402300800000000) (hab : a + 1000 ≤ b) :
    1 / 68719476736 ≤ fsub (decimalYear b) (decimalYear a) := by
  have ea := decimalYear_err_full a ha0 ha1
  have eb := decimalYear_err_full b hb0 hb1
  rw [abs_le] at ea eb
  have h := decimalYearExact_lower a b (by omega)
  have hgap : (1000 : ℚ) / 31622400000000 ≤ ((b - a : Int) : ℚ) / 31622400000000 := by
    apply div_le_div_of_nonneg_right _ (by norm_num)
    exact_mod_cast (by omega : (1000 : Int) ≤ b - a)
  have hx : (1 / 68719476736 : ℚ) ≤ decimalYear b - decimalYear a := by
    have : (1 / 68719476736 : ℚ) ≤ 1000 / 31622400000000 - 2 / 1000000000000 := by norm_num
    linarith [ea.1, ea.2, eb.1, eb.2]
  have := fl64_mono hx
  rw [fl64_p2_m36] at this
  exact this

end Time
