import PycsepVerif.Proofs.Bin1dTablesRegions
/-! kernel-evaluated table (property C02): every edge 0..130 of italy_csep_collection_region().ys lands in the bin it opens -/
namespace Bin1d.Tables
theorem tabE_itcy_0 : edgesOwnBin (cfg64 false) itcyRaw 0 131 = true := by decide +kernel
end Bin1d.Tables
