import PycsepVerif.Proofs.Quadtree
import PycsepVerif.Model.QuadtreeGeo
import Mathlib.Tactic.Linarith
import Mathlib.Tactic.Positivity
import Mathlib.Tactic.FieldSimp

/-! Bounding box of a grid that covers the domain (C17 round 3): helper lemmas for `Quadtree.getBbox`. -/
namespace Quadtree

theorem tileX_lt (k : Key) : tileX k < 2 ^ k.length := by
  induction k using List.reverseRecOn with
  | nil => simp [tileX]
  | append_singleton l d ih =>
    have hc : l ++ [d] = child l d := rfl
    rw [hc, tileX_child, length_child, pow_succ]
    have := xbit_lt d; omega

theorem tileY_lt (k : Key) : tileY k < 2 ^ k.length := by
  induction k using List.reverseRecOn with
  | nil => simp [tileY]
  | append_singleton l d ih =>
    have hc : l ++ [d] = child l d := rfl
    rw [hc, tileY_child, length_child, pow_succ]
    have := ybit_lt d; omega

theorem scale_eq (k : Key) : scale k = (2 : ℚ) ^ k.length := by unfold scale; push_cast; rfl

theorem edges_in_unit (k : Key) : 0 ≤ xW k ∧ xE k ≤ 1 ∧ 0 ≤ yN k ∧ yS k ≤ 1 := by
  have hs := scale_pos k
  have hx : ((tileX k : ℚ) + 1) ≤ scale k := by
    rw [scale_eq]; exact_mod_cast tileX_lt k
  have hy : ((tileY k : ℚ) + 1) ≤ scale k := by
    rw [scale_eq]; exact_mod_cast tileY_lt k
  refine ⟨?_, ?_, ?_, ?_⟩
  · unfold xW; positivity
  · unfold xE; exact (div_le_one hs).mpr hx
  · unfold yN; positivity
  · unfold yS; exact (div_le_one hs).mpr hy

theorem foldl_min_eq (f : Key → ℚ) (lo : ℚ) : ∀ (cs : List Key) (acc : ℚ), lo ≤ acc → (∀ k ∈ cs, lo ≤ f k) →
    (acc = lo ∨ ∃ k ∈ cs, f k = lo) → cs.foldl (fun m k => if f k < m then f k else m) acc = lo
  | [], acc, _, _, h => by
    rcases h with h | ⟨k, hk, _⟩
    · simpa using h
    · cases hk
  | c :: cs, acc, ha, hall, h => by
    simp only [List.foldl_cons]
    have hc := hall c List.mem_cons_self
    apply foldl_min_eq f lo cs
    · split <;> assumption
    · intro k hk; exact hall k (List.mem_cons_of_mem _ hk)
    · rcases h with h | ⟨k, hk, hk2⟩
      · left; subst h
        rw [if_neg (not_lt.mpr hc)]
      · rcases List.mem_cons.mp hk with rfl | hk'
        · left
          by_cases hlt : f k < acc
          · rw [if_pos hlt]; exact hk2
          · rw [if_neg hlt]; linarith [not_lt.mp hlt]
        · right; exact ⟨k, hk', hk2⟩

theorem foldl_max_eq (f : Key → ℚ) (hi : ℚ) : ∀ (cs : List Key) (acc : ℚ), acc ≤ hi → (∀ k ∈ cs, f k ≤ hi) →
    (acc = hi ∨ ∃ k ∈ cs, f k = hi) → cs.foldl (fun m k => if m < f k then f k else m) acc = hi
  | [], acc, _, _, h => by
    rcases h with h | ⟨k, hk, _⟩
    · simpa using h
    · cases hk
  | c :: cs, acc, ha, hall, h => by
    simp only [List.foldl_cons]
    have hc := hall c List.mem_cons_self
    apply foldl_max_eq f hi cs
    · split <;> assumption
    · intro k hk; exact hall k (List.mem_cons_of_mem _ hk)
    · rcases h with h | ⟨k, hk, hk2⟩
      · left; subst h
        rw [if_neg (not_lt.mpr hc)]
      · rcases List.mem_cons.mp hk with rfl | hk'
        · left
          by_cases hlt : acc < f k
          · rw [if_pos hlt]; exact hk2
          · rw [if_neg hlt]; linarith [not_lt.mp hlt]
        · right; exact ⟨k, hk', hk2⟩

/-- an upper bound of all key lengths -/
def maxLen (cells : List Key) : Nat := cells.foldr (fun k m => max k.length m) 0

theorem le_maxLen {cells : List Key} {k : Key} (h : k ∈ cells) : k.length ≤ maxLen cells := by
  induction cells with
  | nil => cases h
  | cons c cs ih =>
    unfold maxLen; simp only [List.foldr_cons]
    rcases List.mem_cons.mp h with rfl | h'
    · exact le_max_left _ _
    · exact le_trans (ih h') (le_max_right _ _)

/-- the cell containing the south-west corner of the domain touches the west and the south limit -/
theorem sw_cell {k : Key} (h : InTile k ⟨0, 1⟩) : xW k = 0 ∧ yS k = 1 := by
  have hs := scale_pos k
  have hy : ((tileY k : ℚ) + 1) ≤ scale k := by rw [scale_eq]; exact_mod_cast tileY_lt k
  unfold InTile at h
  obtain ⟨h1, _, _, h4⟩ := h
  simp only [zero_mul, one_mul] at h1 h4
  have hx0 : (tileX k : ℚ) = 0 := le_antisymm h1 (by positivity)
  refine ⟨by unfold xW; rw [hx0]; simp, ?_⟩
  unfold yS
  rw [le_antisymm hy h4]; exact div_self hs.ne'

/-- the cell containing a point close enough to the north-east corner touches the east and the north limit -/
theorem ne_cell {k : Key} (M : Nat) (hk : k.length ≤ M)
    (h : InTile k ⟨1 - 1 / (2 : ℚ) ^ (M + 1), 1 / (2 : ℚ) ^ (M + 1)⟩) : xE k = 1 ∧ yN k = 0 := by
  have hs := scale_pos k
  have hX := tileX_lt k
  have hpow : (2 : ℚ) ^ k.length < (2 : ℚ) ^ (M + 1) := pow_lt_pow_right₀ (by norm_num) (by omega)
  have hM : (0 : ℚ) < (2 : ℚ) ^ (M + 1) := by positivity
  have he : scale k * (1 / (2 : ℚ) ^ (M + 1)) < 1 := by
    rw [scale_eq, mul_one_div]; exact (div_lt_one hM).mpr hpow
  unfold InTile at h
  obtain ⟨_, h2, h3, _⟩ := h
  simp only at h2 h3
  -- east: scale − 1 < X + 1 ≤ scale
  have hx1 : scale k - 1 < (tileX k : ℚ) + 1 := by nlinarith
  have hx2 : ((tileX k + 1 : ℕ) : ℚ) = scale k := by
    rw [scale_eq] at hx1 ⊢
    have a : (2 ^ k.length : ℕ) < tileX k + 1 + 1 := by
      have : ((2 ^ k.length : ℕ) : ℚ) < ((tileX k + 1 + 1 : ℕ) : ℚ) := by push_cast; linarith
      exact_mod_cast this
    have b : tileX k + 1 = 2 ^ k.length := by omega
    rw [b]; push_cast; rfl
  -- north: Y < scale·e < 1
  have hy0 : (tileY k : ℚ) < 1 := by nlinarith
  have hy : tileY k = 0 := by
    have : tileY k < 1 := by exact_mod_cast hy0
    omega
  refine ⟨?_, by unfold yN; rw [hy]; simp⟩
  unfold xE
  have : (tileX k : ℚ) + 1 = scale k := by rw [← hx2]; push_cast; rfl
  rw [this]; exact div_self hs.ne'

/-- get_bbox of ANY grid whose cells cover the domain is the whole domain: unit square (0, 1, 1, 0), i.e.
    lon −180 … 180 and lat latOf 1 … latOf 0 -/
theorem getBbox_of_cover (cells : List Key) (hcov : ∀ p, InTile [] p → ∃ k ∈ cells, InTile k p) :
    getBbox cells = some (0, 1, 1, 0) := by
  have hsw : InTile [] ⟨0, 1⟩ := by rw [inTile_nil_iff]; norm_num
  obtain ⟨k0, hk0, hin0⟩ := hcov _ hsw
  set M := maxLen cells with hMdef
  have hM : (0 : ℚ) < (2 : ℚ) ^ (M + 1) := by positivity
  have hM1 : (1 : ℚ) / (2 : ℚ) ^ (M + 1) < 1 := by
    rw [div_lt_one hM]; exact one_lt_pow₀ (by norm_num) (by omega)
  have hne : InTile [] ⟨1 - 1 / (2 : ℚ) ^ (M + 1), 1 / (2 : ℚ) ^ (M + 1)⟩ := by
    rw [inTile_nil_iff]
    have : (0 : ℚ) < 1 / (2 : ℚ) ^ (M + 1) := by positivity
    refine ⟨⟨by linarith, by linarith⟩, this, by linarith⟩
  obtain ⟨k1, hk1, hin1⟩ := hcov _ hne
  have h0 := sw_cell hin0
  have h1 := ne_cell M (le_maxLen hk1) hin1
  match cells, hk0, hk1 with
  | c :: cs, hk0, hk1 =>
    have hb := fun k (_ : k ∈ c :: cs) => edges_in_unit k
    have pick : ∀ (f : Key → ℚ) (v : ℚ) (k : Key), k ∈ c :: cs → f k = v → (f c = v ∨ ∃ k ∈ cs, f k = v) := by
      intro f v k hk hf
      rcases List.mem_cons.mp hk with rfl | hk'
      · exact Or.inl hf
      · exact Or.inr ⟨k, hk', hf⟩
    unfold getBbox
    simp only [Option.some.injEq, Prod.mk.injEq]
    refine ⟨?_, ?_, ?_, ?_⟩
    · exact foldl_min_eq xW 0 cs _ (hb c List.mem_cons_self).1 (fun k hk => (hb k (List.mem_cons_of_mem _ hk)).1)
        (pick xW 0 k0 hk0 h0.1)
    · exact foldl_max_eq xE 1 cs _ (hb c List.mem_cons_self).2.1 (fun k hk => (hb k (List.mem_cons_of_mem _ hk)).2.1)
        (pick xE 1 k1 hk1 h1.1)
    · exact foldl_max_eq yS 1 cs _ (hb c List.mem_cons_self).2.2.2 (fun k hk => (hb k (List.mem_cons_of_mem _ hk)).2.2.2)
        (pick yS 1 k0 hk0 h0.2)
    · exact foldl_min_eq yN 0 cs _ (hb c List.mem_cons_self).2.2.1 (fun k hk => (hb k (List.mem_cons_of_mem _ hk)).2.2.1)
        (pick yN 0 k1 hk1 h1.2)

end Quadtree
