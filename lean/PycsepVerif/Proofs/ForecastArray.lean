import PycsepVerif.Model.ForecastArray
import PycsepVerif.Proofs.ForecastFile
/-! Helper lemmas for `Properties/C11_Array.lean`: element-wise products of flat arrays, numpy broadcasting as modelled by
    `Factor.expand`, the factor after a history. -/
namespace ForecastFile
theorem mulLists_length (a b : List Rat) (h : a.length = b.length) : (mulLists a b).length = a.length := by
  induction a generalizing b with
  | nil => cases b <;> simp_all [mulLists]
  | cons x a ih =>
    cases b with
    | nil => simp at h
    | cons y b => simp [mulLists, ih b (by simpa using h)]

theorem mulLists_getElem? (a b : List Rat) (p : Nat) (x y : Rat) (ha : a[p]? = some x) (hb : b[p]? = some y) :
    (mulLists a b)[p]? = some (x * y) := by
  induction a generalizing b p with
  | nil => simp at ha
  | cons u a ih =>
    cases b with
    | nil => simp at hb
    | cons v b =>
      cases p with
      | zero => simp only [List.getElem?_cons_zero, Option.some.injEq] at ha hb; simp [mulLists, ha, hb]
      | succ p => simp only [List.getElem?_cons_succ] at ha hb; simpa [mulLists] using ih b p ha hb

theorem mulLists_replicate (l : List Rat) (v : Rat) : mulLists l (List.replicate l.length v) = l.map (· * v) := by
  induction l with
  | nil => rfl
  | cons a l ih => simp [List.replicate_succ, mulLists, ih]

theorem stretchRow_length (M : Nat) (r e : List Rat) (h : stretchRow M r = some e) : e.length = M := by
  unfold stretchRow at h
  split at h
  · rename_i hl; cases h; exact hl
  · split at h
    · cases h; simp
    · cases h

theorem stretchAll_spec (M : Nat) (rows rs : List (List Rat)) (h : stretchAll M rows = some rs) :
    rs.length = rows.length ∧ ∀ r ∈ rs, r.length = M := by
  induction rows generalizing rs with
  | nil => simp [stretchAll] at h; subst h; simp
  | cons r rows ih =>
    unfold stretchAll at h
    cases h1 : stretchRow M r with
    | none => simp [h1] at h
    | some a =>
      cases h2 : stretchAll M rows with
      | none => simp [h1, h2] at h
      | some b =>
        simp only [h1, h2, Option.some.injEq] at h
        subst h
        obtain ⟨i1, i2⟩ := ih b h2
        refine ⟨by simp [i1], ?_⟩
        intro q hq
        rcases List.mem_cons.mp hq with rfl | hq
        · exact stretchRow_length M r _ h1
        · exact i2 q hq

theorem flatten_length_const (M : Nat) (rs : List (List Rat)) (h : ∀ r ∈ rs, r.length = M) :
    rs.flatten.length = rs.length * M := by
  induction rs with
  | nil => simp
  | cons r rs ih =>
    have h1 : r.length = M := h r List.mem_cons_self
    have h2 := ih (fun q hq => h q (List.mem_cons_of_mem _ hq))
    simp only [List.flatten_cons, List.length_append, List.length_cons, h1, h2, Nat.succ_mul]
    omega

/-- entry (i, k) of a flattened list of rows of equal length -/
theorem flatten_getElem?_const (M : Nat) (rs : List (List Rat)) (h : ∀ r ∈ rs, r.length = M) (i k : Nat) (r : List Rat)
    (hi : rs[i]? = some r) (hk : k < M) : rs.flatten[i * M + k]? = r[k]? := by
  induction rs generalizing i with
  | nil => simp at hi
  | cons q rs ih =>
    have hq : q.length = M := h q List.mem_cons_self
    cases i with
    | zero =>
      simp only [List.getElem?_cons_zero, Option.some.injEq] at hi
      subst hi
      simp only [Nat.zero_mul, Nat.zero_add, List.flatten_cons]
      rw [List.getElem?_append_left (by omega)]
    | succ i =>
      simp only [List.getElem?_cons_succ] at hi
      simp only [List.flatten_cons]
      rw [List.getElem?_append_right (by rw [hq, Nat.succ_mul]; omega)]
      have : (i + 1) * M + k - q.length = i * M + k := by rw [hq, Nat.succ_mul]; omega
      rw [this]
      exact ih (fun q' hq' => h q' (List.mem_cons_of_mem _ hq')) i hi

theorem runFactor_eq_lastSet (cur : Factor) (ops : List AOp) : runFactor cur ops = lastSet cur ops := by
  induction ops generalizing cur with
  | nil => rfl
  | cons o ops ih =>
    simp only [runFactor, List.foldl_cons, lastSet] at ih ⊢
    rw [ih]
    cases o with
    | scale w => rfl
    | toTestDate q => cases q <;> rfl

theorem lastSet_append (cur : Factor) (pre : List AOp) (o : AOp) :
    lastSet cur (pre ++ [o]) = (o.sets?).getD (lastSet cur pre) := by
  induction pre generalizing cur with
  | nil => rfl
  | cons p pre ih => simp only [List.cons_append, lastSet, ih]

theorem marginalsOf_sum (M N : Nat) (l : List Rat) (h : l.length = N * M) :
    (spatialOf M N l).sum = l.sum ∧ (magnitudeOf M N l).sum = l.sum := by
  have h1 : (spatialOf M N l).sum = l.sum := chunks_sum M N l h
  refine ⟨h1, ?_⟩
  unfold magnitudeOf
  rw [(foldr_addRows M (chunks M N l) (chunks_length M N l h)).2]
  exact h1

theorem addRows_mulLists (a b w : List Rat) (ha : a.length = w.length) (hb : b.length = w.length) :
    addRows (mulLists a w) (mulLists b w) = mulLists (addRows a b) w := by
  induction w generalizing a b with
  | nil =>
    have : a = [] := List.eq_nil_of_length_eq_zero (by simpa using ha)
    have : b = [] := List.eq_nil_of_length_eq_zero (by simpa using hb)
    subst_vars; rfl
  | cons x w ih =>
    cases a with
    | nil => simp at ha
    | cons u a =>
      cases b with
      | nil => simp at hb
      | cons v b =>
        simp only [mulLists, addRows, ih a b (by simpa using ha) (by simpa using hb)]
        congr 1; ring

theorem mulLists_zero (w : List Rat) : mulLists (List.replicate w.length 0) w = List.replicate w.length 0 := by
  induction w with
  | nil => rfl
  | cons x w ih => simp [List.replicate_succ, mulLists, ih]

theorem mulLists_append (a b u v : List Rat) (h : a.length = u.length) :
    mulLists (a ++ b) (u ++ v) = mulLists a u ++ mulLists b v := by
  induction a generalizing u with
  | nil =>
    have : u = [] := List.eq_nil_of_length_eq_zero (by simpa using h.symm)
    subst this; rfl
  | cons x a ih =>
    cases u with
    | nil => simp at h
    | cons y u => simp [mulLists, ih u (by simpa using h)]

theorem stretchRow_single (M : Nat) (x : Rat) : stretchRow M [x] = some (List.replicate M x) := by
  unfold stretchRow
  by_cases h : [x].length = M
  · simp only [h, if_true]
    have : M = 1 := by simpa using h.symm
    subst this; rfl
  · simp only [h, if_false]

theorem stretchAll_cols (M : Nat) (ws : List Rat) :
    stretchAll M (ws.map (fun x => [x])) = some (ws.map (fun x => List.replicate M x)) := by
  induction ws with
  | nil => rfl
  | cons x ws ih => simp [stretchAll, stretchRow_single, ih]

theorem sum_mulLists_replicate (l : List Rat) (x : Rat) : (mulLists l (List.replicate l.length x)).sum = l.sum * x := by
  rw [mulLists_replicate, sum_map_mul_right]

end ForecastFile
