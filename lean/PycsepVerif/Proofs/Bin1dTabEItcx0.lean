import PycsepVerif.Proofs.Bin1dTablesRegions
/-! kernel-evaluated table (property C02): every edge 0..151 of italy_csep_collection_region().xs lands in the bin it opens -/
namespace Bin1d.Tables
theorem tabE_itcx_0 : edgesOwnBin (cfg64 false) itcxRaw 0 152 = true := by decide +kernel
end Bin1d.Tables
