import PycsepVerif.Model.Persist
import PycsepVerif.Proofs.Time
import PycsepVerif.Proofs.TimeStr
import Mathlib.Tactic.Ring

/-! helper lemmas for C14 (catalog persistence) -/
namespace Persist
open Time

/-! ### `int(str(i)) = i` -/

def stepDigit (acc : Nat) (c : Char) : Option Nat := (digit? c).map (fun v => acc * 10 + v)

theorem parseNat?_eq (cs : List Char) (h : cs ≠ []) : parseNat? cs = cs.foldlM stepDigit 0 := by
  cases cs with
  | nil => exact absurd rfl h
  | cons a t => rfl

theorem natDigits_fold : ∀ (fuel n : Nat), n < 10 ^ fuel →
    ∃ k, ∀ acc, (natDigits fuel n).foldlM stepDigit acc = some (acc * 10 ^ k + n)
  | 0, n, h => by
    have : n = 0 := by simpa using h
    subst this
    exact ⟨0, fun acc => by simp [natDigits]⟩
  | fuel + 1, n, h => by
    by_cases hn : n < 10
    · refine ⟨1, fun acc => ?_⟩
      simp only [natDigits, hn, if_true, List.foldlM_cons, List.foldlM_nil, stepDigit, digit?_digitChar]
      have : n % 10 = n := Nat.mod_eq_of_lt hn
      simp [this]
    · have h10 : n / 10 < 10 ^ fuel := by
        rw [Nat.pow_succ] at h; omega
      obtain ⟨k, hk⟩ := natDigits_fold fuel (n / 10) h10
      refine ⟨k + 1, fun acc => ?_⟩
      simp only [natDigits, hn, if_false, List.foldlM_append, hk, List.foldlM_cons, List.foldlM_nil, stepDigit,
        digit?_digitChar]
      simp only [Option.bind_eq_bind, Option.bind_some, Option.map_some, Option.pure_def, Option.bind_some]
      congr 1
      have := Nat.div_add_mod n 10
      calc (acc * 10 ^ k + n / 10) * 10 + n % 10 = acc * 10 ^ (k + 1) + (10 * (n / 10) + n % 10) := by ring
        _ = acc * 10 ^ (k + 1) + n := by rw [this]

theorem natDigits_ne_nil (fuel n : Nat) : natDigits (fuel + 1) n ≠ [] := by
  simp only [natDigits]; split <;> simp

theorem natDigits_digits : ∀ (fuel n : Nat), ∀ c ∈ natDigits fuel n, (digit? c).isSome = true
  | 0, _, c, h => by simp [natDigits] at h
  | fuel + 1, n, c, h => by
    simp only [natDigits] at h
    split at h
    · simp only [List.mem_singleton] at h; subst h; rw [digit?_digitChar]; rfl
    · rw [List.mem_append] at h
      rcases h with h | h
      · exact natDigits_digits fuel _ c h
      · simp only [List.mem_singleton] at h; subst h; rw [digit?_digitChar]; rfl

theorem parseNat?_natDigits (n : Nat) : parseNat? (natDigits (n + 1) n) = some n := by
  rw [parseNat?_eq _ (natDigits_ne_nil n n)]
  have hlt : n < 10 ^ (n + 1) := by
    calc n < 2 ^ n := Nat.lt_two_pow_self
      _ ≤ 10 ^ n := Nat.pow_le_pow_left (by decide) n
      _ ≤ 10 ^ (n + 1) := Nat.pow_le_pow_right (by decide) (Nat.le_succ n)
  obtain ⟨k, hk⟩ := natDigits_fold (n + 1) n hlt
  rw [hk 0]; simp

/-- `int(str(i)) = i` -/
theorem parseInt?_intStr (i : Int) : parseInt? (intStr i) = some i := by
  unfold intStr
  split
  · rename_i h
    simp only [parseInt?, parseNat?_natDigits]
    have : -(i.natAbs : Int) = i := by omega
    exact congrArg some this
  · rename_i h
    have hne := natDigits_ne_nil i.natAbs i.natAbs
    cases hcs : natDigits (i.natAbs + 1) i.natAbs with
    | nil => exact absurd hcs hne
    | cons a t =>
      have ha : (digit? a).isSome = true := natDigits_digits _ _ a (by rw [hcs]; exact List.mem_cons_self)
      have hnm : a ≠ '-' := by
        intro h'; subst h'; revert ha; decide
      have : parseInt? (a :: t) = (parseNat? (a :: t)).map (fun n => (n : Int)) := by
        unfold parseInt?
        split
        · rename_i heq; cases heq; exact absurd rfl hnm
        · rfl
      rw [this, ← hcs, parseNat?_natDigits]
      have : (i.natAbs : Int) = i := by omega
      exact congrArg some this

theorem catId_roundtrip (cid : Option Int) : (parseInt? (catIdText cid)).getD (-1) = cid.getD (-1) := by
  cases cid with
  | none => rfl
  | some i => simp [catIdText, parseInt?_intStr]

/-! ### the time-string cell -/

theorem timeString_eq (ms : Int) (h : |ms| < 8589934592000) : timeString ms = isoformat 'T' (1000 * ms) := by
  unfold timeString toDatetime
  rw [fromTimestamp_of_close (msToSecF ms) (1000 * ms)]
  have := msToSecF_err ms h
  have e : ((1000 * ms : Int) : ℚ) / 1000000 = (ms : ℚ) / 1000 := by push_cast; ring
  rwa [e]

theorem readerParse_timeString (ms : Int) (h : |ms| < 8589934592000) : readerParse (timeString ms) = some ms := by
  rw [timeString_eq ms h]
  rw [abs_lt] at h
  rw [readerParse_isoformat (1000 * ms) (by omega) (by omega)]
  simp only [dtToMs, usPerDay]; congr 1; omega

theorem formatFields_contains_dot (sep : Char) (hsep : sep ≠ '.') (f : Fields) :
    (formatFields sep f).contains '.' = decide (f.micro ≠ 0) := by
  have hdot : digit? '.' = none := by decide
  have h1 : ∀ n, ¬ '.' = digitChar n := fun n h => digitChar_ne n '.' hdot h.symm
  have h2 : ¬ '.' = sep := fun h => hsep h.symm
  by_cases hus : f.micro = 0
  · simp [formatFields, d4, d2, hus, h1, h2]
  · simp [formatFields, d4, d2, d6, hus, h1, h2]

/-! ### rows and files -/

/-- the events a catalog can hold and the format can carry: time in range, non-empty id that fits S256 -/
def EventOk (e : Event) : Prop := |e.ms| < 8589934592000 ∧ e.id ≠ [] ∧ e.id.length ≤ 256

/-- the float text codec round-trips on `x` -/
def CodecOk {F} (c : FloatCodec F) (x : Rat) : Prop := c.dec (c.enc x) = some x

def EventCodecOk {F} (c : FloatCodec F) (e : Event) : Prop :=
  CodecOk c e.lat ∧ CodecOk c e.lon ∧ CodecOk c e.depth ∧ CodecOk c e.mag

theorem storeId_of_le {s : List Char} (h : s.length ≤ 256) : storeId s = s := List.take_of_length_le h

theorem parseRow_rowOf {F} (c : FloatCodec F) (i : Nat) (cid : Option Int) (e : Event) (he : EventOk e)
    (hc : EventCodecOk c e) : parseRow c i (rowOf c cid e) = .ok (e, cid.getD (-1)) := by
  obtain ⟨hms, hid, hlen⟩ := he
  obtain ⟨h1, h2, h3, h4⟩ := hc
  unfold CodecOk at h1 h2 h3 h4
  have hne : e.id.isEmpty = false := by
    cases h : e.id with
    | nil => exact absurd h hid
    | cons a t => rfl
  simp only [parseRow, rowOf, h1, h2, h3, h4, readerParse_timeString e.ms hms, catId_roundtrip, hne,
    Bool.false_eq_true, if_false, storeId_of_le hlen]

theorem readLines_rows {F} (c : FloatCodec F) (cid : Option Int) :
    ∀ (evs : List Event) (first : Bool) (i : Nat), (∀ e ∈ evs, EventOk e ∧ EventCodecOk c e) →
      readLines c first i (evs.map (fun e => Line.row (rowOf c cid e)))
        = .ok (evs, if evs = [] then none else some (cid.getD (-1)))
  | [], _, _, _ => by simp [readLines]
  | e :: rest, first, i, h => by
    have he := h e List.mem_cons_self
    have hr := readLines_rows c cid rest false (i + 1) (fun x hx => h x (List.mem_cons_of_mem _ hx))
    simp only [List.map_cons, readLines, parseRow_rowOf c i cid e he.1 he.2, hr]
    by_cases hrest : rest = []
    · simp [hrest]
    · simp [hrest]

/-- reading continues across a block of correct rows: events are concatenated, the later catalog id wins -/
theorem readLines_rows_append {F} (c : FloatCodec F) (cid : Option Int) (tail : List (Line F)) :
    ∀ (evs : List Event) (first : Bool) (i : Nat), (∀ e ∈ evs, EventOk e ∧ EventCodecOk c e) → evs ≠ [] →
      readLines c first i (evs.map (fun e => Line.row (rowOf c cid e)) ++ tail)
        = match readLines c false (i + evs.length) tail with
          | .error er => .error er
          | .ok (evs2, later) => .ok (evs ++ evs2, match later with | some l => some l | none => some (cid.getD (-1)))
  | [], _, _, _, hne => absurd rfl hne
  | e :: rest, first, i, h, _ => by
    have he := h e List.mem_cons_self
    simp only [List.map_cons, List.cons_append, readLines, parseRow_rowOf c i cid e he.1 he.2]
    by_cases hrest : rest = []
    · subst hrest
      simp only [List.map_nil, List.nil_append, List.length_cons, List.length_nil, Nat.zero_add]
      cases readLines c false (i + 1) tail with
      | error er => rfl
      | ok p => obtain ⟨evs2, later⟩ := p; rfl
    · have hr := readLines_rows_append c cid tail rest false (i + 1)
        (fun x hx => h x (List.mem_cons_of_mem _ hx)) hrest
      rw [hr]
      have : i + 1 + rest.length = i + (e :: rest).length := by simp only [List.length_cons]; omega
      rw [this]
      cases readLines c false (i + (e :: rest).length) tail with
      | error er => rfl
      | ok p =>
        obtain ⟨evs2, later⟩ := p
        cases later <;> rfl

/-! ### round 4: records without an event id -/

/-- an event the format can carry when no id column is written: origin time in range (no condition on the id) -/
def EventTimeOk (e : Event) : Prop := |e.ms| < 8589934592000

theorem parseRow_rowOfNoId {F} (c : FloatCodec F) (i : Nat) (cid : Option Int) (e : Event) (he : EventTimeOk e)
    (hc : EventCodecOk c e) :
    parseRow c i (rowOfNoId c cid e) = .ok ({ e with id := storeId (natDigits (i + 1) i) }, cid.getD (-1)) := by
  obtain ⟨h1, h2, h3, h4⟩ := hc
  unfold CodecOk at h1 h2 h3 h4
  unfold EventTimeOk at he
  simp [parseRow, rowOfNoId, rowOf, h1, h2, h3, h4, readerParse_timeString e.ms he, catId_roundtrip]

theorem readLines_rows_noid {F} (c : FloatCodec F) (cid : Option Int) :
    ∀ (evs : List Event) (first : Bool) (i : Nat), (∀ e ∈ evs, EventTimeOk e ∧ EventCodecOk c e) →
      readLines c first i (evs.map (fun e => Line.row (rowOfNoId c cid e)))
        = .ok (renumber i evs, if evs = [] then none else some (cid.getD (-1)))
  | [], _, _, _ => by simp [readLines, renumber]
  | e :: rest, first, i, h => by
    have he := h e List.mem_cons_self
    have hr := readLines_rows_noid c cid rest false (i + 1) (fun x hx => h x (List.mem_cons_of_mem _ hx))
    simp only [List.map_cons, readLines, parseRow_rowOfNoId c i cid e he.1 he.2, hr, renumber]
    by_cases hrest : rest = []
    · simp [hrest]
    · simp [hrest]

theorem renumber_length : ∀ (i : Nat) (evs : List Event), (renumber i evs).length = evs.length
  | _, [] => rfl
  | i, _ :: es => by simp [renumber, renumber_length (i + 1) es]

/-! ### round 4: the region's dict form -/

theorem swap_swap (l : List (Rat × Rat)) : (l.map (fun o => (o.2, o.1))).map (fun p => (p.2, p.1)) = l := by
  simp [List.map_map, Function.comp_def]

theorem pyStrName_idem (n : Option (List Char)) : pyStrName (some (pyStrName n)) = pyStrName n := rfl

end Persist
