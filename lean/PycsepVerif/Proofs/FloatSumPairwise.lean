import PycsepVerif.Proofs.FloatSum

/-!
  `FloatSum.pairwiseSum` (numpy's `pairwise_sum`) IS a bracketing of its terms: the tree `pwTree fuel xs` has float value
  `pairwiseSum fuel xs`, its leaves are a permutation of the terms (plus zeros where numpy starts an accumulator at 0.) and its
  depth is at most `25 + fuel`. Helpers of Properties/C20_FloatSum.lean (`numpy_sum_*`).
-/
namespace FloatSum
open Soft64 STree

/-- the eight accumulators as bracketings -/
def accTrees (blocks : List (List Rat)) : List STree :=
  (blocks.drop 1).foldl (fun acc blk => List.zipWith STree.node acc (blk.map STree.leaf)) ((blocks.headD []).map STree.leaf)

def combineT (r : List STree) : STree :=
  let g := fun j => r.getD j (leaf 0)
  node (node (node (g 0) (g 1)) (node (g 2) (g 3))) (node (node (g 4) (g 5)) (node (g 6) (g 7)))

/-- the bracketing `pairwiseSum` evaluates -/
def pwTree : Nat → List Rat → STree
  | 0, xs => comb (leaf 0) xs
  | fuel + 1, xs =>
    let n := xs.length
    if n < 8 then comb (leaf 0) xs
    else if n ≤ 128 then
      let nb := n - n % 8
      comb (combineT (accTrees (chunks8 (nb / 8) xs))) (xs.drop nb)
    else
      let n2 := n / 2 - (n / 2) % 8
      node (pwTree fuel (xs.take n2)) (pwTree fuel (xs.drop n2))

/-! ### float value -/

theorem zipWith_node_evalF : ∀ (a : List STree) (b : List ℚ),
    (List.zipWith STree.node a (b.map STree.leaf)).map evalF = List.zipWith fadd (a.map evalF) b
  | [], _ => by simp
  | _ :: _, [] => by simp
  | x :: a, y :: b => by simp [evalF, zipWith_node_evalF a b]

theorem foldl_node_evalF (bs : List (List ℚ)) : ∀ (acc : List STree),
    (bs.foldl (fun acc blk => List.zipWith STree.node acc (blk.map STree.leaf)) acc).map evalF =
      bs.foldl (fun acc blk => List.zipWith fadd acc blk) (acc.map evalF) := by
  induction bs with
  | nil => intro acc; rfl
  | cons b bs ih => intro acc; simp only [List.foldl_cons]; rw [ih, zipWith_node_evalF]

theorem accTrees_evalF (blocks : List (List ℚ)) : (accTrees blocks).map evalF = accumulate blocks := by
  unfold accTrees accumulate
  rw [foldl_node_evalF]
  congr 1
  simp [List.map_map, Function.comp_def, evalF]

theorem combineT_evalF (r : List STree) : (combineT r).evalF = combine8 (r.map evalF) := by
  have h : ∀ j, (r.map evalF).getD j 0 = (r.getD j (leaf 0)).evalF := by
    intro j
    simp only [List.getD_eq_getElem?_getD, List.getElem?_map]
    cases r[j]? <;> simp [evalF]
  simp only [combineT, combine8, evalF, h]

theorem pwTree_evalF : ∀ (fuel : Nat) (xs : List ℚ), (pwTree fuel xs).evalF = pairwiseSum fuel xs
  | 0, xs => by simp [pwTree, pairwiseSum, comb_evalF, evalF]
  | fuel + 1, xs => by
    unfold pwTree pairwiseSum
    simp only
    split
    · simp [comb_evalF, evalF]
    · split
      · rw [comb_evalF, combineT_evalF, accTrees_evalF]
      · simp only [evalF, pwTree_evalF fuel]

/-! ### leaves -/

theorem zipWith_node_leaves : ∀ (a : List STree) (b : List ℚ), a.length = b.length →
    (((List.zipWith STree.node a (b.map STree.leaf)).map leaves).flatten).Perm ((a.map leaves).flatten ++ b)
  | [], [], _ => by simp
  | [], _ :: _, h => by simp at h
  | _ :: _, [], h => by simp at h
  | x :: a, y :: b, h => by
    have ih := zipWith_node_leaves a b (by simpa using h)
    simp only [List.map_cons, List.zipWith_cons_cons, List.flatten_cons, leaves, List.append_assoc]
    refine List.Perm.append_left _ ?_
    -- [y] ++ rest' ~ restA ++ y :: b
    exact (List.Perm.cons y ih).trans (List.perm_middle.symm)

theorem zipWith_node_length (a : List STree) (b : List ℚ) :
    (List.zipWith STree.node a (b.map STree.leaf)).length = min a.length b.length := by simp

theorem foldl_node_leaves (bs : List (List ℚ)) : ∀ (acc : List STree), acc.length = 8 → (∀ blk ∈ bs, blk.length = 8) →
    (bs.foldl (fun acc blk => List.zipWith STree.node acc (blk.map STree.leaf)) acc).length = 8 ∧
    (((bs.foldl (fun acc blk => List.zipWith STree.node acc (blk.map STree.leaf)) acc).map leaves).flatten).Perm
      ((acc.map leaves).flatten ++ bs.flatten) := by
  induction bs with
  | nil => intro acc h _; simp [h]
  | cons b bs ih =>
    intro acc hacc hb
    have hbl : b.length = 8 := hb b List.mem_cons_self
    have hl : (List.zipWith STree.node acc (b.map STree.leaf)).length = 8 := by
      rw [zipWith_node_length, hacc, hbl]; rfl
    obtain ⟨h1, h2⟩ := ih _ hl (fun blk hblk => hb blk (List.mem_cons_of_mem _ hblk))
    refine ⟨by simpa using h1, ?_⟩
    simp only [List.foldl_cons, List.flatten_cons]
    refine h2.trans ?_
    rw [← List.append_assoc]
    exact List.Perm.append_right _ (zipWith_node_leaves acc b (by rw [hacc, hbl]))

theorem accTrees_leaves (blocks : List (List ℚ)) (hne : blocks ≠ []) (hb : ∀ blk ∈ blocks, blk.length = 8) :
    (accTrees blocks).length = 8 ∧ (((accTrees blocks).map leaves).flatten).Perm blocks.flatten := by
  cases blocks with
  | nil => exact absurd rfl hne
  | cons b0 bs =>
    have h0 : b0.length = 8 := hb b0 List.mem_cons_self
    obtain ⟨h1, h2⟩ := foldl_node_leaves bs (b0.map STree.leaf) (by simpa using h0)
      (fun blk hblk => hb blk (List.mem_cons_of_mem _ hblk))
    unfold accTrees
    simp only [List.drop_succ_cons, List.drop_zero, List.headD_cons]
    refine ⟨h1, ?_⟩
    refine h2.trans ?_
    have : ((b0.map STree.leaf).map leaves).flatten = b0 := by
      clear h2 h1 h0 hb hne
      induction b0 with
      | nil => rfl
      | cons x t ih => simp [leaves] at ih ⊢; exact ih
    rw [this, List.flatten_cons]

theorem combineT_leaves (r : List STree) (h : r.length = 8) : (combineT r).leaves = (r.map leaves).flatten := by
  match r, h with
  | [a, b, c, d, e, f, g, i], _ => simp [combineT, leaves]

theorem chunks8_spec : ∀ (k : Nat) (xs : List ℚ), 8 * k ≤ xs.length →
    (chunks8 k xs).flatten = xs.take (8 * k) ∧ ∀ blk ∈ chunks8 k xs, blk.length = 8
  | 0, xs, _ => by simp [chunks8]
  | k + 1, xs, h => by
    obtain ⟨h1, h2⟩ := chunks8_spec k (xs.drop 8) (by simp; omega)
    constructor
    · simp only [chunks8, List.flatten_cons, h1]
      rw [show 8 * (k + 1) = 8 + 8 * k by ring, List.take_add]
    · intro blk hblk
      simp only [chunks8, List.mem_cons] at hblk
      rcases hblk with rfl | hblk
      · simp; omega
      · exact h2 blk hblk

/-- the leaves of the bracketing are the terms, plus zeros (numpy starts the sequential accumulator of a short run at `0.`) -/
theorem pwTree_leaves : ∀ (fuel : Nat) (xs : List ℚ), ∃ m : Nat, (pwTree fuel xs).leaves.Perm (List.replicate m 0 ++ xs)
  | 0, xs => ⟨1, by simp [pwTree, comb_leaves, leaves, List.replicate]⟩
  | fuel + 1, xs => by
    unfold pwTree
    simp only
    split
    · exact ⟨1, by simp [comb_leaves, leaves, List.replicate]⟩
    · split
      · rename_i h8 h128
        refine ⟨0, ?_⟩
        have hk : 8 * ((xs.length - xs.length % 8) / 8) = xs.length - xs.length % 8 := by omega
        have hle : 8 * ((xs.length - xs.length % 8) / 8) ≤ xs.length := by omega
        obtain ⟨c1, c2⟩ := chunks8_spec _ xs hle
        have hne : chunks8 ((xs.length - xs.length % 8) / 8) xs ≠ [] := by
          have : 1 ≤ (xs.length - xs.length % 8) / 8 := by omega
          obtain ⟨k, hk'⟩ := Nat.exists_eq_succ_of_ne_zero (by omega : (xs.length - xs.length % 8) / 8 ≠ 0)
          rw [hk']; simp [chunks8]
        obtain ⟨a1, a2⟩ := accTrees_leaves _ hne c2
        rw [comb_leaves, combineT_leaves _ a1]
        simp only [List.replicate_zero, List.nil_append]
        have e : (chunks8 ((xs.length - xs.length % 8) / 8) xs).flatten ++ List.drop (xs.length - xs.length % 8) xs = xs := by
          rw [c1, hk, List.take_append_drop]
        have hp := List.Perm.append_right (List.drop (xs.length - xs.length % 8) xs) a2
        rw [e] at hp
        exact hp
      · obtain ⟨m1, p1⟩ := pwTree_leaves fuel (xs.take (xs.length / 2 - xs.length / 2 % 8))
        obtain ⟨m2, p2⟩ := pwTree_leaves fuel (xs.drop (xs.length / 2 - xs.length / 2 % 8))
        refine ⟨m1 + m2, ?_⟩
        simp only [leaves]
        refine (List.Perm.append p1 p2).trans ?_
        rw [List.replicate_add]
        -- (z1 ++ t) ++ (z2 ++ d) ~ (z1 ++ z2) ++ (t ++ d)
        have : ((List.replicate m1 (0 : ℚ) ++ List.take (xs.length / 2 - xs.length / 2 % 8) xs) ++
            (List.replicate m2 0 ++ List.drop (xs.length / 2 - xs.length / 2 % 8) xs)).Perm
            ((List.replicate m1 0 ++ List.replicate m2 0) ++
              (List.take (xs.length / 2 - xs.length / 2 % 8) xs ++ List.drop (xs.length / 2 - xs.length / 2 % 8) xs)) := by
          simp only [List.append_assoc]
          refine List.Perm.append_left _ ?_
          rw [← List.append_assoc, ← List.append_assoc]
          exact List.Perm.append_right _ List.perm_append_comm
        rw [List.take_append_drop] at this
        exact this

theorem absSum_zeros (m : Nat) (xs : List ℚ) : absSum (List.replicate m 0 ++ xs) = absSum xs := by
  induction m with
  | zero => simp
  | succ k ih => simp [List.replicate_succ, absSum, fabs] at ih ⊢

theorem sum_zeros (m : Nat) (xs : List ℚ) : (List.replicate m (0 : ℚ) ++ xs).sum = xs.sum := by
  simp

/-! ### depth -/

theorem zipWith_node_depth : ∀ (a : List STree) (b : List ℚ) (D : Nat), (∀ t ∈ a, t.depth ≤ D) →
    ∀ t ∈ List.zipWith STree.node a (b.map STree.leaf), t.depth ≤ D + 1
  | [], _, _, _ => by simp
  | _ :: _, [], _, _ => by simp
  | x :: a, y :: b, D, h => by
    intro t ht
    simp only [List.map_cons, List.zipWith_cons_cons, List.mem_cons] at ht
    rcases ht with rfl | ht
    · have := h x List.mem_cons_self
      simp only [depth]; omega
    · exact zipWith_node_depth a b D (fun t ht => h t (List.mem_cons_of_mem _ ht)) t ht

theorem foldl_node_depth (bs : List (List ℚ)) : ∀ (acc : List STree) (D : Nat), (∀ t ∈ acc, t.depth ≤ D) →
    ∀ t ∈ bs.foldl (fun acc blk => List.zipWith STree.node acc (blk.map STree.leaf)) acc, t.depth ≤ D + bs.length := by
  induction bs with
  | nil => intro acc D h t ht; simpa using h t ht
  | cons b bs ih =>
    intro acc D h t ht
    have := ih _ (D + 1) (zipWith_node_depth acc b D h) t ht
    simp only [List.length_cons]; omega

theorem accTrees_depth (blocks : List (List ℚ)) : ∀ t ∈ accTrees blocks, t.depth ≤ blocks.length - 1 := by
  intro t ht
  unfold accTrees at ht
  have := foldl_node_depth (blocks.drop 1) ((blocks.headD []).map STree.leaf) 0 (by
    intro t ht; obtain ⟨x, _, rfl⟩ := List.mem_map.mp ht; simp [depth]) t ht
  simpa using this

theorem chunks8_length : ∀ (k : Nat) (xs : List ℚ), (chunks8 k xs).length = k
  | 0, _ => rfl
  | k + 1, xs => by simp [chunks8, chunks8_length k]

theorem combineT_depth (r : List STree) (D : Nat) (h : ∀ t ∈ r, t.depth ≤ D) : (combineT r).depth ≤ D + 3 := by
  have hg : ∀ j, (r.getD j (leaf 0)).depth ≤ D := by
    intro j
    rw [List.getD_eq_getElem?_getD]
    cases hj : r[j]? with
    | none => simp [depth]
    | some t => simpa using h t (List.mem_of_getElem? hj)
  simp only [combineT, depth]
  have h0 := hg 0; have h1 := hg 1; have h2 := hg 2; have h3 := hg 3
  have h4 := hg 4; have h5 := hg 5; have h6 := hg 6; have h7 := hg 7
  omega

/-- **numpy's pairwise sum is at most `25 + levels` additions deep** (levels = halvings: 0 up to 128 terms, then one per
    doubling; 2^16 terms: 35) -/
theorem pwTree_depth : ∀ (fuel : Nat) (xs : List ℚ), xs.length ≤ 112 * 2 ^ fuel + 16 → (pwTree (fuel + 1) xs).depth ≤ 25 + fuel := by
  intro fuel
  induction fuel with
  | zero =>
    intro xs h
    unfold pwTree
    simp only
    split
    · have := comb_depth (leaf 0) xs; simp only [depth] at this; omega
    · split
      · have hc := comb_depth (combineT (accTrees (chunks8 ((xs.length - xs.length % 8) / 8) xs)))
          (xs.drop (xs.length - xs.length % 8))
        have hd := combineT_depth _ _ (accTrees_depth (chunks8 ((xs.length - xs.length % 8) / 8) xs))
        rw [chunks8_length] at hd
        simp only [List.length_drop] at hc
        omega
      · omega
  | succ f ih =>
    intro xs h
    unfold pwTree
    simp only
    have hp : 2 ^ (f + 1) = 2 * 2 ^ f := by rw [pow_succ]; ring
    split
    · have := comb_depth (leaf 0) xs; simp only [depth] at this; omega
    · split
      · have hc := comb_depth (combineT (accTrees (chunks8 ((xs.length - xs.length % 8) / 8) xs)))
          (xs.drop (xs.length - xs.length % 8))
        have hd := combineT_depth _ _ (accTrees_depth (chunks8 ((xs.length - xs.length % 8) / 8) xs))
        rw [chunks8_length] at hd
        simp only [List.length_drop] at hc
        omega
      · have h1 := ih (xs.take (xs.length / 2 - xs.length / 2 % 8)) (by simp only [List.length_take]; omega)
        have h2 := ih (xs.drop (xs.length / 2 - xs.length / 2 % 8)) (by simp only [List.length_drop]; omega)
        simp only [depth]
        omega

end FloatSum
