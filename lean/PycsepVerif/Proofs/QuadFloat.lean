import PycsepVerif.Proofs.Soft64
import PycsepVerif.Proofs.QuadtreeLon
import Mathlib.Tactic.Linarith
import Mathlib.Tactic.Ring
import Mathlib.Tactic.FieldSimp
import Mathlib.Tactic.NormNum
import Mathlib.Tactic.Positivity

/-!
  Float layer of C17 by THEOREM (round 3), replacing the kernel table `lonExactUpTo_10` for every zoom ≤ 40
  (the shipped California grid is zoom 12, `from_catalog`'s default is zoom 11):

  * `lonFloat_exact`  : mercantile's `xtile / Z2 * 360.0 - 180.0` is computed WITHOUT rounding error for every column
                        edge of every zoom ≤ 40 — each intermediate is a dyadic rational with a mantissa below 2^53.
  * `latArgFloat_exact`: the argument of the transcendental chain, `1 - 2 * ytile / Z2`, is exact too, so the float
                        latitude of a tile edge is a function of the dyadic unit coordinate Y/2^z ALONE
                        (`latArg_depends_on_unit_coordinate`): shared edges between zoom levels receive bit-identical
                        inputs to `math.pi * · → sinh → atan → degrees`, whatever libm does.
-/
namespace Quadtree
open Soft64

/-- mercantile.bounds: `1 - 2 * ytile / Z2` in binary64 (2*ytile is integer arithmetic, `/` and `-` are float) -/
def latArgFloat (Y z : Nat) : Rat := fsub 1 (fdiv ((2 * Y : Nat) : Rat) ((2 ^ z : Nat) : Rat))

private theorem pow2_neg_nat (z : ℕ) : pow2 (-(z : ℤ)) = 1 / (2 : ℚ) ^ z := by
  rw [pow2_eq_zpow, zpow_neg, zpow_natCast, one_div]

private theorem natpow_cast (z : ℕ) : ((2 ^ z : ℕ) : ℚ) = (2 : ℚ) ^ z := by push_cast; rfl

private theorem pow2_three : pow2 3 = 8 := by rw [pow2_eq_zpow]; norm_num
private theorem pow2_two : pow2 2 = 4 := by rw [pow2_eq_zpow]; norm_num

private theorem fl64_dyadic (m : ℤ) (k : ℤ) (hm : |m| < 2 ^ 53) (hk : -1074 ≤ k) (x : ℚ)
    (hx : x = (m : ℚ) * pow2 k) : fl64 x = x := by
  rw [hx]; exact isF64_dyadic m k hm hk

/-- every longitude edge of every zoom ≤ 40 is computed exactly -/
theorem lonFloat_exact (z X : ℕ) (hz : z ≤ 40) (hX : X ≤ 2 ^ z) :
    lonFloat X z = lonOf ((X : ℚ) / ((2 ^ z : ℕ) : ℚ)) := by
  have h2 : (2 : ℚ) ^ z ≠ 0 := by positivity
  have hb : (2 : ℤ) ^ z ≤ 2 ^ 40 := pow_le_pow_right₀ (by norm_num) hz
  have hXi : (X : ℤ) ≤ 2 ^ z := by exact_mod_cast hX
  have hX0 : (0 : ℤ) ≤ X := Int.natCast_nonneg X
  have hzk : -1074 ≤ -(z : ℤ) := by omega
  unfold lonFloat fsub fmul fdiv lonOf
  rw [natpow_cast]
  -- X / 2^z
  have f1 : fl64 ((X : ℚ) / (2 : ℚ) ^ z) = (X : ℚ) / (2 : ℚ) ^ z := by
    apply fl64_dyadic (X : ℤ) (-(z : ℤ)) _ hzk
    · rw [pow2_neg_nat]; push_cast; field_simp
    · rw [abs_of_nonneg hX0]; norm_num at hb ⊢; omega
  rw [f1]
  -- · 360 = (45 X) · 2^(3 − z)
  have f2 : fl64 ((X : ℚ) / (2 : ℚ) ^ z * 360) = (X : ℚ) / (2 : ℚ) ^ z * 360 := by
    apply fl64_dyadic (45 * (X : ℤ)) (3 + -(z : ℤ)) _ (by omega)
    · rw [pow2_add, pow2_three, pow2_neg_nat]; push_cast; field_simp; ring
    · rw [abs_of_nonneg (by omega)]; norm_num at hb ⊢; omega
  rw [f2]
  -- − 180 = 45 (2X − 2^z) · 2^(2 − z)
  apply fl64_dyadic (45 * (2 * (X : ℤ) - 2 ^ z)) (2 + -(z : ℤ)) _ (by omega)
  · rw [pow2_add, pow2_two, pow2_neg_nat]; push_cast; field_simp; ring
  · rw [abs_lt]; norm_num at hb ⊢; constructor <;> omega

/-- the argument of mercantile's latitude chain is exact for every row edge of every zoom ≤ 40 -/
theorem latArgFloat_exact (z Y : ℕ) (hz : z ≤ 40) (hY : Y ≤ 2 ^ z) :
    latArgFloat Y z = 1 - 2 * ((Y : ℚ) / ((2 ^ z : ℕ) : ℚ)) := by
  have h2 : (2 : ℚ) ^ z ≠ 0 := by positivity
  have hb : (2 : ℤ) ^ z ≤ 2 ^ 40 := pow_le_pow_right₀ (by norm_num) hz
  have hYi : (Y : ℤ) ≤ 2 ^ z := by exact_mod_cast hY
  have hY0 : (0 : ℤ) ≤ Y := Int.natCast_nonneg Y
  have hzk : -1074 ≤ -(z : ℤ) := by omega
  unfold latArgFloat fsub fdiv
  rw [natpow_cast]
  have f1 : fl64 (((2 * Y : ℕ) : ℚ) / (2 : ℚ) ^ z) = ((2 * Y : ℕ) : ℚ) / (2 : ℚ) ^ z := by
    apply fl64_dyadic (2 * (Y : ℤ)) (-(z : ℤ)) _ hzk
    · rw [pow2_neg_nat]; push_cast; field_simp
    · rw [abs_of_nonneg (by omega)]; norm_num at hb ⊢; omega
  rw [f1]
  have e : (1 : ℚ) - ((2 * Y : ℕ) : ℚ) / (2 : ℚ) ^ z = 1 - 2 * ((Y : ℚ) / (2 : ℚ) ^ z) := by push_cast; ring
  rw [e]
  apply fl64_dyadic ((2 : ℤ) ^ z - 2 * (Y : ℤ)) (-(z : ℤ)) _ hzk
  · rw [pow2_neg_nat]; push_cast; field_simp
  · rw [abs_lt]; norm_num at hb ⊢; constructor <;> omega

end Quadtree
