import PycsepVerif.Model.RegionOps
import PycsepVerif.Proofs.Region
import Mathlib.Tactic.Ring
import Mathlib.Tactic.Linarith
import Mathlib.Tactic.Push

/-! helper lemmas for `Properties/C01_Ops.lean` (Model/RegionOps.lean) -/
namespace Region

/-! ### compress -/

theorem compress_sublist {α : Type} : ∀ (l : List α) (keep : List Bool), (compress l keep).Sublist l
  | [], _ => by cases ‹List Bool› <;> simp [compress]
  | a :: as, [] => by simp [compress]
  | a :: as, b :: bs => by
    cases b
    · simpa [compress] using (compress_sublist as bs).cons a
    · simpa [compress] using (compress_sublist as bs).cons_cons a

theorem keptFrom_ge : ∀ (keep : List Bool) (s m : Nat), m ∈ keptFrom s keep → s ≤ m
  | [], _, _, h => by simp [keptFrom] at h
  | b :: bs, s, m, h => by
    cases b
    · simp only [keptFrom, Bool.false_eq_true, if_false] at h
      have := keptFrom_ge bs (s + 1) m h; omega
    · simp only [keptFrom, if_true, List.mem_cons] at h
      rcases h with h | h
      · omega
      · have := keptFrom_ge bs (s + 1) m h; omega

/-- entry k' of the compressed list is entry `keptIdx[k']` of the original list -/
theorem compress_getElem? {α : Type} : ∀ (l : List α) (keep : List Bool) (s k : Nat), l.length = keep.length →
    (compress l keep)[k]? = ((keptFrom s keep)[k]?).bind (fun m => l[m - s]?)
  | [], [], _, _, _ => by simp [compress, keptFrom]
  | [], _ :: _, _, _, h => by simp at h
  | _ :: _, [], _, _, h => by simp at h
  | a :: as, b :: bs, s, k, h => by
    have hl : as.length = bs.length := by simpa using h
    have shift : ∀ k : Nat, ((keptFrom (s + 1) bs)[k]?).bind (fun m => as[m - (s + 1)]?) =
        ((keptFrom (s + 1) bs)[k]?).bind (fun m => (a :: as)[m - s]?) := by
      intro k
      cases hk : (keptFrom (s + 1) bs)[k]? with
      | none => rfl
      | some m =>
        have hm := keptFrom_ge bs (s + 1) m (List.mem_of_getElem? hk)
        simp only [Option.bind_some]
        have : m - s = (m - (s + 1)) + 1 := by omega
        rw [this, List.getElem?_cons_succ]
    cases b
    · simp only [compress, keptFrom, Bool.false_eq_true, if_false]
      rw [compress_getElem? as bs (s + 1) k hl, shift]
    · simp only [compress, keptFrom, if_true]
      cases k with
      | zero => simp
      | succ k =>
        simp only [List.getElem?_cons_succ]
        rw [compress_getElem? as bs (s + 1) k hl, shift]

theorem keptFrom_lt : ∀ (keep : List Bool) (s m : Nat), m ∈ keptFrom s keep → m < s + keep.length ∧ keep[m - s]? = some true
  | [], _, _, h => by simp [keptFrom] at h
  | b :: bs, s, m, h => by
    cases b
    · simp only [keptFrom, Bool.false_eq_true, if_false] at h
      have := keptFrom_lt bs (s + 1) m h
      have hge := keptFrom_ge bs (s + 1) m h
      have e : m - s = (m - (s + 1)) + 1 := by omega
      rw [e, List.getElem?_cons_succ]
      exact ⟨by simp only [List.length_cons]; omega, this.2⟩
    · simp only [keptFrom, if_true, List.mem_cons] at h
      rcases h with h | h
      · subst h; simp
      · have := keptFrom_lt bs (s + 1) m h
        have hge := keptFrom_ge bs (s + 1) m h
        have e : m - s = (m - (s + 1)) + 1 := by omega
        rw [e, List.getElem?_cons_succ]
        exact ⟨by simp only [List.length_cons]; omega, this.2⟩

/-! ### filter_spatial -/

theorem filterSpatial_idem (R : Region) (hB : R.Built) (pts : List (Rat × Rat)) :
    R.filterSpatial (R.filterSpatial pts) = R.filterSpatial pts := by
  rw [filterSpatial_eq R hB, filterSpatial_eq R hB, List.filter_filter]
  simp

theorem filterSpatial_all_inside (R : Region) (hB : R.Built) (pts : List (Rat × Rat)) :
    (R.filterSpatial pts).all (fun p => (R.cellOf p).isSome) = true := by
  rw [filterSpatial_eq R hB, List.all_eq_true]
  intro p hp
  exact (List.mem_filter.mp hp).2

end Region
