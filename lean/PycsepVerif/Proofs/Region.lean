import PycsepVerif.Model.Region
import Mathlib.Tactic.Ring
import Mathlib.Tactic.Linarith
import Mathlib.Data.Rat.Floor

/-! helper lemmas for property C01 (Model/Region.lean) -/
namespace Region

/-! ### the counting function `cnt` -/

theorem cnt_nil (x : Rat) : cnt [] x = 0 := rfl

theorem cnt_cons (e : Rat) (es : List Rat) (x : Rat) :
    cnt (e :: es) x = if e ≤ x then cnt es x + 1 else 0 := by
  unfold cnt
  by_cases h : e ≤ x <;> simp [h]

theorem cnt_le_length : ∀ (edges : List Rat) (x : Rat), cnt edges x ≤ edges.length
  | [], _ => by simp [cnt_nil]
  | e :: es, x => by
    rw [cnt_cons]
    have := cnt_le_length es x
    by_cases h : e ≤ x <;> simp [h]; omega

/-- every one of the first `cnt` edges is ≤ x -/
theorem getElem_le_of_lt_cnt : ∀ (edges : List Rat) (x : Rat) (k : Nat), k < cnt edges x →
    ∃ e, edges[k]? = some e ∧ e ≤ x
  | [], x, k, h => by simp [cnt_nil] at h
  | e :: es, x, k, h => by
    rw [cnt_cons] at h
    by_cases he : e ≤ x
    · simp only [he, if_true] at h
      cases k with
      | zero => exact ⟨e, by simp, he⟩
      | succ k =>
        obtain ⟨e', h1, h2⟩ := getElem_le_of_lt_cnt es x k (by omega)
        exact ⟨e', by simpa using h1, h2⟩
    · simp [he] at h

/-- the edge at position `cnt` (if there is one) is > x -/
theorem lt_getElem_cnt : ∀ (edges : List Rat) (x : Rat) (e : Rat), edges[cnt edges x]? = some e → x < e
  | [], x, e, h => by simp at h
  | e0 :: es, x, e, h => by
    rw [cnt_cons] at h
    by_cases he : e0 ≤ x
    · simp only [he, if_true, List.getElem?_cons_succ] at h
      exact lt_getElem_cnt es x e h
    · simp only [he, if_false, List.getElem?_cons_zero, Option.some.injEq] at h
      subst h; exact not_le.mp he

/-- on strictly increasing edges, an edge ≤ x lies among the first `cnt` -/
theorem lt_cnt_of_le : ∀ (edges : List Rat) (x : Rat) (k : Nat) (e : Rat), edges.Pairwise (· < ·) →
    edges[k]? = some e → e ≤ x → k < cnt edges x
  | [], x, k, e, _, h, _ => by simp at h
  | e0 :: es, x, k, e, hs, h, hle => by
    rw [List.pairwise_cons] at hs
    rw [cnt_cons]
    cases k with
    | zero =>
      simp only [List.getElem?_cons_zero, Option.some.injEq] at h
      subst h; simp [hle]
    | succ k =>
      simp only [List.getElem?_cons_succ] at h
      have hmem : e ∈ es := List.mem_of_getElem? h
      have : e0 ≤ x := le_trans (le_of_lt (hs.1 e hmem)) hle
      simp only [this, if_true]
      have := lt_cnt_of_le es x k e hs.2 h hle
      omega

/-! ### characterisation of the exact lookup -/

/-- upper side of bin k: the next edge, or `top` for the last bin -/
def upper (edges : List Rat) (top : Rat) (k : Nat) : Rat := (edges[k + 1]?).getD top

theorem binE_eq_some_iff (edges : List Rat) (top x : Rat) (k : Nat)
    (hs : edges.Pairwise (· < ·)) (hn : 2 ≤ edges.length) (htop : ∀ e ∈ edges, e < top) :
    binE edges top x = some k ↔ ∃ e, edges[k]? = some e ∧ e ≤ x ∧ x < upper edges top k := by
  unfold binE
  have hn1 : edges.length ≠ 1 := by omega
  constructor
  · intro h
    by_cases hc : cnt edges x = 0
    · simp [hc] at h
    · by_cases ht : top ≤ x
      · simp [hc, hn1, ht] at h
      · simp only [hc, hn1, ht, if_false, Option.some.injEq] at h
        obtain ⟨e, h1, h2⟩ := getElem_le_of_lt_cnt edges x k (by omega)
        refine ⟨e, h1, h2, ?_⟩
        unfold upper
        have hk : k + 1 = cnt edges x := by omega
        rw [hk]
        cases hget : edges[cnt edges x]? with
        | none => simpa using not_le.mp ht
        | some e' => simpa using lt_getElem_cnt edges x e' hget
  · rintro ⟨e, h1, h2, h3⟩
    have hk : k < cnt edges x := lt_cnt_of_le edges x k e hs h1 h2
    have hc : cnt edges x ≠ 0 := by omega
    have hle := cnt_le_length edges x
    unfold upper at h3
    have hcnt : cnt edges x = k + 1 := by
      by_contra hne
      have hlt : k + 1 < cnt edges x := by omega
      obtain ⟨e', h4, h5⟩ := getElem_le_of_lt_cnt edges x (k + 1) hlt
      rw [h4] at h3
      simp at h3
      exact absurd h5 (not_le.mpr h3)
    have ht : ¬ top ≤ x := by
      cases hget : edges[k + 1]? with
      | none => rw [hget] at h3; simpa using h3
      | some e' =>
        rw [hget] at h3
        have : e' < top := htop e' (List.mem_of_getElem? hget)
        simp at h3
        exact not_le.mpr (lt_trans h3 this)
    simp [hn1, ht, hcnt]

/-- below the first edge, or at / beyond the upper side: not in the box -/
theorem binE_eq_none_iff (edges : List Rat) (top x : Rat) (hn : 2 ≤ edges.length) :
    binE edges top x = none ↔ cnt edges x = 0 ∨ top ≤ x := by
  unfold binE
  have hn1 : edges.length ≠ 1 := by omega
  by_cases hc : cnt edges x = 0
  · simp [hc]
  · by_cases ht : top ≤ x <;> simp [hc, hn1, ht]

/-- a single-edge grid is open-ended (this is the known finding D4 seen from the model) -/
theorem binE_single (e top x : Rat) : binE [e] top x = if e ≤ x then some 0 else none := by
  unfold binE
  rw [cnt_cons, cnt_nil]
  by_cases h : e ≤ x <;> simp [h]

/-! ### the regular lattice -/

theorem regular_length (a0 h : Rat) : ∀ n, (regular a0 h n).length = n
  | 0 => rfl
  | n + 1 => by simp [regular, regular_length]

theorem regular_getElem? : ∀ (n : Nat) (a0 h : Rat) (k : Nat), k < n → (regular a0 h n)[k]? = some (a0 + k * h)
  | 0, _, _, k, hk => by omega
  | n + 1, a0, h, 0, _ => by simp [regular]
  | n + 1, a0, h, k + 1, hk => by
    simp only [regular, List.getElem?_cons_succ]
    rw [regular_getElem? n (a0 + h) h k (by omega)]
    congr 1; push_cast; ring

theorem regular_getElem?_none (n : Nat) (a0 h : Rat) (k : Nat) (hk : n ≤ k) : (regular a0 h n)[k]? = none := by
  apply List.getElem?_eq_none; rw [regular_length]; exact hk

theorem regular_mem {n : Nat} {a0 h e : Rat} (he : e ∈ regular a0 h n) : ∃ k, k < n ∧ e = a0 + k * h := by
  obtain ⟨k, hk, hke⟩ := List.getElem_of_mem he
  rw [regular_length] at hk
  refine ⟨k, hk, ?_⟩
  have := regular_getElem? n a0 h k hk
  rw [List.getElem?_eq_getElem (by rw [regular_length]; exact hk)] at this
  rw [← hke]; exact Option.some.inj this

theorem regular_lt_top {n : Nat} {a0 h : Rat} (hh : 0 < h) : ∀ e ∈ regular a0 h n, e < a0 + n * h := by
  intro e he
  obtain ⟨k, hk, rfl⟩ := regular_mem he
  have : (k : Rat) < n := by exact_mod_cast hk
  nlinarith

theorem regular_sorted (hh : 0 < h) : ∀ (n : Nat) (a0 : Rat), (regular a0 h n).Pairwise (· < ·)
  | 0, _ => List.Pairwise.nil
  | n + 1, a0 => by
    simp only [regular, List.pairwise_cons]
    refine ⟨?_, regular_sorted hh n (a0 + h)⟩
    intro e he
    obtain ⟨k, _, rfl⟩ := regular_mem he
    have : (0 : Rat) ≤ k := by exact_mod_cast Nat.zero_le k
    nlinarith

/-- exact lookup on a regular lattice with at least two edges: bin k ⇔ a0 + k·h ≤ x < a0 + (k+1)·h, k < n -/
theorem binE_regular_iff (a0 h : Rat) (n : Nat) (x : Rat) (k : Nat) (hh : 0 < h) (hn : 2 ≤ n) :
    binE (regular a0 h n) (a0 + n * h) x = some k ↔ a0 + k * h ≤ x ∧ x < a0 + (k + 1) * h ∧ k < n := by
  rw [binE_eq_some_iff _ _ _ _ (regular_sorted hh n a0) (by rw [regular_length]; exact hn) (regular_lt_top hh)]
  constructor
  · rintro ⟨e, h1, h2, h3⟩
    have hk : k < n := by
      by_contra hk
      rw [regular_getElem?_none n a0 h k (by omega)] at h1; simp at h1
    rw [regular_getElem? n a0 h k hk] at h1
    have he : e = a0 + k * h := (Option.some.inj h1).symm
    subst he
    refine ⟨h2, ?_, hk⟩
    unfold upper at h3
    by_cases hk1 : k + 1 < n
    · rw [regular_getElem? n a0 h (k + 1) hk1] at h3
      simp at h3; linarith
    · rw [regular_getElem?_none n a0 h (k + 1) (by omega)] at h3
      have : n = k + 1 := by omega
      subst this
      simp at h3; linarith
  · rintro ⟨h1, h2, hk⟩
    refine ⟨a0 + k * h, regular_getElem? n a0 h k hk, h1, ?_⟩
    unfold upper
    by_cases hk1 : k + 1 < n
    · rw [regular_getElem? n a0 h (k + 1) hk1]; simp; linarith
    · rw [regular_getElem?_none n a0 h (k + 1) (by omega)]
      have : n = k + 1 := by omega
      subst this
      simp; linarith

/-! ### the floor formula -/

theorem floor_eq_int_floor (q : Rat) : q.floor = ⌊q⌋ := rfl

/-- the uniform-grid floor formula: bin k ⇔ a0 + k·h ≤ x < a0 + (k+1)·h, k < n (n ≥ 2) -/
theorem binReg_eq_some_iff (a0 h : Rat) (n : Nat) (x : Rat) (k : Nat) (hh : 0 < h) (hn : 2 ≤ n) :
    binReg a0 h n x = some k ↔ a0 + k * h ≤ x ∧ x < a0 + (k + 1) * h ∧ k < n := by
  unfold binReg
  have hn1 : n ≠ 1 := by omega
  simp only [floor_eq_int_floor]
  have key : ∀ z : Int, ⌊(x - a0) / h⌋ = z ↔ a0 + z * h ≤ x ∧ x < a0 + (z + 1) * h := by
    intro z
    rw [Int.floor_eq_iff, le_div_iff₀ hh, div_lt_iff₀ hh]
    constructor <;> rintro ⟨h1, h2⟩ <;> constructor <;> linarith
  constructor
  · intro hq
    by_cases hneg : ⌊(x - a0) / h⌋ < 0
    · simp [hneg] at hq
    · simp only [hneg, hn1, if_false] at hq
      by_cases hlt : ⌊(x - a0) / h⌋.toNat < n
      · simp only [hlt, if_true, Option.some.injEq] at hq
        have hz : ⌊(x - a0) / h⌋ = (k : Int) := by omega
        have := (key k).mp hz
        push_cast at this
        exact ⟨this.1, this.2, by omega⟩
      · simp [hlt] at hq
  · rintro ⟨h1, h2, hk⟩
    have hz : ⌊(x - a0) / h⌋ = (k : Int) := (key k).mpr (by push_cast; exact ⟨h1, h2⟩)
    have hneg : ¬ ((k : Int) < 0) := by omega
    simp [hz, hn1, hk]

/-- the floor formula and the edge-array lookup agree on every regular lattice (any n) -/
theorem binReg_eq_binE (a0 h : Rat) (n : Nat) (x : Rat) (hh : 0 < h) :
    binReg a0 h n x = binE (regular a0 h n) (a0 + n * h) x := by
  by_cases hn : 2 ≤ n
  · apply Option.ext
    intro k
    rw [binReg_eq_some_iff a0 h n x k hh hn, binE_regular_iff a0 h n x k hh hn]
  · have hq : (⌊(x - a0) / h⌋ < 0) ↔ ¬ a0 ≤ x := by
      rw [Int.floor_lt, div_lt_iff₀ hh, not_le]; push_cast; constructor <;> intro h' <;> linarith
    have : n = 0 ∨ n = 1 := by omega
    rcases this with rfl | rfl
    · unfold binReg binE
      simp [regular, cnt_nil]
    · unfold binReg
      simp only [floor_eq_int_floor, regular, binE_single]
      by_cases hx : a0 ≤ x
      · have : ¬ ⌊(x - a0) / h⌋ < 0 := by rw [hq]; simpa using hx
        simp [this, hx]
      · have : ⌊(x - a0) / h⌋ < 0 := by rw [hq]; exact hx
        simp [this, hx]

/-! ### the arrays built by the loop -/

/-- index of the last polygon listed at bounding-box column i, row j -/
def lastAt : List Cell → Nat → Nat → Option Nat
  | [], _, _ => none
  | c :: cs, i, j =>
    match lastAt cs i j with
    | some m => some (m + 1)
    | none => if c.i = i ∧ c.j = j then some 0 else none

/-- some polygon listed at column i, row j may unmask it -/
def activeAt (cells : List Cell) (i j : Nat) : Prop := ∃ c ∈ cells, c.valid = true ∧ c.i = i ∧ c.j = j

theorem lastAt_cons (c : Cell) (cs : List Cell) (i j : Nat) :
    lastAt (c :: cs) i j = match lastAt cs i j with
      | some m => some (m + 1)
      | none => if c.i = i ∧ c.j = j then some 0 else none := rfl

theorem lastAt_eq_none_iff : ∀ (cells : List Cell) (i j : Nat),
    lastAt cells i j = none ↔ ∀ c ∈ cells, ¬ (c.i = i ∧ c.j = j)
  | [], i, j => by simp [lastAt]
  | c :: cs, i, j => by
    unfold lastAt
    cases hl : lastAt cs i j with
    | some m =>
      simp only [reduceCtorEq, false_iff]
      intro h
      exact absurd ((lastAt_eq_none_iff cs i j).mpr (fun d hd => h d (List.mem_cons_of_mem _ hd))) (by simp [hl])
    | none =>
      have ih := (lastAt_eq_none_iff cs i j).mp hl
      by_cases hc : c.i = i ∧ c.j = j
      · simp only [hc, and_self, if_true, reduceCtorEq, false_iff]
        intro h; exact h c List.mem_cons_self hc
      · simp only [hc, if_false, true_iff]
        intro d hd
        rcases List.mem_cons.mp hd with rfl | hd
        · exact hc
        · exact ih d hd

theorem lastAt_eq_some_iff : ∀ (cells : List Cell) (i j k : Nat),
    lastAt cells i j = some k ↔
      (∃ c, cells[k]? = some c ∧ c.i = i ∧ c.j = j) ∧
      ∀ k' c', k < k' → cells[k']? = some c' → ¬ (c'.i = i ∧ c'.j = j)
  | [], i, j, k => by simp [lastAt]
  | c :: cs, i, j, k => by
    unfold lastAt
    cases hl : lastAt cs i j with
    | some m =>
      have ih := (lastAt_eq_some_iff cs i j m).mp hl
      simp only [Option.some.injEq]
      constructor
      · rintro rfl
        refine ⟨by simpa using ih.1, ?_⟩
        intro k' c' hk' hget
        cases k' with
        | zero => omega
        | succ k' => exact ih.2 k' c' (by omega) (by simpa using hget)
      · rintro ⟨⟨c0, h1, h2⟩, h3⟩
        -- k must be m + 1: otherwise position m+1 (> k) holds a matching cell, or k-1 > m contradicts ih
        obtain ⟨cm, hm1, hm2⟩ := ih.1
        by_contra hne
        rcases Nat.lt_or_gt_of_ne hne with hlt | hgt
        · cases k with
          | zero => omega
          | succ k =>
            exact ih.2 k c0 (by omega) (by simpa using h1) h2
        · exact h3 (m + 1) cm hgt (by simpa using hm1) hm2
    | none =>
      have hnone : ∀ (k' : Nat) (c' : Cell), cs[k']? = some c' → ¬ (c'.i = i ∧ c'.j = j) := by
        intro k' c' hget
        exact (lastAt_eq_none_iff cs i j).mp hl c' (List.mem_of_getElem? hget)
      by_cases hc : c.i = i ∧ c.j = j
      · simp only [hc, and_self, if_true, Option.some.injEq]
        constructor
        · rintro rfl
          refine ⟨⟨c, by simp, hc⟩, ?_⟩
          intro k' c' hk' hget
          cases k' with
          | zero => omega
          | succ k' => exact hnone k' c' (by simpa using hget)
        · rintro ⟨⟨c0, h1, h2⟩, _⟩
          cases k with
          | zero => rfl
          | succ k => exact absurd h2 (hnone k c0 (by simpa using h1))
      · simp only [hc, if_false]
        constructor
        · intro h; simp at h
        · rintro ⟨⟨c0, h1, h2⟩, _⟩
          cases k with
          | zero => simp at h1; subst h1; exact absurd h2 hc
          | succ k => exact absurd h2 (hnone k c0 (by simpa using h1))


theorem idxAt_write (g : Grid) (k : Nat) (c : Cell) (r cc : Nat) :
    (g.write k c).idxAt r cc = if c.j = r ∧ c.i = cc then some k else g.idxAt r cc := by
  unfold Grid.idxAt Grid.write
  simp only [List.lookup_cons]
  by_cases h : c.j = r ∧ c.i = cc
  · obtain ⟨rfl, rfl⟩ := h; simp
  · have : ((r, cc) == (c.j, c.i)) = false := by
      simp only [beq_eq_false_iff_ne, ne_eq, Prod.mk.injEq]
      intro ⟨h1, h2⟩; exact h ⟨h1.symm, h2.symm⟩
    simp [this, h]

theorem masked_write (g : Grid) (k : Nat) (c : Cell) (r cc : Nat) :
    (g.write k c).masked r cc = (g.masked r cc && !(c.valid && decide (c.j = r ∧ c.i = cc))) := by
  unfold Grid.masked Grid.write
  cases hv : c.valid
  · simp
  · simp only [if_true, List.contains_cons, Bool.true_and]
    by_cases h : c.j = r ∧ c.i = cc
    · obtain ⟨rfl, rfl⟩ := h; simp
    · have : ((r, cc) == (c.j, c.i)) = false := by
        simp only [beq_eq_false_iff_ne, ne_eq, Prod.mk.injEq]
        intro ⟨h1, h2⟩; exact h ⟨h1.symm, h2.symm⟩
      simp [this, h]

theorem idxAt_buildFrom : ∀ (cells : List Cell) (k : Nat) (g : Grid) (r cc : Nat),
    (buildFrom k cells g).idxAt r cc =
      match lastAt cells cc r with
      | some m => some (k + m)
      | none => g.idxAt r cc
  | [], k, g, r, cc => by simp [buildFrom, lastAt]
  | c :: cs, k, g, r, cc => by
    simp only [buildFrom]
    rw [idxAt_buildFrom cs (k + 1) (g.write k c) r cc, lastAt_cons]
    cases hl : lastAt cs cc r with
    | some m => simp only [Option.some.injEq]; omega
    | none =>
      simp only [idxAt_write]
      by_cases h : c.j = r ∧ c.i = cc
      · simp [h.1, h.2]
      · have h' : ¬ (c.i = cc ∧ c.j = r) := fun ⟨a, b⟩ => h ⟨b, a⟩
        simp [h, h']

theorem masked_buildFrom : ∀ (cells : List Cell) (k : Nat) (g : Grid) (r cc : Nat),
    (buildFrom k cells g).masked r cc = (g.masked r cc && !(cells.any fun c => c.valid && decide (c.j = r ∧ c.i = cc)))
  | [], k, g, r, cc => by simp [buildFrom]
  | c :: cs, k, g, r, cc => by
    simp only [buildFrom]
    rw [masked_buildFrom cs (k + 1) (g.write k c) r cc, masked_write]
    simp only [List.any_cons, Bool.not_or, Bool.and_assoc]

theorem idxAt_build (cells : List Cell) (r cc : Nat) : (build cells).idxAt r cc = lastAt cells cc r := by
  unfold build
  rw [idxAt_buildFrom]
  cases lastAt cells cc r <;> simp [Grid.idxAt, Grid.empty]

theorem masked_build_eq_false_iff (cells : List Cell) (r cc : Nat) :
    (build cells).masked r cc = false ↔ activeAt cells cc r := by
  unfold build activeAt
  rw [masked_buildFrom]
  simp only [Grid.masked, Grid.empty, List.contains_nil, Bool.not_false, Bool.true_and, Bool.not_eq_false',
    List.any_eq_true, Bool.and_eq_true, decide_eq_true_eq]
  constructor
  · rintro ⟨c, hc, hv, h1, h2⟩; exact ⟨c, hc, hv, h2, h1⟩
  · rintro ⟨c, hc, hv, h1, h2⟩; exact ⟨c, hc, hv, h2, h1⟩

/-- an active position has been written: its index is defined -/
theorem lastAt_isSome_of_active {cells : List Cell} {i j : Nat} (h : activeAt cells i j) :
    ∃ k, lastAt cells i j = some k := by
  obtain ⟨c, hc, _, h1, h2⟩ := h
  cases hl : lastAt cells i j with
  | some k => exact ⟨k, rfl⟩
  | none => exact absurd ⟨h1, h2⟩ ((lastAt_eq_none_iff cells i j).mp hl c hc)


/-! ### the region: every API is a function of `cellOf` -/

theorem cellAt_eq_some_iff (R : Region) (hB : R.Built) (i j k : Nat) :
    R.cellAt (some i) (some j) = some k ↔ activeAt R.cells i j ∧ lastAt R.cells i j = some k := by
  unfold Region.cellAt
  simp only
  rw [hB]
  by_cases hm : (build R.cells).masked j i = true
  · have : ¬ activeAt R.cells i j := by
      rw [← masked_build_eq_false_iff]; simp [hm]
    simp [hm, this]
  · have hm' : (build R.cells).masked j i = false := by simpa using hm
    have ha : activeAt R.cells i j := (masked_build_eq_false_iff _ _ _).mp hm'
    simp [hm', ha, idxAt_build]

theorem cellAt_eq_none_iff (R : Region) (hB : R.Built) (i j : Nat) :
    R.cellAt (some i) (some j) = none ↔ ¬ activeAt R.cells i j := by
  unfold Region.cellAt
  simp only
  rw [hB]
  by_cases hm : (build R.cells).masked j i = true
  · have : ¬ activeAt R.cells i j := by
      rw [← masked_build_eq_false_iff]; simp [hm]
    simp [hm, this]
  · have hm' : (build R.cells).masked j i = false := by simpa using hm
    have ha : activeAt R.cells i j := (masked_build_eq_false_iff _ _ _).mp hm'
    obtain ⟨k, hk⟩ := lastAt_isSome_of_active ha
    simp [hm', ha, idxAt_build, hk]

/-- per point: the mask flag computed by `get_masked` is "cellOf is none" -/
theorem maskedFlag_eq (R : Region) (hB : R.Built) (p : Rat × Rat) :
    (if (R.col p.1).isNone || (R.row p.2).isNone then true
      else R.grid.masked ((R.row p.2).getD 0) ((R.col p.1).getD 0)) = (R.cellOf p).isNone := by
  unfold Region.cellOf
  cases hc : R.col p.1 with
  | none => simp [Region.cellAt]
  | some i =>
    cases hr : R.row p.2 with
    | none => simp [Region.cellAt]
    | some j =>
      simp only [Option.isNone_some, Bool.or_self, Bool.false_eq_true, if_false, Option.getD_some]
      by_cases hm : R.grid.masked j i = true
      · simp [Region.cellAt, hm]
      · have hm' : R.grid.masked j i = false := by simpa using hm
        have ha : activeAt R.cells i j := by
          rw [hB] at hm'; exact (masked_build_eq_false_iff _ _ _).mp hm'
        obtain ⟨k, hk⟩ := lastAt_isSome_of_active ha
        have : R.cellAt (some i) (some j) = some k := (cellAt_eq_some_iff R hB i j k).mpr ⟨ha, hk⟩
        simp [this, hm']

theorem getMasked_eq (R : Region) (hB : R.Built) (pts : List (Rat × Rat)) :
    R.getMasked pts = pts.map (fun p => (R.cellOf p).isNone) := by
  unfold Region.getMasked Region.lookups
  rw [List.map_map]
  apply List.map_congr_left
  intro p _
  exact maskedFlag_eq R hB p

theorem filter_zip_map {α} (f : α → Bool) : ∀ l : List α,
    ((l.zip (l.map f)).filter (fun pm => !pm.2)).map (·.1) = l.filter (fun p => !f p)
  | [] => rfl
  | a :: l => by
    simp only [List.map_cons, List.zip_cons_cons, List.filter_cons]
    cases f a <;> simp [filter_zip_map f l]

theorem filterSpatial_eq (R : Region) (hB : R.Built) (pts : List (Rat × Rat)) :
    R.filterSpatial pts = pts.filter (fun p => (R.cellOf p).isSome) := by
  unfold Region.filterSpatial
  rw [getMasked_eq R hB, filter_zip_map]
  congr 1
  funext p
  cases R.cellOf p <;> rfl

theorem getIndexOf_eq (R : Region) (hB : R.Built) (pts : List (Rat × Rat)) :
    R.getIndexOf pts = if pts.all (fun p => (R.cellOf p).isSome) then .ok (pts.map fun p => (R.cellOf p).getD 0)
      else .error .outside := by
  unfold Region.getIndexOf Region.lookups
  simp only [List.any_map, List.map_map]
  by_cases hall : pts.all (fun p => (R.cellOf p).isSome) = true
  · rw [if_pos hall]
    rw [List.all_eq_true] at hall
    have h1 : (pts.any ((fun q : Option Nat × Option Nat => q.1.isNone || q.2.isNone) ∘ fun p => (R.col p.1, R.row p.2))) = false := by
      rw [List.any_eq_false]
      intro p hp
      have := hall p hp
      have hm := maskedFlag_eq R hB p
      cases hcell : R.cellOf p with
      | none => simp [hcell] at this
      | some k =>
        rw [hcell] at hm
        by_cases hcond : ((R.col p.1).isNone || (R.row p.2).isNone) = true
        · simp [hcond] at hm
        · simpa using hcond
    have h2 : (pts.any ((fun q : Option Nat × Option Nat => R.grid.masked (q.2.getD 0) (q.1.getD 0)) ∘ fun p => (R.col p.1, R.row p.2))) = false := by
      rw [List.any_eq_false]
      intro p hp
      have := hall p hp
      have hm := maskedFlag_eq R hB p
      cases hcell : R.cellOf p with
      | none => simp [hcell] at this
      | some k =>
        rw [hcell] at hm
        by_cases hcond : ((R.col p.1).isNone || (R.row p.2).isNone) = true
        · simp [hcond] at hm
        · simp only [hcond] at hm
          simpa using hm
    rw [h1, h2]
    simp only [Bool.false_eq_true, if_false]
    congr 1
    apply List.map_congr_left
    intro p hp
    have := hall p hp
    simp only [Function.comp]
    unfold Region.cellOf at this ⊢
    cases hc : R.col p.1 with
    | none => simp [hc, Region.cellAt] at this
    | some i =>
      cases hr : R.row p.2 with
      | none => simp [hc, hr, Region.cellAt] at this
      | some j =>
        rw [hc, hr] at this
        simp only [Region.cellAt, Option.getD_some] at this ⊢
        by_cases hm : R.grid.masked j i = true
        · simp [hm] at this
        · simp [hm]
  · rw [if_neg hall]
    have : ∃ p ∈ pts, R.cellOf p = none := by
      by_contra hcon
      apply hall
      rw [List.all_eq_true]
      intro p hp
      cases hcell : R.cellOf p with
      | none => exact absurd ⟨p, hp, hcell⟩ hcon
      | some k => rfl
    obtain ⟨p, hp, hcell⟩ := this
    have hm := maskedFlag_eq R hB p
    rw [hcell] at hm
    by_cases h1 : (pts.any ((fun q : Option Nat × Option Nat => q.1.isNone || q.2.isNone) ∘ fun p => (R.col p.1, R.row p.2))) = true
    · simp [h1]
    · have h2 : (pts.any ((fun q : Option Nat × Option Nat => R.grid.masked (q.2.getD 0) (q.1.getD 0)) ∘ fun p => (R.col p.1, R.row p.2))) = true := by
        rw [List.any_eq_true]
        refine ⟨p, hp, ?_⟩
        have h1' : ¬ (((R.col p.1).isNone || (R.row p.2).isNone) = true) := by
          intro hc
          apply h1
          rw [List.any_eq_true]
          exact ⟨p, hp, by simpa using hc⟩
        simp only [h1'] at hm
        simpa using hm
      simp [h1, h2]


/-! ### `numpy.add.at` -/

theorem getElem?_addAt : ∀ (idx : List Nat) (out : List Nat) (k : Nat),
    (Region.addAt out idx)[k]? = (out[k]?).map (· + idx.count k)
  | [], out, k => by simp [Region.addAt]
  | i :: idx, out, k => by
    have ih := getElem?_addAt idx (out.modify i (· + 1)) k
    unfold Region.addAt at ih ⊢
    simp only [List.foldl_cons]
    rw [ih, List.getElem?_modify, List.count_cons]
    cases out[k]? with
    | none => simp
    | some v =>
      by_cases h : i = k
      · subst h; simp; omega
      · have : (i == k) = false := by simpa using h
        simp [h, this]

theorem length_addAt : ∀ (idx : List Nat) (out : List Nat), (Region.addAt out idx).length = out.length
  | [], out => by simp [Region.addAt]
  | i :: idx, out => by
    have ih := length_addAt idx (out.modify i (· + 1))
    unfold Region.addAt at ih ⊢
    simp only [List.foldl_cons]
    rw [ih, List.length_modify]

/-- counts of a catalog: entry k is the number of events whose cell is k -/
theorem spatialCounts_eq (R : Region) (hB : R.Built) (pts : List (Rat × Rat)) :
    R.spatialCounts pts =
      if pts.all (fun p => (R.cellOf p).isSome) then
        .ok ((List.range R.cells.length).map fun k => pts.countP (fun p => R.cellOf p == some k))
      else .error .outside := by
  unfold Region.spatialCounts
  by_cases he : pts.isEmpty = true
  · have : pts = [] := List.isEmpty_iff.mp he
    subst this
    simp
  · simp only [he, Bool.false_eq_true, if_false]
    rw [getIndexOf_eq R hB]
    by_cases hall : pts.all (fun p => (R.cellOf p).isSome) = true
    · simp only [hall, if_true]
      congr 1
      apply List.ext_getElem?
      intro k
      rw [getElem?_addAt]
      by_cases hk : k < R.cells.length
      · simp only [List.getElem?_replicate, hk, if_true, Option.map_some, Nat.zero_add, List.getElem?_map,
          List.getElem?_range hk]
        congr 1
        rw [List.count_eq_countP, List.countP_map]
        rw [List.all_eq_true] at hall
        apply List.countP_congr
        intro p hp
        have := hall p hp
        cases hc : R.cellOf p with
        | none => simp [hc] at this
        | some m => simp [hc]
      · simp [hk]
    · simp [hall]

/-! ### get_cartesian -/

theorem getCartesian_entry {α} (R : Region) (data : List α) (r c : Nat) (hr : r < R.ys.length) (hc : c < R.xs.length) :
    ((R.getCartesian data)[r]?.bind (·[c]?)) = some ((R.cellAt (some c) (some r)).bind (fun k => data[k]?)) := by
  unfold Region.getCartesian Region.cellAt
  simp only [List.getElem?_map, List.getElem?_range hr, List.getElem?_range hc, Option.map_some, Option.bind_some]
  by_cases hm : R.grid.masked r c = true <;> simp [hm]


/-! ### polygon order -/

def SameSpot (c c' : Cell) : Prop := c.i = c'.i ∧ c.j = c'.j

theorem lastAt_bind_eq_some_iff (cells : List Cell) (hD : cells.Pairwise (fun c c' => ¬ SameSpot c c'))
    (i j : Nat) (c : Cell) :
    (lastAt cells i j).bind (fun k => cells[k]?) = some c ↔ c ∈ cells ∧ c.i = i ∧ c.j = j := by
  constructor
  · intro h
    cases hl : lastAt cells i j with
    | none => rw [hl] at h; simp at h
    | some k =>
      rw [hl] at h
      simp only [Option.bind_some] at h
      obtain ⟨⟨c0, h1, h2, h3⟩, _⟩ := (lastAt_eq_some_iff cells i j k).mp hl
      rw [h] at h1
      have : c = c0 := Option.some.inj h1
      subst this
      exact ⟨List.mem_of_getElem? h, h2, h3⟩
  · rintro ⟨hmem, hi, hj⟩
    obtain ⟨k, hk, hkc⟩ := List.getElem_of_mem hmem
    have hget : cells[k]? = some c := by rw [List.getElem?_eq_getElem hk, hkc]
    have : lastAt cells i j = some k := by
      apply (lastAt_eq_some_iff cells i j k).mpr
      refine ⟨⟨c, hget, hi, hj⟩, ?_⟩
      intro k' c' hlt hget' hsame
      have hk' := (List.getElem?_eq_some_iff.mp hget').1
      have := List.pairwise_iff_getElem.mp hD k k' hk hk' hlt
      rw [hkc, (List.getElem?_eq_some_iff.mp hget').2] at this
      exact this ⟨by rw [hi, hsame.1], by rw [hj, hsame.2]⟩
    rw [this]; simpa using hget

theorem activeAt_perm {cells cells' : List Cell} (hp : cells.Perm cells') (i j : Nat) :
    activeAt cells i j ↔ activeAt cells' i j := by
  unfold activeAt
  constructor
  · rintro ⟨c, hc, h⟩; exact ⟨c, hp.mem_iff.mp hc, h⟩
  · rintro ⟨c, hc, h⟩; exact ⟨c, hp.mem_iff.mpr hc, h⟩

/-- the polygon (not its index) found at a bounding-box position does not depend on the order of the polygon list -/
theorem cellAt_perm (xs ys : List Rat) (xt yt : Rat) (cells cells' : List Cell) (hp : cells.Perm cells')
    (hD : cells.Pairwise (fun c c' => ¬ SameSpot c c')) (i j : Option Nat) :
    ((Region.new xs ys xt yt cells).cellAt i j).bind (fun k => cells[k]?) =
      ((Region.new xs ys xt yt cells').cellAt i j).bind (fun k => cells'[k]?) := by
  have hD' : cells'.Pairwise (fun c c' => ¬ SameSpot c c') :=
    (hp.pairwise_iff (fun {a b} h hab => h ⟨hab.1.symm, hab.2.symm⟩)).mp hD
  cases i with
  | none => simp [Region.cellAt]
  | some i =>
    cases j with
    | none => simp [Region.cellAt]
    | some j =>
      have hB : (Region.new xs ys xt yt cells).Built := rfl
      have hB' : (Region.new xs ys xt yt cells').Built := rfl
      apply Option.ext
      intro c
      have key : ∀ (cs : List Cell) (R : Region), R.Built → R.cells = cs →
          cs.Pairwise (fun c c' => ¬ SameSpot c c') →
          ((R.cellAt (some i) (some j)).bind (fun k => cs[k]?) = some c ↔
            activeAt cs i j ∧ c ∈ cs ∧ c.i = i ∧ c.j = j) := by
        intro cs R hb hcs hd
        subst hcs
        by_cases ha : activeAt R.cells i j
        · obtain ⟨k, hk⟩ := lastAt_isSome_of_active ha
          have : R.cellAt (some i) (some j) = some k := (cellAt_eq_some_iff R hb i j k).mpr ⟨ha, hk⟩
          rw [this, ← hk, lastAt_bind_eq_some_iff R.cells hd i j c]
          simp [ha]
        · have : R.cellAt (some i) (some j) = none := (cellAt_eq_none_iff R hb i j).mpr ha
          rw [this]; simp [ha]
      rw [key cells _ hB rfl hD, key cells' _ hB' rfl hD', activeAt_perm hp i j, hp.mem_iff]

/-! ### the round-off band -/

theorem binE_mem_binAllowed (edges : List Rat) (top x : Rat) : binE edges top x ∈ binAllowed edges top x := by
  unfold binAllowed
  simp only
  split
  · split
    · split <;> simp
    · simp
  · simp

theorem binAllowed_exact (edges : List Rat) (top x : Rat)
    (h : ∀ b, boundary edges top (cnt edges x) = some b → x < b → band (edges.headD 0) x (cnt edges x) < b - x) :
    binAllowed edges top x = [binE edges top x] := by
  unfold binAllowed
  simp only
  split
  · rename_i b hb
    have := h b hb
    split
    · rename_i hcond
      exact absurd (this hcond.1) (not_lt.mpr hcond.2)
    · rfl
  · rfl


end Region
