import PycsepVerif.Model.BinaryBrier
import PycsepVerif.Proofs.PoissonLL

/-! Helper lemmas for C16: the model's terms at ℝ in closed form. -/
namespace BinaryBrier
open RealOps

/-- over ℝ an active bin with a positive rate scores `log(1 − e^{−λ})`: the masked branches are dead -/
theorem binTerm_active_pos (r : ℝ) (h : 0 < r) : binTerm r true = Real.log (1 - Real.exp (-r)) := by
  unfold binTerm
  have h1 : ¬ (r ≤ 0) := not_le.mpr h
  have h2 : ¬ (1 - Real.exp (-r) ≤ 0) := by
    have : Real.exp (-r) < 1 := by rw [Real.exp_lt_one_iff]; linarith
    linarith
  simp [h1, h2]

/-- an active bin with a non-positive rate scores +1 (the data numpy.ma leaves in the masked slot) -/
theorem binTerm_active_nonpos (r : ℝ) (h : r ≤ 0) : binTerm r true = 1 := by
  unfold binTerm; simp [h]

theorem binTerm_inactive (r : ℝ) : binTerm r false = -r := by
  unfold binTerm; simp

theorem binaryLL_real (bins : List (ℝ × ℕ)) :
    binaryLL bins = (bins.map (fun p => binTerm p.1 (decide (0 < p.2)))).sum := by
  unfold binaryLL; rw [real_sum]

theorem brierCell_real (r : ℝ) (a : Bool) :
    brierCell r a = (1 - Real.exp (-r) - (if a then 1 else 0)) ^ 2 := by
  unfold brierCell poisCdf0
  cases a <;> simp <;> ring

theorem foldl_div (dims : List ℕ) (x : ℝ) :
    dims.foldl (fun b n => RealOps.div b (RealOps.ofNat n)) x = x / ((dims.prod : ℕ) : ℝ) := by
  induction dims generalizing x with
  | nil => simp
  | cons d dims ih =>
    rw [List.foldl_cons, ih, List.prod_cons, Nat.cast_mul, real_div, real_ofNat, div_div]

theorem sum_le_length (bins : List (ℝ × ℕ)) (f : ℝ × ℕ → ℝ) (h : ∀ p ∈ bins, f p ≤ 1) :
    (bins.map f).sum ≤ (bins.length : ℝ) := by
  induction bins with
  | nil => simp
  | cons q bins ih =>
    have h1 := h q List.mem_cons_self
    have := ih (fun p hp => h p (List.mem_cons_of_mem _ hp))
    simp only [List.map_cons, List.sum_cons, List.length_cons, Nat.cast_add, Nat.cast_one]
    linarith

end BinaryBrier
