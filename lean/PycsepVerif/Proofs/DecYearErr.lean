import PycsepVerif.Proofs.DecYearQ
import PycsepVerif.Proofs.TimeStr

/-!
# Rounding error of the ten float operations of `decimal_year`

Forward error analysis with `Soft64.fl64_err_pow2` (|x| < 2^k ⇒ |fl64 x − x| ≤ 2^(k−54)), one step per operation.
-/
namespace Time
open Soft64

theorem p2_0 : pow2 0 = 1 := by decide +kernel
theorem p2_1 : pow2 1 = 2 := by decide +kernel
theorem p2_6 : pow2 6 = 64 := by decide +kernel
theorem p2_9 : pow2 9 = 512 := by decide +kernel
theorem p2_12 : pow2 12 = 4096 := by decide +kernel
theorem p2_m19 : pow2 (-19) = 1 / 524288 := by decide +kernel
theorem p2_m54 : pow2 (0 - 54) = 1 / 18014398509481984 := by decide +kernel
theorem p2_m53 : pow2 (1 - 54) = 1 / 9007199254740992 := by decide +kernel
theorem p2_m48 : pow2 (6 - 54) = 1 / 281474976710656 := by decide +kernel
theorem p2_m45 : pow2 (9 - 54) = 1 / 35184372088832 := by decide +kernel
theorem p2_m42 : pow2 (12 - 54) = 1 / 4398046511104 := by decide +kernel
theorem p2_m73 : pow2 (-19 - 54) = 1 / 9444732965739290427392 := by decide +kernel

/-- one rounding step: `|x| < 2^k` given as two-sided bounds -/
theorem fl_step (x : ℚ) (k : Int) (B e : ℚ) (hB : pow2 k = B) (he : pow2 (k - 54) = e) (hk : -1021 ≤ k)
    (h0 : -B < x) (h1 : x < B) : -e ≤ fl64 x - x ∧ fl64 x - x ≤ e := by
  have habs : |x| < pow2 k := by rw [hB, abs_lt]; exact ⟨h0, h1⟩
  have := fl64_err_pow2 x k habs hk
  rw [he, abs_le] at this
  exact this

theorem chain_err (a0 h mi s u yr L : ℚ) (ha0 : 0 ≤ a0) (ha1 : a0 ≤ 365) (hh0 : 0 ≤ h) (hh1 : h ≤ 23)
    (hm0 : 0 ≤ mi) (hm1 : mi ≤ 59) (hs0 : 0 ≤ s) (hs1 : s ≤ 59) (hu0 : 0 ≤ u) (hu1 : u ≤ 999999)
    (hy0 : 1600 ≤ yr) (hy1 : yr ≤ 2401) (hL : L = 365 ∨ L = 366) :
    |fadd yr (fdiv (fadd (fadd (fadd a0 (fdiv h 24)) (fdiv mi 1440))
        (fdiv (fadd s (fmul u (fl64 (1 / 1000000)))) 86400)) L)
      - (yr + (a0 + h / 24 + mi / 1440 + (s + u / 1000000) / 86400) / L)| ≤ 1 / 1000000000000 := by
  unfold fadd fdiv fmul
  -- 1: hour / 24
  obtain ⟨l1, u1⟩ := fl_step (h / 24) 0 1 _ p2_0 p2_m54 (by norm_num) (by linarith) (by linarith)
  set t1 := fl64 (h / 24)
  -- 2: a0 + t1
  obtain ⟨l2, u2⟩ := fl_step (a0 + t1) 9 512 _ p2_9 p2_m45 (by norm_num) (by linarith) (by linarith)
  set t2 := fl64 (a0 + t1)
  -- 3: minute / 1440
  obtain ⟨l3, u3⟩ := fl_step (mi / 1440) 0 1 _ p2_0 p2_m54 (by norm_num) (by linarith) (by linarith)
  set t3 := fl64 (mi / 1440)
  -- 4: t2 + t3
  obtain ⟨l4, u4⟩ := fl_step (t2 + t3) 9 512 _ p2_9 p2_m45 (by norm_num) (by linarith) (by linarith)
  set t4 := fl64 (t2 + t3)
  -- the constant 1e-6
  obtain ⟨lc, uc⟩ := fl_step (1 / 1000000) (-19) (1 / 524288) _ p2_m19 p2_m73 (by norm_num) (by norm_num) (by norm_num)
  set c := fl64 (1 / 1000000)
  -- 5: microsecond * 1e-6   (u * c is within u * 2^-73 of u / 10^6)
  have hc0 : u * c - u / 1000000 ≤ 1 / 9007199254740992 := by
    have : u * (c - 1 / 1000000) ≤ 999999 * (1 / 9444732965739290427392) := by
      calc u * (c - 1 / 1000000) ≤ u * (1 / 9444732965739290427392) := by
            apply mul_le_mul_of_nonneg_left uc hu0
        _ ≤ 999999 * (1 / 9444732965739290427392) := by
            apply mul_le_mul_of_nonneg_right hu1 (by norm_num)
    have e : u * c - u / 1000000 = u * (c - 1 / 1000000) := by ring
    rw [e]; linarith
  have hc1 : -(1 / 9007199254740992) ≤ u * c - u / 1000000 := by
    have : u * (1 / 1000000 - c) ≤ 999999 * (1 / 9444732965739290427392) := by
      calc u * (1 / 1000000 - c) ≤ u * (1 / 9444732965739290427392) := by
            apply mul_le_mul_of_nonneg_left (by linarith) hu0
        _ ≤ 999999 * (1 / 9444732965739290427392) := by
            apply mul_le_mul_of_nonneg_right hu1 (by norm_num)
    have e : u * c - u / 1000000 = -(u * (1 / 1000000 - c)) := by ring
    rw [e]; linarith
  obtain ⟨l5, u5⟩ := fl_step (u * c) 0 1 _ p2_0 p2_m54 (by norm_num) (by linarith) (by linarith)
  set t5 := fl64 (u * c)
  -- 6: second + t5
  obtain ⟨l6, u6⟩ := fl_step (s + t5) 6 64 _ p2_6 p2_m48 (by norm_num) (by linarith) (by linarith)
  set t6 := fl64 (s + t5)
  -- 7: t6 / 86400
  obtain ⟨l7, u7⟩ := fl_step (t6 / 86400) 0 1 _ p2_0 p2_m54 (by norm_num) (by linarith) (by linarith)
  set t7 := fl64 (t6 / 86400)
  -- 8: t4 + t7
  obtain ⟨l8, u8⟩ := fl_step (t4 + t7) 9 512 _ p2_9 p2_m45 (by norm_num) (by linarith) (by linarith)
  set t8 := fl64 (t4 + t7)
  -- 9, 10: / L and year +
  rcases hL with rfl | rfl
  · obtain ⟨l9, u9⟩ := fl_step (t8 / 365) 1 2 _ p2_1 p2_m53 (by norm_num) (by linarith) (by linarith)
    set t9 := fl64 (t8 / 365)
    obtain ⟨l10, u10⟩ := fl_step (yr + t9) 12 4096 _ p2_12 p2_m42 (by norm_num) (by linarith) (by linarith)
    rw [abs_le]; constructor <;> linarith
  · obtain ⟨l9, u9⟩ := fl_step (t8 / 366) 1 2 _ p2_1 p2_m53 (by norm_num) (by linarith) (by linarith)
    set t9 := fl64 (t8 / 366)
    obtain ⟨l10, u10⟩ := fl_step (yr + t9) 12 4096 _ p2_12 p2_m42 (by norm_num) (by linarith) (by linarith)
    rw [abs_le]; constructor <;> linarith

/-- **float error of `decimal_year`**: for every datetime with |us| < 2^33·10^6 (1697 … 2242) the computed double is
    within 10^-12 years (32 µs) of the exact value of the documented formula. -/
theorem decimalYear_err (us : Int) (h0 : -8589934592000000 < us) (h1 : us < 8589934592000000) :
    |decimalYear us - decimalYearExact us| ≤ 1 / 1000000000000 := by
  have hv := validFields_fields us h0 h1
  have hz0 : -99422 ≤ us / 86400000000 := by omega
  have hz1 : us / 86400000000 ≤ 99422 := by omega
  have hy := civil_year_range _ hz0 hz1
  have hyear : (fields us).year = (civilFromDays (us / 86400000000)).1 := by simp [fields, usPerDay]
  rw [← hyear] at hy
  simp only [validFields, Bool.and_eq_true, decide_eq_true_eq] at hv
  obtain ⟨⟨⟨⟨⟨⟨⟨⟨⟨⟨_, _⟩, hd⟩, hh0⟩, hh1⟩, hm0⟩, hm1⟩, hs0⟩, hs1⟩, hu0⟩, hu1⟩ := hv
  obtain ⟨hn0, hn1⟩ := dayOfYear_lt _ _ _ hd
  have hl := yearLen_cases (fields us).year
  unfold decimalYear decimalYearExact
  simp only
  apply chain_err
  · exact_mod_cast (by omega : (0 : Int) ≤ daysBeforeMonth (fields us).year (fields us).month + ((fields us).day - 1))
  · exact_mod_cast (by omega : daysBeforeMonth (fields us).year (fields us).month + ((fields us).day - 1) ≤ (365 : Int))
  · exact_mod_cast hh0
  · exact_mod_cast (by omega : (fields us).hour ≤ 23)
  · exact_mod_cast hm0
  · exact_mod_cast (by omega : (fields us).minute ≤ 59)
  · exact_mod_cast hs0
  · exact_mod_cast (by omega : (fields us).second ≤ 59)
  · exact_mod_cast hu0
  · exact_mod_cast (by omega : (fields us).micro ≤ 999999)
  · exact_mod_cast hy.1
  · exact_mod_cast hy.2
  · split <;> simp

end Time
