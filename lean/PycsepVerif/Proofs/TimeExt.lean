import PycsepVerif.Model.TimeExt
import PycsepVerif.Proofs.Time
import PycsepVerif.Proofs.TimeStr

/-! helper lemmas for the wave-4 extension of C15 (Windows branch, full datetime range, small conversions) -/
namespace Time
open Soft64

/-! ### the fraction digits of the Windows branch: a finite table (1000 entries) -/

/-- what `int(frac)` evaluates to: the three-place fraction with its trailing zeros REMOVED (not padded) -/
def strippedFrac (f : Nat) : Nat := if f % 100 = 0 then f / 100 else if f % 10 = 0 then f / 10 else f

theorem nt_frac_table : ∀ f : Fin 1000, intOfDigits (reprFrac f.val) = strippedFrac f.val := by decide +kernel

theorem intOfDigits_reprFrac (f : Nat) (h : f < 1000) : intOfDigits (reprFrac f) = strippedFrac f :=
  nt_frac_table ⟨f, h⟩

/-! ### the sign test `epoch_time < 0` on the float is the sign of the integer -/

theorem fl64_m1024 : fl64 (-(1 / 1024)) = -(1 / 1024) := by decide +kernel

theorem msToSecF_neg_iff (ms : Int) : msToSecF ms < 0 ↔ ms < 0 := by
  unfold msToSecF fdiv
  constructor
  · intro h
    by_contra hn
    have h0 : (0 : ℚ) ≤ (ms : ℚ) / 1000 := by
      apply div_nonneg _ (by norm_num)
      exact_mod_cast (not_lt.mp hn)
    have := fl64_nonneg h0
    linarith
  · intro h
    have h1 : (ms : ℚ) / 1000 ≤ -(1 / 1024) := by
      have : (ms : ℚ) ≤ -1 := by exact_mod_cast (by omega : ms ≤ -1)
      rw [div_le_iff₀ (by norm_num)]
      linarith
    have := fl64_mono h1
    rw [fl64_m1024] at this
    linarith

/-- all three carry branches of `fromTimestamp` are the same integer: `timedelta(seconds=t)` added to the epoch -/
theorem fromTimestamp_eq_timedeltaSeconds (t : ℚ) : fromTimestamp t = timedeltaSeconds t := by
  unfold fromTimestamp timedeltaSeconds
  simp only [usPerSec]
  split
  · ring
  · split <;> ring

/-! ### full datetime range 0001-01-01 … 9999-12-31 -/

theorem pow2_38 : pow2 38 = 274877906944 := by decide +kernel
theorem pow2_m16 : pow2 (38 - 54) = 1 / 65536 := by decide +kernel

/-- the float quotient `ms / 1000` is within 2^-16 s (15.3 µs) of the exact quotient for |ms| < 2^38 · 1000 -/
theorem msToSecF_err_full (ms : Int) (h : |ms| < 274877906944000) :
    |msToSecF ms - (ms : ℚ) / 1000| ≤ 1 / 65536 := by
  unfold msToSecF fdiv
  have hb : |(ms : ℚ) / 1000| < pow2 38 := by
    rw [pow2_38, abs_div, abs_of_pos (by norm_num : (0 : ℚ) < 1000), div_lt_iff₀ (by norm_num)]
    have : ((|ms| : Int) : ℚ) < ((274877906944000 : Int) : ℚ) := by exact_mod_cast h
    push_cast at this
    linarith
  have := fl64_err_pow2 ((ms : ℚ) / 1000) 38 hb (by norm_num)
  rwa [pow2_m16] at this

/-- `fromtimestamp` of any float within 2^-16 s of `K / 10^6` is at most 15 µs away from `K` -/
theorem fromTimestamp_near (t : ℚ) (K : Int) (h : |t - (K : ℚ) / 1000000| ≤ 1 / 65536) :
    |fromTimestamp t - K| ≤ 15 := by
  rw [fromTimestamp_eq_timedeltaSeconds]
  show |truncR t * usPerSec + roundHalfEven (fmul (t - ((truncR t : Int) : ℚ)) 1000000) - K| ≤ 15
  have hfp := truncR_frac t
  set ip := truncR t with hip
  have hprod : |(t - (ip : ℚ)) * 1000000| < pow2 20 := by
    rw [pow2_20, abs_mul, abs_of_pos (by norm_num : (0 : ℚ) < 1000000)]
    have : |t - (ip : ℚ)| * 1000000 < 1 * 1000000 := by
      apply mul_lt_mul_of_pos_right hfp; norm_num
    linarith
  have herr := fl64_err_pow2 ((t - (ip : ℚ)) * 1000000) 20 hprod (by norm_num)
  rw [pow2_m34] at herr
  have hr := rhe_abs_le (fmul (t - (ip : ℚ)) 1000000)
  set r := roundHalfEven (fmul (t - (ip : ℚ)) 1000000) with hrdef
  unfold fmul at hr
  rw [abs_le] at h herr hr
  have hq : |((ip * usPerSec + r - K : Int) : ℚ)| < 16 := by
    simp only [usPerSec]
    push_cast
    rw [abs_lt]
    constructor <;> linarith [h.1, h.2, herr.1, herr.2, hr.1, hr.2]
  have hz : |ip * usPerSec + r - K| < 16 := by exact_mod_cast hq
  rw [abs_lt] at hz
  rw [abs_le]
  constructor <;> omega

/-- the year of every day of datetime's range (0001-01-01 = day −719162 … 9999-12-31 = day 2932896) -/
theorem civil_year_full (z : Int) (h0 : -719162 ≤ z) (h1 : z ≤ 2932896) :
    1 ≤ (civilFromDays z).1 ∧ (civilFromDays z).1 ≤ 9999 := by
  have hr0 : 0 ≤ (z + 719468) - (z + 719468) / 146097 * 146097 := by omega
  have hr1 : (z + 719468) - (z + 719468) / 146097 * 146097 < 146097 := by omega
  obtain ⟨f1, f2, f3, f4, f5, _, f7⟩ := era_fact _ hr0 hr1
  have hv := validDate_day_le (civil_valid z)
  simp only [civilFromDays] at hv ⊢
  obtain ⟨_, _, _, hd31⟩ := hv
  generalize eraCivil (z + 719468 - (z + 719468) / 146097 * 146097) = e at *
  by_cases hm : e.2.1 ≤ 2
  · have hm' : ¬ (e.2.1 > 2) := by omega
    simp only [hm, hm', if_true, if_false] at f7 ⊢
    constructor <;> omega
  · have hm' : e.2.1 > 2 := by omega
    simp only [hm, hm', if_true, if_false] at f7 ⊢
    constructor <;> omega

end Time
