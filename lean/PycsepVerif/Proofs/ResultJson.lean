import PycsepVerif.Model.ResultJson

/-! Helper lemmas for C18: structural induction over the mutually defined value / list types. -/
namespace ResultJson

mutual
  /-- write-then-load of a safe value is its normal form -/
  theorem roundTrip_safe_aux : ∀ (v : PyVal), Safe v → fromJson (toJson v) = norm v
    | .pyInt _, _ => rfl
    | .pyBool _, _ => rfl
    | .pyFloat _, _ => rfl
    | .npFloat64 _, _ => rfl
    | .str _, _ => rfl
    | .none, _ => rfl
    | .list xs, h => by
        simp only [toJson, fromJson, norm]; rw [roundTrip_safe_auxL xs (by simpa [Safe] using h)]
    | .tuple xs, h => by
        simp only [toJson, fromJson, norm]; rw [roundTrip_safe_auxL xs (by simpa [Safe] using h)]
    | .ndarray xs, h => by
        simp only [toJson, fromJson, norm]; rw [roundTrip_safe_auxL xs (by simpa [Safe] using h)]
    | .npInt64 _, _ => rfl
    | .npBool _, _ => rfl
    | .npFloat32 _, _ => rfl
    | .other _, h => by simp [Safe] at h
  theorem roundTrip_safe_auxL : ∀ (xs : PyList), SafeL xs → fromJsonL (toJsonL xs) = normL xs
    | .nil, _ => rfl
    | .cons v vs, h => by
        have h' : Safe v ∧ SafeL vs := by simpa [SafeL] using h
        simp only [toJsonL, fromJsonL, normL]
        rw [roundTrip_safe_aux v h'.1, roundTrip_safe_auxL vs h'.2]
end

mutual
  theorem norm_idem : ∀ (v : PyVal), norm (norm v) = norm v
    | .pyInt _ => rfl
    | .pyBool _ => rfl
    | .pyFloat _ => rfl
    | .npFloat64 _ => rfl
    | .str _ => rfl
    | .none => rfl
    | .npInt64 _ => rfl
    | .npBool _ => rfl
    | .npFloat32 _ => rfl
    | .other _ => rfl
    | .list xs => by simp only [norm]; rw [norm_idemL xs]
    | .tuple xs => by simp only [norm]; rw [norm_idemL xs]
    | .ndarray xs => by simp only [norm]; rw [norm_idemL xs]
  theorem norm_idemL : ∀ (xs : PyList), normL (normL xs) = normL xs
    | .nil => rfl
    | .cons v vs => by simp only [normL]; rw [norm_idem v, norm_idemL vs]
end

mutual
  theorem safeB_iff : ∀ (v : PyVal), safeB v = true ↔ Safe v
    | .pyInt _ => by simp [safeB, Safe]
    | .pyBool _ => by simp [safeB, Safe]
    | .pyFloat _ => by simp [safeB, Safe]
    | .npFloat64 _ => by simp [safeB, Safe]
    | .str _ => by simp [safeB, Safe]
    | .none => by simp [safeB, Safe]
    | .npInt64 _ => by simp [safeB, Safe]
    | .npBool _ => by simp [safeB, Safe]
    | .npFloat32 _ => by simp [safeB, Safe]
    | .other _ => by simp [safeB, Safe]
    | .list xs => by simp only [safeB, Safe]; exact safeLB_iff xs
    | .tuple xs => by simp only [safeB, Safe]; exact safeLB_iff xs
    | .ndarray xs => by simp only [safeB, Safe]; exact safeLB_iff xs
  theorem safeLB_iff : ∀ (xs : PyList), safeLB xs = true ↔ SafeL xs
    | .nil => by simp [safeLB, SafeL]
    | .cons v vs => by simp only [safeLB, SafeL, Bool.and_eq_true]; rw [safeB_iff v, safeLB_iff vs]
end

/-- the value to_dict hands to json for `test_distribution` is safe when the field is a safe container -/
theorem tdList_safe {v td : PyVal} (h : tdList v = some td) (hs : Safe v) : Safe td := by
  cases v <;> simp [tdList] at h <;> subst h <;> simp_all [Safe]
  -- a string: list of one-character strings
  rename_i s
  generalize s.toList = cs
  induction cs with
  | nil => simp [PyList.ofList, SafeL]
  | cons c cs ih => simp [PyList.ofList, SafeL, Safe, ih]

mutual
  /-- plain Python data: what json.load can return -/
  def Plain : PyVal → Prop
    | .pyInt _ | .pyBool _ | .pyFloat _ | .str _ | .none => True
    | .list xs => PlainL xs
    | .npFloat64 _ | .npInt64 _ | .npBool _ | .npFloat32 _ | .other _ | .tuple _ | .ndarray _ => False
  def PlainL : PyList → Prop
    | .nil => True
    | .cons v vs => Plain v ∧ PlainL vs
end

mutual
  theorem fromJson_plain : ∀ (j : Json), Plain (fromJson j)
    | .null => by simp [fromJson, Plain]
    | .bool _ => by simp [fromJson, Plain]
    | .int _ => by simp [fromJson, Plain]
    | .float _ => by simp [fromJson, Plain]
    | .str _ => by simp [fromJson, Plain]
    | .arr xs => by simp only [fromJson, Plain]; exact fromJsonL_plain xs
  theorem fromJsonL_plain : ∀ (xs : JList), PlainL (fromJsonL xs)
    | .nil => by simp [fromJsonL, PlainL]
    | .cons v vs => by simp only [fromJsonL, PlainL]; exact ⟨fromJson_plain v, fromJsonL_plain vs⟩
end

mutual
  /-- plain data is a fixed point of write-then-load (whatever it contains) -/
  theorem roundTrip_plain : ∀ (v : PyVal), Plain v → fromJson (toJson v) = v
    | .pyInt _, _ => rfl
    | .pyBool _, _ => rfl
    | .pyFloat _, _ => rfl
    | .str _, _ => rfl
    | .none, _ => rfl
    | .list xs, h => by
        simp only [toJson, fromJson]; rw [roundTrip_plainL xs (by simpa [Plain] using h)]
    | .npFloat64 _, h => by simp [Plain] at h
    | .npInt64 _, h => by simp [Plain] at h
    | .npBool _, h => by simp [Plain] at h
    | .npFloat32 _, h => by simp [Plain] at h
    | .other _, h => by simp [Plain] at h
    | .tuple _, h => by simp [Plain] at h
    | .ndarray _, h => by simp [Plain] at h
  theorem roundTrip_plainL : ∀ (xs : PyList), PlainL xs → fromJsonL (toJsonL xs) = xs
    | .nil, _ => rfl
    | .cons v vs, h => by
        have h' : Plain v ∧ PlainL vs := by simpa [PlainL] using h
        simp only [toJsonL, fromJsonL]
        rw [roundTrip_plain v h'.1, roundTrip_plainL vs h'.2]
end

end ResultJson
