import PycsepVerif.Model.FloatSum
import PycsepVerif.Proofs.Soft64
import Mathlib.Tactic.Linarith
import Mathlib.Tactic.Ring
import Mathlib.Tactic.Positivity
import Mathlib.Tactic.NormNum
import Mathlib.Algebra.Order.BigOperators.Group.List

/-!
  Rounding-error analysis of float summation in an arbitrary bracketing (helpers of Properties/C20_FloatSum.lean).
-/
namespace FloatSum
open Soft64

/-- the unit round-off of binary64 -/
def u : ℚ := pow2 (-53)

theorem u_pos : 0 < u := pow2_pos _

theorem fabs_eq_abs (a : ℚ) : fabs a = |a| := by
  unfold fabs
  split_ifs with h
  · rw [abs_of_neg h]
  · rw [abs_of_nonneg (not_lt.mp h)]

theorem ulpExp_ge' (x : ℚ) : -1074 ≤ ulpExp x := by
  unfold ulpExp
  simp only
  split_ifs <;> omega

theorem pow2_natCast' (d : ℕ) : pow2 (d : ℤ) = ((2 ^ d : ℤ) : ℚ) := by
  rw [pow2_eq_zpow]; push_cast; exact zpow_natCast 2 d

/-- every binary64 value is an integer multiple of the smallest subnormal 2^-1074 -/
theorem isF64_grid {x : ℚ} (hx : IsF64 x) : ∃ m : ℤ, x = (m : ℚ) * pow2 (-1074) := by
  by_cases h0 : x = 0
  · exact ⟨0, by simp [h0]⟩
  · unfold IsF64 at hx
    rw [fl64_eq h0] at hx
    obtain ⟨d, hd⟩ := Int.eq_ofNat_of_zero_le (show 0 ≤ ulpExp x + 1074 by have := ulpExp_ge' x; omega)
    refine ⟨roundHalfEven (x / pow2 (ulpExp x)) * 2 ^ d, ?_⟩
    have : pow2 (ulpExp x) = ((2 ^ d : ℤ) : ℚ) * pow2 (-1074) := by
      rw [← pow2_natCast', ← pow2_add]; congr 1; omega
    calc x = ((roundHalfEven (x / pow2 (ulpExp x)) : ℤ) : ℚ) * pow2 (ulpExp x) := hx.symm
      _ = _ := by rw [this]; push_cast; ring

/-- **one float addition has relative error at most 2^-53** — also in the subnormal range, where the sum of two floats is
    exact (overflow is not modelled) -/
theorem fadd_rel_err {a b : ℚ} (ha : IsF64 a) (hb : IsF64 b) : |fadd a b - (a + b)| ≤ u * |a + b| := by
  unfold fadd
  by_cases hn : pow2 (-1022) ≤ |a + b|
  · exact fl64_rel_err hn
  · obtain ⟨ma, hma⟩ := isF64_grid ha
    obtain ⟨mb, hmb⟩ := isF64_grid hb
    have hs : a + b = ((ma + mb : ℤ) : ℚ) * pow2 (-1074) := by rw [hma, hmb]; push_cast; ring
    have hp : pow2 (-1022) = ((2 ^ 52 : ℤ) : ℚ) * pow2 (-1074) := by
      rw [show (2 ^ 52 : ℤ) = 2 ^ (52 : ℕ) by norm_num, ← pow2_natCast', ← pow2_add]; norm_num
    have hlt : |((ma + mb : ℤ) : ℚ)| < ((2 ^ 52 : ℤ) : ℚ) := by
      have h1 := not_le.mp hn
      rw [hs, abs_mul, abs_of_pos (pow2_pos _), hp] at h1
      exact lt_of_mul_lt_mul_right h1 (le_of_lt (pow2_pos _))
    have hlt' : |ma + mb| < 2 ^ 53 := by
      have : |ma + mb| < 2 ^ 52 := by
        have := hlt; rw [← Int.cast_abs] at this; exact_mod_cast this
      omega
    have hex : IsF64 (a + b) := by rw [hs]; exact isF64_dyadic _ _ hlt' (le_refl _)
    rw [hex, sub_self, abs_zero]
    exact mul_nonneg (le_of_lt u_pos) (abs_nonneg _)

theorem absSum_append (xs ys : List ℚ) : absSum (xs ++ ys) = absSum xs + absSum ys := by
  simp [absSum]

theorem absSum_nonneg (xs : List ℚ) : 0 ≤ absSum xs := by
  unfold absSum
  apply List.sum_nonneg
  intro x hx
  obtain ⟨y, _, rfl⟩ := List.mem_map.mp hx
  rw [fabs_eq_abs]; exact abs_nonneg _

theorem abs_sum_le_absSum (xs : List ℚ) : |xs.sum| ≤ absSum xs := by
  induction xs with
  | nil => simp [absSum]
  | cons a t ih =>
    simp only [List.sum_cons, absSum, List.map_cons, fabs_eq_abs]
    exact le_trans (abs_add_le _ _) (add_le_add le_rfl (by simpa [absSum, fabs_eq_abs] using ih))

theorem absSum_perm {xs ys : List ℚ} (h : xs.Perm ys) : absSum xs = absSum ys := by
  unfold absSum; exact (h.map _).sum_eq

namespace STree

/-- all terms are binary64 values -/
def AllF64 (t : STree) : Prop := ∀ x ∈ t.leaves, IsF64 x

theorem evalF_isF64 : ∀ (t : STree), t.AllF64 → IsF64 t.evalF
  | leaf x, h => h x (by simp [leaves])
  | node l r, _ => isF64_fl64 _

/-- **error of a bracketing**: `|float value − exact sum| ≤ ((1+u)^depth − 1) · Σ|x|` -/
theorem evalF_err : ∀ (t : STree), t.AllF64 →
    |t.evalF - t.leaves.sum| ≤ ((1 + u) ^ t.depth - 1) * absSum t.leaves
  | leaf x, _ => by simp [evalF, leaves, depth]
  | node l r, h => by
    have hl : l.AllF64 := fun x hx => h x (by simp [leaves, hx])
    have hr : r.AllF64 := fun x hx => h x (by simp [leaves, hx])
    have el := evalF_err l hl
    have er := evalF_err r hr
    have hadd := fadd_rel_err (evalF_isF64 l hl) (evalF_isF64 r hr)
    set a := l.evalF
    set b := r.evalF
    set A := absSum l.leaves
    set B := absSum r.leaves
    have hA : 0 ≤ A := absSum_nonneg _
    have hB : 0 ≤ B := absSum_nonneg _
    have hsl := abs_sum_le_absSum l.leaves
    have hsr := abs_sum_le_absSum r.leaves
    have hu := u_pos
    -- c = (1+u)^d − 1 with d = max depth dominates both sub-errors
    set d := max l.depth r.depth with hd
    have h1u : (1 : ℚ) ≤ 1 + u := by linarith
    have hcl : (1 + u) ^ l.depth ≤ (1 + u) ^ d := pow_le_pow_right₀ h1u (le_max_left _ _)
    have hcr : (1 + u) ^ r.depth ≤ (1 + u) ^ d := pow_le_pow_right₀ h1u (le_max_right _ _)
    have hc0 : 0 ≤ (1 + u) ^ d - 1 := by
      have := one_le_pow₀ h1u (n := d); linarith
    have el' : |a - l.leaves.sum| ≤ ((1 + u) ^ d - 1) * A :=
      le_trans el (mul_le_mul_of_nonneg_right (by linarith) hA)
    have er' : |b - r.leaves.sum| ≤ ((1 + u) ^ d - 1) * B :=
      le_trans er (mul_le_mul_of_nonneg_right (by linarith) hB)
    simp only [evalF, leaves, depth, List.sum_append, absSum_append]
    -- |a + b| ≤ |exact| + errors
    have hab : |a + b| ≤ (A + B) + ((1 + u) ^ d - 1) * (A + B) := by
      have t1 : |a| ≤ |l.leaves.sum| + |a - l.leaves.sum| := by
        have := abs_add_le (l.leaves.sum) (a - l.leaves.sum); simpa using this
      have t2 : |b| ≤ |r.leaves.sum| + |b - r.leaves.sum| := by
        have := abs_add_le (r.leaves.sum) (b - r.leaves.sum); simpa using this
      have := abs_add_le a b
      nlinarith
    have step : |fadd a b - (l.leaves.sum + r.leaves.sum)| ≤
        |fadd a b - (a + b)| + (|a - l.leaves.sum| + |b - r.leaves.sum|) := by
      have e : fadd a b - (l.leaves.sum + r.leaves.sum) =
          (fadd a b - (a + b)) + ((a - l.leaves.sum) + (b - r.leaves.sum)) := by ring
      rw [e]
      exact le_trans (abs_add_le _ _) (add_le_add le_rfl (abs_add_le _ _))
    have hfin : |fadd a b - (a + b)| ≤ u * ((A + B) + ((1 + u) ^ d - 1) * (A + B)) :=
      le_trans hadd (mul_le_mul_of_nonneg_left hab (le_of_lt hu))
    have : ((1 + u) ^ (d + 1) - 1) * (A + B) =
        u * ((A + B) + ((1 + u) ^ d - 1) * (A + B)) + (((1 + u) ^ d - 1) * A + ((1 + u) ^ d - 1) * B) := by
      rw [pow_succ]; ring
    rw [this]
    linarith

end STree

theorem comb_leaves : ∀ (t : STree) (xs : List ℚ), (comb t xs).leaves = t.leaves ++ xs
  | t, [] => by simp [comb]
  | t, x :: xs => by rw [comb, comb_leaves]; simp [STree.leaves]

theorem comb_evalF : ∀ (t : STree) (xs : List ℚ), (comb t xs).evalF = xs.foldl fadd t.evalF
  | t, [] => rfl
  | t, x :: xs => by rw [comb, comb_evalF]; simp [STree.evalF]

theorem comb_depth : ∀ (t : STree) (xs : List ℚ), (comb t xs).depth ≤ t.depth + xs.length
  | t, [] => by simp [comb]
  | t, x :: xs => by
    rw [comb]
    have := comb_depth (STree.node t (STree.leaf x)) xs
    simp only [STree.depth, List.length_cons] at this ⊢
    omega

end FloatSum
