import PycsepVerif.Model.CatalogDoc
import PycsepVerif.Proofs.FloatShortest
import PycsepVerif.Proofs.JsonText
/-!
# Bit patterns ↔ rationals, and `float(repr(x)) == x` on bit patterns (all finite doubles, either sign, −0.0, subnormals)
-/
namespace CatalogDoc
open JsonText Soft64 DecimalText

theorem two52_eq : (two52 : ℚ) = pow2 52 := by rw [pow2_52]; norm_num [two52]

/-- exponent field and fraction field of a finite pattern -/
theorem bits_split (b : ℕ) (hb : b < 2 * two63) :
    b % two63 = (b / two52 % 2048) * two52 + b % two52 ∧ b = (b / two63 % 2) * two63 + b % two63 ∧ b / two63 % 2 = b / two63 := by
  unfold two63 two52 at *
  omega

theorem bitsToAbs_nonneg (b : ℕ) : 0 ≤ bitsToAbs b := by
  unfold bitsToAbs
  simp only
  split_ifs
  · exact mul_nonneg (by positivity) (le_of_lt (pow2_pos _))
  · exact mul_nonneg (by positivity) (le_of_lt (pow2_pos _))

theorem ilog2_lt_of_lt {y : ℚ} {k : ℤ} (hy : 0 < y) (h : y < pow2 k) : ilog2 y < k := by
  obtain ⟨s1, _⟩ := ilog2_spec hy
  by_contra hc
  have := pow2_mono (not_lt.mp hc)
  linarith

/-- the magnitude of a finite pattern is a binary64 value below 2^1024, and its pattern is recovered -/
theorem bitsToAbs_spec (b : ℕ) (hf : finiteBits b = true) :
    IsF64 (bitsToAbs b) ∧ bitsToAbs b < f64Limit ∧ absToBits (bitsToAbs b) = b % two63 := by
  simp only [finiteBits, Bool.and_eq_true, decide_eq_true_eq] at hf
  obtain ⟨hb, he⟩ := hf
  obtain ⟨hsplit, _, _⟩ := bits_split b hb
  have hm : b % two52 < two52 := Nat.mod_lt _ (by unfold two52; norm_num)
  have hE : b / two52 % 2048 < 2047 := by have := Nat.mod_lt (b / two52) (by norm_num : 0 < 2048); omega
  set e := b / two52 % 2048 with hedef
  set m := b % two52 with hmdef
  have hmq : (m : ℚ) < 4503599627370496 := by
    have : m < 4503599627370496 := by simpa [two52] using hm
    exact_mod_cast this
  by_cases he0 : e = 0
  · -- subnormal or zero
    have hval : bitsToAbs b = (m : ℚ) * pow2 (-1074) := by
      unfold bitsToAbs; simp only [← hedef, ← hmdef, he0, if_true]
    refine ⟨?_, ?_, ?_⟩
    · rw [hval]
      have := isF64_dyadic (m : ℤ) (-1074) (by
        rw [abs_of_nonneg (by positivity)]
        have : m < 4503599627370496 := by simpa [two52] using hm
        have : (m : ℤ) < 4503599627370496 := by exact_mod_cast this
        linarith) (le_refl _)
      simpa using this
    · rw [hval, f64Limit]
      have hup : 0 < pow2 (-1074) := pow2_pos _
      calc (m : ℚ) * pow2 (-1074) ≤ 4503599627370496 * pow2 (-1074) := mul_le_mul_of_nonneg_right (le_of_lt hmq) (le_of_lt hup)
        _ = pow2 (-1022) := FloatText.pow2_m1022_eq.symm
        _ < pow2 1024 := pow2_strict_mono (by norm_num)
    · rw [hsplit, he0, Nat.zero_mul, Nat.zero_add, hval]
      by_cases hm0 : m = 0
      · simp [absToBits, hm0]
      · have hup : 0 < pow2 (-1074) := pow2_pos _
        have hmpos : (0 : ℚ) < (m : ℚ) := by exact_mod_cast Nat.pos_of_ne_zero hm0
        have hy : 0 < (m : ℚ) * pow2 (-1074) := mul_pos hmpos hup
        have hlt : (m : ℚ) * pow2 (-1074) < pow2 (-1022) := by
          rw [FloatText.pow2_m1022_eq]; exact mul_lt_mul_of_pos_right hmq hup
        have hil := ilog2_lt_of_lt hy hlt
        unfold absToBits
        simp only [ne_of_gt hy, if_false, hil, if_true]
        rw [mul_div_assoc, div_self (ne_of_gt hup), mul_one]
        have : ((m : ℚ)).floor = (m : ℤ) := by
          rw [floor_eq]; exact_mod_cast Int.floor_natCast m
        rw [this]; simp
  · -- normal
    have he1 : 1 ≤ e := Nat.one_le_iff_ne_zero.mpr he0
    have hval : bitsToAbs b = ((two52 + m : ℕ) : ℚ) * pow2 ((e : ℤ) - 1075) := by
      unfold bitsToAbs; simp only [← hedef, ← hmdef, he0, if_false]
    have hM1 : (4503599627370496 : ℚ) ≤ ((two52 + m : ℕ) : ℚ) := by
      have : 4503599627370496 ≤ two52 + m := by unfold two52; omega
      exact_mod_cast this
    have hM2 : ((two52 + m : ℕ) : ℚ) < 9007199254740992 := by
      have : two52 + m < 9007199254740992 := by unfold two52 at hm ⊢; omega
      exact_mod_cast this
    have hup : 0 < pow2 ((e : ℤ) - 1075) := pow2_pos _
    have hlo : pow2 ((e : ℤ) - 1023) ≤ bitsToAbs b := by
      rw [hval, show (e : ℤ) - 1023 = 52 + ((e : ℤ) - 1075) by ring, pow2_add, pow2_52]
      exact mul_le_mul_of_nonneg_right hM1 (le_of_lt hup)
    have hhi : bitsToAbs b < pow2 ((e : ℤ) - 1023 + 1) := by
      rw [hval, show (e : ℤ) - 1023 + 1 = 53 + ((e : ℤ) - 1075) by ring, pow2_add, pow2_53]
      exact mul_lt_mul_of_pos_right hM2 hup
    have hil : ilog2 (bitsToAbs b) = (e : ℤ) - 1023 := ilog2_unique hlo hhi
    have hpos : 0 < bitsToAbs b := lt_of_lt_of_le (pow2_pos _) hlo
    refine ⟨?_, ?_, ?_⟩
    · rw [hval]
      have := isF64_dyadic ((two52 + m : ℕ) : ℤ) ((e : ℤ) - 1075) (by
        rw [abs_of_nonneg (by positivity)]
        have : two52 + m < 9007199254740992 := by unfold two52 at hm ⊢; omega
        have : ((two52 + m : ℕ) : ℤ) < 9007199254740992 := by exact_mod_cast this
        linarith) (by omega)
      simpa using this
    · rw [f64Limit]
      exact lt_of_lt_of_le hhi (pow2_mono (by omega))
    · rw [hsplit]
      unfold absToBits
      simp only [ne_of_gt hpos, if_false, hil]
      have hnot : ¬ ((e : ℤ) - 1023 < -1022) := by omega
      simp only [hnot, if_false]
      have h1 : ((e : ℤ) - 1023 + 1023).toNat = e := by
        rw [show (e : ℤ) - 1023 + 1023 = (e : ℤ) by ring]; exact Int.toNat_natCast e
      have h2 : bitsToAbs b / pow2 ((e : ℤ) - 1023 - 52) = ((two52 + m : ℕ) : ℚ) := by
        rw [hval, show (e : ℤ) - 1023 - 52 = (e : ℤ) - 1075 by ring, mul_div_assoc, div_self (ne_of_gt hup), mul_one]
      rw [h1, h2]
      have : (((two52 + m : ℕ) : ℚ)).floor = ((two52 + m : ℕ) : ℤ) := by
        rw [floor_eq]; exact_mod_cast Int.floor_natCast (two52 + m)
      rw [this, Int.toNat_natCast]
      omega

/-! ## NUMBER_RE on a well-formed numeral -/

theorem jdigit_eq (d : ℕ) : JsonText.digitChar d = DecimalText.digitChar d := rfl

theorem isDigit_dc (d : ℕ) (h : d < 10) : JsonText.isDigit (DecimalText.digitChar d) = true :=
  JsonText.isDigit_digitChar d h

/-- the list does not begin with a decimal digit -/
def NoDigit (r : List Char) : Prop := ∀ c cs, r = c :: cs → JsonText.isDigit c = false

theorem spanDigits_render (ds : List ℕ) (hd : ∀ d ∈ ds, d < 10) (r : List Char) (hr : NoDigit r) :
    spanDigits (DecimalText.renderDigits ds ++ r) = (DecimalText.renderDigits ds, r) := by
  induction ds with
  | nil =>
    cases r with
    | nil => rfl
    | cons c cs => simp [DecimalText.renderDigits, spanDigits, hr c cs rfl]
  | cons d ds ih =>
    have := ih (fun x hx => hd x (List.mem_cons_of_mem _ hx))
    simp only [DecimalText.renderDigits, List.map_cons, List.cons_append, spanDigits, isDigit_dc d (hd d (by simp)), if_true] at this ⊢
    rw [this]

theorem noDigit_nil : NoDigit [] := by intro c cs h; cases h
theorem noDigit_cons {c : Char} (h : JsonText.isDigit c = false) (cs : List Char) : NoDigit (c :: cs) := by
  intro c' cs' h'; cases h'; exact h

theorem expChars_noDigit (e : Option (Bool × Option Bool × List ℕ)) : NoDigit (DecimalText.expChars e) := by
  cases e with
  | none => exact noDigit_nil
  | some t =>
    obtain ⟨u, s, ds⟩ := t
    cases u <;> exact noDigit_cons (by decide) _

theorem scanExp_expChars (e : Option (Bool × Option Bool × List ℕ))
    (h : ∀ u s ds, e = some (u, s, ds) → ds ≠ [] ∧ ∀ d ∈ ds, d < 10) :
    scanExp (DecimalText.expChars e) = (DecimalText.expChars e, []) := by
  cases e with
  | none => rfl
  | some t =>
    obtain ⟨u, s, ds⟩ := t
    obtain ⟨hne, hd⟩ := h u s ds rfl
    have hsp := spanDigits_render ds hd [] noDigit_nil
    simp only [List.append_nil] at hsp
    have hnonempty : (DecimalText.renderDigits ds).isEmpty = false := by
      cases ds with
      | nil => exact absurd rfl hne
      | cons d tl => rfl
    have hsign : scanSign (DecimalText.signChars s ++ DecimalText.renderDigits ds)
        = (DecimalText.signChars s, DecimalText.renderDigits ds) := by
      cases s with
      | none =>
        cases ds with
        | nil => exact absurd rfl hne
        | cons d tl =>
          have h1 := (DecimalText.digitChar_ne d (hd d (by simp)))
          simp [DecimalText.signChars, DecimalText.renderDigits, scanSign, h1.1, h1.2.1]
      | some b => cases b <;> simp [DecimalText.signChars, scanSign]
    cases u <;> simp [DecimalText.expChars, scanExp, hsign, hsp, hnonempty]

/-- **NUMBER_RE cuts out exactly a numeral of the shape `-?(0|[1-9]\d*)(\.\d+)?([eE][-+]?\d+)?`** and sees that it is a float -/
theorem scanNumber_numeral (n : DecimalText.Numeral) (hw : n.WF) (hs : n.sign = none ∨ n.sign = some true)
    (hip : n.ip = [0] ∨ ∃ d tl, n.ip = d :: tl ∧ d ≠ 0) (hpt : n.point = true → n.fp ≠ [])
    (hfl : n.point = true ∨ n.exp ≠ none) :
    scanNumber n.render = some (n.render, true, []) := by
  obtain ⟨hipd, hfpd, hnp, _, hexp⟩ := hw
  -- the three groups after the sign
  set E := DecimalText.expChars n.exp with hE
  set F := (if n.point then '.' :: DecimalText.renderDigits n.fp else []) with hF
  have hEscan : scanExp E = (E, []) := scanExp_expChars n.exp hexp
  have hEnd : NoDigit E := expChars_noDigit n.exp
  have hFE_nd : NoDigit (F ++ E) := by
    rw [hF]
    split_ifs
    · exact noDigit_cons (by decide) _
    · simpa using hEnd
  have hfrac : scanFrac (F ++ E) = (F, E) := by
    rw [hF]
    by_cases hp : n.point = true
    · simp only [hp, if_true, List.cons_append, scanFrac]
      rw [spanDigits_render n.fp hfpd E hEnd]
      have : (DecimalText.renderDigits n.fp).isEmpty = false := by
        cases hfp : n.fp with
        | nil => exact absurd hfp (hpt hp)
        | cons d tl => rfl
      simp [this]
    · have hp' : n.point = false := by simpa using hp
      simp only [hp', Bool.false_eq_true, if_false, List.nil_append]
      cases hEc : E with
      | nil => rfl
      | cons c cs =>
        have : c ≠ '.' := by
          intro hc
          exact DecimalText.expChars_not_point n.exp cs (by rw [← hE, hEc, hc])
        simp [scanFrac, this]
  have hnat : scanNat (DecimalText.renderDigits n.ip ++ (F ++ E)) = some (DecimalText.renderDigits n.ip, F ++ E) := by
    rcases hip with h0 | ⟨d, tl, hdt, hd0⟩
    · rw [h0]; rfl
    · rw [hdt]
      have hdlt : d < 10 := hipd d (by rw [hdt]; simp)
      have hne0 : DecimalText.digitChar d ≠ '0' := fun h => hd0 (JsonText.digitChar_eq_zero d hdlt h)
      simp only [DecimalText.renderDigits, List.map_cons, List.cons_append, scanNat, hne0, if_false,
        isDigit_dc d hdlt, if_true]
      have := spanDigits_render tl (fun x hx => hipd x (by rw [hdt]; exact List.mem_cons_of_mem _ hx)) (F ++ E) hFE_nd
      simp only [DecimalText.renderDigits] at this
      rw [this]
  have hflag : (!(F.isEmpty && E.isEmpty)) = true := by
    rcases hfl with hp | he
    · simp [hF, hp]
    · have : E.isEmpty = false := by
        rw [hE]
        cases hx : n.exp with
        | none => exact absurd hx he
        | some t => obtain ⟨u, s, ds⟩ := t; cases u <;> rfl
      simp [this]
  unfold DecimalText.Numeral.render scanNumber
  rw [← hE, ← hF]
  rcases hs with hs | hs
  · rw [hs]
    have hip' : scanIntPart (DecimalText.renderDigits n.ip ++ (F ++ E)) = some (DecimalText.renderDigits n.ip, F ++ E) := by
      rcases hip with h0 | ⟨d, tl, hdt, hd0⟩
      · rw [h0]; rfl
      · have hdlt : d < 10 := hipd d (by rw [hdt]; simp)
        have hnm : DecimalText.digitChar d ≠ '-' := (DecimalText.digitChar_ne d hdlt).1
        have := hnat
        rw [hdt] at this ⊢
        simp only [DecimalText.renderDigits, List.map_cons, List.cons_append] at this ⊢
        simp only [scanIntPart, hnm, if_false]
        exact this
    simp only [DecimalText.signChars, List.nil_append, hip', hfrac, hEscan, hflag, List.append_assoc]
  · rw [hs]
    simp only [DecimalText.signChars, List.cons_append, List.nil_append, scanIntPart, if_true, hnat, Option.map_some,
      hfrac, hEscan, hflag, List.append_assoc]

/-! ## the numeral of `floatStr a` for a non-negative binary64 value -/

open FloatText in
theorem decDigits_head_ne_zero : ∀ (fuel n : ℕ), 1 ≤ n → n < 10 ^ fuel → ∃ d tl, decDigits fuel n = d :: tl ∧ d ≠ 0
  | 0, n, h1, hlt => by simp at hlt; omega
  | fuel + 1, n, h1, hlt => by
    unfold decDigits
    split_ifs with hn
    · exact ⟨n, [], rfl, by omega⟩
    · have h10 : n / 10 < 10 ^ fuel := by rw [Nat.pow_succ] at hlt; omega
      obtain ⟨d, tl, hd, hd0⟩ := decDigits_head_ne_zero fuel (n / 10) (by omega) h10
      exact ⟨d, tl ++ [n % 10], by rw [hd]; rfl, hd0⟩

open FloatText in
theorem stripZeros_pos : ∀ (fuel m : ℕ) (e : ℤ), 1 ≤ m → 1 ≤ (stripZeros fuel m e).1
  | 0, _, _, h => h
  | fuel + 1, m, e, h => by
    unfold stripZeros
    split_ifs with hc
    · exact stripZeros_pos fuel (m / 10) (e + 1) (by omega)
    · exact h

open FloatText in
theorem reprSearch_roundtrip_pos {x : ℚ} (hx : IsF64 x) (hpos : 0 < x) : fl64 (DecimalText.reprSearch x 16 1) = x := by
  have := reprValue_roundtrip_all hx
  unfold DecimalText.reprValue at this
  simpa [ne_of_gt hpos, not_lt.mpr (le_of_lt hpos)] using this

open FloatText in
theorem shortest_mantissa_pos {x : ℚ} (hx : IsF64 x) (hpos : 0 < x) : 1 ≤ (shortest x).1 := by
  unfold shortest
  simp only
  apply stripZeros_pos
  have hnn := searchPairs_nonneg hpos 16 1
  have hrt := reprSearch_roundtrip_pos hx hpos
  rw [← searchPairs_val] at hrt
  by_contra hc
  have h0 : (searchPairs x 16 1).1 = 0 := by omega
  simp only [pairVal, h0, Int.cast_zero, zero_mul, fl64_zero] at hrt
  linarith

open FloatText in
theorem reprValue_nonneg {a : ℚ} (ha : 0 ≤ a) : 0 ≤ DecimalText.reprValue a := by
  unfold DecimalText.reprValue
  by_cases h0 : a = 0
  · simp [h0]
  · have hpos : 0 < a := lt_of_le_of_ne ha (Ne.symm h0)
    simp only [h0, if_false, not_lt.mpr ha]
    rw [← searchPairs_val]
    exact mul_nonneg (by exact_mod_cast searchPairs_nonneg hpos 16 1) (le_of_lt (DecimalText.pow10_pos _))

open FloatText in
theorem layoutN_shape (sg : Option Bool) (ds : List ℕ) (decpt : ℤ) (hh : ∃ d tl, ds = d :: tl ∧ d ≠ 0) :
    (layoutN sg ds decpt).sign = sg ∧
    ((layoutN sg ds decpt).ip = [0] ∨ ∃ d tl, (layoutN sg ds decpt).ip = d :: tl ∧ d ≠ 0) ∧
    ((layoutN sg ds decpt).point = true → (layoutN sg ds decpt).fp ≠ []) ∧
    ((layoutN sg ds decpt).point = true ∨ (layoutN sg ds decpt).exp ≠ none) := by
  obtain ⟨d, tl, hds, hd0⟩ := hh
  unfold layoutN
  simp only
  split_ifs with h1 h2 h3
  · exact ⟨rfl, Or.inl rfl, fun _ => by simp [hds], Or.inl rfl⟩
  · refine ⟨rfl, Or.inr ?_, fun _ => ?_, Or.inl rfl⟩
    · obtain ⟨k, hk⟩ : ∃ k : ℕ, decpt.toNat = k + 1 := ⟨decpt.toNat - 1, by omega⟩
      exact ⟨d, tl.take k, by simp [hds, hk], hd0⟩
    · intro hc
      have := List.drop_eq_nil_iff.mp hc
      omega
  · exact ⟨rfl, Or.inr ⟨d, tl ++ zeros (decpt - ds.length).toNat, by simp [hds], hd0⟩, fun _ => by simp, Or.inl rfl⟩
  · refine ⟨rfl, Or.inr ⟨d, [], by simp [hds], hd0⟩, fun hp => ?_, Or.inr (by simp)⟩
    simp only [decide_eq_true_eq] at hp
    intro hc
    have := List.drop_eq_nil_iff.mp hc
    omega

/-- the numeral `floatStr a` spells, for a non-negative binary64 value `a`: no sign, integer part `0` or without leading
    zero, a fraction or an exponent, exact value `reprValue a` -/
theorem floatStr_numeral_nonneg {a : ℚ} (hx : IsF64 a) (ha : 0 ≤ a) :
    ∃ n : DecimalText.Numeral, n.WF ∧ n.sign = none ∧ n.render = FloatText.floatStr a ∧ n.value = DecimalText.reprValue a ∧
      (n.ip = [0] ∨ ∃ d tl, n.ip = d :: tl ∧ d ≠ 0) ∧ (n.point = true → n.fp ≠ []) ∧ (n.point = true ∨ n.exp ≠ none) := by
  by_cases h0 : a = 0
  · refine ⟨⟨none, [0], true, [0], none⟩, ⟨by simp, by simp, by simp, by simp, by simp⟩, rfl, ?_, ?_, Or.inl rfl,
      fun _ => by simp, Or.inl rfl⟩
    · subst h0
      simp [FloatText.floatStr, DecimalText.Numeral.render, DecimalText.signChars, DecimalText.expChars,
        DecimalText.renderDigits, DecimalText.digitChar]
    · subst h0
      simp [DecimalText.Numeral.value, DecimalText.reprValue, DecimalText.valDigits, DecimalText.expVal,
        DecimalText.signNeg]
  · have hpos : 0 < a := lt_of_le_of_ne ha (Ne.symm h0)
    have hnl : ¬ a < 0 := not_lt.mpr ha
    set s := FloatText.shortest a with hs
    set ds := FloatText.decDigits (s.1 + 1) s.1 with hds
    obtain ⟨_, hd⟩ := FloatText.decDigits_spec (s.1 + 1) s.1 (FloatText.lt_pow_succ s.1)
    have hne : ds ≠ [] := FloatText.decDigits_ne_nil s.1 s.1
    have hhead := decDigits_head_ne_zero (s.1 + 1) s.1 (shortest_mantissa_pos hx hpos) (FloatText.lt_pow_succ s.1)
    obtain ⟨h1, h2, h3, h4⟩ := layoutN_shape none ds ((ds.length : ℤ) + s.2) hhead
    have hw := FloatText.layoutN_wf none ds ((ds.length : ℤ) + s.2) hne hd
    have hrender : (FloatText.layoutN none ds ((ds.length : ℤ) + s.2)).render = FloatText.floatStr a := by
      rw [FloatText.layoutN_render]
      unfold FloatText.floatStr
      simp [h0, hnl, DecimalText.signChars, hs, hds]
    refine ⟨_, hw, h1, hrender, ?_, h2, h3, h4⟩
    have hp := DecimalText.parseBody_render _ hw
    rw [hrender, FloatText.floatStr_denotes] at hp
    exact (Option.some.inj hp).symm

/-- **for EVERY finite double (either sign, negative zero, subnormal, normal): NUMBER_RE cuts out exactly its numeral and
    hands it to `float()`, and `float()` returns the same bit pattern** -/
theorem floatOk_all (b : ℕ) (hf : finiteBits b = true) : floatOkB catFloatText b = true := by
  obtain ⟨hx, hlim, hbits⟩ := bitsToAbs_spec b hf
  have ha := bitsToAbs_nonneg b
  obtain ⟨n0, hw0, hs0, hr0, hv0, hip, hpt, hfl⟩ := floatStr_numeral_nonneg hx ha
  have hb2 : b < 2 * two63 := by
    simp only [finiteBits, Bool.and_eq_true, decide_eq_true_eq] at hf; exact hf.1
  obtain ⟨_, hb, hb01⟩ := bits_split b hb2
  have hrt : fl64 (DecimalText.reprValue (bitsToAbs b)) = bitsToAbs b := FloatText.reprValue_roundtrip_all hx
  have hrnn := reprValue_nonneg ha
  suffices h : scanNumber (reprBits b) = some (reprBits b, true, []) ∧ pyReadF (reprBits b) = some (.num b) by
    simp [floatOkB, catFloatText, h.1, h.2]
  by_cases hneg : bitsNeg b = true
  · -- a minus sign in front
    let n : DecimalText.Numeral := { n0 with sign := some true }
    have hw : n.WF := ⟨hw0.1, hw0.2, hw0.3, hw0.4, hw0.5⟩
    have hrender : n.render = reprBits b := by
      have : n.render = '-' :: n0.render := by
        simp [n, DecimalText.Numeral.render, DecimalText.signChars, hs0]
      rw [this, hr0]; simp [reprBits, hneg]
    have hval : n.value = -DecimalText.reprValue (bitsToAbs b) := by
      have : n.value = -n0.value := by
        simp [n, DecimalText.Numeral.value, DecimalText.signNeg, hs0]
      rw [this, hv0]
    constructor
    · rw [← hrender]; exact scanNumber_numeral n hw (Or.inr rfl) hip hpt hfl
    · have hpb := DecimalText.parseBody_render n hw
      rw [hrender] at hpb
      have hhead : ∃ tl, reprBits b = '-' :: tl := ⟨FloatText.floatStr (bitsToAbs b), by simp [reprBits, hneg]⟩
      obtain ⟨tl, htl⟩ := hhead
      unfold pyReadF
      rw [hpb, hval]
      have hfabs : fabs (-DecimalText.reprValue (bitsToAbs b)) = DecimalText.reprValue (bitsToAbs b) := by
        unfold fabs
        split_ifs with h
        · ring
        · have : DecimalText.reprValue (bitsToAbs b) = 0 := by linarith
          rw [this]; ring
      simp only [htl, decide_true, hfabs, hrt, hlim, if_true, hbits]
      have h1 : b / two63 % 2 = 1 := by simpa [bitsNeg] using hneg
      congr 2
      rw [h1, Nat.one_mul] at hb
      exact hb.symm
  · have hneg' : bitsNeg b = false := by simpa using hneg
    have hrender : n0.render = reprBits b := by rw [hr0]; simp [reprBits, hneg']
    constructor
    · rw [← hrender]; exact scanNumber_numeral n0 hw0 (Or.inl hs0) hip hpt hfl
    · have hpb := DecimalText.parseBody_render n0 hw0
      rw [hrender] at hpb
      -- the numeral begins with a digit
      have hhead : ∃ d tl, reprBits b = DecimalText.digitChar d :: tl ∧ d < 10 := by
        rw [← hrender]
        rcases hip with h0 | ⟨d, tl, hdt, _⟩
        · exact ⟨0, _, by unfold DecimalText.Numeral.render; rw [hs0, h0]; rfl, by norm_num⟩
        · exact ⟨d, _, by unfold DecimalText.Numeral.render; rw [hs0, hdt]; rfl, hw0.1 d (by rw [hdt]; simp)⟩
      obtain ⟨d, tl, htl, hdlt⟩ := hhead
      unfold pyReadF
      rw [hpb, hv0]
      have hfabs : fabs (DecimalText.reprValue (bitsToAbs b)) = DecimalText.reprValue (bitsToAbs b) := by
        unfold fabs; simp [not_lt.mpr hrnn]
      have hnm : DecimalText.digitChar d ≠ '-' := (DecimalText.digitChar_ne d hdlt).1
      simp only [htl, hnm, decide_false, hfabs, hrt, hlim, if_true, hbits, Bool.false_eq_true, if_false]
      have h1 : b / two63 % 2 = 0 := by
        have : ¬ b / two63 % 2 = 1 := by simpa [bitsNeg] using hneg'
        omega
      congr 2
      rw [h1, Nat.zero_mul, Nat.zero_add] at hb
      exact hb.symm

end CatalogDoc
