import PycsepVerif.Model.AsciiCatalogs

/-!
Helper lemmas for C12: the accumulator invariant of the `load_ascii_catalogs` loop.
-/
namespace AsciiCatalogs

/-- the empty catalogs with ids `a, a+1, …, b-1` -/
def empties (a b : Nat) : List Catalog := (List.range' a (b - a)).map (fun (k : Nat) => emptyCat (k : Int))

theorem empties_self (a : Nat) : empties a a = [] := by simp [empties]

theorem empties_succ {a b : Nat} (h : a ≤ b) : empties a (b + 1) = empties a b ++ [emptyCat (b : Int)] := by
  unfold empties
  have : b + 1 - a = (b - a) + 1 := by omega
  rw [this, List.range'_1_concat, List.map_append]
  simp
  congr 1; omega

@[simp] theorem isEmpty_toEv (e : Event) : isEmpty e.toEv = false := by simp [isEmpty, Event.toEv]
@[simp] theorem allBlank_toEv (e : Event) : allBlank e.toEv = false := by simp [allBlank]
@[simp] theorem firstOf_toEv (e : Event) : firstOf e.toEv = [e.toEv] := by simp [firstOf]

@[simp] theorem prepend_nil (r : Except Err (List Catalog)) : prepend [] r = r := by
  cases r <;> simp [prepend]

theorem prepend_prepend (a b : List Catalog) (r : Except Err (List Catalog)) :
    prepend a (prepend b r) = prepend (a ++ b) r := by
  cases r <;> simp [prepend]

/-- rows of the catalog being accumulated are appended in file order -/
theorem loop_rows_same (i : Nat) (es : List Event) (evs : List Ev) (rest : List Line) :
    loop ⟨some (i : Int), evs⟩ (es.map (rowOf i) ++ rest) = loop ⟨some (i : Int), evs ++ es.map Event.toEv⟩ rest := by
  induction es generalizing evs with
  | nil => simp
  | cons e es ih =>
    have hstep : step ⟨some (i : Int), evs⟩ (rowOf i e) = .ok (⟨some (i : Int), evs ++ [e.toEv]⟩, []) := by
      simp [step, rowOf, body]
    simp only [List.map_cons, List.cons_append]
    rw [loop, hstep]
    simp only [prepend_nil]
    rw [ih]; simp

/-- the loop state is "ready for catalog `i`": everything before id `i` that is present in the file has been read;
    `pre` = the catalogs that will have been yielded once the first line of catalog `i` is processed. -/
inductive Ready : St → Nat → List Catalog → Prop
  | init (i : Nat) : Ready ⟨none, []⟩ i (empties 0 i)
  | mid (j i : Nat) (evs : List Ev) (h : j < i) :
      Ready ⟨some (j : Int), evs⟩ i (⟨some (j : Int), evs⟩ :: empties (j + 1) i)

theorem Ready.shift {s i pre} (h : Ready s i pre) : Ready s (i + 1) (pre ++ [emptyCat (i : Int)]) := by
  cases h with
  | init => rw [← empties_succ (Nat.zero_le i)]; exact Ready.init _
  | mid j _ evs hj =>
    have : j + 1 ≤ i := hj
    rw [List.cons_append, ← empties_succ this]; exact Ready.mid j (i + 1) evs (by omega)

theorem Ready.after (i : Nat) (evs : List Ev) : Ready ⟨some (i : Int), evs⟩ (i + 1) [⟨some (i : Int), evs⟩] := by
  have := Ready.mid i (i + 1) evs (by omega)
  rwa [empties_self] at this

private theorem gap_ids (j i : Nat) (h : j + 1 < i) :
    (List.range ((i : Int) - (j : Int) - 1).toNat).map
        (fun (k : Nat) => emptyCat ((i : Int) - ((i : Int) - (j : Int) - 1) + (k : Int)))
      = empties (j + 1) i := by
  unfold empties
  have h1 : ((i : Int) - (j : Int) - 1).toNat = i - (j + 1) := by omega
  rw [h1, List.range'_eq_map_range, List.map_map]
  apply List.map_congr_left
  intro k _
  simp only [Function.comp]
  congr 1; omega

private theorem lead_ids (i : Nat) :
    (List.range (i : Int).toNat).map (fun (k : Nat) => emptyCat (k : Int)) = empties 0 i := by
  unfold empties
  simp [List.range_eq_range']

/-- processing the first line of a present catalog `i` from a ready state yields exactly `pre`, and leaves
    the state "accumulating catalog i" -/
theorem Ready.first_line {s i pre} (h : Ready s i pre) (ev : Ev) (rest : List Line)
    (hb : allBlank ev = isEmpty ev) :
    loop s (.row ⟨ev, (i : Int)⟩ :: rest) = prepend pre (loop ⟨some (i : Int), firstOf ev⟩ rest) := by
  cases h with
  | init =>
    rw [loop]
    by_cases hi : i = 0
    · subst hi
      simp only [step, body, empties_self]
      simp [firstOf, hb]
    · have h0 : ((i : Int) ≠ 0) := by omega
      simp only [step, h0, ne_eq, not_false_eq_true, if_true, lead_ids]
  | mid j _ evs hj =>
    rw [loop]
    simp only [step, body]
    have h1 : ¬ ((i : Int) = (j : Int)) := by omega
    by_cases hn : i = j + 1
    · subst hn
      have h2 : ¬ ((j : Int) + 1 = (j : Int)) := by omega
      simp [h2, empties_self]
    · have h2 : ¬ ((i : Int) = (j : Int) + 1) := by omega
      have h3 : (i : Int) > (j : Int) + 1 := by omega
      simp only [h1, h2, h3, if_false, if_true, gap_ids j i (by omega)]

/-- a present catalog `i` read from a ready state -/
theorem Ready.present {s i pre} (h : Ready s i pre) (c : List Event) (rest : List Line) :
    loop s (encodeCat i c ++ rest) = prepend pre (loop ⟨some (i : Int), c.map Event.toEv⟩ rest) := by
  cases c with
  | nil =>
    simp only [encodeCat, placeholder, List.cons_append, List.nil_append, List.map_nil]
    rw [h.first_line _ rest (by simp [allBlank, isEmpty])]
    simp [firstOf, isEmpty]
  | cons e es =>
    simp only [encodeCat, List.map_cons, List.cons_append, rowOf]
    rw [h.first_line _ _ (by simp)]
    have := loop_rows_same i es [e.toEv] rest
    rw [firstOf_toEv, this]; simp

/-- the generalised invariant: from a ready state, the remaining catalogs `i, i+1, …` decode to `pre` followed by
    themselves, numbered from `i` -/
theorem loop_encodeFrom {s i pre} (h : Ready s i pre) (cats : List (List Event)) (hne : cats ≠ [])
    (ch : List Bool) :
    loop s (encodeFrom i cats ch) = .ok (pre ++ numberFrom i cats) := by
  induction cats generalizing s i pre ch with
  | nil => exact absurd rfl hne
  | cons c cs ih =>
    cases cs with
    | nil =>
      have := h.present c []
      simp only [List.append_nil] at this
      simp only [encodeFrom, this, loop, prepend, numberFrom]
    | cons c' cs' =>
      simp only [encodeFrom]
      by_cases hom : (c.isEmpty && !(ch.headD true)) = true
      · -- omitted empty catalog
        simp only [hom, if_true, List.nil_append]
        have hc : c = [] := by
          have : c.isEmpty = true := by
            cases hh : c.isEmpty <;> simp [hh] at hom ⊢
          exact List.isEmpty_iff.mp this
        rw [ih h.shift (by simp)]
        subst hc
        simp [numberFrom, emptyCat]
      · simp only [hom, Bool.false_eq_true, if_false]
        rw [h.present, ih (Ready.after i _) (by simp)]
        simp [prepend, numberFrom]

end AsciiCatalogs
