import PycsepVerif.GeneratedSrcSM
import PycsepVerif.Model.CatalogEvals
import PycsepVerif.SourceSM.LoopLemmas
/-!
# Source tie of C10 (imperative code): `catalog_evaluations.number_test`, generated from the Python source, equals the hand
# model (Model/CatalogEvals.lean: `numberTest`)

`SrcSM.catalog_number_test` is regenerated from `csep/core/catalog_evaluations.py` on every run (`verbose=False`):
`for i, catalog in enumerate(forecast)` is ONE pass over the forecast (opaque `iter_forecast`: the catalogs it yields and the
forecast after the pass, which is part of the result), the body appends `catalog.event_count`; then
`get_quantiles(event_counts, obs_count)` (opaque here; py2lean ties `stats.get_quantiles` to `Ecdf.getQuantiles`) and the
result constructor with its nine keyword arguments (opaque; the two string literals are in the theorem).

`SrcSM.catalog_spatial_test` (round 4f): `spatial_test` with `verbose=False`. `forecast.get_expected_rates()` is an opaque
method that changes the forecast (`gerOfGenerated`: the generated `get_expected_rates` fits), `enumerate(forecast)` one pass,
the gridded-forecast methods, the counting methods of the catalogs, `_compute_likelihood` (second component may be nan or
−inf: `Option (ELL α)`) and `get_quantiles` opaque. `catalog_spatial_test_eq_model`: for whatever these answer, the result is
built from `spatialOut` — the −inf re-computation on the cells with non-zero rate (`undersampled`), the removal of nan
entries, `not-valid` with the sentinel quantile for `n_obs == 0` or a nan statistic. `spatialOut_eq_spatialTest`: with the
hand model's `computeLikelihood`, rates and counts these are the fields of `CatEvals.spatialTest`.

`catalog_number_test_eq_model`: for every pass result the distribution handed to `get_quantiles` and to the constructor is
the list of the catalogs' event counts in pass order, the observed statistic is the observed catalog's count — the fields
of `CatEvals.numberTest` (`numberTest_fields`: with `Cat = Grid`, `event_count = eventCount`).
-/
set_option linter.unusedSimpArgs false
namespace SrcSM
open PySM

theorem forLoop_append_counts {Cat : Type} (f : Cat → Nat) : ∀ (ys : List Cat) (k : Nat) (acc : List Nat),
    PySM.forLoop (σ := List Nat) (fun s (x : Nat × Cat) => Except.ok (Ctl.next (PySM.append s (f x.2))))
      (PySM.enumerateFrom k ys) acc = Except.ok (acc ++ ys.map f)
  | [], k, acc => by simp [PySM.enumerateFrom, PySM.forLoop]
  | y :: ys, k, acc => by
    simp only [PySM.enumerateFrom, PySM.forLoop, PySM.append]
    rw [show (fun s (x : Nat × Cat) => (Except.ok (Ctl.next (s ++ [f x.2])) : M (Ctl (List Nat))))
          = (fun s (x : Nat × Cat) => Except.ok (Ctl.next (PySM.append s (f x.2)))) from rfl,
      forLoop_append_counts f ys (k + 1)]
    simp

theorem catalog_number_test_eq_model {Qv Result ObsRepr FName MinMw ObsName Forecast Obs Cat : Type}
    (getq : List Nat → Nat → Qv × Qv)
    (mk : List Nat → String → Nat → Qv × Qv → String → ObsRepr → FName → MinMw → ObsName → Result)
    (iter : Forecast → M (List Cat × Forecast)) (cnt : Cat → Nat) (ocnt : Obs → Nat) (oname : Obs → ObsName)
    (ostr : Obs → ObsRepr) (fname : Forecast → FName) (fmin : Forecast → MinMw) (fc : Forecast) (obs : Obs)
    (ys : List Cat) (fc' : Forecast) (hp : iter fc = Except.ok (ys, fc')) :
    SrcSM.catalog_number_test getq mk iter cnt ocnt oname ostr fname fmin fc obs
      = Except.ok (mk (ys.map cnt) "Catalog N-Test" (ocnt obs) (getq (ys.map cnt) (ocnt obs)) "normal" (ostr obs)
          (fname fc') (fmin fc') (oname obs), fc') := by
  unfold SrcSM.catalog_number_test
  simp only [hp, bind_ok'', PySM.enumerate]
  rw [forLoop_append_counts cnt ys 0 []]
  simp [bind_ok'']

/-- the fields of the hand model's number test for catalogs given as count grids -/
theorem numberTest_fields (sims : List CatEvals.Grid) (obs : CatEvals.Grid) :
    (CatEvals.numberTest sims obs).distribution = sims.map CatEvals.eventCount ∧
    (CatEvals.numberTest sims obs).observed = CatEvals.eventCount obs := ⟨rfl, rfl⟩

/-! ## spatial_test -/
section Spatial
variable {α : Type} [RealOps α]

/-- one catalog after the other: `catalog.spatial_counts()` (may raise), the normalised likelihood appended -/
theorem forLoop_append_stat {Cat : Type} (sc : Cat → M (List Nat)) (f : List Nat → Option (ELL α)) :
    ∀ (ys : List Cat) (gs : List (List Nat)) (k : Nat) (acc : List (Option (ELL α))),
      ys.map sc = gs.map Except.ok →
      PySM.forLoop (σ := List (Option (ELL α)))
        (fun s (x : Nat × Cat) => Except.bind (sc x.2) fun g => Except.ok (Ctl.next (PySM.append s (f g))))
        (PySM.enumerateFrom k ys) acc = Except.ok (acc ++ gs.map f)
  | [], [], k, acc, _ => by simp [PySM.enumerateFrom, PySM.forLoop]
  | [], _ :: _, _, _, h => by simp at h
  | _ :: _, [], _, _, h => by simp at h
  | y :: ys, g :: gs, k, acc, h => by
    simp only [List.map_cons, List.cons.injEq] at h
    simp only [PySM.enumerateFrom, PySM.forLoop, h.1, bind_ok'', PySM.append]
    have := forLoop_append_stat sc f ys gs (k + 1) (acc ++ [f g]) h.2
    simp only [PySM.append] at this
    rw [this]; simp

theorem bind_ite_ok {ε β γ : Type} (c : Prop) [Decidable c] (a b : β) (f : β → Except ε γ) :
    Except.bind (if c then Except.ok a else Except.ok b) f = if c then f a else f b := by
  split <;> rfl

theorem maskSel_length_eq {β : Type} : ∀ (a : List β) (m : List Bool), a.length = m.length →
    PySM.maskSelect a m = Except.ok (PySM.maskSel a m) := by
  intro a m h; simp [PySM.maskSelect, h]

/-- the fields `spatial_test` computes after the pass, for an arbitrary `_compute_likelihood` / `get_quantiles` -/
structure SpatialOut (α Qv : Type) where
  dist : List (Option (ELL α))
  observed : Option (ELL α)
  quantile : Qv × Qv
  status : String

def spatialOut {Qv : Type} (cl : List Nat → List α → α → Nat → ELL α × Option (ELL α))
    (getq : List (Option (ELL α)) → Option (ELL α) → Qv × Qv) (qint : Int → Qv)
    (rates : List α) (ecc : α) (gcats : List (List Nat)) (gObs : List Nat) : SpatialOut α Qv :=
  let nObs := gObs.sum
  let dist0 := gcats.map (fun g => (cl g rates ecc nObs).2)
  let first := (cl gObs rates ecc nObs).2
  let keep := rates.map (fun x => !(PySM.isZeroR x))
  let om : Option (ELL α) × String :=
    if PySM.isNegInf first then ((cl (PySM.maskSel gObs keep) (PySM.maskSel rates keep) ecc nObs).2, "undersampled")
    else (first, "normal")
  let dist := if PySM.anyNan dist0 then PySM.maskSel dist0 (dist0.map (fun x => !(PySM.isNan x))) else dist0
  if decide (nObs = 0) || PySM.isNan om.1 then ⟨dist, om.1, (qint (-1), qint (-1)), "not-valid"⟩
  else ⟨dist, om.1, getq dist om.1, om.2⟩

theorem catalog_spatial_test_eq_model {Qv Result MinMw ObsRepr FName ObsName Forecast Obs Cat Region GF : Type}
    (cl : List Nat → List α → α → Nat → ELL α × Option (ELL α))
    (getq : List (Option (ELL α)) → Option (ELL α) → Qv × Qv)
    (mk : List (Option (ELL α)) → String → Option (ELL α) → Qv × Qv → String → MinMw → ObsRepr → FName → ObsName → Result)
    (ger : Forecast → M (GF × Forecast)) (gsum : GF → α) (gsc : GF → List α) (osc : Obs → M (List Nat))
    (csc : Cat → M (List Nat)) (qint : Int → Qv) (iter : Forecast → M (List Cat × Forecast))
    (fregion : Forecast → Option Region) (fer : Forecast → Option GF) (fname : Forecast → FName)
    (fmin : Forecast → MinMw) (ocnt : Obs → Nat) (oname : Obs → ObsName) (ostr : Obs → ObsRepr)
    (fc : Forecast) (obs : Obs)
    -- what the opaque objects answer
    (fc1 : Forecast) (gf : GF) (gObs : List Nat) (ys : List Cat) (gcats : List (List Nat)) (fc2 : Forecast)
    (hreg : (fregion fc).isNone = false)
    (hfc1 : (match fer fc with | some _ => Except.ok fc | none => (ger fc).map (·.2)) = Except.ok fc1)
    (hgf : fer fc1 = some gf) (hobs : osc obs = Except.ok gObs) (hp : iter fc1 = Except.ok (ys, fc2))
    (hcats : ys.map csc = gcats.map Except.ok) (hlen : (gsc gf).length = gObs.length) :
    SrcSM.catalog_spatial_test cl getq mk ger gsum gsc osc csc qint iter fregion fer fname fmin ocnt oname ostr fc obs
      = (let o := spatialOut cl getq qint (gsc gf) (gsum gf) gcats gObs
         Except.ok (mk o.dist "S-Test" o.observed o.quantile o.status (fmin fc2) (ostr obs) (fname fc2) (oname obs), fc2)) := by
  unfold SrcSM.catalog_spatial_test
  have hk : ((gsc gf).map (fun x => !(PySM.isZeroR x))).length = gObs.length := by simp [hlen]
  have hk2 : (gsc gf).length = ((gsc gf).map (fun x => !(PySM.isZeroR x))).length := by simp
  have hloop := forLoop_append_stat csc (fun g => (cl g (gsc gf) (gsum gf) gObs.sum).2) ys gcats 0 [] hcats
  simp only [PySM.append, List.nil_append] at hloop
  cases hf : fer fc with
  | some g =>
    have e1 : fc1 = fc := by simp only [hf] at hfc1; cases hfc1; rfl
    subst e1
    have e2 : gf = g := by rw [hf] at hgf; exact (Option.some.inj hgf).symm
    subst e2
    simp only [hreg, hf, Option.isNone_some, Bool.false_eq_true, if_false, ite_self, bind_ok'']
    simp only [PySM.getObj, bind_ok'', hobs, hp, PySM.enumerate]
    simp only [PySM.append]
    rw [hloop]
    simp only [bind_ok'', maskSel_length_eq _ _ hk.symm, maskSel_length_eq _ _ hk2]
    simp only [spatialOut]
    simp only [bind_ite_ok, bind_ok'', PySM.maskSelect, List.length_map, if_true, List.map_map, Function.comp_def]
    by_cases hn : PySM.isNegInf (cl gObs (gsc gf) (gsum gf) gObs.sum).2 = true <;>
    by_cases ha : PySM.anyNan (gcats.map (fun g => (cl g (gsc gf) (gsum gf) gObs.sum).2)) = true <;>
    simp only [hn, ha, if_true, if_false, Bool.false_eq_true] <;>
    (split <;> rename_i hc <;> simp only [hc, if_true, if_false, Bool.false_eq_true])
  | none =>
    have hg : ∃ g', ger fc = Except.ok (g', fc1) := by
      simp only [hf] at hfc1
      cases hg : ger fc with
      | error e => simp [hg, Except.map] at hfc1
      | ok r => simp only [hg, Except.map, Except.ok.injEq] at hfc1; exact ⟨r.1, by rw [← hfc1]⟩
    obtain ⟨g', hg'⟩ := hg
    simp only [hreg, hf, Option.isNone_none, if_true, Bool.false_eq_true, if_false, ite_self, hg', bind_ok'']
    simp only [hgf, PySM.getObj, bind_ok'', hobs, hp, PySM.enumerate]
    simp only [PySM.append]
    rw [hloop]
    simp only [bind_ok'', maskSel_length_eq _ _ hk.symm, maskSel_length_eq _ _ hk2]
    simp only [spatialOut]
    simp only [bind_ite_ok, bind_ok'', PySM.maskSelect, List.length_map, if_true, List.map_map, Function.comp_def]
    by_cases hn : PySM.isNegInf (cl gObs (gsc gf) (gsum gf) gObs.sum).2 = true <;>
    by_cases ha : PySM.anyNan (gcats.map (fun g => (cl g (gsc gf) (gsum gf) gObs.sum).2)) = true <;>
    simp only [hn, ha, if_true, if_false, Bool.false_eq_true] <;>
    (split <;> rename_i hc <;> simp only [hc, if_true, if_false, Bool.false_eq_true])

/-- the opaque method `forecast.get_expected_rates()` of `catalog_spatial_test_eq_model`, instantiated with the GENERATED
    `SrcSM.get_expected_rates` (SourceSM/C13R.lean) on the forecast's state record: this term type-checks, i.e. the theorem
    applies with `Forecast` = that record, `fer` = its `expected_rates` field and `iter` = the same pass `iterSelf` -/
def gerOfGenerated {T GF Region Name Rest Cat : Type}
    (mkGF : T → T → List Rat → Region → Option (List Rat) → Name → GF) (smc : Cat → M (List Nat))
    (setRegion : Cat → Region → Cat)
    (iterSelf : (Region × Option GF × Option Int × T × T × Name × Rest) →
      M (List Cat × (Region × Option GF × Option Int × T × T × Name × Rest)))
    (mags : Region → Option (List Rat)) (empty : List Nat)
    (fc : Region × Option GF × Option Int × T × T × Name × Rest) :
    M (GF × (Region × Option GF × Option Int × T × T × Name × Rest)) :=
  Except.bind (SrcSM.get_expected_rates mkGF smc setRegion iterSelf mags empty fc) fun r =>
    match r.1 with
    | some g => Except.ok (g, r.2)
    | none => Except.error .attributeError

/-! ### `spatialOut` with the model's `_compute_likelihood` and rates is `CatEvals.spatialTest` -/
open CatEvals in
theorem maskSel_eq_maskBy {β : Type} : ∀ (a : List β) (m : List Bool), PySM.maskSel a m = maskBy m a
  | [], [] => by simp [PySM.maskSel, maskBy]
  | [], _ :: _ => by simp [PySM.maskSel, maskBy]
  | _ :: _, [] => by simp [PySM.maskSel, maskBy]
  | x :: xs, b :: bs => by
    have ih := maskSel_eq_maskBy xs bs
    cases b <;> simp [PySM.maskSel, maskBy, ih] <;> simp [maskBy] at ih ⊢ <;> exact ih

theorem maskSel_isSome {β : Type} : ∀ (d : List (Option β)),
    PySM.maskSel d (d.map Option.isSome) = (d.filterMap id).map some
  | [] => by simp [PySM.maskSel]
  | none :: d => by simp [PySM.maskSel, maskSel_isSome d]
  | some x :: d => by simp [PySM.maskSel, maskSel_isSome d]

theorem maskSel_notNan (d : List (Option (ELL α))) :
    PySM.maskSel d (d.map (fun x => !(PySM.isNan x))) = (d.filterMap id).map some := by
  have : (fun (x : Option (ELL α)) => !(PySM.isNan x)) = Option.isSome := by
    funext x; cases x <;> rfl
  rw [this]; exact maskSel_isSome d

theorem noNan_eq : ∀ (d : List (Option (ELL α))), PySM.anyNan d = false → d = (d.filterMap id).map some
  | [], _ => by simp
  | none :: d, h => by simp [PySM.anyNan, PySM.isNan] at h
  | some x :: d, h => by
    have h' : PySM.anyNan d = false := by simpa [PySM.anyNan, PySM.isNan] using h
    simp [← noNan_eq d h']

def statusStr : CatEvals.Status → String
  | .normal => "normal" | .undersampled => "undersampled" | .notValid => "not-valid"

open CatEvals in
/-- the fields of `spatialOut`, computed with the hand model's `_compute_likelihood`, rates and counts, are the fields of
    `CatEvals.spatialTest` (`qp` writes a `Quant` as the pair the code stores; `get_quantiles` on a nan-free sample and a
    non-nan value is `quantiles`) -/
theorem spatialOut_eq_spatialTest {Qv : Type} (C K : Nat) (sims : List Grid) (obs : Grid) (qp : Quant → Qv × Qv)
    (qint : Int → Qv) (hq : qp .sentinel = (qint (-1), qint (-1))) :
    let m : List (List α) := meanRates C K sims
    let R : Result α := spatialTest C K sims obs
    let o := spatialOut computeLikelihood
      (fun d v => match v with | some x => qp (quantiles (d.filterMap id) x) | none => (qint (-1), qint (-1))) qint
      (spatialRates m) (totalRate m) (sims.map (spatialCounts C)) (spatialCounts C obs)
    o.dist = R.distribution.map some ∧ o.observed = R.observed ∧ o.quantile = qp R.quantile
      ∧ o.status = statusStr R.status := by
  intro m R o
  have hdist : (if PySM.anyNan (List.map (fun g => (computeLikelihood g (spatialRates m) (totalRate m) (spatialCounts C obs).sum).2)
        (sims.map (spatialCounts C))) = true
      then PySM.maskSel (List.map (fun g => (computeLikelihood g (spatialRates m) (totalRate m) (spatialCounts C obs).sum).2)
            (sims.map (spatialCounts C)))
          ((List.map (fun g => (computeLikelihood g (spatialRates m) (totalRate m) (spatialCounts C obs).sum).2)
            (sims.map (spatialCounts C))).map (fun x => !(PySM.isNan x)))
      else List.map (fun g => (computeLikelihood g (spatialRates m) (totalRate m) (spatialCounts C obs).sum).2)
            (sims.map (spatialCounts C)))
      = ((sims.map fun g => (computeLikelihood (spatialCounts C g) (spatialRates m) (totalRate m) (spatialCounts C obs).sum).2).filterMap id).map some := by
    have key : List.map (fun g => (computeLikelihood g (spatialRates m) (totalRate m) (spatialCounts C obs).sum).2)
          (sims.map (spatialCounts C))
        = sims.map fun g => (computeLikelihood (spatialCounts C g) (spatialRates m) (totalRate m) (spatialCounts C obs).sum).2 := by
      simp [List.map_map, Function.comp_def]
    rw [key]
    split
    · exact maskSel_notNan (α := α) _
    · rename_i h; exact noNan_eq (α := α) _ (by simpa using h)
  simp only [o, R, spatialOut, spatialTest, hdist]
  cases hfirst : (computeLikelihood (spatialCounts C obs) (spatialRates m) (totalRate m) (spatialCounts C obs).sum).2 with
  | none =>
    by_cases h0 : (spatialCounts C obs).sum = 0 <;> simp [PySM.isNegInf, PySM.isNan, h0, hq, statusStr, m]
  | some v =>
    cases v with
    | negInf =>
      simp only [PySM.isNegInf, if_true, maskSel_eq_maskBy, goodMask, CatEvals.isZero, PySM.isZeroR]
      by_cases h0 : (spatialCounts C obs).sum = 0
      · simp [h0, hq, statusStr, m, PySM.isNan]
      · cases hsec : (computeLikelihood (maskBy (List.map (fun x => !(RealOps.le x RealOps.zero && RealOps.le RealOps.zero x)) (spatialRates m)) (spatialCounts C obs))
            (maskBy (List.map (fun x => !(RealOps.le x RealOps.zero && RealOps.le RealOps.zero x)) (spatialRates m)) (spatialRates m)) (totalRate m) (spatialCounts C obs).sum).2 <;>
          simp [h0, hq, statusStr, m, PySM.isNan, hsec, List.filterMap_map, Function.comp_def]
    | fin x =>
      by_cases h0 : (spatialCounts C obs).sum = 0 <;>
        simp [PySM.isNegInf, PySM.isNan, h0, hq, statusStr, m, List.filterMap_map, Function.comp_def]

/-! ### `pseudolikelihood_test` (verbose=False) -/

/-- the last part of `pseudolikelihood_test`: nan entries removed, `not-valid` + sentinel or the quantiles -/
def plFinish {Qv : Type} (getq : List (Option (ELL α)) → Option (ELL α) → Qv × Qv) (qint : Int → Qv)
    (nObs : Nat) (dist0 : List (Option (ELL α))) (v : Option (ELL α)) (st : String) : SpatialOut α Qv :=
  let dist := if PySM.anyNan dist0 then PySM.maskSel dist0 (dist0.map (fun x => !(PySM.isNan x))) else dist0
  if decide (nObs = 0) || PySM.isNan v then ⟨dist, v, (qint (-1), qint (-1)), "not-valid"⟩
  else ⟨dist, v, getq dist v, st⟩

/-- what `pseudolikelihood_test` computes after the pass (observed catalog not empty), for an arbitrary
    `_compute_likelihood` (first component used; nan allowed) / `get_quantiles`; `none` = the function returns `None` -/
def plOut {Qv : Type} (cl : List Nat → List α → α → Nat → Option (ELL α) × Option (ELL α))
    (getq : List (Option (ELL α)) → Option (ELL α) → Qv × Qv) (qint : Int → Qv)
    (rates : List α) (ecc : α) (gcats : List (List Nat)) (gObs : List Nat) : Option (SpatialOut α Qv) :=
  let nObs := gObs.sum
  let dist0 := gcats.map (fun g => (cl g rates ecc nObs).1)
  let first := (cl gObs rates ecc nObs).1
  let keep := rates.map (fun x => !(PySM.isZeroR x))
  if PySM.isNegInf first then
    if (PySM.maskSel gObs keep).sum = 0 then none
    else some (plFinish getq qint nObs dist0 (cl (PySM.maskSel gObs keep) (PySM.maskSel rates keep) ecc nObs).1 "undersampled")
  else some (plFinish getq qint nObs dist0 first "normal")

theorem catalog_pseudolikelihood_test_eq_model {Qv Result MinMw ObsRepr FName ObsName Forecast Obs Cat Region GF : Type}
    (cl : List Nat → List α → α → Nat → Option (ELL α) × Option (ELL α))
    (getq : List (Option (ELL α)) → Option (ELL α) → Qv × Qv)
    (mk : List (Option (ELL α)) → String → Option (ELL α) → Qv × Qv → String → MinMw → ObsRepr → FName → ObsName → Result)
    (ger : Forecast → M (GF × Forecast)) (gsum : GF → α) (gsc : GF → List α) (osc : Obs → M (List Nat))
    (csc : Cat → M (List Nat)) (qint : Int → Qv) (iter : Forecast → M (List Cat × Forecast))
    (fregion : Forecast → Option Region) (fer : Forecast → Option GF) (fname : Forecast → FName)
    (fmin : Forecast → MinMw) (ocnt : Obs → Nat) (oname : Obs → ObsName) (ostr : Obs → ObsRepr)
    (fc : Forecast) (obs : Obs) (hreg : (fregion fc).isNone = false) :
    -- an empty observed catalog: `None`, the forecast untouched
    (ocnt obs = 0 →
      SrcSM.catalog_pseudolikelihood_test cl getq mk ger gsum gsc osc csc qint iter fregion fer fname fmin ocnt oname ostr
        fc obs = Except.ok (none, fc)) ∧
    -- otherwise, for what the opaque objects answer
    (ocnt obs ≠ 0 →
      ∀ (fc1 : Forecast) (gf : GF) (gObs : List Nat) (ys : List Cat) (gcats : List (List Nat)) (fc2 : Forecast),
      (match fer fc with | some _ => Except.ok fc | none => (ger fc).map (·.2)) = Except.ok fc1 →
      fer fc1 = some gf → osc obs = Except.ok gObs → iter fc1 = Except.ok (ys, fc2) →
      ys.map csc = gcats.map Except.ok → (gsc gf).length = gObs.length →
      SrcSM.catalog_pseudolikelihood_test cl getq mk ger gsum gsc osc csc qint iter fregion fer fname fmin ocnt oname ostr
        fc obs
        = Except.ok ((plOut cl getq qint (gsc gf) (gsum gf) gcats gObs).map (fun o =>
            mk o.dist "PL-Test" o.observed o.quantile o.status (fmin fc2) (ostr obs) (fname fc2) (oname obs)), fc2)) := by
  refine ⟨fun h0 => ?_, fun hne fc1 gf gObs ys gcats fc2 hfc1 hgf hobs hp hcats hlen => ?_⟩
  · unfold SrcSM.catalog_pseudolikelihood_test
    simp only [hreg, Bool.false_eq_true, if_false, bind_ok'', h0, decide_true, if_true]
  unfold SrcSM.catalog_pseudolikelihood_test
  have hk : ((gsc gf).map (fun x => !(PySM.isZeroR x))).length = gObs.length := by simp [hlen]
  have hk2 : (gsc gf).length = ((gsc gf).map (fun x => !(PySM.isZeroR x))).length := by simp
  have hloop := forLoop_append_stat csc (fun g => (cl g (gsc gf) (gsum gf) gObs.sum).1) ys gcats 0 [] hcats
  simp only [PySM.append, List.nil_append] at hloop
  have hd : decide (ocnt obs = 0) = false := by simp [hne]
  cases hf : fer fc with
  | some g =>
    have e1 : fc1 = fc := by simp only [hf] at hfc1; cases hfc1; rfl
    subst e1
    have e2 : gf = g := by rw [hf] at hgf; exact (Option.some.inj hgf).symm
    subst e2
    simp only [hreg, hd, hf, Option.isNone_some, Bool.false_eq_true, if_false, ite_self, bind_ok'']
    simp only [PySM.getObj, bind_ok'', hobs, hp, PySM.enumerate]
    simp only [PySM.append]
    rw [hloop]
    simp only [bind_ok'', maskSel_length_eq _ _ hk.symm, maskSel_length_eq _ _ hk2]
    simp only [plOut, plFinish]
    simp only [bind_ite_ok, bind_ok'', PySM.maskSelect, List.length_map, if_true, List.map_map, Function.comp_def]
    by_cases hn : PySM.isNegInf (cl gObs (gsc gf) (gsum gf) gObs.sum).1 = true <;>
    by_cases ha : PySM.anyNan (gcats.map (fun g => (cl g (gsc gf) (gsum gf) gObs.sum).1)) = true <;>
    simp only [hn, ha, if_true, if_false, Bool.false_eq_true, decide_eq_true_eq] <;>
    (first
      | rfl
      | (split <;> rename_i hc <;> simp only [hc, if_true, if_false, Bool.false_eq_true, Option.map] <;>
          (first
            | rfl
            | (split <;> rename_i hc2 <;> simp only [hc2, if_true, if_false, Bool.false_eq_true, Option.map]))))
  | none =>
    have hg : ∃ g', ger fc = Except.ok (g', fc1) := by
      simp only [hf] at hfc1
      cases hg : ger fc with
      | error e => simp [hg, Except.map] at hfc1
      | ok r => simp only [hg, Except.map, Except.ok.injEq] at hfc1; exact ⟨r.1, by rw [← hfc1]⟩
    obtain ⟨g', hg'⟩ := hg
    simp only [hreg, hd, hf, Option.isNone_none, if_true, Bool.false_eq_true, if_false, ite_self, hg', bind_ok'']
    simp only [hgf, PySM.getObj, bind_ok'', hobs, hp, PySM.enumerate]
    simp only [PySM.append]
    rw [hloop]
    simp only [bind_ok'', maskSel_length_eq _ _ hk.symm, maskSel_length_eq _ _ hk2]
    simp only [plOut, plFinish]
    simp only [bind_ite_ok, bind_ok'', PySM.maskSelect, List.length_map, if_true, List.map_map, Function.comp_def]
    by_cases hn : PySM.isNegInf (cl gObs (gsc gf) (gsum gf) gObs.sum).1 = true <;>
    by_cases ha : PySM.anyNan (gcats.map (fun g => (cl g (gsc gf) (gsum gf) gObs.sum).1)) = true <;>
    simp only [hn, ha, if_true, if_false, Bool.false_eq_true, decide_eq_true_eq] <;>
    (first
      | rfl
      | (split <;> rename_i hc <;> simp only [hc, if_true, if_false, Bool.false_eq_true, Option.map] <;>
          (first
            | rfl
            | (split <;> rename_i hc2 <;> simp only [hc2, if_true, if_false, Bool.false_eq_true, Option.map]))))

theorem anyNan_map_some {β : Type} (f : β → ELL α) (l : List β) :
    PySM.anyNan (l.map fun g => some (f g)) = false := by
  induction l with
  | nil => rfl
  | cons x xs ih => simpa [PySM.anyNan, PySM.isNan] using ih

open CatEvals in
/-- `plOut` with the hand model's `_compute_likelihood` (first component: never nan), rates and counts is
    `CatEvals.pseudolikelihoodTest` for an observed catalog with events in the region (`Proofs/CatalogEvals.lean`
    `spatialCounts_sum_eq`: the sum of the spatial counts is the event count when the matrix has at most `C` rows) -/
theorem plOut_eq_pseudolikelihoodTest {Qv : Type} (C K : Nat) (sims : List Grid) (obs : Grid) (qp : Quant → Qv × Qv)
    (qint : Int → Qv) (hev : eventCount obs ≠ 0) (hs : (spatialCounts C obs).sum ≠ 0) :
    let m : List (List α) := meanRates C K sims
    (plOut (fun g r e n => (some (computeLikelihood g r e n).1, (computeLikelihood g r e n).2))
      (fun d v => match v with | some x => qp (quantiles (d.filterMap id) x) | none => (qint (-1), qint (-1))) qint
      (spatialRates m) (totalRate m) (sims.map (spatialCounts C)) (spatialCounts C obs)).map
        (fun o => (o.dist, o.observed, o.quantile, o.status))
      = (pseudolikelihoodTest C K sims obs).map
        (fun (R : Result α) => (R.distribution.map some, R.observed, qp R.quantile, statusStr R.status)) := by
  intro m
  have hfm : ∀ (l : List (ELL α)), (l.map some).filterMap id = l := by
    intro l; induction l with
    | nil => rfl
    | cons x xs ih => simp
  have hmask : ∀ (r : List α), List.map (fun x => !(PySM.isZeroR x)) r = goodMask r := fun _ => rfl
  simp only [m, plOut, plFinish, pseudolikelihoodTest, hev, if_false, hmask, maskSel_eq_maskBy]
  generalize spatialRates (meanRates (α := α) C K sims) = rates
  generalize totalRate (meanRates (α := α) C K sims) = ecc
  generalize goodMask rates = keep
  generalize hgo : spatialCounts C obs = gObs at hs
  have key : List.map (fun g => some (computeLikelihood g rates ecc gObs.sum).1) (sims.map (spatialCounts C))
      = (sims.map fun g => (computeLikelihood (spatialCounts C g) rates ecc gObs.sum).1).map some := by
    simp [List.map_map, Function.comp_def]
  have hnn : PySM.anyNan (List.map (fun g => some (computeLikelihood g rates ecc gObs.sum).1)
        (sims.map (spatialCounts C))) = false := anyNan_map_some _ _
  simp only [hnn, Bool.false_eq_true, if_false]
  rw [key]
  generalize (sims.map fun g => (computeLikelihood (spatialCounts C g) rates ecc gObs.sum).1) = dist
  have hd : decide (gObs.sum = 0) = false := by simp [hs]
  cases hfirst : (computeLikelihood gObs rates ecc gObs.sum).1 with
  | negInf =>
    simp only [PySM.isNegInf, if_true]
    split
    · rfl
    · simp only [Option.map_some, hd, PySM.isNan, Option.isNone_some, Bool.or_self, Bool.false_eq_true, if_false, hfm,
        statusStr]
  | fin x =>
    simp only [PySM.isNegInf, Bool.false_eq_true, if_false, Option.map_some, hd, PySM.isNan, Option.isNone_some,
      Bool.or_self, hfm, statusStr]

/-! ### `magnitude_test` (verbose=False) -/

/-- one catalog after the other: `catalog.magnitude_counts()` (may raise), `continue` or one value appended -/
theorem forLoop_append_opt {Cat β : Type} (sc : Cat → M (List Nat)) (f : List Nat → Option β)
    (B : List β → Nat × Cat → M (Ctl (List β)))
    (hB : ∀ s x g, sc x.2 = Except.ok g → B s x = Except.ok (Ctl.next (s ++ (f g).toList))) :
    ∀ (ys : List Cat) (gs : List (List Nat)) (k : Nat) (acc : List β),
      ys.map sc = gs.map Except.ok →
      PySM.forLoop (σ := List β) B (PySM.enumerateFrom k ys) acc = Except.ok (acc ++ gs.filterMap f)
  | [], [], k, acc, _ => by simp [PySM.enumerateFrom, PySM.forLoop]
  | [], _ :: _, _, _, h => by simp at h
  | _ :: _, [], _, _, h => by simp at h
  | y :: ys, g :: gs, k, acc, h => by
    simp only [List.map_cons, List.cons.injEq] at h
    simp only [PySM.enumerateFrom, PySM.forLoop, hB acc (k, y) g h.1]
    rw [forLoop_append_opt sc f B hB ys gs (k + 1) _ h.2]
    cases hf : f g <;> simp [List.filterMap_cons, hf]

structure MagOut (α Qv : Type) where
  dist : List α
  observed : α
  quantile : Qv × Qv

/-- the statistic of one catalog; `none` = skipped (`continue`) -/
def magStat (csd : List α → List α → α) (nObs : Nat) (l10su : List α) (mc : List Nat) : Option α :=
  if mc.sum = 0 then none
  else some (csd (List.map PySM.log10 (List.map (fun x => RealOps.add x RealOps.one)
    (mc.map fun c => RealOps.mul (RealOps.ofNat c) (RealOps.div (RealOps.ofNat nObs) (RealOps.ofNat mc.sum))))) l10su)

/-- what `magnitude_test` computes after the pass (observed catalog not empty), for an arbitrary `cumulative_square_diff` /
    `get_quantiles` -/
def magOut {Qv : Type} (csd : List α → List α → α) (getq : List α → α → Qv × Qv)
    (union : List α) (mcs : List (List Nat)) (hObs : List Nat) : MagOut α Qv :=
  let nObs := hObs.sum
  let scaled := union.map fun u => RealOps.mul u (RealOps.div (RealOps.ofNat nObs) (Py.rsum union))
  let l10su := List.map PySM.log10 (scaled.map fun x => RealOps.add x RealOps.one)
  let dist := mcs.filterMap (magStat csd nObs l10su)
  let obsD := csd ((hObs.map (· + 1)).map fun n => PySM.log10 (RealOps.ofNat n : α)) l10su
  ⟨dist, obsD, getq dist obsD⟩

theorem catalog_magnitude_test_eq_model {Qv Result MinMw ObsRepr ObsName FName Forecast Obs Cat Region Mags GF : Type}
    (getq : List α → α → Qv × Qv) (csd : List α → List α → α)
    (mk : List α → String → Option α → Option Qv × Option Qv → String → MinMw → ObsRepr → ObsName → FName → Result)
    (ger : Forecast → M (GF × Forecast)) (gmc : GF → List α) (omc : Obs → M (List Nat)) (cmc : Cat → M (List Nat))
    (iter : Forecast → M (List Cat × Forecast)) (fregion : Forecast → Option Region) (fer : Forecast → Option GF)
    (fname : Forecast → FName) (fmin : Forecast → MinMw) (ocnt : Obs → Nat) (oname : Obs → ObsName) (ostr : Obs → ObsRepr)
    (rmags : Region → Option Mags) (fc : Forecast) (obs : Obs)
    (reg : Region) (hreg : fregion fc = some reg) (hmags : (rmags reg).isNone = false) :
    -- an empty observed catalog: the `not-valid` result with nothing in it, the forecast untouched
    (ocnt obs = 0 →
      SrcSM.catalog_magnitude_test getq csd mk ger gmc omc cmc iter fregion fer fname fmin ocnt oname ostr rmags fc obs
        = Except.ok (mk [] "M-Test" none (none, none) "not-valid" (fmin fc) (ostr obs) (oname obs) (fname fc), fc)) ∧
    -- otherwise, for what the opaque objects answer
    (ocnt obs ≠ 0 →
      ∀ (fc1 : Forecast) (gf : GF) (hObs : List Nat) (ys : List Cat) (mcs : List (List Nat)) (fc2 : Forecast),
      (match fer fc with | some _ => Except.ok fc | none => (ger fc).map (·.2)) = Except.ok fc1 →
      fer fc1 = some gf → omc obs = Except.ok hObs → iter fc1 = Except.ok (ys, fc2) →
      ys.map cmc = mcs.map Except.ok →
      SrcSM.catalog_magnitude_test getq csd mk ger gmc omc cmc iter fregion fer fname fmin ocnt oname ostr rmags fc obs
        = (let o := magOut csd getq (gmc gf) mcs hObs
           Except.ok (mk o.dist "M-Test" (some o.observed) (some o.quantile.1, some o.quantile.2) "normal" (fmin fc2)
             (ostr obs) (oname obs) (fname fc2), fc2))) := by
  refine ⟨fun h0 => ?_, fun hne fc1 gf hObs ys mcs fc2 hfc1 hgf hobs hp hcats => ?_⟩
  · unfold SrcSM.catalog_magnitude_test
    simp only [hreg, PySM.getObj, hmags, Bool.false_eq_true, if_false, bind_ok'', h0, decide_true, if_true]
  unfold SrcSM.catalog_magnitude_test
  have hd : decide (ocnt obs = 0) = false := by simp [hne]
  have hfc : (if (fer fc).isNone then Except.bind (ger fc) fun m => (Except.ok m.2 : M Forecast) else Except.ok fc)
      = Except.ok fc1 := by
    cases hf : fer fc with
    | some g => simp only [hf] at hfc1; cases hfc1; simp
    | none =>
      simp only [hf] at hfc1
      cases hg : ger fc with
      | error e => simp [hg, Except.map] at hfc1
      | ok r =>
        simp only [hg, Except.map, Except.ok.injEq] at hfc1
        simp [bind_ok'', hfc1]
  simp only [hreg, PySM.getObj, hmags, Bool.false_eq_true, if_false, bind_ok'', hd]
  rw [hfc]
  simp only [bind_ok'', hgf, hobs, hp, PySM.enumerate]
  rw [forLoop_append_opt cmc (magStat csd hObs.sum
      (List.map PySM.log10 (List.map (fun x => RealOps.add x RealOps.one)
        (List.map (fun u => RealOps.mul u (RealOps.div (RealOps.ofNat hObs.sum) (Py.rsum (gmc gf)))) (gmc gf))))) _ ?hB
      ys mcs 0 [] hcats]
  case hB =>
    intro s x g hg
    simp only [hg, bind_ok'', magStat, PySM.append]
    by_cases h : g.sum = 0 <;> simp [h]
  simp only [bind_ok'', List.nil_append, magOut]

open CatEvals in
/-- `magOut` with the hand model's `cumulative_square_diff`, union histogram and counts is `CatEvals.magnitudeTest` for an
    observed catalog with events and a forecast with at least one event (`n_union_events ≠ 0`: the division is in the real
    layer). The model writes the observed histogram as `log10(c·1 + 1)`, the code as `log10(float(c + 1))`: equal under the
    two laws `x·1 = x` and `float(n + 1) = float(n) + 1` of the real layer (hypotheses; true in ℝ) -/
theorem magOut_eq_magnitudeTest {Qv : Type} (C K : Nat) (sims : List Grid) (obs : Grid) (qp : Quant → Qv × Qv)
    (hmul1 : ∀ x : α, RealOps.mul x RealOps.one = x)
    (hof : ∀ n : Nat, (RealOps.ofNat (n + 1) : α) = RealOps.add (RealOps.ofNat n) RealOps.one)
    (hev : eventCount obs ≠ 0)
    (hz : CatEvals.isZero (RealOps.sum (magRates K (meanRates (α := α) C K sims))) = false) :
    let m : List (List α) := meanRates C K sims
    let R : Result α := magnitudeTest C K sims obs
    let o := magOut cumulativeSquareDiff (fun d v => qp (quantiles (d.map ELL.fin) (.fin v)))
      (magRates K m) (sims.map (magCounts K)) (magCounts K obs)
    o.dist.map ELL.fin = R.distribution ∧ some (ELL.fin o.observed) = R.observed ∧ o.quantile = qp R.quantile
      ∧ R.status = .normal := by
  intro m R o
  have hlog : ∀ (mc : List Nat) (sc : α),
      List.map PySM.log10 (List.map (fun x => RealOps.add x RealOps.one) (mc.map fun c => RealOps.mul (RealOps.ofNat c) sc))
        = logHist mc sc := by
    intro mc sc; simp only [logHist, List.map_map, Function.comp_def]; rfl
  have hobsH : ∀ (h : List Nat), (h.map (· + 1)).map (fun n => PySM.log10 (RealOps.ofNat n : α)) = logHist h RealOps.one := by
    intro h; simp only [logHist, List.map_map, Function.comp_def, hof, hmul1]; rfl
  have hl10 : ∀ (l : List α), List.map PySM.log10 (l.map fun x => RealOps.add x RealOps.one)
      = l.map fun x => CatEvals.log10 (RealOps.add x RealOps.one) := by
    intro l; simp only [List.map_map, Function.comp_def]; rfl
  have hstat : ∀ (n : Nat) (l : List α) (mc : List Nat),
      (magStat cumulativeSquareDiff n l mc).map ELL.fin = dStat n l mc := by
    intro n l mc
    simp only [magStat, dStat, hlog]
    by_cases h : mc.sum = 0 <;> simp [h]
  have hdist : ∀ (n : Nat) (l : List α),
      ((sims.map (magCounts K)).filterMap (magStat cumulativeSquareDiff n l)).map ELL.fin
        = sims.filterMap fun g => dStat n l (magCounts K g) := by
    intro n l
    rw [List.filterMap_map, List.map_filterMap]
    congr 1; funext g; simp only [Function.comp_def, ← hstat]
  simp only [o, R, m, magOut, magnitudeTest, hev, if_false, hz, Bool.false_eq_true, Py.rsum, hl10, hobsH, hdist]
  exact ⟨trivial, trivial, trivial, trivial⟩

end Spatial

end SrcSM
