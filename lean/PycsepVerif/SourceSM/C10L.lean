import PycsepVerif.GeneratedSrcSM
import PycsepVerif.Model.CatalogEvals
import PycsepVerif.SourceSM.LoopLemmas
/-!
# Source tie of C10 (imperative code): `catalog_evaluations.number_test`, generated from the Python source, equals the hand
# model (Model/CatalogEvals.lean: `numberTest`)

`SrcSM.catalog_number_test` is regenerated from `csep/core/catalog_evaluations.py` on every run (`verbose=False`):
`for i, catalog in enumerate(forecast)` is ONE pass over the forecast (opaque `iter_forecast`: the catalogs it yields and the
forecast after the pass, which is part of the result), the body appends `catalog.event_count`; then
`get_quantiles(event_counts, obs_count)` (opaque here; py2lean ties `stats.get_quantiles` to `Ecdf.getQuantiles`) and the
result constructor with its nine keyword arguments (opaque; the two string literals are in the theorem).

`catalog_number_test_eq_model`: for every pass result the distribution handed to `get_quantiles` and to the constructor is
the list of the catalogs' event counts in pass order, the observed statistic is the observed catalog's count — the fields
of `CatEvals.numberTest` (`numberTest_fields`: with `Cat = Grid`, `event_count = eventCount`).
-/
set_option linter.unusedSimpArgs false
namespace SrcSM
open PySM

theorem forLoop_append_counts {Cat : Type} (f : Cat → Nat) : ∀ (ys : List Cat) (k : Nat) (acc : List Nat),
    PySM.forLoop (σ := List Nat) (fun s (x : Nat × Cat) => Except.ok (Ctl.next (PySM.append s (f x.2))))
      (PySM.enumerateFrom k ys) acc = Except.ok (acc ++ ys.map f)
  | [], k, acc => by simp [PySM.enumerateFrom, PySM.forLoop]
  | y :: ys, k, acc => by
    simp only [PySM.enumerateFrom, PySM.forLoop, PySM.append]
    rw [show (fun s (x : Nat × Cat) => (Except.ok (Ctl.next (s ++ [f x.2])) : M (Ctl (List Nat))))
          = (fun s (x : Nat × Cat) => Except.ok (Ctl.next (PySM.append s (f x.2)))) from rfl,
      forLoop_append_counts f ys (k + 1)]
    simp

theorem catalog_number_test_eq_model {Qv Result ObsRepr FName MinMw ObsName Forecast Obs Cat : Type}
    (getq : List Nat → Nat → Qv × Qv)
    (mk : List Nat → String → Nat → Qv × Qv → String → ObsRepr → FName → MinMw → ObsName → Result)
    (iter : Forecast → M (List Cat × Forecast)) (cnt : Cat → Nat) (ocnt : Obs → Nat) (oname : Obs → ObsName)
    (ostr : Obs → ObsRepr) (fname : Forecast → FName) (fmin : Forecast → MinMw) (fc : Forecast) (obs : Obs)
    (ys : List Cat) (fc' : Forecast) (hp : iter fc = Except.ok (ys, fc')) :
    SrcSM.catalog_number_test getq mk iter cnt ocnt oname ostr fname fmin fc obs
      = Except.ok (mk (ys.map cnt) "Catalog N-Test" (ocnt obs) (getq (ys.map cnt) (ocnt obs)) "normal" (ostr obs)
          (fname fc') (fmin fc') (oname obs), fc') := by
  unfold SrcSM.catalog_number_test
  simp only [hp, bind_ok'', PySM.enumerate]
  rw [forLoop_append_counts cnt ys 0 []]
  simp [bind_ok'']

/-- the fields of the hand model's number test for catalogs given as count grids -/
theorem numberTest_fields (sims : List CatEvals.Grid) (obs : CatEvals.Grid) :
    (CatEvals.numberTest sims obs).distribution = sims.map CatEvals.eventCount ∧
    (CatEvals.numberTest sims obs).observed = CatEvals.eventCount obs := ⟨rfl, rfl⟩

end SrcSM
