import PycsepVerif.GeneratedSrcSM
import PycsepVerif.Model.PoissonStream
import PycsepVerif.SourceSM.C06
import PycsepVerif.SourceSM.LoopLemmas
/-!
# Source tie of C05 / C06 (imperative code): the simulation loop of `_poisson_likelihood_test`, generated from the Python
# source, equals the hand model (Model/PoissonTest.lean `simLoop`, Model/PoissonStream.lean `chunks`, the `<=` quantile)

`SrcSM.poisson_test_loop` (numbers from the global generator) and `SrcSM.poisson_test_loop_injected` (`random_numbers`
given) are regenerated from `csep/core/poisson_evaluations.py` on every run: the seeding `if seed is not None:
numpy.random.seed(seed)` (a seed of 0 IS applied: the test is on `None`), the loop over `range(num_simulations)` with
the number of events per simulation (`int(n_obs)` or the next Poisson draw), the call of `_simulate_catalog` (the generated
definition tied in SourceSM/C06.lean, count assertion included), the statistic of the simulated array, the list of
statistics, and after the loop the observed statistic and `qs = numpy.sum(simulated_ll <= obs_ll) / num_simulations`.

What is computed before the loop is a parameter (`sampling_weights`, `log_bin_expectations`, `expected_forecast_count`,
`n_obs`, the observed target arrays, `sim_fore`, the initial `simulated_ll`), and so is
`poisson_joint_log_likelihood_ndarray` (`jl`): the theorems hold for all of them. The statistic of a count array is
`statG`, written out below exactly as the source computes it (`numpy.nonzero`, the two gathers, the product, `jl`).

* `…_eq_model`: the generated definition is the iteration of `refStep` (one simulation, exact exceptions) from the stream
  the seed selects, followed by `finish` (observed statistic, `<=` count, division).
* `ref_sims`: the iteration succeeds exactly when the model's `chunks` / `simLoop` do, and then the statistics appended are
  those of the model's simulated arrays, in order; the numbers of events are `replicate nsim n_obs` or the first `nsim`
  Poisson draws, as in `PoissonTest.runStream`.
-/
set_option linter.unusedSimpArgs false
namespace SrcSM
open PySM Sampler PoissonTest
variable {α : Type} [RealOps α]

/-- the statistic of one count array (poisson_evaluations.py:671-681) for an arbitrary `poisson_joint_log_likelihood_ndarray` -/
def statG (jl : List (ELL α) → List Nat → α → ELL α) (logs : List (ELL α)) (e : α) (arr : List Nat) : ELL α :=
  jl (List.zipWith (fun x y => Py.emulNat x y) (Py.gather logs (Py.nonzeroIdx arr)) (Py.gather arr (Py.nonzeroIdx arr)))
    (Py.gather arr (Py.nonzeroIdx arr)) e

/-- loop state: (uniform stream, Poisson stream, sim_fore, simulated_ll) -/
abbrev St (α : Type) := List Rat × List Nat × List Nat × List (ELL α)

/-- `num_events_to_simulate` (lines 660-664) -/
def nextCount (useObs : Bool) (nObs : Nat) (pois : List Nat) : M (List Nat × Nat) :=
  if useObs then Except.ok (pois, nObs)
  else match pois with
    | [] => Except.error .rngExhausted
    | k :: rest => Except.ok (rest, k)

/-- one simulation on the global generator -/
def refStep (jl : List (ELL α) → List Nat → α → ELL α) (logs : List (ELL α)) (e : α) (ws : List Rat) (useObs : Bool)
    (nObs : Nat) (s : St α) : M (St α) :=
  Except.bind (nextCount useObs nObs s.2.1) fun q =>
    Except.bind (SrcSM.simulate_catalog_rand s.1 q.2 ws s.2.2.1) fun p =>
      Except.ok (p.2, q.1, p.1, s.2.2.2 ++ [statG jl logs e p.1])

/-- the list of statistics of a finished iteration, `none` for an exception -/
def llOf : M (St α) → Option (List (ELL α))
  | .ok s => some s.2.2.2
  | .error _ => none

/-- after the loop (lines 688-698) -/
def finish (jl : List (ELL α) → List Nat → α → ELL α) (tef : List (ELL α)) (odn : List Nat) (e : α) (nsim : Int)
    (r : M (St α)) : M ((Rat × ELL α × List (ELL α)) × List Rat × List Nat) :=
  match r with
  | .error x => .error x
  | .ok s =>
    .ok ((Py.intTrueDiv ((PySM.countTrue (s.2.2.2.map (fun x => PySM.ellLe x (jl tef odn e))) : Nat) : Int) nsim,
          jl tef odn e, s.2.2.2), s.1, s.2.1)

/-- the body of the generated loop is `refStep` -/
macro "plt_body" : tactic => `(tactic| (
  intro s i
  obtain ⟨rng, pois, sf, ll⟩ := s
  simp only [refStep, nextCount]
  cases huo : (‹Bool›) <;> simp only [huo, if_true, if_false, Bool.false_eq_true]
  all_goals first
    | (cases pois with
       | nil => simp [PySM.rngPoisson, Except.bind]
       | cons k rest =>
         simp only [PySM.rngPoisson, bind_ok'']
         cases SrcSM.simulate_catalog_rand rng k _ sf <;> simp [statG, PySM.append, Except.bind])
    | (simp only [bind_ok'']
       cases SrcSM.simulate_catalog_rand rng _ _ sf <;> simp [statG, PySM.append, Except.bind])))

theorem poisson_test_loop_eq_model (jl : List (ELL α) → List Nat → α → ELL α) (seedRng : Int → List Rat)
    (seedPois : Int → List Nat) (rng : List Rat) (pois : List Nat) (nsim : Int) (seed : Option Int) (useObs : Bool)
    (ws : List Rat) (sf : List Nat) (ll : List (ELL α)) (nObs : Nat) (e : α) (logs : List (ELL α)) (odn : List Nat)
    (tef : List (ELL α)) :
    SrcSM.poisson_test_loop jl seedRng seedPois rng pois nsim seed useObs ws sf ll nObs e logs odn tef
      = finish jl tef odn e nsim (iter (refStep jl logs e ws useObs nObs) nsim.toNat
          (match seed with
           | none => (rng, pois, sf, ll)
           | some s => (seedRng s, seedPois s, sf, ll))) := by
  unfold SrcSM.poisson_test_loop
  cases seed with
  | none =>
    simp only []
    rw [forLoop_const _ (refStep jl logs e ws useObs nObs) (by plt_body), range_length]
    cases iter (refStep jl logs e ws useObs nObs) nsim.toNat (rng, pois, sf, ll) <;> simp [finish, Except.bind]
  | some s =>
    simp only []
    rw [forLoop_const _ (refStep jl logs e ws useObs nObs) (by plt_body), range_length]
    cases iter (refStep jl logs e ws useObs nObs) nsim.toNat (seedRng s, seedPois s, sf, ll) <;> simp [finish, Except.bind]

/-! ## the iteration against the model's `chunks` / `simLoop` -/

theorem simulateFrom_length (ws : List Rat) : ∀ (draws : List Rat) (arr a : List Nat),
    simulateFrom ws arr draws = some a → a.length = arr.length
  | [], arr, a, h => by simp [simulateFrom] at h; rw [← h]
  | r :: rs, arr, a, h => by
    simp only [simulateFrom, bump] at h
    by_cases hl : searchRight ws r < arr.length
    · simp only [hl, if_true] at h
      have := simulateFrom_length ws rs _ a h
      simpa using this
    · simp [hl] at h

/-- the numbers of events of `k` simulations: `int(n_obs)` each, or the next `k` Poisson draws -/
def countsOf (useObs : Bool) (nObs : Nat) (pois : List Nat) (k : Nat) : Option (List Nat) :=
  if useObs then some (List.replicate k nObs) else if k ≤ pois.length then some (pois.take k) else none

/-- the model's simulated arrays for `k` simulations on the streams (PoissonStream.runStream without the statistics) -/
def modelSims (ws : List Rat) (useObs : Bool) (nObs : Nat) (k : Nat) (rng : List Rat) (pois : List Nat) :
    Option (List (List Nat)) :=
  match countsOf useObs nObs pois k with
  | none => none
  | some ns =>
    match chunks ns rng with
    | none => none
    | some rows => simLoop ws ns rows

/-- one more simulation in front, in the model -/
def modelStep (ws : List Rat) (n : Nat) (rng : List Rat) (tail : Option (List (List Nat))) : Option (List (List Nat)) :=
  if rng.length < n then none
  else match simulate ws (rng.take n) with
    | some arr => if countAssert arr n then tail.map (arr :: ·) else none
    | none => none

theorem modelSims_succ_true (ws : List Rat) (nObs k : Nat) (rng : List Rat) (pois : List Nat) :
    modelSims ws true nObs (k + 1) rng pois
      = modelStep ws nObs rng (modelSims ws true nObs k (rng.drop nObs) pois) := by
  simp only [modelSims, countsOf, if_true, List.replicate_succ, chunks, modelStep]
  by_cases hn : rng.length < nObs
  · simp [hn]
  · simp only [hn, if_false]
    cases chunks (List.replicate k nObs) (rng.drop nObs) with
    | none => cases simulate ws (rng.take nObs) <;> simp
    | some rows => simp only [Option.map_some, simLoop]; rfl

theorem modelSims_succ_false (ws : List Rat) (nObs k n : Nat) (rng : List Rat) (rest : List Nat) :
    modelSims ws false nObs (k + 1) rng (n :: rest)
      = modelStep ws n rng (modelSims ws false nObs k (rng.drop n) rest) := by
  simp only [modelSims, countsOf, Bool.false_eq_true, if_false, modelStep]
  by_cases hkr : k ≤ rest.length
  · have hk1 : k + 1 ≤ (n :: rest).length := by simp; omega
    simp only [hk1, hkr, if_true, List.take_succ_cons, chunks]
    by_cases hn : rng.length < n
    · simp [hn]
    · simp only [hn, if_false]
      cases chunks (rest.take k) (rng.drop n) with
      | none => cases simulate ws (rng.take n) <;> simp
      | some rows => simp only [Option.map_some, simLoop]; rfl
  · have hk1 : ¬ (k + 1 ≤ (n :: rest).length) := by simp; omega
    simp only [hk1, hkr, if_false]
    by_cases hn : rng.length < n
    · simp [hn]
    · simp only [hn, if_false]
      cases simulate ws (rng.take n) <;> simp

theorem ref_sims (jl : List (ELL α) → List Nat → α → ELL α) (logs : List (ELL α)) (e : α) (ws : List Rat)
    (useObs : Bool) (nObs : Nat) : ∀ (k : Nat) (rng : List Rat) (pois : List Nat) (sf : List Nat) (ll : List (ELL α)),
    sf.length = ws.length →
    llOf (iter (refStep jl logs e ws useObs nObs) k (rng, pois, sf, ll))
      = (modelSims ws useObs nObs k rng pois).map (fun sims => ll ++ sims.map (statG jl logs e))
  | 0, rng, pois, sf, ll, _ => by
    cases useObs <;> simp [iter, llOf, modelSims, countsOf, chunks, simLoop]
  | k + 1, rng, pois, sf, ll, hsf => by
    -- the common part: one `_simulate_catalog` on the next `n` numbers, then `k` more simulations
    have core : ∀ (n : Nat) (pois' : List Nat),
        llOf (Except.bind (SrcSM.simulate_catalog_rand rng n ws sf) fun p =>
                iter (refStep jl logs e ws useObs nObs) k (p.2, pois', p.1, ll ++ [statG jl logs e p.1]))
          = (modelStep ws n rng (modelSims ws useObs nObs k (rng.drop n) pois')).map
              (fun sims => ll ++ sims.map (statG jl logs e)) := by
      intro n pois'
      rw [simulate_catalog_rand_eq_model, hsf]
      unfold modelStep
      by_cases hn : n ≤ rng.length
      · have hn' : ¬ rng.length < n := by omega
        simp only [hn, if_true, hn', if_false, simulate]
        cases hsim : simulateFrom ws (List.replicate ws.length 0) (rng.take n) with
        | none => simp [ofSim, bind_error'', llOf]
        | some arr =>
          have hlen : arr.length = ws.length := by
            have := simulateFrom_length ws _ _ _ hsim; simpa using this
          by_cases hc : countAssert arr n = true
          · simp only [ofSim, hc, if_true, bind_ok'']
            rw [ref_sims jl logs e ws useObs nObs k (rng.drop n) pois' arr (ll ++ [statG jl logs e arr]) hlen]
            cases modelSims ws useObs nObs k (rng.drop n) pois' <;> simp
          · have hc' : countAssert arr n = false := by simpa using hc
            simp [ofSim, hc', bind_error'', llOf]
      · have hn' : rng.length < n := by omega
        simp [hn, hn', bind_error'', llOf]
    cases useObs with
    | true =>
      rw [modelSims_succ_true, ← core nObs pois]
      simp only [iter, refStep, nextCount, if_true, bind_ok'', bind_assoc'']
    | false =>
      cases pois with
      | nil => simp [iter, refStep, nextCount, modelSims, countsOf, bind_error'', llOf]
      | cons n rest =>
        rw [modelSims_succ_false, ← core n rest]
        simp only [iter, refStep, nextCount, Bool.false_eq_true, if_false, bind_ok'', bind_assoc'']

/-- the statistics `poisson_test_loop` returns are those of the model's simulated arrays (`PoissonTest.runStream`: blocks
    of the uniform stream of the lengths `countsOf`, placed by `Sampler.simulate`, count assertion), appended to the
    initial list; an exception exactly when the model gives `none` -/
theorem poisson_test_loop_sims (jl : List (ELL α) → List Nat → α → ELL α) (seedRng : Int → List Rat)
    (seedPois : Int → List Nat) (rng : List Rat) (pois : List Nat) (nsim : Int) (seed : Option Int) (useObs : Bool)
    (ws : List Rat) (sf : List Nat) (ll : List (ELL α)) (nObs : Nat) (e : α) (logs : List (ELL α)) (odn : List Nat)
    (tef : List (ELL α)) (hsf : sf.length = ws.length) :
    (match SrcSM.poisson_test_loop jl seedRng seedPois rng pois nsim seed useObs ws sf ll nObs e logs odn tef with
     | .ok r => some r.1.2.2
     | .error _ => none)
      = (modelSims ws useObs nObs nsim.toNat
          (match seed with | none => rng | some s => seedRng s) (match seed with | none => pois | some s => seedPois s)).map
          (fun sims => ll ++ sims.map (statG jl logs e)) := by
  rw [poisson_test_loop_eq_model]
  cases seed with
  | none =>
    simp only []
    rw [← ref_sims jl logs e ws useObs nObs nsim.toNat rng pois sf ll hsf]
    cases iter (refStep jl logs e ws useObs nObs) nsim.toNat (rng, pois, sf, ll) <;> simp [finish, llOf]
  | some s =>
    simp only []
    rw [← ref_sims jl logs e ws useObs nObs nsim.toNat (seedRng s) (seedPois s) sf ll hsf]
    cases iter (refStep jl logs e ws useObs nObs) nsim.toNat (seedRng s, seedPois s, sf, ll) <;> simp [finish, llOf]

/-! ## injected numbers (`random_numbers` given): row `idx` for simulation `idx` -/

abbrev StI (α : Type) := List Nat × List Nat × List (ELL α)

def refStepI (jl : List (ELL α) → List Nat → α → ELL α) (logs : List (ELL α)) (e : α) (ws : List Rat) (useObs : Bool)
    (nObs : Nat) (s : StI α) (row : List Rat) : M (StI α) :=
  Except.bind (nextCount useObs nObs s.1) fun q =>
    Except.bind (SrcSM.simulate_catalog q.2 ws s.2.1 row) fun sf =>
      Except.ok (q.1, sf, s.2.2 ++ [statG jl logs e sf])

def finishI (jl : List (ELL α) → List Nat → α → ELL α) (tef : List (ELL α)) (odn : List Nat) (e : α) (nsim : Int)
    (r : M (StI α)) : M ((Rat × ELL α × List (ELL α)) × List Nat) :=
  match r with
  | .error x => .error x
  | .ok s =>
    .ok ((Py.intTrueDiv ((PySM.countTrue (s.2.2.map (fun x => PySM.ellLe x (jl tef odn e))) : Nat) : Int) nsim,
          jl tef odn e, s.2.2), s.1)

/-- `poisson_test_loop_injected` for `num_simulations ≤ len(random_numbers)` (with fewer rows the code raises IndexError
    at the first missing row: `PoissonTest.takeRows`): the iteration of `refStepI` over the first `num_simulations` rows -/
theorem poisson_test_loop_injected_eq_model (jl : List (ELL α) → List Nat → α → ELL α) (seedPois : Int → List Nat)
    (pois : List Nat) (nsim : Int) (rows : List (List Rat)) (seed : Option Int) (useObs : Bool)
    (ws : List Rat) (sf : List Nat) (ll : List (ELL α)) (nObs : Nat) (e : α) (logs : List (ELL α)) (odn : List Nat)
    (tef : List (ELL α)) (hrows : nsim.toNat ≤ rows.length) :
    SrcSM.poisson_test_loop_injected jl seedPois pois nsim rows seed useObs ws sf ll nObs e logs odn tef
      = finishI jl tef odn e nsim (iterRows (refStepI jl logs e ws useObs nObs) (rows.take nsim.toNat)
          ((match seed with | none => pois | some s => seedPois s), sf, ll)) := by
  have hrange : Py.range (0 : Int) nsim = (List.range' 0 nsim.toNat).map (fun (j : Nat) => (j : Int)) := by
    simp [Py.range, List.range_eq_range']
  have hbody : ∀ (s : StI α) (k : Nat) (h : k < rows.length), PySM.getI rows (k : Int) = Except.ok rows[k] := by
    intro s k h
    simp [PySM.getI, PySM.normIdx, PySM.getN, h, List.getElem?_eq_getElem h]
  unfold SrcSM.poisson_test_loop_injected
  cases seed with
  | none =>
    simp only [hrange]
    rw [forLoop_index (refStepI jl logs e ws useObs nObs) rows _ _ nsim.toNat 0 _ (by omega)]
    · simp only [List.drop_zero]
      cases iterRows (refStepI jl logs e ws useObs nObs) (rows.take nsim.toNat) (pois, sf, ll) <;> simp [finishI, Except.bind]
    · intro s k h
      obtain ⟨po, sf1, ll1⟩ := s
      simp only [hbody (po, sf1, ll1) k h, refStepI, nextCount, bind_ok'']
      cases useObs <;> simp only [if_true, if_false, Bool.false_eq_true]
      · cases po with
        | nil => simp [PySM.rngPoisson, Except.bind]
        | cons c rest =>
          simp only [PySM.rngPoisson, bind_ok'']
          cases SrcSM.simulate_catalog c ws sf1 rows[k] <;> simp [statG, PySM.append, Except.bind]
      · simp only [bind_ok'']
        cases SrcSM.simulate_catalog nObs ws sf1 rows[k] <;> simp [statG, PySM.append, Except.bind]
  | some sd =>
    simp only [hrange]
    rw [forLoop_index (refStepI jl logs e ws useObs nObs) rows _ _ nsim.toNat 0 _ (by omega)]
    · simp only [List.drop_zero]
      cases iterRows (refStepI jl logs e ws useObs nObs) (rows.take nsim.toNat) (seedPois sd, sf, ll) <;>
        simp [finishI, Except.bind]
    · intro s k h
      obtain ⟨po, sf1, ll1⟩ := s
      simp only [hbody (po, sf1, ll1) k h, refStepI, nextCount, bind_ok'']
      cases useObs <;> simp only [if_true, if_false, Bool.false_eq_true]
      · cases po with
        | nil => simp [PySM.rngPoisson, Except.bind]
        | cons c rest =>
          simp only [PySM.rngPoisson, bind_ok'']
          cases SrcSM.simulate_catalog c ws sf1 rows[k] <;> simp [statG, PySM.append, Except.bind]
      · simp only [bind_ok'']
        cases SrcSM.simulate_catalog nObs ws sf1 rows[k] <;> simp [statG, PySM.append, Except.bind]

/-- the statistics list of an iteration over rows -/
def llOfI : M (StI α) → Option (List (ELL α))
  | .ok s => some s.2.2
  | .error _ => none

/-- the iteration over injected rows against the model's `simLoop` (PoissonTest.run): the numbers of events are
    `replicate n_obs` or the first Poisson draws, one per row -/
theorem refI_sims (jl : List (ELL α) → List Nat → α → ELL α) (logs : List (ELL α)) (e : α) (ws : List Rat)
    (useObs : Bool) (nObs : Nat) : ∀ (rows : List (List Rat)) (pois : List Nat) (sf : List Nat) (ll : List (ELL α)),
    sf.length = ws.length →
    llOfI (iterRows (refStepI jl logs e ws useObs nObs) rows (pois, sf, ll))
      = ((countsOf useObs nObs pois rows.length).bind (fun ns => simLoop ws ns rows)).map
          (fun sims => ll ++ sims.map (statG jl logs e))
  | [], pois, sf, ll, _ => by cases useObs <;> simp [iterRows, llOfI, countsOf, simLoop]
  | row :: rows, pois, sf, ll, hsf => by
    have core : ∀ (n : Nat) (pois' : List Nat),
        llOfI (Except.bind (SrcSM.simulate_catalog n ws sf row) fun sf' =>
                iterRows (refStepI jl logs e ws useObs nObs) rows (pois', sf', ll ++ [statG jl logs e sf']))
          = (match simulate ws row with
             | some arr => if countAssert arr n then
                 ((countsOf useObs nObs pois' rows.length).bind (fun ns => simLoop ws ns rows)).map (arr :: ·) else none
             | none => none).map (fun (sims : List (List Nat)) => ll ++ sims.map (statG jl logs e)) := by
      intro n pois'
      rw [simulate_catalog_eq_model, hsf]
      simp only [simulate]
      cases hsim : simulateFrom ws (List.replicate ws.length 0) row with
      | none => simp [ofSim, bind_error'', llOfI]
      | some arr =>
        have hlen : arr.length = ws.length := by
          have := simulateFrom_length ws _ _ _ hsim; simpa using this
        by_cases hc : countAssert arr n = true
        · simp only [ofSim, hc, if_true, bind_ok'']
          rw [refI_sims jl logs e ws useObs nObs rows pois' arr (ll ++ [statG jl logs e arr]) hlen]
          cases (countsOf useObs nObs pois' rows.length).bind (fun ns => simLoop ws ns rows) <;> simp
        · have hc' : countAssert arr n = false := by simpa using hc
          simp [ofSim, hc', bind_error'', llOfI]
    cases useObs with
    | true =>
      have := core nObs pois
      simp only [iterRows, refStepI, nextCount, if_true, bind_ok'', bind_assoc'']
      rw [this]
      simp only [countsOf, if_true, List.length_cons, List.replicate_succ, Option.bind_some, simLoop, simulate]
      cases simulateFrom ws (List.replicate ws.length 0) row <;> simp
    | false =>
      cases pois with
      | nil => simp [iterRows, refStepI, nextCount, countsOf, bind_error'', llOfI]
      | cons n rest =>
        have := core n rest
        simp only [iterRows, refStepI, nextCount, Bool.false_eq_true, if_false, bind_ok'', bind_assoc'']
        rw [this]
        simp only [countsOf, Bool.false_eq_true, if_false, List.length_cons]
        by_cases hk : rows.length ≤ rest.length
        · have hk1 : rows.length + 1 ≤ rest.length + 1 := by omega
          simp only [hk, hk1, if_true, List.take_succ_cons, Option.bind_some, simLoop, simulate]
          cases simulateFrom ws (List.replicate ws.length 0) row <;> simp
        · have hk1 : ¬ (rows.length + 1 ≤ rest.length + 1) := by omega
          simp only [hk, hk1, if_false, Option.bind_none, simulate]
          cases simulateFrom ws (List.replicate ws.length 0) row <;> simp

end SrcSM
