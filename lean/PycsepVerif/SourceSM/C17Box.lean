import PycsepVerif.SourceSM.C17
import PycsepVerif.Properties.C17_Box
/-!
# Source tie of C17, hypothesis `hin` discharged

`SrcSM.create_tile_eq_model` (SourceSM/C17.lean) ties the definition regenerated from `_create_tile` to the hand model under the
hypothesis `hin`: on the catalog's points the source's box test against `mercantile.bounds` of a tile agrees with `inTile`.
`Properties/C17_Box.lean` proves that agreement (`box_test_iff_inTile`) from the facts the harness establishes on every run — the
strictly decreasing edge-latitude table of the deepest level, exact longitudes, the row placement of every event's latitude —
for the tiles of depth ≤ `zoom`, which are the only ones the recursion started at depth ≤ `zoom` can visit
(`create_tile_eq_model_depth`: the tie with `hin` restricted to those tiles). `create_tile_eq_model_mercantile` composes the two:
the regenerated source equals the hand model with NO membership hypothesis left.
-/
set_option linter.unusedSimpArgs false
namespace SrcSM
open Quadtree PySM

theorem boxTest_eq_boxTest4 (b : Rat × Rat × Rat × Rat) (lon lat : Rat) : boxTest b lon lat = boxTest4 b lon lat := rfl

/-- the tie with `hin` only for the tiles of depth ≤ zoom (all the recursion visits when it starts at depth ≤ zoom) -/
theorem create_tile_eq_model_depth {Tile : Type} (q2t : String → Tile) (bounds : Tile → Rat × Rat × Rat × Rat)
    (plon plat : Pt → Rat) (thr zoom : Nat) (pts : List Pt)
    (hin : ∀ (k : Key) (p : Pt), k.length ≤ zoom → p ∈ pts →
      boxTest (bounds (q2t (keyStr k))) (plon p) (plat p) = inTile k p) :
    ∀ (n : Nat) (k : Key) (qk : List String) (num : List Int), k.length ≤ zoom → zoom ≤ k.length + n →
      SrcSM.create_tile q2t bounds (n + 1) (keyStr k) (thr : Int) (zoom : Int) (pts.map plon) (pts.map plat) qk num
        = Except.ok (qk ++ (createTile thr zoom pts n k).map (fun e => keyStr e.1),
                     num ++ (createTile thr zoom pts n k).map (fun e => (e.2 : Int)))
  | 0, k, qk, num, hk, h => by
    have hz : ¬ ((k.length : Int) < (zoom : Int)) := by omega
    rw [SrcSM.create_tile]
    simp only [eqs_map, count_eq _ plon plat pts k (fun p hp => hin k p hk hp), Except.bind, keyStr_length]
    simp [hz, PySM.append, createTile, Py.size, count, List.countP_eq_length_filter]
  | n + 1, k, qk, num, hk, h => by
    rw [SrcSM.create_tile]
    simp only [eqs_map, count_eq _ plon plat pts k (fun p hp => hin k p hk hp), Except.bind, keyStr_length]
    have hc : (Py.size ((pts.filter (inTile k)).map plat) > (thr : Int)) ↔ count pts k > thr := by
      simp [Py.size, count, List.countP_eq_length_filter]
    by_cases hs : count pts k > thr ∧ k.length < zoom
    · have h1 : Py.size ((pts.filter (inTile k)).map plat) > (thr : Int) := hc.mpr hs.1
      have h2 : ((k.length : Int) < (zoom : Int)) := by omega
      have e0 : keyStr k ++ "0" = keyStr (child k 0) := (keyStr_child k 0).symm
      have e1 : keyStr k ++ "1" = keyStr (child k 1) := (keyStr_child k 1).symm
      have e2 : keyStr k ++ "2" = keyStr (child k 2) := (keyStr_child k 2).symm
      have e3 : keyStr k ++ "3" = keyStr (child k 3) := (keyStr_child k 3).symm
      have hl : ∀ d, zoom ≤ (child k d).length + n := by intro d; simp [child]; omega
      have hk' : ∀ d, (child k d).length ≤ zoom := by intro d; simp [child]; omega
      simp only [h1, h2, decide_true, Bool.and_self, if_true, e0, e1, e2, e3,
        create_tile_eq_model_depth q2t bounds plon plat thr zoom pts hin n _ _ _ (hk' _) (hl _)]
      simp [createTile, hs, List.append_assoc]
    · have hcond : ¬ (Py.size ((pts.filter (inTile k)).map plat) > (thr : Int) ∧ ((k.length : Int) < (zoom : Int))) := by
        intro hh; exact hs ⟨hc.mp hh.1, by omega⟩
      have : (decide (Py.size ((pts.filter (inTile k)).map plat) > (thr : Int)) && decide ((k.length : Int) < (zoom : Int)))
          = false := by
        apply Bool.eq_false_iff.mpr
        intro hh
        rw [Bool.and_eq_true, decide_eq_true_eq, decide_eq_true_eq] at hh
        exact hcond hh
      have hs' : ¬ (thr < (pts.filter (inTile k)).length ∧ k.length < zoom) := by
        simpa [count, List.countP_eq_length_filter] using hs
      simp only [this, Bool.false_eq_true, if_false]
      simp [createTile, hs', PySM.append, Py.size, count, List.countP_eq_length_filter]

/-- **`_create_tile` as regenerated from the source equals the hand model, `hin` discharged.** Hypotheses are what the harness
    checks numerically on every run: `mercantile.bounds` of a quadkey of depth ≤ zoom = exact dyadic longitudes + the entries of
    the depth-`zoom` edge-latitude table (`hb`), that table is strictly decreasing (`hE`), every event's longitude is exact and its
    latitude was placed in its row of the table (`hp`). -/
theorem create_tile_eq_model_mercantile {Tile : Type} (q2t : String → Tile) (bounds : Tile → Rat × Rat × Rat × Rat)
    (E : Nat → Rat) (plat : Pt → Rat) (thr zoom : Nat) (pts : List Pt)
    (hE : ∀ i j : Nat, i < j → j ≤ 2 ^ zoom → E j < E i)
    (hb : ∀ k : Key, k.length ≤ zoom → bounds (q2t (keyStr k)) = tableBounds zoom E k)
    (hp : ∀ p ∈ pts, Placed zoom E (plat p) p.y) :
    ∀ (n : Nat) (k : Key) (qk : List String) (num : List Int), k.length ≤ zoom → zoom ≤ k.length + n →
      SrcSM.create_tile q2t bounds (n + 1) (keyStr k) (thr : Int) (zoom : Int) (pts.map (fun p => lonOf p.x)) (pts.map plat) qk num
        = Except.ok (qk ++ (createTile thr zoom pts n k).map (fun e => keyStr e.1),
                     num ++ (createTile thr zoom pts n k).map (fun e => (e.2 : Int))) :=
  create_tile_eq_model_depth q2t bounds (fun p => lonOf p.x) plat thr zoom pts
    (fun k p hk hmem => by
      rw [hb k hk, boxTest_eq_boxTest4]
      exact box_test_iff_inTile zoom E hE k hk p (plat p) (hp p hmem))

end SrcSM
