import PycsepVerif.GeneratedSrcSM
import PycsepVerif.Model.Gridding
/-!
# Source tie of C03 (imperative code): the catalog gridding methods `spatial_counts`, `magnitude_counts`,
# `spatial_magnitude_counts`, generated from the Python source, equal the hand model (Model/Gridding.lean)

`SrcSM.spatial_counts / magnitude_counts / spatial_magnitude_counts` are regenerated from `csep/core/catalogs.py` on every
run (harness/py2lean_sm.py). State record = (`self.catalog`, `self.region`), read only; the region is an opaque object
(`num_nodes`, `magnitudes` opaque projections, `region.get_index_of` an opaque raising function); `bin1d_vec` is an opaque
parameter (its own source tie is py2lean's); `mag_bins` is given, `tol=None`, `retbins=False`; count arrays hold `Nat`s.

The hand model starts after the two lookups: a location is `Option Nat` (`none` = outside), a magnitude bin is `Option Nat`
(`none` = numpy index −1). The theorems are for EVERY instantiation of the opaque lookups; what they return is named by
hypotheses (`hg`, `hb`) and the model is applied to exactly that: `bin1d_vec` returns `bins.map optToInt`, the region lookup
returns `r` (an exception, or an index list). Range hypotheses say that returned indices are inside the arrays (what the
lookups guarantee; numpy would raise IndexError otherwise, the hand model does not model that).
-/
set_option linter.unusedSimpArgs false
namespace SrcSM
open Gridding PySM

/-- the model's errors are both `ValueError` -/
def ofErr {β : Type} : Except Err β → M β
  | .ok b => .ok b
  | .error _ => .error (.py .valueError)

/-- numpy's index of a magnitude bin: −1 below the first edge -/
def optToInt : Option Nat → Int
  | none => -1
  | some k => (k : Int)

theorem bump_length (out : List Nat) (k : Nat) : (bump out k).length = out.length := by simp [bump]

/-- `numpy.add.at(out, idx, 1)` of the prelude is the model's `addAt` when the indices are inside the array -/
theorem addAt_eq : ∀ (idx : List Nat) (out : List Nat), (∀ i ∈ idx, i < out.length) →
    PySM.addAt out idx 1 = Except.ok (Gridding.addAt out idx)
  | [], out, _ => by simp [PySM.addAt, Gridding.addAt]
  | i :: is, out, h => by
    have hi : i < out.length := h i (by simp)
    simp only [PySM.addAt, hi, if_true, Gridding.addAt, List.foldl_cons]
    have := addAt_eq is (out.modify i (· + 1)) (by intro j hj; simp; exact h j (by simp [hj]))
    simpa [Gridding.addAt, bump] using this

theorem normIdx_nat (n k : Nat) (h : k < n) : PySM.normIdx n (k : Int) = some k := by
  have : (k : Int).toNat < n := by omega
  simp [PySM.normIdx, this, h]

theorem addAtI_eq : ∀ (idx : List Nat) (out : List Nat), (∀ i ∈ idx, i < out.length) →
    PySM.addAtI out (idx.map (fun (k : Nat) => (k : Int))) 1 = Except.ok (Gridding.addAt out idx)
  | [], out, _ => by simp [PySM.addAtI, Gridding.addAt]
  | i :: is, out, h => by
    have hi : i < out.length := h i (by simp)
    simp only [List.map_cons, PySM.addAtI, normIdx_nat _ _ hi, Gridding.addAt, List.foldl_cons]
    have := addAtI_eq is (out.modify i (· + 1)) (by intro j hj; simp; exact h j (by simp [hj]))
    simpa [Gridding.addAt, bump] using this

theorem bind_ok' {ε α β : Type} (a : α) (f : α → Except ε β) : Except.bind (Except.ok a) f = f a := rfl
theorem bind_error' {ε α β : Type} (e : ε) (f : α → Except ε β) : Except.bind (Except.error e : Except ε α) f = Except.error e := rfl
theorem bind_ok_id {ε β : Type} (x : Except ε β) : (Except.bind x fun a => Except.ok a) = x := by cases x <;> rfl

theorem getI_nat' {β : Type} (l : List β) (k : Nat) (h : k < l.length) (d : β) :
    PySM.getI l (k : Int) = Except.ok (l.getD k d) := by
  simp [PySM.getI, PySM.normIdx, PySM.getN, h, List.getD, List.getElem?_eq_getElem h]

/-! ## spatial_counts -/

/-- `spatial_counts`, whatever the region lookup returns -/
theorem spatial_counts_eq {Row Region : Type} (gio : List Rat → List Rat → M (List Nat)) (numNodes : Region → Int)
    (lon lat : Row → Rat) (rows : List Row) (region : Region) (ncell : Nat) (hn : numNodes region = (ncell : Int)) :
    SrcSM.spatial_counts gio numNodes lon lat (rows, region)
      = if rows.isEmpty then Except.ok (zeros ncell)
        else Except.bind (gio (rows.map lon) (rows.map lat)) fun idx => PySM.addAt (zeros ncell) idx 1 := by
  unfold SrcSM.spatial_counts
  cases rows with
  | nil => simp [Py.size, hn, zeros]
  | cons r rs =>
    have : ¬ ((Py.size (r :: rs)) = (0 : Int)) := by simp [Py.size]; omega
    simp [this, hn, zeros, bind_ok_id]

/-- with a Cartesian region (`get_index_of` raises ValueError when a point is outside): the model's `spatialCountsCart` -/
theorem spatial_counts_eq_model {Row Region : Type} (gio : List Rat → List Rat → M (List Nat)) (numNodes : Region → Int)
    (lon lat : Row → Rat) (rows : List Row) (region : Region) (ncell : Nat) (locs : List (Option Nat))
    (hn : numNodes region = (ncell : Int)) (hlen : locs.length = rows.length)
    (hg : gio (rows.map lon) (rows.map lat) = ofErr (getIndexOfCart locs))
    (hr : ∀ i ∈ locs.filterMap id, i < ncell) :
    SrcSM.spatial_counts gio numNodes lon lat (rows, region) = ofErr (spatialCountsCart ncell locs) := by
  rw [spatial_counts_eq gio numNodes lon lat rows region ncell hn, hg]
  have he : rows.isEmpty = locs.isEmpty := by
    cases rows <;> cases locs <;> simp at hlen ⊢
  rw [he]
  unfold spatialCountsCart
  cases hl : locs.isEmpty with
  | true => simp [ofErr]
  | false =>
    simp only [Bool.false_eq_true, if_false]
    cases hc : getIndexOfCart locs with
    | error e => simp [ofErr, Except.bind]
    | ok idx =>
      have hidx : idx = locs.filterMap id := by
        unfold getIndexOfCart at hc; split at hc <;> simp_all
      simp only [ofErr, Except.bind]
      rw [addAt_eq idx (zeros ncell) (by intro i hi; simp [zeros]; exact hr i (hidx ▸ hi))]

/-- with a quadtree region (`get_index_of` drops the points it does not contain): the model's `spatialCountsQuad` -/
theorem spatial_counts_eq_model_quad {Row Region : Type} (gio : List Rat → List Rat → M (List Nat))
    (numNodes : Region → Int) (lon lat : Row → Rat) (rows : List Row) (region : Region) (ncell : Nat)
    (locs : List (Option Nat)) (hn : numNodes region = (ncell : Int)) (hlen : locs.length = rows.length)
    (hg : gio (rows.map lon) (rows.map lat) = Except.ok (getIndexOfQuad locs))
    (hr : ∀ i ∈ locs.filterMap id, i < ncell) :
    SrcSM.spatial_counts gio numNodes lon lat (rows, region) = Except.ok (spatialCountsQuad ncell locs) := by
  rw [spatial_counts_eq gio numNodes lon lat rows region ncell hn, hg]
  cases rows with
  | nil =>
    have : locs = [] := by cases locs <;> simp at hlen ⊢
    simp [this, spatialCountsQuad, getIndexOfQuad, Gridding.addAt]
  | cons r rs =>
    simp only [List.isEmpty_cons, Bool.false_eq_true, if_false, Except.bind, spatialCountsQuad]
    exact addAt_eq _ _ (by intro i hi; simp [zeros]; exact hr i hi)

/-! ## magnitude_counts -/

theorem maskSel_map'' {α : Type} (g : α → Bool) : ∀ (l : List α), maskSel l (l.map g) = l.filter g
  | [] => by simp [maskSel]
  | a :: l => by cases h : g a <;> simp [maskSel, h, maskSel_map'' g l]

theorem filter_nonneg : ∀ (bins : List (Option Nat)),
    (bins.map optToInt).filter (fun x => decide (x ≥ (0 : Int))) = (bins.filterMap id).map (fun (k : Nat) => (k : Int))
  | [] => by simp
  | none :: bs => by simp [optToInt, filter_nonneg bs]
  | some k :: bs => by
    have : (0 : Int) ≤ (k : Int) := by omega
    simp [optToInt, filter_nonneg bs, this]

theorem magnitude_counts_eq_model {Row Region : Type} (b1d : List Rat → List Rat → List Int) (mag : Row → Rat)
    (rows : List Row) (region : Region) (edges : List Rat) (bins : List (Option Nat))
    (hlen : bins.length = rows.length) (hb : b1d (rows.map mag) edges = bins.map optToInt)
    (hr : ∀ k ∈ bins.filterMap id, k < edges.length) :
    SrcSM.magnitude_counts b1d mag (rows, region) edges = Except.ok (magnitudeCounts edges.length bins) := by
  unfold SrcSM.magnitude_counts
  cases rows with
  | nil =>
    have : bins = [] := by cases bins <;> simp at hlen ⊢
    simp [Py.size, this, magnitudeCounts, Gridding.addAt, zeros]
  | cons r rs =>
    have : ¬ ((Py.size (r :: rs)) = (0 : Int)) := by simp [Py.size]; omega
    simp only [this, decide_false, Bool.false_eq_true, if_false, hb, PySM.maskSelect, List.length_map, if_true,
      maskSel_map'', filter_nonneg, Except.bind, Py.size, Int.toNat_natCast]
    rw [addAtI_eq _ _ (by intro i hi; simp; exact hr i hi)]
    simp [magnitudeCounts, zeros]

/-! ## spatial_magnitude_counts -/

/-- the loop over event numbers as a loop over the two index lists in step -/
def zipLoop {σ α β : Type} (F : σ → α → β → M σ) : List α → List β → σ → M σ
  | a :: as, b :: bs, s =>
    match F s a b with
    | .ok s' => zipLoop F as bs s'
    | .error e => .error e
  | _, _, s => .ok s

theorem forLoop_index_zip {σ α β : Type} [Inhabited α] [Inhabited β] (F : σ → α → β → M σ)
    (xs : List α) (ys : List β) (hl : ys.length = xs.length) (B : σ → Int → M (Ctl σ))
    (hB : ∀ (s : σ) (k : Nat), k < xs.length → B s (k : Int) =
      match F s (xs.getD k default) (ys.getD k default) with
      | .ok s' => Except.ok (.next s')
      | .error e => Except.error e) :
    ∀ (m k : Nat) (s : σ), k + m = xs.length →
      PySM.forLoop B ((List.range' k m).map (fun (j : Nat) => (j : Int))) s = zipLoop F (xs.drop k) (ys.drop k) s
  | 0, k, s, h => by
    have h1 : xs.drop k = [] := by simp; omega
    simp [PySM.forLoop, h1, zipLoop]
  | m + 1, k, s, h => by
    have hk : k < xs.length := by omega
    have hk' : k < ys.length := by omega
    rw [List.drop_eq_getElem_cons hk, List.drop_eq_getElem_cons hk']
    simp only [List.range'_succ, List.map_cons, PySM.forLoop, hB s k hk, zipLoop]
    have e1 : xs.getD k default = xs[k] := by simp [List.getD, List.getElem?_eq_getElem hk]
    have e2 : ys.getD k default = ys[k] := by simp [List.getD, List.getElem?_eq_getElem hk']
    rw [e1, e2]
    cases F s xs[k] ys[k] with
    | error e => rfl
    | ok s' => exact forLoop_index_zip F xs ys hl B hB m (k + 1) s' (by omega)

/-- one step of the loop of `spatial_magnitude_counts` on (spatial index, magnitude index) -/
def smcStep (out : List (List Nat)) (i : Nat) (j : Int) : M (List (List Nat)) :=
  if j = -1 then Except.error (.py .valueError) else PySM.bump2 out (i : Int) j 1

theorem zipLoop_eq_smcLoop (ncell nbin : Nat) : ∀ (sidx : List Nat) (bins : List (Option Nat)) (out : List (List Nat)),
    out.length = ncell → (∀ row ∈ out, row.length = nbin) → (∀ i ∈ sidx, i < ncell) →
    (∀ k ∈ bins.filterMap id, k < nbin) →
    zipLoop smcStep sidx (bins.map optToInt) out = ofErr (smcLoop sidx bins out)
  | [], bins, out, _, _, _, _ => by cases bins <;> simp [zipLoop, smcLoop, ofErr]
  | _ :: _, [], out, _, _, _, _ => by simp [zipLoop, smcLoop, ofErr]
  | i :: is, none :: bs, out, _, _, _, _ => by simp [zipLoop, smcLoop, ofErr, smcStep, optToInt]
  | i :: is, some k :: bs, out, hl, hrow, hi, hk => by
    have hi' : i < out.length := by rw [hl]; exact hi i (by simp)
    have hk' : k < nbin := hk k (by simp)
    have hrowi : (out.getD i []).length = nbin := by
      have : out.getD i [] = out[i] := by simp [List.getD, List.getElem?_eq_getElem hi']
      rw [this]; exact hrow _ (List.getElem_mem hi')
    have hne : ¬ ((k : Int) = -1) := by omega
    simp only [List.map_cons, zipLoop, smcStep, optToInt, hne, if_false, PySM.bump2, normIdx_nat _ _ hi',
      hrowi, normIdx_nat _ _ hk', smcLoop]
    have := zipLoop_eq_smcLoop ncell nbin is bs (out.modify i (fun rowv => bump rowv k))
      (by simp [hl]) (by
        intro row hrow'
        rw [List.mem_iff_getElem] at hrow'
        obtain ⟨n, hn, rfl⟩ := hrow'
        simp only [List.length_modify] at hn
        rw [List.getElem_modify]
        split
        · simp [bump]; exact hrow _ (List.getElem_mem _)
        · exact hrow _ (List.getElem_mem _))
      (fun j hj => hi j (by simp [hj])) (fun j hj => hk j (by simp [hj]))
    simpa [bump] using this

theorem spatial_magnitude_counts_eq_model {Row Region : Type} (gio : List Rat → List Rat → M (List Nat))
    (b1d : List Rat → List Rat → List Int) (numNodes : Region → Int) (mags : Region → Option (List Rat))
    (lon lat mag : Row → Rat) (rows : List Row) (region : Region) (edges : List Rat) (ncell : Nat)
    (bins : List (Option Nat))
    (hn : numNodes region = (ncell : Int)) (hlen : bins.length = rows.length)
    (hb : b1d (rows.map mag) edges = bins.map optToInt)
    (hri : ∀ sidx, gio (rows.map lon) (rows.map lat) = Except.ok sidx → ∀ i ∈ sidx, i < ncell)
    (hrk : ∀ k ∈ bins.filterMap id, k < edges.length) :
    SrcSM.spatial_magnitude_counts gio b1d numNodes mags lon lat mag (rows, region) edges
      = if rows.isEmpty then Except.ok (List.replicate ncell (zeros edges.length))
        else match gio (rows.map lon) (rows.map lat) with
          | .error e => Except.error e
          | .ok sidx => ofErr (smcRaw ncell edges.length rows.length sidx bins) := by
  unfold SrcSM.spatial_magnitude_counts
  have h0 : (Option.isNone (mags region) && false) = false := by simp
  simp only [h0, Bool.false_eq_true, if_false, bind_ok', hn]
  cases rows with
  | nil => simp [Py.size, zeros, bind_ok']
  | cons r rs =>
    have hne : decide (Py.size (r :: rs) ≠ (0 : Int)) = true := by simp [Py.size]; omega
    simp only [hne, if_true, List.isEmpty_cons, Bool.false_eq_true, if_false]
    cases hgio : gio ((r :: rs).map lon) ((r :: rs).map lat) with
    | error e => simp [bind_error']
    | ok sidx =>
      have hget : PySM.getI [Py.size sidx] (0 : Int) = Except.ok (sidx.length : Int) := by
        simp [PySM.getI, PySM.normIdx, PySM.getN, Py.size]
      simp only [bind_ok', hget]
      by_cases hls : sidx.length = (r :: rs).length
      · have hdec : decide ((sidx.length : Int) ≠ Py.size (r :: rs)) = false := by simp [Py.size, hls]
        have hrange : Py.range (0 : Int) (Py.size sidx)
            = (List.range' 0 sidx.length).map (fun (j : Nat) => (j : Int)) := by
          simp [Py.range, Py.size, List.range_eq_range']
        have hl2 : (bins.map optToInt).length = sidx.length := by simp [hlen, hls]
        simp only [hdec, Bool.false_eq_true, if_false, bind_ok', hb, hrange]
        rw [forLoop_index_zip smcStep sidx (bins.map optToInt) hl2 _ _ sidx.length 0 _ (by omega)]
        · simp only [List.drop_zero, Py.size, Int.toNat_natCast]
          rw [zipLoop_eq_smcLoop ncell edges.length sidx bins _ (by simp) (by intro row hrow; simp [zeros] at hrow ⊢; rw [hrow.2]; simp)
            (hri sidx hgio) hrk]
          have hne0 : ¬ ((r :: rs).length = 0) := by simp
          have hls' : ¬ (sidx.length ≠ (r :: rs).length) := by simp [hls]
          simp only [smcRaw, hne0, hls', if_false, zeros]
          cases smcLoop sidx bins (List.replicate ncell (List.replicate edges.length 0)) <;> simp [ofErr, bind_ok', bind_error']
        · intro s k hk
          have g1 := getI_nat' (bins.map optToInt) k (by omega) default
          have g2 := getI_nat' sidx k hk default
          simp only [g1, g2, bind_ok', smcStep]
          generalize (bins.map optToInt).getD k default = mj
          generalize sidx.getD k default = sx
          by_cases hm : mj = -1
          · subst hm
            simp [bind_error']
          · simp only [hm, decide_false, Bool.false_eq_true, if_false, bind_ok']
            cases PySM.bump2 s ((sx : Nat) : Int) mj 1 <;> rfl
      · have hdec : decide ((sidx.length : Int) ≠ Py.size (r :: rs)) = true := by
          simp only [Py.size, decide_eq_true_eq]; intro h; exact hls (by omega)
        have hne0 : ¬ ((r :: rs).length = 0) := by simp
        have hls' : ¬ sidx.length = rs.length + 1 := by simpa using hls
        simp [hdec, bind_error', smcRaw, hne0, hls', ofErr]

end SrcSM
