import PycsepVerif.GeneratedSrcSM
import PycsepVerif.Model.ForecastIterX
import PycsepVerif.Properties.C13_Rates
import PycsepVerif.SourceSM.LoopLemmas
/-!
# Source tie of C13 (imperative code): `CatalogForecast.get_expected_rates`, generated from the Python source, equals the
# hand model (Model/ForecastIterX.lean: the loop `ratesLoop` with its body, `accStep` / `accFold`, `firstBad`)

`SrcSM.get_expected_rates` is regenerated from `csep/core/forecasts.py` on every run. The state record is (region,
expected_rates, n_cat, start_time, end_time, name, rest) — `rest` stands for every field the method does not name.
`for i, cat in enumerate(self)` is ONE pass over the forecast, the opaque parameter `iter_self` (Model: a complete
`passLoop`); the loop body is translated: `cat.region = self.region` (opaque setter = `rebind`),
`cat.spatial_magnitude_counts()` (opaque raising method: `binCounts` or ValueError when the catalog is not `countable`),
`if i == 0: data = counts else: data += counts` (= `accStep`), then `data / self.n_cat` (TypeError for `None`) and the
opaque constructor `GriddedForecast(…)`.

Restriction, stated in the theorem: AT LEAST ONE CATALOG in the pass (`ys ≠ []`). With no catalog the code divides
`numpy.empty([])` — uninitialised memory, the parameter `empty'` here — by `n_cat`; the hand model calls that `.failed`.
For ≥ 1 catalog the result does not depend on `empty'`.

`get_expected_rates_eq_model`: for every pass result `(ys, state after)`: the cached forecast is returned if there is one;
otherwise ValueError exactly when `firstBad nBins ys` is some catalog, else the forecast built from
`accFold nBins 0 none ys` divided by the `n_cat` the pass left, stored in `expected_rates`.
`get_expected_rates_ratesLoop` restates this with the model's `ratesLoop` through the C13 owner's generic
`ratesLoop_of_pass` (any iterator whose complete pass yields `ys`).
-/
set_option linter.unusedSimpArgs false
namespace SrcSM
open PySM ForecastIter

/-- `cat.spatial_magnitude_counts()` on the forecast's grid (flat): ValueError when an event lies in no bin -/
def smcOf (nB : Nat) (c : Cat) : M (List Nat) :=
  if countable nB c then Except.ok (binCounts nB c) else Except.error (.py .valueError)

theorem addVec_eq_zipWith : ∀ (a b : List Nat), addVec a b = List.zipWith (fun x y => x + y) a b
  | [], _ => by simp [addVec]
  | _ :: _, [] => by simp [addVec]
  | x :: xs, y :: ys => by simp [addVec, addVec_eq_zipWith xs ys]

/-- the accumulation of the generated loop from loop index `i` -/
def genFold (nB : Nat) : Nat → List Nat → List Cat → List Nat
  | _, d, [] => d
  | i, d, c :: cs =>
    genFold nB (i + 1) (if i = 0 then binCounts nB (rebind c) else List.zipWith (fun x y => x + y) d (binCounts nB (rebind c))) cs

theorem accFold_eq_genFold (nB : Nat) : ∀ (cs : List Cat) (i : Nat) (dm : Option (List Nat)) (d : List Nat),
    (i = 0 ∧ cs ≠ []) ∨ (0 < i ∧ dm = some d) → accFold nB i dm cs = some (genFold nB i d cs)
  | [], i, dm, d, h => by
    rcases h with ⟨_, h⟩ | ⟨_, h⟩
    · exact absurd rfl h
    · simp [accFold, genFold, h]
  | c :: cs, i, dm, d, h => by
    simp only [accFold, genFold, accStep]
    by_cases hi : i = 0
    · simp only [hi, if_true]
      cases cs with
      | nil => simp [accFold, genFold]
      | cons c2 cs2 => exact accFold_eq_genFold nB (c2 :: cs2) 1 _ _ (Or.inr ⟨by omega, rfl⟩)
    · have hd : dm = some d := by rcases h with ⟨h0, _⟩ | ⟨_, h⟩; exact absurd h0 hi; exact h
      simp only [hi, if_false, hd, Option.map_some, addVec_eq_zipWith]
      cases cs with
      | nil => simp [accFold, genFold]
      | cons c2 cs2 => exact accFold_eq_genFold nB (c2 :: cs2) (i + 1) _ _ (Or.inr ⟨by omega, rfl⟩)

/-- the generated loop over `enumerate(ys)`: ValueError at the first catalog that is not countable, else `genFold` -/
theorem loop_eq (nB : Nat) {Region : Type} (r : Region) (B : List Nat → Nat × Cat → M (Ctl (List Nat)))
    (hB : ∀ (d : List Nat) (i : Nat) (c : Cat), B d (i, c) =
      if countable nB (rebind c) then
        Except.ok (.next (if i = 0 then binCounts nB (rebind c) else List.zipWith (fun x y => x + y) d (binCounts nB (rebind c))))
      else Except.error (.py .valueError)) :
    ∀ (ys : List Cat) (i : Nat) (d : List Nat),
      PySM.forLoop B (PySM.enumerateFrom i ys) d
        = match firstBad nB ys with
          | none => Except.ok (genFold nB i d ys)
          | some _ => Except.error (.py .valueError)
  | [], i, d => by simp [PySM.enumerateFrom, PySM.forLoop, firstBad, genFold]
  | c :: cs, i, d => by
    have hcr : countable nB (rebind c) = countable nB c := by simp [countable, rebind]
    simp only [PySM.enumerateFrom, PySM.forLoop, hB, hcr, firstBad, genFold]
    by_cases hc : countable nB c = true
    · simp only [hc, if_true]
      rw [loop_eq nB r B hB cs (i + 1)]
      cases firstBad nB cs <;> simp
    · simp [hc]

theorem get_expected_rates_eq_model {T GF Region Name Rest : Type} (nB : Nat)
    (mkGF : T → T → List Rat → Region → Option (List Rat) → Name → GF)
    (iterSelf : (Region × Option GF × Option Int × T × T × Name × Rest) →
      M (List Cat × (Region × Option GF × Option Int × T × T × Name × Rest)))
    (mags : Region → Option (List Rat)) (empty : List Nat)
    (region : Region) (er : Option GF) (ncat : Option Int) (t0 t1 : T) (nm : Name) (rest : Rest)
    (hm : (mags region).isNone = false)
    (ys : List Cat) (region' : Region) (er' : Option GF) (ncat' : Option Int) (t0' t1' : T) (nm' : Name) (rest' : Rest)
    (hp : iterSelf (region, none, ncat, t0, t1, nm, rest) = Except.ok (ys, (region', er', ncat', t0', t1', nm', rest')))
    (hys : ys ≠ []) :
    SrcSM.get_expected_rates mkGF (smcOf nB) (fun c _ => rebind c) iterSelf mags empty (region, er, ncat, t0, t1, nm, rest)
      = match er with
        | some gf => Except.ok (some gf, (region, some gf, ncat, t0, t1, nm, rest))
        | none =>
          match firstBad nB ys with
          | some _ => Except.error (.py .valueError)
          | none =>
            match ncat' with
            | none => Except.error .typeError
            | some n =>
              let gf := mkGF t0' t1' ((genFold nB 0 empty ys).map (fun x => Py.intTrueDiv ((x : Nat) : Int) n)) region
                          (mags region) nm'
              Except.ok (some gf, (region, some gf, some n, t0', t1', nm', rest')) := by
  unfold SrcSM.get_expected_rates
  simp only [hm, Bool.false_eq_true, if_false, bind_ok'']
  cases er with
  | some gf => rfl
  | none =>
    simp only [hp, bind_ok'', PySM.enumerate]
    rw [loop_eq nB region _ (by
      intro d i c
      have hcr : countable nB (rebind c) = countable nB c := by simp [countable, rebind]
      simp only [smcOf]
      by_cases hc : countable nB (rebind c) = true
      · simp only [hc, if_true, bind_ok'']
        by_cases hi : i = 0 <;> simp [hi, Except.bind]
      · simp [hc, bind_error'']) ys 0 empty]
    cases firstBad nB ys with
    | some k => simp [bind_error'']
    | none =>
      simp only [bind_ok'']
      cases ncat' with
      | none => simp [PySM.getOpt, bind_error'']
      | some n => simp [PySM.getOpt, bind_ok'']

/-- the same through the hand model's loop: for ANY iterator whose complete pass from `st` yields `ys` (`passLoop`), the
    generated method raises ValueError exactly when `ratesLoop` ends `.raised`, and otherwise divides the `data` with which
    `ratesLoop` ends `.done` -/
theorem get_expected_rates_ratesLoop {T GF Region Name Rest : Type}
    (mkGF : T → T → List Rat → Region → Option (List Rat) → Name → GF)
    (iterSelf : (Region × Option GF × Option Int × T × T × Name × Rest) →
      M (List Cat × (Region × Option GF × Option Int × T × T × Name × Rest)))
    (mags : Region → Option (List Rat)) (empty : List Nat)
    (region : Region) (ncat : Option Int) (t0 t1 : T) (nm : Name) (rest : Rest)
    (hm : (mags region).isNone = false)
    (ys : List Cat) (region' : Region) (er' : Option GF) (n : Int) (t0' t1' : T) (nm' : Name) (rest' : Rest)
    (hp : iterSelf (region, none, ncat, t0, t1, nm, rest) = Except.ok (ys, (region', er', some n, t0', t1', nm', rest')))
    (hys : ys ≠ [])
    (st st' : St) (fuel : Nat) (hpass : passLoop fuel st [] = some (st', ys)) :
    match ratesLoop st.nBins fuel st 0 none with
    | .done _ (some data) =>
      SrcSM.get_expected_rates mkGF (smcOf st.nBins) (fun c _ => rebind c) iterSelf mags empty
          (region, none, ncat, t0, t1, nm, rest)
        = (let gf := mkGF t0' t1' (data.map (fun x => Py.intTrueDiv ((x : Nat) : Int) n)) region (mags region) nm'
           Except.ok (some gf, (region, some gf, some n, t0', t1', nm', rest')))
    | .raised _ _ =>
      SrcSM.get_expected_rates mkGF (smcOf st.nBins) (fun c _ => rebind c) iterSelf mags empty
          (region, none, ncat, t0, t1, nm, rest) = Except.error (.py .valueError)
    | _ => True := by
  rw [ratesLoop_of_pass st.nBins fuel st 0 none st' ys hpass,
    get_expected_rates_eq_model st.nBins mkGF iterSelf mags empty region none ncat t0 t1 nm rest hm ys region' er' (some n)
      t0' t1' nm' rest' hp hys]
  cases hb : firstBad st.nBins ys with
  | some k => simp
  | none =>
    have := accFold_eq_genFold st.nBins ys 0 none empty (Or.inl ⟨rfl, hys⟩)
    simp [this]

end SrcSM
