import PycsepVerif.PyPreludeSM
/-!
# Lemmas about the loop combinators of PyPreludeSM used by several SourceSM files (no generated definition is mentioned
# here, so a change of the Python source can never break this file)
-/
set_option linter.unusedSimpArgs false
namespace SrcSM
open PySM

theorem bind_ok'' {ε β γ : Type} (a : β) (f : β → Except ε γ) : Except.bind (Except.ok a) f = f a := rfl
theorem bind_error'' {ε β γ : Type} (x : ε) (f : β → Except ε γ) :
    Except.bind (Except.error x : Except ε β) f = Except.error x := rfl
theorem bind_assoc'' {ε β γ δ : Type} (x : Except ε β) (f : β → Except ε γ) (g : γ → Except ε δ) :
    Except.bind (Except.bind x f) g = Except.bind x (fun a => Except.bind (f a) g) := by cases x <;> rfl


/-- `k` repetitions of one step -/
def iter {σ : Type} (f : σ → M σ) : Nat → σ → M σ
  | 0, s => .ok s
  | k + 1, s => Except.bind (f s) (iter f k)


/-- one step per element -/
def iterRows {σ β : Type} (f : σ → β → M σ) : List β → σ → M σ
  | [], s => .ok s
  | r :: rs, s => Except.bind (f s r) (iterRows f rs)


theorem forLoop_const {σ : Type} (B : σ → Int → M (Ctl σ)) (f : σ → M σ)
    (hB : ∀ s i, B s i = match f s with | .ok s' => Except.ok (.next s') | .error x => Except.error x) :
    ∀ (xs : List Int) (s : σ), PySM.forLoop B xs s = iter f xs.length s
  | [], s => rfl
  | x :: xs, s => by
    simp only [PySM.forLoop, hB, List.length_cons, iter]
    cases f s with
    | error x => rfl
    | ok s' => exact forLoop_const B f hB xs s'

theorem range_length (n : Int) : (Py.range 0 n).length = n.toNat := by simp [Py.range]


theorem forLoop_index {σ β : Type} (f : σ → β → M σ) (xs : List β) (B : σ → Int → M (Ctl σ))
    (hB : ∀ (s : σ) (k : Nat) (h : k < xs.length), B s (k : Int) =
      match f s xs[k] with | .ok s' => Except.ok (.next s') | .error x => Except.error x) :
    ∀ (m k : Nat) (s : σ), k + m ≤ xs.length →
      PySM.forLoop B ((List.range' k m).map (fun (j : Nat) => (j : Int))) s = iterRows f ((xs.drop k).take m) s
  | 0, k, s, _ => by simp [PySM.forLoop, iterRows]
  | m + 1, k, s, h => by
    have hk : k < xs.length := by omega
    rw [List.drop_eq_getElem_cons hk]
    simp only [List.range'_succ, List.map_cons, PySM.forLoop, hB s k hk, List.take_succ_cons, iterRows]
    cases f s xs[k] with
    | error x => rfl
    | ok s' => exact forLoop_index f xs B hB m (k + 1) s' (by omega)


end SrcSM
