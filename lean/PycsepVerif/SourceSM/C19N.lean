import PycsepVerif.GeneratedSrcSM
import PycsepVerif.Model.ReaderText
import PycsepVerif.SourceSM.LoopLemmas
/-!
# Source tie of C19 (imperative code): the record loop of `readers.ndk`, generated from the Python source, equals the hand
# model's group loop (Model/ReaderText.lean `ndkFile` / `ndkGroup`, Model/Readers.lean `decodeNdk`)

`SrcSM.ndk_loop` is regenerated from `csep/utils/readers.py` on every run: the function from its `for` loop on.
`enumerate(zip_longest(*[lines_iter()] * 5))` = the lines in groups of five, the last group filled with `None`
(`PySM.chunksLongest`), numbered from 0; a group with a `None` is skipped; `_read_lines(*lines)` (nested, opaque, digest
pinned) inside `try … except (ValueError, IOError): continue`; `_parse_datetime_to_zmap(record["date"], record["time"])`
(opaque) inside `try … except ValueError: continue` — any OTHER exception (the RuntimeError it raises for a time that
cannot be parsed) ends the load; `datetime.datetime(…)` and `datetime_to_utc_epoch` opaque; the tuple
`(_i, epoch, lat, lng, depth, Mw)` is appended: the event id is the index of the GROUP, skipped groups included.

* `ndk_loop_eq_model`: for all opaque functions and all lines the generated loop is `ndkRef` — group after group
  `ndkStep` (`none` = skipped), the first exception that is not caught ends it.
* `ndkStep_*`: what `ndkStep` is for each way a group can go (incomplete, rejected by `_read_lines` with ValueError / OSError,
  time rejected with ValueError, RuntimeError, accepted).
* `ndkRef_eq_decode`: if every group goes the way the hand model's classification `ReaderText.NdkGroup` says (`skipped` /
  `badTime` / `record r` with `Readers.ndkRec r`), the loop's result is the model's: RuntimeError when some group is
  `badTime` or a record's clock is invalid, else the events of `Readers.decodeNdk` on the records, in order, each with the
  index of its group.
* `complete_chunks`: the complete groups of `chunksLongest 5` are the model's `groups5` (an incomplete last group is dropped).
* `ndk_loop_helpers_pinned`: the digests of the nested `_read_lines` and `lines_iter`.
-/
set_option linter.unusedSimpArgs false
set_option linter.unusedVariables false
namespace SrcSM
open PySM

abbrev NdkEv := Nat × Int × Rat × Rat × Rat × Rat

section
variable {Line Rec DateTok TimeTok DtDict Dt : Type}
  (rl : List (Option Line) → M Rec) (pz : DateTok → TimeTok → M DtDict)
  (mk : Int → Int → Int → Int → Int → Int → M Dt) (epoch : Dt → Int)
  (rdate : Rec → DateTok) (rtime : Rec → TimeTok) (rlat rlng rdepth rmw : Rec → Rat)
  (dy dmo dd dh dmi ds : DtDict → Int)

/-- one group of the loop: `none` = skipped (`continue`), an error = an exception that is not caught -/
def ndkStep (i : Nat) (g : List (Option Line)) : M (Option NdkEv) :=
  if g.any Option.isNone then .ok none
  else PySM.tryCatch (rl g) (fun e => decide (e = Exc.py Py.Err.valueError) || decide (e = Exc.osError))
    (fun r => PySM.tryCatch (pz (rdate r) (rtime r)) (fun e => decide (e = Exc.py Py.Err.valueError))
      (fun d => Except.bind (mk (dy d) (dmo d) (dd d) (dh d) (dmi d) (ds d)) fun dt =>
        .ok (some (i, epoch dt, rlat r, rlng r, rdepth r, rmw r)))
      (fun _ => .ok none))
    (fun _ => .ok none)

/-- the loop: group after group, the accepted ones appended -/
def ndkRef (step : Nat → List (Option Line) → M (Option NdkEv)) :
    List (Nat × List (Option Line)) → List NdkEv → M (List NdkEv)
  | [], acc => .ok acc
  | x :: xs, acc => Except.bind (step x.1 x.2) fun o => ndkRef step xs (acc ++ o.toList)

theorem forLoop_ndk (step : Nat → List (Option Line) → M (Option NdkEv))
    (B : List NdkEv → Nat × List (Option Line) → M (Ctl (List NdkEv)))
    (hB : ∀ s x, B s x = Except.bind (step x.1 x.2) fun o => Except.ok (Ctl.next (s ++ o.toList))) :
    ∀ (xs : List (Nat × List (Option Line))) (acc : List NdkEv),
      PySM.forLoop (σ := List NdkEv) B xs acc = ndkRef step xs acc
  | [], acc => rfl
  | x :: xs, acc => by
    simp only [PySM.forLoop, ndkRef, hB]
    cases h : step x.1 x.2 with
    | error e => rfl
    | ok o => simp only [bind_ok'']; exact forLoop_ndk step B hB xs _

theorem ndk_loop_eq_model (lines : List Line) (out : List NdkEv) :
    SrcSM.ndk_loop rl lines pz mk epoch rdate rtime rlat rlng rdepth rmw dy dmo dd dh dmi ds out
      = ndkRef (ndkStep rl pz mk epoch rdate rtime rlat rlng rdepth rmw dy dmo dd dh dmi ds)
          (PySM.enumerate (PySM.chunksLongest 5 lines)) out := by
  unfold SrcSM.ndk_loop
  rw [forLoop_ndk (ndkStep rl pz mk epoch rdate rtime rlat rlng rdepth rmw dy dmo dd dh dmi ds) _ ?hB]
  case hB =>
    intro s x
    simp only [ndkStep, PySM.append]
    by_cases hn : (x.2.any Option.isNone) = true
    · simp only [hn, if_true, bind_ok'', Option.toList, List.append_nil]
    · simp only [hn, Bool.false_eq_true, if_false, PySM.tryCatch]
      cases h1 : rl x.2 with
      | error e =>
        -- whichever order the classes are named in
        by_cases hv : e = Exc.py Py.Err.valueError <;> by_cases ho : e = Exc.osError <;>
          simp [hv, ho, bind_ok'', Except.bind]
      | ok r =>
        simp only []
        cases h2 : pz (rdate r) (rtime r) with
        | error e =>
          by_cases hv : e = Exc.py Py.Err.valueError <;> simp [hv, bind_ok'', Except.bind]
        | ok d =>
          simp only []
          cases h3 : mk (dy d) (dmo d) (dd d) (dh d) (dmi d) (ds d) with
          | error e => rfl
          | ok dt => simp [bind_ok'']
  cases ndkRef (ndkStep rl pz mk epoch rdate rtime rlat rlng rdepth rmw dy dmo dd dh dmi ds)
      (PySM.enumerate (PySM.chunksLongest 5 lines)) out <;> rfl

/-! ### what `ndkStep` is, case by case -/

theorem ndkStep_incomplete (i : Nat) (g : List (Option Line)) (h : g.any Option.isNone = true) :
    ndkStep rl pz mk epoch rdate rtime rlat rlng rdepth rmw dy dmo dd dh dmi ds i g = .ok none := by
  simp [ndkStep, h]

theorem ndkStep_read_value (i : Nat) (g : List (Option Line)) (h : g.any Option.isNone = false)
    (h1 : rl g = .error (Exc.py Py.Err.valueError) ∨ rl g = .error Exc.osError) :
    ndkStep rl pz mk epoch rdate rtime rlat rlng rdepth rmw dy dmo dd dh dmi ds i g = .ok none := by
  rcases h1 with h1 | h1 <;> simp [ndkStep, h, h1, PySM.tryCatch]

theorem ndkStep_read_other (i : Nat) (g : List (Option Line)) (h : g.any Option.isNone = false) (e : Exc)
    (h1 : rl g = .error e) (he1 : e ≠ Exc.py Py.Err.valueError) (he2 : e ≠ Exc.osError) :
    ndkStep rl pz mk epoch rdate rtime rlat rlng rdepth rmw dy dmo dd dh dmi ds i g = .error e := by
  simp [ndkStep, h, h1, PySM.tryCatch, he1, he2]

theorem ndkStep_time_value (i : Nat) (g : List (Option Line)) (h : g.any Option.isNone = false) (r : Rec)
    (h1 : rl g = .ok r) (h2 : pz (rdate r) (rtime r) = .error (Exc.py Py.Err.valueError)) :
    ndkStep rl pz mk epoch rdate rtime rlat rlng rdepth rmw dy dmo dd dh dmi ds i g = .ok none := by
  simp [ndkStep, h, h1, h2, PySM.tryCatch]

/-- the RuntimeError of `_parse_datetime_to_zmap` is not caught by `except ValueError` -/
theorem ndkStep_time_runtime (i : Nat) (g : List (Option Line)) (h : g.any Option.isNone = false) (r : Rec)
    (h1 : rl g = .ok r) (h2 : pz (rdate r) (rtime r) = .error Exc.runtimeError) :
    ndkStep rl pz mk epoch rdate rtime rlat rlng rdepth rmw dy dmo dd dh dmi ds i g = .error Exc.runtimeError := by
  simp [ndkStep, h, h1, h2, PySM.tryCatch]

theorem ndkStep_ok (i : Nat) (g : List (Option Line)) (h : g.any Option.isNone = false) (r : Rec) (d : DtDict) (dt : Dt)
    (h1 : rl g = .ok r) (h2 : pz (rdate r) (rtime r) = .ok d)
    (h3 : mk (dy d) (dmo d) (dd d) (dh d) (dmi d) (ds d) = .ok dt) :
    ndkStep rl pz mk epoch rdate rtime rlat rlng rdepth rmw dy dmo dd dh dmi ds i g
      = .ok (some (i, epoch dt, rlat r, rlng r, rdepth r, rmw r)) := by
  simp [ndkStep, h, h1, h2, h3, PySM.tryCatch, bind_ok'']

end

/-! ### the loop against the hand model's classification of the groups -/

open ReaderText Readers in
/-- a group goes the way its classification says -/
def Agrees {Line : Type} (step : Nat → List (Option Line) → M (Option NdkEv)) (i : Nat) (g : List (Option Line)) :
    NdkGroup → Prop
  | .skipped => step i g = .ok none
  | .badTime => step i g = .error Exc.runtimeError
  | .record r _ =>
    match ndkRec r with
    | .ok ev => step i g = .ok (some (i, ev.time, ev.lat, ev.lon, ev.depth, ev.mag))
    | .error _ => step i g = .error Exc.runtimeError
  | .outside => False

open ReaderText Readers in
/-- the model's verdict on a list of classified groups: `none` = some group fails the load -/
def modelEvents : List NdkGroup → Option (List Event)
  | [] => some []
  | .skipped :: cs => modelEvents cs
  | .badTime :: _ => none
  | .outside :: _ => none
  | .record r _ :: cs =>
    match ndkRec r with
    | .ok ev => (modelEvents cs).map (ev :: ·)
    | .error _ => none

open ReaderText Readers in
theorem modelEvents_skipped (cs : List NdkGroup) : modelEvents (.skipped :: cs) = modelEvents cs := rfl
open ReaderText Readers in
theorem modelEvents_badTime (cs : List NdkGroup) : modelEvents (.badTime :: cs) = none := rfl
open ReaderText Readers in
theorem modelEvents_record (r : NdkRec) (m : Rat) (cs : List NdkGroup) : modelEvents (.record r m :: cs) =
    (match ndkRec r with | .ok ev => (modelEvents cs).map (ev :: ·) | .error _ => none) := rfl

open ReaderText Readers in
/-- the records among the groups (`ndkFile`'s `filterMap`) -/
def recordsOf : List NdkGroup → List NdkRec
  | [] => []
  | .record r _ :: cs => r :: recordsOf cs
  | .skipped :: cs => recordsOf cs
  | .badTime :: cs => recordsOf cs
  | .outside :: cs => recordsOf cs

open ReaderText Readers in
theorem recordsOf_eq_filterMap : ∀ (cs : List NdkGroup),
    recordsOf cs = cs.filterMap (fun g => match g with | .record r _ => some r | _ => none)
  | [] => rfl
  | .record r _ :: cs => by simp [recordsOf, recordsOf_eq_filterMap cs]
  | .skipped :: cs => by simp [recordsOf, recordsOf_eq_filterMap cs]
  | .badTime :: cs => by simp [recordsOf, recordsOf_eq_filterMap cs]
  | .outside :: cs => by simp [recordsOf, recordsOf_eq_filterMap cs]

open ReaderText Readers in
theorem decodeNdk_cons (r : NdkRec) (rs : List NdkRec) :
    decodeNdk (r :: rs) = Except.bind (ndkRec r) fun ev => Except.bind (decodeNdk rs) fun evs => .ok (ev :: evs) := by
  simp only [decodeNdk, List.mapM_cons]; rfl

open ReaderText Readers in
theorem ndkRec_error (r : NdkRec) (e : Err) (h : ndkRec r = .error e) : e = .badTime := by
  have key : ∀ (b : Bool) (x : Event), (if b = true then Except.ok x else Except.error Err.badTime) = Except.error e →
      e = .badTime := by
    intro b x h'
    cases b
    · simp only [Bool.false_eq_true, if_false] at h'; cases h'; rfl
    · simp only [if_true] at h'; cases h'
  exact key _ _ h

open ReaderText Readers in
/-- `modelEvents` is `ndkFile`'s aggregation: failure iff some group is `badTime` or a record's clock is invalid, else
    `decodeNdk` of the records -/
theorem modelEvents_eq_decode : ∀ (cs : List NdkGroup), NdkGroup.outside ∉ cs →
    (match modelEvents cs with
     | some evs => NdkGroup.badTime ∉ cs ∧ decodeNdk (recordsOf cs) = .ok evs
     | none => NdkGroup.badTime ∈ cs ∨ decodeNdk (recordsOf cs) = .error .badTime)
  | [], _ => by
    show NdkGroup.badTime ∉ [] ∧ decodeNdk [] = .ok []
    exact ⟨List.not_mem_nil, rfl⟩
  | .skipped :: cs, h => by
    have ih := modelEvents_eq_decode cs (fun hm => h (List.mem_cons_of_mem _ hm))
    show (match modelEvents cs with
      | some evs => NdkGroup.badTime ∉ NdkGroup.skipped :: cs ∧ decodeNdk (recordsOf cs) = .ok evs
      | none => NdkGroup.badTime ∈ NdkGroup.skipped :: cs ∨ decodeNdk (recordsOf cs) = .error .badTime)
    cases hm : modelEvents cs with
    | none =>
      rw [hm] at ih
      rcases ih with ih | ih
      · exact Or.inl (List.mem_cons_of_mem _ ih)
      · exact Or.inr ih
    | some evs =>
      rw [hm] at ih
      refine ⟨fun hmem => ?_, ih.2⟩
      cases hmem with
      | tail _ h' => exact ih.1 h'
  | .badTime :: cs, _ => Or.inl (List.mem_cons_self)
  | .outside :: cs, h => absurd (List.mem_cons_self) h
  | .record r m :: cs, h => by
    have ih := modelEvents_eq_decode cs (fun hm => h (List.mem_cons_of_mem _ hm))
    show (match (match ndkRec r with | .ok ev => (modelEvents cs).map (ev :: ·) | .error _ => none) with
      | some evs => NdkGroup.badTime ∉ NdkGroup.record r m :: cs ∧ decodeNdk (r :: recordsOf cs) = .ok evs
      | none => NdkGroup.badTime ∈ NdkGroup.record r m :: cs ∨ decodeNdk (r :: recordsOf cs) = .error .badTime)
    rw [decodeNdk_cons]
    cases hr : ndkRec r with
    | error e =>
      have := ndkRec_error r e hr
      subst this
      exact Or.inr rfl
    | ok ev =>
      cases hm : modelEvents cs with
      | none =>
        rw [hm] at ih
        rcases ih with ih | ih
        · exact Or.inl (List.mem_cons_of_mem _ ih)
        · refine Or.inr ?_
          rw [ih]; rfl
      | some evs =>
        rw [hm] at ih
        refine ⟨fun hmem => ?_, ?_⟩
        · cases hmem with
          | tail _ h' => exact ih.1 h'
        · rw [ih.2]; rfl

open ReaderText Readers in
def evOf (e : NdkEv) : Event := ⟨e.2.1, e.2.2.1, e.2.2.2.1, e.2.2.2.2.1, e.2.2.2.2.2⟩

open ReaderText Readers in
/-- if every group goes the way the model's classification says, the loop gives the model's verdict: RuntimeError where the
    model fails the load, else the model's events in order (each with the index of its group as id) -/
theorem ndkRef_eq_decode {Line : Type} (step : Nat → List (Option Line) → M (Option NdkEv))
    (cls : List (Option Line) → NdkGroup) :
    ∀ (gs : List (List (Option Line))) (k : Nat) (acc : List NdkEv),
      (∀ j g, (j, g) ∈ PySM.enumerateFrom k gs → Agrees step j g (cls g)) →
      (match modelEvents (gs.map cls) with
       | none => ndkRef step (PySM.enumerateFrom k gs) acc = .error Exc.runtimeError
       | some evs => ∃ evs' : List NdkEv, ndkRef step (PySM.enumerateFrom k gs) acc = .ok (acc ++ evs') ∧
           evs'.map evOf = evs)
  | [], k, acc, _ => ⟨[], by simp [PySM.enumerateFrom, ndkRef], rfl⟩
  | g :: gs, k, acc, h => by
    have hg := h k g (List.mem_cons_self)
    have hrest : ∀ j g', (j, g') ∈ PySM.enumerateFrom (k + 1) gs → Agrees step j g' (cls g') :=
      fun j g' hm => h j g' (List.mem_cons_of_mem _ hm)
    show (match modelEvents (cls g :: gs.map cls) with
       | none => Except.bind (step k g) (fun o => ndkRef step (PySM.enumerateFrom (k + 1) gs) (acc ++ o.toList))
           = .error Exc.runtimeError
       | some evs => ∃ evs' : List NdkEv,
           Except.bind (step k g) (fun o => ndkRef step (PySM.enumerateFrom (k + 1) gs) (acc ++ o.toList))
             = .ok (acc ++ evs') ∧ evs'.map evOf = evs)
    cases hc : cls g with
    | skipped =>
      rw [hc] at hg
      have hg' : step k g = .ok none := hg
      rw [hg', modelEvents_skipped]
      simp only [bind_ok'', Option.toList, List.append_nil]
      exact ndkRef_eq_decode step cls gs (k + 1) acc hrest
    | badTime =>
      rw [hc] at hg
      have hg' : step k g = .error Exc.runtimeError := hg
      rw [hg', modelEvents_badTime]; rfl
    | outside => rw [hc] at hg; exact hg.elim
    | record r m =>
      rw [hc] at hg
      rw [modelEvents_record]
      cases hr : ndkRec r with
      | error e =>
        have hg' : step k g = .error Exc.runtimeError := by
          have : Agrees step k g (.record r m) = (match ndkRec r with
            | .ok ev => step k g = .ok (some (k, ev.time, ev.lat, ev.lon, ev.depth, ev.mag))
            | .error _ => step k g = .error Exc.runtimeError) := rfl
          rw [this, hr] at hg; exact hg
        rw [hg']; rfl
      | ok ev =>
        have hg' : step k g = .ok (some (k, ev.time, ev.lat, ev.lon, ev.depth, ev.mag)) := by
          have : Agrees step k g (.record r m) = (match ndkRec r with
            | .ok ev => step k g = .ok (some (k, ev.time, ev.lat, ev.lon, ev.depth, ev.mag))
            | .error _ => step k g = .error Exc.runtimeError) := rfl
          rw [this, hr] at hg; exact hg
        rw [hg']
        have ih := ndkRef_eq_decode step cls gs (k + 1) (acc ++ [(k, ev.time, ev.lat, ev.lon, ev.depth, ev.mag)]) hrest
        cases hm : modelEvents (gs.map cls) with
        | none =>
          rw [hm] at ih
          exact ih
        | some evs =>
          rw [hm] at ih
          obtain ⟨evs', h1, h2⟩ := ih
          refine ⟨(k, ev.time, ev.lat, ev.lon, ev.depth, ev.mag) :: evs', ?_, ?_⟩
          · show ndkRef step (PySM.enumerateFrom (k + 1) gs) (acc ++ [(k, ev.time, ev.lat, ev.lon, ev.depth, ev.mag)]) = _
            rw [h1]; simp
          · simp [h2, evOf]

/-! ### the complete groups of `chunksLongest 5` are the model's groups of five -/

/-- `ReaderText.groups5` for any item type -/
def groups5' {β : Type} : List β → List (List β)
  | a :: b :: c :: d :: e :: rest => [a, b, c, d, e] :: groups5' rest
  | _ => []

theorem complete_chunksAux {β : Type} : ∀ (fuel : Nat) (xs : List β), xs.length ≤ fuel →
    ((PySM.chunksLongestAux 5 fuel xs).filter (fun g => !(g.any Option.isNone))) = (groups5' xs).map (·.map some)
  | 0, xs, h => by
    have : xs = [] := List.length_eq_zero_iff.mp (Nat.le_zero.mp h)
    subst this; simp [PySM.chunksLongestAux, groups5']
  | fuel + 1, [], _ => by simp [PySM.chunksLongestAux, groups5']
  | fuel + 1, [a], _ => by
    cases fuel <;> simp [PySM.chunksLongestAux, groups5', List.replicate]
  | fuel + 1, [a, b], _ => by
    cases fuel <;> simp [PySM.chunksLongestAux, groups5', List.replicate]
  | fuel + 1, [a, b, c], _ => by
    cases fuel <;> simp [PySM.chunksLongestAux, groups5', List.replicate]
  | fuel + 1, [a, b, c, d], _ => by
    cases fuel <;> simp [PySM.chunksLongestAux, groups5', List.replicate]
  | fuel + 1, a :: b :: c :: d :: e :: rest, h => by
    have h' : rest.length ≤ fuel := by simp at h; omega
    have ih := complete_chunksAux fuel rest h'
    simp [PySM.chunksLongestAux, groups5', ih]

theorem complete_chunks {β : Type} (xs : List β) :
    ((PySM.chunksLongest 5 xs).filter (fun g => !(g.any Option.isNone))) = (groups5' xs).map (·.map some) := by
  simp only [PySM.chunksLongest]
  exact complete_chunksAux xs.length xs (Nat.le_refl _)

theorem groups5'_eq (ls : List ReaderText.Str) :
    groups5' ls = (ReaderText.groups5 ls).map (fun g => [g.1, g.2.1, g.2.2.1, g.2.2.2.1, g.2.2.2.2])
  := by
  match ls with
  | [] => simp [groups5', ReaderText.groups5]
  | [_] => simp [groups5', ReaderText.groups5]
  | [_, _] => simp [groups5', ReaderText.groups5]
  | [_, _, _] => simp [groups5', ReaderText.groups5]
  | [_, _, _, _] => simp [groups5', ReaderText.groups5]
  | a :: b :: c :: d :: e :: rest =>
    simp [groups5', ReaderText.groups5, groups5'_eq rest]

/-- the nested helpers (opaque parameters above) are the ones this file was written for -/
theorem ndk_loop_helpers_pinned : SrcSM.ndk_loop_helpers =
    [("_read_lines", "b68fbc167f90"), ("lines_iter", "5008e403038f")] := rfl

end SrcSM
