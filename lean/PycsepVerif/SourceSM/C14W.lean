import PycsepVerif.GeneratedSrcSM
import PycsepVerif.Model.Persist
import PycsepVerif.SourceSM.LoopLemmas
/-!
# Source tie of C14 (imperative code): `write_ascii`, generated from the Python source, equals the hand model
# (Model/Persist.lean `writeAsciiG`; the characters of the records are Model/PersistText.lean `renderLines`)

`SrcSM.write_ascii` is regenerated from `csep/core/catalogs.py` on every run. The file is the hidden stream `file'`: the
list of its records, a record being a list of opaque `Cell`s (`open(…, 'a' | 'w', newline='')` keeps / empties it,
`writer.writeheader()` appends the seven field names, `writer.writerow(adict)` appends `PySM.dictRow header adict ''`).
The catalog array is a list of opaque rows with typed columns; `self.catalog[id_col]` (a column named at run time) is
opaque and raises ValueError when there is no such field — the handler writes `''` ids; an id is an opaque value that
`decode('utf-8')` turns into text, AttributeError (a `str` has no `decode`) keeps it; the time text is ONE opaque function
of the epoch; every value enters its cell through the opaque injection of its type.

* `write_ascii_eq_model`: for all opaque functions, `write_ascii` is `writeAsciiRef`: `base` (old records when appending,
  else none), the header record if asked for, `return` after it for an empty catalog when `write_empty`, else one record
  per event in order with the seven cells in HEADER order (`dictRow` on the literal keys), the first failing opaque call
  ends it.
* `writeAsciiRef_eq_writeAsciiG`: with the hand model's instantiation (rows = `Persist.Event`s, ids bytes iff the id column
  exists, float cells through the codec, `catIdText`, `timeString`) the records are those of `Persist.writeAsciiG`, each
  written as its cells (`encLine`), for every `hasIdCol`, header / empty / append flag and old content.
-/
set_option linter.unusedSimpArgs false
set_option linter.unusedVariables false
namespace SrcSM
open PySM

section
variable {Row IdVal Cell : Type}
  (decode : IdVal → String → M IdVal) (timeStr : Int → M String) (idColumn : List Row → String → M (List IdVal))
  (idOfStr : String → IdVal) (cellStr : String → Cell) (cellF : Rat → Cell) (cellOptInt : Option Int → Cell)
  (cellId : IdVal → Cell) (cLon cLat cMag : Row → Rat) (cTime : Row → Int) (cDepth : Row → Rat)

abbrev WRow (IdVal : Type) := Rat × Rat × Rat × Int × Rat × Option Int × IdVal

def headerNames : List String := ["lon", "lat", "mag", "time_string", "depth", "catalog_id", "event_id"]

/-- the record of one event: the seven cells in header order -/
def rowCells (row : WRow IdVal) : M (List Cell) :=
  Except.bind (PySM.tryCatch (decode row.2.2.2.2.2.2 "utf-8") (fun e => decide (e = Exc.attributeError))
      (fun t => Except.ok t) (fun _ => Except.ok row.2.2.2.2.2.2)) fun eid =>
  Except.bind (timeStr row.2.2.2.1) fun t =>
  Except.ok [cellF row.1, cellF row.2.1, cellF row.2.2.1, cellStr t, cellF row.2.2.2.2.1, cellOptInt row.2.2.2.2.2.1,
    cellId eid]

def writeRows : List (WRow IdVal) → List (List Cell) → M (List (List Cell))
  | [], acc => .ok acc
  | r :: rs, acc => Except.bind (rowCells decode timeStr cellStr cellF cellOptInt cellId r) fun c =>
      writeRows rs (acc ++ [c])

def writeAsciiRef (old : List (List Cell)) (cat : List Row) (catId : Option Int)
    (writeHeader writeEmpty append : Bool) (idCol : String) : M (List (List Cell)) :=
  let base := if append then old else []
  let rows := fun (ids : List IdVal) => List.zip (cat.map cLon) (List.zip (cat.map cLat) (List.zip (cat.map cMag)
    (List.zip (cat.map cTime) (List.zip (cat.map cDepth) (List.zip (List.replicate cat.length catId) ids)))))
  let ids := PySM.tryCatch (idColumn cat idCol) (fun e => decide (e = Exc.py Py.Err.valueError)) (fun t => Except.ok t)
    (fun _ => Except.ok (List.replicate cat.length (idOfStr "")))
  if writeHeader then
    if writeEmpty && cat.isEmpty then .ok (base ++ [headerNames.map cellStr])
    else Except.bind ids fun ids =>
      writeRows decode timeStr cellStr cellF cellOptInt cellId (rows ids) (base ++ [headerNames.map cellStr])
  else Except.bind ids fun ids => writeRows decode timeStr cellStr cellF cellOptInt cellId (rows ids) base

theorem forLoop_writeRows (B : List (List Cell) → WRow IdVal → M (Ctl (List (List Cell))))
    (hB : ∀ s row, B s row = Except.bind (rowCells decode timeStr cellStr cellF cellOptInt cellId row) fun c =>
      Except.ok (Ctl.next (s ++ [c]))) :
    ∀ (rs : List (WRow IdVal)) (acc : List (List Cell)),
      PySM.forLoop (σ := List (List Cell)) B rs acc = writeRows decode timeStr cellStr cellF cellOptInt cellId rs acc
  | [], acc => rfl
  | r :: rs, acc => by
    simp only [PySM.forLoop, writeRows, hB]
    cases h : rowCells decode timeStr cellStr cellF cellOptInt cellId r with
    | error e => rfl
    | ok c => simp only [bind_ok'']; exact forLoop_writeRows B hB rs _

/-- `writer.writerow` on the literal keys: the cells in header order -/
theorem dictRow_header (a b c d e f g r : Cell) :
    PySM.dictRow ["lon", "lat", "mag", "time_string", "depth", "catalog_id", "event_id"]
      [("lon", a), ("lat", b), ("mag", c), ("time_string", d), ("depth", e), ("catalog_id", f), ("event_id", g)] r
      = Except.ok [a, b, c, d, e, f, g] := by
  simp [PySM.dictRow]

-- the loop body is `rowCells` followed by the append, in whatever order the keys of the dict display are written
set_option hygiene false in
macro "write_ascii_body" : tactic => `(tactic| (
  simp only [rowCells, PySM.dictRow, PySM.append, bind_ok'']
  cases PySM.tryCatch (decode row.2.2.2.2.2.2 "utf-8") (fun e => decide (e = Exc.attributeError))
      (fun t => Except.ok t) (fun _ => Except.ok row.2.2.2.2.2.2) with
  | error e => rfl
  | ok eid =>
    simp only [bind_ok'']
    cases timeStr row.2.2.2.1 with
    | error e => rfl
    | ok t => simp [bind_ok'']))

theorem write_ascii_eq_model (old : List (List Cell)) (cat : List Row) (catId : Option Int)
    (writeHeader writeEmpty append : Bool) (idCol : String) :
    SrcSM.write_ascii decode timeStr idColumn idOfStr cellStr cellF cellOptInt cellId cLon cLat cMag cTime cDepth
        old (cat, catId) writeHeader writeEmpty append idCol
      = writeAsciiRef decode timeStr idColumn idOfStr cellStr cellF cellOptInt cellId cLon cLat cMag cTime cDepth
        old cat catId writeHeader writeEmpty append idCol := by
  unfold SrcSM.write_ascii writeAsciiRef
  have hsz : ∀ (l : List Row), decide (Py.size l = (0 : Int)) = l.isEmpty := by
    intro l; cases l
    · simp [Py.size]
    · simp only [Py.size, List.length_cons, List.isEmpty_cons, decide_eq_false_iff_not]; omega
  have hn : ∀ (l : List Row), Int.toNat (Py.size l) = l.length := by intro l; simp [Py.size]
  have hmapid : ∀ n, List.map (fun x_ => idOfStr x_) (List.replicate n "") = List.replicate n (idOfStr "") := by
    intro n; simp
  cases append <;> cases writeHeader <;>
    simp only [if_true, if_false, Bool.false_eq_true, bind_ok'', PySM.openForWrite, beq_self_eq_true, Bool.not_true, Bool.not_false,
      show (("w" : String) == "a") = false from by decide, hsz, hn, hmapid, PySM.append, headerNames, List.nil_append]
  all_goals first
    | (congr 1; funext ids
       rw [forLoop_writeRows decode timeStr cellStr cellF cellOptInt cellId _ ?hB]
       case hB => exact fun s row => by write_ascii_body
       cases writeRows decode timeStr cellStr cellF cellOptInt cellId _ _ <;> rfl)
    | (split
       · rfl
       · congr 1; funext ids
         rw [forLoop_writeRows decode timeStr cellStr cellF cellOptInt cellId _ ?hB]
         case hB => exact fun s row => by write_ascii_body
         cases writeRows decode timeStr cellStr cellF cellOptInt cellId _ _ <;> rfl)

end

/-! ### the hand model's instantiation -/
section Model
open Persist
variable {F Cell R : Type} (c : FloatCodec F) (cellF : F → Cell) (cellT : List Char → Cell)

/-- a record of the model as the cells the code writes -/
def encLine : Line F → List Cell
  | .header => headerNames.map fun s => cellT s.toList
  | .row r => [cellF r.lon, cellF r.lat, cellF r.mag, cellT r.time, cellF r.depth, cellT r.catId, cellT r.evId]

/-- an id of the catalog array: bytes (`true`) when it comes from the id column, the str `''` otherwise -/
abbrev MId := Bool × List Char

def mDecode : MId → String → M MId
  | (true, t), _ => .ok (false, t)
  | (false, _), _ => .error Exc.attributeError

def mIdColumn (hasIdCol : Bool) (evs : List Event) (_ : String) : M (List MId) :=
  if hasIdCol then .ok (evs.map fun e => (true, e.id)) else .error (Exc.py Py.Err.valueError)

theorem writeRows_model (hasIdCol : Bool) (catId : Option Int) : ∀ (evs : List Event) (acc : List (List Cell)),
    writeRows mDecode (fun ms => Except.ok (String.ofList (timeString ms))) (fun s => cellT s.toList)
      (fun x => cellF (c.enc x)) (fun o => cellT (catIdText o)) (fun (i : MId) => cellT i.2)
      (evs.map fun e => (e.lon, e.lat, e.mag, e.ms, e.depth, catId,
        if hasIdCol then ((true, e.id) : MId) else (false, [])))
      acc
    = Except.ok (acc ++ evs.map fun e =>
        encLine cellF cellT (Line.row (if hasIdCol then rowOf c catId e else rowOfNoId c catId e)))
  | [], acc => by simp [writeRows]
  | e :: evs, acc => by
    have ih := writeRows_model hasIdCol catId evs
    cases hasIdCol <;> simp only [Bool.false_eq_true, if_false, if_true] at ih ⊢ <;>
      simp [writeRows, rowCells, mDecode, PySM.tryCatch, bind_ok'', ih, encLine, rowOf, rowOfNoId, List.append_assoc]

theorem zip7_map {β : Type} (evs : List Event) (catId : Option Int) (ids : Event → β) :
    List.zip (evs.map (·.lon)) (List.zip (evs.map (·.lat)) (List.zip (evs.map (·.mag)) (List.zip (evs.map (·.ms))
      (List.zip (evs.map (·.depth)) (List.zip (List.replicate evs.length catId) (evs.map ids))))))
    = evs.map fun e => (e.lon, e.lat, e.mag, e.ms, e.depth, catId, ids e) := by
  induction evs with
  | nil => rfl
  | cons e evs ih => simp [List.replicate_succ, ih]

/-- with the hand model's instantiation the records are those of `Persist.writeAsciiG`, each written as its cells -/
theorem writeAsciiRef_eq_writeAsciiG (cat : Catalog R) (writeHeader writeEmpty append hasIdCol : Bool)
    (old : List (Line F)) (idCol : String) :
    writeAsciiRef mDecode (fun ms => Except.ok (String.ofList (timeString ms))) (mIdColumn hasIdCol)
        (fun s => ((false, s.toList) : MId)) (fun s => cellT s.toList) (fun x => cellF (c.enc x))
        (fun o => cellT (catIdText o)) (fun (i : MId) => cellT i.2)
        (·.lon) (·.lat) (·.mag) (·.ms) (·.depth)
        (old.map (encLine cellF cellT)) cat.events cat.catalogId writeHeader writeEmpty append idCol
      = Except.ok ((writeAsciiG c cat writeHeader writeEmpty append old hasIdCol).map (encLine cellF cellT)) := by
  have hrep : List.replicate cat.events.length ((false, "".toList) : MId)
      = cat.events.map fun _ => ((false, []) : MId) := by
    simp [List.map_const']
  have hm := writeRows_model c cellF cellT hasIdCol cat.catalogId cat.events
  cases hasIdCol <;> cases writeHeader <;> cases append <;>
    simp only [writeAsciiRef, writeAsciiG, mIdColumn, PySM.tryCatch, if_true, if_false, Bool.false_eq_true, bind_ok'',
      decide_true, hrep, zip7_map, List.nil_append] <;>
    simp only [Bool.false_eq_true, if_false, if_true] at hm <;>
    (try split) <;>
    simp [hm, encLine, headerNames, List.map_append, List.map_map, Function.comp_def]

end Model

/-! ### `to_dict` -/
section ToDict
variable {Attr Arr Item : Type} (toDict : Attr → M Attr) (tolist : Arr → List (List Item)) (decode : Item → String → M Item)
  (callable hasToDict : Attr → Bool)

abbrev DOut (Attr Item : Type) := List (String × (Attr ⊕ List (List Item)))

/-- the key under which an attribute is stored: a leading underscore is dropped -/
def stripKey (k : String) : String := if PySM.strStartsWith k "_" then PySM.strDrop k 1 else k

/-- one attribute of `__dict__` -/
def attrStep (out : DOut Attr Item) (kv : String × Attr) : M (DOut Attr Item) :=
  if !(callable kv.2) && !(["_catalog"].contains kv.1) then
    Except.bind (if hasToDict kv.2 then toDict kv.2 else Except.ok kv.2) fun nv =>
      Except.ok (PySM.dictSet out (stripKey kv.1) (Sum.inl nv))
  else Except.ok out

/-- `item.decode('utf-8')` if that works, else the item -/
def decodeItem (it : Item) : M Item :=
  PySM.tryCatch (decode it "utf-8") PySM.catchesAll (fun t => Except.ok t) (fun _ => Except.ok it)

def rowStep (out : DOut Attr Item) (line : List Item) : M (DOut Attr Item) :=
  Except.bind (iterRows (fun (nl : List Item) it => Except.bind (decodeItem decode it) fun it' => Except.ok (nl ++ [it'])) line [])
    fun nl => PySM.dictAppend out "catalog" nl

def toDictRef (d : List (String × Attr)) (arr : Arr) : M (DOut Attr Item) :=
  Except.bind (iterRows (attrStep toDict callable hasToDict) d []) fun o =>
    iterRows (rowStep decode) (tolist arr) (PySM.dictSet o "catalog" (Sum.inr []))

theorem forLoop_iterRows {σ β : Type} (f : σ → β → M σ) (B : σ → β → M (Ctl σ))
    (hB : ∀ s x, B s x = Except.bind (f s x) fun s' => Except.ok (Ctl.next s')) :
    ∀ (xs : List β) (s : σ), PySM.forLoop B xs s = iterRows f xs s
  | [], s => rfl
  | x :: xs, s => by
    simp only [PySM.forLoop, iterRows, hB]
    cases f s x with
    | error e => rfl
    | ok s' => simp only [bind_ok'']; exact forLoop_iterRows f B hB xs s'

theorem catalog_to_dict_eq_model (d : List (String × Attr)) (arr : Arr) :
    SrcSM.catalog_to_dict toDict tolist decode callable hasToDict (d, arr)
      = toDictRef toDict tolist decode callable hasToDict d arr := by
  unfold SrcSM.catalog_to_dict toDictRef
  dsimp only
  rw [forLoop_iterRows (attrStep toDict callable hasToDict) _ ?h1]
  case h1 =>
    intro s x
    simp only [attrStep, stripKey]
    by_cases hc : (!(callable x.2) && !(["_catalog"].contains x.1)) = true
    · simp only [hc, if_true]
      by_cases hh : hasToDict x.2 = true
      · simp only [hh, if_true]
        cases toDict x.2 with
        | error e => rfl
        | ok nv => by_cases hs : PySM.strStartsWith x.1 "_" = true <;> simp [hs, bind_ok'']
      · simp only [hh, Bool.false_eq_true, if_false, bind_ok'']
        by_cases hs : PySM.strStartsWith x.1 "_" = true <;> simp [hs, bind_ok'']
    · simp only [hc, Bool.false_eq_true, if_false, bind_ok'']
  cases iterRows (attrStep toDict callable hasToDict) d [] with
  | error e => rfl
  | ok o =>
    simp only [bind_ok'']
    rw [forLoop_iterRows (rowStep decode) _ ?h2]
    case h2 =>
      intro s line
      simp only [rowStep]
      rw [forLoop_iterRows (fun (nl : List Item) it => Except.bind (decodeItem decode it) fun it' => Except.ok (nl ++ [it'])) _ ?h3]
      case h3 =>
        intro nl it
        simp only [decodeItem, PySM.append]
        cases PySM.tryCatch (decode it "utf-8") PySM.catchesAll (fun t => Except.ok t) (fun _ => Except.ok it) <;> rfl
      cases iterRows (fun (nl : List Item) it => Except.bind (decodeItem decode it) fun it' => Except.ok (nl ++ [it'])) line [] with
      | error e => rfl
      | ok nl =>
        simp only [bind_ok'']
        first | done | (cases PySM.dictAppend s "catalog" nl <;> rfl)
    cases iterRows (rowStep decode) (tolist arr) (PySM.dictSet o "catalog" (Sum.inr [])) <;> rfl

/-! #### what the result is, explicitly (no key twice; this is `Persist.toDict` / `CatalogDoc.toTree` up to the order of keys:
    `catalog`, `catalog_id`, `name`, `region` (its own `to_dict`) and the other attributes) -/

theorem dictSet_absent {β : Type} : ∀ (out : List (String × β)) (k : String) (v : β), k ∉ out.map (·.1) →
    PySM.dictSet out k v = out ++ [(k, v)]
  | [], k, v, _ => rfl
  | (k', v') :: rest, k, v, h => by
    have h1 : k' ≠ k := fun e => h (by simp [e])
    have h2 : k ∉ rest.map (·.1) := fun hm => h (by simp [hm])
    simp [PySM.dictSet, h1, dictSet_absent rest k v h2]

theorem dictAppend_last {α β : Type} : ∀ (pre : List (String × (α ⊕ List β))) (k : String) (acc : List β) (x : β),
    k ∉ pre.map (·.1) →
    PySM.dictAppend (pre ++ [(k, Sum.inr acc)]) k x = Except.ok (pre ++ [(k, Sum.inr (acc ++ [x]))])
  | [], k, acc, x, _ => by simp [PySM.dictAppend]
  | (k', v') :: rest, k, acc, x, h => by
    have h1 : k' ≠ k := fun e => h (by simp [e])
    have h2 : k ∉ rest.map (·.1) := fun hm => h (by simp [hm])
    simp [PySM.dictAppend, h1, dictAppend_last rest k acc x h2, bind_ok'']

/-- the attributes that are copied -/
def keepAttr (kv : String × Attr) : Bool := !(callable kv.2) && !(["_catalog"].contains kv.1)

theorem attrs_explicit (conv : Attr → Attr)
    (hconv : ∀ v, (if hasToDict v then toDict v else Except.ok v) = Except.ok (conv v)) :
    ∀ (d : List (String × Attr)) (out : DOut Attr Item),
      (out.map (·.1) ++ (d.filter (keepAttr callable)).map (fun kv => stripKey kv.1)).Nodup →
      iterRows (attrStep (Item := Item) toDict callable hasToDict) d out
        = Except.ok (out ++ (d.filter (keepAttr callable)).map fun kv => (stripKey kv.1, Sum.inl (conv kv.2)))
  | [], out, _ => by simp [iterRows]
  | kv :: d, out, h => by
    by_cases hk : keepAttr callable kv = true
    · have hk' : (!(callable kv.2) && !(["_catalog"].contains kv.1)) = true := hk
      simp only [List.filter_cons, hk, if_true, List.map_cons] at h ⊢
      have habs : stripKey kv.1 ∉ out.map (·.1) := by
        intro hm
        have := List.nodup_append.mp h
        exact this.2.2 _ hm _ (List.mem_cons_self) rfl
      simp only [iterRows, attrStep, hk', if_true, hconv, bind_ok'', dictSet_absent _ _ _ habs]
      rw [attrs_explicit conv hconv d _ (by simpa [List.map_append, List.append_assoc] using h)]
      simp [List.append_assoc]
    · have hk' : (!(callable kv.2) && !(["_catalog"].contains kv.1)) = false := by
        simpa [keepAttr] using hk
      simp only [List.filter_cons, hk, Bool.false_eq_true, if_false] at h ⊢
      simp only [iterRows, attrStep, hk', Bool.false_eq_true, if_false, bind_ok'']
      exact attrs_explicit conv hconv d out h

theorem line_explicit (dec : Item → Item) (hdec : ∀ it, decodeItem decode it = Except.ok (dec it)) :
    ∀ (line acc : List Item),
      iterRows (fun (nl : List Item) it => Except.bind (decodeItem decode it) fun it' => Except.ok (nl ++ [it'])) line acc
        = Except.ok (acc ++ line.map dec)
  | [], acc => by simp [iterRows]
  | it :: line, acc => by
    have ih := line_explicit dec hdec line (acc ++ [dec it])
    simp only [hdec, bind_ok''] at ih
    simp only [iterRows, hdec, bind_ok'', ih]
    simp [List.append_assoc]

theorem rows_explicit (dec : Item → Item) (hdec : ∀ it, decodeItem decode it = Except.ok (dec it))
    (pre : DOut Attr Item) (hpre : "catalog" ∉ pre.map (·.1)) :
    ∀ (rows : List (List Item)) (acc : List (List Item)),
      iterRows (rowStep (Attr := Attr) decode) rows (pre ++ [("catalog", Sum.inr acc)])
        = Except.ok (pre ++ [("catalog", Sum.inr (acc ++ rows.map (·.map dec)))])
  | [], acc => by simp [iterRows]
  | line :: rows, acc => by
    simp only [iterRows, rowStep, line_explicit decode dec hdec, bind_ok'', List.nil_append,
      dictAppend_last pre "catalog" acc _ hpre, rows_explicit dec hdec pre hpre rows]
    simp [List.append_assoc]

/-- `to_dict()` explicitly, when no stored key occurs twice: the copied attributes in `__dict__` order under their stripped
    names (converted by their own `to_dict` when they have one), then `catalog`: the rows with their bytes items decoded -/
theorem toDictRef_explicit (conv : Attr → Attr) (dec : Item → Item)
    (hconv : ∀ v, (if hasToDict v then toDict v else Except.ok v) = Except.ok (conv v))
    (hdec : ∀ it, decodeItem decode it = Except.ok (dec it))
    (d : List (String × Attr)) (arr : Arr)
    (hnodup : ((d.filter (keepAttr callable)).map (fun kv => stripKey kv.1) ++ ["catalog"]).Nodup) :
    toDictRef toDict tolist decode callable hasToDict d arr
      = Except.ok (((d.filter (keepAttr callable)).map fun kv => (stripKey kv.1, Sum.inl (conv kv.2)))
          ++ [("catalog", Sum.inr ((tolist arr).map (·.map dec)))]) := by
  have hn := List.nodup_append.mp hnodup
  have hcat : "catalog" ∉ ((d.filter (keepAttr callable)).map fun kv => (stripKey kv.1, (Sum.inl (conv kv.2) : Attr ⊕ List (List Item)))).map (·.1) := by
    intro hm
    simp only [List.map_map, Function.comp_def] at hm
    exact hn.2.2 _ hm _ (List.mem_singleton.mpr rfl) rfl
  unfold toDictRef
  rw [attrs_explicit toDict callable hasToDict conv hconv d [] (by simpa using hn.1)]
  simp only [bind_ok'', List.nil_append, dictSet_absent _ _ _ hcat]
  rw [rows_explicit decode dec hdec _ hcat (tolist arr) []]
  simp

end ToDict

end SrcSM
