import PycsepVerif.GeneratedSrcSM
import PycsepVerif.Model.RegionBuild
/-!
# Source tie of C01 (imperative code): the build loop of `CartesianGrid2D._build_bitmask_vec`, generated from the Python
# source, equals the hand model (Model/Region.lean `build`, Model/RegionBuild.lean `hashCells`)

`SrcSM.build_bitmask_loop` is regenerated from `csep/core/regions.py` on every run (harness/py2lean_sm.py): the function
from its `for i in range(len(self.polygons))` loop on. The n-d array `a` (shape (ny, nx, 2)), the bin indices `idx`, `idy`
and the edge arrays `xs`, `ys` computed before the loop are parameters; the state record is read only
(`self.polygons`: its length; `self.poly_mask`: None or a list of flags).

The hand model keeps the array as a log of writes (`Region.Grid`) over its initial content. The theorem says that the array
the generated loop returns is the initial array overwritten by that log: for every position (r, c)

    a'[r, c, 1] = k           if the log's newest index write at (r, c) is k, else a[r, c, 1]
    a'[r, c, 0] = 0           if the log unmasks (r, c),                      else a[r, c, 0]

for the cells `hashCells nx ny (zip idx idy) flags` of the model, whenever the inputs are what the code before the loop
produces: `idx`, `idy` (and `poly_mask`) have one entry per polygon, every index lies in `[-n, n)` of its axis
(`bin1d_vec` gives −1 … n−1), and polygon numbers convert to float64 exactly (`Py.i2f k = k`). No exception occurs.
-/
set_option linter.unusedSimpArgs false
namespace SrcSM
open Region PySM

/-- `poly_mask is None or poly_mask[k] == 1` -/
def flagAt (pm : Option (List Int)) (k : Nat) : Bool :=
  match pm with
  | none => true
  | some m => decide (m.getD k 0 = 1)

/-- the model's cell of polygon `k` -/
def cellAt (nx ny : Nat) (idx idy : List Int) (pm : Option (List Int)) (k : Nat) : Cell :=
  cellOfHash nx ny (idx.getD k 0) (idy.getD k 0) (flagAt pm k)

/-- the flag list the model consumes: `poly_mask[k] == 1` -/
def flagsOf (pm : Option (List Int)) : Option (List Bool) := pm.map (fun m => m.map (fun v => decide (v = 1)))

/-- the model's `hashCells` is the list of `cellAt k`, k = 0 … n-1 -/
theorem hashCells_eq (nx ny : Nat) : ∀ (idx idy : List Int) (pm : Option (List Int)),
    idy.length = idx.length → (∀ m, pm = some m → m.length = idx.length) →
    hashCells nx ny (idx.zip idy) (flagsOf pm) = (List.range idx.length).map (cellAt nx ny idx idy pm)
  | [], idy, pm, _, _ => by simp [hashCells]
  | i :: idx, [], pm, h, _ => by simp at h
  | i :: idx, j :: idy, pm, h, hm => by
    have hl : idy.length = idx.length := by simpa using h
    rw [List.length_cons, List.range_succ_eq_map, List.map_cons, List.map_map]
    cases pm with
    | none =>
      have ih := hashCells_eq nx ny idx idy none hl (by intro m hm'; cases hm')
      simp only [flagsOf, Option.map_none] at ih ⊢
      simp only [List.zip_cons_cons, hashCells, ih]
      simp [cellAt, flagAt, Function.comp_def]
    | some m =>
      cases m with
      | nil => have := hm [] rfl; simp at this
      | cons f fs =>
        have hfs : fs.length = idx.length := by have := hm (f :: fs) rfl; simpa using this
        have ih := hashCells_eq nx ny idx idy (some fs) hl (by intro m hm'; cases hm'; exact hfs)
        simp only [flagsOf, Option.map_some, List.map_cons] at ih ⊢
        simp only [List.zip_cons_cons, hashCells, ih]
        simp [cellAt, flagAt, Function.comp_def]

theorem getI_nat {β : Type} [Inhabited β] (l : List β) (k : Nat) (h : k < l.length) (d : β) :
    PySM.getI l (k : Int) = Except.ok (l.getD k d) := by
  simp [PySM.getI, PySM.normIdx, PySM.getN, h, List.getD, List.getElem?_eq_getElem h]

theorem normIdx_wrap (n : Nat) (i : Int) (h1 : -(n : Int) ≤ i) (h2 : i < (n : Int)) :
    PySM.normIdx n i = some (wrapIdx n i) := by
  unfold PySM.normIdx wrapIdx
  by_cases h : 0 ≤ i
  · have : i.toNat < n := by omega
    have h' : ¬ i < 0 := by omega
    simp [h, h', this]
  · have h' : i < 0 := by omega
    have : 0 ≤ (n : Int) + i := by omega
    simp [h, h', this]

/-- the array is the initial array `a0` overwritten by the log `g` -/
def Inv (a0 a : NdArr Rat) (g : Grid) : Prop :=
  a.shape = a0.shape ∧ ∀ r c : Nat,
    a.get [r, c, 1] = (match g.idxAt r c with | some k => ((k : Nat) : Rat) | none => a0.get [r, c, 1]) ∧
    a.get [r, c, 0] = (if g.masked r c then a0.get [r, c, 0] else 0)

/-- one iteration, as a function of the polygon's entries -/
def stepC (k : Nat) (ix iy : Int) (f : Bool) (a : NdArr Rat) : M (NdArr Rat) :=
  Except.bind (NdArr.setAt a [iy, ix, 1] (Py.i2f (k : Int))) fun a =>
    if decide (ix ≥ 0) then
      (if decide (iy ≥ 0) then (if f then NdArr.setAt a [iy, ix, 0] 0 else Except.ok a) else Except.ok a)
    else Except.ok a

theorem setAt_ok (a : NdArr Rat) (nx ny : Nat) (hs : a.shape = [ny, nx, 2]) (ix iy : Int) (p : Nat) (hp : p < 2)
    (hx1 : -(nx : Int) ≤ ix) (hx2 : ix < nx) (hy1 : -(ny : Int) ≤ iy) (hy2 : iy < ny) (v : Rat) :
    NdArr.setAt a [iy, ix, (p : Int)] v
      = Except.ok { a with get := fun q => if q = [wrapIdx ny iy, wrapIdx nx ix, p] then v else a.get q } := by
  have hp' : PySM.normIdx 2 (p : Int) = some p := by
    have : (p : Int).toNat < 2 := by omega
    simp [PySM.normIdx, this, hp]
  simp [NdArr.setAt, hs, PySM.normIdxs, normIdx_wrap _ _ hx1 hx2, normIdx_wrap _ _ hy1 hy2, hp']

theorem stepC_inv (a0 a : NdArr Rat) (g : Grid) (nx ny : Nat) (hs0 : a0.shape = [ny, nx, 2]) (k : Nat) (ix iy : Int)
    (f : Bool) (hk : Py.i2f (k : Int) = (k : Rat))
    (hx1 : -(nx : Int) ≤ ix) (hx2 : ix < nx) (hy1 : -(ny : Int) ≤ iy) (hy2 : iy < ny) (h : Inv a0 a g) :
    ∃ a', stepC k ix iy f a = Except.ok a' ∧ Inv a0 a' (g.write k (cellOfHash nx ny ix iy f)) := by
  obtain ⟨hsh, hget⟩ := h
  have hs : a.shape = [ny, nx, 2] := by rw [hsh, hs0]
  unfold stepC
  -- the array after the index write
  obtain ⟨A, hA⟩ : ∃ A : NdArr Rat, A =
      { a with get := fun q => if q = [wrapIdx ny iy, wrapIdx nx ix, 1] then Py.i2f (k : Int) else a.get q } := ⟨_, rfl⟩
  have e1 : NdArr.setAt a [iy, ix, 1] (Py.i2f (k : Int)) = Except.ok A := by
    rw [hA]; simpa using setAt_ok a nx ny hs ix iy 1 (by omega) hx1 hx2 hy1 hy2 (Py.i2f (k : Int))
  have hsA : A.shape = [ny, nx, 2] := by rw [hA]; exact hs
  have hA1 : ∀ r c : Nat, A.get [r, c, 1] =
      if (r = wrapIdx ny iy ∧ c = wrapIdx nx ix) then (k : Rat) else a.get [r, c, 1] := by
    intro r c; rw [hA]; simp [hk]
  have hA0 : ∀ r c : Nat, A.get [r, c, 0] = a.get [r, c, 0] := by
    intro r c; rw [hA]; simp
  rw [e1]
  simp only [Except.bind]
  have idx_write : ∀ r c : Nat, (g.write k (cellOfHash nx ny ix iy f)).idxAt r c =
      if (r = wrapIdx ny iy ∧ c = wrapIdx nx ix) then some k else g.idxAt r c := by
    intro r c
    by_cases hrc : r = wrapIdx ny iy ∧ c = wrapIdx nx ix
    · simp [Grid.write, Grid.idxAt, cellOfHash, List.lookup, hrc.1, hrc.2]
    · have hb : ((r, c) == (wrapIdx ny iy, wrapIdx nx ix)) = false := by simpa using hrc
      simp [Grid.write, Grid.idxAt, cellOfHash, List.lookup, hb, hrc]
  by_cases hv : (f && decide (0 ≤ ix) && decide (0 ≤ iy)) = true
  · have hf : f = true := by simp at hv; exact hv.1.1
    have hix : ix ≥ 0 := by simp at hv; exact hv.1.2
    have hiy : iy ≥ 0 := by simp at hv; exact hv.2
    subst hf
    simp only [hix, hiy, decide_true, if_true]
    have e0 : NdArr.setAt A [iy, ix, 0] 0
        = Except.ok { A with get := fun q => if q = [wrapIdx ny iy, wrapIdx nx ix, 0] then 0 else A.get q } := by
      simpa using setAt_ok A nx ny hsA ix iy 0 (by omega) hx1 hx2 hy1 hy2 0
    rw [e0]
    refine ⟨_, rfl, by rw [hA]; exact hsh, ?_⟩
    intro r c
    obtain ⟨g1, g0⟩ := hget r c
    constructor
    · have : ¬ ([r, c, 1] = [wrapIdx ny iy, wrapIdx nx ix, 0]) := by simp
      simp only [this, if_false, hA1, idx_write]
      by_cases hrc : r = wrapIdx ny iy ∧ c = wrapIdx nx ix
      · simp [hrc]
      · simp only [hrc, if_false]; exact g1
    · have hm : (g.write k (cellOfHash nx ny ix iy true)).masked r c =
          (if (r = wrapIdx ny iy ∧ c = wrapIdx nx ix) then false else g.masked r c) := by
        by_cases hrc : r = wrapIdx ny iy ∧ c = wrapIdx nx ix
        · simp [Grid.write, Grid.masked, cellOfHash, hix, hiy, hrc.1, hrc.2]
        · have hb : ((r, c) == (wrapIdx ny iy, wrapIdx nx ix)) = false := by simpa using hrc
          simp [Grid.write, Grid.masked, cellOfHash, hix, hiy, List.contains_cons, hb, hrc]
      rw [hm]
      by_cases hrc : r = wrapIdx ny iy ∧ c = wrapIdx nx ix
      · simp [hrc]
      · have : ¬ ([r, c, 0] = [wrapIdx ny iy, wrapIdx nx ix, 0]) := by simpa using hrc
        simp only [this, hrc, if_false, hA0]; exact g0
  · have hv' : (f && decide (0 ≤ ix) && decide (0 ≤ iy)) = false := by simpa using hv
    have hres : (if decide (ix ≥ 0) then
        (if decide (iy ≥ 0) then (if f then NdArr.setAt A [iy, ix, 0] 0 else Except.ok A) else Except.ok A)
        else Except.ok A) = Except.ok A := by
      by_cases hix : ix ≥ 0
      · by_cases hiy : iy ≥ 0
        · cases hf : f
          · simp [hix, hiy]
          · exfalso; simp [hf, hix, hiy] at hv'
        · simp [hix, hiy]
      · simp [hix]
    rw [hres]
    refine ⟨_, rfl, by rw [hA]; exact hsh, ?_⟩
    intro r c
    obtain ⟨g1, g0⟩ := hget r c
    constructor
    · simp only [hA1, idx_write]
      by_cases hrc : r = wrapIdx ny iy ∧ c = wrapIdx nx ix
      · simp [hrc]
      · simp only [hrc, if_false]; exact g1
    · rw [hA0, g0]
      simp [Grid.write, Grid.masked, cellOfHash, hv']

/-- the loop as a fold of `stepC` over polygon numbers -/
def foldStep (ix iy : Nat → Int) (fl : Nat → Bool) : List Nat → NdArr Rat → M (NdArr Rat)
  | [], a => Except.ok a
  | k :: ks, a =>
    match stepC k (ix k) (iy k) (fl k) a with
    | .ok a' => foldStep ix iy fl ks a'
    | .error e => .error e

theorem forLoop_eq_foldStep (ix iy : Nat → Int) (fl : Nat → Bool) (B : NdArr Rat → Int → M (Ctl (NdArr Rat))) :
    ∀ (L : List Nat) (a : NdArr Rat),
      (∀ (a : NdArr Rat) (k : Nat), k ∈ L → B a (k : Int) =
        match stepC k (ix k) (iy k) (fl k) a with
        | .ok a' => Except.ok (.next a')
        | .error e => Except.error e) →
      PySM.forLoop B (L.map (fun (j : Nat) => (j : Int))) a = foldStep ix iy fl L a
  | [], a, _ => by simp [PySM.forLoop, foldStep]
  | k :: ks, a, hB => by
    simp only [List.map_cons, PySM.forLoop, foldStep, hB a k (by simp)]
    cases stepC k (ix k) (iy k) (fl k) a with
    | error e => rfl
    | ok a' => exact forLoop_eq_foldStep ix iy fl B ks a' (fun a k hk => hB a k (by simp [hk]))

/-- the fold over polygon numbers k, k+1, …, k+m-1 against the model's `buildFrom` -/
theorem fold_inv (a0 : NdArr Rat) (nx ny : Nat) (hs0 : a0.shape = [ny, nx, 2]) (ix iy : Nat → Int) (fl : Nat → Bool)
    (n : Nat) (hk : ∀ k, k < n → Py.i2f (k : Int) = (k : Rat))
    (hx : ∀ k, k < n → -(nx : Int) ≤ ix k ∧ ix k < nx) (hy : ∀ k, k < n → -(ny : Int) ≤ iy k ∧ iy k < ny) :
    ∀ (m k : Nat) (a : NdArr Rat) (g : Grid), k + m = n → Inv a0 a g →
      ∃ a', foldStep ix iy fl (List.range' k m) a = Except.ok a'
        ∧ Inv a0 a' (buildFrom k ((List.range' k m).map (fun k => cellOfHash nx ny (ix k) (iy k) (fl k))) g)
  | 0, k, a, g, _, h => ⟨a, by simp [foldStep], by simpa [buildFrom] using h⟩
  | m + 1, k, a, g, hkm, h => by
    obtain ⟨a1, e1, h1⟩ := stepC_inv a0 a g nx ny hs0 k (ix k) (iy k) (fl k) (hk k (by omega))
      (hx k (by omega)).1 (hx k (by omega)).2 (hy k (by omega)).1 (hy k (by omega)).2 h
    obtain ⟨a2, e2, h2⟩ := fold_inv a0 nx ny hs0 ix iy fl n hk hx hy m (k + 1) a1 _ (by omega) h1
    refine ⟨a2, ?_, ?_⟩
    · simp only [List.range'_succ, foldStep, e1]
      exact e2
    · simpa [List.range'_succ, buildFrom] using h2

/-- the build loop of `_build_bitmask_vec` on the array `a` (shape (ny, nx, 2)) -/
theorem build_bitmask_loop_eq_model {Poly : Type} (polys : List Poly) (pm : Option (List Int)) (a : NdArr Rat)
    (idx idy : List Int) (xs ys : List Rat) (nx ny : Nat)
    (hshape : a.shape = [ny, nx, 2]) (hx : idx.length = polys.length) (hy : idy.length = polys.length)
    (hm : ∀ m, pm = some m → m.length = polys.length)
    (hrx : ∀ k, k < polys.length → -(nx : Int) ≤ idx.getD k 0 ∧ idx.getD k 0 < nx)
    (hry : ∀ k, k < polys.length → -(ny : Int) ≤ idy.getD k 0 ∧ idy.getD k 0 < ny)
    (hexact : ∀ k, k < polys.length → Py.i2f (k : Int) = (k : Rat)) :
    ∃ a', SrcSM.build_bitmask_loop (polys, pm) a idx idy xs ys = Except.ok (a', xs, ys)
      ∧ Inv a a' (build (hashCells nx ny (idx.zip idy) (flagsOf pm))) := by
  have hcells : hashCells nx ny (idx.zip idy) (flagsOf pm)
      = (List.range polys.length).map (cellAt nx ny idx idy pm) := by
    rw [hashCells_eq nx ny idx idy pm (by omega) (by intro m h; rw [hm m h, hx]), hx]
  have hrange : Py.range (0 : Int) (Py.size polys) = (List.range' 0 polys.length).map (fun (j : Nat) => (j : Int)) := by
    simp [Py.range, Py.size, List.range_eq_range']
  obtain ⟨a', e, hinv⟩ := fold_inv a nx ny hshape (fun k => idx.getD k 0) (fun k => idy.getD k 0) (flagAt pm)
    polys.length hexact hrx hry polys.length 0 a Grid.empty (by omega)
    ⟨rfl, by intro r c; simp [Grid.empty, Grid.idxAt, Grid.masked]⟩
  refine ⟨a', ?_, ?_⟩
  · unfold SrcSM.build_bitmask_loop
    dsimp only
    rw [hrange, forLoop_eq_foldStep (fun k => idx.getD k 0) (fun k => idy.getD k 0) (flagAt pm), e]
    · rfl
    · intro a1 k hk
      have hk : k < polys.length := by simpa using hk
      have gx := getI_nat idx k (by omega) 0
      have gy := getI_nat idy k (by omega) 0
      simp only [gx, gy, Except.bind, stepC]
      generalize idx.getD k 0 = ix
      generalize idy.getD k 0 = iy
      cases hs1 : NdArr.setAt a1 [iy, ix, 1] (Py.i2f (k : Int)) with
      | error e => rfl
      | ok a3 =>
        simp only []
        cases hpm : pm with
        | none =>
          simp only [flagAt]
          by_cases hix : ix ≥ 0 <;> by_cases hiy : iy ≥ 0 <;> simp only [hix, hiy, decide_true, decide_false, if_true,
            if_false, Bool.false_eq_true] <;> (try rfl) <;> (cases NdArr.setAt a3 [iy, ix, 0] 0 <;> rfl)
        | some m =>
          have gm := getI_nat m k (by rw [hm m hpm]; exact hk) 0
          simp only [flagAt, gm]
          by_cases hix : ix ≥ 0 <;> by_cases hiy : iy ≥ 0 <;> by_cases hf : m.getD k 0 = 1 <;>
            simp only [hix, hiy, hf, decide_true, decide_false, if_true, if_false, Bool.false_eq_true] <;> (try rfl) <;>
            (cases NdArr.setAt a3 [iy, ix, 0] 0 <;> rfl)
  · rw [hcells]
    simp only [build, List.range_eq_range']
    exact hinv

end SrcSM
