import PycsepVerif.GeneratedSrcSM
import PycsepVerif.Model.FilterMct
/-!
# Source tie of C04 (imperative code): `AbstractBaseCatalog.apply_mct`, generated from the Python source, equals the hand
# model (Model/FilterMct.lean: `applyMct`)

`SrcSM.apply_mct` is regenerated from `csep/core/catalogs.py` on every run (harness/py2lean_sm.py): a method whose state
record is the structured array `self.catalog` (a list of rows of an opaque type with the columns `origin_time`,
`magnitude` as opaque projections); the loop `for i, (mw, time) in enumerate(zip(mws, times))` with `break` / `continue`
and the in-place mask update `filter[i] = False`; the transcendental pieces (`10 ** x`, the nested `compute_mct` with
`numpy.log10`, `days_to_millis`, `millis_to_days`) are opaque parameters.

The hand model takes `t_crit_epoch` and the decision `mw < mct` of every row as inputs (`CatFilter.Mct`). `mctOf` below
builds them from the opaque parameters EXACTLY as the source does (so a change of the formula of `t_crit_epoch`, of the
argument of `compute_mct`, or of the comparison loses the tie); the theorem holds for every instantiation of the opaque
parameters. Specialisation: rows are `CatFilter.Event`, `event_epoch` is a Python int, and every origin time converts to
float64 exactly (`Py.i2f t = t`, true for |t| < 2^53; the hand model makes the same assumption).
-/
set_option linter.unusedSimpArgs false
namespace SrcSM
open CatFilter PySM

/-- the inputs of the hand model, computed as the source computes them (catalogs.py:615-616, 622, 639-642) -/
def mctOf (pow : Rat → Rat → Rat) (d2m : Rat → Rat) (m2d : Int → Rat) (cmct : Rat → Rat → Rat)
    (mMain : Rat) (ev : Int) (mc : Rat) : Mct :=
  { eventEpoch := (ev : Rat)
    tCrit := Soft64.fadd (d2m (pow (10 : Rat)
      (-(Soft64.fdiv (Soft64.fadd (Soft64.fsub mc mMain) ((9 : Rat) / 2)) ((3 : Rat) / 4))))) (Py.i2f ev)
    below := fun e => decide (e.magnitude < cmct (m2d (e.originTime - ev)) mMain) }

theorem maskSel_append {β : Type} : ∀ (a : List β) (m : List Bool) (b : List β) (n : List Bool), a.length = m.length →
    maskSel (a ++ b) (m ++ n) = maskSel a m ++ maskSel b n
  | [], [], b, n, _ => by simp [maskSel]
  | [], _ :: _, _, _, h => by simp at h
  | _ :: _, [], _, _, h => by simp at h
  | x :: a, c :: m, b, n, h => by
    have h' : a.length = m.length := by simpa using h
    cases c <;> simp [maskSel, maskSel_append a m b n h']

theorem maskSel_all_true {β : Type} : ∀ (b : List β), maskSel b (List.replicate b.length true) = b
  | [] => by simp [maskSel]
  | x :: b => by simp [maskSel, List.replicate_succ, maskSel_all_true b]

theorem set_at_length : ∀ (m : List Bool) (rest : List Bool) (v : Bool),
    (m ++ true :: rest).set m.length v = m ++ v :: rest
  | [], rest, v => by simp
  | c :: m, rest, v => by simp [set_at_length m rest v]

/-- The mask loop of `apply_mct` followed by the mask indexing is the model's `mctLoop`, for every loop body that does what
    the source's body does on rows whose time converts exactly (`Q`). Generalised over the rows already scanned. -/
theorem mask_loop (p : Mct) (Q : Event → Prop) (B : List Bool → Nat × Rat × Int → M (Ctl (List Bool)))
    (hB : ∀ (mask : List Bool) (i : Nat) (e : Event), Q e → B mask (i, e.magnitude, e.originTime) =
      if p.tCrit < (e.originTime : Rat) then Except.ok (.brk mask)
      else if (e.originTime : Rat) < p.eventEpoch then Except.ok (.next mask)
      else if p.below e then
        (if i < mask.length then Except.ok (.next (mask.set i false)) else Except.error (.py .indexError))
      else Except.ok (.next mask)) :
    ∀ (suf pre : List Event) (mpre : List Bool), mpre.length = pre.length → (∀ e ∈ suf, Q e) →
      ∃ m', PySM.forLoop B (enumerateFrom pre.length (List.zip (suf.map Event.magnitude) (suf.map Event.originTime)))
              (mpre ++ List.replicate suf.length true) = Except.ok m'
        ∧ m'.length = pre.length + suf.length
        ∧ maskSel (pre ++ suf) m' = maskSel pre mpre ++ mctLoop p suf
  | [], pre, mpre, hl, _ => by
    refine ⟨mpre, by simp [enumerateFrom, PySM.forLoop], by simp [hl], by simp [mctLoop]⟩
  | e :: rest, pre, mpre, hl, hq => by
    have hqe : Q e := hq e (by simp)
    have hqr : ∀ e' ∈ rest, Q e' := fun e' h => hq e' (by simp [h])
    simp only [List.map_cons, List.zip_cons_cons, enumerateFrom, PySM.forLoop, hB _ _ _ hqe, mctLoop, List.length_cons]
    -- the continuation with one more scanned row, kept (b = true) or cut (b = false)
    have step : ∀ b : Bool, ∃ m', PySM.forLoop B
          (enumerateFrom (pre.length + 1) (List.zip (rest.map Event.magnitude) (rest.map Event.originTime)))
          ((mpre ++ [b]) ++ List.replicate rest.length true) = Except.ok m'
        ∧ m'.length = pre.length + (rest.length + 1)
        ∧ maskSel (pre ++ e :: rest) m' = maskSel pre mpre ++ ((if b then [e] else []) ++ mctLoop p rest) := by
      intro b
      obtain ⟨m', h1, h2, h3⟩ := mask_loop p Q B hB rest (pre ++ [e]) (mpre ++ [b]) (by simp [hl]) hqr
      refine ⟨m', by simpa using h1, by simp at h2; omega, ?_⟩
      have : maskSel (pre ++ [e]) (mpre ++ [b]) = maskSel pre mpre ++ (if b then [e] else []) := by
        rw [maskSel_append pre mpre [e] [b] hl.symm]
        cases b <;> simp [maskSel]
      simp only [List.append_assoc, List.singleton_append] at h3
      rw [h3, this, List.append_assoc]
    have expand : mpre ++ List.replicate (rest.length + 1) true = (mpre ++ [true]) ++ List.replicate rest.length true := by
      simp [List.replicate_succ]
    by_cases hb : p.tCrit < (e.originTime : Rat)
    · simp only [hb, if_true]
      refine ⟨_, rfl, by simp [hl], ?_⟩
      rw [maskSel_append pre mpre _ _ hl.symm]
      have := maskSel_all_true (e :: rest)
      simp only [List.length_cons] at this
      rw [this]
    · simp only [hb, if_false]
      by_cases hc : (e.originTime : Rat) < p.eventEpoch
      · simp only [hc, if_true]
        rw [expand]
        obtain ⟨m', h1, h2, h3⟩ := step true
        exact ⟨m', h1, h2, by simpa using h3⟩
      · simp only [hc, if_false]
        by_cases hd : p.below e = true
        · have hlt : pre.length < (mpre ++ List.replicate (rest.length + 1) true).length := by simp [hl]
          have hset : (mpre ++ List.replicate (rest.length + 1) true).set pre.length false
              = (mpre ++ [false]) ++ List.replicate rest.length true := by
            rw [← hl, List.replicate_succ, set_at_length]; simp
          simp only [hd, if_true, hlt, hset]
          obtain ⟨m', h1, h2, h3⟩ := step false
          exact ⟨m', h1, h2, by simpa using h3⟩
        · simp only [hd, if_false]
          rw [expand]
          obtain ⟨m', h1, h2, h3⟩ := step true
          exact ⟨m', h1, h2, by simpa using h3⟩

theorem bind_ok' {ε α β : Type} (a : α) (f : α → Except ε β) : Except.bind (Except.ok a) f = f a := rfl

/-- the whole loop from the all-True mask, followed by `self.catalog[filter]` -/
theorem bind_mask_loop (p : Mct) (Q : Event → Prop) (B : List Bool → Nat × Rat × Int → M (Ctl (List Bool)))
    (hB : ∀ (mask : List Bool) (i : Nat) (e : Event), Q e → B mask (i, e.magnitude, e.originTime) =
      if p.tCrit < (e.originTime : Rat) then Except.ok (.brk mask)
      else if (e.originTime : Rat) < p.eventEpoch then Except.ok (.next mask)
      else if p.below e then
        (if i < mask.length then Except.ok (.next (mask.set i false)) else Except.error (.py .indexError))
      else Except.ok (.next mask))
    (es : List Event) (hq : ∀ e ∈ es, Q e) :
    (Except.bind (PySM.forLoop B (PySM.enumerate (List.zip (es.map Event.magnitude) (es.map Event.originTime)))
        (List.replicate es.length true)) fun m =>
      Except.bind (PySM.maskSelect es m) fun t => Except.ok t) = Except.ok (mctLoop p es) := by
  obtain ⟨m', h1, h2, h3⟩ := mask_loop p Q B hB es [] [] rfl hq
  simp only [List.length_nil, List.nil_append, Nat.zero_add] at h1 h2 h3
  simp only [PySM.enumerate, h1, bind_ok', PySM.maskSelect, h2, if_true, h3]
  simp [maskSel]

/-- `catalog.apply_mct(m_main, event_epoch, mc)` on the rows `es`, for every instantiation of the transcendental
    parameters: the catalog is replaced by `applyMct` of the quantities the source computes (`mctOf`); no exception. -/
theorem apply_mct_eq_model (pow : Rat → Rat → Rat) (d2m : Rat → Rat) (m2d : Int → Rat) (cmct : Rat → Rat → Rat)
    (es : List Event) (mMain : Rat) (ev : Int) (mc : Rat)
    (hexact : ∀ e ∈ es, Py.i2f e.originTime = (e.originTime : Rat)) :
    SrcSM.apply_mct pow d2m m2d cmct Event.originTime Event.magnitude es mMain ev mc
      = Except.ok (applyMct (mctOf pow d2m m2d cmct mMain ev mc) es) := by
  unfold SrcSM.apply_mct
  cases es with
  | nil => simp [Py.size, applyMct]
  | cons e rest =>
    have he : Py.i2f e.originTime = (e.originTime : Rat) := hexact e (by simp)
    have hsize : decide ((Py.size (e :: rest)) = (0 : Int)) = false := by simp [Py.size]; omega
    have hget : PySM.getI (List.map Event.originTime (e :: rest)) (0 : Int) = Except.ok e.originTime := by
      simp [PySM.getI, PySM.normIdx, PySM.getN]
    have hlen : Int.toNat (Py.size (e :: rest)) = (e :: rest).length := by simp [Py.size]
    simp only [hsize, hget, bind_ok', he, hlen, Bool.false_eq_true, if_false]
    by_cases hs : (mctOf pow d2m m2d cmct mMain ev mc).tCrit < (e.originTime : Rat)
    · have hs2 := hs
      simp only [mctOf] at hs2
      simp [applyMct, hs, hs2]
    · have hs2 := hs
      simp only [mctOf] at hs2
      rw [show applyMct (mctOf pow d2m m2d cmct mMain ev mc) (e :: rest)
            = mctLoop (mctOf pow d2m m2d cmct mMain ev mc) (e :: rest) by simp [applyMct, hs]]
      simp only [gt_iff_lt, hs2, decide_false, Bool.false_eq_true, if_false]
      exact bind_mask_loop (mctOf pow d2m m2d cmct mMain ev mc)
        (fun e => Py.i2f e.originTime = (e.originTime : Rat)) _ (by
          intro mask i e' hq
          simp only [hq, mctOf, gt_iff_lt, PySM.setN, Except.bind, Rat.intCast_lt_intCast]
          by_cases h1 : Soft64.fadd (d2m (pow 10 (-Soft64.fdiv (Soft64.fadd (Soft64.fsub mc mMain) (9 / 2)) (3 / 4))))
              (Py.i2f ev) < (e'.originTime : Rat)
          · simp [h1]
          · by_cases h2 : e'.originTime < ev
            · simp [h1, h2]
            · by_cases h3 : e'.magnitude < cmct (m2d (e'.originTime - ev)) mMain
              · by_cases h4 : i < mask.length <;> simp [h1, h2, h3, h4]
              · simp [h1, h2, h3])
        (e :: rest) hexact

/-- the nested `compute_mct` (an opaque parameter above) is the one this file was written for -/
theorem apply_mct_helpers_pinned : SrcSM.apply_mct_helpers = [("compute_mct", "90769ac18cae")] := by decide

end SrcSM
