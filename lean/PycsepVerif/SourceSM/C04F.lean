import PycsepVerif.GeneratedSrcSM
import PycsepVerif.Model.Filter
import PycsepVerif.Drive.SrcSM
/-!
# Source tie of C04 (imperative code): `AbstractBaseCatalog.filter`, generated from the Python source, equals the hand model
# (Model/Filter.lean: `filterList`, `resolveStmts`, `stepFilter`)

`SrcSM.filter_inplace / filter_stored / filter_new` are regenerated from `csep/core/catalogs.py` on every run
(harness/py2lean_sm.py): three specialisations of one method (statements given as a list / tuple of strings or `None`,
`in_place` True or False). State record = (`self.filters`, `self.catalog`[, `catalog_id`, `format`, `name`, `region`]).
The statement loop is translated with its string handling: `filt.split(' ')`, unpacking into three / four names
(ValueError), the operator table `{'>': operator.gt, …}` with its KeyError, the column chosen by the run-time field name
(`PySM.column`), `float(value)` and `strptime_to_utc_epoch(date + ' ' + time)` as opaque raising parsers, boolean-mask
indexing.

The hand model starts from PARSED statements (`CatFilter.Stmt`). `Parses` relates a statement string to a `Stmt` through
what the code itself computes: `split` of the string gives `[field, operator, text]` with `float(text) = value`, or
`['datetime', operator, date, time]` with `strptime_to_utc_epoch(date ++ " " ++ time) = ms` (then the statement is
`origin_time <op> float(ms)`). The theorems hold for EVERY pair of parsers and every list of statement strings related
to `stmts` by `Parses` — no property of `split` is assumed. Rows are `CatFilter.Event`; the dtype (`fieldOf`) is
`Drive.SrcSM.C04F.fieldOf` (the int64 `origin_time` as the rational it denotes: exact below 2^53, as in the hand model).
-/
set_option linter.unusedSimpArgs false
namespace SrcSM
open CatFilter PySM Drive.SrcSM.C04F

/-- a statement string and the parsed statement it stands for, through the code's own parsing steps -/
inductive Parses (pf : String → M Rat) (sp : String → M Int) : String → Stmt → Prop
  | num (s : String) (a : Attr) (o : Op) (txt : String) (v : Rat) :
      PySM.split s " " = [aname a, oname o, txt] → pf txt = Except.ok v → Parses pf sp s ⟨a, o, v⟩
  | datetime (s : String) (o : Op) (d t : String) (ms : Int) :
      PySM.split s " " = ["datetime", oname o, d, t] → sp (PySM.join " " [d, t]) = Except.ok ms →
      Parses pf sp s ⟨.originTime, o, Py.i2f ms⟩

/-- the statement strings, one by one, parse to the statements of the model -/
inductive AllParse (pf : String → M Rat) (sp : String → M Int) : List String → List Stmt → Prop
  | nil : AllParse pf sp [] []
  | cons {s : String} {st : Stmt} {ss : List String} {stmts : List Stmt} :
      Parses pf sp s st → AllParse pf sp ss stmts → AllParse pf sp (s :: ss) (st :: stmts)

def cmpOf : Op → PySM.Cmp
  | .gt => .gt | .lt => .lt | .ge => .ge | .le => .le | .eq => .eq

theorem apply_cmpOf (o : Op) (a v : Rat) : PySM.Cmp.apply (cmpOf o) a v = o.eval a v := by cases o <;> rfl
theorem apply_gt (a v : Rat) : PySM.Cmp.apply .gt a v = Op.eval .gt a v := rfl
theorem apply_lt (a v : Rat) : PySM.Cmp.apply .lt a v = Op.eval .lt a v := rfl
theorem apply_ge (a v : Rat) : PySM.Cmp.apply .ge a v = Op.eval .ge a v := rfl
theorem apply_le (a v : Rat) : PySM.Cmp.apply .le a v = Op.eval .le a v := rfl
theorem apply_eq (a v : Rat) : PySM.Cmp.apply .eq a v = Op.eval .eq a v := rfl

theorem dictGet_oname (o : Op) :
    PySM.dictGet [(">", PySM.Cmp.gt), ("<", PySM.Cmp.lt), (">=", PySM.Cmp.ge), ("<=", PySM.Cmp.le), ("==", PySM.Cmp.eq)]
      (oname o) = Except.ok (cmpOf o) := by
  cases o <;> simp [PySM.dictGet, oname, cmpOf]

theorem aname_ne_datetime (a : Attr) : (aname a == "datetime") = false := by cases a <;> simp [aname]

theorem aname_ne (a : Attr) : ¬ aname a = "datetime" := by cases a <;> simp [aname]

theorem column_aname (a : Attr) (es : List Event) :
    PySM.column fieldOf (aname a) es = Except.ok (es.map (fun e => e.get a)) := by
  cases a <;> rfl

theorem column_origin_time (es : List Event) :
    PySM.column fieldOf "origin_time" es = Except.ok (es.map (fun e => e.get .originTime)) := rfl

theorem maskSel_map' {α : Type} (g : α → Bool) : ∀ (l : List α), maskSel l (l.map g) = l.filter g
  | [] => by simp [maskSel]
  | a :: l => by cases h : g a <;> simp [maskSel, h, maskSel_map' g l]

theorem maskSelect_map {α : Type} (g : α → Bool) (l : List α) : PySM.maskSelect l (l.map g) = Except.ok (l.filter g) := by
  simp [PySM.maskSelect, maskSel_map']

theorem maskSelect_holds (a : Attr) (o : Op) (v : Rat) (es : List Event) :
    PySM.maskSelect es (List.map ((fun x_ => o.eval x_ v) ∘ fun e => e.get a) es)
      = Except.ok (es.filter (Stmt.holds ⟨a, o, v⟩)) := by
  rw [maskSelect_map]; rfl

/-- the statement loop is the model's fold, for every body that does on a parsed statement what `filterOne` does -/
theorem loop_eq_filterList (pf : String → M Rat) (sp : String → M Int)
    (B : List Event → String → M (Ctl (List Event)))
    (hB : ∀ (es : List Event) (s : String) (st : Stmt), Parses pf sp s st → B es s = Except.ok (.next (filterOne st es))) :
    ∀ (ss : List String) (stmts : List Stmt) (es : List Event), AllParse pf sp ss stmts →
      PySM.forLoop B ss es = Except.ok (filterList stmts es)
  | [], [], es, _ => by simp [PySM.forLoop, filterList]
  | s :: ss, st :: stmts, es, h => by
    cases h with
    | cons h1 h2 =>
      simp only [PySM.forLoop, hB es s st h1]
      rw [loop_eq_filterList pf sp B hB ss stmts _ h2]
      simp [filterList]
  | [], _ :: _, _, h => by cases h
  | _ :: _, [], _, h => by cases h

/-- the body of the generated loop satisfies the specification (same text in the three specialisations) -/
macro "filter_body" : tactic => `(tactic| (
  intro es s st hp
  cases hp with
  | num a o txt v hs hv =>
    cases o <;>
    simp [hs, hv, PySM.getI, PySM.normIdx, PySM.getN, Except.bind, aname_ne, PySM.unpack3, PySM.dictGet, oname,
      column_aname, filterOne, apply_gt, apply_lt, apply_ge, apply_le, apply_eq, List.map_map, maskSelect_holds]
  | datetime o d t ms hs hv =>
    cases o <;>
    simp [hs, hv, PySM.getI, PySM.normIdx, PySM.getN, Except.bind, PySM.unpack4, PySM.dictGet, oname,
      column_origin_time, filterOne, apply_gt, apply_lt, apply_ge, apply_le, apply_eq, List.map_map, maskSelect_holds]))

/-- `catalog.filter(statements)` (list / tuple of strings, in place): `self.filters = statements`,
    `self.catalog = filterList …`, returns `self` -/
theorem filter_inplace_eq_model (pf : String → M Rat) (sp : String → M Int) (filters0 : List String) (es : List Event)
    (ss : List String) (stmts : List Stmt) (h : AllParse pf sp ss stmts) :
    SrcSM.filter_inplace pf sp fieldOf (filters0, es) ss = Except.ok (ss, filterList stmts es) := by
  unfold SrcSM.filter_inplace
  simp only [Bool.and_false, Bool.false_eq_true, if_false, Except.bind]
  rw [loop_eq_filterList pf sp _ _ ss stmts es h]
  filter_body

/-- `catalog.filter()` with the stored statements: CSEPCatalogException when there are none (`resolveStmts`) -/
theorem filter_stored_eq_model (pf : String → M Rat) (sp : String → M Int) (es : List Event)
    (ss : List String) (stmts : List Stmt) (h : AllParse pf sp ss stmts) :
    SrcSM.filter_stored pf sp fieldOf (ss, es)
      = if ss.isEmpty then Except.error (.py .other) else Except.ok (ss, filterList stmts es) := by
  unfold SrcSM.filter_stored
  cases hss : ss.isEmpty with
  | true => simp [hss, Except.bind]
  | false =>
    simp only [hss, Bool.not_false, Bool.not_true, Bool.and_true, Bool.false_and, Bool.false_eq_true, if_false,
      Except.bind]
    rw [loop_eq_filterList pf sp _ _ ss stmts es h]
    all_goals first | filter_body | simp

/-- `catalog.filter(statements, in_place=False)`: the catalog keeps its rows and gets `filters = statements`; the new
    instance is built from the filtered rows, the catalog's id / format / name / region and the statements
    (`CatFilter.stepFilter … false`) -/
theorem filter_new_eq_model {Inst CatId Fmt Name Reg : Type} (pf : String → M Rat) (sp : String → M Int)
    (cls : List Event → CatId → Fmt → Name → Reg → List String → Inst)
    (filters0 : List String) (es : List Event) (cid : CatId) (fmt : Fmt) (nm : Name) (reg : Reg)
    (ss : List String) (stmts : List Stmt) (h : AllParse pf sp ss stmts) :
    SrcSM.filter_new pf sp cls fieldOf (filters0, es, cid, fmt, nm, reg) ss
      = Except.ok (cls (filterList stmts es) cid fmt nm reg ss, (ss, es, cid, fmt, nm, reg)) := by
  unfold SrcSM.filter_new
  simp only [Bool.and_false, Bool.false_eq_true, if_false, Except.bind]
  rw [loop_eq_filterList pf sp _ _ ss stmts es h]
  filter_body

end SrcSM
