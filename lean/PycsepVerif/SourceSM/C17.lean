import PycsepVerif.GeneratedSrcSM
import PycsepVerif.Model.Quadtree
/-!
# Source tie of C17 (imperative code): the recursive four-way split `_create_tile` / `_create_tile_fix_len`, generated from
# the Python source, equals the hand model (Model/Quadtree.lean: `createTile`, `fixLen`)

`SrcSM.create_tile` / `SrcSM.create_tile_fix_len` are regenerated from `csep/core/regions.py` on every run
(harness/py2lean_sm.py): procedures that call themselves and append to the lists `qk` / `num` they were given
(in-place parameters: final values returned), with an explicit fuel for the recursion depth; quadkeys are Python strings
(`quadk + '0'` = `++`, `len` = `String.length`), `mercantile.quadkey_to_tile` / `mercantile.bounds` are opaque parameters.

The hand model works on digit lists (`Key`) and on points of the unit square with the membership predicate `inTile`.
`keyStr` writes a `Key` as the string the code handles. The catalog is a list of model points `pts` with their geographic
coordinates `plon p`, `plat p` (arbitrary functions); the only hypothesis is the one the hand model itself rests on
(`hin`): on the catalog's points the library's float membership test against `mercantile.bounds` of a tile,

    lon >= west and lat >= south and lon < east and lat < north            (regions.py:944-945)

agrees with `inTile`. The test itself (`boxTest`) is written out below exactly as the source applies it, so a change of
one of its four comparisons loses the tie. Fuel: the ties hold whenever `zoom ≤ len(quadk) + n` for fuel `n + 1`
(`outOfFuel` cannot occur); the model's own fuel is then `n`.
-/
set_option linter.unusedSimpArgs false
namespace SrcSM
open Quadtree PySM

def dstr : Digit → String
  | 0 => "0" | 1 => "1" | 2 => "2" | 3 => "3"

/-- a quadkey as the string the code handles -/
def keyStr (k : Key) : String := k.foldl (fun s d => s ++ dstr d) ""

theorem keyStr_child (k : Key) (d : Digit) : keyStr (child k d) = keyStr k ++ dstr d := by
  simp [keyStr, child, List.foldl_append]

theorem dstr_length : ∀ d : Digit, (dstr d).length = 1
  | 0 => by decide | 1 => by decide | 2 => by decide | 3 => by decide

theorem foldl_length : ∀ (k : Key) (s : String), (k.foldl (fun s d => s ++ dstr d) s).length = s.length + k.length
  | [], s => by simp
  | d :: k, s => by
    simp only [List.foldl_cons, List.length_cons]
    rw [foldl_length k, String.length_append, dstr_length]; omega

theorem keyStr_length (k : Key) : (keyStr k).length = k.length := by
  simp [keyStr, foldl_length]

/-! ## `_create_tile_fix_len` -/

theorem create_tile_fix_len_eq_model (zoom : Nat) : ∀ (n : Nat) (k : Key) (qk : List String), zoom ≤ k.length + n →
    SrcSM.create_tile_fix_len (n + 1) (keyStr k) (zoom : Int) qk = Except.ok (qk ++ (fixLen zoom n k).map keyStr)
  | 0, k, qk, h => by
    have hz : ¬ ((k.length : Int) < (zoom : Int)) := by omega
    rw [SrcSM.create_tile_fix_len]
    simp [keyStr_length, hz, Except.bind, PySM.append, fixLen]
  | n + 1, k, qk, h => by
    rw [SrcSM.create_tile_fix_len]
    by_cases hz : k.length < zoom
    · have hz' : ((k.length : Int) < (zoom : Int)) := by omega
      have e0 : keyStr k ++ "0" = keyStr (child k 0) := (keyStr_child k 0).symm
      have e1 : keyStr k ++ "1" = keyStr (child k 1) := (keyStr_child k 1).symm
      have e2 : keyStr k ++ "2" = keyStr (child k 2) := (keyStr_child k 2).symm
      have e3 : keyStr k ++ "3" = keyStr (child k 3) := (keyStr_child k 3).symm
      have hl : ∀ d, zoom ≤ (child k d).length + n := by intro d; simp [child]; omega
      simp only [keyStr_length, hz', decide_true, if_true, e0, e1, e2, e3,
        create_tile_fix_len_eq_model zoom n _ _ (hl _), Except.bind]
      simp [fixLen, hz, List.append_assoc]
    · have hz' : ¬ ((k.length : Int) < (zoom : Int)) := by omega
      simp [keyStr_length, hz', hz, Except.bind, PySM.append, fixLen]

/-! ## `_create_tile` -/

/-- the membership test of regions.py:944-945 for one point against `boundary = (west, south, east, north)` -/
def boxTest (b : Rat × Rat × Rat × Rat) (lon lat : Rat) : Bool :=
  (decide (lon ≥ b.1) && decide (lat ≥ b.2.1)) && (decide (lon < b.2.2.1) && decide (lat < b.2.2.2))

theorem eqs_map (b : Rat × Rat × Rat × Rat) (plon plat : Pt → Rat) : ∀ (pts : List Pt),
    List.zipWith (fun x y => x && y)
      (List.zipWith (fun x y => x && y) (List.map (fun x => decide (x ≥ b.1)) (pts.map plon))
        (List.map (fun x => decide (x ≥ b.2.1)) (pts.map plat)))
      (List.zipWith (fun x y => x && y) (List.map (fun x => decide (x < b.2.2.1)) (pts.map plon))
        (List.map (fun x => decide (x < b.2.2.2)) (pts.map plat)))
      = pts.map (fun p => boxTest b (plon p) (plat p))
  | [] => by simp
  | p :: pts => by
    have := eqs_map b plon plat pts
    simp only [List.map_cons, List.zipWith_cons_cons, this, boxTest]

theorem maskSel_map {α β : Type} (f : α → β) (g : α → Bool) : ∀ (l : List α),
    maskSel (l.map f) (l.map g) = (l.filter g).map f
  | [] => by simp [maskSel]
  | a :: l => by
    cases h : g a <;> simp [maskSel, h, maskSel_map f g l]

/-- `num_eqs = numpy.size(lat[eqs])` is the model's `count` -/
theorem count_eq (b : Rat × Rat × Rat × Rat) (plon plat : Pt → Rat) (pts : List Pt) (k : Key)
    (hin : ∀ p, p ∈ pts → boxTest b (plon p) (plat p) = inTile k p) :
    PySM.maskSelect (pts.map plat) (pts.map (fun p => boxTest b (plon p) (plat p)))
      = Except.ok ((pts.filter (inTile k)).map plat) := by
  have : pts.filter (fun p => boxTest b (plon p) (plat p)) = pts.filter (inTile k) :=
    List.filter_congr (fun p hp => hin p hp)
  simp [PySM.maskSelect, maskSel_map, this]

theorem create_tile_eq_model {Tile : Type} (q2t : String → Tile) (bounds : Tile → Rat × Rat × Rat × Rat)
    (plon plat : Pt → Rat) (thr zoom : Nat) (pts : List Pt)
    (hin : ∀ (k : Key) (p : Pt), p ∈ pts → boxTest (bounds (q2t (keyStr k))) (plon p) (plat p) = inTile k p) :
    ∀ (n : Nat) (k : Key) (qk : List String) (num : List Int), zoom ≤ k.length + n →
      SrcSM.create_tile q2t bounds (n + 1) (keyStr k) (thr : Int) (zoom : Int) (pts.map plon) (pts.map plat) qk num
        = Except.ok (qk ++ (createTile thr zoom pts n k).map (fun e => keyStr e.1),
                     num ++ (createTile thr zoom pts n k).map (fun e => (e.2 : Int)))
  | 0, k, qk, num, h => by
    have hz : ¬ ((k.length : Int) < (zoom : Int)) := by omega
    rw [SrcSM.create_tile]
    simp only [eqs_map, count_eq _ plon plat pts k (hin k), Except.bind, keyStr_length]
    simp [hz, PySM.append, createTile, Py.size, count, List.countP_eq_length_filter]
  | n + 1, k, qk, num, h => by
    rw [SrcSM.create_tile]
    simp only [eqs_map, count_eq _ plon plat pts k (hin k), Except.bind, keyStr_length]
    have hc : (Py.size ((pts.filter (inTile k)).map plat) > (thr : Int)) ↔ count pts k > thr := by
      simp [Py.size, count, List.countP_eq_length_filter]
    by_cases hs : count pts k > thr ∧ k.length < zoom
    · have h1 : Py.size ((pts.filter (inTile k)).map plat) > (thr : Int) := hc.mpr hs.1
      have h2 : ((k.length : Int) < (zoom : Int)) := by omega
      have e0 : keyStr k ++ "0" = keyStr (child k 0) := (keyStr_child k 0).symm
      have e1 : keyStr k ++ "1" = keyStr (child k 1) := (keyStr_child k 1).symm
      have e2 : keyStr k ++ "2" = keyStr (child k 2) := (keyStr_child k 2).symm
      have e3 : keyStr k ++ "3" = keyStr (child k 3) := (keyStr_child k 3).symm
      have hl : ∀ d, zoom ≤ (child k d).length + n := by intro d; simp [child]; omega
      simp only [h1, h2, decide_true, Bool.and_self, if_true, e0, e1, e2, e3,
        create_tile_eq_model q2t bounds plon plat thr zoom pts hin n _ _ _ (hl _)]
      simp [createTile, hs, List.append_assoc]
    · have hcond : ¬ (Py.size ((pts.filter (inTile k)).map plat) > (thr : Int) ∧ ((k.length : Int) < (zoom : Int))) := by
        intro hh; exact hs ⟨hc.mp hh.1, by omega⟩
      have : (decide (Py.size ((pts.filter (inTile k)).map plat) > (thr : Int)) && decide ((k.length : Int) < (zoom : Int)))
          = false := by
        apply Bool.eq_false_iff.mpr
        intro hh
        rw [Bool.and_eq_true, decide_eq_true_eq, decide_eq_true_eq] at hh
        exact hcond hh
      have hs' : ¬ (thr < (pts.filter (inTile k)).length ∧ k.length < zoom) := by
        simpa [count, List.countP_eq_length_filter] using hs
      simp only [this, Bool.false_eq_true, if_false]
      simp [createTile, hs', PySM.append, Py.size, count, List.countP_eq_length_filter]

end SrcSM
