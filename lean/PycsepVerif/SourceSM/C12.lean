import PycsepVerif.GeneratedSrcSM
import PycsepVerif.Model.AsciiCatalogs
import PycsepVerif.Drive.SrcSM
/-!
# Source tie of C12 (imperative code): the decoder state machine of `CSEPCatalog.load_ascii_catalogs`, generated from the
# Python source, equals the hand model (Model/AsciiCatalogs.lean: `decode`)

`SrcSM.load_ascii_catalogs` is regenerated from `csep/core/catalogs.py` on every run (harness/py2lean_sm.py): the generator
run to exhaustion, as the list of catalogs it yields, with the csv rows as parameter and the nested helpers
`is_header_line`, `read_catalog_line` and the constructor `cls(data=…, catalog_id=…)` as opaque parameters. The theorem
instantiates them with the row-level reading of the hand model (definitions `Drive.SrcSM.C12.isHeader / readLine / mkCat`,
Drive/SrcSM.lean, shared with the executable tie):

* a row is `AsciiCatalogs.Line`; `is_header_line` = "is `.header`"; `read_catalog_line` of a header line raises ValueError
  (`int('catalog_id')`), of a data row returns the event tuple `(event_id, origin_time, lat, lon, depth, magnitude)` and the id;
* `cls(data=evs, catalog_id=i)` = `⟨i, evs⟩` (`AsciiCatalogs.Catalog`);
* both errors of the model are ValueError in Python (`ofDecode`).

That the nested helpers are the ones the hand model's row-level reading describes is the separate text layer of C12
(Model/CatalogText.lean); here their AST digests are pinned (`load_ascii_catalogs_helpers_pinned`): a change of a helper
loses this tie.
-/
set_option linter.unusedSimpArgs false
namespace SrcSM
open AsciiCatalogs PySM Drive.SrcSM.C12

@[simp] theorem ofT_toT (e : Ev) : ofT (toT e) = e := rfl
@[simp] theorem toT_ofT (t : EvT) : toT (ofT t) = t := rfl
@[simp] theorem map_ofT_toT (l : List Ev) : (l.map toT).map ofT = l := by simp [List.map_map, Function.comp_def]
@[simp] theorem map_toT_ofT (l : List EvT) : (l.map ofT).map toT = l := by simp [List.map_map, Function.comp_def]
@[simp] theorem map_toT_comp_ofT (l : List EvT) : l.map (toT ∘ ofT) = l := by simp [Function.comp_def]
@[simp] theorem map_ofT_comp_toT (l : List Ev) : l.map (ofT ∘ toT) = l := by simp [Function.comp_def]

/-- both errors of the model are `ValueError` -/
def ofDecode : Except Err (List Catalog) → M (List Catalog)
  | .ok l => .ok l
  | .error _ => .error (.py .valueError)

/-- a loop that only yields one item per element -/
theorem forLoop_yield {β γ : Type} (f : β → γ) : ∀ (xs : List β) (out : List γ),
    PySM.forLoop (σ := List γ) (fun s x => Except.ok (Ctl.next (s ++ [f x]))) xs out = Except.ok (out ++ xs.map f)
  | [], out => by simp [PySM.forLoop]
  | x :: xs, out => by
    simp only [PySM.forLoop]
    rw [forLoop_yield f xs]
    simp

theorem range_zero (n : Int) : Py.range 0 n = (List.range n.toNat).map (fun (k : Nat) => (k : Int)) := by
  simp [Py.range]

theorem isEmpty_toT (e : Ev) :
    ((toT e).2.1.isNone && (toT e).2.2.1.isNone && (toT e).2.2.2.1.isNone && (toT e).2.2.2.2.1.isNone
      && (toT e).2.2.2.2.2.isNone) = isEmpty e := by
  simp [toT, isEmpty]

theorem allBlank_toT (e : Ev) :
    (((toT e).1 == "") && (toT e).2.1.isNone && (toT e).2.2.1.isNone && (toT e).2.2.2.1.isNone
      && (toT e).2.2.2.2.1.isNone && (toT e).2.2.2.2.2.isNone) = allBlank e := by
  simp [toT, allBlank, isEmpty, Bool.and_assoc]

/-- the loop of the generator followed by the final flush is the model's `loop`, for every body that does what the
    model's `step` does (the hypothesis is discharged for the generated body in `load_ascii_catalogs_eq_model`) -/
theorem forLoop_eq_loop
    (B : List Catalog × List EvT × Option Int → Line → M (Ctl (List Catalog × List EvT × Option Int)))
    (hB : ∀ out evs prev line, B (out, evs, prev) line =
      match step ⟨prev, evs.map ofT⟩ line with
      | .error _ => Except.error (.py .valueError)
      | .ok (st', cats) => Except.ok (.next (out ++ cats, st'.events.map toT, st'.prev))) :
    ∀ (rows : List Line) (out : List Catalog) (evs : List EvT) (prev : Option Int),
      (Except.bind (PySM.forLoop B rows (out, evs, prev)) fun s =>
          Except.ok (PySM.append s.1 (mkCat s.2.1 s.2.2)))
        = (match loop ⟨prev, evs.map ofT⟩ rows with
           | .error _ => Except.error (.py .valueError)
           | .ok cats => Except.ok (out ++ cats))
  | [], out, evs, prev => by simp [PySM.forLoop, Except.bind, loop, PySM.append, mkCat]
  | l :: ls, out, evs, prev => by
    simp only [PySM.forLoop, hB, loop]
    cases hs : step ⟨prev, evs.map ofT⟩ l with
    | error e => simp [Except.bind]
    | ok p =>
      obtain ⟨st', cats⟩ := p
      simp only []
      rw [forLoop_eq_loop B hB ls]
      simp only [map_ofT_toT]
      cases loop st' ls with
      | error e => simp [prepend]
      | ok r => simp [prepend, List.append_assoc]

/-- `list(CSEPCatalog.load_ascii_catalogs(f))` for a regular file whose csv rows read as `rows` -/
theorem load_ascii_catalogs_eq_model (rows : List Line) :
    SrcSM.load_ascii_catalogs isHeader readLine mkCat rows = ofDecode (decode rows) := by
  unfold SrcSM.load_ascii_catalogs
  refine (forLoop_eq_loop _ ?_ rows [] [] none).trans ?_
  · intro out evs prev line
    cases line with
    | header =>
      cases prev with
      | none => simp [isHeader, step]
      | some p => simp [readLine, step, Except.bind]
    | row r =>
      obtain ⟨ev, cid⟩ := r
      cases prev with
      | none =>
        simp only [isHeader, readLine, step, Except.bind, isEmpty_toT, allBlank_toT, PySM.append, forLoop_yield, range_zero]
        by_cases h0 : cid = 0
        · subst h0
          cases hb : allBlank ev <;> cases he : isEmpty ev <;>
            simp [body, hb, he, PySM.append, mkCat]
        · cases he : isEmpty ev <;>
            simp [h0, he, firstOf, PySM.append, mkCat, emptyCat, List.map_map, Function.comp_def]
      | some p =>
        simp only [isHeader, readLine, step, Except.bind, isEmpty_toT, allBlank_toT, PySM.append, forLoop_yield, range_zero,
          body]
        by_cases h1 : cid = p
        · subst h1
          cases hb : allBlank ev <;> cases he : isEmpty ev <;> simp [hb, he, PySM.append]
        · by_cases h2 : cid = p + 1
          · subst h2
            have e1 : ¬ (p + 1 = p) := by omega
            cases he : isEmpty ev <;> simp [e1, he, firstOf, PySM.append, mkCat, Int.add_comm]
          · by_cases h3 : cid > p + 1
            · have h3' : cid > 1 + p := by omega
              have h2' : ¬ cid = 1 + p := by omega
              cases he : isEmpty ev <;>
                simp [h1, h2, h2', h3, h3', he, firstOf, PySM.append, mkCat, emptyCat, List.map_map, Function.comp_def]
            · have h3' : ¬ cid > 1 + p := by omega
              have h2' : ¬ cid = 1 + p := by omega
              cases he : isEmpty ev <;> simp [h1, h2, h2', h3, h3', he]
  · simp only [decode, List.map_nil]
    cases loop ⟨none, []⟩ rows <;> simp [ofDecode]

/-- the nested helpers (opaque parameters above) are the ones this file was written for -/
theorem load_ascii_catalogs_helpers_pinned : SrcSM.load_ascii_catalogs_helpers =
    [("parse_filename", "0db73951a054"), ("read_float", "182688c16e96"), ("is_header_line", "301bb2040c4a"),
     ("read_catalog_line", "a9e71ed3b714")] := by decide

end SrcSM
