import PycsepVerif.GeneratedSrcSM
import PycsepVerif.Model.SamplerExt
import PycsepVerif.SourceSM.C06
import PycsepVerif.SourceSM.LoopLemmas
/-!
# Source tie of C16 / C06 (imperative code): the simulation loop of `_binary_likelihood_test`, generated from the Python
# source, equals the hand model (Model/Sampler.lean `testBinaryStream` / `simRows`, the `<=` quantile of
# Model/BinaryTests.lean)

`SrcSM.binary_test_loop` (rejection loops on the global generator) and `SrcSM.binary_test_loop_injected` are regenerated
from `csep/core/binomial_evaluations.py` on every run: the seeding (`seed is not None`), the loop over
`range(num_simulations)` calling `_simulate_catalog(int(n_active_cells), …)` (the generated definitions tied in
SourceSM/C06.lean: rejection `while` loop / injected numbers, count assertion), the statistic of each simulated array, and
after the loop the observed statistic and `qs = numpy.sum(simulated_ll <= obs_ll) / num_simulations`.
Specialisation: `use_observed_counts=True` (with False the code reads `num_cells_to_simulate` unassigned). What is computed
before the loop (`sampling_weights`, the masked `forecast_data`, `n_active_cells`, `sim_fore`, the initial `simulated_ll`)
and `binary_joint_log_likelihood_ndarray` are parameters: the theorems hold for all of them.
The fuel of the rejection loops is one parameter, the same for every simulation: `rng.length < fuel` suffices for all of
them (the stream only gets shorter).
-/
set_option linter.unusedSimpArgs false
namespace SrcSM
open PySM Sampler
variable {α : Type} [RealOps α]

abbrev StB (α : Type) := List Rat × List Nat × List α

/-- one simulation on the global generator -/
def refStepB (bl : List α → List Nat → α) (fd : List α) (ws : List Rat) (fuel n : Nat) (s : StB α) : M (StB α) :=
  Except.bind (SrcSM.simulate_catalog_binary fuel s.1 n ws s.2.1) fun p =>
    Except.ok (p.2, p.1, s.2.2 ++ [bl fd p.1])

def finishB (bl : List α → List Nat → α) (fd : List α) (obs : List Nat) (nsim : Int) (r : M (StB α)) :
    M ((Rat × α × List α) × List Rat) :=
  match r with
  | .error x => .error x
  | .ok s =>
    .ok ((Py.intTrueDiv ((PySM.countTrue (s.2.2.map (fun x => RealOps.le x (bl fd obs))) : Nat) : Int) nsim,
          bl fd obs, s.2.2), s.1)

theorem binary_test_loop_eq_model {Masked : Type} (bl : List α → List Nat → α) (seedRng : Int → List Rat)
    (data : Masked → List α) (fuel : Nat) (rng : List Rat) (obs : List Nat) (nsim : Int) (seed : Option Int)
    (fdm : Masked) (ws : List Rat) (sf : List Nat) (ll : List α) (n : Nat) :
    SrcSM.binary_test_loop bl seedRng data fuel rng obs nsim seed fdm ws sf ll n
      = finishB bl (data fdm) obs nsim (iter (refStepB bl (data fdm) ws fuel n) nsim.toNat
          ((match seed with | none => rng | some s => seedRng s), sf, ll)) := by
  unfold SrcSM.binary_test_loop
  cases seed with
  | none =>
    simp only []
    rw [forLoop_const _ (refStepB bl (data fdm) ws fuel n) (by intro s i; simp only [refStepB]; cases SrcSM.simulate_catalog_binary fuel s.1 n ws s.2.1 <;> simp [Except.bind, PySM.append]), range_length]
    cases iter (refStepB bl (data fdm) ws fuel n) nsim.toNat (rng, sf, ll) <;> simp [finishB, Except.bind]
  | some s =>
    simp only []
    rw [forLoop_const _ (refStepB bl (data fdm) ws fuel n) (by intro s i; simp only [refStepB]; cases SrcSM.simulate_catalog_binary fuel s.1 n ws s.2.1 <;> simp [Except.bind, PySM.append]), range_length]
    cases iter (refStepB bl (data fdm) ws fuel n) nsim.toNat (seedRng s, sf, ll) <;> simp [finishB, Except.bind]

/-- a finished rejection loop leaves a stream that is not longer than the one it got, and an array of the same length -/
theorem rejLoop_done (ws : List Rat) (target : Nat) : ∀ (stream : List Rat) (arr : List Nat) (active : Nat)
    (a : List Nat) (rest : List Rat), rejLoop ws target arr active stream = .done a rest →
    rest.length ≤ stream.length ∧ a.length = arr.length
  | [], arr, active, a, rest, h => by
    simp only [rejLoop] at h
    split at h <;> simp at h
    obtain ⟨h1, h2⟩ := h; subst h1; subst h2; simp
  | r :: rs, arr, active, a, rest, h => by
    simp only [rejLoop] at h
    by_cases hact : active < target
    · simp only [hact, if_true] at h
      by_cases hl : searchRight ws r < arr.length
      · simp only [hl, if_true] at h
        by_cases hz : arr.getD (searchRight ws r) 0 = 0
        · simp only [hz, if_true] at h
          have := rejLoop_done ws target rs _ _ a rest h
          simp at this ⊢; omega
        · simp only [hz, if_false] at h
          have := rejLoop_done ws target rs _ _ a rest h
          simp at this ⊢; omega
      · simp [hl] at h
    · simp only [hact, if_false] at h
      cases h; simp

theorem sum_set_one : ∀ (arr : List Nat) (i : Nat), i < arr.length → arr.getD i 0 = 0 → (arr.set i 1).sum = arr.sum + 1
  | [], i, h, _ => by simp at h
  | x :: xs, 0, _, hz => by simp at hz; simp [hz]; omega
  | x :: xs, i + 1, h, hz => by
    have h' : i < xs.length := by simpa using h
    have hz' : xs.getD i 0 = 0 := by simpa using hz
    simp [sum_set_one xs i h' hz']; omega

/-- a finished rejection loop has exactly `target` active cells (the count assertion of `_simulate_catalog` cannot fail) -/
theorem rejLoop_sum (ws : List Rat) (target : Nat) : ∀ (stream : List Rat) (arr : List Nat) (active : Nat)
    (a : List Nat) (rest : List Rat), arr.sum = active → active ≤ target →
    rejLoop ws target arr active stream = .done a rest → a.sum = target
  | [], arr, active, a, rest, hs, hle, h => by
    simp only [rejLoop] at h
    split at h <;> simp at h
    obtain ⟨h1, _⟩ := h; subst h1; omega
  | r :: rs, arr, active, a, rest, hs, hle, h => by
    simp only [rejLoop] at h
    by_cases hact : active < target
    · simp only [hact, if_true] at h
      by_cases hl : searchRight ws r < arr.length
      · simp only [hl, if_true] at h
        by_cases hz : arr.getD (searchRight ws r) 0 = 0
        · simp only [hz, if_true] at h
          exact rejLoop_sum ws target rs _ _ a rest (by rw [sum_set_one arr _ hl hz, hs]) (by omega) h
        · simp only [hz, if_false] at h
          exact rejLoop_sum ws target rs _ _ a rest hs hle h
      · simp [hl] at h
    · simp only [hact, if_false] at h
      cases h; omega

def llOfB : M (StB α) → Option (List α)
  | .ok s => some s.2.2
  | .error _ => none

/-- the iteration against the model's `testBinaryStream` (consecutive rejection loops on one stream): it succeeds exactly
    when the model does, and the statistics appended are those of the model's arrays -/
theorem refB_sims (bl : List α → List Nat → α) (fd : List α) (ws : List Rat) (fuel n : Nat) :
    ∀ (k : Nat) (rng : List Rat) (sf : List Nat) (ll : List α), sf.length = ws.length → rng.length < fuel →
    llOfB (iter (refStepB bl fd ws fuel n) k (rng, sf, ll))
      = (testBinaryStream ws n k rng).map (fun arrs => ll ++ arrs.map (bl fd))
  | 0, rng, sf, ll, _, _ => by simp [iter, llOfB, testBinaryStream]
  | k + 1, rng, sf, ll, hsf, hf => by
    simp only [iter, refStepB, bind_assoc'', testBinaryStream]
    rw [simulate_catalog_binary_eq_simulateBinary fuel rng n ws sf hf hsf]
    cases hr : simulateBinary ws n rng with
    | indexError => simp [ofRej, bind_error'', llOfB]
    | exhausted => simp [ofRej, bind_error'', llOfB]
    | done arr rest =>
      have hd := rejLoop_done ws n rng (List.replicate ws.length 0) 0 arr rest (by simpa [simulateBinary] using hr)
      by_cases hc : countAssert arr n = true
      · simp only [ofRej, hc, if_true, bind_ok'']
        rw [refB_sims bl fd ws fuel n k rest arr (ll ++ [bl fd arr]) (by simpa using hd.2) (by omega)]
        -- the model does not assert the count (the rejection loop guarantees it); both continue with `rest`
        cases testBinaryStream ws n k rest <;> simp
      · -- a finished rejection loop has exactly `n` active cells: the assertion cannot fail
        exfalso
        have hsum := rejLoop_sum ws n rng (List.replicate ws.length 0) 0 arr rest (by simp) (by omega)
          (by simpa [simulateBinary] using hr)
        exact hc (by simp [countAssert, hsum])

/-! ## injected numbers -/

abbrev StBI (α : Type) := List Nat × List α

def refStepBI (bl : List α → List Nat → α) (fd : List α) (ws : List Rat) (n : Nat) (s : StBI α) (row : List Rat) :
    M (StBI α) :=
  Except.bind (SrcSM.simulate_catalog_binary_injected n ws s.1 row) fun sf => Except.ok (sf, s.2 ++ [bl fd sf])

def finishBI (bl : List α → List Nat → α) (fd : List α) (obs : List Nat) (nsim : Int) (r : M (StBI α)) :
    M (Rat × α × List α) :=
  match r with
  | .error x => .error x
  | .ok s =>
    .ok (Py.intTrueDiv ((PySM.countTrue (s.2.map (fun x => RealOps.le x (bl fd obs))) : Nat) : Int) nsim, bl fd obs, s.2)

/-- `binary_test_loop_injected` for `num_simulations ≤ len(random_numbers)` (fewer rows: IndexError at the first missing
    row). The seed has no effect on the result (the numbers are injected; the global generator is reseeded, not read). -/
theorem binary_test_loop_injected_eq_model {Masked : Type} (bl : List α → List Nat → α) (data : Masked → List α)
    (obs : List Nat) (nsim : Int) (rows : List (List Rat)) (seed : Option Int) (fdm : Masked) (ws : List Rat)
    (sf : List Nat) (ll : List α) (n : Nat) (hrows : nsim.toNat ≤ rows.length) :
    SrcSM.binary_test_loop_injected bl data obs nsim rows seed fdm ws sf ll n
      = finishBI bl (data fdm) obs nsim (iterRows (refStepBI bl (data fdm) ws n) (rows.take nsim.toNat) (sf, ll)) := by
  have hrange : Py.range (0 : Int) nsim = (List.range' 0 nsim.toNat).map (fun (j : Nat) => (j : Int)) := by
    simp [Py.range, List.range_eq_range']
  have hget : ∀ (k : Nat) (h : k < rows.length), PySM.getI rows (k : Int) = Except.ok rows[k] := by
    intro k h
    simp [PySM.getI, PySM.normIdx, PySM.getN, h, List.getElem?_eq_getElem h]
  unfold SrcSM.binary_test_loop_injected
  cases seed <;>
  · simp only [hrange]
    rw [forLoop_index (refStepBI bl (data fdm) ws n) rows _ _ nsim.toNat 0 _ (by omega)]
    · simp only [List.drop_zero]
      cases iterRows (refStepBI bl (data fdm) ws n) (rows.take nsim.toNat) (sf, ll) <;> simp [finishBI, Except.bind]
    · intro s k h
      simp only [hget k h, refStepBI, bind_ok'']
      cases SrcSM.simulate_catalog_binary_injected n ws s.1 rows[k] <;> simp [Except.bind, PySM.append]

def llOfBI : M (StBI α) → Option (List α)
  | .ok s => some s.2
  | .error _ => none

theorem simulateFrom_length' (ws : List Rat) : ∀ (draws : List Rat) (arr a : List Nat),
    simulateFrom ws arr draws = some a → a.length = arr.length
  | [], arr, a, h => by simp [simulateFrom] at h; rw [← h]
  | r :: rs, arr, a, h => by
    simp only [simulateFrom, bump] at h
    by_cases hl : searchRight ws r < arr.length
    · simp only [hl, if_true] at h
      have := simulateFrom_length' ws rs _ a h
      simpa using this
    · simp [hl] at h

/-- the iteration over injected rows against the model's `simRows` -/
theorem refBI_sims (bl : List α → List Nat → α) (fd : List α) (ws : List Rat) (n : Nat) :
    ∀ (rows : List (List Rat)) (sf : List Nat) (ll : List α), sf.length = ws.length →
    llOfBI (iterRows (refStepBI bl fd ws n) rows (sf, ll)) = (simRows ws n rows).map (fun arrs => ll ++ arrs.map (bl fd))
  | [], sf, ll, _ => by simp [iterRows, llOfBI, simRows]
  | row :: rows, sf, ll, hsf => by
    simp only [iterRows, refStepBI, bind_assoc'', simRows]
    rw [simulate_catalog_binary_injected_eq_simulate n ws sf row hsf]
    cases hsim : simulate ws row with
    | none => simp [ofSim, bind_error'', llOfBI]
    | some arr =>
      have hlen : arr.length = ws.length := by
        have := simulateFrom_length' ws row (List.replicate ws.length 0) arr (by simpa [simulate] using hsim)
        simpa using this
      by_cases hc : countAssert arr n = true
      · simp only [ofSim, hc, if_true, bind_ok'']
        rw [refBI_sims bl fd ws n rows arr (ll ++ [bl fd arr]) hlen]
        cases simRows ws n rows <;> simp
      · have hc' : countAssert arr n = false := by simpa using hc
        simp [ofSim, hc', bind_error'', llOfBI]

end SrcSM
