import PycsepVerif.GeneratedSrcSM
import PycsepVerif.Model.Sampler
/-!
# Source tie of C06 (imperative code): the three `_simulate_catalog` functions generated from the Python source equal the
# hand model (Model/Sampler.lean)

`SrcSM.simulate_catalog…` are regenerated from `csep/core/poisson_evaluations.py` / `binomial_evaluations.py` on every run
(harness/py2lean_sm.py); the meaning of every construct is in PyPreludeSM.lean. The hand model reports outcomes as
`Option` / `Sampler.Rej`; the adapters `ofSim` / `ofRej` below say which exception each outcome is and add the count
assertion (`Sampler.countAssert`), nothing else.

Specialisation (stated in TARGETS and in the theorems): the simulation array holds counts (`List Nat`); the hand model
starts from `replicate ws.length 0`, the source from `sim_fore.fill(0)`: the theorems are for ANY `sim_fore` in terms of
`simulateFrom` / `rejLoop` on `replicate sim_fore.length 0`, and for `sim_fore.length = ws.length` (what the callers pass:
`numpy.zeros(sampling_weights.shape)`) in terms of `simulate` / `simulateBinary`. The `while` loop of the binary version is
tied for every fuel larger than the length of the supplied stream of uniform numbers (each iteration consumes one number, so
`outOfFuel` cannot occur).
-/
namespace SrcSM
open Sampler PySM

/-- outcome of the model's `simulate…` as the outcome of the Python function: `none` is the IndexError of `numpy.add.at`,
    then `assert sim_fore.sum() == n` -/
def ofSim (n : Nat) : Option (List Nat) → M (List Nat)
  | some arr => if countAssert arr n then .ok arr else .error (.py .assertionError)
  | none => .error (.py .indexError)

/-- outcome of the model's rejection loop as the outcome of the Python function (plus the unused rest of the stream) -/
def ofRej (n : Nat) : Rej → M (List Nat × List Rat)
  | .done arr rest => if countAssert arr n then .ok (arr, rest) else .error (.py .assertionError)
  | .indexError => .error (.py .indexError)
  | .exhausted => .error .rngExhausted

theorem searchsortedRight_eq (ws : List Rat) (r : Rat) : PySM.searchsortedRight ws r = searchRight ws r := rfl

/-- `numpy.add.at(arr, searchsorted(ws, draws, 'right'), 1)` is the model's `simulateFrom` -/
theorem addAt_eq_simulateFrom (ws : List Rat) : ∀ (draws : List Rat) (arr : List Nat),
    PySM.addAt arr (draws.map (PySM.searchsortedRight ws)) 1
      = (match simulateFrom ws arr draws with
         | some a => Except.ok a
         | none => Except.error (.py .indexError))
  | [], arr => by simp [PySM.addAt, simulateFrom]
  | r :: rs, arr => by
    simp only [List.map_cons, PySM.addAt, simulateFrom, bump, searchsortedRight_eq]
    by_cases h : searchRight ws r < arr.length
    · simp only [h, if_true]
      exact addAt_eq_simulateFrom ws rs _
    · simp [h]

/-- the part of all injected versions after `sim_fore.fill(0)` -/
theorem injected_core (n : Nat) (ws : List Rat) (arr : List Nat) (draws : List Rat) :
    (Except.bind (PySM.addAt arr (draws.map (PySM.searchsortedRight ws)) 1) fun a =>
      if decide (List.sum a = n) then Except.ok a else Except.error (Exc.py Py.Err.assertionError))
      = ofSim n (simulateFrom ws arr draws) := by
  rw [addAt_eq_simulateFrom]
  cases simulateFrom ws arr draws <;> simp [ofSim, Except.bind, countAssert]

/-- poisson_evaluations.py `_simulate_catalog(num_events, sampling_weights, sim_fore, random_numbers)` with injected
    numbers, for ANY array `sim_fore` -/
theorem simulate_catalog_eq_model (n : Nat) (ws : List Rat) (simFore : List Nat) (draws : List Rat) :
    SrcSM.simulate_catalog n ws simFore draws
      = ofSim n (simulateFrom ws (List.replicate simFore.length 0) draws) := by
  unfold SrcSM.simulate_catalog
  exact injected_core n ws _ draws

/-- … for the array the callers pass (`numpy.zeros(sampling_weights.shape)`): the model's `simulate` -/
theorem simulate_catalog_eq_simulate (n : Nat) (ws : List Rat) (simFore : List Nat) (draws : List Rat)
    (h : simFore.length = ws.length) :
    SrcSM.simulate_catalog n ws simFore draws = ofSim n (simulate ws draws) := by
  rw [simulate_catalog_eq_model, h]; rfl

/-- the injected branch of binomial_evaluations.py `_simulate_catalog` is the same function -/
theorem simulate_catalog_binary_injected_eq_model (n : Nat) (ws : List Rat) (simFore : List Nat) (draws : List Rat) :
    SrcSM.simulate_catalog_binary_injected n ws simFore draws
      = ofSim n (simulateFrom ws (List.replicate simFore.length 0) draws) := by
  unfold SrcSM.simulate_catalog_binary_injected
  exact injected_core n ws _ draws

theorem simulate_catalog_binary_injected_eq_simulate (n : Nat) (ws : List Rat) (simFore : List Nat) (draws : List Rat)
    (h : simFore.length = ws.length) :
    SrcSM.simulate_catalog_binary_injected n ws simFore draws = ofSim n (simulate ws draws) := by
  rw [simulate_catalog_binary_injected_eq_model, h]; rfl

/-- `random_numbers=None`: `numpy.random.rand(num_events)` takes the next `n` numbers of the stream, the rest is left -/
theorem simulate_catalog_rand_eq_model (rng : List Rat) (n : Nat) (ws : List Rat) (simFore : List Nat) :
    SrcSM.simulate_catalog_rand rng n ws simFore
      = if n ≤ rng.length then
          (match ofSim n (simulateFrom ws (List.replicate simFore.length 0) (rng.take n)) with
           | .ok a => Except.ok (a, rng.drop n)
           | .error e => Except.error e)
        else Except.error .rngExhausted := by
  unfold SrcSM.simulate_catalog_rand PySM.rngRand
  by_cases h : n ≤ rng.length
  · simp only [h, if_true, Except.bind]
    rw [← injected_core]
    simp only [PySM.fill]
    cases PySM.addAt (List.replicate simFore.length 0) (List.map (PySM.searchsortedRight ws) (List.take n rng)) 1 with
    | error e => simp [Except.bind]
    | ok a => by_cases hs : a.sum = n <;> simp [Except.bind, hs]
  · simp [h, Except.bind]

/-! ## the rejection loop -/

/-- A `while` loop whose condition and body satisfy the specification read off the source
    (`while num_active_cells < sim_cells: r = uniform(); loc = searchsorted(ws, r, 'right');
      if sim_fore[loc] == 0: sim_fore[loc] = 1; num_active_cells += 1`), followed by any continuation that reads only the
    array and the stream, is the model's `rejLoop` — for every fuel larger than the stream. -/
theorem bind_while_eq_rejLoop {ρ : Type} (ws : List Rat) (target : Nat)
    (C : List Rat × List Nat × Int → Bool) (B : List Rat × List Nat × Int → M (Ctl (List Rat × List Nat × Int)))
    (K : List Rat × List Nat × Int → M ρ) (K' : List Nat → List Rat → M ρ)
    (hC : ∀ rng arr k, C (rng, arr, k) = decide (k < (target : Int)))
    (hB : ∀ rng arr k, B (rng, arr, k) =
      match rng with
      | [] => Except.error .rngExhausted
      | r :: rest =>
        if searchRight ws r < arr.length then
          (if arr.getD (searchRight ws r) 0 = 0 then Except.ok (.next (rest, arr.set (searchRight ws r) 1, k + 1))
           else Except.ok (.next (rest, arr, k)))
        else Except.error (.py .indexError))
    (hK : ∀ rng arr k, K (rng, arr, k) = K' arr rng) :
    ∀ (rng : List Rat) (fuel : Nat) (arr : List Nat) (active : Nat) (k : Int), k = (active : Int) → rng.length < fuel →
      Except.bind (PySM.whileLoop C B fuel (rng, arr, k)) K
        = (match rejLoop ws target arr active rng with
           | .done a rest => K' a rest
           | .indexError => Except.error (.py .indexError)
           | .exhausted => Except.error .rngExhausted)
  | [], fuel, arr, active, k, hk, hf => by
    obtain ⟨f, rfl⟩ : ∃ f, fuel = f + 1 := ⟨fuel - 1, by simp at hf; omega⟩
    subst hk
    simp only [PySM.whileLoop, hC, hB, rejLoop]
    by_cases h : active < target
    · have : ((active : Int) < (target : Int)) := by omega
      simp [h, this, Except.bind]
    · have : ¬ ((active : Int) < (target : Int)) := by omega
      simp [h, this, Except.bind, hK]
  | r :: rest, fuel, arr, active, k, hk, hf => by
    obtain ⟨f, rfl⟩ : ∃ f, fuel = f + 1 := ⟨fuel - 1, by simp at hf; omega⟩
    subst hk
    have hf' : rest.length < f := by simp at hf; omega
    simp only [PySM.whileLoop, hC, hB, rejLoop]
    by_cases h : active < target
    · have h' : ((active : Int) < (target : Int)) := by omega
      simp only [h, h', decide_true, if_true]
      by_cases hl : searchRight ws r < arr.length
      · simp only [hl, if_true]
        by_cases hz : arr.getD (searchRight ws r) 0 = 0
        · simp only [hz, if_true]
          exact bind_while_eq_rejLoop ws target C B K K' hC hB hK rest f _ (active + 1) _ (by simp) hf'
        · simp only [hz, if_false]
          exact bind_while_eq_rejLoop ws target C B K K' hC hB hK rest f _ active _ rfl hf'
      · simp [hl, Except.bind]
    · have h' : ¬ ((active : Int) < (target : Int)) := by omega
      simp [h, h', Except.bind, hK]

/-- binomial_evaluations.py `_simulate_catalog(sim_cells, sampling_weights, sim_fore)` drawing from the global generator
    (`random_numbers=None`): the model's rejection loop on the stream `rng`, for ANY array `sim_fore` and every fuel
    larger than the stream; the second component is the unused rest of the stream. -/
theorem simulate_catalog_binary_eq_model (fuel : Nat) (rng : List Rat) (n : Nat) (ws : List Rat) (simFore : List Nat)
    (hf : rng.length < fuel) :
    SrcSM.simulate_catalog_binary fuel rng n ws simFore
      = ofRej n (rejLoop ws n (List.replicate simFore.length 0) 0 rng) := by
  unfold SrcSM.simulate_catalog_binary
  refine (bind_while_eq_rejLoop ws n _ _ _
    (fun a rest => if decide (List.sum a = n) then Except.ok (a, rest) else Except.error (Exc.py Py.Err.assertionError))
    ?_ ?_ ?_ rng fuel _ 0 _ rfl hf).trans ?_
  · intro rng arr k; rfl
  · intro rng arr k
    cases rng with
    | nil => simp [PySM.rngUniform, Except.bind]
    | cons r rest =>
      simp only [PySM.rngUniform, Except.bind, searchsortedRight_eq, PySM.getN, PySM.setN]
      by_cases hl : searchRight ws r < arr.length
      · have hget : arr[searchRight ws r]? = some (arr.getD (searchRight ws r) 0) := by
          simp [List.getD, hl]
        simp only [hget, hl, if_true]
        by_cases hz : arr.getD (searchRight ws r) 0 = 0
        · have hz' := hz
          simp only [List.getD_eq_getElem?_getD] at hz'
          simp [hz', Int.add_comm]
        · have hz' := hz
          simp only [List.getD_eq_getElem?_getD] at hz'
          simp [hz']
      · simp [hl]
  · intro rng arr k; rfl
  · simp only [PySM.fill]
    cases rejLoop ws n (List.replicate simFore.length 0) 0 rng <;> simp [ofRej, countAssert]

/-- … for the array the callers pass: the model's `simulateBinary` -/
theorem simulate_catalog_binary_eq_simulateBinary (fuel : Nat) (rng : List Rat) (n : Nat) (ws : List Rat)
    (simFore : List Nat) (hf : rng.length < fuel) (h : simFore.length = ws.length) :
    SrcSM.simulate_catalog_binary fuel rng n ws simFore = ofRej n (simulateBinary ws n rng) := by
  rw [simulate_catalog_binary_eq_model _ _ _ _ _ hf, h]; rfl

end SrcSM
