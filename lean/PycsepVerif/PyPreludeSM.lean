import PycsepVerif.PyPrelude
/-
  PyPreludeSM — the meaning of every IMPERATIVE / STATEFUL Python construct the second source translator
  (harness/py2lean_sm.py) accepts. PART OF THE TRUSTED BASE, like PyPrelude.lean: `GeneratedSrcSM.lean` is a composition
  of the operations below in the order the Python source applies them; that the composition means what CPython / numpy do
  rests on (1) py2lean_sm.py choosing the operation documented here for each construct and (2) each definition below.
  Both are validated on every run by harness/src_tie_sm.py (real function and generated definition on the same inputs).

  Shallow embedding, one meaning per construct:

    statement list              a Lean term of type `M ρ` (= `Except Exc ρ`), statements chained by `let` (pure) and
                                `Except.bind` (an operation that can raise); evaluation order as in the source
    exception                   `Except.error`; THE STATE AT THE MOMENT OF AN EXCEPTION IS NOT MODELLED (in-place updates
                                and yielded items made before it are dropped from the result)
    mutable local / `self.a`    a Lean variable rebound by every assignment; at a branch point the variables assigned in
                                either branch are returned as a tuple and rebound after the `if`
    `x is None` on an Optional  `match x with | none => … | some x => …` (the variable has the payload type in the else branch)
    `for v in xs: body`         `forLoop body xs s`: structural recursion over the list; `s` = the tuple of the variables
                                that are defined before the loop and assigned in its body (loop-carried state); variables
                                first assigned in the body are local to one iteration (a later read is Untranslatable)
    `while c: body`             `whileLoop c body fuel s`: recursion on an explicit `fuel : Nat` that is a PARAMETER of the
                                generated definition; running out of fuel is the distinguished outcome `Exc.outOfFuel`
                                (never confused with a result; the tie theorem states for which fuel it cannot occur)
    `continue` / end of body    `Ctl.next s`      `break`  `Ctl.brk s`
    `yield e`                   `out' := out' ++ [e]` on a hidden variable; a generator function is the function returning
                                the list of everything it yields when run to exhaustion (plus its final hidden state)
    `for i, (a, b) in …`        the element is bound to a variable and taken apart with projections; `enumerate(xs)` =
                                `enumerate xs`, `zip(a, b)` = `List.zip a b` (stops at the shorter one, as Python)
    accessor of the same class  `self.m()` / property `self.m` without parameters whose body is `return e` (or
                                `if c: return a else: return b`) is translated in place of the call
    `a['col']`                  column of a structured array of rows of an opaque type: `List.map col_<name> a`, with
                                `col_<name>` an opaque projection parameter (TARGETS.columns gives its type)
    `a[i, j, k] = v` (n-d)      `NdArr.setAt a [i, j, k] v`: an n-d array is its shape and a function from index tuples
    `if A and B:` with an operation that can raise in B   the nested `if A: if B:` (else branch duplicated): B is evaluated
                                only when A holds, as Python's short-circuit `and`
    a function body from its first top-level loop on (TARGETS.body_from = "for")   the variables that are live at the loop
                                (TARGETS.live_in) are parameters of the definition; the statements before it are listed in
                                the header and are not part of the definition
    truthiness of a list / str  `not xs` = `List.isEmpty xs`, `not s` = (s == "")
    `isinstance(x, str)` / `isinstance(x, (list, tuple))`   a constant of the specialisation (the declared type of `x`)
    `s.split(' ')`, `' '.join(xs)`   `PySM.split`, `PySM.join`; `a, b, c = xs` on a list = `PySM.unpack3` (ValueError)
    `{'>': operator.gt, …}`     a list of (key, `PySM.Cmp`); `d[k]` = `PySM.dictGet` (KeyError); `d[k](col, v)` =
                                `List.map (fun x => Cmp.apply op x v) col`
    `a[name]`, name a run-time str   `PySM.column fieldOf name a` (ValueError for an unknown field)
    `numpy.copy(a)`, `list(xs)` a fresh copy: the identity under value semantics
    `cls = self.__class__; cls(k=v, …)`   an opaque constructor parameter (TARGETS.opaque["cls"])
    `obj.attr` of an opaque object (TARGETS.rec_attrs)   an opaque projection parameter `<Type>_<attr>`
    `numpy.zeros(n)`, `numpy.zeros((n, m))` of counts   `List.replicate n 0`, `List.replicate n (List.replicate m 0)`
    `a[(i, j)] += 1` (2-d counts)   `PySM.bump2 a i j 1`; `numpy.add.at` with int indices = `PySM.addAtI`
    `x ** y` on floats          opaque parameter `pow` (transcendental; the hand models take its value as an input)
    in-place array update       `a.fill(v)`, `a[i] = v`, `numpy.add.at(a, idx, v)`, `a.append(v)`, `a += b` rebind the
                                variable `a`; sound because the translator refuses a variable that has an alias
                                (`b = a` between list variables) — values handed to an opaque constructor or yielded
                                are treated as copied at that moment (py2lean_sm.py refuses a later in-place update of
                                an escaped list before it is rebound)
    parameter updated in place  declared `inout` in TARGETS; its final value is part of the result
    `for i, x in enumerate(self)` / `for x in self`   ONE pass over the object: the opaque parameter `iter_self` maps the state
                                record to (the list of items the pass yields, the state record after it); the loop body
                                runs over that list AFTER the pass, may read only the fields the pass keeps
                                (TARGETS.iter_self.keeps) and assign none; an exception of the body therefore shows the
                                forecast after a complete pass, not in the middle of it (state at an exception is not
                                modelled anyway)
    `obj.attr = v`, `obj.m(…)` on a local opaque object   opaque setter `<T>_set_<attr>` / (raising) method `<T>_<m>`
    `numpy.empty(shape)`        uninitialised memory: the arbitrary value `empty'`, a parameter of the definition
    `time.time()`               a clock reading: may be stored in a local, any use stops the translation
    `x / opt`, `x * opt` …      `PySM.getOpt`: TypeError when the Optional operand is None
    `print(…)`                  a no-op (output only; its arguments are not evaluated)
    `obj.m(…)` that changes `obj`   TARGETS.rec_methods with `mutates`: opaque `T_m : T → … → M (ret × T)`, the object is rebound
                                (also `x = obj.m(…)`: the object first, then `x` = the returned value)
    `opt.attr`, `opt.m(…)`      attribute / method of an Optional object: `PySM.getObj`, AttributeError when it is None
    `return None` / `return x`  needs the declared Optional result type TARGETS.returns: `none` / `some x`
    `(None, None)`              a tuple display with None members: only where the declared type makes them Optional
    `a / b` of numpy integers   under TARGETS.int_div = "real": `RealOps.div (ofNat a) (ofNat b)` (numpy's true division
                                never raises; a zero divisor is outside the real layer); `numpy.log10` of an integer
                                array = `log10 (ofNat n)` elementwise
    `try: x = f(…) except (E1, …): H`   around ONE call of an opaque raising function: `PySM.tryCatch` — H (which may
                                `continue`) runs when the call raised one of the named classes, other exceptions go on;
                                x is not bound in H
                                (also `x = <expression with exactly one raising operation>`; H may assign instead of `continue`)
    `with open(p, mode, newline='') as f` + `csv.DictWriter(f, fieldnames=names, delimiter=',')`
                                the file is the hidden stream `file'` : the list of its records (lists of opaque `Cell`s);
                                `PySM.openForWrite mode file'` ('a' keeps, 'w' empties); `writer.writeheader()` appends the
                                names as cells, `writer.writerow({...})` appends `PySM.dictRow names d restval` (ValueError
                                for a key that is no field name); a dict display `{'k': v, …}` is the list of its
                                (key, cell) pairs, each value injected into `Cell` by the opaque injection of its type
                                (TARGETS.cell_of); quoting / line ends are the csv writer's layer, not this one
    `self.catalog[name]`        name known at run time: opaque `TARGETS.dyn_column` (ValueError: no such field)
    `[x] * n`, `zip(a, b, c, …)`   `List.replicate n x`; right-nested `List.zip` (stops at the shortest)
    TARGETS.opaque_exprs        an expression that matches a declared pattern (one hole `_`) is ONE opaque function of the
                                sub-expression in the hole; the pattern pins the text of the expression
    TARGETS.str_as              a str where an opaque value is expected (ids: bytes or str) = opaque injection
    dicts (`DICT`)              the list of (key, value) pairs in insertion order: `{}`, `d[k] = v` = `PySM.dictSet`
                                (replaces in place / appends), `d.items()`, `d[k].append(x)` = `PySM.dictAppend` for a dict
                                whose values are of two declared kinds (`A ⊕ List B`; a value is injected by its type);
                                `self.__dict__` = a declared field of that type
    `callable(v)`, `hasattr(v, 'name')`   on an opaque value: opaque predicates (TARGETS.rec_preds)
    `k.startswith(p)`, `k[n:]`, `k in [names]`, `list(xs)`   `PySM.strStartsWith`, `PySM.strDrop`, `List.contains`, `xs`
    `try: x = E except: pass finally: F`   a bare except catches everything Python raises (`PySM.catchesAll`), x keeps its
                                value, then F
    `zip_longest(*[g()] * k)`   g a nested generator declared opaque (its items are a parameter): `PySM.chunksLongest k`,
                                groups of k items as lists of Optionals, the last one filled with None
    `None in t`, `f(*t)`        on such a group: `List.any Option.isNone`; an opaque f declared `star` takes the list
    `r["key"]` (r opaque)       opaque projection `<T>_<key>` (TARGETS.rec_attrs, as for attributes)
    `warnings.warn(…)`          a no-op (default warning filters); a local declared in TARGETS.ignore_locals (the message
                                text, built by `%` from values already computed) is not evaluated and may only be used there
    nan / -inf in the real layer   values of type `Option (ELL α)` (`none` = nan): `numpy.isnan`, `x == -numpy.inf`,
                                `numpy.isnan(numpy.sum(xs))` = `anyNan`; `x != 0` on reals = `!isZeroR`; `~mask`;
                                an int literal where an opaque value is expected = the opaque injection TARGETS.lit_as
    `numpy.random.seed(s)`      both hidden streams are replaced by those of the freshly seeded generator, given by the
                                opaque parameters `seed_rng : Int → List Rat`, `seed_pois : Int → List Nat`
    `numpy.random.poisson(m)`   the next element of the hidden stream `pois' : List Nat` (`PySM.rngPoisson`)
    call of another SM target   `TARGETS.callees`: the generated definition of the callee (chosen by the keywords of the
                                call), hidden streams passed in and taken back; refused when the callee is not translated
    `numpy.random.*`            the global generator is a hidden variable `rng' : List Rat`, the stream of uniform
                                numbers in [0,1) it will produce (an INPUT of the definition); running out is
                                `Exc.rngExhausted` (not a Python exception)
    method of an object         `self` is an explicit structure parameter; every `self.a` read is a field, every
                                assignment rebinds the field; the final structure is part of the result

  No Mathlib: the native driver links this file.
-/
namespace PySM

/-- exceptions and the two non-Python outcomes -/
inductive Exc where
  | py (e : Py.Err)          -- ValueError / IndexError / AssertionError / other (PyPrelude)
  | stopIteration
  | typeError
  | attributeError
  | keyError
  | osError                  -- OSError = IOError = EnvironmentError
  | runtimeError
  | rngExhausted             -- the supplied stream of uniform numbers ran out (NOT a Python exception)
  | outOfFuel                -- a `while` loop did not finish within its fuel (NOT a Python exception)
  deriving DecidableEq, Repr

abbrev M (ρ : Type) := Except Exc ρ

/-- what one execution of a loop body tells the loop -/
inductive Ctl (σ : Type) where
  | next (s : σ)    -- body ran to its end, or `continue`
  | brk (s : σ)     -- `break`
  deriving Repr

/-- `for v in xs: body` with loop-carried state `s` -/
def forLoop {σ β : Type} (body : σ → β → M (Ctl σ)) : List β → σ → M σ
  | [], s => .ok s
  | x :: xs, s =>
    match body s x with
    | .error e => .error e
    | .ok (.next s') => forLoop body xs s'
    | .ok (.brk s') => .ok s'

/-- `while cond: body` with loop-carried state `s`; `fuel` bounds the number of iterations -/
def whileLoop {σ : Type} (cond : σ → Bool) (body : σ → M (Ctl σ)) : Nat → σ → M σ
  | 0, _ => .error .outOfFuel
  | fuel + 1, s =>
    if cond s then
      match body s with
      | .error e => .error e
      | .ok (.next s') => whileLoop cond body fuel s'
      | .ok (.brk s') => .ok s'
    else .ok s

/-! ## arrays updated in place (1-D; an n-d array is its flattened C-order list, the shape is kept) -/

/-- `a.fill(v)` -/
def fill {β : Type} (a : List β) (v : β) : List β := List.replicate a.length v

/-- `a[i]` for an index that is a count (`numpy.intp` from `searchsorted`, never negative): IndexError outside -/
def getN {β : Type} (a : List β) (i : Nat) : M β :=
  match a[i]? with
  | some x => .ok x
  | none => .error (.py .indexError)

/-- `a[i] = v` for a non-negative index: IndexError outside -/
def setN {β : Type} (a : List β) (i : Nat) (v : β) : M (List β) :=
  if i < a.length then .ok (a.set i v) else .error (.py .indexError)

/-- Python's index normalisation: a negative index counts from the end -/
def normIdx (n : Nat) (i : Int) : Option Nat :=
  if 0 ≤ i then (if i.toNat < n then some i.toNat else none)
  else if 0 ≤ (n : Int) + i then some ((n : Int) + i).toNat else none

/-- `a[i]` for a Python int (negative allowed): IndexError outside -/
def getI {β : Type} (a : List β) (i : Int) : M β :=
  match normIdx a.length i with
  | some k => getN a k
  | none => .error (.py .indexError)

/-- `a[i] = v` for a Python int -/
def setI {β : Type} (a : List β) (i : Int) (v : β) : M (List β) :=
  match normIdx a.length i with
  | some k => setN a k v
  | none => .error (.py .indexError)

/-- `numpy.add.at(a, idx, v)`: unbuffered in-place addition, one index after the other (repeated indices accumulate);
    IndexError for an index outside the array -/
def addAt (a : List Nat) : List Nat → Nat → M (List Nat)
  | [], _ => .ok a
  | i :: is, v => if i < a.length then addAt (a.modify i (· + v)) is v else .error (.py .indexError)

/-- `enumerate(xs)`: the elements paired with 0, 1, 2, … -/
def enumerateFrom {β : Type} : Nat → List β → List (Nat × β)
  | _, [] => []
  | k, x :: xs => (k, x) :: enumerateFrom (k + 1) xs
def enumerate {β : Type} (xs : List β) : List (Nat × β) := enumerateFrom 0 xs

/-- `itertools.zip_longest(*[it] * k)` for ONE iterator object `it` repeated `k` times: the items of `it` in groups of `k`
    in order (each `next` takes the next item), the last group filled with `None`; no group when the iterator is empty.
    `fuel` = an upper bound of the number of groups (the length of the list is enough) -/
def chunksLongestAux {β : Type} (k : Nat) : Nat → List β → List (List (Option β))
  | 0, _ => []
  | _ + 1, [] => []
  | fuel + 1, x :: xs =>
    let g := (x :: xs).take k
    (g.map some ++ List.replicate (k - g.length) none) :: chunksLongestAux k fuel ((x :: xs).drop k)
def chunksLongest {β : Type} (k : Nat) (xs : List β) : List (List (Option β)) :=
  if k = 0 then [] else chunksLongestAux k xs.length xs

/-- `open(name, mode, newline='')` of a file that is then written through a csv writer; the file is the list of its
    records: mode 'a' keeps what is there, 'w' starts empty (any other mode: ValueError — not a mode for writing here) -/
def openForWrite {β : Type} (mode : String) (old : List β) : M (List β) :=
  if mode == "a" then .ok old else if mode == "w" then .ok [] else .error (.py .valueError)

/-- the record `csv.DictWriter(f, fieldnames).writerow(d)` writes for the dict display `d` (keys in the order written, no
    key twice): ValueError when `d` has a key that is not a field name (`extrasaction='raise'`), else the cells in the order
    of the field names, `restval` for a field `d` does not have -/
def dictRow {β : Type} (fieldnames : List String) (d : List (String × β)) (restval : β) : M (List β) :=
  if d.all (fun kv => fieldnames.contains kv.1) then
    .ok (fieldnames.map fun k => ((d.find? fun kv => kv.1 == k).map (·.2)).getD restval)
  else .error (.py .valueError)

/-- `s[n:]` and `s.startswith(p)` on a str, on its code points -/
def strDrop (s : String) (n : Nat) : String := String.ofList (s.toList.drop n)
def strStartsWith (s p : String) : Bool := p.toList.isPrefixOf s.toList

/-! ## dicts with str keys: the list of (key, value) pairs in insertion order, no key twice -/

/-- `d[k] = v`: the value of an existing key is replaced where it stands, a new key goes to the end -/
def dictSet {β : Type} : List (String × β) → String → β → List (String × β)
  | [], k, v => [(k, v)]
  | (k', v') :: rest, k, v => if k' == k then (k', v) :: rest else (k', v') :: dictSet rest k v

/-- `d[k].append(x)` for a dict whose values are of two kinds, the second being lists: KeyError without the key,
    AttributeError when the entry is of the first kind -/
def dictAppend {α β : Type} : List (String × (α ⊕ List β)) → String → β → M (List (String × (α ⊕ List β)))
  | [], _, _ => .error .keyError
  | (k', v') :: rest, k, x =>
    if k' == k then
      match v' with
      | .inr l => .ok ((k', .inr (l ++ [x])) :: rest)
      | .inl _ => .error .attributeError
    else Except.bind (dictAppend rest k x) fun r => .ok ((k', v') :: r)

/-- a bare `except:` catches every Python exception (the two non-Python outcomes of this embedding go on) -/
def catchesAll : Exc → Bool
  | .rngExhausted => false
  | .outOfFuel => false
  | _ => true

/-- `try: x = f(…) except (E1, E2): H` around ONE call: the handler runs when the call raised one of the named classes
    (`catches`), any other exception goes on -/
def tryCatch {β ρ : Type} (act : M β) (catches : Exc → Bool) (onOk : β → M ρ) (onErr : Unit → M ρ) : M ρ :=
  match act with
  | .ok v => onOk v
  | .error e => if catches e then onErr () else .error e

/-- the rows of `a` whose mask entry is True, in order (numpy boolean-mask indexing on the first axis) -/
def maskSel {β : Type} : List β → List Bool → List β
  | x :: xs, b :: bs => if b then x :: maskSel xs bs else maskSel xs bs
  | _, _ => []

/-- `a[mask]` for a boolean array `mask`: IndexError unless it has the length of `a` -/
def maskSelect {β : Type} (a : List β) (mask : List Bool) : M (List β) :=
  if a.length = mask.length then .ok (maskSel a mask) else .error (.py .indexError)

/-- an n-d numpy array updated through integer index tuples: its shape and its content as a function of the index tuple
    (entries outside the shape are never read by generated code) -/
structure NdArr (β : Type) where
  shape : List Nat
  get : List Nat → β

/-- an index tuple normalised axis by axis (negative indices count from the end of their axis) -/
def normIdxs : List Nat → List Int → Option (List Nat)
  | [], [] => some []
  | n :: ns, i :: is =>
    match normIdx n i, normIdxs ns is with
    | some k, some ks => some (k :: ks)
    | _, _ => none
  | _, _ => none

/-- `a[i, j, …] = v` with one integer per axis: IndexError outside the shape -/
def NdArr.setAt {β : Type} (a : NdArr β) (idx : List Int) (v : β) : M (NdArr β) :=
  match normIdxs a.shape idx with
  | some j => .ok { a with get := fun q => if q = j then v else a.get q }
  | none => .error (.py .indexError)

/-- `numpy.add.at(a, idx, v)` with Python-int indices (negative ones count from the end) -/
def addAtI (a : List Nat) : List Int → Nat → M (List Nat)
  | [], _ => .ok a
  | i :: is, v =>
    match normIdx a.length i with
    | some k => addAtI (a.modify k (· + v)) is v
    | none => .error (.py .indexError)

/-- `a[(i, j)] += v` on a 2-d array of counts kept as a list of rows: IndexError outside -/
def bump2 (a : List (List Nat)) (i j : Int) (v : Nat) : M (List (List Nat)) :=
  match normIdx a.length i with
  | none => .error (.py .indexError)
  | some r =>
    match normIdx ((a.getD r []).length) j with
    | none => .error (.py .indexError)
    | some c => .ok (a.modify r (fun row => row.modify c (· + v)))

/-- `a.append(v)` -/
def append {β : Type} (a : List β) (v : β) : List β := a ++ [v]

/-- `numpy.searchsorted(a, v, side='right')` for ONE float64 `v` on a NON-DECREASING float64 array `a`: the number of
    entries ≤ v. (numpy bisects; on an array that is not sorted its result is whatever the bisection meets — not modelled,
    the definition is the sorted-array meaning.) -/
def searchsortedRight (a : List Rat) (v : Rat) : Nat := a.countP (fun w => decide (w ≤ v))

/-- `numpy.searchsorted(a, v, side='left')` on a non-decreasing array: the number of entries < v -/
def searchsortedLeft (a : List Rat) (v : Rat) : Nat := a.countP (fun w => decide (w < v))

/-! ## the global numpy generator as a stream of uniform numbers -/

/-- `numpy.random.uniform(0, 1)` (= `0 + (1 - 0) * random_sample()`, exact): the next number of the stream -/
def rngUniform : List Rat → M (Rat × List Rat)
  | [] => .error .rngExhausted
  | u :: rest => .ok (u, rest)

/-- `numpy.random.rand(n)` / `numpy.random.random(n)`: the next `n` numbers -/
def rngRand (n : Nat) (rng : List Rat) : M (List Rat × List Rat) :=
  if n ≤ rng.length then .ok (rng.take n, rng.drop n) else .error .rngExhausted

/-- `numpy.random.poisson(mean)`: the next number of the hidden stream `pois'` of Poisson draws (an INPUT of the
    definition, like the uniform stream; the mean is not looked at) -/
def rngPoisson : List Nat → M (Nat × List Nat)
  | [] => .error .rngExhausted
  | k :: rest => .ok (k, rest)

/-- `numpy.sum(mask)` of a boolean array: the number of True entries -/
def countTrue (l : List Bool) : Nat := l.countP (fun b => b)

/-- `x <= y` on values of `numpy.log` (−∞ ≤ everything) -/
def ellLe {α : Type} [RealOps α] : ELL α → ELL α → Bool
  | .negInf, _ => true
  | .fin _, .negInf => false
  | .fin a, .fin b => RealOps.le a b

/-! ## strings, operator tables, structured arrays (round 4c) -/

/-- `s.split(sep)` for a non-empty literal separator -/
def split (s sep : String) : List String := s.splitOn sep

/-- `sep.join(parts)` -/
def join (sep : String) (parts : List String) : String := sep.intercalate parts

/-- `a, b, c = xs`: ValueError unless the list has exactly three items -/
def unpack3 {β : Type} : List β → M (β × β × β)
  | [a, b, c] => .ok (a, b, c)
  | _ => .error (.py .valueError)

/-- `a, b, c, d = xs` -/
def unpack4 {β : Type} : List β → M (β × β × β × β)
  | [a, b, c, d] => .ok (a, b, c, d)
  | _ => .error (.py .valueError)

/-- the comparison functions of the `operator` module -/
inductive Cmp where
  | gt | lt | ge | le | eq | ne
  deriving DecidableEq, Repr

/-- `operator.gt(a, v)` … on two float64 values (element of an array against a scalar) -/
def Cmp.apply : Cmp → Rat → Rat → Bool
  | .gt, a, v => decide (v < a)
  | .lt, a, v => decide (a < v)
  | .ge, a, v => decide (v ≤ a)
  | .le, a, v => decide (a ≤ v)
  | .eq, a, v => decide (a = v)
  | .ne, a, v => !decide (a = v)

/-- `d[key]` for a dict literal with string keys: KeyError when the key is missing (first entry wins is irrelevant:
    a literal with a repeated key keeps the LAST value in Python — the translator refuses repeated keys) -/
def dictGet {β : Type} : List (String × β) → String → M β
  | [], _ => .error .keyError
  | (k, v) :: rest, key => if k == key then .ok v else dictGet rest key

/-- `a[name]` for a structured array `a` and a field name known only at run time, as float64 values (an int64 field is
    converted as numpy does when it meets a float: exact below 2^53). `fieldOf` says which field names the dtype has
    (an opaque parameter of the generated definition); ValueError ("no field of name …") otherwise. -/
def column {ρ : Type} (fieldOf : String → Option (ρ → Rat)) (name : String) (a : List ρ) : M (List Rat) :=
  match fieldOf name with
  | some f => .ok (a.map f)
  | none => .error (.py .valueError)

/-! ## floats that may be nan / -inf in the real layer: `Option (ELL α)`, `none` = nan -/
section NReal
variable {α : Type} [RealOps α]

/-- `numpy.isnan(x)` -/
def isNan (x : Option (ELL α)) : Bool := x.isNone
/-- `x == -numpy.inf` (False for nan) -/
def isNegInf : Option (ELL α) → Bool
  | some .negInf => true
  | _ => false
def isNegInfE : ELL α → Bool
  | .negInf => true
  | _ => false
/-- `numpy.isnan(numpy.sum(xs))` for values that are nan, -inf or finite (no +inf): some entry is nan -/
def anyNan (xs : List (Option (ELL α))) : Bool := xs.any isNan
/-- `x == 0` / `x != 0` in the real layer: `x ≤ 0 ∧ 0 ≤ x` -/
def isZeroR (x : α) : Bool := RealOps.le x RealOps.zero && RealOps.le RealOps.zero x
/-- `numpy.log10` -/
def log10 (x : α) : α := RealOps.div (RealOps.log x) (RealOps.log (RealOps.ofNat 10))
end NReal

/-! ## Optional values -/

/-- a method / attribute of an Optional object (`forecast.expected_rates.sum()`): AttributeError when it is None -/
def getObj {β : Type} : Option β → M β
  | some v => .ok v
  | none => .error .attributeError

/-- an Optional value used where a number is needed (`data / self.n_cat`): TypeError when it is None -/
def getOpt {β : Type} : Option β → M β
  | some v => .ok v
  | none => .error .typeError


/-- `x == y` where `x` may be `None` and `y` is an int: `None == 3` is False -/
def optEqInt (x : Option Int) (y : Int) : Bool := x == some y

end PySM
