/-
  RealOps — the real-number operations the statistical models need, as a class, so that ONE definition of a
  statistic is instantiated twice:
    * at `Float` (instance below; executable, run by the driver and compared with numpy/scipy), and
    * at `ℝ` (instance in `Proofs/RealInst.lean`, Mathlib; the theorems are stated and proved there).
  Import-free. `ELL α` is an extended value with an explicit minus infinity (log 0), never `Real.log 0 = 0`.
-/

class RealOps (α : Type) where
  add : α → α → α
  sub : α → α → α
  mul : α → α → α
  div : α → α → α
  neg : α → α
  zero : α
  one : α
  ofNat : Nat → α
  log : α → α
  exp : α → α
  sqrt : α → α
  /-- log (n!) -- scipy.special.loggamma(n+1) -/
  logFact : Nat → α
  /-- decidable comparisons used by control flow (`rate <= 0`, ...) -/
  le : α → α → Bool
  lt : α → α → Bool

namespace RealOps
variable {α : Type} [RealOps α]

def sum (xs : List α) : α := xs.foldl RealOps.add RealOps.zero
def two : α := RealOps.ofNat 2

end RealOps

/-- log(n!) in Float: sum of logs (exact enough for the 1e-9 comparison; scipy uses loggamma) -/
def Float.logFact (n : Nat) : Float :=
  (List.range n).foldl (fun acc i => acc + Float.log (Float.ofNat (i + 1))) 0.0

instance : RealOps Float where
  add := (· + ·)
  sub := (· - ·)
  mul := (· * ·)
  div := (· / ·)
  neg := fun x => -x
  zero := 0.0
  one := 1.0
  ofNat := Float.ofNat
  log := Float.log
  exp := Float.exp
  sqrt := Float.sqrt
  logFact := Float.logFact
  le := fun a b => a ≤ b
  lt := fun a b => a < b

/-- extended log-likelihood value: minus infinity or a finite value -/
inductive ELL (α : Type) where
  | negInf : ELL α
  | fin : α → ELL α
  deriving Repr

namespace ELL
variable {α : Type} [RealOps α]

def add : ELL α → ELL α → ELL α
  | fin a, fin b => fin (RealOps.add a b)
  | _, _ => negInf

def sum (xs : List (ELL α)) : ELL α := xs.foldl add (fin RealOps.zero)

/-- log with log 0 = −∞ (numpy.log(0.0) = -inf); negative arguments are not in any model's domain -/
def log (x : α) : ELL α := if RealOps.le x RealOps.zero then negInf else fin (RealOps.log x)

end ELL

namespace Proto
/-- Floats travel as their IEEE-754 bit pattern, a decimal natural number (exact in both directions) -/
def parseFloat? (s : String) : Option Float := s.toNat?.map (fun n => Float.ofBits (UInt64.ofNat n))
def showFloat (x : Float) : String := toString x.toBits.toNat
end Proto
