"""C03 (extension) — which magnitude bins a gridding call uses over call sequences on one catalog / region object in every state
of the region (bins bound, `magnitudes is None`, no `magnitudes` attribute, no region), `retbins=True`, the configuration-error
branches, and the accumulation of `CatalogForecast.get_expected_rates` over the catalogs of a forecast.

Correspondence with Model/GriddingSeq.lean (ops c03_seqc / c03_seqq / c03_expc / c03_expq) + exact recount."""
import json
from fractions import Fraction

import numpy


def _qt_bounds(region):
    from .c17 import qt_bounds
    return qt_bounds(region)

from .core import frac

# Input classes on which the UNCHANGED code misbehaves and that wait for a decision (genuine-defect candidates, notes/C03.md).
# While an entry is listed its class is not generated; delete the entry and the generator produces it and the oracle reports it.
# W-C03-1 (magnitude_counts() without bins on a region without bins / without region) was repaired in /repo by D41 (0529988) and
# is generated since; its witnesses are corpus cases.
AWAITING_DECISION = [
    dict(id="W-C03-2", cls="retbins-aliases-region-bins",
         what="magnitude_counts(retbins=True) hands out THE region's own magnitudes array (or the caller's own mag_bins object), not a "
              "copy: `b, _ = cat.magnitude_counts(retbins=True); b[0] = 9.0` changes region.magnitudes for every catalog bound to that "
              "region (the next region-bound spatial_magnitude_counts raises 'grid spacing must be positive'). Aliasing class (1) of "
              "round 6: the session does overwrite every returned COUNT array; overwriting the returned BINS is not generated while "
              "this entry is listed. Proposed patch: `return (numpy.array(mag_bins), out)` at both retbins returns of magnitude_counts."),
]
_AWAIT = {w["cls"] for w in AWAITING_DECISION}

STATES = ["bins", "bins", "unset", "absent", "noregion"]
CALL_OPS = ("smc", "mc", "midx", "sc", "sep", "df")


# ----------------------------------------------------------------------------- sessions on shared objects, in every region state
def gen_state_seq(rng, tier):
    """A SESSION: one region object shared by TWO catalog objects; a random sequence of gridding calls on either catalog
    (explicit / region-bound bins, retbins, tol, data-frame columns with and without the datetime index) interleaved with what a
    caller may do in between: re-bind `region.magnitudes` to another grid, overwrite magnitudes of a catalog's event array in
    place, filter a catalog in place (possibly emptying it). After every step the result must be the exact recount of the
    catalog AS IT IS NOW on the bins that step must use."""
    from . import c03 as base
    from . import c01
    from csep.utils.constants import CSEP_MW_BINS
    grids = []
    while len(grids) < 3:
        start, step, nb = base.gen_edges(rng)
        e = [float(x) for x in base.edges_array(start, step, nb, rng.choice(["library", "explicit"]))]
        if e not in grids:
            grids.append(e)
    state = rng.choice(STATES)
    sizes = [rng.choice([0, 0, 1, 2, 3, 5, 10, 30]), rng.choice([0, 1, 3, 8])]
    frac_out = rng.choice([0.0, 0.0, 0.0, 0.1])
    frac_below = rng.choice([0.0, 0.0, 0.1])
    if rng.random() < 0.6:
        spec = c01._spec_cells_tuple(c01.gen_lattice(rng, "quick"))
        region, cells, flags = c01.build_region(spec)
        orc = c01.Oracle(region, cells, flags)
        catlocs = []
        for n in sizes:
            locs = base.gen_events_cart(rng, region, orc, n, frac_out) if n else []
            locs = [p for p in locs if not (orc.ax.allowed(p[0])[2] or orc.ay.allowed(p[1])[2])]
            if orc.ax.n == 1:
                locs = [p for p in locs if Fraction(p[0]) < orc.ax.top]
            if orc.ay.n == 1:
                locs = [p for p in locs if Fraction(p[1]) < orc.ay.top]
            catlocs.append(locs)
        where = dict(kind="stateseq", rkind="cart", region=spec)
    else:
        region, _ = base.quad_region(rng, None)
        catlocs = [base.gen_events_quad(rng, region, n, frac_out) if n else [] for n in sizes]
        where = dict(kind="stateseq", rkind="quad", quadkeys=[str(k) for k in region.quadkeys])
    # target positions for the caller's in-place coordinate edits: positions of other events, plus a few fresh ones (some outside)
    if where["rkind"] == "cart":
        extra_locs = base.gen_events_cart(rng, region, orc, 6, 0.34)
        extra_locs = [p for p in extra_locs if not (orc.ax.allowed(p[0])[2] or orc.ay.allowed(p[1])[2])]
        if orc.ax.n == 1:
            extra_locs = [p for p in extra_locs if Fraction(p[0]) < orc.ax.top]
        if orc.ay.n == 1:
            extra_locs = [p for p in extra_locs if Fraction(p[1]) < orc.ay.top]
    else:
        extra_locs = base.gen_events_quad(rng, region, 6, 0.34)
    move_pool = [tuple(p) for locs in catlocs for p in locs] + [tuple(p) for p in extra_locs]
    dflt = [float(x) for x in CSEP_MW_BINS]
    alledges = sorted(set(x for e in grids for x in e) | set(dflt))

    def clear(m):
        return all(m == x or abs(m - x) > 1e-6 for x in alledges)

    def one_mag():
        m = base.gen_mags(rng, rng.choice(grids), 1, frac_below)[0]
        for _try in range(20):
            if clear(m):
                return m
            m = base.gen_mags(rng, rng.choice(grids), 1, frac_below)[0]
        return float(max(alledges) + 1.0)
    cats = [[[repr(p[0]), repr(p[1]), repr(one_mag())] for p in locs] for locs in catlocs]
    ops = []
    for _ in range(rng.randint(3, 9)):
        k = rng.random()
        if k < 0.12 and state != "noregion":
            ops.append(["rebind", rng.choice([0, 1, 2])])
            # … and the next call is region-bound: it must grid against the bins bound NOW
            ops.append([rng.choice(["smc", "mc", "midx", "df"]), None, "list", dict(retbins=False, with_datetime=False), rng.randrange(2)])
        elif k < 0.2:
            ops.append(["edit", rng.randrange(2), rng.randrange(64), repr(one_mag())])
        elif k < 0.33 and move_pool:
            # the caller changes event COORDINATES in place: one element, a whole column, or through its own ndarray the catalog shares
            tgt = rng.choice(move_pool)
            ops.append(["move", rng.randrange(2), rng.randrange(64), rng.choice(["element", "column", "shared"]), repr(tgt[0]), repr(tgt[1])])
            ops.append([rng.choice(["sc", "sep", "smc", "df", "smc"]), None, "list", dict(retbins=False, with_datetime=False), ops[-1][1]])
        elif k < 0.38:
            # (i) a call on the catalog that the library rejects, caught by the caller; the legal calls after it are judged as usual
            ops.append(["reject", rng.randrange(2), rng.choice(["filter-bad-operator", "filter-good-then-bad", "mc-bins-int", "smc-bins-str",
                                                                 "filter-no-statement"])])
            ops.append([rng.choice(["sc", "smc", "mc", "df"]), None, "list", dict(retbins=False, with_datetime=False), ops[-1][1]])
        elif k < 0.46:
            g = rng.choice(grids)
            ops.append(["filter", rng.randrange(2), repr(rng.choice(g + [g[0] - 1.0, g[-1] + 50.0]))])
        else:
            op = rng.choice(["smc", "smc", "mc", "mc", "mc", "midx", "sc", "sep", "df"])
            g = rng.choice([None, None, 1, 2, 0]) if op in ("smc", "mc") else None
            extra = dict(retbins=bool(op == "mc" and rng.random() < 0.4))
            if op in ("smc", "mc") and rng.random() < 0.15:
                extra["tol"] = rng.choice([1e-9, 1e-12])
            if op == "df":
                extra["with_datetime"] = rng.random() < 0.5
            ops.append([op, g, rng.choice(["list", "ndarray", "tuple", "positional"]), extra, rng.randrange(2)])
    return dict(where, from_ndarray=True, state=state, grids=[[repr(x) for x in e] for e in grids], ops=ops, catalogs=cats,
                dup_times=rng.random() < 0.5)


def _enc_edges(e):
    return ",".join(frac(x) for x in e)


def _session_cat(region, evs, dup_times, from_ndarray=False, owned=None):
    from csep.core.catalogs import CSEPCatalog
    # events may share an origin time (duplicated labels of the datetime-indexed data frame)
    data = [(str(k), 1000 * (k // 3 if dup_times else k), float(lat), float(lon), 10.0, float(m)) for k, (lon, lat, m) in enumerate(evs)]
    if from_ndarray:
        arr = numpy.array(data, dtype=CSEPCatalog.dtype)        # the CALLER's array; the catalog may or may not share its memory
        if owned is not None:
            owned.append(arr)
        return CSEPCatalog(data=arr, region=region)
    if owned is not None:
        owned.append(None)
    return CSEPCatalog(data=data, region=region)


def _guarded(fn):
    """Lesson: a harness crash is a missed detection. An exception while the implementation's output is being interpreted
    (unexpected shape / dtype / type / missing key) is reported as an oracle failure with the case as replay, not as exit 2.
    Driver failures and KeyboardInterrupt still propagate."""
    import functools

    @functools.wraps(fn)
    def wrapper(run, *args, **kw):
        try:
            return fn(run, *args, **kw)
        except (RuntimeError, KeyboardInterrupt, MemoryError):
            raise
        except Exception as ex:
            case = next((a for a in args if isinstance(a, dict)), None)
            import traceback
            where = traceback.extract_tb(ex.__traceback__)[-1]
            run.oracle_failure(case, f"the implementation's output could not be interpreted ({type(ex).__name__}: {ex} at "
                                     f"{where.name}:{where.lineno}): it deviates in shape / type from what the property describes")
    return wrapper


@_guarded
def state_seq_case(run, drv, pending, case):
    from . import c03 as base
    from . import c01
    from csep.utils.constants import CSEP_MW_BINS
    grids = [[float(x) for x in e] for e in case["grids"]]
    if "catalogs" in case:
        cur = [[(float(a), float(b), float(c)) for a, b, c in cat] for cat in case["catalogs"]]
    else:                                   # phase-1 replay format: one catalog
        cur = [[(float(a), float(b), float(c)) for a, b, c in case["events"]], []]
    state = case["state"]
    dflt = [float(x) for x in CSEP_MW_BINS]
    if case["rkind"] == "cart":
        spec = c01._spec_cells_tuple(case["region"])
        region, cells, flags = c01.build_region(spec)
        orc = c01.Oracle(region, cells, flags)

        def cell_of(lon, lat):
            a = orc.at(orc.ax.exact(lon, Fraction(lon)), orc.ay.exact(lat, Fraction(lat)))
            return None if a == "o" else a
        ncell, cart = len(cells), True
        rargs = base.cart_args_of(region, cells, flags)
    else:
        from csep.core.regions import QuadtreeGrid2D
        region = QuadtreeGrid2D.from_quadkeys(list(case["quadkeys"]))
        cell_of = base.quad_cell_of(_qt_bounds(region))
        ncell, cart = len(case["quadkeys"]), False
        b = _qt_bounds(region)
        rargs = [",".join(frac(v) for v in b[:, c]) for c in range(4)]
    if state == "bins":
        region.magnitudes = numpy.array(grids[0])
    elif state == "unset":
        region.magnitudes = None
    elif state == "absent":
        region.magnitudes = None
        del region.magnitudes
    dup = bool(case.get("dup_times"))
    owned = []
    catobjs = [_session_cat(None if state == "noregion" else region, evs, dup, bool(case.get("from_ndarray")), owned)
               for evs in cur]   # TWO catalogs, ONE region
    run.case(case if run.evaluations < 4 else None, ("stateseq", json.dumps(case, sort_keys=True, default=str)))
    run.count("stateseq:" + state)

    def rec(edges, ci):
        return base.recount(ncell, cell_of, list(edges), cur[ci], cart)
    bound = {"bins": grids[0], "unset": None, "absent": "absent", "noregion": "noregion"}[state]
    default_used, not_written_seen = False, False
    segments = []                           # model: one `runCalls` per (catalog, events, region state) segment

    def benc():
        return "b:" + _enc_edges(bound) if isinstance(bound, list) else {None: "unset", "absent": "absent", "noregion": "noregion"}[bound]

    def new_segment(ci):
        segments.append(dict(ci=ci, evs=list(cur[ci]), bound=benc(), calls=[], results=[]))

    def fail(step, msg):
        run.oracle_failure(dict(case, failed_step=step), msg)

    def describe(step):
        out = []
        for o in case["ops"][:step]:
            out.append(o[0] + (f"(cat {o[4]}, {'bound' if o[1] is None else 'grid ' + str(o[1])})" if o[0] in CALL_OPS else str(o[1:])))
        return out
    for step, op_ in enumerate(case["ops"]):
        op = op_[0]
        # ------------------------------------------------ what a caller does between calls
        if op == "rebind":
            if state == "noregion":
                continue
            region.magnitudes = numpy.array(grids[op_[1]])
            bound = grids[op_[1]]
            run.count("stateseq:caller-rebinds-region-bins")
            segments.append(None)
            continue
        if op == "edit":
            ci, j, m = op_[1], op_[2], float(op_[3])
            if cur[ci]:
                j %= len(cur[ci])
                try:
                    catobjs[ci].catalog["magnitude"][j] = m
                except Exception as ex:
                    fail(step, f"writing a magnitude into the catalog's event array raised {type(ex).__name__}: {ex}")
                    return
                cur[ci][j] = (cur[ci][j][0], cur[ci][j][1], m)
                run.count("stateseq:caller-edits-events-in-place")
                segments.append(None)
            continue
        if op == "move":
            ci, j, how, nlon, nlat = op_[1], op_[2], op_[3], float(op_[4]), float(op_[5])
            if cur[ci]:
                j %= len(cur[ci])
                try:
                    arr = catobjs[ci].catalog
                    mine = owned[ci] if ci < len(owned) else None
                    if how == "shared" and mine is not None and len(mine) == len(arr) and numpy.shares_memory(mine, arr):
                        mine["longitude"][j] = nlon             # through the caller's own ndarray
                        mine["latitude"][j] = nlat
                        run.count("stateseq:caller-moves-event-through-its-shared-ndarray")
                    elif how == "column":
                        lo_, la_ = arr["longitude"].copy(), arr["latitude"].copy()
                        lo_[j], la_[j] = nlon, nlat
                        arr["longitude"] = lo_                  # whole-column assignment into the public structured array
                        arr["latitude"] = la_
                        run.count("stateseq:caller-assigns-coordinate-columns-in-place")
                    else:
                        arr["longitude"][j] = nlon
                        arr["latitude"][j] = nlat
                        run.count("stateseq:caller-moves-event-in-place")
                except Exception as ex:
                    fail(step, f"writing coordinates into the catalog's event array raised {type(ex).__name__}: {ex}")
                    return
                cur[ci][j] = (nlon, nlat, cur[ci][j][2])
                segments.append(None)
            continue
        if op == "reject":
            ci, what = op_[1], op_[2]
            try:
                c_ = catobjs[ci]
                if what == "filter-bad-operator":
                    c_.filter("magnitude >> 4.0")
                elif what == "filter-good-then-bad":
                    c_.filter(["magnitude >= -1000.0", "nonsense_column > 1"])
                elif what == "mc-bins-int":
                    c_.magnitude_counts(mag_bins=5)
                elif what == "smc-bins-str":
                    c_.spatial_magnitude_counts(mag_bins="abc")
                elif getattr(c_, "filters", None):
                    # the catalog carries filter statements from an earlier step: filter() without arguments is then a LEGAL call
                    # (it re-applies them to the events as they are now), not a rejected one — left out in that state
                    run.count("stateseq:rejected-call:filter-no-statement:left-out(catalog-carries-filters)")
                    continue
                else:
                    c_.filter()
                run.count(f"stateseq:rejected-call:{what}:accepted")
            except Exception as ex:
                run.count(f"stateseq:rejected-call:{what}:{type(ex).__name__}")
            segments.append(None)
            continue
        if op == "filter":
            ci, thr = op_[1], float(op_[2])
            try:
                catobjs[ci].filter(f"magnitude >= {thr!r}")
            except Exception as ex:
                fail(step, f"filter raised {type(ex).__name__}: {ex}")
                return
            cur[ci] = [e for e in cur[ci] if e[2] >= thr]
            run.count("stateseq:filtered-in-place" + (":emptied" if not cur[ci] else ""))
            segments.append(None)
            continue
        # ------------------------------------------------ a gridding call
        g, how = op_[1], op_[2]
        extra = op_[3] if isinstance(op_[3], dict) else dict(retbins=bool(op_[3]))
        ci = op_[4] if len(op_) > 4 else 0
        retbins = bool(extra.get("retbins"))
        cat, evs, n = catobjs[ci], cur[ci], len(cur[ci])
        cells_ev = [cell_of(lon, lat) for lon, lat, _ in evs]
        anyout = any(c is None for c in cells_ev)
        kw = {}
        if g is not None:
            kw["mag_bins"] = tuple(grids[g]) if how == "tuple" else (numpy.array(grids[g]) if how in ("ndarray", "positional")
                                                                      else list(grids[g]))
        arg_snapshot = None if g is None else [float(x) for x in kw["mag_bins"]]
        pos = []
        if how == "positional" and g is not None and op in ("smc", "mc"):
            pos = [kw.pop("mag_bins")]                   # the bins as the first positional argument
            run.count("stateseq:call-form:positional-bins")
        elif how == "tuple" and g is not None:
            run.count("stateseq:call-form:tuple-bins")
        if retbins:
            kw["retbins"] = True
        if "tol" in extra:
            kw["tol"] = extra["tol"]
        if not segments or segments[-1] is None or segments[-1]["ci"] != ci:
            if segments and segments[-1] is None:
                segments.pop()
            new_segment(ci)
        # ---- what the property demands of this step
        alt = None
        if op in ("smc", "mc"):
            if g is not None:
                use = grids[g]
                if op == "smc" and bound in ("absent", "noregion"):
                    use = "raise"           # no usable region object
                    if bound == "absent":
                        alt = "explicit"    # a rewrite that looks at mag_bins first may simply count
            elif isinstance(bound, list):
                use = bound
            elif op == "mc":
                use = dflt                  # documented default (D41)
            else:
                use = "raise"
        elif op in ("midx", "df"):
            use = bound if isinstance(bound, list) else ("raise" if op == "midx" else "noidx")
            if op == "df" and bound == "noregion":
                use = "plain"
        else:
            use = "raise" if bound == "noregion" else "region"
        enc = {"mc": f"mc:{_enc_edges(grids[g]) if g is not None else 'none'}:{int(retbins)}",
               "smc": f"smc:{_enc_edges(grids[g]) if g is not None else 'none'}", "midx": "midx", "sc": "sc", "sep": "sep"}.get(op)
        # ---- the call (every access to the output is guarded: a deviation is an output, not a crash)
        retb = retb_raw = None
        try:
            raw = None
            if op == "smc":
                raw = cat.spatial_magnitude_counts(*pos, **kw)
                got = base._ints(raw)
            elif op == "mc":
                r = cat.magnitude_counts(*pos, **kw)
                if retbins:
                    if not (isinstance(r, tuple) and len(r) == 2):
                        fail(step, "magnitude_counts(retbins=True) did not return (bins, counts)")
                        return
                    retb_raw = r[0]
                    retb, r = [float(x) for x in numpy.asarray(r[0], dtype=float).ravel()], r[1]
                got = base._ints(r)
                raw = r
            elif op == "midx":
                raw = cat.get_mag_idx()
                got = base._ints(raw)
            elif op == "sc":
                raw = cat.spatial_counts()
                got = base._ints(raw)
            elif op == "sep":
                raw = cat.spatial_event_probability()
                got = base._ints(raw)
            else:
                df = cat.to_dataframe(with_datetime=bool(extra.get("with_datetime")))
                cols = list(df.columns)
                if len(df) != n:
                    fail(step, f"to_dataframe has {len(df)} rows for {n} events")
                    return

                def col(name):
                    # integers; a missing value (NaN / None / <NA>) of a friendlier rewrite is kept as None
                    if name not in cols:
                        return None
                    out = []
                    for v in df[name].tolist():
                        try:
                            out.append(None if v is None or v != v else (int(v) if float(v) == int(v) else "non-integer"))
                        except (TypeError, ValueError):
                            out.append(None)
                    return out
                got = ("df", col("region_id"), col("mag_id"))
        except Exception as ex:      # a rejection; the exception class is not part of the property
            got = "E"
            run.count("stateseq:rejection-class:" + type(ex).__name__)
        # ALIASING: the caller scribbles over the array it was handed (later calls must not notice), and the bins it passed are untouched
        try:
            if retbins and "retbins-aliases-region-bins" not in _AWAIT and isinstance(retb_raw, numpy.ndarray) and retb_raw.size:
                retb_raw[...] = -1.0          # generated once W-C03-2 is decided: the returned bins overwritten by the caller
            if isinstance(raw, numpy.ndarray) and raw.size and raw.flags.writeable:
                raw[...] = -7
                run.count("stateseq:caller-overwrites-returned-array")
        except Exception:
            pass
        if arg_snapshot is not None:
            passed = pos[0] if pos else kw.get("mag_bins")
            if [float(x) for x in passed] != arg_snapshot:
                fail(step, f"step {step} {op}: the magnitude bins passed by the caller were modified by the call")
                return
        run.count(f"stateseq:{state}:{op}:{'explicit' if g is not None else 'bound'}")
        if "tol" in extra:
            run.count("stateseq:tol-argument")
        # ---- expected
        if op == "df":
            raised = isinstance(got, str)
            if use == "plain":
                ok = (not raised) and got[1] is None and got[2] is None
                want = "a frame without region_id / mag_id"
            else:
                # An event in no cell must not be given the cell of another event (no silent misplacement): the frame is rejected
                # (Cartesian lookup raises; quadtree: pandas rejects the shorter column) or the event's region_id is not a cell index
                # (missing / negative). Incidental, accepted but not demanded: the quadtree lookup of the current code raises on an
                # EMPTY catalog — the empty frame is what the property's statement gives.
                wrid = [c for c in cells_ev]
                wmid = [-1 if x is None else x for x in rec(use, ci)[5]] if isinstance(use, list) else None
                ncell_now = int(region.num_nodes)

                def rid_ok(g_rid):
                    return isinstance(g_rid, list) and len(g_rid) == n and all(
                        (a == w) if w is not None else (a is None or (isinstance(a, int) and not 0 <= a < ncell_now))
                        for a, w in zip(g_rid, wrid))
                mid_ok = (not raised) and (got[2] == wmid or (wmid == [] and got[2] in ([], None)))
                want = "a rejection, or no cell index for the events in no cell" if (anyout and n > 0) else ("df", wrid, wmid)
                if anyout and n > 0:
                    ok = raised or (rid_ok(got[1]) and mid_ok)
                elif not cart and n == 0:
                    ok = raised or (got[1] in ([], None) and mid_ok)
                else:
                    ok = (not raised) and got[1] == wrid and mid_ok
                if not ok and not raised and state in ("absent", "unset") and default_used and got[1] == wrid and got[2] is None:
                    ok, not_written_seen = True, True       # default bins not written onto the region
            if not ok:
                fail(step, f"region state '{state}': step {step} to_dataframe(with_datetime={extra.get('with_datetime')}) on catalog {ci} "
                           f"after {describe(step)} = {str(got)[:160]}; the property demands {str(want)[:160]}")
                return
            if extra.get("with_datetime") and dup:
                run.count("stateseq:df-datetime-index-duplicate-labels")
            continue
        if use == "raise":
            want = "raise"
        elif use == "region":
            r0 = rec(grids[0], ci)
            want = r0[0] if op == "sc" else r0[1]
        else:
            e_sc, e_sep, e_mc, e_smc, _, bins = rec(use, ci)
            want = {"smc": e_smc, "mc": e_mc, "midx": [-1 if x is None else x for x in bins]}[op]

        def matches(want):
            if want in ("raise", "E"):
                return got == "E"
            return got == want or (want == [] and got == [])
        ok = matches(want)
        if not ok and op in ("sc", "sep") and want == "E" and cart:
            # an event outside a Cartesian region: rejected by the current lookup; leaving it uncounted is admissible as well
            a_sc = [0] * int(region.num_nodes)
            for c in cells_ev:
                if c is not None:
                    a_sc[c] += 1
            ok = got == (a_sc if op == "sc" else [1 if v > 0 else 0 for v in a_sc])
            not_written_seen = not_written_seen or ok      # the model (code as it is) is not compared for this session
        # a region WITHOUT magnitude bins and no explicit bins: the current code raises a configuration error; a friendlier rewrite
        # may fall back to the documented default bins as magnitude_counts does — the exact recount on those bins is accepted too
        if not ok and use == "raise" and op in ("smc", "midx") and g is None and bound in ("unset", "absent", None) and state != "noregion":
            e_d = rec(dflt, ci)
            ok = got == (e_d[3] if op == "smc" else [-1 if x is None else x for x in e_d[5]])
            not_written_seen = not_written_seen or ok
        # the default bins written onto the region (code as it is); a rewrite that does not write them makes later region-bound
        # calls raise instead — both are accepted, per step
        if not ok and state in ("absent", "unset") and default_used and isinstance(bound, list) and op in ("smc", "midx"):
            if op == "midx" or g is None or state == "absent":
                ok = matches("raise")
                not_written_seen = not_written_seen or ok
        if not ok and alt == "explicit":
            ok = matches(rec(grids[g], ci)[3])
            not_written_seen = not_written_seen or ok
        if not ok:
            fail(step, f"region state '{state}': step {step} {op}({'region-bound' if g is None else 'explicit grid ' + str(g)}"
                       f"{', retbins=True' if retbins else ''}{', tol=' + str(extra['tol']) if 'tol' in extra else ''}) on catalog {ci} "
                       f"({n} events) after {describe(step)} = {str(got)[:160]}; the property demands {str(want)[:160]}")
            return
        if retbins and retb is not None and isinstance(use, list) and retb != [float(x) for x in use]:
            fail(step, f"step {step} magnitude_counts(retbins=True) returned bins {retb[:6]}…, the bins it must use are {use[:6]}…")
            return
        if retbins and retb is not None:
            run.count("stateseq:retbins")
        if n == 0 and g is not None and isinstance(bound, list) and len(bound) != len(grids[g]):
            run.count("stateseq:empty-catalog+explicit-bins-of-other-length")
        segments[-1]["calls"].append(enc)
        segments[-1]["results"].append((step, op, got, retb))
        if op == "mc" and g is None and not isinstance(bound, list):
            run.count("stateseq:default-bins-used:" + str(bound))
            if bound in ("absent", None):
                bound = dflt                # as the code is: the default bins are now bound to the region
                default_used = True
                segments.append(None)       # the model continues from the new state in a fresh segment (also checks the write)
    # ---- the event arrays afterwards: exactly what the caller made them (gridding never writes into the catalog)
    for ci, cobj in enumerate(catobjs):
        try:
            c_ = cobj.catalog
            now = [(float(c_["longitude"][k]), float(c_["latitude"][k]), float(c_["magnitude"][k])) for k in range(len(c_))]
        except Exception as ex:
            fail(len(case["ops"]), f"reading the catalog's event array raised {type(ex).__name__}: {ex}")
            return
        if now != [tuple(map(float, e)) for e in cur[ci]]:
            fail(len(case["ops"]), f"the event array of catalog {ci} was changed by the gridding calls of the session")
            return
    # ---- the bins bound to the region afterwards
    try:
        has = hasattr(region, "magnitudes")
        mags_now = None if not has or region.magnitudes is None else [float(x) for x in numpy.asarray(region.magnitudes, dtype=float).ravel()]
    except Exception as ex:
        fail(len(case["ops"]), f"reading region.magnitudes raised {type(ex).__name__}: {ex}")
        return
    if state != "noregion":
        if isinstance(bound, list) and not default_used and mags_now != bound:
            fail(len(case["ops"]), f"the magnitude bins bound to the region object were changed by the session: {str(mags_now)[:80]} "
                                   f"instead of {str(bound)[:80]}")
            return
        if not isinstance(bound, list) and mags_now is not None:
            fail(len(case["ops"]), f"bins appeared on a region without bins: {str(mags_now)[:80]}")
            return
        if default_used and mags_now is not None and mags_now != bound:
            fail(len(case["ops"]), f"after the default bins were used the region carries {str(mags_now)[:80]}")
            return
        if default_used and mags_now is None:
            not_written_seen = True
    # ---- model (the code as it is); skipped when the implementation visibly does not write the default bins / reads mag_bins first
    if not_written_seen:
        run.count("stateseq:default-bins-not-written or explicit-bins-first (model not compared)")
        return
    for seg in segments:
        if seg is None or not seg["calls"]:
            continue
        evs = seg["evs"]
        lons = ",".join(frac(ev[0]) for ev in evs) if evs else "-"
        lats = ",".join(frac(ev[1]) for ev in evs) if evs else "-"
        mags = ",".join(frac(ev[2]) for ev in evs) if evs else "-"
        q = drv.ask(" ".join(["c03_seqc" if cart else "c03_seqq"] + rargs + [lons, lats, mags, seg["bound"], ";".join(seg["calls"])]))
        pending.append(("stateseq", case, q, [(op, got, retb) for _, op, got, retb in seg["results"]]))


def _canon_model_tok(tok):
    """model token -> (kind, payload) comparable with the implementation's canonical result"""
    if tok.startswith("E:value"):
        return "E", None
    if tok.startswith("E:config"):
        return "raise", None
    name, v = tok.split(":", 1)
    bins = None
    if name == "vb":
        b, v = v.split("!")
        bins = [Fraction(x) for x in b.split(",")] if b != "-" else []
    if name == "m":
        val = [] if v == "-" else [[int(t) for t in r.split(",")] if r != "-" else [] for r in v.split(";")]
    else:
        val = [] if v == "-" else [int(t) for t in v.split(",")]
    return val, bins


def flush(run, drv, pending):
    out = drv.run()
    for item in pending:
        if item[0] == "stateseq":
            _, case, q, results = item
            line = out[q]
            if " state:" not in line:
                run.mismatch(case, "impl", line[:300])
                continue
            toks = line.split(" state:")[0].split("|")
            if len(toks) != len(results):
                run.mismatch(case, f"{len(results)} results", line[:300])
                continue
            for step, (tok, (op, got, retb)) in enumerate(zip(toks, results)):
                val, bins = _canon_model_tok(tok)
                if val in ("raise", "E"):
                    same = got == "E"
                else:
                    same = (got == val) or (val == [] and got == []) or (op == "smc" and val == [] and got == [])
                    if same and bins is not None and retb is not None:
                        same = [Fraction(x) for x in retb] == bins
                if not same:
                    run.mismatch(dict(case, failed_step=step, op=op), str(got)[:200], tok[:300])
                    break
        elif item[0] == "big":
            _, case, q, got = item
            toks = out[q].split(" ")
            if len(toks) != 4:
                run.mismatch(case, "impl", out[q][:200])
                continue
            from . import c03 as base
            model = tuple(base._parse(t) for t in toks)
            if model != tuple(got):
                run.mismatch(case, [str(x)[:150] for x in got], out[q][:400])
        else:
            _, case, q, got = item
            line = out[q]
            if line == "E":
                model = "E"
            elif line == "-":
                model = []
            else:
                model = [[int(t) for t in r.split(",")] if r != "-" else [] for r in line.split(";")] if line != "bad-op" else "bad-op"
            if model != got and not (model == [] and got == []):
                run.mismatch(case, str(got)[:200], line[:300])
    pending.clear()
    drv.lines = []


# ----------------------------------------------------------------------------- CatalogForecast.get_expected_rates
def gen_expected_case(rng, tier):
    from . import c03 as base
    from . import c01
    start, step, nb = base.gen_edges(rng)
    edges = [float(x) for x in base.edges_array(start, step, nb, rng.choice(["library", "explicit"]))]
    ncat = rng.choice([1, 1, 2, 3, 5, 8])
    frac_out = rng.choice([0.0, 0.0, 0.0, 0.0, 0.05])
    frac_below = rng.choice([0.0, 0.0, 0.0, 0.0, 0.05])
    sizes = [rng.choice([0, 1, 2, 3, 5, 10, 25]) for _ in range(ncat)]
    if rng.random() < 0.6:
        spec = c01._spec_cells_tuple(c01.gen_lattice(rng, "quick"))
        region, cells, flags = c01.build_region(spec)
        orc = c01.Oracle(region, cells, flags)
        cats = []
        for n in sizes:
            locs = base.gen_events_cart(rng, region, orc, n, frac_out) if n else []
            locs = [p for p in locs if not (orc.ax.allowed(p[0])[2] or orc.ay.allowed(p[1])[2])]
            if orc.ax.n == 1:
                locs = [p for p in locs if Fraction(p[0]) < orc.ax.top]
            if orc.ay.n == 1:
                locs = [p for p in locs if Fraction(p[1]) < orc.ay.top]
            cats.append(locs)
        where = dict(kind="expected", rkind="cart", region=spec)
    else:
        region, _ = base.quad_region(rng, None)
        cats = [base.gen_events_quad(rng, region, n, frac_out) if n else [] for n in sizes]
        where = dict(kind="expected", rkind="quad", quadkeys=[str(k) for k in region.quadkeys])
    out = []
    for locs in cats:
        mags = base.gen_mags(rng, edges, len(locs), frac_below)
        out.append([[repr(p[0]), repr(p[1]), repr(m)] for p, m in zip(locs, mags)])
    # carried filters applied by the forecast itself while get_expected_rates makes the FIRST pass (apply_filters=True)
    thr = None
    if rng.random() < 0.35:
        thr = repr(rng.choice(edges + [edges[0] - 1.0]))
    return dict(where, edges=[repr(x) for x in edges], catalogs=out, source=rng.choice(["list", "list", "generator", "generator-nostore"]),
                bind_other=rng.random() < 0.3, filter_thr=thr,
                # round 7: (l) ONE catalog object is member of the forecast twice; (h) the forecast's region is used through a copy
                two_roles=rng.random() < 0.15, region_copy=rng.choice([None, None, None, "copy", "deepcopy", "pickle"]))


@_guarded
def expected_case(run, drv, pending, case):
    from . import c03 as base
    from . import c01
    from csep.core.forecasts import CatalogForecast
    from csep.core.regions import CartesianGrid2D
    edges = [float(x) for x in case["edges"]]
    catevs = [[(float(a), float(b), float(c)) for a, b, c in cat] for cat in case["catalogs"]]
    if case["rkind"] == "cart":
        spec = c01._spec_cells_tuple(case["region"])
        region, cells, flags = c01.build_region(spec)
        orc = c01.Oracle(region, cells, flags)

        def cell_of(lon, lat):
            a = orc.at(orc.ax.exact(lon, Fraction(lon)), orc.ay.exact(lat, Fraction(lat)))
            return None if a == "o" else a
        ncell, cart = len(cells), True
        rargs = base.cart_args_of(region, cells, flags)
    else:
        from csep.core.regions import QuadtreeGrid2D
        region = QuadtreeGrid2D.from_quadkeys(list(case["quadkeys"]))
        cell_of = base.quad_cell_of(_qt_bounds(region))
        ncell, cart = len(case["quadkeys"]), False
        b = _qt_bounds(region)
        rargs = [",".join(frac(v) for v in b[:, c]) for c in range(4)]
    region.magnitudes = numpy.array(edges)
    # the catalogs come bound to nothing, or to ANOTHER region with other bins: the forecast's grid must be used
    other = None
    if case.get("bind_other"):
        other = CartesianGrid2D.from_origins(numpy.array([[0.0, 0.0], [1.0, 0.0], [0.0, 1.0], [1.0, 1.0]]), dh=1.0,
                                             magnitudes=numpy.array([1.0, 2.0]))
    if case.get("region_copy"):
        r2 = base.copy_obj(region, case["region_copy"])
        run.count(f"expected:region-copy:{case['region_copy']}:{'ok' if r2 is not None else 'unsupported-by-the-tree'}")
        region = region if r2 is None else r2
    cats = [base._cat(other, evs) for evs in catevs]
    if case.get("two_roles") and cats:
        cats.append(cats[0])                       # the same catalog OBJECT a second time: its events count twice
        catevs = list(catevs) + [catevs[0]]
        run.count("expected:one-catalog-object-twice")
    ncat = len(cats)
    fkw = {}
    thr = case.get("filter_thr")
    if thr is not None:
        fkw = dict(filters=[f"magnitude >= {float(thr)!r}"], apply_filters=True)
        catevs = [[e for e in evs if e[2] >= float(thr)] for evs in catevs]      # what the forecast must grid
        run.count("expected:carried-filters-first-pass")
    if case["source"] == "list":
        fc = CatalogForecast(catalogs=cats, region=region, **fkw)
    else:
        fc = CatalogForecast(loader=lambda **kw: iter(cats), region=region, store=(case["source"] != "generator-nostore"), **fkw)
    run.count(f"expected:{case['rkind']}:{case['source']}")
    # oracle: recount of every catalog; rejected iff some catalog holds an outside / below-minimum event
    total = [[0] * len(edges) for _ in range(ncell)]
    bad = False
    for evs in catevs:
        smc = base.recount(ncell, cell_of, edges, evs, cart)[3]
        if smc == "E":
            bad = True
            break
        for i, r in enumerate(smc):
            for k, v in enumerate(r):
                total[i][k] += v
    try:
        er = fc.get_expected_rates()
        data = numpy.asarray(er.data, dtype=float)
        got = "ok"
    except Exception as ex:      # a rejection; the class is not judged
        got = "E"
        run.count("expected:rejection-class:" + type(ex).__name__)
    allevs = [e for evs in catevs for e in evs]
    nontriv = ncat > 1 and len(allevs) > 0
    run.case(case if run.evaluations < 4 else None, ("expected", json.dumps(case, sort_keys=True)) if nontriv else None)
    if bad != (got == "E"):
        run.oracle_failure(case, f"get_expected_rates {'returned' if got == 'ok' else 'raised'} although "
                                 f"{'a' if bad else 'no'} catalog holds an event outside the region / below the lowest edge")
        return
    sizes = ",".join(str(len(e)) for e in catevs)
    lons = ",".join(frac(ev[0]) for ev in allevs) if allevs else "-"
    lats = ",".join(frac(ev[1]) for ev in allevs) if allevs else "-"
    mags = ",".join(frac(ev[2]) for ev in allevs) if allevs else "-"
    ed = ",".join(frac(x) for x in edges)
    q = drv.ask(" ".join(["c03_expc" if cart else "c03_expq"] + rargs + [lons, lats, mags, ed, sizes]))
    if got == "E":
        run.count("expected:rejected")
        pending.append(("expected", case, q, "E"))
        return
    if data.shape != (ncell, len(edges)):
        run.oracle_failure(case, f"expected rates have shape {data.shape}, the grid is {(ncell, len(edges))}")
        return
    want = [[v / ncat for v in r] for r in total]            # count / n_cat; another order of the same arithmetic (a running
    # mean, a mean over a stack) may differ in the last bits: compared to rounding (1e-12 relative), counts themselves are integers
    wa = numpy.asarray(want, dtype=float).reshape(data.shape)
    if not numpy.all(numpy.abs(data - wa) <= 1e-12 * numpy.maximum(1.0, numpy.abs(wa))):
        diff = [(i, k) for i in range(ncell) for k in range(len(edges)) if abs(data[i][k] - want[i][k]) > 1e-12 * max(1.0, abs(want[i][k]))][:3]
        run.oracle_failure(case, f"expected rate of (cell, bin) {diff} is {[float(data[i][k]) for i, k in diff]}; the events of "
                                 f"the {ncat} catalogs in those bins divided by {ncat} give {[want[i][k] for i, k in diff]}")
        return
    if fc.n_cat != ncat:
        run.oracle_failure(case, f"n_cat = {fc.n_cat} after get_expected_rates over {ncat} catalogs")
        return
    # the summed integer array the model computes: rate * n_cat recovered exactly from the recount (already equal to `want`)
    pending.append(("expected", case, q, total if ncell and len(edges) else []))
    # marginals of the forecast built from the rates
    try:
        sc = numpy.asarray(fc.spatial_counts(), dtype=float).tolist()
        mc = numpy.asarray(fc.magnitude_counts(), dtype=float).tolist()
    except Exception as ex:
        run.oracle_failure(case, f"spatial_counts / magnitude_counts of the forecast raised {type(ex).__name__}: {ex}")
        return
    tol = 1e-9
    if any(abs(a - sum(r)) > tol * max(1.0, abs(a)) for a, r in zip(sc, want)) or \
            any(abs(mc[k] - sum(r[k] for r in want)) > tol * max(1.0, abs(mc[k])) for k in range(len(edges))):
        run.oracle_failure(case, "marginals of the expected rates differ from the sums of the rate array")


# ----------------------------------------------------------------------------- sizes: many events in one bin, > 2^16 events
DENSE_SIZES = [130, 300, 300, 1000]                 # beyond int8 / uint8 in ONE (cell, bin)
HUGE_SIZES = [33000, 66000, 70000]                  # beyond int16 / uint16 in ONE (cell, bin); catalogs with > 2^16 events
DTYPE_VARIANTS = ["native", "native", "big-endian"]


def gen_big_case(rng, huge):
    """a dense sequence: N events at ONE location and ONE magnitude (one (cell, bin) of a small grid) plus a background"""
    rk = rng.choice(["cart", "quad"])
    edges = rng.choice([[4.0, 5.0, 6.0], [2.5, 3.5], [4.95, 5.95, 6.95, 7.95], [3.0]])
    n = rng.choice(HUGE_SIZES) if huge else rng.choice(DENSE_SIZES)
    n += rng.randrange(0, 50)
    if rk == "cart":
        nx, ny = rng.randint(2, 4), rng.randint(2, 3)
        where = dict(rkind="cart", origins=[[repr(float(i)), repr(float(j))] for i in range(nx) for j in range(ny)], dh="1.0")
        pts = [(i + rng.choice([0.0, 0.25, 0.5]), j + rng.choice([0.0, 0.5])) for i in range(nx) for j in range(ny)]
    else:
        where = dict(rkind="quad", quadkeys=["0", "1", "2", "3"])
        pts = [(-90.0, 40.0), (90.0, 40.0), (-90.0, -40.0), (90.0, -40.0), (0.0, 0.0), (-180.0, 0.0)]
    mags = [edges[0], edges[-1], edges[-1] + 7.5] + [e + 0.5 * (edges[1] - edges[0] if len(edges) > 1 else 1.0) for e in edges]
    dense = (rng.choice(pts), rng.choice(mags))
    second = (rng.choice(pts), rng.choice(mags), rng.choice([0, 0, 256, 65536 - n if huge and n < 65536 else 300]))
    back = [[repr(p[0]), repr(p[1]), repr(m)] for p, m in ((rng.choice(pts), rng.choice(mags)) for _ in range(rng.randint(0, 300)))]
    return dict(kind="big", **where, edges=[repr(x) for x in edges], dense=[repr(dense[0][0]), repr(dense[0][1]), repr(dense[1])],
                n_dense=n, second=[repr(second[0][0]), repr(second[0][1]), repr(second[1]), max(0, second[2])], background=back,
                mode=rng.choice(["bound", "list", "ndarray"]), dtype=rng.choice(DTYPE_VARIANTS), order=rng.choice(["dense-first", "shuffled"]),
                seed=rng.randrange(2 ** 32))


@_guarded
def big_case(run, drv, pending, case):
    from . import c03 as base
    from csep.core.catalogs import CSEPCatalog
    from csep.core.regions import CartesianGrid2D, QuadtreeGrid2D
    edges = [float(x) for x in case["edges"]]
    d = case["dense"]
    evs = [(float(d[0]), float(d[1]), float(d[2]))] * int(case["n_dense"])
    s2 = case["second"]
    evs = evs + [(float(s2[0]), float(s2[1]), float(s2[2]))] * int(s2[3]) + [(float(a), float(b), float(c)) for a, b, c in case["background"]]
    n = len(evs)
    arr_lon = numpy.array([e[0] for e in evs]); arr_lat = numpy.array([e[1] for e in evs]); arr_m = numpy.array([e[2] for e in evs])
    if case["order"] == "shuffled":
        perm = numpy.random.RandomState(case["seed"]).permutation(n)
        arr_lon, arr_lat, arr_m = arr_lon[perm], arr_lat[perm], arr_m[perm]
    bo = ">" if case["dtype"] == "big-endian" else "<"
    dt = numpy.dtype([("id", "S256"), ("origin_time", bo + "i8"), ("latitude", bo + "f8"), ("longitude", bo + "f8"),
                      ("depth", bo + "f8"), ("magnitude", bo + "f8")])
    data = numpy.zeros(n, dtype=dt)
    data["id"] = numpy.arange(n).astype("S256")
    data["origin_time"] = 1000 * numpy.arange(n)
    data["latitude"], data["longitude"], data["magnitude"], data["depth"] = arr_lat, arr_lon, arr_m, 10.0
    if case["rkind"] == "cart":
        origins = numpy.array([[float(a), float(b)] for a, b in case["origins"]])
        region = CartesianGrid2D.from_origins(origins, dh=float(case["dh"]), magnitudes=numpy.array(edges) if case["mode"] == "bound" else None)
        xs = sorted(set(origins[:, 0])); ys = sorted(set(origins[:, 1]))
        olist = [tuple(o) for o in origins.tolist()]

        def cell_of(lon, lat):
            key = (float(numpy.floor(lon)), float(numpy.floor(lat)))      # unit lattice at integer origins: exact
            return olist.index(key) if key in olist else None
        ncell, cart = len(olist), True
        cells = [(xs.index(o[0]), ys.index(o[1])) for o in olist]
        rargs = [",".join(frac(x) for x in region.xs), ",".join(frac(y) for y in region.ys), ",".join(str(i) for i, _ in cells),
                 ",".join(str(j) for _, j in cells), ",".join("1" for _ in cells)]
    else:
        region = QuadtreeGrid2D.from_quadkeys(list(case["quadkeys"]), magnitudes=numpy.array(edges) if case["mode"] == "bound" else None)
        cell_of = base.quad_cell_of(_qt_bounds(region))
        ncell, cart = len(case["quadkeys"]), False
        b = _qt_bounds(region)
        rargs = [",".join(frac(v) for v in b[:, c]) for c in range(4)]
    kw = {} if case["mode"] == "bound" else dict(mag_bins=list(edges) if case["mode"] == "list" else numpy.array(edges))
    run.case(dict(kind="big", n=n, rkind=case["rkind"]), ("big", json.dumps({k: v for k, v in case.items() if k != "background"}, sort_keys=True)))
    run.count(f"big:{'huge' if case['n_dense'] >= 32768 else 'dense'}:{case['rkind']}:{case['dtype']}")
    # exact recount over the DISTINCT events with multiplicities
    import collections
    mult = collections.Counter(zip(arr_lon.tolist(), arr_lat.tolist(), arr_m.tolist()))
    import bisect
    e_sc, e_mc = [0] * ncell, [0] * len(edges)
    e_smc = [[0] * len(edges) for _ in range(ncell)]
    rejected = False
    for (lon, lat, m), k in mult.items():
        c = cell_of(lon, lat)
        bidx = bisect.bisect_right(edges, m) - 1
        if c is None or bidx < 0:
            rejected = True
        if c is not None:
            e_sc[c] += k
        if bidx >= 0:
            e_mc[bidx] += k
        if c is not None and bidx >= 0:
            e_smc[c][bidx] += k
    anyout = any(cell_of(lon, lat) is None for lon, lat, _ in mult)
    want = dict(sc="E" if (cart and anyout) else e_sc, sep="E" if (cart and anyout) else [1 if v else 0 for v in e_sc], mc=e_mc,
                smc="E" if rejected else e_smc)

    def fresh():
        return CSEPCatalog(data=data.copy(), region=region)
    got = dict(sc=base._call(lambda: fresh().spatial_counts()), sep=base._call(lambda: fresh().spatial_event_probability()),
               mc=base._call(lambda: fresh().magnitude_counts(**kw)), smc=base._call(lambda: fresh().spatial_magnitude_counts(**kw)))
    for k in ("sc", "sep", "mc", "smc"):
        if got[k] != want[k] and not (k in ("sc", "sep") and want[k] == "E" and got[k] == (e_sc if k == "sc" else [1 if v else 0 for v in e_sc])):
            run.oracle_failure(case, f"{n} events, {case['n_dense']} of them in one (cell, bin): {k} = {str(got[k])[:150]}, exact recount "
                                     f"{str(want[k])[:150]}")
            return
    if isinstance(got["smc"], list) and sum(map(sum, got["smc"])) != n:
        run.oracle_failure(case, f"total of the space-magnitude array {sum(map(sum, got['smc']))} != number of events {n}")
        return
    try:
        c = fresh()
        if c.event_count != n or c.get_number_of_events() != n:
            run.oracle_failure(case, f"event_count {c.event_count} for {n} events")
            return
        for k in range(len(edges)):
            st = [f"magnitude >= {edges[k]!r}"] + ([f"magnitude < {edges[k + 1]!r}"] if k + 1 < len(edges) else [])
            kept = int(fresh().filter(st, in_place=False).event_count)
            if kept != e_mc[k]:
                run.oracle_failure(case, f"bin {k}: magnitude-range filter keeps {kept} events, the bin holds {e_mc[k]}")
                return
    except Exception as ex:
        run.oracle_failure(case, f"filter on a catalog of {n} events raised {type(ex).__name__}: {ex}")
        return
    cache = {}

    def fr(x):
        if x not in cache:
            cache[x] = frac(x)
        return cache[x]
    lons = ",".join(fr(x) for x in arr_lon.tolist()); lats = ",".join(fr(x) for x in arr_lat.tolist()); mags = ",".join(fr(x) for x in arr_m.tolist())
    q = drv.ask(" ".join(["c03_cart" if cart else "c03_quad"] + rargs + [lons, lats, mags, ",".join(frac(x) for x in edges)]))
    pending.append(("big", case, q, (got["sc"], got["sep"], got["mc"], got["smc"])))


def run_all(run, rng, tier, Driver):
    run.extra["awaiting_decision"] = [f"{w['id']} ({w['cls']}): {w['what']}" for w in AWAITING_DECISION]
    drv, pending = Driver(), []
    for k in range(40 if tier == "quick" else 300):
        big_case(run, drv, pending, gen_big_case(rng, huge=(k < 2 if tier == "quick" else k < 12)))
        if len(pending) >= 10:
            flush(run, drv, pending)
    flush(run, drv, pending)
    for _ in range(450 if tier == "quick" else 4500):
        state_seq_case(run, drv, pending, gen_state_seq(rng, tier))
        if len(pending) >= 80:
            flush(run, drv, pending)
    for _ in range(350 if tier == "quick" else 3500):
        expected_case(run, drv, pending, gen_expected_case(rng, tier))
        if len(pending) >= 80:
            flush(run, drv, pending)
    flush(run, drv, pending)


def replay(run, case, Driver):
    drv, pending = Driver(), []
    if case["kind"] == "big":
        big_case(run, drv, pending, case)
    elif case["kind"] == "stateseq":
        state_seq_case(run, drv, pending, {k: v for k, v in case.items() if k not in ("failed_step", "op")})
    else:
        expected_case(run, drv, pending, case)
    flush(run, drv, pending)
