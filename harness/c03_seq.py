"""C03 (extension) — which magnitude bins a gridding call uses over call sequences on one catalog / region object in every state
of the region (bins bound, `magnitudes is None`, no `magnitudes` attribute, no region), `retbins=True`, the configuration-error
branches, and the accumulation of `CatalogForecast.get_expected_rates` over the catalogs of a forecast.

Correspondence with Model/GriddingSeq.lean (ops c03_seqc / c03_seqq / c03_expc / c03_expq) + exact recount."""
import json
from fractions import Fraction

import numpy

from .core import frac

# Input classes on which the UNCHANGED code misbehaves and that wait for a decision (genuine-defect candidates, notes/C03.md).
# While an entry is listed its class is not generated; delete the entry and the generator produces it and the oracle reports it.
AWAITING_DECISION = [
    dict(id="W-C03-1", cls="mc-default-bins-unreachable",
         what="magnitude_counts() without mag_bins on a catalog whose region carries no bins (region.magnitudes is None) raises "
              "TypeError (len(None), catalogs.py:731) and on a catalog without region AttributeError (catalogs.py:728) although "
              "the docstring promises the default CSEP_MW_BINS; the default is only reached for a region OBJECT WITHOUT the "
              "attribute, where it is also written onto the shared region"),
]
_AWAIT = {w["cls"] for w in AWAITING_DECISION}

STATES = ["bins", "bins", "unset", "absent", "noregion"]


# ----------------------------------------------------------------------------- call sequences in every region state
def gen_state_seq(rng, tier):
    from . import c03 as base
    from . import c01
    from csep.utils.constants import CSEP_MW_BINS
    grids = []
    while len(grids) < 3:
        start, step, nb = base.gen_edges(rng)
        e = [float(x) for x in base.edges_array(start, step, nb, rng.choice(["library", "explicit"]))]
        if e not in grids:
            grids.append(e)
    state = rng.choice(STATES)
    n = rng.choice([0, 1, 2, 3, 5, 10, 30])
    frac_out = rng.choice([0.0, 0.0, 0.0, 0.1])
    frac_below = rng.choice([0.0, 0.0, 0.1])
    if rng.random() < 0.6:
        spec = c01._spec_cells_tuple(c01.gen_lattice(rng, "quick"))
        region, cells, flags = c01.build_region(spec)
        orc = c01.Oracle(region, cells, flags)
        locs = base.gen_events_cart(rng, region, orc, n, frac_out)
        locs = [p for p in locs if not (orc.ax.allowed(p[0])[2] or orc.ay.allowed(p[1])[2])]
        if orc.ax.n == 1:
            locs = [p for p in locs if Fraction(p[0]) < orc.ax.top]
        if orc.ay.n == 1:
            locs = [p for p in locs if Fraction(p[1]) < orc.ay.top]
        where = dict(kind="stateseq", rkind="cart", region=spec)
    else:
        region, _ = base.quad_region(rng, None)
        locs = base.gen_events_quad(rng, region, n, frac_out)
        where = dict(kind="stateseq", rkind="quad", quadkeys=[str(k) for k in region.quadkeys])
    dflt = [float(x) for x in CSEP_MW_BINS]
    alledges = sorted(set(x for e in grids for x in e) | (set(dflt) if state == "absent" else set()))

    def clear(m):
        return all(m == x or abs(m - x) > 1e-6 for x in alledges)
    mags = []
    for _ in locs:
        m = base.gen_mags(rng, rng.choice(grids), 1, frac_below)[0]
        for _try in range(20):
            if clear(m):
                break
            m = base.gen_mags(rng, rng.choice(grids), 1, frac_below)[0]
        else:
            m = float(max(alledges) + 1.0)
        mags.append(m)
    ops = []
    for _ in range(rng.randint(3, 8)):
        op = rng.choice(["smc", "smc", "mc", "mc", "mc", "midx", "sc", "sep"])
        g = rng.choice([None, None, 1, 2, 0]) if op in ("smc", "mc") else None
        if op == "mc" and g is None and state in ("unset", "noregion") and "mc-default-bins-unreachable" in _AWAIT:
            g = rng.choice([0, 1, 2])
        ops.append([op, g, rng.choice(["list", "ndarray"]), bool(op == "mc" and rng.random() < 0.4)])
    return dict(where, state=state, grids=[[repr(x) for x in e] for e in grids], ops=ops,
                events=[[repr(p[0]), repr(p[1]), repr(m)] for p, m in zip(locs, mags)])


def _enc_edges(e):
    return ",".join(frac(x) for x in e)


def state_seq_case(run, drv, pending, case):
    from . import c03 as base
    from . import c01
    from csep.utils.constants import CSEP_MW_BINS
    grids = [[float(x) for x in e] for e in case["grids"]]
    evs = [(float(a), float(b), float(c)) for a, b, c in case["events"]]
    n = len(evs)
    state = case["state"]
    dflt = [float(x) for x in CSEP_MW_BINS]
    if case["rkind"] == "cart":
        spec = c01._spec_cells_tuple(case["region"])
        region, cells, flags = c01.build_region(spec)
        orc = c01.Oracle(region, cells, flags)

        def cell_of(lon, lat):
            a = orc.at(orc.ax.exact(lon, Fraction(lon)), orc.ay.exact(lat, Fraction(lat)))
            return None if a == "o" else a
        ncell, cart = len(cells), True
        rargs = base.cart_args_of(region, cells, flags)
    else:
        from csep.core.regions import QuadtreeGrid2D
        region = QuadtreeGrid2D.from_quadkeys(list(case["quadkeys"]))
        cell_of = base.quad_cell_of(region.bounds)
        ncell, cart = len(case["quadkeys"]), False
        b = numpy.asarray(region.bounds, dtype=float)
        rargs = [",".join(frac(v) for v in b[:, c]) for c in range(4)]
    if state == "bins":
        region.magnitudes = numpy.array(grids[0])
    elif state == "unset":
        region.magnitudes = None
    elif state == "absent":
        region.magnitudes = None
        del region.magnitudes
    cat = base._cat(None if state == "noregion" else region, evs)
    run.case(case if run.evaluations < 4 else None, ("stateseq", json.dumps(case, sort_keys=True, default=str)))
    run.count("stateseq:" + state)
    cache = {}

    def rec(edges):
        k = tuple(edges)
        if k not in cache:
            cache[k] = base.recount(ncell, cell_of, list(edges), evs, cart)
        return cache[k]
    bound = {"bins": grids[0], "unset": None, "absent": "absent", "noregion": "noregion"}[state]
    installed_seen, not_installed_seen = False, False
    results, calls_enc = [], []
    for step, (op, g, how, retbins) in enumerate(case["ops"]):
        kw = {}
        if g is not None:
            kw["mag_bins"] = list(grids[g]) if how == "list" else numpy.array(grids[g])
        if retbins:
            kw["retbins"] = True
        # ---- what the property demands of this step
        alt = None                          # a second acceptable outcome (default bins not written onto the region)
        if op in ("smc", "mc"):
            if g is not None:
                use = grids[g]
                if op == "smc" and bound in ("absent", "noregion"):
                    use = "raise"           # no usable region object
                    if bound == "absent":
                        alt = "explicit"    # a rewrite that looks at mag_bins first may simply count
            elif isinstance(bound, list):
                use = bound
            elif bound == "absent" and op == "mc":
                use = dflt
            else:
                use = "raise"
        elif op == "midx":
            use = bound if isinstance(bound, list) else "raise"
        else:
            use = "raise" if bound == "noregion" else "region"
        calls_enc.append({"mc": f"mc:{_enc_edges(grids[g]) if g is not None else 'none'}:{int(retbins)}",
                          "smc": f"smc:{_enc_edges(grids[g]) if g is not None else 'none'}", "midx": "midx", "sc": "sc",
                          "sep": "sep"}[op])
        # ---- the call
        retb = None
        try:
            if op == "smc":
                got = base._ints(cat.spatial_magnitude_counts(**kw))
            elif op == "mc":
                r = cat.magnitude_counts(**kw)
                if retbins:
                    if not (isinstance(r, tuple) and len(r) == 2):
                        run.oracle_failure(dict(case, failed_step=step), "magnitude_counts(retbins=True) did not return (bins, counts)")
                        return
                    retb, r = [float(x) for x in r[0]], r[1]
                got = base._ints(r)
            elif op == "midx":
                got = base._ints(cat.get_mag_idx())
            elif op == "sc":
                got = base._ints(cat.spatial_counts())
            else:
                got = base._ints(cat.spatial_event_probability())
        except ValueError:
            got = "E"
        except Exception as ex:
            got = "X:" + type(ex).__name__
        run.count(f"stateseq:{state}:{op}:{'explicit' if g is not None else 'bound'}")
        # ---- expected
        if use == "raise":
            want = "raise"
        elif use == "region":
            e_sc, e_sep = rec(grids[0])[0], rec(grids[0])[1]
            want = e_sc if op == "sc" else e_sep
        else:
            e_sc, e_sep, e_mc, e_smc, _, bins = rec(use)
            want = {"smc": e_smc, "mc": e_mc, "midx": [-1 if x is None else x for x in bins]}[op]

        def matches(want):
            if want == "raise":
                return got == "E" or (isinstance(got, str) and got.startswith("X:"))
            if want == "E":
                return got == "E"
            return got == want or (want == [] and got == [])
        ok = matches(want)
        # the default bins written onto the region (absent -> CSEP_MW_BINS): code as it is; a rewrite that does not write them
        # makes later region-bound calls raise instead — both are accepted, per step
        if not ok and state == "absent" and isinstance(bound, list) and op in ("smc", "midx"):
            ok = matches("raise")
            not_installed_seen = not_installed_seen or ok
        if not ok and alt == "explicit":
            ok = matches(rec(grids[g])[3])
            not_installed_seen = not_installed_seen or ok
        if not ok:
            prev = [f"{o}({'bound' if gg is None else 'grid ' + str(gg)})" for o, gg, _, _ in case["ops"][:step]]
            run.oracle_failure(dict(case, failed_step=step),
                               f"region state '{state}': step {step} {op}({'region-bound' if g is None else 'explicit grid ' + str(g)}"
                               f"{', retbins=True' if retbins else ''}) after {prev} = {str(got)[:160]}; the property demands "
                               f"{str(want)[:160]}")
            return
        if retbins and retb is not None and isinstance(use, list) and retb != [float(x) for x in use]:
            run.oracle_failure(dict(case, failed_step=step),
                               f"step {step} magnitude_counts(retbins=True) returned bins {retb[:6]}…, the bins it must use are {use[:6]}…")
            return
        if retbins and retb is not None:
            run.count("stateseq:retbins")
        results.append((op, got, retb))
        if state == "absent" and op == "mc" and g is None and bound == "absent":
            bound = dflt                    # as the code is: the default bins are now bound to the region
            installed_seen = True
            run.count("stateseq:default-bins-used")
    # ---- the bins bound to the region afterwards
    if state == "bins":
        if not numpy.array_equal(numpy.asarray(region.magnitudes, dtype=float), numpy.array(grids[0])):
            run.oracle_failure(case, "the magnitude bins bound to the region object were changed by the call sequence")
            return
    elif state == "unset":
        if region.magnitudes is not None:
            run.oracle_failure(case, f"a region without bins carries bins after the call sequence: {str(region.magnitudes)[:80]}")
            return
    elif state == "absent" and hasattr(region, "magnitudes"):
        if not (installed_seen and numpy.array_equal(numpy.asarray(region.magnitudes, dtype=float), numpy.array(dflt))):
            run.oracle_failure(case, f"bins appeared on the region object: {str(getattr(region, 'magnitudes'))[:80]}")
            return
    # ---- model (the code as it is); skipped when the implementation visibly does not write the default bins
    if state == "absent" and installed_seen and (not_installed_seen or not hasattr(region, "magnitudes")):
        run.count("stateseq:default-bins-not-written (model not compared)")
        return
    if not_installed_seen:
        run.count("stateseq:explicit-bins-first (model not compared)")
        return
    lons = ",".join(frac(ev[0]) for ev in evs) if evs else "-"
    lats = ",".join(frac(ev[1]) for ev in evs) if evs else "-"
    mags = ",".join(frac(ev[2]) for ev in evs) if evs else "-"
    benc = {"bins": "b:" + _enc_edges(grids[0]), "unset": "unset", "absent": "absent", "noregion": "noregion"}[state]
    q = drv.ask(" ".join(["c03_seqc" if cart else "c03_seqq"] + rargs + [lons, lats, mags, benc, ";".join(calls_enc)]))
    pending.append(("stateseq", case, q, results))


def _canon_model_tok(tok):
    """model token -> (kind, payload) comparable with the implementation's canonical result"""
    if tok.startswith("E:value"):
        return "E", None
    if tok.startswith("E:config"):
        return "raise", None
    name, v = tok.split(":", 1)
    bins = None
    if name == "vb":
        b, v = v.split("!")
        bins = [Fraction(x) for x in b.split(",")] if b != "-" else []
    if name == "m":
        val = [] if v == "-" else [[int(t) for t in r.split(",")] if r != "-" else [] for r in v.split(";")]
    else:
        val = [] if v == "-" else [int(t) for t in v.split(",")]
    return val, bins


def flush(run, drv, pending):
    out = drv.run()
    for item in pending:
        if item[0] == "stateseq":
            _, case, q, results = item
            line = out[q]
            if " state:" not in line:
                run.mismatch(case, "impl", line[:300])
                continue
            toks = line.split(" state:")[0].split("|")
            if len(toks) != len(results):
                run.mismatch(case, f"{len(results)} results", line[:300])
                continue
            for step, (tok, (op, got, retb)) in enumerate(zip(toks, results)):
                val, bins = _canon_model_tok(tok)
                if val == "raise":
                    same = isinstance(got, str) and (got == "E" or got.startswith("X:"))
                elif val == "E":
                    same = got == "E"
                else:
                    same = (got == val) or (val == [] and got == []) or (op == "smc" and val == [] and got == [])
                    if same and bins is not None and retb is not None:
                        same = [Fraction(x) for x in retb] == bins
                if not same:
                    run.mismatch(dict(case, failed_step=step, op=op), str(got)[:200], tok[:300])
                    break
        else:
            _, case, q, got = item
            line = out[q]
            if line == "E":
                model = "E"
            elif line == "-":
                model = []
            else:
                model = [[int(t) for t in r.split(",")] if r != "-" else [] for r in line.split(";")] if line != "bad-op" else "bad-op"
            if model != got and not (model == [] and got == []):
                run.mismatch(case, str(got)[:200], line[:300])
    pending.clear()
    drv.lines = []


# ----------------------------------------------------------------------------- CatalogForecast.get_expected_rates
def gen_expected_case(rng, tier):
    from . import c03 as base
    from . import c01
    start, step, nb = base.gen_edges(rng)
    edges = [float(x) for x in base.edges_array(start, step, nb, rng.choice(["library", "explicit"]))]
    ncat = rng.choice([1, 1, 2, 3, 5, 8])
    frac_out = rng.choice([0.0, 0.0, 0.0, 0.0, 0.05])
    frac_below = rng.choice([0.0, 0.0, 0.0, 0.0, 0.05])
    sizes = [rng.choice([0, 1, 2, 3, 5, 10, 25]) for _ in range(ncat)]
    if rng.random() < 0.6:
        spec = c01._spec_cells_tuple(c01.gen_lattice(rng, "quick"))
        region, cells, flags = c01.build_region(spec)
        orc = c01.Oracle(region, cells, flags)
        cats = []
        for n in sizes:
            locs = base.gen_events_cart(rng, region, orc, n, frac_out) if n else []
            locs = [p for p in locs if not (orc.ax.allowed(p[0])[2] or orc.ay.allowed(p[1])[2])]
            if orc.ax.n == 1:
                locs = [p for p in locs if Fraction(p[0]) < orc.ax.top]
            if orc.ay.n == 1:
                locs = [p for p in locs if Fraction(p[1]) < orc.ay.top]
            cats.append(locs)
        where = dict(kind="expected", rkind="cart", region=spec)
    else:
        region, _ = base.quad_region(rng, None)
        cats = [base.gen_events_quad(rng, region, n, frac_out) if n else [] for n in sizes]
        where = dict(kind="expected", rkind="quad", quadkeys=[str(k) for k in region.quadkeys])
    out = []
    for locs in cats:
        mags = base.gen_mags(rng, edges, len(locs), frac_below)
        out.append([[repr(p[0]), repr(p[1]), repr(m)] for p, m in zip(locs, mags)])
    return dict(where, edges=[repr(x) for x in edges], catalogs=out, source=rng.choice(["list", "list", "generator"]),
                bind_other=rng.random() < 0.3)


def expected_case(run, drv, pending, case):
    from . import c03 as base
    from . import c01
    from csep.core.forecasts import CatalogForecast
    from csep.core.regions import CartesianGrid2D
    edges = [float(x) for x in case["edges"]]
    catevs = [[(float(a), float(b), float(c)) for a, b, c in cat] for cat in case["catalogs"]]
    if case["rkind"] == "cart":
        spec = c01._spec_cells_tuple(case["region"])
        region, cells, flags = c01.build_region(spec)
        orc = c01.Oracle(region, cells, flags)

        def cell_of(lon, lat):
            a = orc.at(orc.ax.exact(lon, Fraction(lon)), orc.ay.exact(lat, Fraction(lat)))
            return None if a == "o" else a
        ncell, cart = len(cells), True
        rargs = base.cart_args_of(region, cells, flags)
    else:
        from csep.core.regions import QuadtreeGrid2D
        region = QuadtreeGrid2D.from_quadkeys(list(case["quadkeys"]))
        cell_of = base.quad_cell_of(region.bounds)
        ncell, cart = len(case["quadkeys"]), False
        b = numpy.asarray(region.bounds, dtype=float)
        rargs = [",".join(frac(v) for v in b[:, c]) for c in range(4)]
    region.magnitudes = numpy.array(edges)
    # the catalogs come bound to nothing, or to ANOTHER region with other bins: the forecast's grid must be used
    other = None
    if case.get("bind_other"):
        other = CartesianGrid2D.from_origins(numpy.array([[0.0, 0.0], [1.0, 0.0], [0.0, 1.0], [1.0, 1.0]]), dh=1.0,
                                             magnitudes=numpy.array([1.0, 2.0]))
    cats = [base._cat(other, evs) for evs in catevs]
    ncat = len(cats)
    if case["source"] == "list":
        fc = CatalogForecast(catalogs=cats, region=region)
    else:
        fc = CatalogForecast(loader=lambda **kw: iter(cats), region=region)
    run.count(f"expected:{case['rkind']}:{case['source']}")
    # oracle: recount of every catalog; rejected iff some catalog holds an outside / below-minimum event
    total = [[0] * len(edges) for _ in range(ncell)]
    bad = False
    for evs in catevs:
        smc = base.recount(ncell, cell_of, edges, evs, cart)[3]
        if smc == "E":
            bad = True
            break
        for i, r in enumerate(smc):
            for k, v in enumerate(r):
                total[i][k] += v
    try:
        er = fc.get_expected_rates()
        data = numpy.asarray(er.data, dtype=float)
        got = "ok"
    except ValueError:
        got = "E"
    except Exception as ex:
        run.oracle_failure(case, f"get_expected_rates raised {type(ex).__name__}: {ex}")
        return
    allevs = [e for evs in catevs for e in evs]
    nontriv = ncat > 1 and len(allevs) > 0
    run.case(case if run.evaluations < 4 else None, ("expected", json.dumps(case, sort_keys=True)) if nontriv else None)
    if bad != (got == "E"):
        run.oracle_failure(case, f"get_expected_rates {'returned' if got == 'ok' else 'raised ValueError'} although "
                                 f"{'a' if bad else 'no'} catalog holds an event outside the region / below the lowest edge")
        return
    sizes = ",".join(str(len(e)) for e in catevs)
    lons = ",".join(frac(ev[0]) for ev in allevs) if allevs else "-"
    lats = ",".join(frac(ev[1]) for ev in allevs) if allevs else "-"
    mags = ",".join(frac(ev[2]) for ev in allevs) if allevs else "-"
    ed = ",".join(frac(x) for x in edges)
    q = drv.ask(" ".join(["c03_expc" if cart else "c03_expq"] + rargs + [lons, lats, mags, ed, sizes]))
    if got == "E":
        run.count("expected:rejected")
        pending.append(("expected", case, q, "E"))
        return
    if data.shape != (ncell, len(edges)):
        run.oracle_failure(case, f"expected rates have shape {data.shape}, the grid is {(ncell, len(edges))}")
        return
    want = [[v / ncat for v in r] for r in total]            # the same IEEE division the code does (count / n_cat)
    if data.tolist() != want:
        diff = [(i, k) for i in range(ncell) for k in range(len(edges)) if data[i][k] != want[i][k]][:3]
        run.oracle_failure(case, f"expected rate of (cell, bin) {diff} is {[float(data[i][k]) for i, k in diff]}; the events of "
                                 f"the {ncat} catalogs in those bins divided by {ncat} give {[want[i][k] for i, k in diff]}")
        return
    if fc.n_cat != ncat:
        run.oracle_failure(case, f"n_cat = {fc.n_cat} after get_expected_rates over {ncat} catalogs")
        return
    # the summed integer array the model computes: rate * n_cat recovered exactly from the recount (already equal to `want`)
    pending.append(("expected", case, q, total if ncell and len(edges) else []))
    # marginals of the forecast built from the rates
    try:
        sc = numpy.asarray(fc.spatial_counts(), dtype=float).tolist()
        mc = numpy.asarray(fc.magnitude_counts(), dtype=float).tolist()
    except Exception as ex:
        run.oracle_failure(case, f"spatial_counts / magnitude_counts of the forecast raised {type(ex).__name__}: {ex}")
        return
    tol = 1e-9
    if any(abs(a - sum(r)) > tol * max(1.0, abs(a)) for a, r in zip(sc, want)) or \
            any(abs(mc[k] - sum(r[k] for r in want)) > tol * max(1.0, abs(mc[k])) for k in range(len(edges))):
        run.oracle_failure(case, "marginals of the expected rates differ from the sums of the rate array")


def run_all(run, rng, tier, Driver):
    run.extra["awaiting_decision"] = [f"{w['id']} ({w['cls']}): {w['what']}" for w in AWAITING_DECISION]
    drv, pending = Driver(), []
    for _ in range(450 if tier == "quick" else 4500):
        state_seq_case(run, drv, pending, gen_state_seq(rng, tier))
        if len(pending) >= 80:
            flush(run, drv, pending)
    for _ in range(350 if tier == "quick" else 3500):
        expected_case(run, drv, pending, gen_expected_case(rng, tier))
        if len(pending) >= 80:
            flush(run, drv, pending)
    flush(run, drv, pending)


def replay(run, case, Driver):
    drv, pending = Driver(), []
    if case["kind"] == "stateseq":
        state_seq_case(run, drv, pending, {k: v for k, v in case.items() if k not in ("failed_step", "op")})
    else:
        expected_case(run, drv, pending, case)
    flush(run, drv, pending)
